package main

// WDECTAB: the two-level lookup tables of internal/prefix (Decoder.Init, the table walk of
// ReadSymbol / TryReadSymbol, Encoder.Init and the lookup of WriteSymbol) against the
// implementation-level model coq/Prefix/DecTable.v.
//
//   dectab  : Decoder.Init over recycled (stale) storage, whole VerifDump vs. dec_dump
//   decread : ReadSymbol / TryReadSymbol / ReadBits histories over scripted sources
//             (ReadByte-only, BufferedReader with scripted fills) with the full bit-buffer
//             state, and over a real bytes.Reader (symbols and bit positions)
//   enctab  : Encoder.Init dump, and the lookup observed through a real prefix.Writer
//   encdec  : WriteSymbol* through a Writer, then ReadSymbol* through a Reader

import (
	"bytes"
	"fmt"
	"io"
	"math/rand"
	"sort"
	"strings"

	cerrors "github.com/dsnet/compress/internal/errors"
	"github.com/dsnet/compress/internal/prefix"
	"github.com/dsnet/compress/xflate/verifharness/vhlib"
)

func init() { props["WDECTAB"] = wdectab }

func fmtCodes(codes prefix.PrefixCodes) string {
	if len(codes) == 0 {
		return "-"
	}
	var s []string
	for _, c := range codes {
		s = append(s, fmt.Sprintf("%d:%d:%d", c.Sym, c.Len, c.Val))
	}
	return strings.Join(s, ",")
}

func fmtDump(d []uint32) string {
	if len(d) <= 3000 {
		var s []string
		for _, x := range d {
			s = append(s, fmt.Sprint(x))
		}
		return strings.Join(s, ",")
	}
	h := uint64(0)
	for _, x := range d {
		h = (h*1000003 + uint64(x) + 1) & (1<<40 - 1)
	}
	return fmt.Sprintf("H%d:%d", len(d), h)
}

// spreadSyms: n strictly increasing symbols; dense, or with gaps
func spreadSyms(rng *rand.Rand, n int) []uint32 {
	syms := make([]uint32, n)
	switch rng.Intn(4) {
	case 0: // gaps
		s := uint32(rng.Intn(5))
		for i := range syms {
			syms[i] = s
			s += 1 + uint32(rng.Intn(1+rng.Intn(40)))
		}
	case 1: // offset
		off := uint32(rng.Intn(3000))
		for i := range syms {
			syms[i] = off + uint32(i)
		}
	default:
		for i := range syms {
			syms[i] = uint32(i)
		}
	}
	return syms
}

// genCanonical: the package's own GenerateLengths + GeneratePrefixes on a count vector.
func genCanonical(rng *rand.Rand, n int, maxBits uint, profile int) prefix.PrefixCodes {
	syms := spreadSyms(rng, n)
	codes := make(prefix.PrefixCodes, n)
	a, b := uint64(1), uint64(1)
	for i := range codes {
		var c uint32
		switch profile {
		case 0: // Fibonacci-like: forces the longest codes
			c = uint32(a)
			if a < 1<<31 {
				a, b = b, a+b
			}
		case 1: // geometric with noise
			c = uint32(1) << uint(i%31)
			c += uint32(rng.Intn(3))
		case 2: // uniform small
			c = uint32(rng.Intn(10))
		case 3: // few heavy, many light
			if rng.Intn(8) == 0 {
				c = uint32(rng.Intn(1 << 20))
			} else {
				c = uint32(rng.Intn(4))
			}
		default:
			c = uint32(rng.Int63n(1 << uint(1+rng.Intn(28))))
		}
		codes[i] = prefix.PrefixCode{Sym: syms[i], Cnt: c}
	}
	rng.Shuffle(n, func(i, j int) { codes[i].Cnt, codes[j].Cnt = codes[j].Cnt, codes[i].Cnt })
	codes.SortByCount()
	if err := prefix.GenerateLengths(codes, maxBits); err != nil {
		panic(err)
	}
	codes.SortBySymbol()
	if err := prefix.GeneratePrefixes(codes); err != nil {
		panic(err)
	}
	return codes
}

// genTree: a hand-built complete prefix code from a random binary tree, NOT canonical:
// the 0/1 labels of the two children are chosen at random. deepBias in 0..100: how
// strongly the splitting follows one path (long codes with few link tables).
func genTree(rng *rand.Rand, n int, maxBits int, deepBias int) prefix.PrefixCodes {
	type leaf struct {
		val uint32
		len int
	}
	leaves := []leaf{{0, 0}}
	for len(leaves) < n {
		// pick a leaf to split
		i := rng.Intn(len(leaves))
		if rng.Intn(100) < deepBias {
			// the deepest splittable leaf
			best := -1
			for k, l := range leaves {
				if l.len < maxBits && (best < 0 || l.len > leaves[best].len) {
					best = k
				}
			}
			if best >= 0 {
				i = best
			}
		}
		l := leaves[i]
		if l.len >= maxBits {
			ok := false
			for k, l2 := range leaves {
				if l2.len < maxBits {
					i, l, ok = k, l2, true
					break
				}
			}
			if !ok {
				break
			}
		}
		leaves[i] = leaf{l.val, l.len + 1}
		leaves = append(leaves, leaf{l.val | 1<<uint(l.len), l.len + 1})
	}
	rng.Shuffle(len(leaves), func(i, j int) { leaves[i], leaves[j] = leaves[j], leaves[i] })
	syms := spreadSyms(rng, len(leaves))
	codes := make(prefix.PrefixCodes, len(leaves))
	for i, l := range leaves {
		codes[i] = prefix.PrefixCode{Sym: syms[i], Len: uint32(l.len), Val: l.val}
	}
	return codes
}

// tableCost: number of table entries Decoder.Init will fill
func tableCost(codes prefix.PrefixCodes) int {
	maxBits := uint32(0)
	for _, c := range codes {
		if c.Len > maxBits {
			maxBits = c.Len
		}
	}
	if maxBits <= 9 {
		return 1 << maxBits
	}
	pre := map[uint32]bool{}
	for _, c := range codes {
		if c.Len > 9 {
			pre[c.Val&511] = true
		}
	}
	return 512 + len(pre)<<(maxBits-9)
}

func ceilLog2(n int) uint {
	k := uint(0)
	for 1<<k < n {
		k++
	}
	return k
}

// randValid: one valid code set from the mix of generators
func randValid(rng *rand.Rand, big bool) (codes prefix.PrefixCodes, canonical bool) {
	for big {
		// lengths up to the limit of 27 bits: link tables of 2^18 entries
		n := 28 + rng.Intn(40)
		if rng.Intn(2) == 0 {
			codes, canonical = genCanonical(rng, n, 27, 0), true
		} else {
			codes, canonical = genTree(rng, n, 27, []int{90, 97, 100}[rng.Intn(3)]), false
		}
		if tableCost(codes) <= 1<<20+1024 {
			return codes, canonical
		}
	}
	for {
		n := 2 + rng.Intn(40)
		switch rng.Intn(6) {
		case 0:
			n = 2 + rng.Intn(6)
		case 1:
			n = 2 + rng.Intn(599)
		}
		if rng.Intn(3) > 0 {
			lo := ceilLog2(n)
			if lo < 1 {
				lo = 1
			}
			choices := []uint{lo, lo + 1, 15, 20, 27}
			if big {
				choices = append(choices, 27, 27)
			}
			mb := choices[rng.Intn(len(choices))]
			if mb < lo {
				mb = lo
			}
			codes = genCanonical(rng, n, mb, rng.Intn(5))
			canonical = true
		} else {
			mbs := []int{9, 10, 12, 15, 20, 27}
			mb := mbs[rng.Intn(len(mbs))]
			if l := int(ceilLog2(n)); mb < l {
				mb = l
			}
			codes = genTree(rng, n, mb, []int{0, 30, 70, 95, 100}[rng.Intn(5)])
			canonical = false
		}
		lim := 1 << 14
		if big {
			lim = 1 << 19
		}
		if tableCost(codes) <= lim {
			return codes, canonical
		}
	}
}

// randInvalid: arbitrary (usually incomplete / overlapping) codes with small lengths
func randInvalid(rng *rand.Rand) prefix.PrefixCodes {
	n := rng.Intn(12)
	if rng.Intn(4) == 0 {
		n = rng.Intn(3)
	}
	maxLen := 1 + rng.Intn(13)
	codes := make(prefix.PrefixCodes, n)
	sym := uint32(0)
	for i := range codes {
		l := uint32(rng.Intn(maxLen + 1))
		if rng.Intn(3) > 0 && l == 0 {
			l = 1
		}
		codes[i] = prefix.PrefixCode{Sym: sym, Len: l, Val: uint32(rng.Intn(1 << l))}
		if rng.Intn(6) == 0 {
			sym = uint32(rng.Intn(1 << 28)) // unsorted / huge symbols: Sym<<5 wraps
		} else {
			sym += uint32(rng.Intn(3))
		}
	}
	return codes
}

// encodeStream: the bytes a sequence of code words occupies (LSB-first packing), plus tail
func encodeStream(rng *rand.Rand, codes prefix.PrefixCodes, nsyms int, big bool) []byte {
	var acc uint64
	var nb uint
	var out []byte
	emit := func(v uint64, n uint) {
		acc |= v << nb
		nb += n
		for nb >= 8 {
			out = append(out, byte(acc))
			acc >>= 8
			nb -= 8
		}
	}
	for i := 0; i < nsyms; i++ {
		c := codes[rng.Intn(len(codes))]
		if rng.Intn(3) == 0 { // favour the longest codes
			for k := 0; k < 4; k++ {
				c2 := codes[rng.Intn(len(codes))]
				if c2.Len > c.Len {
					c = c2
				}
			}
		}
		emit(uint64(c.Val), uint(c.Len))
	}
	if nb > 0 {
		emit(uint64(rng.Intn(256)), 8-nb)
	}
	if big {
		for i := range out {
			out[i] = rev8(out[i])
		}
	}
	return out
}

func rev8(b byte) byte {
	var r byte
	for i := 0; i < 8; i++ {
		r = r<<1 | (b>>uint(i))&1
	}
	return r
}

type dtOp struct {
	Kind byte
	N    int
}

func (o dtOp) String() string {
	if o.Kind == 'b' {
		return fmt.Sprintf("b:%d", o.N)
	}
	return string(o.Kind)
}

// runDecOps drives the real Reader; one observation per op, model format
func runDecOps(pr *prefix.Reader, pd *prefix.Decoder, ops []dtOp, state bool) []string {
	var obs []string
	st := func() string {
		if !state {
			return ""
		}
		bb, nb, off := pr.VerifState()
		return fmt.Sprintf(":%d:%d:%d", bb, nb, off)
	}
	for _, o := range ops {
		stop := false
		fail := func(what string) {
			switch o.Kind {
			case 's':
				obs = append(obs, fmt.Sprintf("s:%s:%d%s", what, pr.BitsRead(), st()))
			case 't':
				obs = append(obs, fmt.Sprintf("t:panic:%d%s", pr.BitsRead(), st()))
			default:
				obs = append(obs, fmt.Sprintf("b:panic:%d", pr.BitsRead()))
			}
			stop = true
		}
		func() {
			defer func() {
				if p := recover(); p != nil { // a run-time panic, not an errors.Panic
					fail("panic")
				}
			}()
			var err error
			func() {
				defer cerrors.Recover(&err)
				switch o.Kind {
				case 's':
					s := pr.ReadSymbol(pd)
					obs = append(obs, fmt.Sprintf("s:%d:%d%s", s, pr.BitsRead(), st()))
				case 't':
					s, ok := pr.TryReadSymbol(pd)
					if ok {
						obs = append(obs, fmt.Sprintf("t:%d:%d%s", s, pr.BitsRead(), st()))
					} else {
						obs = append(obs, fmt.Sprintf("t:no:%d%s", pr.BitsRead(), st()))
					}
				default:
					v := pr.ReadBits(uint(o.N))
					obs = append(obs, fmt.Sprintf("b:%d:%d", v, pr.BitsRead()))
				}
			}()
			switch {
			case err == nil:
			case err == io.ErrUnexpectedEOF:
				fail("ueof")
			case cerrors.IsInvalid(err):
				fail("invalid")
			default:
				fail("err")
			}
		}()
		if stop {
			break
		}
	}
	return obs
}

// wdectabWitness: finding F1. A valid but NON-canonical code whose all-zero code word is the
// longest one: 1 | 01 | 001 | ... | 0^11 1 | 0^12. After seven "1" the bit buffer of a
// ReadByte-only source holds one real bit (0, the first bit of "01"); the zero-extended
// look-up finds 0^12 and ReadSymbol asks PullBits for 12 bits: a byte beyond the one that
// holds the last bit of "01". With 2 bytes of data this is a spurious io.ErrUnexpectedEOF,
// with 3 bytes an over-read of one byte. The model reproduces both.
func wdectabWitness(r *vhlib.Run) {
	codes := prefix.PrefixCodes{{Sym: 0, Len: 1, Val: 1}, {Sym: 1, Len: 2, Val: 2}}
	for j := 3; j <= 12; j++ {
		codes = append(codes, prefix.PrefixCode{Sym: uint32(j - 1), Len: uint32(j), Val: 1 << uint(j-1)})
	}
	codes = append(codes, prefix.PrefixCode{Sym: 12, Len: 12, Val: 0})
	lok, pok, cok := codes.VerifCheck()
	cs := fmtCodes(codes)
	var pd prefix.Decoder
	pd.Init(codes)
	var ops []dtOp
	var opss []string
	for i := 0; i < 8; i++ {
		ops = append(ops, dtOp{'s', 0})
		opss = append(opss, "s")
	}
	for _, data := range [][]byte{{0x7f, 0xff}, {0x7f, 0xff, 0xff}} {
		src := &scriptSrc{B: data}
		var pr prefix.Reader
		pr.Init(byteOnlyView{scriptByteSrc{src}}, false)
		obs := runDecOps(&pr, &pd, ops, true)
		r.Notes[fmt.Sprintf("F1-witness-%d-bytes", len(data))] = fmt.Sprintf(
			"checkLengths=%v checkPrefixes=%v checkCanonical=%v; 8 x ReadSymbol over ReadByte-only source: %s; source position %d, bits consumed %d",
			lok, pok, cok, strings.Join(obs, ","), src.Pos, pr.BitsRead())
		args := append([]string{cs, vhlib.Hex(data), "0", "0", "-", "1"}, opss...)
		r.Case("decread", args, strings.Join(obs, ","))
	}
}

func wdectab(r *vhlib.Run) {
	rng := r.Rng
	wdectabWitness(r)
	nValid, nInvalid, nBig := 700, 500, 6
	if !r.Quick() {
		nValid, nInvalid, nBig = 6000, 5000, 25
	}

	// one long-lived Decoder / Encoder: every Init recycles the arrays of the previous ones
	var shared prefix.Decoder
	var sharedEnc prefix.Encoder
	spurious := 0
	defer func() { r.Notes["noncanonical-spurious-ueof"] = spurious }()

	for i := 0; i < nValid+nBig; i++ {
		big := i >= nValid
		codes, canonical := randValid(rng, big)
		cs := fmtCodes(codes)
		if lok, pok, _ := codes.VerifCheck(); !lok || !pok {
			r.Violate("generator-invalid-code", cs, nil)
			continue
		}
		maxLen := uint32(0)
		for _, c := range codes {
			if c.Len > maxLen {
				maxLen = c.Len
			}
		}
		r.Eval(fmt.Sprintf("valid:canonical=%v:maxlen=%d", canonical, maxLen), true, []byte(cs))

		// --- Decoder.Init over stale storage ---
		pd := &shared
		if rng.Intn(5) == 0 {
			pd = new(prefix.Decoder)
			other, _ := randValid(rng, false) // a previous Init with a different code
			pd.Init(other)
		}
		pd.Init(codes)
		r.Case("dectab", []string{fmt.Sprintf("g%d", rng.Intn(1000)), cs}, "ok "+fmtDump(pd.VerifDump()))
		// and a fresh one (zero storage)
		if i%4 == 0 {
			var fresh prefix.Decoder
			fresh.Init(codes)
			r.Case("dectab", []string{"z", cs}, "ok "+fmtDump(fresh.VerifDump()))
		}

		// --- reading ---
		reads := 3
		if big {
			reads = 1
		}
		for k := 0; k < reads; k++ {
			bigEndian := rng.Intn(3) == 0
			var data []byte
			switch rng.Intn(3) {
			case 0:
				data = vhlib.RandBytes(rng, rng.Intn(40))
			default:
				data = encodeStream(rng, codes, 1+rng.Intn(30), bigEndian)
				if rng.Intn(3) == 0 {
					data = append(data, vhlib.RandBytes(rng, rng.Intn(6))...)
				}
				if rng.Intn(6) == 0 && len(data) > 0 {
					data = data[:len(data)-1] // ends inside a code word, possibly
				}
			}
			var ops []dtOp
			for j := 3 + rng.Intn(40); j > 0; j-- {
				switch rng.Intn(12) {
				case 0:
					ops = append(ops, dtOp{'t', 0})
				case 1:
					ops = append(ops, dtOp{'b', rng.Intn(20)})
				default:
					ops = append(ops, dtOp{'s', 0})
				}
			}
			var opss []string
			for _, o := range ops {
				opss = append(opss, o.String())
			}
			hex := vhlib.Hex(data)
			if hex == "" {
				hex = "-"
			}
			mode := rng.Intn(3)
			if mode == 2 && !canonical {
				mode = rng.Intn(2) // look-ahead dependent end-of-stream behaviour: scripted sources only
			}
			var pr prefix.Reader
			var fills []int
			switch mode {
			case 0: // ReadByte-only source
				src := &scriptSrc{B: data}
				pr.Init(byteOnlyView{scriptByteSrc{src}}, bigEndian)
				obs := runDecOps(&pr, pd, ops, true)
				args := append([]string{cs, hex, "0", fmt.Sprint(b2i(bigEndian)), "-", "1"}, opss...)
				r.Case("decread", args, strings.Join(obs, ","))
			case 1: // BufferedReader with scripted fills
				for j := rng.Intn(12); j > 0; j-- {
					fills = append(fills, []int{0, 0, 1, 2, 7, 8, 9, 100}[rng.Intn(8)])
				}
				src := &scriptSrc{B: data, Fills: append([]int{}, fills...)}
				pr.Init(src, bigEndian)
				obs := runDecOps(&pr, pd, ops, true)
				args := append([]string{cs, hex, "1", fmt.Sprint(b2i(bigEndian)), joinInts(fills), "1"}, opss...)
				r.Case("decread", args, strings.Join(obs, ","))
			default: // a real bytes.Reader (symbols and bit positions only; TryReadSymbol
				// depends on how far the source has buffered, so it is left out here)
				opss = opss[:0]
				for j := range ops {
					if ops[j].Kind == 't' {
						ops[j].Kind = 's'
					}
					opss = append(opss, ops[j].String())
				}
				pr.Init(bytes.NewReader(data), bigEndian)
				obs := runDecOps(&pr, pd, ops, false)
				args := append([]string{cs, hex, "1", fmt.Sprint(b2i(bigEndian)), "-", "0"}, opss...)
				r.Case("decread", args, strings.Join(obs, ","))
			}
		}

		// --- Encoder ---
		if !big || i%2 == 0 {
			pe := &sharedEnc
			if rng.Intn(4) == 0 {
				pe = new(prefix.Encoder)
			}
			pe.Init(codes)
			var syms []uint64
			for j := 0; j < 8; j++ {
				syms = append(syms, uint64(codes[rng.Intn(len(codes))].Sym))
			}
			for j := 0; j < 6; j++ {
				switch rng.Intn(3) {
				case 0:
					syms = append(syms, uint64(rng.Intn(1<<16)))
				case 1:
					syms = append(syms, uint64(codes[rng.Intn(len(codes))].Sym)+uint64(1+rng.Intn(4))<<uint(8+rng.Intn(26)))
				default:
					syms = append(syms, uint64(codes[len(codes)-1].Sym)+uint64(1+rng.Intn(9)))
				}
			}
			var lk, ss []string
			for _, s := range syms {
				var buf bytes.Buffer
				var pw prefix.Writer
				pw.Init(&buf, false)
				pw.WriteSymbol(uint(s), pe)
				nb := pw.BitsWritten()
				pw.WritePads(0)
				pw.Flush()
				v := uint64(0)
				for bi, b := range buf.Bytes() {
					v |= uint64(b) << uint(8*bi)
				}
				lk = append(lk, fmt.Sprintf("%d:%d", v, nb))
				ss = append(ss, fmt.Sprint(s))
			}
			r.Case("enctab", []string{cs, strings.Join(ss, ",")}, "ok "+fmtDump(pe.VerifDump())+" | "+strings.Join(lk, ","))

			// --- encode, then decode ---
			bigEndian := rng.Intn(3) == 0
			var buf bytes.Buffer
			var pw prefix.Writer
			pw.Init(&buf, bigEndian)
			var es []string
			var want []uint32
			for j := 1 + rng.Intn(25); j > 0; j-- {
				c := codes[rng.Intn(len(codes))]
				pw.WriteSymbol(uint(c.Sym), pe)
				es = append(es, fmt.Sprint(c.Sym))
				want = append(want, c.Sym)
			}
			pw.WritePads(0)
			pw.Flush()
			out := append([]byte{}, buf.Bytes()...)
			var pr prefix.Reader
			pr.Init(byteOnlyView{scriptByteSrc{&scriptSrc{B: out}}}, bigEndian)
			var ops []dtOp
			for range want {
				ops = append(ops, dtOp{'s', 0})
			}
			obs := runDecOps(&pr, pd, ops, false)
			for j, o := range obs {
				if !strings.HasPrefix(o, fmt.Sprintf("s:%d:", want[j])) {
					if !canonical && strings.HasPrefix(o, "s:ueof:") {
						// a NON-canonical code: the zero-extended look-up asked for more bits than
						// the code word has, beyond the end of the stream (see NOTES.md, finding F1)
						spurious++
						if spurious == 1 {
							r.Notes["first-noncanonical-spurious-ueof"] = fmt.Sprintf("codes %s want %v got %v", cs, want, obs)
						}
						break
					}
					r.Violate("encode-decode-mismatch", fmt.Sprintf("codes %s want %v got %v", cs, want, obs), nil)
					break
				}
			}
			hx := vhlib.Hex(out)
			if hx == "" {
				hx = "-"
			}
			r.Case("encdec", []string{cs, fmt.Sprint(b2i(bigEndian)), strings.Join(es, ",")}, hx+" "+strings.Join(obs, ","))
		}
	}

	// arbitrary code lists on FRESH decoders / encoders (zero storage): panics, stale zeros,
	// overlapping fills must all be reproduced by the model
	for i := 0; i < nInvalid; i++ {
		codes := randInvalid(rng)
		cs := fmtCodes(codes)
		r.Eval("arbitrary", true, []byte(cs))
		obs := ""
		func() {
			defer func() {
				if p := recover(); p != nil {
					obs = "panic"
				}
			}()
			var pd prefix.Decoder
			pd.Init(codes)
			obs = "ok " + fmtDump(pd.VerifDump())
		}()
		r.Case("dectab", []string{"z", cs}, obs)

		// the Encoder needs distinct symbols to terminate; make them so
		ecodes := append(prefix.PrefixCodes{}, codes...)
		sort.Slice(ecodes, func(a, b int) bool { return ecodes[a].Sym < ecodes[b].Sym })
		dedup := ecodes[:0]
		for j, c := range ecodes {
			if j == 0 || c.Sym != ecodes[j-1].Sym {
				dedup = append(dedup, c)
			}
		}
		ecodes = dedup
		small := true
		for _, c := range ecodes {
			if c.Sym >= 1<<16 {
				small = false
			}
		}
		if small {
			eobs := ""
			func() {
				defer func() {
					if p := recover(); p != nil {
						eobs = "panic"
					}
				}()
				var pe prefix.Encoder
				pe.Init(ecodes)
				eobs = "ok " + fmtDump(pe.VerifDump()) + " | "
			}()
			r.Case("enctab", []string{fmtCodes(ecodes), "-"}, eobs)
		}
	}
}
