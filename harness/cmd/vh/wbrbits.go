package main

// WBRBITS: brotli's own bit reader (brotli/bit_reader.go, type bitReader) against its
// implementation-level model coq/Brotli/BitReaderImpl.v, operation by operation, with the
// WHOLE state of the bitReader and of its source observed after every operation.
//
//   brbits : <hex|-> <mode 0|1> <bsz> <reads|-> op...
//            mode 1: the Peek/Discard path. The source is a genuine bufio.Reader (of size
//                    bsz, handed to Init as such; or created by Init itself around a plain
//                    io.Reader, bsz = 4096) over an underlying reader whose only freedom -
//                    how many bytes each Read call returns - is the script `reads`.
//            mode 0: a byteReader that is not a bufio.Reader: one ReadByte per byte.
//            op = b:<n> ReadBits | t:<n> TryReadBits | u:<n> FeedBits | p ReadPads |
//                 r:<k> raw Read | f FlushOffset
//   brspec : same arguments (u ops on the bufio path only): does the model's run satisfy the abstract
//            bit-stream specification (coq/Brotli/BitReaderSpec.v check_model)?

import (
	"bufio"
	"fmt"
	"io"
	"strings"

	"github.com/dsnet/compress/brotli"
	cerrors "github.com/dsnet/compress/internal/errors"
	"github.com/dsnet/compress/xflate/verifharness/vhlib"
)

func init() { props["WBRBITS"] = wbrbits }

// brUnder: the io.Reader underneath the bufio.Reader. Read and nothing else.
type brUnder struct {
	B     []byte
	Pos   int
	Reads []int
	Calls int
}

func (u *brUnder) Read(p []byte) (int, error) {
	u.Calls++
	if len(p) == 0 {
		return 0, nil
	}
	avail := len(u.B) - u.Pos
	if avail == 0 {
		return 0, io.EOF
	}
	lim := len(p)
	if len(u.Reads) > 0 {
		lim = u.Reads[0]
		u.Reads = u.Reads[1:]
		if lim > len(p) {
			lim = len(p)
		}
		if lim < 1 {
			lim = 1
		}
	}
	n := len(p)
	if lim < n {
		n = lim
	}
	if avail < n {
		n = avail
	}
	copy(p, u.B[u.Pos:u.Pos+n])
	u.Pos += n
	return n, nil
}

// brSource: one of the two kinds of source, with a uniform view of its position
type brSource struct {
	under *brUnder   // mode 1
	byt   *scriptSrc // mode 0
}

func (s *brSource) pos(v *brotli.VerifBitReader) int {
	if s.under != nil {
		return s.under.Pos - v.Buffered()
	}
	return s.byt.Pos
}

// newBrReader: explicit = hand Init a *bufio.Reader of size bsz; otherwise let Init wrap
func newBrReader(data []byte, mode int, bsz int, reads []int, explicit bool) (*brotli.VerifBitReader, *brSource) {
	v := new(brotli.VerifBitReader)
	s := new(brSource)
	if mode == 1 {
		s.under = &brUnder{B: data, Reads: append([]int{}, reads...)}
		if explicit {
			v.Init(bufio.NewReaderSize(s.under, bsz))
		} else {
			v.Init(s.under)
		}
	} else {
		s.byt = &scriptSrc{B: data, Reads: append([]int{}, reads...)}
		v.Init(byteOnlyView{scriptByteSrc{s.byt}})
	}
	return v, s
}

func brState(v *brotli.VerifBitReader, s *brSource) string {
	bb, nb, off, pl, db, fb := v.State()
	return fmt.Sprintf("%d:%d:%d:%d:%d:%d:%d:%d:%d", v.BitsRead(), bb, nb, off, pl, db, fb, s.pos(v), v.Buffered())
}

// brDo runs one operation; what = the outcome string or "", stop = a panic happened
func brDo(v *brotli.VerifBitReader, s *brSource, f func() string) (obs string, stop bool) {
	what := ""
	func() {
		defer func() {
			if p := recover(); p != nil { // a run-time panic, not an errors.Panic
				what, stop = "crash", true
			}
		}()
		var err error
		func() {
			defer cerrors.Recover(&err)
			what = f()
		}()
		switch {
		case err == nil:
		case err == io.ErrUnexpectedEOF:
			what, stop = "ueof", true
		case cerrors.IsCorrupted(err):
			what, stop = "corrupt", true
		case cerrors.IsInvalid(err):
			what, stop = "invalid", true
		default:
			what, stop = "err", true
		}
	}()
	return what + "/" + brState(v, s), stop
}

func runBrOps(v *brotli.VerifBitReader, s *brSource, ops []implOp) (obs []string) {
	for _, o := range ops {
		o := o
		ob, stop := brDo(v, s, func() string {
			switch o.Kind {
			case 'b':
				return fmt.Sprintf("b:%d", v.ReadBits(uint(o.N)))
			case 't':
				x, ok := v.TryReadBits(uint(o.N))
				if !ok {
					return "t:no"
				}
				return fmt.Sprintf("t:%d", x)
			case 'u':
				v.FeedBits(uint(o.N))
				return "u"
			case 'p':
				return fmt.Sprintf("p:%d", v.ReadPads())
			case 'r':
				buf := make([]byte, o.N)
				n, err := v.Read(buf)
				e := 0
				switch {
				case err == io.EOF:
					e = 1
				case err != nil && strings.Contains(err.Error(), "non-aligned"):
					e = 2
				case err != nil:
					e = 3
				}
				h := vhlib.Hex(buf[:n])
				if h == "" {
					h = "-"
				}
				return fmt.Sprintf("r:%s:%d", h, e)
			default:
				return fmt.Sprintf("f:%d", v.FlushOffset())
			}
		})
		obs = append(obs, ob)
		if stop {
			break
		}
	}
	return obs
}

func brOpString(o implOp) string {
	switch o.Kind {
	case 'b', 'r', 't', 'u':
		return fmt.Sprintf("%c:%d", o.Kind, o.N)
	case 'p':
		return "p"
	}
	return "f"
}

func wbrbits(r *vhlib.Run) {
	rng := r.Rng
	n := 2500
	if !r.Quick() {
		n = 40000
	}

	// the D5 question: internal/prefix.Reader used to keep stale look-ahead bits across a raw
	// Read (repaired there). brotli's copy loads byte by byte, so bufBits < 2^numBits; the
	// history that exposed D5 is replayed here on the bufio path.
	{
		data := []byte{0x01, 0x02, 0x03, 0x04, 0x05, 0x06, 0x07, 0x08, 0xAA, 0xBB, 0xCC, 0xDD, 0xEE, 0xFF, 0x11, 0x22, 0x33, 0x44}
		ops := []implOp{{'b', 8}, {'b', 56}, {'r', 4}, {'b', 16}, {'f', 0}, {'b', 3}, {'p', 0}, {'r', 2}, {'b', 8}}
		for _, mode := range []int{0, 1} {
			v, s := newBrReader(data, mode, 16, nil, true)
			obs := runBrOps(v, s, ops)
			args := []string{vhlib.Hex(data), fmt.Sprint(mode), "16", "-"}
			for _, o := range ops {
				args = append(args, brOpString(o))
			}
			r.Case("brbits", args, strings.Join(obs, ","))
			r.Case("brspec", args, "spec-ok")
			r.Notes[fmt.Sprintf("D5-history-mode-%d", mode)] = strings.Join(obs, ",")
		}
	}

	// the width limit of ReadBits: FeedBits guarantees numBits > 56 only, and ReadBits subtracts
	// nb from numBits unchecked. With 57 bits buffered, ReadBits(58) returns a 57-bit value and
	// wraps numBits (a uint) around. (brotli itself never asks for more than 24 bits.)
	{
		data := []byte{0xFF, 0xFF, 0xFF, 0xFF, 0xFF, 0xFF, 0xFF, 0xFF, 0xFF, 0xFF, 0xFF, 0xFF}
		v, _ := newBrReader(data, 1, 16, nil, true)
		a := v.ReadBits(7)
		b := v.ReadBits(58)
		_, nb, _, _, _, _ := v.State()
		r.Notes["ReadBits-58-after-7"] = fmt.Sprintf("ReadBits(7)=%d ReadBits(58)=%d (the stream holds %d) numBits afterwards=%d", a, b, uint64(1)<<58-1, nb)
	}

	for i := 0; i < n; i++ {
		data := vhlib.RandBytes(rng, rng.Intn(60))
		switch i % 7 {
		case 0:
			data = vhlib.RandBytes(rng, 60+rng.Intn(600))
		case 1:
			data = vhlib.RandBytes(rng, rng.Intn(12))
		}
		mode := 1
		if rng.Intn(4) == 0 {
			mode = 0
		}
		bsz, explicit := 4096, false
		if mode == 1 && rng.Intn(5) > 0 {
			explicit = true
			bsz = []int{16, 16, 16, 17, 24, 32, 64, 4096}[rng.Intn(8)]
		}
		if mode == 0 {
			bsz = 0
		}
		var reads []int
		for k := rng.Intn(30); k > 0; k-- {
			reads = append(reads, []int{1, 1, 2, 3, 5, 7, 8, 9, 15, 16, 17, 40, 5000}[rng.Intn(13)])
		}
		if rng.Intn(6) == 0 { // a trickling reader
			reads = nil
			for k := 0; k < 400; k++ {
				reads = append(reads, 1+rng.Intn(2))
			}
		}
		var ops []implOp
		feeds := i%3 == 0 // explicit FeedBits over-pulls
		for k := 1 + rng.Intn(30); k > 0; k-- {
			if feeds && rng.Intn(4) == 0 {
				ops = append(ops, implOp{Kind: 'u', N: []int{0, 1, 5, 8, 15, 16, 24, 32, 48, 56, 57}[rng.Intn(11)]})
				if rng.Intn(2) == 0 {
					ops = append(ops, implOp{Kind: 'b', N: 1 + rng.Intn(7)}, implOp{Kind: 'f'})
				}
				continue
			}
			switch rng.Intn(12) {
			case 0:
				ops = append(ops, implOp{Kind: 'p'})
			case 1:
				ops = append(ops, implOp{Kind: 'p'}, implOp{Kind: 'r', N: rng.Intn(12)})
			case 2:
				ops = append(ops, implOp{Kind: 'f'})
			case 3:
				ops = append(ops, implOp{Kind: 'r', N: []int{0, 1, 2, 5, 15, 16, 17, 40, 100}[rng.Intn(9)]})
			case 4:
				ops = append(ops, implOp{Kind: 't', N: []int{0, 1, 3, 8, 9, 16, 25, 32, 57, 64}[rng.Intn(10)]})
			default:
				ops = append(ops, implOp{Kind: 'b', N: []int{0, 1, 2, 3, 5, 7, 8, 9, 13, 16, 24, 31, 32, 33, 48, 56, 57}[rng.Intn(17)]})
			}
		}
		v, s := newBrReader(data, mode, bsz, reads, explicit)
		if v.IsBuffered() != (mode == 1) || (mode == 1 && v.BufSize() != bsz) {
			r.Violate("brbits-init-path", fmt.Sprintf("mode %d bsz %d: IsBuffered=%v BufSize=%d", mode, bsz, v.IsBuffered(), v.BufSize()), nil)
		}
		obs := runBrOps(v, s, ops)
		args := []string{vhlib.Hex(data), fmt.Sprint(mode), fmt.Sprint(bsz), joinInts(reads)}
		if args[0] == "" {
			args[0] = "-"
		}
		for _, o := range ops {
			args = append(args, brOpString(o))
		}
		r.Eval(fmt.Sprintf("brbits:mode=%d:bsz=%d:explicit=%v", mode, bsz, explicit), true, data, []byte(strings.Join(args[1:], " ")))
		r.Case("brbits", args, strings.Join(obs, ","))
		if !feeds || mode == 1 { // an explicit FeedBits over-consumes on the ReadByte path (by design)
			r.Case("brspec", args, "spec-ok")
		}
	}
}
