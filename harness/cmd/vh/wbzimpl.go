package main

// WBZIMPL: the real bzip2.Reader against its implementation-level model
// (coq/Bzip2/Impl.v: bz_new / bz_reset / bz_read) over the same scripted source, with the
// same schedule of Read buffer sizes, compared PER CALL: the bytes each Read returns
// (count and content), the error class, InputOffset / OutputOffset after the call and the
// position of the source. One Reader serves one to three inputs (Reset in between, also in
// the middle of a stream); an input may hold several concatenated streams.

import (
	"bytes"
	"fmt"
	"io"
	"io/ioutil"
	"math/rand"
	"strings"
	"time"

	"github.com/dsnet/compress/bzip2"
	"github.com/dsnet/compress/xflate/verifharness/gen"
	"github.com/dsnet/compress/xflate/verifharness/ref"
	"github.com/dsnet/compress/xflate/verifharness/vhlib"
)

func init() { props["WBZIMPL"] = wbzimpl }

type bzStream struct {
	data     []byte
	buffered bool
	fills    []int
	reads    []int
	sched    []int // buffer sizes; the last one repeats
	maxCalls int   // > 0: abandon the stream after that many calls
}

func bzFmtBytes(b []byte) string {
	if len(b) == 0 {
		return "-"
	}
	if len(b) <= 48 {
		return vhlib.Hex(b)
	}
	h := uint64(0)
	for _, x := range b {
		h = (h*1000003 + uint64(x) + 1) & (1<<40 - 1)
	}
	return fmt.Sprintf("H%d.%d", len(b), h)
}

// runBzImpl drives the real Reader; returns the arguments for the model and the observations.
func runBzImpl(streams []bzStream) (args []string, obs string) {
	var zr *bzip2.Reader
	var sobs []string
	args = append(args, fmt.Sprint(len(streams)))
	for si, s := range streams {
		src := &scriptSrc{B: s.data, Fills: append([]int{}, s.fills...), Reads: append([]int{}, s.reads...)}
		var rd io.Reader = src
		if !s.buffered {
			rd = byteOnlyView{scriptByteSrc{src}}
		}
		if si == 0 {
			zr, _ = bzip2.NewReader(rd, nil)
		} else {
			zr.Reset(rd)
		}
		var calls []string
		var sizes []int
		limit := 2000000
		if s.maxCalls > 0 {
			limit = s.maxCalls
		}
		for i := 0; i < limit; i++ {
			n := s.sched[len(s.sched)-1]
			if i < len(s.sched) {
				n = s.sched[i]
			}
			sizes = append(sizes, n)
			buf := make([]byte, n)
			var cnt int
			var err error
			crashed := false
			func() {
				defer func() {
					if p := recover(); p != nil {
						crashed = true
					}
				}()
				cnt, err = zr.Read(buf)
			}()
			if crashed {
				calls = append(calls, "Panic")
				break
			}
			calls = append(calls, fmt.Sprintf("%s:%s:%d:%d:%d", bzFmtBytes(buf[:cnt]), vhlib.ErrClass(err), zr.InputOffset, zr.OutputOffset, src.Pos))
			if err != nil {
				break
			}
		}
		hx := vhlib.Hex(s.data)
		if hx == "" {
			hx = "-"
		}
		args = append(args, hx, fmt.Sprint(b2i(s.buffered)), joinInts(s.fills), joinInts(s.reads), joinInts(sizes))
		sobs = append(sobs, strings.Join(calls, ","))
	}
	return args, strings.Join(sobs, "|")
}

func bzScript(rng *rand.Rand) (fills, reads []int) {
	for k := rng.Intn(12); k > 0; k-- {
		fills = append(fills, []int{0, 0, 1, 2, 7, 8, 9, 100, 5000}[rng.Intn(9)])
	}
	return
}

func bzSched(rng *rand.Rand, big bool) []int {
	if big {
		return [][]int{{4096}, {70000}, {1000, 0, 32768, 5, 100000}, {1 << 20}, {3333}}[rng.Intn(5)]
	}
	switch rng.Intn(8) {
	case 0:
		return []int{4096}
	case 1:
		return []int{1}
	case 2:
		return []int{0, 0, 1, 0, 2, 0, 3}
	case 3:
		return []int{100000}
	case 4:
		return []int{1, 2, 3, 4, 5, 6, 7}
	default:
		var s []int
		for k := 1 + rng.Intn(8); k > 0; k-- {
			s = append(s, []int{0, 1, 2, 3, 4, 5, 7, 16, 100, 254, 255, 256, 257, 258, 259, 260, 4096}[rng.Intn(17)])
		}
		s = append(s, 1+rng.Intn(600))
		return s
	}
}

// The model's source (Prefix/ReaderImpl.v) is a list: every fill costs time proportional to
// the input, so its cost is quadratic in the COMPRESSED size. Inputs above 2000 bytes get a
// source that fills generously (5000 bytes ahead, all the way) or is a ByteReader.
func bzStreamOf(rng *rand.Rand, data []byte, big bool) bzStream {
	fills, reads := bzScript(rng)
	if len(data) > 2000 {
		fills = nil
		for k := len(data)/4000 + 8; k > 0; k-- {
			fills = append(fills, 5000)
		}
	}
	return bzStream{data: data, buffered: rng.Intn(2) == 0, fills: fills, reads: reads, sched: bzSched(rng, big)}
}

// bzCompressible: n bytes of low-entropy text (words from a small vocabulary, runs of equal
// bytes now and then): a block of 100-300 KB compresses to a few KB.
func bzCompressible(rng *rand.Rand, n int) []byte {
	k := 3 + rng.Intn(6)
	vocab := make([][]byte, k)
	for i := range vocab {
		vocab[i] = vhlib.RandBytes(rng, 2+rng.Intn(7))
	}
	var out []byte
	cur := 0
	for len(out) < n {
		// mostly a fixed successor, sometimes a random word: long repeated contexts
		if rng.Intn(40) == 0 {
			cur = rng.Intn(k)
		} else {
			cur = (cur + 1) % k
		}
		out = append(out, vocab[cur]...)
		if rng.Intn(500) == 0 {
			out = append(out, bytes.Repeat([]byte{byte(rng.Intn(256))}, 4+rng.Intn(600))...)
		}
	}
	return out[:n]
}

// bzHeavy: does decoding d spend long in handleDegenerateCodes (an under-subscribed tree with
// long codes is explored node by node: up to 2^20 nodes per tree)? The model pays about a
// thousand times more for it; such inputs are used once, not in every-byte series.
func bzHeavy(d []byte) bool {
	t0 := time.Now()
	zr, _ := bzip2.NewReader(bytes.NewReader(d), nil)
	io.Copy(ioutil.Discard, zr)
	return time.Since(t0) > 1500*time.Microsecond
}

func plainMax(rng *rand.Rand) int {
	if rng.Intn(8) == 0 {
		return 4000
	}
	return 1200
}

// bzLite: the quick tier of the registered checks keeps one case in bzLiteStep of every family and
// none whose decoding is heavy for the extracted model (large inputs, deep under-subscribed trees)
var (
	bzLite     bool
	bzLiteStep = 4
	bzLiteCnt  = map[string]int{}
)

func bzEmit(r *vhlib.Run, kind string, streams []bzStream) {
	if bzLite {
		bzLiteCnt[kind]++
		if bzLiteCnt[kind]%bzLiteStep != 1 {
			return
		}
		for _, s := range streams {
			if len(s.data) > 3000 || bzHeavy(s.data) {
				return
			}
		}
	}
	args, obs := runBzImpl(streams)
	var all []byte
	for _, s := range streams {
		all = append(all, s.data...)
	}
	r.Eval("bzimpl:"+kind, !strings.Contains(obs, "Panic"), all, []byte(fmt.Sprint(len(streams))))
	r.Hist["kind:"+kind]++
	last := obs
	if i := strings.LastIndex(obs, ":"); i >= 0 {
		f := strings.Split(obs[strings.LastIndex(obs, ",")+1:], ":")
		if len(f) >= 2 {
			last = f[1]
		}
	}
	r.Hist["final:"+last]++
	if strings.Contains(obs, "Panic") {
		r.Violate("panic", kind, map[string]interface{}{"args": strings.Join(args, " ")})
	}
	r.Case("bzimpl", args, obs)
}

// a degenerate (under-subscribed) tree on a ByteReader source, cut so that a complete
// code word is followed by fewer bits than the table walk asks for
func bzTruncEverywhere(r *vhlib.Run, kind string, d []byte, rng *rand.Rand, both bool) {
	for k := 0; k <= len(d); k++ {
		s := bzStreamOf(rng, d[:k], false)
		if both {
			s.buffered = true
			bzEmit(r, kind, []bzStream{s})
			s.buffered = false
			s.fills = nil
		}
		bzEmit(r, kind, []bzStream{s})
	}
}

func wbzimpl(r *vhlib.Run) {
	rng := r.Rng
	// registered quick tier: a thinned version of the sub-agent's "quick" size; thorough tier: its full size
	bzLite = r.Quick()
	bzLiteCnt = map[string]int{}
	quick := r.Quick()

	// ---- nothing, and tiny inputs
	bzEmit(r, "empty", []bzStream{bzStreamOf(rng, nil, false)})
	for b := 0; b < 256; b += 7 {
		bzEmit(r, "one-byte", []bzStream{bzStreamOf(rng, []byte{byte(b)}, false)})
	}
	for _, h := range []string{"BZ", "BZh", "BZh9", "BZ0", "BZ01", "BZh0", "BZh:", "BZhA", "BZh1\x17\x72\x45\x38\x50\x90", "BZh1\x31\x41\x59\x26\x53\x59"} {
		for k := 0; k < 2; k++ {
			s := bzStreamOf(rng, []byte(h), false)
			s.buffered = k == 0
			bzEmit(r, "header-fragment", []bzStream{s})
		}
	}

	// ---- the C03 corpus
	n := 260
	if !quick {
		n = 6000
	}
	var pool [][]byte
	for i := 0; i < n; i++ {
		var d []byte
		kind := ""
		switch rng.Intn(10) {
		case 0, 1:
			d, kind = ref.BZCompress(bzPlain(rng, plainMax(rng)), 1+rng.Intn(9)), "libbz2"
		case 2:
			d, _, _, _ = bzWrite(bzPlain(rng, plainMax(rng)), 1+rng.Intn(9), nil)
			kind = "own-writer"
		case 3, 4, 5:
			c := gen.BzSynth(rng)
			d, kind = c.Data, c.Kind
		case 6: // concatenated streams
			d = append(ref.BZCompress(bzPlain(rng, 500), 1+rng.Intn(9)), gen.BzSynth(rng).Data...)
			if rng.Intn(2) == 0 {
				d = append(d, ref.BZCompress(bzPlain(rng, 300), 1+rng.Intn(9))...)
			}
			kind = "concat"
		default:
			if len(pool) > 0 {
				d, kind = gen.Mutate(rng, pool[rng.Intn(len(pool))]), "mutated"
			} else {
				d, kind = ref.BZCompress(nil, 5), "libbz2"
			}
		}
		if kind != "mutated" {
			pool = append(pool, d)
		}
		if strings.HasPrefix(kind, "synth-") {
			kind = "synth"
		}
		bzEmit(r, kind, []bzStream{bzStreamOf(rng, d, false)})
	}

	// ---- truncations of short streams at every byte, both source kinds
	nt := 4
	if !quick {
		nt = 40
	}
	for i := 0; i < nt; i++ {
		d := gen.BzSynth(rng).Data
		if len(d) > 300 || bzHeavy(d) {
			d = ref.BZCompress(bzPlain(rng, 60), 1+rng.Intn(9))
		}
		bzTruncEverywhere(r, "truncated", d, rng, true)
	}

	// ---- degenerate trees: Kraft combinations, truncated at every byte on a ByteReader
	for k := 0; k < 2; k++ {
		for _, t := range gen.BzKraftCombos(rng) {
			bzEmit(r, "kraft-combo", []bzStream{bzStreamOf(rng, t.Data, false)})
			if len(t.Data) < 250 && (k == 0 || !quick) && !bzHeavy(t.Data) {
				bzTruncEverywhere(r, "kraft-combo-truncated", t.Data, rng, false)
			}
		}
	}

	// ---- ReadSymbol asks for more bits than the code word (dead prefix of an under-subscribed
	// tree at the end of a byte): witnesses of finding "UEOF instead of Corrupted on a
	// ByteReader", truncated at every byte, both source kinds
	// (the model explores an under-subscribed tree node by node: lengths (2,L,L) cost 2^L steps,
	// 100 s for L = 20; the every-byte series use L = 12, 13)
	for _, long := range []int{12, 13, 16, 20} {
		if long == 20 && quick {
			continue
		}
		for pad := 0; pad < 3; pad++ {
			d := gen.BzOverRequest(long, pad).Data
			if pad == 0 && long <= 13 {
				bzTruncEverywhere(r, "over-request", d, rng, true)
			} else if pad == 0 || long <= 13 {
				for _, bf := range []bool{true, false} {
					s := bzStreamOf(rng, d, false)
					s.buffered = bf
					bzEmit(r, "over-request", []bzStream{s})
				}
			}
		}
	}
	// the same with a dead prefix of 11..18 bits and codes of 19 bits: also reaches a
	// BufferedReader that hands out its data in small pieces (no fills) but not one that has
	// everything buffered
	deads := []int{11}
	if !quick {
		deads = []int{11, 12, 17, 18}
	}
	for _, dead := range deads {
		d := gen.BzOverRequestDead(19, dead, 0).Data
		for k := len(d) - 1; k <= len(d); k++ {
			if quick && k < len(d) {
				continue
			}
			bzEmit(r, "over-request-buffered", []bzStream{{data: d[:k], buffered: true, sched: []int{4096}}})
			bzEmit(r, "over-request-buffered", []bzStream{{data: d[:k], buffered: true, fills: []int{5000, 5000, 5000, 5000, 5000, 5000, 5000, 5000}, sched: []int{4096}}})
			bzEmit(r, "over-request-buffered", []bzStream{{data: d[:k], buffered: false, sched: []int{4096}}})
		}
	}

	// ---- run numbers of 19..48 RUNA/RUNB digits
	nov := 40
	if !quick {
		nov = 1000
	}
	for k := 0; k < nov; k++ {
		t := gen.BzOverlongRun(rng)
		bzEmit(r, "overlong-run", []bzStream{bzStreamOf(rng, t.Data, false)})
	}

	// ---- the level byte
	{
		base := ref.BZCompress(bzPlain(rng, 300), 9)
		for v := 0x2e; v <= 0x3d; v++ {
			d := append([]byte{}, base...)
			d[3] = byte(v)
			bzEmit(r, "header-level", []bzStream{bzStreamOf(rng, d, false)})
		}
	}

	// ---- what may follow a complete stream
	{
		s1 := ref.BZCompress(bzPlain(rng, 200), 1+rng.Intn(9))
		s2 := ref.BZCompress(bzPlain(rng, 200), 1+rng.Intn(9))
		empty := ref.BZCompress(nil, 9)
		for _, first := range [][]byte{s1, empty} {
			for k := 1; k <= 9; k++ {
				pad := make([]byte, k)
				bzEmit(r, "stream+nul-padding", []bzStream{bzStreamOf(rng, catBytes(first, pad), false)})
				bzEmit(r, "stream+nul-padding+stream", []bzStream{bzStreamOf(rng, catBytes(first, pad, s2), false)})
			}
			for _, tail := range [][]byte{{'B'}, []byte("BZ"), []byte("BZh"), []byte("BZh9"), {0x17, 0x72, 0x45, 0x38, 0x50, 0x90}, {0xff}, {0x42, 0x00}, {0x00, 0x42, 0x5a}} {
				bzEmit(r, "stream+tail", []bzStream{bzStreamOf(rng, catBytes(first, tail), false)})
			}
			// many empty streams in a row
			bzEmit(r, "many-streams", []bzStream{bzStreamOf(rng, catBytes(first, empty, empty, empty, s2, empty), false)})
		}
	}

	// ---- Reset: one Reader over two or three inputs, also abandoned in the middle
	nr := 60
	if !quick {
		nr = 1500
	}
	for i := 0; i < nr; i++ {
		var ss []bzStream
		for k := 2 + rng.Intn(2); k > 0; k-- {
			var d []byte
			switch rng.Intn(4) {
			case 0:
				d = ref.BZCompress(bzPlain(rng, 2000), 1+rng.Intn(9))
			case 1:
				d = gen.BzSynth(rng).Data
			case 2:
				d = gen.Mutate(rng, gen.BzSynth(rng).Data)
			default:
				d = gen.BzKraftCombos(rng)[rng.Intn(10)].Data
			}
			s := bzStreamOf(rng, d, false)
			if rng.Intn(3) == 0 {
				s.maxCalls = 1 + rng.Intn(6)
			}
			ss = append(ss, s)
		}
		bzEmit(r, "reset", ss)
	}

	// ---- RLE1 edge counts across Read boundaries: every buffer size 1..9 and 250..262
	{
		for _, blk := range []string{"xyzaaaa\x00", "xyzaaaa\x00aaaa\x00a", "qaaaa\xffaaaa\xffb", "xyzaaa", "aaaaa", "xyzaaaa\x05b", "aaaa\x01aaaa\x02"} {
			var src []byte
			// expand with the generator's own rule: plain text whose RLE1 form is blk
			src = rle1Plain([]byte(blk))
			d := ref.BZCompress(src, 1)
			for _, sz := range []int{1, 2, 3, 4, 5, 6, 7, 8, 9, 250, 254, 255, 256, 257, 258, 259, 260, 261, 262} {
				s := bzStreamOf(rng, d, false)
				s.sched = []int{sz}
				bzEmit(r, "rle1-chunks", []bzStream{s})
			}
		}
	}

	// ---- targeted limit cases (100000-byte blocks) and large multi-block streams
	for ti, t := range gen.BzTargeted(rng) {
		if quick && len(t.Data) > 2000 && ti%3 != 0 {
			continue
		}
		bzEmit(r, "targeted", []bzStream{bzStreamOf(rng, t.Data, len(t.Data) > 2000)})
	}
	nbig := 3
	if !quick {
		nbig = 12
	}
	for i := 0; i < nbig; i++ {
		lv := 1 + rng.Intn(9)
		size := 100000 + rng.Intn(200000)
		if i%2 == 1 {
			lv = 1 + rng.Intn(2) // several blocks
		}
		p := bzCompressible(rng, size)
		var d []byte
		if i%2 == 0 {
			d = ref.BZCompress(p, lv)
		} else {
			d, _, _, _ = bzWrite(p, lv, nil)
		}
		r.Hist[fmt.Sprintf("large-compressed-KB:%d", len(d)/1024)]++
		if len(d) > 40000 {
			continue
		}
		bzEmit(r, "large", []bzStream{bzStreamOf(rng, d, true)})
	}
	// less compressible data, multi-block, moderate size (compressed 10-20 KB)
	{
		p := gen.Plain(rng, 30000)
		for len(p) < 24000 {
			p = append(p, gen.Plain(rng, 30000)...)
		}
		p = append(p, bzCompressible(rng, 190000)...)
		d := ref.BZCompress(p, 1)
		r.Hist[fmt.Sprintf("mixed-compressed-KB:%d", len(d)/1024)]++
		if len(d) <= 40000 {
			bzEmit(r, "large-mixed", []bzStream{bzStreamOf(rng, d, true)})
		}
	}
	// a large stream read byte by byte for a while, then Reset onto a small one
	{
		p := append(gen.Plain(rng, 20000), bytes.Repeat([]byte("abcd"), 3000)...)
		d := ref.BZCompress(p, 1)
		s := bzStreamOf(rng, d, false)
		s.sched = []int{1}
		s.maxCalls = 3000
		bzEmit(r, "reset-midstream", []bzStream{s, bzStreamOf(rng, ref.BZCompress([]byte("hello"), 9), false)})
	}
}

// rle1Plain: the plain text whose RLE1 form is blk (blk must be well formed)
func rle1Plain(blk []byte) []byte {
	var out []byte
	run := 0
	var last byte
	for i := 0; i < len(blk); i++ {
		b := blk[i]
		if run == 4 {
			out = append(out, bytes.Repeat([]byte{last}, int(b))...)
			run = 0
			continue
		}
		if run > 0 && b == last {
			run++
		} else {
			run, last = 1, b
		}
		out = append(out, b)
	}
	return out
}
