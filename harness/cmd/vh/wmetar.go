package main

// WMETAR: the real meta.Reader against its implementation-level model
// (coq/Meta/ReaderImpl.v: mr_new / mr_reset / mr_read / mr_close) over the same scripted
// source (both kinds: Peek/Discard and ReadByte-only), compared PER CALL: the bytes each
// Read returns, the error class, InputOffset / OutputOffset / NumBlocks / FinalMode after
// the call and the position of the source; the result of Close; Reset between streams
// (after the end, after an error, after Close, in the middle of a stream).

import (
	"bytes"
	"fmt"
	"io"
	"math/rand"
	"strings"

	"github.com/dsnet/compress/xflate/internal/meta"
	"github.com/dsnet/compress/xflate/verifharness/gen"
	"github.com/dsnet/compress/xflate/verifharness/vhlib"
)

func init() { props["WMETAR"] = runWMETAR }

type mrStream struct {
	data     []byte
	buffered bool
	fills    []int
	reads    []int
	sched    []int  // Read buffer sizes; the last one repeats
	maxCalls int    // > 0: stop reading after that many calls (abandon / close mid-stream)
	tail     string // ops after the read phase: 'r' Read(7), 'z' Read(0), 'c' Close
}

// runMetaR drives the real Reader; returns the arguments for the model and the observations.
func runMetaR(streams []mrStream) (args []string, obs string) {
	var mr *meta.Reader
	var src *scriptSrc
	var all []string
	var ops []string
	pushRead := func(n int) {
		// run-length compress the read ops: r:<n>x<k>
		if len(ops) > 0 {
			last := ops[len(ops)-1]
			var ln, lk int
			if c, _ := fmt.Sscanf(last, "r:%dx%d", &ln, &lk); c == 2 && ln == n {
				ops[len(ops)-1] = fmt.Sprintf("r:%dx%d", n, lk+1)
				return
			}
		}
		ops = append(ops, fmt.Sprintf("r:%dx1", n))
	}
	state := func() string {
		return fmt.Sprintf("%d:%d:%d:%d:%d", mr.InputOffset, mr.OutputOffset, mr.NumBlocks, int(mr.FinalMode), src.Pos)
	}
	crashed := false
	doRead := func(n int) (error, bool) {
		buf := make([]byte, n)
		var cnt int
		var err error
		func() {
			defer func() {
				if p := recover(); p != nil {
					crashed = true
				}
			}()
			cnt, err = mr.Read(buf)
		}()
		pushRead(n)
		if crashed {
			all = append(all, "Panic")
			return nil, true
		}
		all = append(all, fmt.Sprintf("r:%s:%s:%s", hexOrDash(buf[:cnt]), vhlib.ErrClass(err), state()))
		return err, false
	}
	for si, s := range streams {
		if crashed {
			break
		}
		src = &scriptSrc{B: s.data, Fills: append([]int{}, s.fills...), Reads: append([]int{}, s.reads...)}
		var rd io.Reader = src
		if !s.buffered {
			rd = byteOnlyView{scriptByteSrc{src}}
		}
		if si == 0 {
			mr = meta.NewReader(rd)
			args = append(args, hexOrDash(s.data), fmt.Sprint(b2i(s.buffered)), joinInts(s.fills), joinInts(s.reads))
		} else {
			mr.Reset(rd)
			ops = append(ops, fmt.Sprintf("R/%s/%d/%s/%s", hexOrDash(s.data), b2i(s.buffered), joinInts(s.fills), joinInts(s.reads)))
			all = append(all, "R:"+state())
		}
		limit := 100000
		if s.maxCalls > 0 {
			limit = s.maxCalls
		}
		for i := 0; i < limit && !crashed; i++ {
			n := s.sched[len(s.sched)-1]
			if i < len(s.sched) {
				n = s.sched[i]
			}
			err, cr := doRead(n)
			if cr || err != nil {
				break
			}
		}
		for _, c := range s.tail {
			if crashed {
				break
			}
			switch c {
			case 'r':
				doRead(7)
			case 'z':
				doRead(0)
			case 'c':
				err := mr.Close()
				ops = append(ops, "c")
				all = append(all, fmt.Sprintf("c:%s:%s", vhlib.ErrClass(err), state()))
			}
		}
	}
	return append(args, ops...), strings.Join(all, ",")
}

func mrScript(rng *rand.Rand) (fills, reads []int) {
	for k := rng.Intn(10); k > 0; k-- {
		fills = append(fills, []int{0, 0, 1, 2, 3, 7, 8, 9, 40, 100, 5000}[rng.Intn(11)])
	}
	return
}

func mrSched(rng *rand.Rand) []int {
	switch rng.Intn(8) {
	case 0:
		return []int{4096}
	case 1:
		return []int{1}
	case 2:
		return []int{0, 0, 1, 0, 2, 0, 3}
	case 3:
		return []int{31}
	case 4:
		return []int{32}
	default:
		var s []int
		for k := 1 + rng.Intn(8); k > 0; k-- {
			s = append(s, []int{0, 1, 2, 3, 7, 16, 22, 30, 31, 32, 33, 100}[rng.Intn(12)])
		}
		s = append(s, 1+rng.Intn(70))
		return s
	}
}

func mrTail(rng *rand.Rand) string {
	return []string{"", "r", "rz", "c", "cc", "crc", "rcr", "zcrz", "ccr"}[rng.Intn(9)]
}

func mrStreamOf(rng *rand.Rand, data []byte) mrStream {
	fills, reads := mrScript(rng)
	return mrStream{data: data, buffered: rng.Intn(2) == 0, fills: fills, reads: reads, sched: mrSched(rng), tail: mrTail(rng)}
}

// mrEncode: the output of the real meta.Writer for one payload.
func mrEncode(payload []byte, mode meta.FinalMode) []byte {
	var bb bytes.Buffer
	mw := meta.NewWriter(&bb)
	if _, err := mw.Write(payload); err != nil {
		panic(err)
	}
	mw.FinalMode = mode
	if err := mw.Close(); err != nil {
		panic(err)
	}
	return bb.Bytes()
}

// payloads of every bit density
func mrPayload(rng *rand.Rand, n int, fam int) []byte {
	b := make([]byte, n)
	switch fam % 8 {
	case 0:
		rng.Read(b)
	case 1: // all zero
	case 2: // all ones
		for i := range b {
			b[i] = 0xff
		}
	case 3: // one bit per byte
		for i := range b {
			b[i] = 1 << uint(rng.Intn(8))
		}
	case 4: // seven bits per byte
		for i := range b {
			b[i] = ^(byte(1) << uint(rng.Intn(8)))
		}
	case 5: // density k/8 per byte, k drawn per payload
		k := rng.Intn(9)
		for i := range b {
			for j := 0; j < k; j++ {
				b[i] |= 1 << uint(rng.Intn(8))
			}
		}
	case 6: // long runs
		for i := 0; i < n; {
			l := 1 + rng.Intn(40)
			c := []byte{0, 0xff, 0x55, 0x0f, 0x80, 0x01}[rng.Intn(6)]
			for j := 0; j < l && i < n; j++ {
				b[i] = c
				i++
			}
		}
	default:
		return mwData(rng, n)
	}
	return b
}

func mrTrailing(rng *rand.Rand) []byte {
	switch rng.Intn(6) {
	case 0:
		return nil
	case 1:
		return []byte{0}
	case 2:
		return vhlib.RandBytes(rng, 1+rng.Intn(20))
	case 3: // another meta stream
		return mrEncode(mrPayload(rng, rng.Intn(40), rng.Intn(8)), meta.FinalMode(rng.Intn(3)))
	case 4: // a raw DEFLATE stream
		return gen.StdDeflate(rng, vhlib.RandBytes(rng, rng.Intn(60)), 1+rng.Intn(9))
	default:
		return []byte{0x04, 0x00, 0x86, 0x05} // the bare magic
	}
}

// a stream of several meta substreams: FinalNil closes in the middle keep the Reader going
func mrMulti(rng *rand.Rand, maxPay int) []byte {
	var out []byte
	for k := rng.Intn(4); k > 0; k-- {
		out = append(out, mrEncode(mrPayload(rng, rng.Intn(maxPay+1), rng.Intn(8)), meta.FinalNil)...)
	}
	out = append(out, mrEncode(mrPayload(rng, rng.Intn(maxPay+1), rng.Intn(8)), meta.FinalMode(rng.Intn(3)))...)
	return out
}

func runWMETAR(r *vhlib.Run) {
	rng := r.Rng
	emit := func(kind string, streams []mrStream) {
		args, obs := runMetaR(streams)
		var content []byte
		for _, s := range streams {
			content = append(content, s.data...)
		}
		r.Eval("metar:"+kind, true, content, []byte(strings.Join(args, " ")))
		r.Case("metar", args, obs)
	}
	one := func(kind string, data []byte) { emit(kind, []mrStream{mrStreamOf(rng, data)}) }
	both := func(kind string, data []byte) {
		s := mrStreamOf(rng, data)
		s.buffered = false
		emit(kind, []mrStream{s})
		s.buffered = true
		emit(kind, []mrStream{s})
	}
	quick := r.Quick()

	// tiny sources
	both("tiny", nil)
	for a := 0; a < 256; a += 1 {
		if quick && a%5 != 0 {
			continue
		}
		one("tiny", []byte{byte(a)})
	}
	for i := 0; i < 60; i++ {
		one("tiny", vhlib.RandBytes(rng, 2+rng.Intn(3)))
	}

	// the real Writer's output: every size (in steps when quick), every density, every
	// FinalMode, trailing bytes behind the final block
	step := 1
	top := 2000
	if quick {
		step = 41
		top = 700
	}
	for n := 0; n <= top; n += step {
		fam := rng.Intn(8)
		mode := meta.FinalMode(n % 3)
		enc := mrEncode(mrPayload(rng, n, fam), mode)
		one(fmt.Sprintf("writer-f%d", int(mode)), append(enc, mrTrailing(rng)...))
	}
	small := 300
	if quick {
		small = 60
	}
	for i := 0; i < small; i++ {
		n := rng.Intn(70)
		for mode := 0; mode < 3; mode++ {
			enc := mrEncode(mrPayload(rng, n, i), meta.FinalMode(mode))
			one(fmt.Sprintf("writer-small-f%d", mode), append(enc, mrTrailing(rng)...))
		}
	}
	// several substreams; FinalNil last blocks followed by the end of the source
	for i := 0; i < small; i++ {
		one("multi", append(mrMulti(rng, 60), mrTrailing(rng)...))
		k := 1 + rng.Intn(3)
		var d []byte
		for j := 0; j < k; j++ {
			d = append(d, mrEncode(mrPayload(rng, rng.Intn(50), rng.Intn(8)), meta.FinalNil)...)
		}
		both("finalnil-eof", d)
	}

	// truncation at every byte
	nTrunc := 12
	if quick {
		nTrunc = 2
	}
	for i := 0; i < nTrunc; i++ {
		d := mrMulti(rng, 35)
		if len(d) > 160 {
			d = mrEncode(mrPayload(rng, rng.Intn(30), i), meta.FinalMode(rng.Intn(3)))
		}
		for k := 0; k < len(d); k++ {
			one("truncated", d[:k])
		}
	}

	// every single-bit mutation of small streams
	nMut := 10
	if quick {
		nMut = 1
	}
	for i := 0; i < nMut; i++ {
		var d []byte
		switch i % 3 {
		case 0:
			d = mrEncode(mrPayload(rng, rng.Intn(12), rng.Intn(8)), meta.FinalMode(1+rng.Intn(2)))
		case 1:
			d = append(mrEncode(mrPayload(rng, rng.Intn(8), rng.Intn(8)), meta.FinalNil),
				mrEncode(mrPayload(rng, rng.Intn(8), rng.Intn(8)), meta.FinalStream)...)
		default:
			d = mrEncode(mrPayload(rng, 23+rng.Intn(9), 1+rng.Intn(2)), meta.FinalMeta)
		}
		for bit := 0; bit < 8*len(d); bit++ {
			m := append([]byte{}, d...)
			m[bit/8] ^= 1 << uint(bit%8)
			one("bitflip", m)
		}
	}
	// random mutations of larger streams
	nRnd := 600
	if quick {
		nRnd = 80
	}
	for i := 0; i < nRnd; i++ {
		d := mrMulti(rng, 80)
		one("mutated", gen.Mutate(rng, d))
	}

	// near-misses of the magic: each bit of the first four bytes flipped, over a valid tail;
	// and the magic followed by arbitrary bytes
	{
		d := mrEncode([]byte("near miss"), meta.FinalStream)
		for bit := 0; bit < 32; bit++ {
			m := append([]byte{}, d...)
			m[bit/8] ^= 1 << uint(bit%8)
			both("magic-flip", m)
		}
		for i := 0; i < 40; i++ {
			m := []byte{0x04, 0x00, 0x86, 0x05}
			m[0] |= byte(rng.Intn(2)) | byte(rng.Intn(8))<<3
			m[1] |= byte(rng.Intn(4)) << 6
			m[2] |= byte(rng.Intn(2))
			if rng.Intn(4) == 0 {
				m[rng.Intn(4)] ^= 1 << uint(rng.Intn(8))
			}
			one("magic-tail", append(m, vhlib.RandBytes(rng, rng.Intn(70))...))
		}
		for hc := 0; hc < 16; hc++ { // every HCLEN, also the odd / too small ones
			m := []byte{0x04, byte(hc&7) << 5, 0x86 | byte(hc>>3), 0x05}
			both("magic-hclen", append(m, make([]byte, 40)...))
			both("magic-hclen", append(m, vhlib.RandBytes(rng, 40)...))
		}
	}

	// raw DEFLATE streams that are not meta blocks
	nDefl := 150
	if quick {
		nDefl = 30
	}
	for i := 0; i < nDefl; i++ {
		p := vhlib.RandBytes(rng, rng.Intn(300))
		one("deflate", gen.StdDeflate(rng, p, rng.Intn(10)))
	}
	one("deflate", []byte{0x01, 0x00, 0x00, 0xff, 0xff})
	one("deflate", []byte{0x03, 0x00})

	// Reset: the same Reader over further streams, after the end, after an error, after Close,
	// after abandoning the stream in the middle
	nReset := 500
	if quick {
		nReset = 60
	}
	pick := func() []byte {
		switch rng.Intn(6) {
		case 0:
			return gen.Mutate(rng, mrMulti(rng, 40))
		case 1:
			d := mrMulti(rng, 40)
			return d[:rng.Intn(len(d)+1)]
		case 2:
			return vhlib.RandBytes(rng, rng.Intn(30))
		default:
			return append(mrMulti(rng, 120), mrTrailing(rng)...)
		}
	}
	for i := 0; i < nReset; i++ {
		var streams []mrStream
		for k := 2 + rng.Intn(3); k > 0; k-- {
			s := mrStreamOf(rng, pick())
			if rng.Intn(3) == 0 {
				s.maxCalls = 1 + rng.Intn(6)
			}
			streams = append(streams, s)
		}
		emit("reset", streams)
	}
}
