package main

import (
	"fmt"
	"math/rand"
	"strings"

	"github.com/dsnet/compress/flate"
	"github.com/dsnet/compress/xflate/verifharness/vhlib"
)

// WDICT: flate.dictDecoder (the LZ77 sliding window) against its implementation-level
// model coq/Window/Dict.v. One case per script: Init over a recycled buffer, then a
// history of WriteByte / WriteCopy / TryWriteCopy / WriteRaw / ReadFlush / HistSize /
// AvailSize / re-Init. Most scripts respect the caller protocol (the generator looks
// at HistSize/AvailSize like the Reader does); a fraction deliberately leaves it
// (distance beyond the history, no room, negative lengths) - the model must agree
// there too, including the panics.

func init() { props["WDICT"] = wdict }

// pattern bytes shared with the OCaml driver (keeps the case lines short)
func patByte(a, i int) byte { return byte((a*i + (i >> 8) + a + 1) & 0xff) }

func patBytes(a, n int) []byte {
	b := make([]byte, n)
	for i := range b {
		b[i] = patByte(a, i)
	}
	return b
}

// the public queries a caller (and the generator) looks at
type wdQuery interface {
	AvailSize() int
	HistSize() int
}

type wdScript struct {
	size     int
	recycled string // "nil", "-" (non-nil, capacity 0), hex, or p<cap>:<a>
	ops      []string
}

func wdRecycled(s string) []byte {
	switch {
	case s == "nil":
		return nil
	case s == "-":
		return []byte{}
	case s[0] == 'p':
		var c, a int
		fmt.Sscanf(s, "p%d:%d", &c, &a)
		return patBytes(a, c)
	}
	return vhlib.UnHex(s)
}

// wdRun executes the script on the real dictDecoder. gen, when non-nil, is asked for the
// next operation given the current public state (so that generation and execution are
// one pass); it returns "" to stop.
func wdRun(size int, recycled string, gen func(d wdQuery, k int) string, fixed []string) (ops, obs []string) {
	var d flate.VerifDict
	failed := false
	do := func(f func()) {
		defer func() {
			if p := recover(); p != nil {
				obs = append(obs, "PANIC")
				failed = true
			}
		}()
		f()
	}
	do(func() { d.InitWith(size, wdRecycled(recycled)); obs = append(obs, "u") })
	for k := 0; !failed; k++ {
		var o string
		if gen != nil {
			o = gen(&d, k)
			if o == "" {
				break
			}
		} else {
			if k >= len(fixed) {
				break
			}
			o = fixed[k]
		}
		ops = append(ops, o)
		f := strings.Split(o, ":")
		atoi := func(s string) int { var x int; fmt.Sscan(s, &x); return x }
		do(func() {
			switch f[0] {
			case "i":
				d.Init(atoi(f[1]))
				obs = append(obs, "u")
			case "b":
				d.WriteByte(byte(atoi(f[1])))
				obs = append(obs, "u")
			case "c":
				obs = append(obs, fmt.Sprint(d.WriteCopy(atoi(f[1]), atoi(f[2]))))
			case "t":
				obs = append(obs, fmt.Sprint(d.TryWriteCopy(atoi(f[1]), atoi(f[2]))))
			case "r":
				obs = append(obs, fmt.Sprint(d.WriteRaw(vhlib.UnHex(f[1]))))
			case "R":
				obs = append(obs, fmt.Sprint(d.WriteRaw(patBytes(atoi(f[2]), atoi(f[1])))))
			case "f":
				obs = append(obs, vhlib.Hex(d.ReadFlush()))
			case "h":
				obs = append(obs, fmt.Sprint(d.HistSize()))
			case "a":
				obs = append(obs, fmt.Sprint(d.AvailSize()))
			}
		})
	}
	if !failed {
		l, c, w, r, full := d.Shape()
		obs = append(obs, fmt.Sprintf("s:%d:%d:%d:%d:%d", l, c, w, r, b2i(full)))
	}
	return ops, obs
}

func wdPick(rng *rand.Rand, l []int) int { return l[rng.Intn(len(l))] }

// wdGen returns a generator. big: few large operations (windows of thousands of bytes);
// rogue: probability (in 1/1000) of an operation outside the caller protocol.
func wdGen(rng *rand.Rand, nops int, big bool, rogue int, target int) func(d wdQuery, k int) string {
	produced := 0
	return func(d wdQuery, k int) string {
		if target > 0 {
			if produced >= target && k > 0 {
				if k%2 == 0 { // one last flush, then stop
					return ""
				}
				return "f"
			}
		} else if k >= nops {
			return ""
		}
		avail, hist := d.AvailSize(), d.HistSize()
		if rng.Intn(1000) < rogue {
			switch rng.Intn(7) {
			case 0: // distance beyond the history (never 0: that loops forever)
				return fmt.Sprintf("c:%d:%d", hist+1+rng.Intn(70), rng.Intn(40))
			case 1:
				return fmt.Sprintf("t:%d:%d", hist+1+rng.Intn(70), rng.Intn(40))
			case 2: // negative length
				return fmt.Sprintf("%s:%d:%d", []string{"c", "t"}[rng.Intn(2)], 1+rng.Intn(hist+2), -1-rng.Intn(20))
			case 3: // negative distance
				return fmt.Sprintf("%s:%d:%d", []string{"c", "t"}[rng.Intn(2)], -1-rng.Intn(40), rng.Intn(20))
			case 4: // no room
				if avail > 0 && avail < 200 {
					return "r:" + vhlib.Hex(vhlib.RandBytes(rng, avail+1+rng.Intn(5)))
				}
				return "b:7"
			case 5: // raw data beyond the room
				n := avail + 1 + rng.Intn(8)
				if n < 0 {
					n = 1
				}
				return fmt.Sprintf("R:%d:%d", n, rng.Intn(256))
			default:
				return fmt.Sprintf("i:%d", []int{0, -1, 1, 3}[rng.Intn(4)])
			}
		}
		if avail <= 0 {
			switch rng.Intn(10) {
			case 0:
				return "a"
			case 1:
				if hist > 0 {
					return fmt.Sprintf("c:%d:%d", 1+rng.Intn(hist), rng.Intn(10))
				}
				return "h"
			case 2:
				if hist > 0 {
					return fmt.Sprintf("t:%d:%d", 1+rng.Intn(hist), rng.Intn(10))
				}
				return "f"
			case 3:
				return "r:-"
			default:
				return "f"
			}
		}
		x := rng.Intn(100)
		switch {
		case x < 4:
			return "a"
		case x < 8:
			return "h"
		case x < 14:
			return "f"
		case x < 15 && !big && target == 0 && k > 3:
			return fmt.Sprintf("i:%d", 1+rng.Intn(70))
		case x < 40 || hist == 0:
			if big && rng.Intn(3) != 0 {
				n := wdPick(rng, []int{0, 1, rng.Intn(2000), rng.Intn(300), rng.Intn(300), rng.Intn(2000), rng.Intn(300)})
				if rng.Intn(10) == 0 {
					n = wdPick(rng, []int{avail, avail - 1, rng.Intn(avail + 1)})
				}
				if n > avail {
					n = avail
				}
				if n < 0 {
					n = 0
				}
				produced += n
				return fmt.Sprintf("R:%d:%d", n, rng.Intn(256))
			}
			if rng.Intn(3) == 0 {
				n := wdPick(rng, []int{0, 1, 2, avail, avail - 1, rng.Intn(avail + 1)})
				if n > avail {
					n = avail
				}
				if n > 300 {
					n = 300
				}
				if n < 0 {
					n = 0
				}
				produced += n
				return "r:" + vhlib.Hex(vhlib.RandBytes(rng, n))
			}
			produced++
			return fmt.Sprintf("b:%d", rng.Intn(256))
		default:
			dist := wdPick(rng, []int{1, 1, 2, 3, hist, hist, hist - 1, 1 + rng.Intn(hist), 1 + rng.Intn(hist), 1 + rng.Intn(hist)/8})
			if dist < 1 {
				dist = 1
			}
			if dist > hist {
				dist = hist
			}
			mx := 40
			if big {
				mx = 3000
			}
			length := wdPick(rng, []int{0, 1, 2, 3, dist - 1, dist, dist + 1, 2*dist + 3, 5*dist + 1,
				rng.Intn(mx), rng.Intn(mx), 3 + rng.Intn(256), 3 + rng.Intn(256)})
			if length > mx && (big || target > 0) {
				length = mx // keep the big scripts long: many operations per window
			}
			if rng.Intn(8) == 0 && (target == 0 || big || avail < 60) {
				// hit the end of the buffer exactly / just before / beyond
				length = wdPick(rng, []int{avail - 1, avail, avail + 1, avail + 7})
			}
			if length < 0 {
				length = 0
			}
			kind := "c"
			if rng.Intn(2) == 0 {
				kind = "t"
			}
			if length < avail {
				produced += length
			} else {
				produced += avail
			}
			return fmt.Sprintf("%s:%d:%d", kind, dist, length)
		}
	}
}

func wdict(r *vhlib.Run) {
	rng := r.Rng
	emit := func(bucket string, size int, recycled string, gen func(wdQuery, int) string) {
		ops, obs := wdRun(size, recycled, gen, nil)
		args := append([]string{fmt.Sprint(size), recycled}, ops...)
		r.Eval("wdict:"+bucket, true, []byte(strings.Join(args, " ")))
		r.Case("wdict", args, strings.Join(obs, ","))
		// small in-protocol scripts: the model's run also satisfies the abstract
		// LZ77 specification (Window/DictSpec.v check_spec)
		if bucket == "small" {
			r.Case("wdspec", args, "spec-ok")
		}
	}
	smallRecycled := func(size int) string {
		switch rng.Intn(8) {
		case 0:
			return "nil"
		case 1:
			if rng.Intn(4) == 0 {
				return "-"
			}
			return vhlib.Hex(vhlib.RandBytes(rng, 1))
		case 2:
			return vhlib.Hex(vhlib.RandBytes(rng, 1+rng.Intn(4)))
		case 3:
			return vhlib.Hex(vhlib.RandBytes(rng, size))
		case 4:
			return vhlib.Hex(vhlib.RandBytes(rng, size+1+rng.Intn(9)))
		default:
			return vhlib.Hex(vhlib.RandBytes(rng, 1+rng.Intn(size+3)))
		}
	}
	n := 4000
	nbig := 3
	if !r.Quick() {
		n = 60000
		nbig = 12
	}
	// small windows: wrap and growth edges all the time
	for i := 0; i < n; i++ {
		size := 1 + rng.Intn(64)
		if i%4 == 0 {
			size = 1 + rng.Intn(8)
		}
		emit("small", size, smallRecycled(size), wdGen(rng, 5+rng.Intn(60), false, 0, 0))
	}
	// outside the protocol
	for i := 0; i < n/4; i++ {
		size := 1 + rng.Intn(40)
		emit("rogue", size, smallRecycled(size), wdGen(rng, 5+rng.Intn(40), false, 80, 0))
	}
	// windows around the growth constants, enough output to grow and wrap several times
	for _, size := range []int{4095, 4096, 4097, 5000, 16384, 16385, 32768, 65536} {
		for j := 0; j < nbig; j++ {
			rec := "nil"
			switch rng.Intn(5) {
			case 0:
				rec = fmt.Sprintf("p%d:%d", 1+rng.Intn(300), rng.Intn(256))
			case 1:
				rec = fmt.Sprintf("p%d:%d", []int{1024, 4096, 4097, size - 1, size, size + 1, size + 5000}[rng.Intn(7)], rng.Intn(256))
			}
			target := size*3 + rng.Intn(size*2)
			emit(fmt.Sprintf("big%d", size), size, rec, wdGen(rng, 0, true, 0, target))
		}
	}
	// a few byte-by-byte runs at the initial size (growth 4096 -> 16384 -> 32768 by WriteByte)
	for j := 0; j < 2; j++ {
		emit("bytes", []int{4100, 20000}[j], "nil", wdGen(rng, 0, false, 0, 21000+j*9000))
	}
}
