package main

import (
	"bytes"
	stdflate "compress/flate"
	"errors"
	"fmt"

	"github.com/dsnet/compress/flate"
	"github.com/dsnet/compress/xflate/verifharness/ref"
	"github.com/dsnet/compress/xflate/verifharness/vhlib"
)

var errGate = errors.New("gate: byte not available yet")

// gatedByte is a ByteReader that exposes only B[:Gate]; an attempt beyond the
// gate is recorded together with the number of bytes delivered so far.
type gatedByte struct {
	B         []byte
	Pos, Gate int
	Delivered *int
	AtAttempt int // delivered bytes at the first attempt beyond the gate (-1 none)
}

func (g *gatedByte) beyond() {
	if g.AtAttempt < 0 {
		g.AtAttempt = *g.Delivered
	}
}
func (g *gatedByte) Read(p []byte) (int, error) {
	if g.Pos >= g.Gate {
		g.beyond()
		return 0, errGate
	}
	n := copy(p, g.B[g.Pos:g.Gate])
	g.Pos += n
	return n, nil
}
func (g *gatedByte) ReadByte() (byte, error) {
	if g.Pos >= g.Gate {
		g.beyond()
		return 0, errGate
	}
	c := g.B[g.Pos]
	g.Pos++
	return c, nil
}

type gatedBuffered struct{ gatedByte }

func (g *gatedBuffered) Buffered() int { return g.Gate - g.Pos }
func (g *gatedBuffered) Peek(n int) ([]byte, error) {
	if n > g.Gate-g.Pos {
		g.beyond()
		return g.B[g.Pos:g.Gate], errGate
	}
	return g.B[g.Pos : g.Pos+n], nil
}
func (g *gatedBuffered) Discard(n int) (int, error) {
	if n > g.Gate-g.Pos {
		k := g.Gate - g.Pos
		g.Pos = g.Gate
		g.beyond()
		return k, errGate
	}
	g.Pos += n
	return n, nil
}

// c11Gated: after a compressor flush, flate.Reader must deliver everything
// written before the flush without asking for a byte beyond the flush point.
func c11Gated(r *vhlib.Run) {
	rng := r.Rng
	n := 60
	if !r.Quick() {
		n = 1500
	}
	for i := 0; i < n; i++ {
		// build a stream with recorded flush points
		var parts [][]byte
		for k := 0; k < 1+rng.Intn(5); k++ {
			parts = append(parts, vhlib.RandBytes(rng, rng.Intn(3000)))
		}
		var stream []byte
		var gates, plainAt []int
		plain := 0
		if rng.Intn(2) == 0 {
			var bb bytes.Buffer
			zw, _ := stdflate.NewWriter(&bb, []int{-2, 0, 1, 6, 9}[rng.Intn(5)])
			for _, p := range parts {
				zw.Write(p)
				zw.Flush()
				plain += len(p)
				gates = append(gates, bb.Len())
				plainAt = append(plainAt, plain)
			}
			zw.Close()
			stream = bb.Bytes()
		} else {
			lvl, wb, ml, st := rng.Intn(10), 9+rng.Intn(7), 1+rng.Intn(9), rng.Intn(5)
			var ops []ref.ZOp
			for _, p := range parts {
				ops = append(ops, ref.ZOp{Data: p, Flush: []int{2, 3}[rng.Intn(2)]})
				plain += len(p)
				z := ref.ZDeflate(ops, lvl, wb, ml, st)
				gates = append(gates, len(z))
				plainAt = append(plainAt, plain)
			}
			ops = append(ops, ref.ZOp{Flush: 4})
			stream = ref.ZDeflate(ops, lvl, wb, ml, st)
		}
		for gi, gate := range gates {
			for mode := 0; mode < 2; mode++ {
				delivered := 0
				base := gatedByte{B: stream, Gate: gate, Delivered: &delivered, AtAttempt: -1}
				var zr *flate.Reader
				if mode == 0 {
					zr, _ = flate.NewReader(&base, nil)
				} else {
					zr, _ = flate.NewReader(&gatedBuffered{base}, nil)
				}
				src := &base
				_ = src
				buf := make([]byte, 1+rng.Intn(5000))
				var err error
				var at *int
				if mode == 0 {
					at = &base.AtAttempt
				}
				var gb *gatedBuffered
				if mode == 1 {
					gb = &gatedBuffered{base}
					gb.Delivered = &delivered
					zr, _ = flate.NewReader(gb, nil)
					at = &gb.AtAttempt
				}
				for err == nil && delivered <= plainAt[gi] {
					var c int
					c, err = zr.Read(buf)
					delivered += c
					if c == 0 && err == nil {
						break
					}
				}
				r.Eval("gated", true, stream, []byte(fmt.Sprint(gate, mode)))
				rp := map[string]interface{}{"stream": vhlib.Hex(stream), "gate": gate, "mode": []string{"ByteReader", "BufferedReader"}[mode]}
				if delivered < plainAt[gi] {
					r.Violate("flushed-data-not-delivered", fmt.Sprintf("delivered=%d flushed=%d err=%v", delivered, plainAt[gi], err), rp)
				} else if *at >= 0 && *at < plainAt[gi] {
					r.Violate("read-beyond-flush-point", fmt.Sprintf("asked for byte >= %d after delivering %d of %d", gate, *at, plainAt[gi]), rp)
				}
			}
		}
	}
}
