package main

import (
	"fmt"
	"math/rand"
	"strings"

	"github.com/dsnet/compress/xflate/internal/meta"
	"github.com/dsnet/compress/xflate/verifharness/vhlib"
)

// WMETAW: the real meta.Writer over the scripted sink of wbitw.go against its
// implementation-level model (coq/Meta/WriterImpl.v), PER CALL: return values,
// InputOffset / OutputOffset / NumBlocks after the call, how many bytes each sink call of
// the call accepted; and the bytes every sink holds at the end.

func init() { props["WMETAW"] = runWMETAW }

type mwOp struct {
	Kind   byte // 'w' Write, 'c' FinalMode = Mode; Close, 'r' Reset(new sink)
	Data   []byte
	Mode   int
	Script []wSinkBeh
	Rest   wSinkBeh
}

func (o mwOp) String() string {
	switch o.Kind {
	case 'w':
		return "w:" + hexOrDash(o.Data)
	case 'r':
		return "r/" + wScriptString(o.Script) + "/" + o.Rest.String()
	}
	return fmt.Sprintf("c:%d", o.Mode)
}

func runMetaWriter(script []wSinkBeh, rest wSinkBeh, ops []mwOp) (string, []*zwSink) {
	sink := newZwSink(script, rest)
	sinks := []*zwSink{sink}
	mw := meta.NewWriter(sink)
	var obs []string
	for _, o := range ops {
		calls0 := len(sink.Acc)
		var head string
		rtPanic := false
		func() {
			defer func() {
				if p := recover(); p != nil {
					rtPanic = true
				}
			}()
			switch o.Kind {
			case 'w':
				n, err := mw.Write(o.Data)
				head = fmt.Sprintf("w:%d:%s", n, zwErrName(err))
			case 'c':
				mw.FinalMode = meta.FinalMode(o.Mode)
				err := mw.Close()
				head = "c:" + zwErrName(err)
			case 'r':
				sink = newZwSink(o.Script, o.Rest)
				sinks = append(sinks, sink)
				calls0 = 0
				mw.Reset(sink)
				head = "r"
			}
		}()
		if rtPanic {
			head = "panic"
		}
		obs = append(obs, zwCallObs(fmt.Sprintf("%s:%d", head, mw.NumBlocks), mw.InputOffset, mw.OutputOffset, sink, calls0))
		if rtPanic {
			break
		}
	}
	var finals []string
	for _, s := range sinks {
		finals = append(finals, hexOrDash(s.Data))
	}
	return strings.Join(obs, ",") + " " + strings.Join(finals, ","), sinks
}

// payload families: the bit weight decides how many bytes fit a block
func mwData(rng *rand.Rand, n int) []byte {
	b := make([]byte, n)
	switch rng.Intn(6) {
	case 0:
		rng.Read(b)
	case 1: // all zero
	case 2: // all ones
		for i := range b {
			b[i] = 0xff
		}
	case 3: // sparse
		for i := range b {
			b[i] = byte(1) << uint(rng.Intn(8)) & byte(rng.Intn(256))
		}
	case 4: // dense
		for i := range b {
			b[i] = ^(byte(1) << uint(rng.Intn(8)) & byte(rng.Intn(256)))
		}
	default: // mixed segments
		for i := 0; i < n; {
			l := 1 + rng.Intn(30)
			c := []byte{0, 0xff, 0x55, 0x0f}[rng.Intn(4)]
			for j := 0; j < l && i < n; j++ {
				b[i] = c ^ byte(rng.Intn(2))
				i++
			}
		}
	}
	return b
}

func runWMETAW(r *vhlib.Run) {
	rng := r.Rng
	accept := wSinkBeh{}
	args := func(script []wSinkBeh, rest wSinkBeh, ops []mwOp) []string {
		a := []string{wScriptString(script), rest.String()}
		for _, o := range ops {
			a = append(a, o.String())
		}
		return a
	}
	emit := func(bucket string, script []wSinkBeh, rest wSinkBeh, ops []mwOp) {
		obs, _ := runMetaWriter(script, rest, ops)
		a := args(script, rest, ops)
		r.Eval("metaw-impl:"+bucket, true, []byte(strings.Join(a, " ")))
		r.Case("wmetaw", a, obs)
	}
	stream := func() []mwOp {
		var ops []mwOp
		n := rng.Intn(120)
		if rng.Intn(4) == 0 {
			n = rng.Intn(600)
		}
		for _, p := range vhlib.Partition(rng, mwData(rng, n)) {
			ops = append(ops, mwOp{Kind: 'w', Data: p})
		}
		if rng.Intn(6) > 0 {
			ops = append(ops, mwOp{Kind: 'c', Mode: rng.Intn(3)})
			for k := rng.Intn(3); k > 0; k-- {
				if rng.Intn(2) == 0 {
					ops = append(ops, mwOp{Kind: 'c', Mode: rng.Intn(3)})
				} else {
					ops = append(ops, mwOp{Kind: 'w', Data: mwData(rng, rng.Intn(40))})
				}
			}
		}
		return ops
	}
	n := 30
	if !r.Quick() {
		n = 1200
	}
	for i := 0; i < n; i++ {
		ops := stream()
		_, dry := runMetaWriter(nil, accept, ops)
		sizes := dry[0].Acc
		emit("never", nil, accept, ops)
		// every sink call, every short count
		for ci := range sizes {
			ks := zwShortCounts(rng, sizes[ci], i%4 == 0)
			for _, k := range ks {
				tag := 1 + rng.Intn(9)
				emit("once", zwFailAt(ci, k, tag), accept, ops)
				perm := wSinkBeh{Fail: true, K: []int{0, 0, 1, 3, 1000}[rng.Intn(5)], Tag: 10 + rng.Intn(9)}
				emit("permanent", zwFailAt(ci, k, tag), perm, ops)
				if rng.Intn(6) == 0 {
					ops2 := append(append([]mwOp{}, ops...), mwOp{Kind: 'r', Rest: accept})
					ops2 = append(ops2, stream()...)
					emit("reset", zwFailAt(ci, k, tag), accept, ops2)
				}
			}
		}
	}
	// several streams through one Writer, arbitrary scripts
	m := 80
	if !r.Quick() {
		m = 3000
	}
	for i := 0; i < m; i++ {
		rscript := func() ([]wSinkBeh, wSinkBeh) {
			var script []wSinkBeh
			for k := rng.Intn(8); k > 0; k-- {
				if rng.Intn(4) == 0 {
					script = append(script, wSinkBeh{Fail: true, K: []int{0, 1, 2, 10, 30, 63, 64, 3000}[rng.Intn(8)], Tag: 20 + rng.Intn(9)})
				} else {
					script = append(script, accept)
				}
			}
			rest := accept
			if rng.Intn(4) == 0 {
				rest = wSinkBeh{Fail: true, K: rng.Intn(4), Tag: 30}
			}
			return script, rest
		}
		var ops []mwOp
		for s := 1 + rng.Intn(3); s > 0; s-- {
			ops = append(ops, stream()...)
			if s > 1 {
				sc, rs := rscript()
				ops = append(ops, mwOp{Kind: 'r', Script: sc, Rest: rs})
			}
		}
		sc, rs := rscript()
		emit("random", sc, rs, ops)
	}
}
