package main

import (
	"bytes"
	"errors"
	"fmt"
	"io"
	"io/ioutil"

	"github.com/dsnet/compress/bzip2"
	"github.com/dsnet/compress/xflate"
	"github.com/dsnet/compress/xflate/internal/meta"
	"github.com/dsnet/compress/xflate/verifharness/ref"
	"github.com/dsnet/compress/xflate/verifharness/vhlib"
)

// wrt is the common face of the stream encoders under test.
type wrt interface {
	Write([]byte) (int, error)
	Close() error
	Reset(io.Writer)
	Flush(mode int) (error, bool) // bool: supported
	Offsets() (in, out int64)
}

type bzW struct{ *bzip2.Writer }

func (w bzW) Reset(s io.Writer)       { w.Writer.Reset(s) }
func (w bzW) Flush(int) (error, bool) { return nil, false }
func (w bzW) Offsets() (int64, int64) { return w.InputOffset, w.OutputOffset }

type xfW struct{ *xflate.Writer }

func (w xfW) Reset(s io.Writer)         { w.Writer.Reset(s) }
func (w xfW) Flush(m int) (error, bool) { return w.Writer.Flush(xflate.FlushMode(m)), true }
func (w xfW) Offsets() (int64, int64)   { return w.InputOffset, w.OutputOffset }

type mtW struct {
	*meta.Writer
	mode meta.FinalMode
}

func (w mtW) Reset(s io.Writer)       { w.Writer.Reset(s); w.Writer.FinalMode = w.mode }
func (w mtW) Flush(int) (error, bool) { return nil, false }
func (w mtW) Offsets() (int64, int64) { return w.InputOffset, w.OutputOffset }

type wcodec struct {
	Name   string
	Big    bool // chunks large enough for the compressor to reach the sink inside Write
	New    func(io.Writer) wrt
	Decode func(sink []byte) (plain []byte, ok bool) // complete-stream decode
}

func wcodecs() []wcodec {
	return []wcodec{
		{Name: "bzip2",
			New: func(s io.Writer) wrt { w, _ := bzip2.NewWriter(s, &bzip2.WriterConfig{Level: 1}); return bzW{w} },
			Decode: func(sink []byte) ([]byte, bool) {
				out, ok, used, _, _ := ref.BZDecompress(sink, 1<<24)
				return out, ok && used == len(sink) && len(sink) > 0
			}},
		{Name: "xflate",
			New: func(s io.Writer) wrt {
				w, _ := xflate.NewWriter(s, &xflate.WriterConfig{Level: 6, ChunkSize: 9, IndexSize: 2})
				return xfW{w}
			},
			Decode: func(sink []byte) ([]byte, bool) {
				out, cls, used := stdInflateObs(sink)
				return out, cls == "nil" && used == len(sink)
			}},
		{Name: "meta",
			New: func(s io.Writer) wrt {
				w := meta.NewWriter(s)
				w.FinalMode = meta.FinalStream
				return mtW{w, meta.FinalStream}
			},
			Decode: func(sink []byte) ([]byte, bool) {
				mr := meta.NewReader(bytes.NewReader(sink))
				out, err := ioutil.ReadAll(mr)
				return out, err == nil && mr.FinalMode == meta.FinalStream && mr.InputOffset == int64(len(sink))
			}},
	}
}

// ---- faulty sink -------------------------------------------------------------

var errSink = &vhlib.SentinelErr{Tag: 9}

// faultSink accepts bytes up to position At, then fails: Kind 0 = error with
// zero count, 1 = short count with error. Once = only the first failing call
// fails (afterwards it accepts again).
type faultSink struct {
	Buf    bytes.Buffer
	At     int
	Kind   int
	Once   bool
	Fired  int
	Writes int
	Sizes  []int // size of every Write call, in order
}

func (f *faultSink) Write(p []byte) (int, error) {
	f.Writes++
	f.Sizes = append(f.Sizes, len(p))
	if f.At < 0 || (f.Once && f.Fired > 0) || f.Buf.Len()+len(p) <= f.At {
		f.Buf.Write(p)
		return len(p), nil
	}
	f.Fired++
	if f.Kind == 1 {
		n := f.At - f.Buf.Len()
		if n < 0 {
			n = 0
		}
		f.Buf.Write(p[:n])
		return n, errSink
	}
	return 0, errSink
}

var errNotSupported = errors.New("not supported")

// wOp: generic writer op
type wOp struct {
	Kind byte // 'w','f','c','r'(reset)
	Data []byte
	Mode int
}

func (o wOp) String() string {
	switch o.Kind {
	case 'w':
		return "w:" + vhlib.Hex(o.Data)
	case 'f':
		return fmt.Sprintf("f:%d", o.Mode)
	case 'r':
		return "reset"
	}
	return "c"
}

func wOpsStrings(ops []wOp) []string {
	var s []string
	for _, o := range ops {
		s = append(s, o.String())
	}
	return s
}
