package main

import (
	"bytes"
	"fmt"
	"io"
	"strings"
	"time"

	"github.com/dsnet/compress/xflate"
	"github.com/dsnet/compress/xflate/verifharness/gen"
	"github.com/dsnet/compress/xflate/verifharness/ref"
	"github.com/dsnet/compress/xflate/verifharness/vhlib"
)

func init() { props["C18"] = runC18 }

// lifecycle of the writers: every order of Write/Flush/Close/Reset
func c18Writer(r *vhlib.Run, wc wcodec, seq []wOp) {
	replay := map[string]interface{}{"type": wc.Name + ".Writer", "ops": wOpsStrings(seq)}
	r.Eval("writer:"+wc.Name, true, []byte(wc.Name+strings.Join(wOpsStrings(seq), " ")))
	sink := new(bytes.Buffer)
	var accepted []byte
	closedOK := false // a Close has returned nil since the last Reset
	sinkAtClose := 0
	var w wrt
	// sinks given up by Reset: nothing may reach them any more (a stream that was closed stays as it is)
	type retired struct {
		b *bytes.Buffer
		n int
	}
	var old []retired
	func() {
		defer func() {
			if p := recover(); p != nil {
				r.Violate("panic", fmt.Sprintf("%s.Writer: %v", wc.Name, p), replay)
			}
		}()
		w = wc.New(sink)
		for i, o := range seq {
			before := sink.Len()
			switch o.Kind {
			case 'w':
				n, err := w.Write(o.Data)
				if closedOK {
					if err == nil || n != 0 {
						r.Violate("write-after-close-accepted", fmt.Sprintf("%s op %d: (%d,%v)", wc.Name, i, n, err), replay)
					}
				} else if err == nil {
					accepted = append(accepted, o.Data[:n]...)
				}
			case 'f':
				err, ok := w.Flush(o.Mode)
				if ok && closedOK && err == nil {
					r.Violate("flush-after-close-accepted", fmt.Sprintf("%s op %d", wc.Name, i), replay)
				}
				if ok && o.Mode > 2 && err == nil {
					r.Violate("invalid-flush-accepted", fmt.Sprintf("%s op %d", wc.Name, i), replay)
				}
			case 'c':
				err := w.Close()
				if closedOK && err != nil {
					r.Violate("close-not-idempotent", fmt.Sprintf("%s op %d: second Close returned %v", wc.Name, i, err), replay)
				}
				if err == nil && !closedOK {
					closedOK = true
					sinkAtClose = sink.Len()
					plain, ok := wc.Decode(sink.Bytes())
					if !ok || !bytes.Equal(plain, accepted) {
						r.Violate("closed-stream-invalid", fmt.Sprintf("%s: decodes ok=%v %d/%d bytes", wc.Name, ok, len(plain), len(accepted)), replay)
					}
				}
			case 'r':
				old = append(old, retired{sink, sink.Len()})
				sink = new(bytes.Buffer)
				before = 0
				accepted = nil
				closedOK = false
				w.Reset(sink)
			}
			for _, rt := range old {
				if rt.b.Len() != rt.n {
					r.Violate("bytes-after-close", fmt.Sprintf("%s op %d (%s): a sink given up by an earlier Reset grew from %d to %d bytes", wc.Name, i, o, rt.n, rt.b.Len()), replay)
					return
				}
			}
			if closedOK && o.Kind != 'r' && o.Kind != 'c' && sink.Len() != before {
				r.Violate("bytes-after-close", fmt.Sprintf("%s op %d (%s) emitted %d bytes after a successful Close", wc.Name, i, o, sink.Len()-before), replay)
			}
			if closedOK && o.Kind == 'c' && sink.Len() != sinkAtClose {
				r.Violate("bytes-after-close", fmt.Sprintf("%s op %d: repeated Close emitted bytes", wc.Name, i), replay)
			}
		}
	}()
}

type rdOp struct {
	Kind byte // 'r' read n, 's' seek, 'c' close, 'R' reset
	N    int
	Off  int64
	Wh   int
}

func (o rdOp) String() string {
	switch o.Kind {
	case 'r':
		return fmt.Sprintf("read:%d", o.N)
	case 's':
		return fmt.Sprintf("seek:%d:%d", o.Off, o.Wh)
	case 'c':
		return "close"
	}
	return "reset"
}

func c18Reader(r *vhlib.Run, c codec, data, plain []byte, seq []rdOp) {
	var names []string
	for _, o := range seq {
		names = append(names, o.String())
	}
	replay := map[string]interface{}{"type": c.Name + ".Reader", "stream": vhlib.Hex(data[:min(len(data), 4000)]), "stream_len": len(data), "ops": names}
	r.Eval("reader:"+c.Name, true, []byte(c.Name+strings.Join(names, " ")))
	if c18Hangs >= 2 {
		return
	}
	// a call that does not return is a finding of its own: the history runs under a watchdog
	fin := make(chan struct{})
	go func() {
		defer close(fin)
		c18ReaderBody(r, c, data, plain, seq, replay)
	}()
	select {
	case <-fin:
	case <-time.After(20 * time.Second):
		c18Hangs++
		r.Violate("hang", fmt.Sprintf("%s.Reader: a call of the history does not return within 20 s", c.Name), replay)
	}
}

var c18Hangs int

func c18ReaderBody(r *vhlib.Run, c codec, data, plain []byte, seq []rdOp, replay map[string]interface{}) {
	defer func() {
		if p := recover(); p != nil {
			r.Violate("panic", fmt.Sprintf("%s.Reader: %v", c.Name, p), replay)
		}
	}()
	z := c.New(bytes.NewReader(data))
	atEOF, closedAfterEOF, closedNil := false, false, false
	var got []byte
	for i, o := range seq {
		switch o.Kind {
		case 'r':
			buf := make([]byte, o.N)
			n, err := z.Read(buf)
			if closedAfterEOF && (n != 0 || err == nil) {
				r.Violate("read-after-close", fmt.Sprintf("%s op %d: (%d,%v)", c.Name, i, n, err), replay)
			}
			if !closedNil {
				got = append(got, buf[:n]...)
				if !isPrefix(got, plain) {
					r.Violate("wrong-data", fmt.Sprintf("%s op %d", c.Name, i), replay)
				}
			}
			if err == io.EOF {
				atEOF = true
			}
		case 'c':
			err := z.Close()
			if closedNil && err != nil {
				r.Violate("close-not-idempotent", fmt.Sprintf("%s op %d: %v", c.Name, i, err), replay)
			}
			if err == nil {
				closedNil = true
				if atEOF {
					closedAfterEOF = true
				}
			}
		case 'R':
			z.Reset(bytes.NewReader(data))
			atEOF, closedAfterEOF, closedNil = false, false, false
			got = nil
		}
	}
}

func c18XReader(r *vhlib.Run, data, plain []byte, seq []rdOp) {
	var names []string
	for _, o := range seq {
		names = append(names, o.String())
	}
	replay := map[string]interface{}{"type": "xflate.Reader", "stream": vhlib.Hex(data), "ops": names}
	r.Eval("reader:xflate", true, []byte("xflate"+strings.Join(names, " ")))
	defer func() {
		if p := recover(); p != nil {
			r.Violate("panic", fmt.Sprintf("xflate.Reader: %v", p), replay)
		}
	}()
	x, err := xflate.NewReader(bytes.NewReader(data), nil)
	if err != nil {
		r.Violate("open-failed", fmt.Sprint(err), replay)
		return
	}
	atEOF, closedAfterEOF, closedNil := false, false, false
	for i, o := range seq {
		switch o.Kind {
		case 'r':
			buf := make([]byte, o.N)
			n, err, hung := readWithTimeout(x, buf)
			if hung {
				r.Violate("read-hangs", fmt.Sprintf("op %d", i), replay)
				return
			}
			if closedAfterEOF && (n != 0 || err == nil) {
				r.Violate("read-after-close", fmt.Sprintf("xflate op %d: (%d,%v)", i, n, err), replay)
			}
			if err == io.EOF {
				atEOF = true
			}
		case 's':
			_, err := x.Seek(o.Off, o.Wh)
			if closedAfterEOF && err == nil {
				r.Violate("seek-after-close", fmt.Sprintf("xflate op %d", i), replay)
			}
			if err == nil {
				atEOF = false
			}
		case 'c':
			err := x.Close()
			if closedNil && err != nil {
				r.Violate("close-not-idempotent", fmt.Sprintf("xflate op %d: %v", i, err), replay)
			}
			if err == nil {
				closedNil = true
				if atEOF {
					closedAfterEOF = true
				}
			}
		case 'R':
			if err := x.Reset(bytes.NewReader(data)); err != nil {
				r.Violate("reset-failed", fmt.Sprint(err), replay)
				return
			}
			atEOF, closedAfterEOF, closedNil = false, false, false
		}
	}
}

func runC18(r *vhlib.Run) {
	rng := r.Rng
	// lifecycle histories of flate.Reader (Read / Close / Reset in any order over scripted sources)
	// against the implementation-level model, per call (Flate/ImplLife.v)
	wfllife(r)
	// lifecycle histories of bzip2.Reader against the implementation-level model, per call (Bzip2/ImplLife.v)
	wbzlife(r)
	// meta.Reader itself against its implementation-level model, per call (Meta/ReaderImpl.v)
	runWMETAR(r)
	depth := 4
	if !r.Quick() {
		depth = 5
	}
	m := vhlib.StartModel()
	defer m.Close()
	for _, wc := range wcodecs() {
		alpha := []wOp{{Kind: 'w'}, {Kind: 'w', Data: []byte{7}}, {Kind: 'w', Data: vhlib.RandBytes(rng, 40)}, {Kind: 'c'}, {Kind: 'r'}}
		if wc.Name == "xflate" {
			alpha = append(alpha, wOp{Kind: 'f', Mode: 0}, wOp{Kind: 'f', Mode: 1}, wOp{Kind: 'f', Mode: 2}, wOp{Kind: 'f', Mode: 5})
		}
		d := depth
		if wc.Name == "xflate" && r.Quick() {
			d = 3
		}
		var rec func(prefix []wOp, k int)
		rec = func(prefix []wOp, k int) {
			if len(prefix) > 0 {
				c18Writer(r, wc, prefix)
				// the xflate Writer model covers histories without Reset
				if wc.Name == "xflate" && len(prefix) == d {
					hasReset := false
					var xops []xwOp
					for _, o := range prefix {
						if o.Kind == 'r' {
							hasReset = true
						}
						xops = append(xops, xwOp{Kind: o.Kind, Data: o.Data, Mode: o.Mode})
					}
					if !hasReset {
						cfg := xwCfg{Level: 6, ChunkSize: 9, Index: 2}
						var bb bytes.Buffer
						res := runXW(cfg, xops, nil, &bb)
						r.CaseLive(m, "xw", xwArgs(cfg, xops), res.Obs())
					}
				}
			}
			if k == 0 {
				return
			}
			for _, a := range alpha {
				rec(append(append([]wOp{}, prefix...), a), k-1)
			}
		}
		rec(nil, d)
		for i := 0; i < 100; i++ {
			var seq []wOp
			for k := 0; k < 5+rng.Intn(35); k++ {
				seq = append(seq, alpha[rng.Intn(len(alpha))])
			}
			c18Writer(r, wc, seq)
		}
	}
	// Close is idempotent also when it FAILS: over a sink that fails at some point (for good or
	// once), a Close that has reported an error is not followed by a Close that reports success
	// (the stream the sink holds is incomplete), and a Close that succeeded keeps succeeding
	for _, wc := range wcodecs() {
		nsch := 4
		if !r.Quick() {
			nsch = 30
		}
		for si := 0; si < nsch; si++ {
			ops := c13Schedule(rng, wc, si%3 == 2)
			free := &faultSink{At: -1}
			runWriter(wc, free, ops)
			total := free.Buf.Len()
			var ats []int
			for k := 0; k <= total && k < 64; k++ {
				ats = append(ats, total-k) // the footer / end-of-stream region, byte by byte
			}
			for k := 0; k < 24; k++ {
				ats = append(ats, rng.Intn(total+1))
			}
			for _, at := range ats {
				for v := 0; v < 4; v++ {
					sink := &faultSink{At: at, Kind: v & 1, Once: v&2 != 0}
					full := append(append([]wOp{}, ops...), wOp{Kind: 'c'}, wOp{Kind: 'w', Data: []byte("x")}, wOp{Kind: 'c'}, wOp{Kind: 'c'})
					t := runWriter(wc, sink, full)
					rp := map[string]interface{}{"type": wc.Name + ".Writer", "ops": wOpsStrings(full), "sink_fails_at": at, "short_write": v&1 == 1, "once": v&2 != 0, "returns": t.Rets}
					r.Eval("writer-failing-sink:"+wc.Name, true, []byte(fmt.Sprint(wc.Name, wOpsStrings(ops), at, v)))
					if t.Panic != "" {
						r.Violate("panic", wc.Name+".Writer: "+t.Panic, rp)
						continue
					}
					first := -1
					for i, o := range full {
						if o.Kind != 'c' || i >= len(t.Errs) {
							continue
						}
						if first < 0 {
							first = i
							continue
						}
						if (t.Errs[first] == nil) != (t.Errs[i] == nil) {
							r.Violate("close-not-idempotent", fmt.Sprintf("%s: Close (call %d) returned %v, a later Close (call %d) returned %v", wc.Name, first, t.Errs[first], i, t.Errs[i]), rp)
							break
						}
					}
				}
			}
		}
	}
	ralpha := []rdOp{{Kind: 'r', N: 0}, {Kind: 'r', N: 1}, {Kind: 'r', N: 7}, {Kind: 'r', N: 100000}, {Kind: 'c'}, {Kind: 'R'}}
	for _, c := range codecs() {
		s := c.Valid(rng, 600)
		for len(s.Plain) < 20 {
			s = c.Valid(rng, 600)
			if c.Name == "meta" && len(s.Plain) > 0 {
				break
			}
		}
		var rec func(prefix []rdOp, k int)
		rec = func(prefix []rdOp, k int) {
			if len(prefix) > 0 {
				c18Reader(r, c, s.Data, s.Plain, prefix)
			}
			if k == 0 {
				return
			}
			for _, a := range ralpha {
				rec(append(append([]rdOp{}, prefix...), a), k-1)
			}
		}
		rec(nil, depth)
		for i := 0; i < 100; i++ {
			var seq []rdOp
			for k := 0; k < 5+rng.Intn(35); k++ {
				seq = append(seq, ralpha[rng.Intn(len(ralpha))])
			}
			c18Reader(r, c, s.Data, s.Plain, seq)
		}
		// the same over a long text-like stream: short Reads leave the decoder in the MIDDLE of its
		// stream (inside a block, a copy, a run), where a Close that closes nothing must also leave
		// the decoder able to go on
		if c.Name != "meta" {
			tp := gen.Text(rng, 30000+rng.Intn(60000))
			var td []byte
			switch c.Name {
			case "flate":
				td = gen.StdDeflate(rng, tp, 6)
			case "brotli":
				td = gen.BrotliEnc(rng, tp)
			case "bzip2":
				td = ref.BZCompress(tp, 1+rng.Intn(9))
			}
			sizes := []int{0, 1, 7, 100, 4096, 5000, 100000}
			for i := 0; i < 60 && td != nil; i++ {
				var seq []rdOp
				for k := 0; k < 3+rng.Intn(12); k++ {
					switch rng.Intn(6) {
					case 0:
						seq = append(seq, rdOp{Kind: 'c'})
					case 1:
						if rng.Intn(3) == 0 {
							seq = append(seq, rdOp{Kind: 'R'})
						}
					default:
						seq = append(seq, rdOp{Kind: 'r', N: sizes[rng.Intn(len(sizes))]})
					}
				}
				seq = append(seq, rdOp{Kind: 'r', N: 1 << 20}, rdOp{Kind: 'r', N: 1 << 20})
				c18Reader(r, c, td, tp, seq)
			}
		}
		// Close issued when the decoder has already taken the whole input while the caller has not
		// drained the decoded output: if that Close reports success AND closed the Reader, no later
		// Read may hand out data (see below for what is compared)
		for _, st := range []struct{ Data, Plain []byte }{{s.Data, s.Plain}, func() struct{ Data, Plain []byte } {
			v := c.Valid(rng, 6000)
			return struct{ Data, Plain []byte }{v.Data, v.Plain}
		}()} {
			for _, bs := range []int{1, 3, 50} {
				func() {
					defer func() {
						if p := recover(); p != nil {
							r.Violate("panic", fmt.Sprintf("%s.Reader: %v", c.Name, p), map[string]interface{}{"type": c.Name + ".Reader", "stream": vhlib.Hex(st.Data)})
						}
					}()
					z := c.New(bytes.NewReader(st.Data))
					got := 0
					for steps := 0; steps < 4*len(st.Plain)+100; steps++ {
						if in, _ := z.Offsets(); in == int64(len(st.Data)) {
							break
						}
						n, err := z.Read(make([]byte, bs))
						got += n
						if err != nil {
							return
						}
					}
					in, _ := z.Offsets()
					r.Eval("close-with-pending-output:"+c.Name, true, st.Data, []byte{byte(bs)})
					if in != int64(len(st.Data)) || got >= len(st.Plain) {
						return
					}
					if z.Close() != nil {
						return
					}
					// Close returned nil. Either the Reader was at the end of its stream and is now
					// closed (every Read fails, nothing is delivered), or the stream had not ended for
					// the decoder (all input taken, but its state machine not yet at the end marker) and
					// Close closed nothing: the Reader goes on and finishes with io.EOF. What must not
					// happen is both: data handed out and then the error of a CLOSED Reader.
					after := 0
					var last error
					for k := 0; k < 4*len(st.Plain)/64+100; k++ {
						n, err := z.Read(make([]byte, 64))
						after += n
						last = err
						if err != nil {
							break
						}
					}
					if after > 0 && last != nil && last != io.EOF {
						r.Violate("read-after-close-returns-data", fmt.Sprintf("%s.Reader: all %d input bytes consumed, %d of %d output bytes delivered, Close returned nil, later Reads returned %d bytes and then %v", c.Name, len(st.Data), got, len(st.Plain), after, last),
							map[string]interface{}{"type": c.Name + ".Reader", "stream": vhlib.Hex(st.Data), "read_size": bs})
						return
					}
				}()
			}
		}
	}
	{
		sink, plain, _ := makeXFStream(xwCfg{Level: 6, ChunkSize: 8, Index: 2}, []xwOp{{Kind: 'w', Data: vhlib.RandBytes(rng, 30)}, {Kind: 'c'}})
		xalpha := []rdOp{{Kind: 'r', N: 0}, {Kind: 'r', N: 5}, {Kind: 'r', N: 1000}, {Kind: 's', Off: 3, Wh: 0}, {Kind: 's', Off: 0, Wh: 2}, {Kind: 's', Off: -1, Wh: 0}, {Kind: 's', Off: 0, Wh: 1}, {Kind: 'c'}, {Kind: 'R'}}
		var rec func(prefix []rdOp, k int)
		rec = func(prefix []rdOp, k int) {
			if len(prefix) > 0 {
				c18XReader(r, sink, plain, prefix)
				if len(prefix) == depth {
					// model correspondence for histories without Reset
					ok := true
					var ops []xrOp
					for _, o := range prefix {
						switch o.Kind {
						case 'R':
							ok = false
						case 'r':
							ops = append(ops, xrOp{Kind: 'r', N: o.N})
						case 's':
							ops = append(ops, xrOp{Kind: 's', Off: o.Off, Whence: o.Wh})
						case 'c':
							ops = append(ops, xrOp{Kind: 'c'})
						}
					}
					if ok {
						obs, _ := runXR(r, sink, plain, ops, false)
						if obs != "hang" && obs != "panic" {
							r.CaseLive(m, "xr", append([]string{vhlib.Hex(sink)}, xrOpsStrings(ops)...), obs+"|")
						}
					}
				}
			}
			if k == 0 {
				return
			}
			for _, a := range xalpha {
				rec(append(append([]rdOp{}, prefix...), a), k-1)
			}
		}
		rec(nil, depth)
	}
	r.Sample(map[string]interface{}{"type": "bzip2.Writer", "ops": []string{"w:07", "c", "w:07", "c", "reset", "w:-", "c"}})
}
