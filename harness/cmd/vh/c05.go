package main

import (
	"bytes"
	"fmt"
	"io"
	"io/ioutil"
	"strings"

	"github.com/dsnet/compress/flate"
	"github.com/dsnet/compress/xflate"
	"github.com/dsnet/compress/xflate/verifharness/ref"
	"github.com/dsnet/compress/xflate/verifharness/vhlib"
)

func init() {
	props["C05"] = func(r *vhlib.Run) { runC05(r, "C05") }
	props["C06"] = func(r *vhlib.Run) { runC05(r, "C06") }
}

// xfReadAll opens the stream and reads it sequentially.
func xfReadAll(sink []byte) (data []byte, end int64, errOpen, errRead error, panicked string) {
	defer func() {
		if p := recover(); p != nil {
			panicked = fmt.Sprint(p)
		}
	}()
	xr, err := xflate.NewReader(bytes.NewReader(sink), nil)
	if err != nil {
		return nil, 0, err, nil, ""
	}
	data, errRead = ioutil.ReadAll(xr)
	end, _ = xr.Seek(0, io.SeekEnd)
	// the same through io.Copy (which uses an io.WriterTo of the Reader if it has one), after a short Read
	if errRead == nil {
		if xr2, err := xflate.NewReader(bytes.NewReader(sink), nil); err == nil {
			head := make([]byte, 3)
			n, _ := io.ReadFull(xr2, head)
			var rest bytes.Buffer
			_, cerr := io.Copy(&rest, io.Reader(xr2))
			if cerr != nil || !bytes.Equal(append(head[:n], rest.Bytes()...), data) {
				return data, end, nil, fmt.Errorf("io.Copy after Read(3) delivers %d bytes (err=%v), ReadAll %d", n+rest.Len(), cerr, len(data)), ""
			}
		}
	}
	return
}

func c05History(r *vhlib.Run, m *vhlib.Model, which string, cfg xwCfg, ops []xwOp, bucket string) {
	var bb bytes.Buffer
	res := runXW(cfg, ops, nil, &bb)
	replay := map[string]interface{}{"level": cfg.Level, "chunk": cfg.ChunkSize, "index": cfg.Index, "ops": opsStrings(ops)}
	r.Eval(bucket, len(res.Written) > 0 || len(ops) > 1, []byte(fmt.Sprint(cfg)), []byte(strings.Join(opsStrings(ops), " ")))
	if res.Panic != "" {
		r.Violate("panic", res.Panic, replay)
		return
	}
	if !res.SetOffsets { // the Writer model has no operation for assigning the statistics fields
		r.CaseLive(m, "xw", xwArgs(cfg, ops), res.Obs())
		// contract K1 (hypothesis of the round-trip theorems) on the chunks the real
		// compressor just produced for the model
		r.FlushK1(m, 30)
	}
	if res.NewErr != "nil" {
		r.Hist["refused"]++
		return
	}
	closedOK := len(res.PerOp) > 0 && ops[len(ops)-1].Kind == 'c' && strings.HasSuffix(res.PerOp[len(res.PerOp)-1], ":nil")
	for i, o := range ops {
		if o.Kind == 'f' && o.Mode == 3 {
			if !strings.HasSuffix(res.PerOp[i], ":Invalid") {
				r.Violate("invalid-flush-accepted", res.PerOp[i], replay)
			}
			closedOK = false // invalid flush does not latch; treat separately
			if strings.HasSuffix(res.PerOp[len(res.PerOp)-1], ":nil") {
				closedOK = true
			}
		}
	}
	if !closedOK {
		r.Violate("close-failed", strings.Join(res.PerOp, ","), replay)
		return
	}
	if res.In != int64(len(res.Written))+res.InAdj || res.Out != int64(len(res.Sink))+res.OutAdj {
		r.Violate("writer-offsets", fmt.Sprintf("in=%d/%d out=%d/%d", res.In, len(res.Written), res.Out, len(res.Sink)), replay)
	}
	if which == "C05" {
		data, end, eo, er, pn := xfReadAll(res.Sink)
		if pn != "" || eo != nil || er != nil || !bytes.Equal(data, res.Written) || end != int64(len(res.Written)) {
			r.Violate("roundtrip", fmt.Sprintf("open=%v read=%v panic=%s len=%d/%d end=%d", eo, er, pn, len(data), len(res.Written), end), replay)
		}
		// split independence: same data, same flush positions, different write splits
		var ops2 []xwOp
		for _, o := range ops {
			if o.Kind == 'w' && len(o.Data) > 1 {
				for _, p := range vhlib.Partition(r.Rng, o.Data) {
					ops2 = append(ops2, xwOp{Kind: 'w', Data: p})
				}
			} else {
				ops2 = append(ops2, o)
			}
		}
		var bb2 bytes.Buffer
		res2 := runXW(cfg, ops2, nil, &bb2)
		if !bytes.Equal(res2.Sink, res.Sink) {
			r.Violate("split-dependent", fmt.Sprintf("%d vs %d bytes", len(res2.Sink), len(res.Sink)), replay)
		}
	} else {
		// C06: plain DEFLATE decoders read it to the last byte
		canary := []byte{0xde, 0xad, 0xbe, 0xef}
		withCanary := append(append([]byte{}, res.Sink...), canary...)
		sOut, sCls, sUsed := stdInflateObs(withCanary)
		if sCls != "nil" || !bytes.Equal(sOut, res.Written) || sUsed != len(res.Sink) {
			r.Violate("not-deflate(stdlib)", fmt.Sprintf("cls=%s out=%d/%d used=%d/%d", sCls, len(sOut), len(res.Written), sUsed, len(res.Sink)), replay)
		}
		zOut, zSt, zUsed := ref.ZInflate(withCanary, len(res.Written)+64)
		if zSt != "end" || !bytes.Equal(zOut, res.Written) || zUsed != len(res.Sink) {
			r.Violate("not-deflate(zlib)", fmt.Sprintf("st=%s out=%d/%d used=%d/%d", zSt, len(zOut), len(res.Written), zUsed, len(res.Sink)), replay)
		}
		br := bytes.NewReader(withCanary)
		zr, _ := flate.NewReader(br, nil)
		fOut, fErr := ioutil.ReadAll(zr)
		if fErr != nil || !bytes.Equal(fOut, res.Written) || br.Len() != len(canary) || zr.InputOffset != int64(len(res.Sink)) {
			r.Violate("not-deflate(flate.Reader)", fmt.Sprintf("err=%v out=%d left=%d", fErr, len(fOut), br.Len()), replay)
		}
		// the final-block bit only at the very end: every proper prefix is incomplete
		for _, cut := range []int{len(res.Sink) - 1, len(res.Sink) - 5, len(res.Sink) / 2} {
			if cut >= 0 && cut < len(res.Sink) {
				if _, cls, _ := stdInflateObs(res.Sink[:cut]); cls != "UEOF" {
					r.Violate("final-bit-early", fmt.Sprintf("cut=%d cls=%s", cut, cls), replay)
				}
			}
		}
	}
	r.Sample(replay)
}

func opsStrings(ops []xwOp) []string {
	var s []string
	for _, o := range ops {
		s = append(s, o.String())
	}
	return s
}

func runC05(r *vhlib.Run, which string) {
	rng := r.Rng
	m := vhlib.StartModel()
	defer m.Close()
	// refused configurations
	for _, cfg := range []xwCfg{{Level: 10}, {Level: -3}, {Level: 6, ChunkSize: -1}, {Level: 100, ChunkSize: 5}, {Level: 6, ChunkSize: -5, Index: -1}} {
		var bb bytes.Buffer
		res := runXW(cfg, []xwOp{{Kind: 'c'}}, nil, &bb)
		r.Eval("refused-config", true, []byte(fmt.Sprint(cfg)))
		r.CaseLive(m, "xw", xwArgs(cfg, []xwOp{{Kind: 'c'}}), res.Obs())
		if res.NewErr == "nil" {
			r.Violate("invalid-config-accepted", fmt.Sprint(cfg), map[string]interface{}{"cfg": fmt.Sprint(cfg)})
		}
	}
	// long runs of blocks that produce no output: an index of several hundred records (many meta blocks in a
	// row) and dozens of flushes with nothing written in between - every DEFLATE decoder must read through them
	{
		var many []xwOp
		many = append(many, xwOp{Kind: 'w', Data: vhlib.RandBytes(rng, 8*600)}, xwOp{Kind: 'c'})
		c05History(r, m, which, xwCfg{Level: 6, ChunkSize: 8, Index: -1}, many, "long-empty-runs")
		var fl []xwOp
		for k := 0; k < 2; k++ {
			fl = append(fl, xwOp{Kind: 'w', Data: vhlib.RandBytes(rng, 20)})
			for j := 0; j < 40; j++ {
				fl = append(fl, xwOp{Kind: 'f', Mode: j % 2})
			}
		}
		fl = append(fl, xwOp{Kind: 'c'})
		c05History(r, m, which, xwCfg{Level: 6, ChunkSize: 64, Index: -1}, fl, "long-empty-runs")
	}
	// exhaustive short histories over the boundary alphabet
	depth := 3
	if !r.Quick() {
		depth = 4
	}
	cfgs := []xwCfg{{Level: 6, ChunkSize: 4, Index: 2}, {Level: -1, ChunkSize: 1, Index: 1}}
	if !r.Quick() {
		cfgs = append(cfgs, xwCfg{Level: -2, ChunkSize: 7, Index: -1}, xwCfg{Level: 0, ChunkSize: 2, Index: 3}, xwCfg{Level: 9, ChunkSize: 0, Index: 0})
	}
	for _, cfg := range cfgs {
		alpha := xwAlphabet(rng, cfg.ChunkSize)
		var rec func(prefix []xwOp, d int)
		rec = func(prefix []xwOp, d int) {
			c05History(r, m, which, cfg, append(append([]xwOp{}, prefix...), xwOp{Kind: 'c'}), "exhaustive")
			if d == 0 {
				return
			}
			for _, a := range alpha {
				rec(append(append([]xwOp{}, prefix...), a), d-1)
			}
		}
		rec(nil, depth)
	}
	// random long histories
	n := 120
	if !r.Quick() {
		n = 3000
	}
	for i := 0; i < n; i++ {
		cfg := randXWConfig(rng)
		maxw := 40
		if cfg.ChunkSize == 0 || cfg.ChunkSize >= 100 {
			maxw = 400
		}
		c05History(r, m, which, cfg, randXWOps(rng, 1+rng.Intn(40), maxw), "random")
	}
	// the exported statistics fields may be assigned at any time ("safe to set these values to
	// any arbitrary value"): nothing but the counters themselves may depend on them
	nso := 150
	if !r.Quick() {
		nso = 3000
	}
	for i := 0; i < nso; i++ {
		cfg := randXWConfig(rng)
		ops := randXWOps(rng, 2+rng.Intn(20), 40)
		ops = ops[:len(ops)-1]
		for k := 1 + rng.Intn(3); k > 0; k-- {
			at := rng.Intn(len(ops) + 1)
			ops = append(ops[:at:at], append([]xwOp{{Kind: 'o', Mode: []int{0, 0, 1, 77777}[rng.Intn(4)]}}, ops[at:]...)...)
		}
		ops = append(ops, xwOp{Kind: 'c'})
		c05History(r, m, which, cfg, ops, "assigned-counters")
	}
	// many chunks in ONE index (IndexSize < 0 or above the default 4096)
	if which == "C05" {
		for _, nc := range []int{4095, 4096, 4097, 4500} {
			if r.Quick() && nc != 4097 {
				continue
			}
			d := vhlib.RandBytes(rng, nc)
			c05History(r, m, which, xwCfg{Level: -1, ChunkSize: 1, Index: []int64{-1, 5000}[nc%2]}, []xwOp{{Kind: 'w', Data: d}, {Kind: 'c'}}, "many-records-one-index")
		}
	}
	// a destination that fails once and then works again: whenever Close nevertheless
	// reports success, what the destination holds must be the complete stream
	nf := 150
	if !r.Quick() {
		nf = 3000
	}
	for i := 0; i < nf; i++ {
		cfg := randXWConfig(rng)
		if cfg.Level < -2 || cfg.Level > 9 || cfg.ChunkSize < 0 {
			continue
		}
		ops := randXWOps(rng, 3+rng.Intn(25), 40)
		var bb bytes.Buffer
		clean := runXW(cfg, ops, nil, &bb)
		if clean.NewErr != "nil" || len(clean.Sink) == 0 {
			continue
		}
		fs := &faultSink{At: rng.Intn(len(clean.Sink)), Kind: rng.Intn(2), Once: true}
		res := runXW(cfg, ops, fs, nil)
		r.Eval("transient-sink-fault", true, []byte(fmt.Sprint(cfg, fs.At, fs.Kind)), []byte(strings.Join(opsStrings(ops), " ")))
		replay := map[string]interface{}{"level": cfg.Level, "chunk": cfg.ChunkSize, "index": cfg.Index, "ops": opsStrings(ops), "sink_fails_once_at": fs.At, "fault_kind": fs.Kind}
		if res.Panic != "" {
			r.Violate("panic", res.Panic, replay)
			continue
		}
		if len(res.PerOp) == 0 || !strings.HasSuffix(res.PerOp[len(res.PerOp)-1], ":nil") {
			r.Hist["transient-fault:close-reports-error"]++
			continue
		}
		r.Hist["transient-fault:close-ok"]++
		got := fs.Buf.Bytes()
		if which == "C05" {
			data, _, eo, er, pn := xfReadAll(got)
			if pn != "" || eo != nil || er != nil || !bytes.Equal(data, res.Written) {
				r.Violate("roundtrip", fmt.Sprintf("Close succeeded after a transient sink fault but the stream does not read back: open=%v read=%v len=%d/%d", eo, er, len(data), len(res.Written)), replay)
			}
		} else {
			sOut, sCls, sUsed := stdInflateObs(got)
			if sCls != "nil" || !bytes.Equal(sOut, res.Written) || sUsed != len(got) {
				r.Violate("not-deflate(stdlib)", fmt.Sprintf("Close succeeded after a transient sink fault: cls=%s out=%d/%d used=%d/%d", sCls, len(sOut), len(res.Written), sUsed, len(got)), replay)
			}
		}
	}
	// stored chunks whose compressed size is 4096k + {0..4}: the chunk reader's
	// last buffered read is then 0..4 bytes long
	for _, raw := range []int{4085, 4086, 4087, 4088, 4089, 4090, 8183, 8184} {
		if r.Quick() && raw%2 == 0 && raw != 4088 {
			continue
		}
		d := vhlib.RandBytes(rng, raw*2+17)
		c05History(r, m, which, xwCfg{Level: -1, ChunkSize: int64(raw), Index: 3}, []xwOp{{Kind: 'w', Data: d}, {Kind: 'c'}}, "stored-4096k")
	}
	// a few large ones (default chunk size crossed)
	if !r.Quick() {
		for i := 0; i < 3; i++ {
			big := vhlib.RandBytes(rng, 300000+rng.Intn(100000))
			c05History(r, m, which, xwCfg{Level: 1}, []xwOp{{Kind: 'w', Data: big}, {Kind: 'c'}}, "large")
		}
	}
}
