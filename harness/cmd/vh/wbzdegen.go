package main

import (
	"fmt"
	"math/rand"
	"strconv"
	"strings"

	"github.com/dsnet/compress/bzip2"
	"github.com/dsnet/compress/xflate/verifharness/vhlib"
)

// WBZDEGEN: bzip2's handleDegenerateCodes (the port of libbzip2's decoding
// tables for over- and under-subscribed code length vectors) and the choice
// made by ReadPrefixCodes between it and GeneratePrefixes, against the model
// coq/Bzip2/Degenerate.v. Observation: the full code list (symbol, length,
// value) in the order the Go code returns it.
//
//	wbzdegen l0 l1 ...   handleDegenerateCodes on the length vector
//	wbzbuild l0 l1 ...   ReadPrefixCodes on the encoded length vector

func init() { props["WBZDEGEN"] = runWBZDEGEN }

func degFmt(cs []bzip2.VerifCode) string {
	if len(cs) == 0 {
		return "ok -"
	}
	o := make([]string, len(cs))
	for i, c := range cs {
		o[i] = fmt.Sprintf("%d:%d:%d", c.Sym, c.Len, c.Val)
	}
	return "ok " + strings.Join(o, ",")
}

func degArgs(lens []uint32) []string {
	a := make([]string, len(lens))
	for i, l := range lens {
		a[i] = strconv.FormatUint(uint64(l), 10)
	}
	if len(a) == 0 {
		a = []string{"-"}
	}
	return a
}

func degRun(lens []uint32) (obs string) {
	defer func() {
		if p := recover(); p != nil {
			obs = "panic"
		}
	}()
	return degFmt(bzip2.VerifHandleDegenerateCodes(lens))
}

// kraft sum in units of 2^-20 (lengths 1..20), saturating
func degKraft(lens []uint32) uint64 {
	var s uint64
	for _, l := range lens {
		if l >= 1 && l <= 20 {
			s += 1 << (20 - l)
		}
	}
	return s
}

// cost of the exploration (nodes) of an under-subscribed vector: about
// 2^(maxLen+1); 0 when it is not worth counting
func degCost(lens []uint32) int {
	var mx uint32
	for _, l := range lens {
		if l > mx {
			mx = l
		}
	}
	if mx >= 14 && mx <= 20 && degKraft(lens) < 1<<20 {
		return 1 << (mx + 1)
	}
	return 0
}

// the code-length section of one tree: 5 bits start value, per symbol "10"
// (+1) / "11" (-1) steps closed by "0"; packed most significant bit first
func degEncode(lens []uint32) []byte {
	var bits []byte
	put := func(v uint32, n int) {
		for i := n - 1; i >= 0; i-- {
			bits = append(bits, byte(v>>uint(i))&1)
		}
	}
	clen := lens[0]
	put(clen, 5)
	for _, l := range lens {
		for clen < l {
			put(2, 2)
			clen++
		}
		for clen > l {
			put(3, 2)
			clen--
		}
		put(0, 1)
	}
	out := make([]byte, (len(bits)+7)/8+8)
	for i, b := range bits {
		out[i/8] |= b << uint(7-i%8)
	}
	return out
}

func degBuild(lens []uint32) (obs string) {
	defer func() {
		if p := recover(); p != nil {
			obs = "panic"
		}
	}()
	cs, nsyms, err := bzip2.VerifReadPrefixCodes(degEncode(lens), len(lens))
	if err != nil {
		return "err " + vhlib.ErrClass(err)
	}
	if int(nsyms) != len(cs) {
		return fmt.Sprintf("decoder-numsyms %d != %d", nsyms, len(cs))
	}
	return degFmt(cs)
}

// a complete length vector of n symbols (n >= 2), maximal length <= 20:
// split leaves at random
func degComplete(rng *rand.Rand, n int) []uint32 {
	lens := []uint32{1, 1}
	for len(lens) < n {
		i := rng.Intn(len(lens))
		if lens[i] >= 20 {
			// find any splittable leaf
			i = -1
			for j, l := range lens {
				if l < 20 {
					i = j
					break
				}
			}
			if i < 0 {
				break
			}
		}
		lens[i]++
		lens = append(lens, lens[i])
	}
	rng.Shuffle(len(lens), func(i, j int) { lens[i], lens[j] = lens[j], lens[i] })
	return lens
}

func runWBZDEGEN(r *vhlib.Run) {
	rng := r.Rng
	// exploring an under-subscribed vector costs about 2^(maxLen+1) steps
	// (5 microseconds each in the extracted model): a budget per family
	perBucket := 1 << 18
	if !r.Quick() {
		perBucket = 1 << 23
	}
	spent := map[string]int{}
	one := func(bucket string, lens []uint32) {
		if c := degCost(lens); c > 0 && bucket != "out-of-domain" {
			if spent[bucket]+c > perBucket {
				return
			}
			spent[bucket] += c
		}
		k := degKraft(lens)
		sub := "complete"
		if k < 1<<20 {
			sub = "under"
		} else if k > 1<<20 {
			sub = "over"
		}
		r.Eval(bucket+"/"+sub, false)
		r.Case("wbzdegen", degArgs(lens), degRun(lens))
		inDomain := len(lens) >= 1 && len(lens) <= 258
		for _, l := range lens {
			if l < 1 || l > 20 {
				inDomain = false
			}
		}
		if inDomain {
			r.Case("wbzbuild", degArgs(lens), degBuild(lens))
		}
	}

	// 1. every vector of 2..4 symbols with lengths 1..5
	for n := 2; n <= 4; n++ {
		lens := make([]uint32, n)
		var rec func(i int)
		rec = func(i int) {
			if i == n {
				one("exhaustive", append([]uint32(nil), lens...))
				return
			}
			for l := uint32(1); l <= 5; l++ {
				lens[i] = l
				rec(i + 1)
			}
		}
		rec(0)
	}

	// 2. all-equal lengths, every size class and every length
	for _, n := range []int{2, 3, 4, 5, 7, 8, 9, 16, 17, 31, 32, 33, 64, 100, 128, 129, 200, 255, 256, 257, 258} {
		for l := uint32(1); l <= 20; l++ {
			lens := make([]uint32, n)
			for i := range lens {
				lens[i] = l
			}
			one("all-equal", lens)
		}
	}

	sizes := func() int {
		switch rng.Intn(6) {
		case 0:
			return 2 + rng.Intn(4)
		case 1:
			return 2 + rng.Intn(30)
		case 2:
			return 250 + rng.Intn(9)
		case 3:
			return 258
		default:
			return 2 + rng.Intn(257)
		}
	}

	rounds := 300
	if !r.Quick() {
		rounds = 3000
	}
	for it := 0; it < rounds; it++ {
		// 3. random vectors, lengths uniform in a random window
		{
			n := sizes()
			lo := 1 + rng.Intn(20)
			hi := lo + rng.Intn(21-lo)
			lens := make([]uint32, n)
			for i := range lens {
				lens[i] = uint32(lo + rng.Intn(hi-lo+1))
			}
			one("random-window", lens)
		}
		// 4. one step away from complete: one length changed
		{
			n := sizes()
			lens := degComplete(rng, n)
			i := rng.Intn(len(lens))
			switch rng.Intn(4) {
			case 0:
				if lens[i] < 20 {
					lens[i]++
				}
			case 1:
				if lens[i] > 1 {
					lens[i]--
				}
			case 2:
				lens[i] = uint32(1 + rng.Intn(20))
			case 3: // two changed
				j := rng.Intn(len(lens))
				lens[j] = uint32(1 + rng.Intn(20))
				if lens[i] < 20 {
					lens[i]++
				}
			}
			one("near-complete", lens)
			// and the complete vector itself (GeneratePrefixes branch of wbzbuild)
			if it%4 == 0 {
				one("complete", degComplete(rng, n))
			}
		}
		// 5. a single long code among short ones / a single short among long
		{
			n := sizes()
			short := uint32(1 + rng.Intn(10))
			long := short + uint32(rng.Intn(int(21-short)))
			lens := make([]uint32, n)
			a, b := short, long
			if rng.Intn(3) == 0 {
				a, b = long, short
			}
			for i := range lens {
				lens[i] = a
			}
			lens[rng.Intn(n)] = b
			one("single-odd", lens)
		}
		// 6. maximal lengths: mostly 20 with a few others
		if it%3 == 0 {
			n := sizes()
			lens := make([]uint32, n)
			for i := range lens {
				lens[i] = 20
				if rng.Intn(8) == 0 {
					lens[i] = uint32(1 + rng.Intn(20))
				}
			}
			one("maximal", lens)
		}
		// 7. sparse short codes: under-subscribed with moderate depth
		{
			n := 2 + rng.Intn(12)
			mx := 2 + rng.Intn(11)
			lens := make([]uint32, n)
			for i := range lens {
				lens[i] = uint32(mx - rng.Intn(3))
				if lens[i] < 1 {
					lens[i] = 1
				}
			}
			one("sparse", lens)
		}
	}

	// 8. outside the domain of the caller: lengths 0 and above 20, empty and
	// over-long vectors (explicit panic outcomes of the model)
	for it := 0; it < 40; it++ {
		n := 1 + rng.Intn(8)
		lens := make([]uint32, n)
		for i := range lens {
			lens[i] = uint32(1 + rng.Intn(8))
		}
		switch it % 4 {
		case 0:
			lens[rng.Intn(n)] = 0
		case 1:
			lens[rng.Intn(n)] = uint32(21 + rng.Intn(12))
		case 2:
			lens[rng.Intn(n)] = uint32(21 + rng.Intn(100000))
		case 3:
			lens[rng.Intn(n)] = 0
			lens[rng.Intn(n)] = uint32(19 + rng.Intn(4))
		}
		one("out-of-domain", lens)
	}
	one("out-of-domain", []uint32{7})
	one("out-of-domain", []uint32{1})
	for _, n := range []int{259, 260, 300} {
		lens := make([]uint32, n)
		for i := range lens {
			lens[i] = uint32(8 + rng.Intn(3))
		}
		one("out-of-domain", lens)
	}
}
