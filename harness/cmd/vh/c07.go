package main

import (
	"bytes"
	"fmt"
	"io"
	"math"
	"math/rand"
	"strings"
	"time"

	"github.com/dsnet/compress/xflate"
	"github.com/dsnet/compress/xflate/verifharness/vhlib"
)

func init() { props["C07"] = runC07 }

type xrOp struct {
	Kind   byte // 's', 'r', 'c'
	Off    int64
	Whence int
	N      int
}

func (o xrOp) String() string {
	switch o.Kind {
	case 's':
		return fmt.Sprintf("s:%d:%d", o.Off, o.Whence)
	case 'r':
		return fmt.Sprintf("r:%d", o.N)
	}
	return "c"
}

var emptyReadHung bool

// readWithTimeout guards against a Read that never returns.
func readWithTimeout(rd io.Reader, buf []byte) (n int, err error, hung bool) {
	type res struct {
		n   int
		err error
	}
	ch := make(chan res, 1)
	go func() {
		n, err := rd.Read(buf)
		ch <- res{n, err}
	}()
	select {
	case x := <-ch:
		return x.n, x.err, false
	case <-time.After(10 * time.Second):
		return 0, nil, true
	}
}

// runXR drives a real xflate.Reader next to a bytes.Reader over the original
// and applies the per-call ReadSeeker oracle.
func runXR(r *vhlib.Run, sink, plain []byte, ops []xrOp, oracle bool) (obs string, log string) {
	replay := map[string]interface{}{"stream": vhlib.Hex(sink), "ops": xrOpsStrings(ops)}
	defer func() {
		if p := recover(); p != nil {
			obs = "panic"
			if oracle {
				r.Violate("panic", fmt.Sprint(p), replay)
			}
		}
	}()
	cs := &countingSeeker{R: bytes.NewReader(sink)}
	xr, err := xflate.NewReader(cs, nil)
	if err != nil {
		return "open:" + vhlib.ErrClass(err), ""
	}
	refr := bytes.NewReader(plain)
	var parts []string
	closed := false
	for _, o := range ops {
		switch o.Kind {
		case 's':
			p, err := xr.Seek(o.Off, o.Whence)
			before, _ := refr.Seek(0, io.SeekCurrent)
			rp, rerr := refr.Seek(o.Off, o.Whence)
			if err != nil {
				parts = append(parts, "s:0:"+vhlib.ErrClass(err))
			} else {
				parts = append(parts, fmt.Sprintf("s:%d:nil", p))
			}
			if oracle && !closed {
				if (err != nil) != (rerr != nil) {
					r.Violate("seek-acceptance", fmt.Sprintf("op=%s impl=%v ref=%v", o, err, rerr), replay)
				} else if err == nil && p != rp {
					r.Violate("seek-position", fmt.Sprintf("op=%s impl=%d ref=%d", o, p, rp), replay)
				}
				if rerr != nil {
					refr.Seek(before, io.SeekStart)
					// position must be unchanged: checked by the next read
				}
			}
		case 'r':
			// canonical ReadN: loop until N bytes or error
			var got []byte
			var rerr error
			calls := 0
			for {
				buf := make([]byte, o.N-len(got))
				if len(buf) == 0 && emptyReadHung {
					break
				}
				n, err, hung := readWithTimeout(xr, buf)
				calls++
				if hung {
					if len(buf) == 0 {
						emptyReadHung = true
					}
					if oracle {
						r.Violate("read-hangs", fmt.Sprintf("Read(len %d) did not return within 10s", len(buf)), replay)
					}
					return "hang", ""
				}
				got = append(got, buf[:n]...)
				if oracle && !closed {
					// per-call oracle against the original bytes
					pos, _ := refr.Seek(0, io.SeekCurrent)
					want := make([]byte, n)
					m, _ := io.ReadFull(refr, want)
					if m != n || !bytes.Equal(want[:m], buf[:n]) {
						r.Violate("read-data", fmt.Sprintf("op=%s at pos %d: got %d bytes, differ from original", o, pos, n), replay)
						return "diverged", ""
					}
					atEnd := pos+int64(n) >= int64(len(plain))
					if len(buf) > 0 && n == 0 && err == nil {
						r.Violate("read-no-progress", fmt.Sprintf("op=%s (0,nil) for non-empty buffer", o), replay)
					}
					if err == io.EOF && !(atEnd) {
						r.Violate("read-early-eof", fmt.Sprintf("op=%s pos=%d", o, pos), replay)
					}
					if err != nil && err != io.EOF {
						r.Violate("read-error", fmt.Sprintf("op=%s err=%v", o, err), replay)
					}
					if len(buf) > 0 && n == 0 && err == io.EOF && pos < int64(len(plain)) {
						r.Violate("read-early-eof", fmt.Sprintf("op=%s pos=%d", o, pos), replay)
					}
				}
				if err != nil {
					rerr = err
					break
				}
				if len(got) >= o.N || calls > o.N+10 {
					break
				}
			}
			cls := "nil"
			if (len(got) < o.N || o.N == 0) && rerr != nil {
				cls = vhlib.ErrClass(rerr)
			}
			parts = append(parts, fmt.Sprintf("r:%s:%s", vhlib.Hex(got), cls))
		case 'c':
			err := xr.Close()
			parts = append(parts, "c:"+vhlib.ErrClass(err))
			closed = true
		}
	}
	return "open:nil|" + strings.Join(parts, ","), cs.Log()
}

func xrOpsStrings(ops []xrOp) []string {
	var s []string
	for _, o := range ops {
		s = append(s, o.String())
	}
	return s
}

// countingSeeker records every byte range read from the underlying stream.
type countingSeeker struct {
	R      *bytes.Reader
	Ranges [][2]int64
	Seeks  int
	Bytes  int64
}

func (c *countingSeeker) Read(p []byte) (int, error) {
	pos, _ := c.R.Seek(0, io.SeekCurrent)
	n, err := c.R.Read(p)
	if n > 0 {
		c.Ranges = append(c.Ranges, [2]int64{pos, int64(n)})
		c.Bytes += int64(n)
	}
	return n, err
}
func (c *countingSeeker) Seek(off int64, wh int) (int64, error) {
	c.Seeks++
	return c.R.Seek(off, wh)
}
func (c *countingSeeker) Log() string {
	var s []string
	for _, r := range c.Ranges {
		s = append(s, fmt.Sprintf("%d+%d", r[0], r[1]))
	}
	return strings.Join(s, ";")
}

// c07Streams: streams with empty chunks, several indexes, various configs.
type xfStream struct {
	Sink, Plain []byte
	Edges       []int64 // raw offsets of chunk boundaries
	Name        string
}

func c07Streams(rng *rand.Rand, quick bool) []xfStream {
	var out []xfStream
	add := func(name string, cfg xwCfg, ops []xwOp) {
		sink, plain, ok := makeXFStream(cfg, ops)
		if !ok {
			return
		}
		// edges: replay the schedule
		var edges []int64
		pos := int64(0)
		inChunk := int64(0)
		chunk := cfg.ChunkSize
		if chunk == 0 {
			chunk = 1 << 18
		}
		for _, o := range ops {
			switch o.Kind {
			case 'w':
				n := int64(len(o.Data))
				for n > 0 {
					if inChunk >= chunk {
						edges = append(edges, pos)
						inChunk = 0
					}
					t := chunk - inChunk
					if t > n {
						t = n
					}
					pos += t
					inChunk += t
					n -= t
				}
			case 'f':
				if o.Mode >= 1 {
					edges = append(edges, pos)
					inChunk = 0
				}
			}
		}
		edges = append(edges, pos)
		out = append(out, xfStream{sink, plain, edges, name})
	}
	w := func(n int) xwOp { return xwOp{Kind: 'w', Data: vhlib.RandBytes(rng, n)} }
	f := func(m int) xwOp { return xwOp{Kind: 'f', Mode: m} }
	c := xwOp{Kind: 'c'}
	add("5chunks-empty-2idx", xwCfg{Level: 6, ChunkSize: 8, Index: -1},
		[]xwOp{w(8), f(1), f(1), w(5), f(2), w(8), w(3), f(0), w(2), c})
	add("chain-idx1", xwCfg{Level: -1, ChunkSize: 3, Index: 1}, []xwOp{w(10), c})
	add("empty", xwCfg{Level: 6}, []xwOp{c})
	add("single", xwCfg{Level: 9, ChunkSize: 100, Index: 3}, []xwOp{w(37), c})
	if !quick {
		add("big-default", xwCfg{Level: 1}, []xwOp{w(300000), f(1), w(1000), c})
		add("many-small", xwCfg{Level: -2, ChunkSize: 2, Index: 2}, []xwOp{w(41), c})
	}
	for i := 0; i < 3; i++ {
		add(fmt.Sprintf("random%d", i), randXWConfig(rng), randXWOps(rng, 3+rng.Intn(12), 30))
	}
	return out
}

func xrAlphabet(st xfStream) []xrOp {
	seen := map[string]bool{}
	var out []xrOp
	add := func(o xrOp) {
		if !seen[o.String()] {
			seen[o.String()] = true
			out = append(out, o)
		}
	}
	end := int64(len(st.Plain))
	var offs []int64
	for _, e := range st.Edges {
		offs = append(offs, e-1, e, e+1)
	}
	offs = append(offs, 0, end+5, 1<<40)
	// keep the alphabet small: at most 8 distinct seek-start offsets
	step := 1
	if len(offs) > 8 {
		step = len(offs) / 8
	}
	for i := 0; i < len(offs); i += step {
		add(xrOp{Kind: 's', Off: offs[i], Whence: io.SeekStart})
	}
	add(xrOp{Kind: 's', Off: -1, Whence: io.SeekStart})
	add(xrOp{Kind: 's', Off: 0, Whence: io.SeekCurrent}) // "tell"
	add(xrOp{Kind: 's', Off: 2, Whence: io.SeekCurrent})
	add(xrOp{Kind: 's', Off: -3, Whence: io.SeekCurrent})
	add(xrOp{Kind: 's', Off: -2, Whence: io.SeekEnd})
	add(xrOp{Kind: 's', Off: 0, Whence: io.SeekEnd})
	add(xrOp{Kind: 's', Off: 0, Whence: 3})
	cs := 8
	if len(st.Edges) > 1 && st.Edges[0] > 0 {
		cs = int(st.Edges[0])
	}
	for _, n := range []int{0, 1, cs - 1, cs + 1, len(st.Plain) + 3} {
		if n >= 0 {
			add(xrOp{Kind: 'r', N: n})
		}
	}
	return out
}

func c07Case(r *vhlib.Run, m *vhlib.Model, st xfStream, ops []xrOp, bucket string) {
	obs, _ := runXR(r, st.Sink, st.Plain, ops, true)
	r.Eval(bucket, len(ops) > 0, st.Sink, []byte(strings.Join(xrOpsStrings(ops), " ")))
	if obs == "hang" || obs == "diverged" || obs == "panic" {
		return
	}
	args := append([]string{vhlib.Hex(st.Sink)}, xrOpsStrings(ops)...)
	mobs := r.CaseLive(m, "xr", args, obs+"|")
	_ = mobs
	if bucket == "random" {
		// the ReadSeeker specification itself (Refine.v sp_run), run on the plaintext
		ph := vhlib.Hex(st.Plain)
		if ph == "" {
			ph = "-"
		}
		r.CaseLive(m, "xspec", append([]string{ph}, xrOpsStrings(ops)...), obs+"|")
	}
}

// c07Honest: the hypothesis of the refinement theorem (Props/C07.v
// xr_refines_readseeker_decidable), evaluated by the extracted model on a stream
// the real Writer produced: sorted table, every chunk decodes to its slice.
func c07Honest(r *vhlib.Run, m *vhlib.Model, st xfStream) {
	ph := vhlib.Hex(st.Plain)
	if ph == "" {
		ph = "-"
	}
	r.Eval("honest:"+st.Name, true, st.Sink)
	r.CaseLive(m, "xhonest", []string{vhlib.Hex(st.Sink), ph}, "honest")
}

func runC07(r *vhlib.Run) {
	rng := r.Rng
	m := vhlib.StartModel()
	defer m.Close()
	streams := c07Streams(rng, r.Quick())
	// regression corpus: the D1 / D2 histories
	{
		cfg := xwCfg{Level: 6, ChunkSize: 400}
		sink, plain, _ := makeXFStream(cfg, []xwOp{{Kind: 'w', Data: vhlib.RandBytes(rng, 1000)}, {Kind: 'c'}})
		st := xfStream{Sink: sink, Plain: plain, Name: "d1"}
		c07Case(r, m, st, []xrOp{{Kind: 's', Off: 10}, {Kind: 's', Off: 20}, {Kind: 'r', N: 5}}, "corpus")
		c07Case(r, m, st, []xrOp{{Kind: 'r', N: 0}, {Kind: 'r', N: 3}}, "corpus")
		// offsets at the edge of int64: a Seek either fails or reports a position that is not negative,
		// and what is read afterwards is what a ReadSeeker over the data reads there (nothing, beyond the end)
		for _, h := range [][][2]int64{
			{{math.MaxInt64, 2}}, {{math.MaxInt64, 0}, {1, 1}}, {{5, 0}, {math.MaxInt64, 1}}, {{math.MaxInt64 - 3, 0}, {math.MaxInt64, 1}},
			{{math.MinInt64, 2}}, {{math.MinInt64, 1}}, {{1, 2}, {math.MaxInt64, 1}},
		} {
			xr, err := xflate.NewReader(bytes.NewReader(sink), nil)
			if err != nil {
				break
			}
			r.Eval("seek-int64-edge", true, []byte(fmt.Sprint(h)))
			for _, so := range h {
				p, err := xr.Seek(so[0], int(so[1]))
				if err == nil && p < 0 {
					r.Violate("seek-position", fmt.Sprintf("Seek(%d, %d) = (%d, nil): a negative position without an error", so[0], so[1], p), map[string]interface{}{"stream": vhlib.Hex(sink), "seeks": fmt.Sprint(h)})
				}
			}
			if p, err := xr.Seek(0, io.SeekCurrent); err == nil && p > int64(len(plain)) {
				buf := make([]byte, 8)
				if n, _ := xr.Read(buf); n > 0 {
					r.Violate("read-error", fmt.Sprintf("position %d beyond the end (%d): Read delivered %d bytes", p, len(plain), n), map[string]interface{}{"stream": vhlib.Hex(sink), "seeks": fmt.Sprint(h)})
				}
			}
		}
	}
	depth := 3
	if !r.Quick() {
		depth = 4
	}
	for _, st := range streams {
		c07Honest(r, m, st)
	}
	nh := 40
	if !r.Quick() {
		nh = 600
	}
	for i := 0; i < nh; i++ {
		sink, plain, ok := makeXFStream(randXWConfig(rng), randXWOps(rng, 1+rng.Intn(25), 60))
		if ok {
			c07Honest(r, m, xfStream{Sink: sink, Plain: plain, Name: "random-writer-history"})
		}
	}
	for si, st := range streams {
		alpha := xrAlphabet(st)
		d := depth
		if si > 0 && r.Quick() {
			d = 2
		}
		if !r.Quick() {
			// every case re-opens the stream in the model: the deepest enumeration only on
			// the boundary-rich first stream, shallower ones on larger streams
			switch {
			case len(st.Sink) > 4000:
				d = 1
			case len(st.Sink) > 400:
				d = 2
			case si > 0:
				d = 3
			}
		}
		var rec func(prefix []xrOp, k int)
		rec = func(prefix []xrOp, k int) {
			if len(prefix) > 0 {
				c07Case(r, m, st, prefix, "exhaustive:"+st.Name)
			}
			if k == 0 {
				return
			}
			for _, a := range alpha {
				rec(append(append([]xrOp{}, prefix...), a), k-1)
			}
		}
		rec(nil, d)
		r.Notes["alphabet:"+st.Name] = len(alpha)
	}
	// random long sequences
	n := 150
	if !r.Quick() {
		n = 3000
	}
	for i := 0; i < n; i++ {
		st := streams[rng.Intn(len(streams))]
		alpha := xrAlphabet(st)
		var ops []xrOp
		for k := 0; k < 5+rng.Intn(60); k++ {
			if rng.Intn(3) == 0 {
				ops = append(ops, xrOp{Kind: 's', Off: int64(rng.Intn(len(st.Plain)+4)) - 1, Whence: rng.Intn(3)})
			} else if rng.Intn(2) == 0 {
				ops = append(ops, xrOp{Kind: 'r', N: rng.Intn(20)})
			} else {
				ops = append(ops, alpha[rng.Intn(len(alpha))])
			}
		}
		c07Case(r, m, st, ops, "random")
	}
	r.Sample(map[string]interface{}{"stream": streams[0].Name, "edges": streams[0].Edges, "ops": []string{"s:7:0", "r:9", "s:-2:2", "r:0"}})
}
