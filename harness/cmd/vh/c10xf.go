package main

import (
	"bytes"
	"fmt"
	"io"
	"math/rand"
	"strings"

	"github.com/dsnet/compress/xflate"
	"github.com/dsnet/compress/xflate/verifharness/gen"
	"github.com/dsnet/compress/xflate/verifharness/vhlib"
)

// fragSeeker is an io.ReadSeeker that fragments its data.
type fragSeeker struct {
	B       []byte
	Pos     int64
	Cap     int        // > 0: at most Cap bytes per call
	Rng     *rand.Rand // != nil: random fragment sizes 1..40
	WithEOF bool       // the last data bytes arrive together with io.EOF
}

func (s *fragSeeker) Read(p []byte) (int, error) {
	if s.Pos >= int64(len(s.B)) {
		return 0, io.EOF
	}
	if s.Cap > 0 && len(p) > s.Cap {
		p = p[:s.Cap]
	}
	if s.Rng != nil && len(p) > 1 {
		p = p[:1+s.Rng.Intn(min(len(p), 40))]
	}
	n := copy(p, s.B[s.Pos:])
	s.Pos += int64(n)
	if s.WithEOF && s.Pos >= int64(len(s.B)) {
		return n, io.EOF
	}
	return n, nil
}

func (s *fragSeeker) Seek(off int64, wh int) (int64, error) {
	var p int64
	switch wh {
	case io.SeekStart:
		p = off
	case io.SeekCurrent:
		p = s.Pos + off
	case io.SeekEnd:
		p = int64(len(s.B)) + off
	default:
		return 0, fmt.Errorf("bad whence")
	}
	if p < 0 {
		return 0, fmt.Errorf("negative position")
	}
	s.Pos = p
	return p, nil
}

type xfSrc struct {
	Name string
	Make func(d []byte, rng *rand.Rand) io.ReadSeeker
}

func xfSrcKinds() []xfSrc {
	return []xfSrc{
		{"bytes.Reader", func(d []byte, _ *rand.Rand) io.ReadSeeker { return bytes.NewReader(d) }},
		{"strings.Reader", func(d []byte, _ *rand.Rand) io.ReadSeeker { return strings.NewReader(string(d)) }},
		{"OneBytePerRead", func(d []byte, _ *rand.Rand) io.ReadSeeker { return &fragSeeker{B: d, Cap: 1} }},
		{"ThreeBytesPerRead", func(d []byte, _ *rand.Rand) io.ReadSeeker { return &fragSeeker{B: d, Cap: 3} }},
		{"RandomFragments", func(d []byte, rng *rand.Rand) io.ReadSeeker {
			return &fragSeeker{B: d, Rng: rand.New(rand.NewSource(rng.Int63()))}
		}},
		{"DataWithEOF", func(d []byte, _ *rand.Rand) io.ReadSeeker { return &fragSeeker{B: d, WithEOF: true} }},
	}
}

// observeXF reads an XFLATE stream sequentially with the given source and schedule.
func observeXF(data []byte, mk xfSrc, sched []int, rng *rand.Rand) (o obs) {
	defer func() {
		if p := recover(); p != nil {
			o.Panic = fmt.Sprint(p)
			o.Cls = "Panic"
		}
	}()
	xr, err := xflate.NewReader(mk.Make(data, rng), nil)
	if err != nil {
		o.Cls = "open:" + vhlib.ErrClass(err)
		return
	}
	i, idle := 0, 0
	for {
		n := sched[i]
		if i+1 < len(sched) {
			i++
		}
		buf := make([]byte, n)
		cnt, err := xr.Read(buf)
		if cnt < 0 || cnt > n {
			o.Bad = fmt.Sprintf("Read returned %d for len %d", cnt, n)
			cnt = 0
		}
		o.Out = append(o.Out, buf[:cnt]...)
		if err != nil {
			o.Cls = vhlib.ErrClass(err)
			if err == io.EOF {
				o.Cls = "nil"
			}
			return
		}
		if n == 0 && cnt == 0 {
			continue
		}
		if cnt == 0 {
			if idle++; idle > 2000 {
				o.Cls, o.Bad = "stuck", "no progress in 2000 calls"
				return
			}
		} else {
			idle = 0
		}
		if len(o.Out) > 1<<26 {
			o.Cls = "outlimit"
			return
		}
	}
}

// c10XFlate: the xflate.Reader part of C10 (its source must be an io.ReadSeeker).
func c10XFlate(r *vhlib.Run) {
	rng := r.Rng
	n := 24
	if !r.Quick() {
		n = 300
	}
	kinds := xfSrcKinds()
	for i := 0; i < n; i++ {
		cfg := randXWConfig(rng)
		var ops []xwOp
		switch i % 4 {
		case 0: // stored chunks whose compressed size is 1..4 past a multiple of the 4 KiB buffer
			cfg = xwCfg{Level: 0, ChunkSize: 1 << 20, Index: []int64{-1, 2}[rng.Intn(2)]}
			for k := 0; k < 3; k++ {
				ops = append(ops, xwOp{Kind: 'w', Data: vhlib.RandBytes(rng, 4096*(1+rng.Intn(2))-9+rng.Intn(8))}, xwOp{Kind: 'f', Mode: 1})
			}
			ops = append(ops, xwOp{Kind: 'c'})
		case 1:
			cfg.ChunkSize = []int64{16, 100, 1000}[rng.Intn(3)]
			ops = randXWOps(rng, 6+rng.Intn(10), 700)
		default:
			ops = randXWOps(rng, 4+rng.Intn(14), 60)
		}
		sink, plain, ok := makeXFStream(cfg, ops)
		if !ok {
			continue
		}
		kind := "valid"
		if i%5 == 4 {
			sink, kind = gen.Mutate(rng, sink), "mutated"
		}
		base := observeXF(sink, kinds[0], []int{4096}, rng)
		r.Eval("xflate:"+kind+":"+base.Cls, true, sink)
		rp0 := map[string]interface{}{"codec": "xflate", "input": vhlib.Hex(sink)}
		if base.Panic != "" {
			r.Violate("panic", base.Panic, rp0)
			continue
		}
		if kind == "valid" && (base.Cls != "nil" || !bytes.Equal(base.Out, plain)) {
			r.Violate("valid-stream-depends-on-driver", fmt.Sprintf("xflate bytes.Reader: class=%s out=%d/%d", base.Cls, len(base.Out), len(plain)), rp0)
			continue
		}
		for k, sk := range kinds {
			for sc := 0; sc < 6; sc++ {
				if r.Quick() && (k+sc+i)%2 != 0 {
					continue
				}
				sched := schedule(rng, sc)
				o := observeXF(sink, sk, sched, rng)
				rp := map[string]interface{}{"codec": "xflate", "input": vhlib.Hex(sink), "source": sk.Name, "schedule": sched}
				r.Evals++
				r.Hist["xflate-src:"+sk.Name]++
				if o.Panic != "" {
					r.Violate("panic", o.Panic, rp)
					continue
				}
				if o.Bad != "" {
					r.Violate("contract", "xflate: "+o.Bad, rp)
				}
				if base.Cls == "nil" {
					if o.Cls != "nil" || !bytes.Equal(o.Out, base.Out) {
						r.Violate("valid-stream-depends-on-driver", fmt.Sprintf("xflate src=%s: class=%s out=%d/%d", sk.Name, o.Cls, len(o.Out), len(base.Out)), rp)
					}
				} else {
					if !isPrefix(o.Out, base.Out) && !isPrefix(base.Out, o.Out) {
						r.Violate("delivered-bytes-inconsistent", "xflate src="+sk.Name, rp)
					}
					if o.Cls != base.Cls {
						r.Violate("error-class-depends-on-driver", fmt.Sprintf("xflate src=%s sched=%v: %s vs %s", sk.Name, sched[0], o.Cls, base.Cls), rp)
					}
				}
			}
		}
	}
}
