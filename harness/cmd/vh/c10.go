package main

import (
	"bytes"
	"fmt"
	"github.com/dsnet/compress/xflate/verifharness/ref"
	"math/rand"

	"github.com/dsnet/compress/xflate/verifharness/brcraft"
	"github.com/dsnet/compress/xflate/verifharness/gen"
	"github.com/dsnet/compress/xflate/verifharness/vhlib"
)

func init() {
	props["C10"] = runC10
	props["C11"] = runC11
}

func runC10(r *vhlib.Run) {
	rng := r.Rng
	// meta.Reader itself against its implementation-level model, per call (Meta/ReaderImpl.v)
	runWMETAR(r)
	n, maxPlain := 30, 6000
	if !r.Quick() {
		n, maxPlain = 400, 80000
	}
	kinds := srcKinds()
	for _, c := range codecs() {
		extra := 0
		if c.Name == "flate" {
			// corpus: dynamic blocks with a long end-of-block code that stop short of it (D10); streams
			// that END in a large stored block (the last Read of the source fills the window directly)
			extra = 12
		}
		if c.Name == "bzip2" {
			extra = 8 // corpus: a dead prefix of an under-subscribed tree right before the end of the input (D11)
		}
		for i := 0; i < n+extra; i++ {
			s := c.Valid(rng, maxPlain)
			if i%3 == 2 {
				s = gen.Stream{Data: gen.Mutate(rng, s.Data), Kind: "mutated"}
			}
			if i >= n && c.Name == "flate" {
				s = gen.Stream{Data: longEOBWitness(rng, (i-n)%3, 9+rng.Intn(7)), Kind: "long-eob-stops-short"}
			}
			if i >= n+6 && c.Name == "flate" {
				s = storedTail(rng, i-n-6)
			}
			if i >= n && c.Name == "bzip2" {
				long := 5 + rng.Intn(16)
				s = gen.Stream{Data: gen.BzOverRequestDead(long, 3+rng.Intn(long-3), (i-n)%4).Data, Kind: "dead-prefix-before-end"}
			}
			base := observe(c, s.Data, kinds[0], []int{4096}, rng)
			replay := map[string]interface{}{"codec": c.Name, "input": vhlib.Hex(s.Data)}
			r.Eval(c.Name+":"+base.Cls, true, s.Data)
			if base.Panic != "" {
				r.Violate("panic", base.Panic, replay)
				continue
			}
			if c.Name == "flate" {
				r.Case("inflate", []string{vhlib.Hex(s.Data)}, decObs{cls: base.Cls, out: base.Out, inOff: base.In}.String())
			}
			for k, sk := range kinds {
				for sc := 0; sc < 7; sc++ {
					if r.Quick() && (k+sc+i)%3 != 0 {
						continue
					}
					sched := schedule(rng, sc)
					o := observe(c, s.Data, sk, sched, rng)
					rp := map[string]interface{}{"codec": c.Name, "input": vhlib.Hex(s.Data), "source": sk.Name, "schedule": sched}
					r.Evals++
					if o.Panic != "" {
						r.Violate("panic", o.Panic, rp)
						continue
					}
					if o.Bad != "" {
						r.Violate("contract", c.Name+": "+o.Bad, rp)
					}
					if base.Cls == "nil" {
						if o.Cls != "nil" || !bytes.Equal(o.Out, base.Out) {
							r.Violate("valid-stream-depends-on-driver", fmt.Sprintf("%s src=%s: class=%s out=%d/%d", c.Name, sk.Name, o.Cls, len(o.Out), len(base.Out)), rp)
						}
					} else {
						if !isPrefix(o.Out, base.Out) && !isPrefix(base.Out, o.Out) {
							r.Violate("delivered-bytes-inconsistent", fmt.Sprintf("%s src=%s", c.Name, sk.Name), rp)
						}
						if o.Cls != base.Cls && c.Name == "flate" && sk.Name == "ByteReader" && o.Cls == "UEOF" && base.Cls == "Corrupted" &&
							o.In == int64(len(s.Data)) && base.In >= int64(len(s.Data))-2 &&
							observe(c, append(append([]byte{}, s.Data...), 0, 0), sk, sched, rng).Cls == "Corrupted" {
							// known finding D10: with a ReadByte-only source the decoder asks for as many
							// bits as the end-of-block code is long before decoding ANY literal/length
							// symbol; an invalid stream whose violation lies in its last two bytes then
							// runs out of input first
							r.Violate("bytereader-eof-before-corruption-at-end", fmt.Sprintf("flate src=ByteReader: %s where every buffered source reports %s (violation within the last %d bytes of a %d-byte input)", o.Cls, base.Cls, int64(len(s.Data))-base.In, len(s.Data)), rp)
						} else if o.Cls != base.Cls && c.Name == "bzip2" && o.Cls == "UEOF" && base.Cls == "Corrupted" &&
							base.In >= int64(len(s.Data))-3 &&
							observe(c, append(append([]byte{}, s.Data...), 0, 0, 0), sk, sched, rng).Cls == "Corrupted" {
							// (with three more bytes to hand out the same source reports Corrupted: the
							// request only overshoots the end of the input)
							// known finding D11: the table walk of ReadSymbol starts from the bits the bit
							// buffer happens to hold, zero-extended; in the non-canonical tables built for
							// under-subscribed trees that can select a LONGER code than the one the stream
							// continues with, and the bit reader asks for that many bits; a dead prefix
							// within the last three bytes of the input then runs out of input first when the
							// source hands out its data in small pieces
							// (sources that hand out small pieces - one byte per Read under the Reader's own bufio, a
							// Peek-capable source with little buffered - behave like the ReadByte-only one when the dead
							// prefix is longer than what they have loaded; their InputOffset may lag behind the input)
							r.Violate("bzip2-eof-before-dead-prefix-at-end", fmt.Sprintf("bzip2 src=%s: %s where bytes.Reader reports %s (violation within the last %d bytes of a %d-byte input)", sk.Name, o.Cls, base.Cls, int64(len(s.Data))-base.In, len(s.Data)), rp)
						} else if o.Cls != base.Cls {
							r.Violate("error-class-depends-on-driver", fmt.Sprintf("%s src=%s sched=%v: %s vs %s", c.Name, sk.Name, sched[0], o.Cls, base.Cls), rp)
						}
					}
				}
			}
		}
	}
	c10XFlate(r)
	r.Sample(map[string]interface{}{"sources": []string{"bytes.Reader", "bytes.Buffer", "strings.Reader", "bufio16", "bufio4096", "bufio-over-1byte", "ByteReader", "fragBuffered", "ReadOnly", "OneBytePerRead", "DataWithEOF"}, "schedules": "1 | 4096 | 1MiB | 7 | random with 30% zero-length"})
}

// ---- C11 ---------------------------------------------------------------------

func runC11(r *vhlib.Run) {
	rng := r.Rng
	// meta.Reader itself against its implementation-level model, per call (Meta/ReaderImpl.v)
	runWMETAR(r)
	n, maxPlain := 40, 4000
	if !r.Quick() {
		n, maxPlain = 500, 70000
	}
	kinds := srcKinds()
	for _, c := range codecs() {
		for i := 0; i < n; i++ {
			s := c.Valid(rng, maxPlain)
			if c.Name == "brotli" && i%3 == 2 {
				// crafted streams: one-symbol codes, simple codes of every shape, several meta-blocks
				d := brcraft.Stream(rng, 0, ref.LibBrotliDict())
				if out, st, used := ref.BrDecompress(d, 1<<24); st == "end" && used == len(d) {
					s = gen.Stream{Data: d, Plain: out, Valid: true, Kind: "crafted"}
				}
			}
			if c.Name != "meta" && i%4 <= 1 {
				// text-like data (every block carries code tables of its own), followed - through the same
				// Reader - by one byte value repeated: one-symbol codes (zero bits per symbol) up to the
				// last bit of the stream
				p := gen.Text(rng, 200+rng.Intn(maxPlain))
				if i%4 == 1 {
					p = bytes.Repeat([]byte{byte(rng.Intn(256))}, 1+rng.Intn(5000))
				}
				var d []byte
				switch c.Name {
				case "brotli":
					d = gen.BrotliEnc(rng, p)
				case "flate":
					d = gen.StdDeflate(rng, p, 6)
				case "bzip2":
					d = ref.BZCompress(p, 1+rng.Intn(9))
				}
				if d != nil {
					s = gen.Stream{Data: d, Plain: p, Valid: true, Kind: "text-then-one-value"}
				}
			}
			// every other stream is read by a Reader that has already read the one before (Reset)
			observeReuse = i%2 == 1
			trailer := vhlib.RandBytes(rng, rng.Intn(65))
			if c.Name == "meta" && len(trailer) > 0 {
				// a following meta block would legitimately be... no: the stream ended with a final bit
			}
			data := append(append([]byte{}, s.Data...), trailer...)
			for k, sk := range kinds {
				if !sk.Exact || (sk.Custom && c.Name == "brotli") {
					continue
				}
				if r.Quick() && (k+i)%2 != 0 {
					continue
				}
				sched := schedule(rng, rng.Intn(5))
				o := observe(c, data, sk, sched, rng)
				rp := map[string]interface{}{"codec": c.Name, "stream": vhlib.Hex(s.Data), "trailer": vhlib.Hex(trailer), "source": sk.Name, "schedule": sched}
				r.Eval(c.Name+":"+sk.Name, true, data, []byte(sk.Name))
				if o.Panic != "" {
					r.Violate("panic", o.Panic, rp)
					continue
				}
				if o.Bad != "" {
					r.Violate("contract", c.Name+": "+o.Bad, rp)
				}
				if c.Multi {
					// bzip2 continues into what follows: with a trailer it must not succeed silently
					if len(trailer) == 0 {
						if o.Cls != "nil" || o.In != int64(len(data)) || !bytes.Equal(o.Out, s.Plain) {
							r.Violate("bzip2-offsets", fmt.Sprintf("class=%s in=%d/%d", o.Cls, o.In, len(data)), rp)
						}
					} else if o.Cls == "nil" && !bytes.HasPrefix(trailer, []byte("BZh")) {
						r.Violate("bzip2-trailing-garbage-accepted", fmt.Sprintf("in=%d", o.In), rp)
					}
					continue
				}
				if o.Cls != "nil" || !bytes.Equal(o.Out, s.Plain) {
					r.Violate("trailing-bytes-change-result", fmt.Sprintf("%s src=%s class=%s", c.Name, sk.Name, o.Cls), rp)
					continue
				}
				if o.In != int64(len(s.Data)) {
					r.Violate("input-offset", fmt.Sprintf("%s src=%s in=%d stream=%d", c.Name, sk.Name, o.In, len(s.Data)), rp)
				}
				if o.Left != len(trailer) {
					r.Violate("overconsumption", fmt.Sprintf("%s src=%s left=%d trailer=%d", c.Name, sk.Name, o.Left, len(trailer)), rp)
				}
			}
			if c.Name == "flate" {
				r.Case("inflate", []string{vhlib.Hex(data)}, fmt.Sprintf("nil %s %d", vhlib.Hex(s.Plain), len(s.Data)))
			}
			if c.Name == "meta" {
				// model: used bytes
				_ = 0
			}
		}
	}
	observeReuse = false
	observeUsed = map[string]rdr{}
	// ReadByte-only sources with many step boundaries: larger dynamic-Huffman streams, small
	// Read buffers (every Read ends a decoding step and synchronises the offsets)
	nbr := 40
	if !r.Quick() {
		nbr = 1200
	}
	for _, c := range codecs() {
		if c.Name == "brotli" {
			continue // brotli treats a ReadByte-only source like any other Reader
		}
		var byteOnly srcKind
		for _, sk := range kinds {
			if sk.Name == "ByteReader" {
				byteOnly = sk
			}
		}
		nrep := nbr
		if c.Name == "flate" {
			nrep = 3 * nbr
		}
		for i := 0; i < nrep; i++ {
			s := c.Valid(rng, 12000)
			if c.Name == "flate" && i%3 != 0 {
				// very low entropy compressed hard (zlib level 9, whole input in one go): dynamic
				// blocks whose distance code and end-of-block code are one or two bits long and
				// whose last match sits a few bits before the end of the stream
				var plain []byte
				switch rng.Intn(3) {
				case 0:
					plain = bytes.Repeat([]byte{byte(rng.Intn(256))}, 2000+rng.Intn(10000))
				case 1:
					plain = bytes.Repeat([]byte{byte(rng.Intn(256)), byte(rng.Intn(256))}, 1000+rng.Intn(5000))
				default:
					plain = bytes.Repeat([]byte{0}, 258*(1+rng.Intn(20))+rng.Intn(258))
					plain = append(plain, byte(1+rng.Intn(255)))
					plain = append(plain, bytes.Repeat([]byte{0}, rng.Intn(3000))...)
				}
				s.Plain = plain
				s.Data = ref.ZDeflate([]ref.ZOp{{Data: plain, Flush: 4}}, 9, 15, 8+rng.Intn(2), 0)
				if s.Data == nil {
					continue
				}
			}
			trailer := vhlib.RandBytes(rng, rng.Intn(9))
			if len(trailer) == 0 && i%3 != 0 {
				trailer = []byte{byte(1 + rng.Intn(255))}
			}
			if c.Multi {
				trailer = nil
			}
			data := append(append([]byte{}, s.Data...), trailer...)
			sched := []int{1 + rng.Intn(40), 1 + rng.Intn(300), 1 + rng.Intn(40)}
			o := observe(c, data, byteOnly, sched, rng)
			r.Eval(c.Name+":ByteReader-steps", true, data, []byte(fmt.Sprint(sched)))
			rp := map[string]interface{}{"codec": c.Name, "stream": vhlib.Hex(s.Data), "trailer": vhlib.Hex(trailer), "source": "ByteReader", "schedule": sched}
			if o.Panic != "" {
				r.Violate("panic", o.Panic, rp)
				continue
			}
			if o.Bad != "" {
				r.Violate("contract", c.Name+": "+o.Bad, rp)
			}
			if o.Cls != "nil" || !bytes.Equal(o.Out, s.Plain) {
				r.Violate("trailing-bytes-change-result", fmt.Sprintf("%s src=ByteReader class=%s", c.Name, o.Cls), rp)
				continue
			}
			if o.In != int64(len(s.Data)) {
				r.Violate("input-offset", fmt.Sprintf("%s src=ByteReader in=%d stream=%d", c.Name, o.In, len(s.Data)), rp)
			}
			if o.Left != len(trailer) {
				r.Violate("overconsumption", fmt.Sprintf("%s src=ByteReader left=%d trailer=%d", c.Name, o.Left, len(trailer)), rp)
			}
		}
	}
	c11Gated(r)
	r.Sample(map[string]interface{}{"stream": "4b4c84010000", "trailer": "ffee", "expect": "InputOffset=5 (stream length), 2 bytes left unread"})
}

// longEOBWitness: a final dynamic block whose end-of-block code is eobLen bits long while
// literal 'a' has a 1-bit and length symbol 257 a 2-bit code, ending (tail 0) in a match with
// an empty history, (tail 1) in three literals with no end-of-block, (tail 2) properly.
func longEOBWitness(rng *rand.Rand, tail, eobLen int) []byte {
	var w gen.BitW
	w.Bits(1, 1)
	w.Bits(2, 2)
	nlit := 258
	litLens := make([]int, nlit)
	// 'a': 1 bit, 257: 2 bits, then one code of each length 3..eobLen-1 and two of eobLen
	// (Kraft sum 1/2 + 1/4 + sum_{k=3}^{L-1} 2^-k + 2*2^-L = 1)
	litLens[97] = 1
	litLens[257] = 2
	for k := 3; k < eobLen; k++ {
		litLens[k-3] = k
	}
	litLens[eobLen] = eobLen
	litLens[256] = eobLen
	distLens := []int{1, 1}
	all := append(append([]int{}, litLens...), distLens...)
	clLens := make([]int, 19)
	for i := 0; i < 16; i++ {
		clLens[i] = 4
	}
	order := []int{16, 17, 18, 0, 8, 7, 9, 6, 10, 5, 11, 4, 12, 3, 13, 2, 14, 1, 15}
	w.Bits(uint64(nlit-257), 5)
	w.Bits(uint64(len(distLens)-1), 5)
	w.Bits(19-4, 4)
	for i := 0; i < 19; i++ {
		w.Bits(uint64(clLens[order[i]]), 3)
	}
	cc := gen.Canonical(clLens)
	for _, v := range all {
		w.Code(cc[v], uint(clLens[v]))
	}
	lc := gen.Canonical(litLens)
	switch tail {
	case 0:
		w.Code(lc[257], 2)
		w.Code(0, 1)
	case 1:
		w.Code(lc[97], 1)
		w.Code(lc[97], 1)
		w.Code(lc[97], 1)
	default:
		w.Code(lc[97], 1)
		w.Code(lc[257], 2)
		w.Code(0, 1)
		w.Code(lc[256], uint(eobLen))
	}
	w.Align()
	_ = rng
	return w.Buf
}

// storedTail: a valid stream of stored blocks whose FINAL block is large (the decoder copies it
// from the source straight into its window, so the source's last Read - possibly data together
// with io.EOF - is seen by the decoder itself and not by a buffering layer).
func storedTail(rng *rand.Rand, k int) gen.Stream {
	var out, plain []byte
	blk := func(n int, final bool) {
		h := byte(0)
		if final {
			h = 1
		}
		out = append(out, h, byte(n), byte(n>>8), byte(^n), byte(^n>>8))
		d := vhlib.RandBytes(rng, n)
		out = append(out, d...)
		plain = append(plain, d...)
	}
	for j := k % 3; j > 0; j-- {
		blk([]int{0, 1, 5000, 40000, 65535}[rng.Intn(5)], false)
	}
	blk([]int{4096, 9000, 33000, 40000, 65535, 30000 + rng.Intn(35000)}[k%6], true)
	return gen.Stream{Data: out, Plain: plain, Valid: true, Kind: "stored-tail"}
}
