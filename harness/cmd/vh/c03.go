package main

import (
	"bufio"
	"bytes"
	stdbzip2 "compress/bzip2"
	"fmt"
	"io"
	"io/ioutil"
	"math/rand"
	"strings"

	"github.com/dsnet/compress/bzip2"
	"github.com/dsnet/compress/xflate/verifharness/gen"
	"github.com/dsnet/compress/xflate/verifharness/ref"
	"github.com/dsnet/compress/xflate/verifharness/vhlib"
)

func init() {
	props["C03"] = runC03
	props["C04"] = runC04
}

var bzSinkTurn int

func bzWrite(data []byte, level int, parts [][]byte) (sink []byte, err error, in, out int64) {
	var bb bytes.Buffer
	defer func() {
		if p := recover(); p != nil {
			sink, err = bb.Bytes(), fmt.Errorf("panic: %v", p)
		}
	}()
	// the sink's dynamic type varies (a Writer may treat a *bufio.Writer or a *bytes.Buffer specially)
	var sinkW io.Writer = &bb
	var bw *bufio.Writer
	bzSinkTurn++
	switch bzSinkTurn % 3 {
	case 1:
		bw = bufio.NewWriterSize(&bb, 16+bzSinkTurn%700)
		sinkW = bw
	case 2:
		sinkW = struct{ io.Writer }{&bb}
	}
	defer func() {
		if bw != nil {
			bw.Flush()
			sink = bb.Bytes()
		}
	}()
	zw, err := bzip2.NewWriter(sinkW, &bzip2.WriterConfig{Level: level})
	if err != nil {
		return nil, err, 0, 0
	}
	if parts == nil {
		parts = [][]byte{data}
	}
	for i, p := range parts {
		if i%3 == 2 && len(p) > 0 && len(p) < 30000 {
			// through io.Copy from a source that returns its last bytes together with io.EOF
			// (io.Copy picks up an io.ReaderFrom on the Writer if it has one)
			if n, err := io.Copy(zw, &vhlib.ReadOnly{B: p, WithEOF: true}); err != nil || n != int64(len(p)) {
				return bb.Bytes(), fmt.Errorf("io.Copy: %d %v", n, err), zw.InputOffset, zw.OutputOffset
			}
			continue
		}
		if n, err := zw.Write(p); err != nil || n != len(p) {
			return bb.Bytes(), fmt.Errorf("write: %d %v", n, err), zw.InputOffset, zw.OutputOffset
		}
	}
	err = zw.Close()
	return bb.Bytes(), err, zw.InputOffset, zw.OutputOffset
}

func bzPlain(rng *rand.Rand, max int) []byte {
	switch rng.Intn(8) {
	case 0:
		return nil
	case 1: // a run of 1..300 equal bytes inside other data
		b := vhlib.RandBytes(rng, rng.Intn(50))
		b = append(b, bytes.Repeat([]byte{byte(rng.Intn(256))}, 1+rng.Intn(300))...)
		return append(b, vhlib.RandBytes(rng, rng.Intn(50))...)
	case 2: // small alphabets
		k := 1 + rng.Intn(4)
		b := make([]byte, rng.Intn(max+1))
		for i := range b {
			b[i] = byte(65 + rng.Intn(k))
		}
		return b
	case 3: // full alphabet
		b := make([]byte, 256+rng.Intn(max+1))
		for i := range b {
			b[i] = byte(i)
		}
		rng.Shuffle(len(b), func(i, j int) { b[i], b[j] = b[j], b[i] })
		return b
	}
	return gen.Plain(rng, max)
}

func c03Check(r *vhlib.Run, data []byte, kind string, model bool) {
	replay := map[string]interface{}{"input": vhlib.Hex(data), "kind": kind}
	o := observe(codecs()[2], data, srcKinds()[0], []int{4096}, r.Rng)
	lout, lok, lused, lns, _ := ref.BZDecompress(data, len(o.Out)+1<<22)
	lok = lok && lns >= 1 // no stream at all is not acceptance
	r.Eval(kind, o.Cls == "nil" || len(o.Out) > 0 || len(data) > 14, data)
	r.Hist["impl:"+o.Cls]++
	if o.Panic != "" {
		r.Violate("panic", o.Panic, replay)
		return
	}
	if o.Bad != "" {
		r.Violate("contract", o.Bad, replay)
	}
	if model {
		obsStr := fmt.Sprintf("%s %s", o.Cls, vhlib.Hex(o.Out))
		if o.Cls == "nil" {
			obsStr = fmt.Sprintf("nil %s %d", vhlib.Hex(o.Out), o.In)
		}
		r.Case("bzdec", []string{vhlib.Hex(data)}, obsStr)
	}
	if o.Cls == "Deprecated" {
		r.Hist["deprecated"]++
		return // the permitted divergence
	}
	if (o.Cls == "nil") != lok {
		r.Violate("acceptance-differs", fmt.Sprintf("impl=%s libbz2 ok=%v used=%d/%d", o.Cls, lok, lused, len(data)), replay)
		return
	}
	if lok {
		if !bytes.Equal(o.Out, lout) {
			r.Violate("output-differs", fmt.Sprintf("%d vs %d bytes", len(o.Out), len(lout)), replay)
		}
		if o.In != int64(len(data)) {
			r.Violate("input-offset", fmt.Sprintf("%d vs %d", o.In, len(data)), replay)
		}
	} else {
		if !isPrefix(o.Out, lout) && !isPrefix(lout, o.Out) {
			r.Violate("wrong-byte-before-error", fmt.Sprintf("impl %d bytes, libbz2 %d bytes", len(o.Out), len(lout)), replay)
		}
		if o.Cls != "UEOF" && o.Cls != "Corrupted" {
			r.Violate("error-class", o.Cls, replay)
		}
	}
}

func catBytes(parts ...[]byte) []byte {
	var out []byte
	for _, p := range parts {
		out = append(out, p...)
	}
	return out
}

func runC03(r *vhlib.Run) {
	rng := r.Rng
	// handleDegenerateCodes / ReadPrefixCodes dispatch against their model (Bzip2/Degenerate.v)
	runWBZDEGEN(r)
	// bzip2.Reader itself against its implementation-level model, per Read call (Bzip2/Impl.v)
	wbzimpl(r)
	n := 220
	if !r.Quick() {
		n = 6000
	}
	var pool [][]byte
	for i := 0; i < n; i++ {
		var d []byte
		kind := ""
		switch rng.Intn(10) {
		case 0, 1:
			d, kind = ref.BZCompress(bzPlain(rng, 4000), 1+rng.Intn(9)), "libbz2"
		case 2:
			d, _, _, _ = bzWrite(bzPlain(rng, 4000), 1+rng.Intn(9), nil)
			kind = "own-writer"
		case 3, 4, 5:
			c := gen.BzSynth(rng)
			d, kind = c.Data, c.Kind
		case 6: // concatenated streams
			d = append(ref.BZCompress(bzPlain(rng, 500), 1+rng.Intn(9)), gen.BzSynth(rng).Data...)
			kind = "concat"
		default:
			if len(pool) > 0 {
				d, kind = gen.Mutate(rng, pool[rng.Intn(len(pool))]), "mutated"
			} else {
				d, kind = ref.BZCompress(nil, 5), "libbz2"
			}
		}
		if kind != "mutated" {
			pool = append(pool, d)
		}
		c03Check(r, d, kind, true)
		if len(r.Samples) < 5 && len(d) < 80 {
			r.Sample(map[string]interface{}{"kind": kind, "input": vhlib.Hex(d)})
		}
	}
	// truncations of a few short streams at every byte
	for i := 0; i < 6; i++ {
		d := gen.BzSynth(rng).Data
		if len(d) > 400 {
			continue
		}
		for k := 0; k < len(d); k++ {
			c03Check(r, d[:k], "truncated", true)
		}
	}
	// trees that are each under-subscribed while their Kraft sums add up to one
	for k := 0; k < 3; k++ {
		for _, t := range gen.BzKraftCombos(rng) {
			c03Check(r, t.Data, t.Kind, true)
		}
	}
	// run numbers of 19..48 RUNA/RUNB digits
	nov := 60
	if !r.Quick() {
		nov = 1500
	}
	for k := 0; k < nov; k++ {
		t := gen.BzOverlongRun(rng)
		c03Check(r, t.Data, t.Kind, true)
	}
	// the level byte of the header: every value around '1'..'9'
	{
		base := ref.BZCompress(bzPlain(rng, 300), 9)
		for v := 0x2e; v <= 0x3d; v++ {
			d := append([]byte{}, base...)
			d[3] = byte(v)
			c03Check(r, d, "header-level", true)
		}
	}
	// what may follow a complete stream: nothing, another stream, or bytes that are neither -
	// NUL padding of every small length (with and without a further stream behind it), the
	// beginnings of a header, the end-of-stream magic again; libbz2 restarted on those bytes
	// is the judge
	{
		s1 := ref.BZCompress(bzPlain(rng, 200), 1+rng.Intn(9))
		s2 := ref.BZCompress(bzPlain(rng, 200), 1+rng.Intn(9))
		empty := ref.BZCompress(nil, 9)
		for _, first := range [][]byte{s1, empty} {
			for k := 1; k <= 9; k++ {
				pad := make([]byte, k)
				c03Check(r, catBytes(first, pad), "stream+nul-padding", true)
				c03Check(r, catBytes(first, pad, s2), "stream+nul-padding+stream", true)
			}
			for _, tail := range [][]byte{{'B'}, []byte("BZ"), []byte("BZh"), []byte("BZh9"), {0x17, 0x72, 0x45, 0x38, 0x50, 0x90}, {0xff}, {0x42, 0x00}, {0x00, 0x42, 0x5a}} {
				c03Check(r, catBytes(first, tail), "stream+tail", true)
			}
		}
	}
	// a later member of a concatenation cut short: at every byte of small multi-block members,
	// and - for many more members - exactly where a block or the footer starts on a byte
	// boundary (only there can "end of input" be mistaken for a clean end)
	{
		first := ref.BZCompress(bzPlain(rng, 100), 1+rng.Intn(9))
		nm := 40
		if !r.Quick() {
			nm = 400
		}
		blkMagic := []byte{0x31, 0x41, 0x59, 0x26, 0x53, 0x59}
		endMagic := []byte{0x17, 0x72, 0x45, 0x38, 0x50, 0x90}
		for i := 0; i < nm; i++ {
			second := gen.BzMultiBlock(rng, 2+rng.Intn(3)).Data
			if lout, ok, _, _, _ := ref.BZDecompress(second, 1<<20); !ok || len(lout) == 0 {
				continue
			}
			if i < 3 {
				for k := 1; k < len(second); k++ {
					c03Check(r, catBytes(first, second[:k]), "concat-second-member-cut", len(second) < 1500)
				}
				continue
			}
			for k := 5; k+6 <= len(second); k++ {
				if bytes.Equal(second[k:k+6], blkMagic) || bytes.Equal(second[k:k+6], endMagic) {
					c03Check(r, catBytes(first, second[:k]), "concat-second-member-cut-at-aligned-boundary", true)
				}
			}
		}
	}
	// members with different block sizes, the larger ones later: a block of a later member
	// may hold more symbols than any block of the first member could
	{
		nrep := 1
		if !r.Quick() {
			nrep = 5
		}
		for rep := 0; rep < nrep; rep++ {
			lv1 := 1 + rng.Intn(2)
			lv2 := lv1 + 2 + rng.Intn(8-lv1-1)
			big := make([]byte, lv2*100000-rng.Intn(3000))
			rng.Read(big)
			d := catBytes(ref.BZCompress(bzPlain(rng, 300), lv1), ref.BZCompress(big, lv2), ref.BZCompress(bzPlain(rng, 300), lv1))
			c03Check(r, d, "members-rising-level", false)
		}
	}
	// consecutive blocks whose code tables are near copies of each other (what is built for one block
	// must not leak into the next)
	nrel := 150
	if !r.Quick() {
		nrel = 3000
	}
	for i := 0; i < nrel; i++ {
		c03Check(r, gen.BzRelatedBlocks(rng).Data, "synth-related-blocks", i%3 == 0)
	}
	// completely full blocks whose symbols save nothing (the largest number of groups and selectors
	// a block can need: 2001 at level 1 ... 18001 at level 9), and blocks one group short of that
	for _, lv := range []int{1, 9, 2 + rng.Intn(7)} {
		for _, short := range []int{0, 1, 49, 50} {
			if r.Quick() && lv != 9 && short > 1 {
				continue
			}
			c03Check(r, gen.BzFullBlock(rng, lv, short).Data, "synth-full-block", false)
		}
	}
	// targeted limit cases (100000-byte blocks): implementation + libbz2 always, model in thorough
	for _, t := range gen.BzTargeted(rng) {
		c03Check(r, t.Data, t.Kind, !r.Quick() || len(t.Data) < 2000)
	}
}

// ---- C04 -------------------------------------------------------------------------

func c04Check(r *vhlib.Run, data []byte, level int, kind string, model bool) {
	replay := map[string]interface{}{"input_len": len(data), "level": level, "kind": kind}
	if len(data) <= 4096 {
		replay["input"] = vhlib.Hex(data)
	} else {
		replay["seed_note"] = "regenerate with the same VERIF_SEED"
	}
	sink, err, in, out := bzWrite(data, level, nil)
	r.Eval(kind, true, data, []byte{byte(level)})
	if err != nil {
		r.Violate("write-failed", fmt.Sprint(err), replay)
		return
	}
	if model {
		r.Case("bzenc", []string{fmt.Sprint(level), vhlib.Hex(data)}, vhlib.Hex(sink))
	}
	if in != int64(len(data)) || out != int64(len(sink)) {
		r.Violate("writer-offsets", fmt.Sprintf("in=%d/%d out=%d/%d", in, len(data), out, len(sink)), replay)
	}
	// decodable by libbz2, compress/bzip2 and own Reader
	if lout, ok, used, ns, _ := ref.BZDecompress(sink, len(data)+16); !ok || used != len(sink) || ns != 1 || !bytes.Equal(lout, data) {
		r.Violate("libbz2-rejects-or-differs", fmt.Sprintf("ok=%v used=%d/%d streams=%d out=%d/%d", ok, used, len(sink), ns, len(lout), len(data)), replay)
	}
	if sout, err := ioutil.ReadAll(stdbzip2.NewReader(bytes.NewReader(sink))); err != nil || !bytes.Equal(sout, data) {
		r.Violate("compress/bzip2-rejects-or-differs", fmt.Sprintf("err=%v out=%d/%d", err, len(sout), len(data)), replay)
	}
	zr, _ := bzip2.NewReader(bytes.NewReader(sink), nil)
	if oout, err := ioutil.ReadAll(zr); err != nil || !bytes.Equal(oout, data) {
		r.Violate("own-reader-rejects-or-differs", fmt.Sprintf("err=%v out=%d/%d", err, len(oout), len(data)), replay)
	}
	// split independence
	for k := 0; k < 2; k++ {
		s2, err2, _, _ := bzWrite(data, level, vhlib.Partition(r.Rng, data))
		if err2 != nil || !bytes.Equal(s2, sink) {
			r.Violate("split-dependent", fmt.Sprintf("err=%v %d vs %d bytes", err2, len(s2), len(sink)), replay)
			break
		}
	}
}

func runC04(r *vhlib.Run) {
	rng := r.Rng
	// levels outside 1..9 are refused (0 selects the default)
	for _, lv := range []int{-1, 10, 11, 100, -100} {
		_, err := bzip2.NewWriter(ioutil.Discard, &bzip2.WriterConfig{Level: lv})
		r.Eval("level-refused", true, []byte(fmt.Sprint(lv)))
		if err == nil {
			r.Violate("bad-level-accepted", fmt.Sprint(lv), map[string]interface{}{"level": lv})
		}
	}
	c04PrefixStage(r)
	n := 150
	if !r.Quick() {
		n = 3000
	}
	for i := 0; i < n; i++ {
		c04Check(r, bzPlain(rng, 3000), 1+rng.Intn(9), "small", true)
	}
	// frequency profiles that force length limiting (Fibonacci-like post-MTF symbol counts)
	nprof := 6
	if !r.Quick() {
		nprof = 60
	}
	for i := 0; i < nprof; i++ {
		k := 22 + rng.Intn(12) // symbols with Fibonacci frequencies: optimal depth > 20
		var d []byte
		a, b := 1, 1
		for s := 0; s < k && len(d) < 60000; s++ {
			for j := 0; j < a && len(d) < 60000; j++ {
				d = append(d, byte(s*7+1))
			}
			a, b = b, a+b
		}
		rng.Shuffle(len(d), func(x, y int) { d[x], d[y] = d[y], d[x] })
		c04Check(r, d, 1+rng.Intn(9), "fibonacci", i < 2 || !r.Quick())
	}
	// runs of 1..300 equal bytes placed around the level*100000 block limit
	levels := []int{1}
	if !r.Quick() {
		levels = []int{1, 2, 3, 9}
	}
	for _, lv := range levels {
		lim := lv * 100000
		offs := []int{-8, -7, -6, -5, -4, -3, -2, -1, 0, 1, 2, 5}
		for oi, off := range offs {
			runLen := []int{1, 3, 4, 5, 255, 256, 259, 300}[rng.Intn(8)]
			pre := make([]byte, lim+off)
			for k := range pre {
				pre[k] = byte("abcdefgh"[rng.Intn(8)])
				for k > 0 && pre[k] == pre[k-1] {
					pre[k] = byte("abcdefgh"[rng.Intn(8)])
				}
			}
			d := append(pre, bytes.Repeat([]byte{'z'}, runLen)...)
			d = append(d, vhlib.RandBytes(rng, rng.Intn(100))...)
			c04Check(r, d, lv, fmt.Sprintf("block-limit-level%d", lv), lv == 1 && (oi == 6 || !r.Quick()))
			// Write boundaries (and zero-length writes) inside the run at the limit
			base, _, _, _ := bzWrite(d, lv, nil)
			for _, sp := range []int{1, 3, 4, 5, 6, runLen} {
				if sp > runLen {
					continue
				}
				cut := len(pre) + sp
				for _, parts := range [][][]byte{{d[:cut], d[cut:]}, {d[:cut], nil, d[cut:]}, {d[:len(pre)], d[len(pre):cut], d[cut:]}} {
					s2, err2, _, _ := bzWrite(d, lv, parts)
					r.Evals++
					if err2 != nil || !bytes.Equal(s2, base) {
						r.Violate("split-dependent", fmt.Sprintf("level %d: %d-byte run of 'z' starting %d bytes before the block limit, Write boundary %d bytes into the run: %d vs %d output bytes (err=%v)", lv, runLen, -off, sp, len(s2), len(base), err2),
							map[string]interface{}{"level": lv, "prefix_len": len(pre), "run_len": runLen, "split_in_run": sp, "kind": "block-limit-split"})
					}
				}
			}
		}
	}
	// multi-block input
	c04Check(r, gen.Plain(rng, 250000), 1, "multi-block", !r.Quick())
	// large-scale structure inside one block (levels 2..9, blocks of 130 KB and more):
	// strictly periodic data (the BWT output is a handful of runs as long as the block),
	// and a block whose first 64..190 KB recur later in the same block (two revisions of one
	// record: rotations that agree over a very long stretch)
	{
		nper := 2
		if !r.Quick() {
			nper = 12
		}
		for i := 0; i < nper; i++ {
			// a period of 2..6 bytes without equal neighbours (the run-length stage leaves it
			// alone), repeated more than 65536 times inside ONE block
			k := 2 + (i/2)%5
			if i == 0 {
				k = 2
			}
			if k > 6 {
				k = 6
			}
			period := make([]byte, k)
			for j := range period {
				period[j] = byte(rng.Intn(256))
				for (j > 0 && period[j] == period[j-1]) || (j == k-1 && period[j] == period[0]) {
					period[j] = byte(rng.Intn(256))
				}
			}
			size := (65537 + rng.Intn(20000)) * k
			lv := (size + 99999) / 100000
			if lv < 9 {
				lv += rng.Intn(9 - lv + 1)
			}
			if lv > 9 {
				continue
			}
			d := bytes.Repeat(period, size/k)
			c04Check(r, d, lv, "periodic-block", false)
		}
		for i := 0; i < nper; i++ {
			lv := 2 + rng.Intn(8)
			plen := 65537 + rng.Intn(60000)
			if 2*plen+64 > lv*100000 {
				lv = 9
			}
			pfx := make([]byte, plen)
			rng.Read(pfx)
			last := byte(rng.Intn(256))
			// P x s ... P y s with the bytes in front of the second P equal to the last byte
			mid := vhlib.RandBytes(rng, rng.Intn(40))
			d := catBytes(pfx, []byte{byte(200 + rng.Intn(50))}, mid, []byte{last}, pfx, []byte{byte(rng.Intn(100))}, vhlib.RandBytes(rng, rng.Intn(40)), []byte{last})
			c04Check(r, d, lv, "long-repeat-in-block", false)
			// and the other order of the two distinguishing bytes
			d2 := catBytes(pfx, []byte{byte(rng.Intn(100))}, mid, []byte{last}, pfx, []byte{byte(200 + rng.Intn(50))}, []byte{last})
			c04Check(r, d2, lv, "long-repeat-in-block", false)
		}
	}
	// geometric byte distributions over 30-50 values: very skewed post-MTF symbol
	// profiles, code lengths of 17-20 bits in large blocks
	ngeo := 3
	if !r.Quick() {
		ngeo = 20
	}
	for i := 0; i < ngeo; i++ {
		ratio := 1.4 + 0.1*float64(rng.Intn(5))
		nsym := 30 + rng.Intn(21)
		size := 300000 + rng.Intn(600000)
		d := make([]byte, size)
		for k := range d {
			x := rng.Float64()
			sidx := 0
			p := (ratio - 1) / ratio
			for sidx < nsym-1 && x > p {
				x -= p
				p /= ratio
				sidx++
			}
			d[k] = byte(sidx * 5)
		}
		c04Check(r, d, 9, "geometric", false)
	}
	r.Sample(map[string]interface{}{"input": "6869", "level": 1, "sink": "425a68313141592653599a89b422000000010000602000219e82021772453850909a89b422"})
}

// c04PrefixStage drives the prefix-coding stage of the Writer (encodePrefix: tree assignment per
// group of 50 symbols, GenerateLengths with the 20-bit limit, the selectors, the code tables and
// the symbols themselves) directly with symbol sequences of EVERY frequency profile - among them
// profiles an actual block would need hundreds of kilobytes of special input for: per-tree exact
// Fibonacci counts (code lengths up to the limit) with the rarest symbols adjacent at each
// alignment within a group. What is written must read back through decodePrefix as the same
// symbols, and (for the smaller sequences) equal the bits of the model's encode_prefix.
func c04PrefixStage(r *vhlib.Run) {
	rng := r.Rng
	check := func(kind string, syms []uint16, numSyms int, model bool) {
		r.Eval("prefix-stage:"+kind, true, []byte(fmt.Sprint(numSyms, len(syms))), u16bytes(syms[:min(len(syms), 4000)]))
		replay := map[string]interface{}{"kind": kind, "numSyms": numSyms, "nsyms": len(syms)}
		if len(syms) <= 3000 {
			replay["syms"] = syms
		}
		var out []byte
		var back []uint16
		var err, derr error
		pan := ""
		func() {
			defer func() {
				if p := recover(); p != nil {
					pan = fmt.Sprint(p)
				}
			}()
			out, err = bzip2.VerifEncodePrefix(syms, numSyms)
			if err == nil {
				back, derr = bzip2.VerifDecodePrefix(out, numSyms)
			}
		}()
		if pan != "" || err != nil {
			r.Violate("write-failed", fmt.Sprintf("encodePrefix(%d symbols, numSyms=%d): panic=%q err=%v", len(syms), numSyms, pan, err), replay)
			return
		}
		same := derr == nil && len(back) == len(syms)
		for i := 0; same && i < len(syms); i++ {
			same = back[i] == syms[i]
		}
		if !same {
			r.Violate("own-reader-rejects-or-differs", fmt.Sprintf("the prefix-coded symbols of a block do not read back: %d symbols written (numSyms=%d, %d bytes), decodePrefix gives %d symbols, err=%v", len(syms), numSyms, len(out), len(back), derr), replay)
			return
		}
		if model {
			ss := make([]string, len(syms))
			for i, x := range syms {
				ss[i] = fmt.Sprint(x)
			}
			a := strings.Join(ss, ",")
			if a == "" {
				a = "-"
			}
			r.Case("bzpfx", []string{fmt.Sprint(numSyms), a}, vhlib.Hex(out))
		}
	}
	// (a) random profiles
	nrand := 60
	if !r.Quick() {
		nrand = 1500
	}
	for i := 0; i < nrand; i++ {
		numSyms := 1 + rng.Intn(255)
		if rng.Intn(3) == 0 {
			numSyms = 1 + rng.Intn(6)
		}
		L := []int{0, 1, 49, 50, 51, 199, 200, 600, 1200, 2400, 5000}[rng.Intn(11)] + rng.Intn(3)
		if rng.Intn(4) == 0 {
			L = rng.Intn(3000)
		}
		ratio := []float64{1, 0.9, 0.7, 0.62, 0.5}[rng.Intn(5)]
		syms := make([]uint16, L)
		for j := range syms {
			s := 0
			for s < numSyms && rng.Float64() > 1-ratio && ratio < 1 {
				s++
			}
			if ratio == 1 {
				s = rng.Intn(numSyms + 1)
			}
			syms[j] = uint16(s)
		}
		check("random", syms, numSyms, L <= 2500)
	}
	// (b) per-tree exact Fibonacci counts: six trees (>= 2400 symbols), tree t owns the groups
	// t, t+6, ...; within its groups symbol s occurs Fib(s+1) times (K symbols: depths up to K-1,
	// cut at 20 by the limit), shuffled, except that the three rarest symbols stand next to each
	// other at offset `al` of one of the tree's groups
	nfib := 4
	if !r.Quick() {
		nfib = 40
	}
	for it := 0; it < nfib; it++ {
		K := 21 + rng.Intn(4) // 21..24: six trees of Fib(K+2)-1 symbols stay below the largest block (900000)
		numSyms := K + rng.Intn(20)
		var bag []uint16
		a, b := 1, 1
		for s := 0; s < K; s++ {
			for j := 0; j < a; j++ {
				bag = append(bag, uint16(K-1-s))
			}
			a, b = b, a+b
		}
		// bag: symbol K-1 once, K-2 once, K-3 twice, ... symbol 0 most frequent
		ngroups := (len(bag) + 49) / 50
		total := ngroups * 6 * 50
		syms := make([]uint16, total)
		for t := 0; t < 6; t++ {
			mine := append([]uint16{}, bag...)
			for len(mine) < ngroups*50 {
				mine = append(mine, 0)
			}
			// take the three rarest out, shuffle the rest, put the three back side by side
			rest := mine[3:]
			rng.Shuffle(len(rest), func(x, y int) { rest[x], rest[y] = rest[y], rest[x] })
			g := rng.Intn(ngroups)
			al := (it + t) % 48
			pos := g*50 + al
			seq := append(append(append([]uint16{}, rest[:pos]...), mine[0], mine[1], mine[2]), rest[pos:]...)
			for k, x := range seq {
				grp := k / 50
				syms[(grp*6+t)*50+k%50] = x
			}
		}
		check("fibonacci-per-tree", syms, numSyms, false)
	}
}

func u16bytes(s []uint16) []byte {
	b := make([]byte, 2*len(s))
	for i, x := range s {
		b[2*i], b[2*i+1] = byte(x), byte(x>>8)
	}
	return b
}
