package main

// WXFRESET: xflate.Writer.Reset / xflate.Reader.Reset against the models with Reset
// (coq/XFlate/WriterReset.v, coq/XFlate/ReaderReset.v; live kinds xwr, xrr).
//
// Writer: histories of Write / Flush(mode) / Close / Reset through ONE Writer object - several
// streams, Reset after Close, after a latched error, mid-chunk, right after an index flush, with
// index records pending, onto empty buffers, buffers that already hold bytes, the same buffer
// again, and a sink that is not a bytes.Buffer; also from the zero value (var xw xflate.Writer).
// Observed per call: the return values, InputOffset, OutputOffset, the length of the current
// sink; and the bytes of every sink when it is abandoned / at the end.
//
// Reader: histories of Seek / Read / Close / Reset through ONE Reader object, starting from the
// zero value (NewReader is the first Reset) - Reset onto other valid streams, onto corrupt ones,
// after errors, after Close, after io.EOF, mid-chunk with a pending discard. Observed per call:
// the return values; for a Reset also the byte ranges read from the new source while opening.
//
// Oracles on the implementation alone (C14): (1) every stream of a history, replayed on an
// object made by NewWriter / NewReader, gives the same observations; (2) a sink abandoned by
// Reset is never written again; (3) the ranges a Seek/Read fetches from the source lie inside
// the chunks the model logs for that call.

import (
	"bytes"
	"fmt"
	"io"
	"math/rand"
	"strings"
	"time"

	"github.com/dsnet/compress/xflate"
	"github.com/dsnet/compress/xflate/verifharness/vhlib"
)

func init() { props["WXFRESET"] = runWXFReset }

func hexDash(b []byte) string {
	if len(b) == 0 {
		return "-"
	}
	return vhlib.Hex(b)
}

// ---- sinks ----------------------------------------------------------------------------------
type memSink interface {
	io.Writer
	Bytes() []byte
}

// plainSink: an io.Writer with no other method (bytes.Buffer also is a ReaderFrom, StringWriter...)
type plainSink struct{ b []byte }

func (p *plainSink) Write(d []byte) (int, error) { p.b = append(p.b, d...); return len(d), nil }
func (p *plainSink) Bytes() []byte               { return p.b }

func newSink(kind int, pre []byte) memSink {
	if kind == 1 {
		return &plainSink{b: append([]byte{}, pre...)}
	}
	bb := &bytes.Buffer{}
	bb.Write(pre)
	return bb
}

// ---- Writer ---------------------------------------------------------------------------------
type ywOp struct {
	Kind byte // 'w', 'f', 'c', 'R'
	Data []byte
	Mode int
	Sink int    // for R: 0 new bytes.Buffer, 1 new plainSink, 2 the same sink again
	Pre  []byte // for R with a new sink: what it already holds
}

type ywStart struct {
	Zero bool
	Cfg  xwCfg
	Sink int
	Pre  []byte
}

// one stream of a history: from NewWriter / a Reset up to the next Reset
type ywSeg struct {
	Replayable bool // false for the calls on the zero value
	Cfg        xwCfg
	Pre        []byte
	Ops        []ywOp
	Per        []string
	Final      string
}

func ywCall(f func() (int, error)) (n int, err error, panicked bool) {
	defer func() {
		if p := recover(); p != nil {
			panicked = true
		}
	}()
	n, err = f()
	return
}

// runYW drives one Writer object through the history; returns the case arguments, the
// observation, and the streams for the replay oracle.
func runYW(r *vhlib.Run, st ywStart, ops []ywOp) (args []string, obs string, segs []ywSeg, viol string) {
	mode := "new"
	if st.Zero {
		mode = "zero"
	}
	args = []string{mode, hexDash(st.Pre), fmt.Sprint(st.Cfg.Level), fmt.Sprint(st.Cfg.ChunkSize), fmt.Sprint(st.Cfg.Index)}
	var xw *xflate.Writer
	var cur memSink
	cfg := st.Cfg
	type old struct {
		s    memSink
		snap []byte
	}
	var abandoned []old
	if st.Zero {
		xw = new(xflate.Writer)
		segs = append(segs, ywSeg{Replayable: false})
	} else {
		cur = newSink(st.Sink, st.Pre)
		var err error
		xw, err = xflate.NewWriter(cur, &xflate.WriterConfig{Level: cfg.Level, ChunkSize: cfg.ChunkSize, IndexSize: cfg.Index})
		if err != nil {
			for _, o := range ops {
				args = append(args, ywOpString(o, nil))
			}
			return args, "new:refused", nil, ""
		}
		segs = append(segs, ywSeg{Replayable: true, Cfg: cfg, Pre: append([]byte{}, st.Pre...)})
	}
	curBytes := func() []byte {
		if cur == nil {
			return nil
		}
		return cur.Bytes()
	}
	var per, sinks []string
	for _, o := range ops {
		seg := &segs[len(segs)-1]
		var n int
		var err error
		var pan bool
		switch o.Kind {
		case 'w':
			n, err, pan = ywCall(func() (int, error) { return xw.Write(o.Data) })
		case 'f':
			n, err, pan = ywCall(func() (int, error) { return 0, xw.Flush(xflate.FlushMode(o.Mode)) })
		case 'c':
			n, err, pan = ywCall(func() (int, error) { return 0, xw.Close() })
		case 'R':
			snap := append([]byte{}, curBytes()...)
			sinks = append(sinks, hexDash(snap))
			seg.Final = hexDash(snap)
			pre := o.Pre
			if o.Sink == 2 && cur != nil {
				pre = snap // the same buffer again: it holds what it held
			} else {
				if cur != nil {
					abandoned = append(abandoned, old{cur, snap})
				}
				cur = newSink(o.Sink%2, pre)
			}
			o.Pre = append([]byte{}, pre...)
			n, err, pan = ywCall(func() (int, error) { return 0, xw.Reset(cur) })
			if st.Zero && len(segs) == 1 {
				cfg = xwCfg{Level: xflate.DefaultCompression} // zero value: level 6, default sizes
			}
			segs = append(segs, ywSeg{Replayable: true, Cfg: cfg, Pre: o.Pre})
			seg = nil
		}
		args = append(args, ywOpString(o, o.Pre))
		cls := vhlib.ErrClass(err)
		if pan {
			cls = "Panic"
		}
		nrecs, back, _ := xw.VerifIndexState()
		line := fmt.Sprintf("%d:%s:%d:%d:%d:%d:%d", n, cls, xw.InputOffset, xw.OutputOffset, len(curBytes()), nrecs, back)
		per = append(per, line)
		if seg != nil {
			seg.Ops = append(seg.Ops, o)
			seg.Per = append(seg.Per, line)
		}
	}
	segs[len(segs)-1].Final = hexDash(curBytes())
	sinks = append(sinks, hexDash(curBytes()))
	for i, a := range abandoned {
		if !bytes.Equal(a.s.Bytes(), a.snap) {
			viol = fmt.Sprintf("sink %d abandoned by Reset with %d bytes holds %d bytes at the end", i, len(a.snap), len(a.s.Bytes()))
		}
	}
	po := "-"
	if len(per) > 0 {
		po = strings.Join(per, ",")
	}
	return args, po + "|" + strings.Join(sinks, ";"), segs, viol
}

func ywOpString(o ywOp, pre []byte) string {
	switch o.Kind {
	case 'w':
		return "w:" + vhlib.Hex(o.Data)
	case 'f':
		return fmt.Sprintf("f:%d", o.Mode)
	case 'R':
		return "R:" + vhlib.Hex(pre)
	}
	return "c"
}

// ywReplay: the stream on a Writer made by NewWriter.
func ywReplay(seg ywSeg) (per []string, final string, ok bool) {
	sink := newSink(0, seg.Pre)
	xw, err := xflate.NewWriter(sink, &xflate.WriterConfig{Level: seg.Cfg.Level, ChunkSize: seg.Cfg.ChunkSize, IndexSize: seg.Cfg.Index})
	if err != nil {
		return nil, "", false
	}
	for _, o := range seg.Ops {
		var n int
		var err error
		var pan bool
		switch o.Kind {
		case 'w':
			n, err, pan = ywCall(func() (int, error) { return xw.Write(o.Data) })
		case 'f':
			n, err, pan = ywCall(func() (int, error) { return 0, xw.Flush(xflate.FlushMode(o.Mode)) })
		case 'c':
			n, err, pan = ywCall(func() (int, error) { return 0, xw.Close() })
		}
		cls := vhlib.ErrClass(err)
		if pan {
			cls = "Panic"
		}
		nrecs, back, _ := xw.VerifIndexState()
		per = append(per, fmt.Sprintf("%d:%s:%d:%d:%d:%d:%d", n, cls, xw.InputOffset, xw.OutputOffset, len(sink.Bytes()), nrecs, back))
	}
	return per, hexDash(sink.Bytes()), true
}

func randYWOps(rng *rand.Rand, cfg xwCfg, n int) []ywOp {
	c := int(cfg.ChunkSize)
	if c <= 0 || c > 64 {
		c = 9
	}
	var ops []ywOp
	for i := 0; i < n; i++ {
		switch k := rng.Intn(20); {
		case k < 8:
			sz := []int{0, 1, 3, c - 1, c, c + 1, 2*c + 1, rng.Intn(40)}[rng.Intn(8)]
			if sz < 0 {
				sz = 0
			}
			ops = append(ops, ywOp{Kind: 'w', Data: vhlib.RandBytes(rng, sz)})
		case k < 10:
			ops = append(ops, ywOp{Kind: 'f', Mode: 0})
		case k < 12:
			ops = append(ops, ywOp{Kind: 'f', Mode: 1})
		case k < 14:
			ops = append(ops, ywOp{Kind: 'f', Mode: 2})
		case k < 15:
			ops = append(ops, ywOp{Kind: 'f', Mode: 3 + rng.Intn(3)})
		case k < 17:
			ops = append(ops, ywOp{Kind: 'c'})
		default:
			ops = append(ops, randYWReset(rng))
		}
	}
	return ops
}

func randYWReset(rng *rand.Rand) ywOp {
	o := ywOp{Kind: 'R', Sink: rng.Intn(3)}
	if rng.Intn(3) == 0 {
		o.Pre = vhlib.RandBytes(rng, 1+rng.Intn(9))
	}
	return o
}

func wxfWriterCase(r *vhlib.Run, m *vhlib.Model, bucket string, st ywStart, ops []ywOp) {
	args, obs, segs, viol := runYW(r, st, ops)
	r.Eval("writer:"+bucket, len(ops) > 1, []byte(strings.Join(args, " ")))
	replay := map[string]interface{}{"args": strings.Join(args, " ")}
	r.CaseLive(m, "xwr", args, obs)
	if viol != "" {
		r.Violate("abandoned-sink-written", viol, replay)
	}
	for i, seg := range segs {
		if !seg.Replayable {
			continue
		}
		per, final, ok := ywReplay(seg)
		if !ok {
			r.Violate("replay-refused", fmt.Sprintf("stream %d: NewWriter refused %+v", i, seg.Cfg), replay)
			continue
		}
		r.Hist["writer-streams-replayed"]++
		if strings.Join(per, ",") != strings.Join(seg.Per, ",") || final != seg.Final {
			r.Violate("writer-reset-differs-from-new", fmt.Sprintf("stream %d of the history: reset Writer %s|%s, new Writer %s|%s",
				i, strings.Join(seg.Per, ","), seg.Final, strings.Join(per, ","), final), replay)
		}
	}
}

func wxfWriters(r *vhlib.Run, m *vhlib.Model) {
	rng := r.Rng
	w := func(n int) ywOp { return ywOp{Kind: 'w', Data: vhlib.RandBytes(rng, n)} }
	f := func(md int) ywOp { return ywOp{Kind: 'f', Mode: md} }
	c := ywOp{Kind: 'c'}
	R := func(sink int, pre ...byte) ywOp { return ywOp{Kind: 'R', Sink: sink, Pre: pre} }
	new0 := func(l int, ch, ix int64) ywStart { return ywStart{Cfg: xwCfg{Level: l, ChunkSize: ch, Index: ix}} }
	// ---- directed histories
	wxfWriterCase(r, m, "after-close", new0(6, 8, 2), []ywOp{w(20), c, R(0), w(11), c, R(1), c})
	wxfWriterCase(r, m, "mid-chunk", new0(6, 16, -1), []ywOp{w(5), R(0), w(7), f(0), R(2), w(3), c})
	wxfWriterCase(r, m, "after-index-flush", new0(1, 4, 3), []ywOp{w(9), f(2), R(0), w(2), c, R(0), c})
	wxfWriterCase(r, m, "records-pending", new0(9, 4, 3), []ywOp{w(9), f(2), w(6), f(1), R(0), c, R(0), w(4), f(1), R(1), w(1), c})
	wxfWriterCase(r, m, "index-then-pending", new0(-1, 3, 2), []ywOp{w(7), w(4), R(0, 1, 2, 3), w(8), c})
	wxfWriterCase(r, m, "after-latched-closed", new0(6, 8, 2), []ywOp{w(3), c, w(2), f(1), c, R(0), w(3), f(2), c})
	wxfWriterCase(r, m, "invalid-flush", new0(6, 8, 2), []ywOp{w(3), f(7), R(0), f(3), w(2), c})
	wxfWriterCase(r, m, "same-sink", new0(5, 5, 1), []ywOp{w(12), c, R(2), w(12), c, R(2), c})
	wxfWriterCase(r, m, "prefilled-start", ywStart{Cfg: xwCfg{Level: 6, ChunkSize: 6, Index: 2}, Pre: []byte{9, 9, 9}, Sink: 1}, []ywOp{w(13), f(1), R(1, 7), w(2), c})
	wxfWriterCase(r, m, "defaults", new0(0, 0, 0), []ywOp{w(300), f(1), w(10), R(0), w(5), f(2), f(2), c, R(0), c})
	wxfWriterCase(r, m, "reset-only", new0(6, 8, 2), []ywOp{R(0), R(0), R(1), c})
	wxfWriterCase(r, m, "nothing", new0(6, 8, 2), nil)
	wxfWriterCase(r, m, "zero", ywStart{Zero: true}, []ywOp{w(0), f(3), w(2), f(0), f(1), f(2), c, R(0), w(5), f(1), w(2), c, R(0), c})
	wxfWriterCase(r, m, "zero", ywStart{Zero: true}, []ywOp{R(1, 4, 4), w(70), f(2), w(1), c})
	wxfWriterCase(r, m, "refused", new0(6, -1, 0), []ywOp{w(1)})
	wxfWriterCase(r, m, "refused", new0(10, 8, 0), []ywOp{w(1), c})
	wxfWriterCase(r, m, "refused", new0(-3, 8, 0), nil)
	// ---- random histories
	n := 140
	if !r.Quick() {
		n = 1500
	}
	for i := 0; i < n; i++ {
		st := ywStart{Cfg: randXWConfig(rng), Sink: rng.Intn(2)}
		if rng.Intn(5) == 0 {
			st.Pre = vhlib.RandBytes(rng, 1+rng.Intn(6))
		}
		bucket := "random"
		if rng.Intn(12) == 0 {
			st = ywStart{Zero: true}
			bucket = "random-zero"
		}
		ops := randYWOps(rng, st.Cfg, 4+rng.Intn(14))
		wxfWriterCase(r, m, bucket, st, ops)
	}
}

// ---- Reader ---------------------------------------------------------------------------------
type yrOp struct {
	Kind   byte // 's', 'r', 'c', 'R'
	Off    int64
	Whence int
	N      int
	Src    []byte
}

func (o yrOp) String() string {
	switch o.Kind {
	case 's':
		return fmt.Sprintf("s:%d:%d", o.Off, o.Whence)
	case 'r':
		return fmt.Sprintf("r:%d", o.N)
	case 'R':
		return "R:" + vhlib.Hex(o.Src)
	}
	return "c"
}

// failed Resets that left the decompressor object with a non-zero OutputOffset
var staleFailedResets int

// set by yrRun: index of the first call in which ONE Read call returned bytes together with an
// error other than io.EOF (-1: none). See wxfReaderCase.
var dataWithErrorAt int

func coalesceRanges(rs [][2]int64) string {
	var out [][2]int64
	for _, x := range rs {
		if x[1] == 0 {
			continue
		}
		if k := len(out) - 1; k >= 0 && out[k][0]+out[k][1] == x[0] {
			out[k][1] += x[1]
		} else {
			out = append(out, x)
		}
	}
	if len(out) == 0 {
		return "-"
	}
	var s []string
	for _, x := range out {
		s = append(s, fmt.Sprintf("%d+%d", x[0], x[1]))
	}
	return strings.Join(s, ";")
}

// yrRun drives ONE Reader object (xr) through ops. Returns per-call observations and, per call,
// the ranges read from the current source. hang: a Read did not return.
func yrRun(xr *xflate.Reader, cs *countingSeeker, ops []yrOp) (per []string, ranges [][][2]int64, hang bool, fine []string, full []string) {
	_, prevZo, _, hadZR := xr.VerifResetState()
	dataWithErrorAt = -1
	opIndex := -1
	for _, o := range ops {
		opIndex++
		before := 0
		if cs != nil {
			before = len(cs.Ranges)
		}
		var line string
		func() {
			defer func() {
				if p := recover(); p != nil {
					switch o.Kind {
					case 's':
						line = "s:0:Panic"
					case 'r':
						line = "r:-:Panic"
					case 'c':
						line = "c:Panic"
					default:
						line = "R:Panic:-"
					}
				}
			}()
			switch o.Kind {
			case 's':
				p, err := xr.Seek(o.Off, o.Whence)
				if err != nil {
					line = "s:0:" + vhlib.ErrClass(err)
				} else {
					line = fmt.Sprintf("s:%d:nil", p)
				}
			case 'r':
				var got []byte
				var rerr error
				calls := 0
				for {
					buf := make([]byte, o.N-len(got))
					n, err, hung, pan := yrRead(xr, buf)
					calls++
					if pan {
						line = "r:-:Panic"
						return
					}
					if hung {
						hang = true
						line = "r:-:hang"
						return
					}
					got = append(got, buf[:n]...)
					fine = append(fine, fmt.Sprintf("%d/%d:%s", n, len(buf), vhlib.ErrClass(err)))
					if n > 0 && err != nil && err != io.EOF && dataWithErrorAt < 0 {
						dataWithErrorAt = opIndex
					}
					if err != nil {
						rerr = err
						break
					}
					if len(got) >= o.N || calls > o.N+10 {
						break
					}
				}
				cls := "nil"
				if (len(got) < o.N || o.N == 0) && rerr != nil {
					cls = vhlib.ErrClass(rerr)
				}
				line = fmt.Sprintf("r:%s:%s", hexDash(got), cls)
			case 'c':
				line = "c:" + vhlib.ErrClass(xr.Close())
			case 'R':
				cs = &countingSeeker{R: bytes.NewReader(o.Src)}
				before = 0
				err := xr.Reset(cs)
				line = fmt.Sprintf("R:%s:%s", vhlib.ErrClass(err), coalesceRanges(cs.Ranges))
			}
		}()
		// internals (not part of the public observation): len(idx.Records) after a Reset, and the
		// OutputOffset of the decompressor object, which survives Reset
		_, zo, nrecs, has := xr.VerifResetState()
		fl := line
		if o.Kind == 'R' {
			fl += fmt.Sprintf(":%d", nrecs)
		}
		// the decompressor's OutputOffset: after a failed Reset "kept" if it is what it was before
		// the Reset (the object survives, and is not reset when the open phase fails); not
		// compared ("~", and no cursor fields) after a Seek/Read/Close that returned an error other
		// than io.EOF: how far the decompressor and the pending discard got when a Read fails is
		// not described by the Reader model (NOTES.md, findings 4 and 5)
		parts := strings.Split(line, ":")
		cls := parts[len(parts)-1]
		if o.Kind == 'R' {
			cls = parts[1]
		}
		switch {
		case !has:
			fl += "@-"
		case o.Kind == 'R' && cls != "nil" && hadZR && zo == prevZo:
			fl += "@kept"
		case o.Kind != 'R' && cls != "nil" && cls != "EOF":
			fl += "@~"
		default:
			fl += fmt.Sprintf("@%d", zo)
		}
		if o.Kind == 'R' && cls != "nil" && has && zo != 0 {
			staleFailedResets++
		}
		prevZo, hadZR = zo, has
		if !strings.HasSuffix(fl, "@~") {
			ri, off, disc, csz, rsz, typ := xr.VerifCursor()
			fl += fmt.Sprintf("/%d/%d/%d/%d/%d/%d", ri, off, disc, csz, rsz, typ)
		}
		full = append(full, fl)
		per = append(per, line)
		fine = append(fine, line)
		var rg [][2]int64
		if cs != nil {
			rg = append(rg, cs.Ranges[before:]...)
		}
		ranges = append(ranges, rg)
		if hang {
			return
		}
	}
	return
}

// yrRead: one Read, guarded against a Read that never returns and against a panic (which would
// otherwise end the goroutine of the guard).
func yrRead(rd io.Reader, buf []byte) (n int, err error, hung, panicked bool) {
	type res struct {
		n   int
		err error
		pan bool
	}
	ch := make(chan res, 1)
	go func() {
		defer func() {
			if p := recover(); p != nil {
				ch <- res{0, nil, true}
			}
		}()
		n, err := rd.Read(buf)
		ch <- res{n, err, false}
	}()
	select {
	case x := <-ch:
		return x.n, x.err, false, x.pan
	case <-time.After(10 * time.Second):
		return 0, nil, true, false
	}
}

func parseSpans(s string) []span {
	if s == "-" || s == "" {
		return nil
	}
	return parseLog(s)
}

func wxfReaderCase(r *vhlib.Run, m *vhlib.Model, bucket string, ops []yrOp) {
	var args []string
	for _, o := range ops {
		args = append(args, o.String())
	}
	r.Eval("reader:"+bucket, len(ops) > 1, []byte(strings.Join(args, " ")))
	replay := map[string]interface{}{"ops": strings.Join(args, " ")}
	per, ranges, hang, fine, full := yrRun(new(xflate.Reader), nil, ops)
	if hang {
		r.Violate("read-hangs", "a Read did not return within 10s", replay)
		return
	}
	// The real Reader acts on the final status of a chunk in the Read call in which the
	// decompressor hands over the last bytes together with that status - for chunks the Writer
	// makes that never coincides (the sync marker hands the data over first), for corrupt chunks
	// it can, and then the error is latched in the call that still returns data. The Reader model
	// (XFlate/Reader.v: z_joined, zr_status_now) does the same; such histories are compared with
	// the model in full (check WXRLATCH aims at them).
	if k := dataWithErrorAt; k >= 0 {
		r.Hist["reader:histories-with-a-read-that-returned-data-with-an-error"]++
		if n, _ := r.Notes["data-with-error-witnesses"].([]string); len(n) < 3 {
			r.Notes["data-with-error-witnesses"] = append(n, fmt.Sprintf("call %d of: %s", k, strings.Join(args, " ")))
		}
	}
	obs := "-"
	if len(full) > 0 {
		obs = strings.Join(full, ",")
	}
	r.CaseLive(m, "xrr", args, obs)
	// (3) what a Seek / Read fetches lies inside the chunks the model logs for that call (or the
	// chunk that was current before it)
	mlog := strings.Split(strings.TrimPrefix(m.Ask("x xrrlog "+strings.Join(args, " ")), "x "), ",")
	cops := ops[:len(args)] // the calls compared with the model
	if len(cops) == 0 {
	} else if len(mlog) == len(cops) {
		var cur []span // the last span logged for the current source
		for i, o := range cops {
			fresh := parseSpans(mlog[i])
			if o.Kind != 'R' {
				ctx := append(append([]span{}, fresh...), cur...)
				for _, rg := range ranges[i] {
					if !covered(rg[0], rg[1], append([]span{}, ctx...)) {
						r.Violate("reads-outside-logged-chunks", fmt.Sprintf("call %d (%s) fetched %d+%d", i, o, rg[0], rg[1]), replay)
						break
					}
				}
			} else {
				cur = nil
			}
			if len(fresh) > 0 {
				cur = fresh[len(fresh)-1:]
			}
		}
	} else {
		r.Violate("model-log", fmt.Sprintf("xrrlog gave %d entries for %d calls", len(mlog), len(cops)), replay)
	}
	// (1) every stream of the history on a Reader made by NewReader
	for i := 0; i < len(ops); i++ {
		if ops[i].Kind != 'R' {
			continue
		}
		j := i + 1
		for j < len(ops) && ops[j].Kind != 'R' {
			j++
		}
		func() {
			defer func() {
				if p := recover(); p != nil {
					r.Violate("reader-new-panics", fmt.Sprint(p), replay)
				}
			}()
			cs := &countingSeeker{R: bytes.NewReader(ops[i].Src)}
			xr, err := xflate.NewReader(cs, nil)
			first := fmt.Sprintf("R:%s:%s", vhlib.ErrClass(err), coalesceRanges(cs.Ranges))
			per2, ranges2, _, fine2, _ := yrRun(xr, cs, ops[i+1:j])
			// ... and what each call fetches from the source
			for k := range ranges2 {
				if coalesceRanges(ranges2[k]) != coalesceRanges(ranges[i+1+k]) {
					r.Violate("reader-reset-differs-from-new-io", fmt.Sprintf("call %d (%s): reset Reader fetched %s, new Reader %s",
						i+1+k, ops[i+1+k], coalesceRanges(ranges[i+1+k]), coalesceRanges(ranges2[k])), replay)
					break
				}
			}
			got := strings.Join(append([]string{first}, per2...), ",")
			want := strings.Join(per[i:j], ",")
			// the same at the granularity of single Read calls (how many bytes each returned)
			fineWant := fineFrom(fine, per, i, j)
			if strings.Join(fine2, ",") != fineWant {
				r.Violate("reader-reset-differs-from-new-per-call", fmt.Sprintf("stream starting at call %d: reset Reader %s, new Reader %s", i, fineWant, strings.Join(fine2, ",")), replay)
			}
			r.Hist["reader-streams-replayed"]++
			if got != want {
				r.Violate("reader-reset-differs-from-new", fmt.Sprintf("stream starting at call %d: reset Reader %s, new Reader %s", i, want, got), replay)
			}
		}()
	}
}

// fineFrom: the part of the per-Read-call trace that belongs to calls i+1 .. j-1. The trace holds,
// for every call, its Read calls (if any) followed by the call's own observation line.
func fineFrom(fine, per []string, i, j int) string {
	k := 0
	start, end := -1, len(fine)
	for idx, line := range fine {
		if k < len(per) && line == per[k] && !strings.Contains(line, "/") {
			if k == i {
				start = idx + 1
			}
			if k == j-1 {
				end = idx + 1
			}
			k++
		}
	}
	if start < 0 || start > end {
		return "?"
	}
	return strings.Join(fine[start:end], ",")
}

type yrStream struct {
	Name        string
	Sink, Plain []byte
	Chunk       int
	Valid       bool
}

func wxfStreams(rng *rand.Rand) []yrStream {
	var out []yrStream
	add := func(name string, cfg xwCfg, ops []xwOp) {
		sink, plain, ok := makeXFStream(cfg, ops)
		if ok {
			out = append(out, yrStream{name, sink, plain, int(cfg.ChunkSize), true})
		}
	}
	w := func(n int) xwOp { return xwOp{Kind: 'w', Data: vhlib.RandBytes(rng, n)} }
	f := func(m int) xwOp { return xwOp{Kind: 'f', Mode: m} }
	c := xwOp{Kind: 'c'}
	add("two-indexes", xwCfg{Level: 6, ChunkSize: 8, Index: -1}, []xwOp{w(8), f(1), f(1), w(5), f(2), w(8), w(3), f(0), w(2), c})
	add("chain", xwCfg{Level: -1, ChunkSize: 3, Index: 1}, []xwOp{w(10), c})
	add("empty", xwCfg{Level: 6}, []xwOp{c})
	add("single", xwCfg{Level: 9, ChunkSize: 100, Index: 3}, []xwOp{w(37), c})
	add("many", xwCfg{Level: 1, ChunkSize: 5, Index: 3}, []xwOp{w(64), c})
	// streams that begin with empty chunks: several records have raw offset 0, so a record cursor
	// (xr.ri) left over from the previous stream would be accepted by Seek(0) and start elsewhere
	add("leading-empty", xwCfg{Level: 6, ChunkSize: 8, Index: -1}, []xwOp{f(1), f(1), f(1), w(13), f(1), f(1), w(3), c})
	add("all-empty", xwCfg{Level: 6, ChunkSize: 8, Index: 2}, []xwOp{f(1), f(1), f(1), f(1), f(1), c})
	for i := 0; i < 3; i++ {
		add(fmt.Sprintf("random%d", i), randXWConfig(rng), randXWOps(rng, 3+rng.Intn(10), 30))
	}
	valid := append([]yrStream{}, out...)
	// corrupt sources
	for _, v := range valid {
		if len(v.Sink) == 0 {
			continue
		}
		mut := func(name string, b []byte) {
			out = append(out, yrStream{v.Name + "/" + name, b, nil, v.Chunk, false})
		}
		cp := func() []byte { return append([]byte{}, v.Sink...) }
		b := cp()
		b[len(b)-1-rng.Intn(min(len(b), 12))] ^= byte(1 << uint(rng.Intn(8)))
		mut("footer-bit", b)
		b = cp()
		b[rng.Intn(len(b))] ^= byte(1 + rng.Intn(255))
		mut("any-byte", b)
		if len(v.Sink) > 30 {
			b = cp()
			b[len(b)-14-rng.Intn(16)] ^= byte(1 + rng.Intn(255))
			mut("index-byte", b)
			b = cp()
			b[rng.Intn(8)] ^= byte(1 + rng.Intn(255))
			mut("chunk-byte", b)
		}
		mut("cut-tail", cp()[:len(v.Sink)-1-rng.Intn(min(len(v.Sink)-1, 10)+1)])
		mut("cut-head", cp()[1+rng.Intn(min(len(v.Sink)-1, 10)+1):])
		mut("garbage-after", append(cp(), vhlib.RandBytes(rng, 1+rng.Intn(5))...))
	}
	out = append(out, yrStream{"no-bytes", nil, nil, 8, false})
	out = append(out, yrStream{"noise", vhlib.RandBytes(rng, 1+rng.Intn(90)), nil, 8, false})
	return out
}

func randYROps(rng *rand.Rand, streams []yrStream, n int) []yrOp {
	var ops []yrOp
	var cur *yrStream
	pick := func() yrOp {
		cur = &streams[rng.Intn(len(streams))]
		if rng.Intn(3) > 0 { // two out of three Resets go onto a valid stream
			for !cur.Valid {
				cur = &streams[rng.Intn(len(streams))]
			}
		}
		return yrOp{Kind: 'R', Src: cur.Sink}
	}
	if rng.Intn(4) > 0 {
		ops = append(ops, pick())
	}
	for len(ops) < n {
		plen, chunk := 20, 8
		if cur != nil {
			plen = len(cur.Plain)
			if cur.Chunk > 0 && cur.Chunk < 200 {
				chunk = cur.Chunk
			}
		}
		switch k := rng.Intn(20); {
		case k < 7:
			sz := []int{0, 1, chunk - 1, chunk + 1, 3, plen + 3, rng.Intn(plen + 2)}[rng.Intn(7)]
			ops = append(ops, yrOp{Kind: 'r', N: sz})
		case k < 13:
			wh := rng.Intn(3)
			off := int64(rng.Intn(plen+7)) - 2
			switch wh {
			case 1:
				off = int64(rng.Intn(2*chunk+3)) - int64(chunk)
			case 2:
				off = -int64(rng.Intn(plen + 3))
			}
			if rng.Intn(15) == 0 {
				wh = 3 + rng.Intn(3)
			}
			if rng.Intn(25) == 0 {
				off = 1 << 40
			}
			ops = append(ops, yrOp{Kind: 's', Off: off, Whence: wh})
		case k < 15:
			ops = append(ops, yrOp{Kind: 'c'})
		default:
			ops = append(ops, pick())
		}
	}
	return ops
}

func wxfReaders(r *vhlib.Run, m *vhlib.Model) {
	rng := r.Rng
	streams := wxfStreams(rng)
	byName := func(n string) []byte {
		for _, s := range streams {
			if s.Name == n {
				return s.Sink
			}
		}
		return nil
	}
	R := func(n string) yrOp { return yrOp{Kind: 'R', Src: byName(n)} }
	s := func(off int64, wh int) yrOp { return yrOp{Kind: 's', Off: off, Whence: wh} }
	rd := func(n int) yrOp { return yrOp{Kind: 'r', N: n} }
	c := yrOp{Kind: 'c'}
	// ---- directed histories
	wxfReaderCase(r, m, "zero", []yrOp{rd(0), s(-1, 0), s(0, 5), s(0, 0), rd(3), c, s(0, 0), rd(1), c, R("single"), rd(40)})
	wxfReaderCase(r, m, "zero-closed-then-reset", []yrOp{c, R("two-indexes"), rd(5), s(0, 2), rd(1)})
	wxfReaderCase(r, m, "other-valid", []yrOp{R("two-indexes"), rd(30), R("chain"), rd(4), s(7, 0), rd(9), R("empty"), rd(1), R("many"), s(-3, 2), rd(9)})
	wxfReaderCase(r, m, "mid-chunk-pending-discard", []yrOp{R("many"), s(7, 0), R("many"), rd(2), s(3, 1), R("single"), rd(3), s(20, 0), s(25, 0), R("chain"), rd(10)})
	wxfReaderCase(r, m, "after-eof", []yrOp{R("chain"), rd(50), rd(1), R("chain"), rd(50), s(0, 0), rd(2)})
	wxfReaderCase(r, m, "after-close", []yrOp{R("single"), rd(4), c, rd(1), s(0, 0), c, R("single"), rd(4), c, R("empty"), c})
	wxfReaderCase(r, m, "onto-corrupt", []yrOp{R("single"), rd(4), R("single/footer-bit"), rd(1), s(0, 0), c, R("single"), rd(4), R("no-bytes"), rd(0), c, R("noise"), s(0, 1), R("many"), rd(70)})
	wxfReaderCase(r, m, "after-read-error", []yrOp{R("many/chunk-byte"), rd(70), rd(1), s(0, 0), c, R("many"), rd(70), R("two-indexes/chunk-byte"), rd(30), R("two-indexes"), rd(30)})
	wxfReaderCase(r, m, "corrupt-after-corrupt", []yrOp{R("chain/cut-tail"), R("chain/cut-head"), R("chain/garbage-after"), R("chain/index-byte"), R("chain"), rd(11)})
	wxfReaderCase(r, m, "onto-leading-empty", []yrOp{R("many"), s(33, 0), rd(2), R("leading-empty"), rd(5), s(0, 0), rd(16), R("many"), rd(64), R("all-empty"), rd(1), s(0, 0), R("many"), s(20, 0), R("leading-empty"), rd(1)})
	wxfReaderCase(r, m, "nothing", nil)
	// the witness of xr_reset_equal_state_refuted (coq/XFlate/ResetThms.v): Witness.w_stream with
	// byte 25 zeroed; 10 bytes, then 9 more and Corrupted inside the second chunk; Reset onto an
	// empty source fails and leaves the decompressor object with OutputOffset 3
	{
		w := []byte{74, 76, 74, 78, 73, 77, 75, 207, 200, 204, 202, 206, 201, 205, 203, 47, 0, 0, 0, 0, 255, 255, 42, 44, 42, 46, 41, 45, 43, 175, 168, 172, 50, 48, 52, 50, 54, 49, 5, 0, 0, 0, 255, 255, 50, 51, 183, 176, 116, 116, 114, 118, 1, 0, 0, 0, 255, 255, 28, 128, 134, 5, 128, 68, 101, 83, 118, 42, 43, 161, 100, 103, 148, 236, 140, 202, 206, 42, 21, 18, 74, 133, 230, 211, 237, 189, 7, 252, 21, 192, 134, 5, 0, 32, 33, 171, 68, 33, 123, 52, 254, 255, 172, 189, 119, 248}
		bad := append([]byte{}, w...)
		bad[25] = 0
		ops := []yrOp{{Kind: 'R', Src: bad}, rd(10), rd(20), {Kind: 'R', Src: nil}, rd(1), {Kind: 'R', Src: w}, rd(41)}
		wxfReaderCase(r, m, "witness", ops)
		xr := new(xflate.Reader)
		per, _, _, _, _ := yrRun(xr, nil, ops[:4])
		_, zo, _, _ := xr.VerifResetState()
		r.Notes["witness-failed-reset"] = map[string]interface{}{"calls": strings.Join(per, ","), "decompressor OutputOffset after the failed Reset": zo}
	}
	// ---- random histories
	n := 220
	if !r.Quick() {
		n = 2500
	}
	for i := 0; i < n; i++ {
		if !r.Quick() && i%200 == 199 {
			streams = wxfStreams(rng)
		}
		wxfReaderCase(r, m, "random", randYROps(rng, streams, 3+rng.Intn(12)))
	}
}

// ---- after I/O errors (implementation only: the models have infallible sinks and sources) -----
type failSink struct {
	left int
	n    int
}

func (f *failSink) Write(d []byte) (int, error) {
	if len(d) > f.left {
		n := f.left
		f.left = 0
		f.n += n
		return n, io.ErrClosedPipe
	}
	f.left -= len(d)
	f.n += len(d)
	return len(d), nil
}

type failSource struct {
	R                *bytes.Reader
	readsLeft, seeks int
}

func (f *failSource) Read(p []byte) (int, error) {
	if f.readsLeft <= 0 {
		return 0, io.ErrClosedPipe
	}
	f.readsLeft--
	return f.R.Read(p)
}
func (f *failSource) Seek(off int64, wh int) (int64, error) {
	if f.seeks <= 0 {
		return 0, io.ErrClosedPipe
	}
	f.seeks--
	return f.R.Seek(off, wh)
}

// A Writer whose sink failed (error latched in the Writer, in the compressor and possibly in the
// meta encoder) and a Reader whose source failed (while opening, or later) are Reset onto a
// working sink / source: observed like a new one.
func wxfAfterIOErrors(r *vhlib.Run) {
	rng := r.Rng
	n := 60
	if !r.Quick() {
		n = 600
	}
	for i := 0; i < n; i++ {
		cfg := randXWConfig(rng)
		fs := &failSink{left: rng.Intn(120)}
		xw, err := xflate.NewWriter(fs, &xflate.WriterConfig{Level: cfg.Level, ChunkSize: cfg.ChunkSize, IndexSize: cfg.Index})
		if err != nil {
			continue
		}
		failed := false
		var hist []string
		for _, o := range randYWOps(rng, cfg, 3+rng.Intn(10)) {
			var e error
			switch o.Kind {
			case 'w':
				_, e, _ = ywCall(func() (int, error) { return xw.Write(o.Data) })
			case 'f':
				_, e, _ = ywCall(func() (int, error) { return 0, xw.Flush(xflate.FlushMode(o.Mode)) })
			case 'c':
				_, e, _ = ywCall(func() (int, error) { return 0, xw.Close() })
			default:
				continue
			}
			hist = append(hist, ywOpString(o, nil)+"="+vhlib.ErrClass(e))
			if e == io.ErrClosedPipe {
				failed = true
			}
		}
		seg := ywSeg{Replayable: true, Cfg: cfg, Ops: randYWOps(rng, cfg, 3+rng.Intn(8))}
		var ops2 []ywOp
		for _, o := range seg.Ops {
			if o.Kind != 'R' {
				ops2 = append(ops2, o)
			}
		}
		seg.Ops = ops2
		good := newSink(0, nil)
		xw.Reset(good)
		var per []string
		for _, o := range seg.Ops {
			var nn int
			var e error
			var pan bool
			switch o.Kind {
			case 'w':
				nn, e, pan = ywCall(func() (int, error) { return xw.Write(o.Data) })
			case 'f':
				nn, e, pan = ywCall(func() (int, error) { return 0, xw.Flush(xflate.FlushMode(o.Mode)) })
			case 'c':
				nn, e, pan = ywCall(func() (int, error) { return 0, xw.Close() })
			}
			cls := vhlib.ErrClass(e)
			if pan {
				cls = "Panic"
			}
			nrecs, back, _ := xw.VerifIndexState()
			per = append(per, fmt.Sprintf("%d:%s:%d:%d:%d:%d:%d", nn, cls, xw.InputOffset, xw.OutputOffset, len(good.Bytes()), nrecs, back))
		}
		bucket := "writer:after-sink-error(impl only)"
		if !failed {
			bucket = "writer:sink-did-not-fail(impl only)"
		}
		r.Eval(bucket, true, []byte(fmt.Sprint(cfg, hist, per)))
		per2, final2, ok := ywReplay(seg)
		if !ok || strings.Join(per, ",") != strings.Join(per2, ",") || hexDash(good.Bytes()) != final2 {
			r.Violate("writer-reset-after-sink-error-differs-from-new", fmt.Sprintf("reset %s, new %s", strings.Join(per, ","), strings.Join(per2, ",")),
				map[string]interface{}{"cfg": fmt.Sprint(cfg), "before": hist})
		}
	}
	streams := wxfStreams(rng)
	for i := 0; i < n; i++ {
		st := streams[rng.Intn(len(streams))]
		for !st.Valid {
			st = streams[rng.Intn(len(streams))]
		}
		src := &failSource{R: bytes.NewReader(st.Sink), readsLeft: rng.Intn(6), seeks: rng.Intn(12)}
		xr := new(xflate.Reader)
		var hist []string
		func() {
			defer func() {
				if p := recover(); p != nil {
					hist = append(hist, "panic")
				}
			}()
			err := xr.Reset(src)
			hist = append(hist, "R="+vhlib.ErrClass(err))
			buf := make([]byte, 1+rng.Intn(40))
			_, err = xr.Seek(int64(rng.Intn(len(st.Plain)+2)), 0)
			hist = append(hist, "s="+vhlib.ErrClass(err))
			_, err = io.ReadFull(xr, buf)
			hist = append(hist, "r="+vhlib.ErrClass(err))
		}()
		var ops []yrOp
		for _, o := range randYROps(rng, streams, 3+rng.Intn(8)) {
			if o.Kind != 'R' {
				ops = append(ops, o)
			}
		}
		tgt := streams[rng.Intn(len(streams))]
		ops = append([]yrOp{{Kind: 'R', Src: tgt.Sink}}, ops...)
		per, _, hang, fine, _ := yrRun(xr, nil, ops)
		r.Eval("reader:after-source-error(impl only)", true, []byte(fmt.Sprint(st.Name, hist, per)))
		if hang {
			r.Violate("read-hangs", "after a source error and Reset", nil)
			continue
		}
		per2, _, _, fine2, _ := yrRun(new(xflate.Reader), nil, ops)
		if strings.Join(per, ",") != strings.Join(per2, ",") || strings.Join(fine, ",") != strings.Join(fine2, ",") {
			r.Violate("reader-reset-after-source-error-differs-from-new", fmt.Sprintf("reset %s, new %s", strings.Join(fine, ","), strings.Join(fine2, ",")),
				map[string]interface{}{"before": hist, "stream": st.Name})
		}
	}
}

func runWXFReset(r *vhlib.Run) {
	m := vhlib.StartModel()
	defer m.Close()
	wxfWriters(r, m)
	wxfReaders(r, m)
	wxfAfterIOErrors(r)
	r.Notes["failed-resets-leaving-stale-decompressor-offsets"] = staleFailedResets
}
