package main

import (
	"bytes"
	"fmt"
	"io"
	"math/rand"
	"strings"
	"time"

	"github.com/dsnet/compress/xflate"
	"github.com/dsnet/compress/xflate/verifharness/vhlib"
)

// xwOp: one call on an xflate.Writer
type xwOp struct {
	Kind byte // 'w', 'f', 'c', 'o' (assign the exported statistics fields)
	Data []byte
	Mode int
}

func (o xwOp) String() string {
	switch o.Kind {
	case 'w':
		return "w:" + vhlib.Hex(o.Data)
	case 'f':
		return fmt.Sprintf("f:%d", o.Mode)
	case 'o':
		return fmt.Sprintf("o:%d", o.Mode)
	}
	return "c"
}

type xwCfg struct {
	Level            int
	ChunkSize, Index int64
}

type xwResult struct {
	NewErr        string
	PerOp         []string
	Sink          []byte
	In, Out       int64
	Panic         string
	Written       []byte // concatenation of accepted writes
	FlushAt       []int  // sink length after each successful flush (any mode)
	FlushIn       []int  // bytes written before that flush
	InAdj, OutAdj int64  // what the caller added to InputOffset / OutputOffset by assigning them
	SetOffsets    bool
}

// runXW drives a real xflate.Writer. sink==nil uses a plain buffer.
var xwCopyTurn int

// runXW runs the history under a watchdog: a Writer call that does not return within 30 s ends the
// history with Panic = "hang: ..." (the stuck goroutine is abandoned; after two such histories the
// rest are skipped the same way).
func runXW(cfg xwCfg, ops []xwOp, sink io.Writer, buf *bytes.Buffer) (res xwResult) {
	if xwHangs >= 2 {
		return xwResult{NewErr: "nil", Panic: "hang: skipped after two histories that did not return"}
	}
	done := make(chan xwResult, 1)
	go func() { done <- runXW0(cfg, ops, sink, buf) }()
	select {
	case res = <-done:
		return res
	case <-time.After(30 * time.Second):
		xwHangs++
		return xwResult{NewErr: "nil", Panic: "hang: an xflate.Writer call did not return within 30 s"}
	}
}

var xwHangs int

func runXW0(cfg xwCfg, ops []xwOp, sink io.Writer, buf *bytes.Buffer) (res xwResult) {
	defer func() {
		if p := recover(); p != nil {
			res.Panic = fmt.Sprint(p)
		}
	}()
	if sink == nil {
		sink = buf
	}
	xw, err := xflate.NewWriter(sink, &xflate.WriterConfig{Level: cfg.Level, ChunkSize: cfg.ChunkSize, IndexSize: cfg.Index})
	res.NewErr = vhlib.ErrClass(err)
	if err != nil {
		return
	}
	for _, o := range ops {
		switch o.Kind {
		case 'w':
			var n int
			var err error
			xwCopyTurn++
			if xwCopyTurn%3 == 0 && len(o.Data) > 0 && len(o.Data) < 30000 {
				// the same bytes handed over through io.Copy from a source that returns its last bytes
				// together with io.EOF (as decompressors and HTTP bodies do): io.Copy discovers an
				// io.ReaderFrom on the Writer if it has one; otherwise this is one Write call
				var c int64
				c, err = io.Copy(xw, &vhlib.ReadOnly{B: o.Data, WithEOF: true})
				n = int(c)
			} else {
				n, err = xw.Write(o.Data)
			}
			res.PerOp = append(res.PerOp, fmt.Sprintf("%d:%s", n, vhlib.ErrClass(err)))
			if n > 0 && n <= len(o.Data) {
				res.Written = append(res.Written, o.Data[:n]...)
			}
		case 'f':
			err := xw.Flush(xflate.FlushMode(o.Mode))
			res.PerOp = append(res.PerOp, fmt.Sprintf("0:%s", vhlib.ErrClass(err)))
			if err == nil && buf != nil {
				res.FlushAt = append(res.FlushAt, buf.Len())
				res.FlushIn = append(res.FlushIn, len(res.Written))
			}
		case 'c':
			err := xw.Close()
			res.PerOp = append(res.PerOp, fmt.Sprintf("0:%s", vhlib.ErrClass(err)))
		case 'o':
			// "It is safe to set these values to any arbitrary value" (writer.go)
			res.InAdj += int64(o.Mode) - xw.InputOffset
			res.OutAdj += int64(o.Mode) - xw.OutputOffset
			xw.InputOffset, xw.OutputOffset = int64(o.Mode), int64(o.Mode)
			res.PerOp = append(res.PerOp, "0:nil")
			res.SetOffsets = true
		}
		res.In, res.Out = xw.InputOffset, xw.OutputOffset
	}
	if buf != nil {
		res.Sink = append([]byte{}, buf.Bytes()...)
	}
	return
}

func (r xwResult) Obs() string {
	if r.NewErr != "nil" {
		return "new:refused"
	}
	if r.Panic != "" {
		return "panic"
	}
	po := strings.Join(r.PerOp, ",")
	if po == "" {
		po = "-"
	}
	return fmt.Sprintf("%s|%d|%d|%s", po, r.In, r.Out, vhlib.Hex(r.Sink))
}

func xwArgs(cfg xwCfg, ops []xwOp) []string {
	a := []string{fmt.Sprint(cfg.Level), fmt.Sprint(cfg.ChunkSize), fmt.Sprint(cfg.Index)}
	for _, o := range ops {
		a = append(a, o.String())
	}
	return a
}

// opAlphabet: the boundary-value alphabet for a given chunk size
func xwAlphabet(rng *rand.Rand, chunk int64) []xwOp {
	c := int(chunk)
	if c <= 0 || c > 64 {
		c = 9
	}
	mk := func(n int) xwOp { return xwOp{Kind: 'w', Data: vhlib.RandBytes(rng, n)} }
	return []xwOp{
		{Kind: 'w'}, mk(1), mk(3), mk(c), mk(c + 1),
		{Kind: 'f', Mode: 0}, {Kind: 'f', Mode: 1}, {Kind: 'f', Mode: 2}, {Kind: 'f', Mode: 3},
	}
}

func randXWConfig(rng *rand.Rand) xwCfg {
	return xwCfg{
		Level:     []int{-2, -1, 0, 1, 5, 6, 9}[rng.Intn(7)],
		ChunkSize: []int64{1, 2, 7, 16, 100, 0}[rng.Intn(6)],
		Index:     []int64{-1, 1, 2, 3, 0}[rng.Intn(5)],
	}
}

func randXWOps(rng *rand.Rand, n int, maxw int) []xwOp {
	var ops []xwOp
	for i := 0; i < n; i++ {
		switch rng.Intn(10) {
		case 0:
			ops = append(ops, xwOp{Kind: 'f', Mode: 0})
		case 1:
			ops = append(ops, xwOp{Kind: 'f', Mode: 1})
		case 2:
			ops = append(ops, xwOp{Kind: 'f', Mode: 2})
		case 3:
			ops = append(ops, xwOp{Kind: 'w'})
		default:
			ops = append(ops, xwOp{Kind: 'w', Data: vhlib.RandBytes(rng, rng.Intn(maxw+1))})
		}
	}
	return append(ops, xwOp{Kind: 'c'})
}

// makeXFStream writes a stream and returns (sink, plaintext).
func makeXFStream(cfg xwCfg, ops []xwOp) ([]byte, []byte, bool) {
	var bb bytes.Buffer
	res := runXW(cfg, ops, nil, &bb)
	ok := res.NewErr == "nil" && res.Panic == "" && len(res.PerOp) > 0 && strings.HasSuffix(res.PerOp[len(res.PerOp)-1], ":nil")
	return res.Sink, res.Written, ok
}
