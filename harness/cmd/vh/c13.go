package main

import (
	"bytes"
	"fmt"
	"io"
	"math/rand"
	"strings"
	"time"

	"github.com/dsnet/compress/xflate"
	"github.com/dsnet/compress/xflate/verifharness/vhlib"
)

func init() { props["C13"] = runC13 }

type wTrace struct {
	Rets      []string // per op: "n:class"
	Errs      []error
	Ns        []int
	Panic     string
	In, Out   int64
	InAfter   []int64
	OutAft    []int64
	SinkAft   []int
	WritesAft []int // number of sink Write calls made after each op
}

// runWriter runs the history under a watchdog: a call that does not return within 20 s is reported
// through Panic ("hang: ..."); the stuck goroutine is abandoned.
func runWriter(wc wcodec, sink *faultSink, ops []wOp) (t wTrace) {
	if writerHangs >= 2 {
		t.Panic = "hang: skipped after two histories that did not return"
		t.Errs = make([]error, len(ops))
		t.Ns = make([]int, len(ops))
		return
	}
	done := make(chan wTrace, 1)
	go func() { done <- runWriter0(wc, sink, ops) }()
	select {
	case t = <-done:
		return t
	case <-time.After(20 * time.Second):
		writerHangs++
		t.Panic = "hang: a Writer call did not return within 20 s"
		t.Errs = make([]error, len(ops))
		t.Ns = make([]int, len(ops))
		return t
	}
}

var writerHangs int

func runWriter0(wc wcodec, sink *faultSink, ops []wOp) (t wTrace) {
	defer func() {
		if p := recover(); p != nil {
			t.Panic = fmt.Sprint(p)
		}
	}()
	w := wc.New(sink)
	for _, o := range ops {
		var n int
		var err error
		switch o.Kind {
		case 'w':
			n, err = w.Write(o.Data)
		case 'f':
			var ok bool
			err, ok = w.Flush(o.Mode)
			if !ok {
				err = nil
			}
		case 'c':
			err = w.Close()
		}
		t.Rets = append(t.Rets, fmt.Sprintf("%d:%s", n, vhlib.ErrClass(err)))
		t.Errs = append(t.Errs, err)
		t.Ns = append(t.Ns, n)
		in, out := w.Offsets()
		t.InAfter = append(t.InAfter, in)
		t.OutAft = append(t.OutAft, out)
		t.SinkAft = append(t.SinkAft, sink.Buf.Len())
		t.WritesAft = append(t.WritesAft, len(sink.Sizes))
	}
	return
}

func c13Schedule(rng *rand.Rand, wc wcodec, big bool) []wOp {
	var ops []wOp
	n := 2 + rng.Intn(6)
	for i := 0; i < n; i++ {
		sz := rng.Intn(40)
		if big && rng.Intn(3) == 0 {
			sz = 2000 + rng.Intn(3000)
		}
		ops = append(ops, wOp{Kind: 'w', Data: vhlib.RandBytes(rng, sz)})
		if wc.Name == "xflate" && rng.Intn(3) == 0 {
			ops = append(ops, wOp{Kind: 'f', Mode: rng.Intn(3)})
		}
	}
	return append(ops, wOp{Kind: 'c'})
}

func runC13(r *vhlib.Run) {
	rng := r.Rng
	// the bit writer under every Writer: prefix.Writer against its implementation-level model
	// (Prefix/WriterImpl.v) over scripted sinks that fail with short counts, once or permanently
	runWBITW(r)
	// bzip2.Writer and meta.Writer themselves against their implementation-level models over the
	// same scripted failing sinks, per call (Bzip2/WriterImpl.v, Meta/WriterImpl.v)
	runWBZW(r)
	runWMETAW(r)
	// corpus of known finding D13: the sink is itself a CLOSED Writer of the same type; its error is the
	// package's own "closed" sentinel, which the outer Writer latches verbatim - and then takes for its
	// own closed state: the first Close reports the error, the second one nil
	for _, wc := range wcodecs() {
		var bb bytes.Buffer
		inner := wc.New(&bb)
		inner.Close()
		outer := wc.New(inner)
		outer.Write([]byte("hello"))
		c1 := outer.Close()
		c2 := outer.Close()
		r.Eval("fault:closed-writer-as-sink:"+wc.Name, true, []byte(wc.Name))
		if c1 != nil && c2 == nil {
			r.Violate("sink-error-is-own-closed-sentinel", fmt.Sprintf("%s.Writer over a closed %s.Writer: Close returned %v, the next Close nil", wc.Name, wc.Name, c1),
				map[string]interface{}{"writer": wc.Name, "sink": "a closed Writer of the same type", "ops": []string{"Write(hello)", "Close", "Close"}})
		} else if c1 == nil {
			r.Violate("close-false-success", wc.Name+": Close over a closed Writer of the same type returned nil", map[string]interface{}{"writer": wc.Name, "sink": "a closed Writer of the same type"})
		}
	}
	nsched := 6
	if !r.Quick() {
		nsched = 60
	}
	// XFLATE with chunks of 100000 bytes: the compressor below it hands 64 KiB blocks to the
	// sink from inside Write, so that a sink failure can surface in Write and not only in a Flush
	bigLevel := 6
	wcs := append(wcodecs(), wcodec{Name: "xflate", Big: true,
		New: func(s io.Writer) wrt {
			w, _ := xflate.NewWriter(s, &xflate.WriterConfig{Level: bigLevel, ChunkSize: 100000, IndexSize: 3})
			return xfW{w}
		},
		Decode: func(sink []byte) ([]byte, bool) {
			out, cls, used := stdInflateObs(sink)
			return out, cls == "nil" && used == len(sink)
		}})
	for _, wc := range wcs {
		for si := 0; si < nsched; si++ {
			ops := c13Schedule(rng, wc, si%3 == 2)
			if wc.Big {
				if si >= 1 && r.Quick() || si >= 8 {
					break
				}
				ops = nil
				bigLevel = []int{1, 0, 6}[si%3]
				for k := 1 + rng.Intn(3); k > 0; k-- {
					ops = append(ops, wOp{Kind: 'w', Data: vhlib.RandBytes(rng, 60000+rng.Intn(160000))})
					if rng.Intn(3) == 0 {
						ops = append(ops, wOp{Kind: 'f', Mode: rng.Intn(3)})
					}
				}
				ops = append(ops, wOp{Kind: 'c'})
			}
			// fault-free run
			free := &faultSink{At: -1}
			ft := runWriter(wc, free, ops)
			good := free.Buf.Bytes()
			if ft.Panic != "" || ft.Errs[len(ft.Errs)-1] != nil {
				r.Violate("fault-free-run-failed", wc.Name+": "+fmt.Sprint(ft.Rets), map[string]interface{}{"ops": wOpsStrings(ops)})
				continue
			}
			var accepted []byte
			for _, o := range ops {
				if o.Kind == 'w' {
					accepted = append(accepted, o.Data...)
				}
			}
			if plain, ok := wc.Decode(good); !ok || !bytes.Equal(plain, accepted) {
				r.Violate("fault-free-not-decodable", wc.Name, map[string]interface{}{"ops": wOpsStrings(ops)})
				continue
			}
			// after every call InputOffset / OutputOffset
			acc := int64(0)
			for i, o := range ops {
				if o.Kind == 'w' {
					acc += int64(ft.Ns[i])
				}
				if ft.InAfter[i] != acc || ft.OutAft[i] != int64(ft.SinkAft[i]) {
					r.Violate("writer-offsets", fmt.Sprintf("%s op %d: in=%d/%d out=%d/%d", wc.Name, i, ft.InAfter[i], acc, ft.OutAft[i], ft.SinkAft[i]),
						map[string]interface{}{"ops": wOpsStrings(ops)})
					break
				}
			}
			// fault positions
			var positions []int
			if len(good) <= 1500 || !r.Quick() && len(good) <= 20000 {
				for p := 0; p <= len(good); p++ {
					positions = append(positions, p)
				}
			} else {
				for _, b := range ft.SinkAft {
					for d := -2; d <= 2; d++ {
						if b+d >= 0 && b+d <= len(good) {
							positions = append(positions, b+d)
						}
					}
				}
				// every boundary between two sink calls of the fault-free run
				cum := 0
				for _, sz := range free.Sizes {
					if !wc.Big {
						break
					}
					for d := -1; d <= 1; d++ {
						if cum+d >= 0 && cum+d <= len(good) {
							positions = append(positions, cum+d)
						}
					}
					cum += sz
				}
				nrand := 200
				if wc.Big {
					nrand = 20
				}
				for k := 0; k < nrand; k++ {
					positions = append(positions, rng.Intn(len(good)+1))
				}
			}
			for _, at := range positions {
				for kind := 0; kind < 2; kind++ {
					for _, once := range []bool{false, true} {
						if r.Quick() && (at+kind)%2 == 1 && once && !wc.Big {
							continue
						}
						sink := &faultSink{At: at, Kind: kind, Once: once}
						// after the schedule keep calling: Write, Flush, Close x3
						full := append(append([]wOp{}, ops...), wOp{Kind: 'w', Data: []byte("zz")}, wOp{Kind: 'f', Mode: 0}, wOp{Kind: 'c'}, wOp{Kind: 'c'})
						t := runWriter(wc, sink, full)
						rp := map[string]interface{}{"writer": wc.Name, "ops": wOpsStrings(ops), "fault_at": at, "kind": []string{"error", "short+error"}[kind], "once": once, "returns": t.Rets}
						r.Eval("fault:"+wc.Name, true, []byte(fmt.Sprint(wOpsStrings(ops), at, kind, once)))
						if t.Panic != "" {
							r.Violate("panic", wc.Name+": "+t.Panic, rp)
							continue
						}
						// correspondence with the latch model: the calls of the schedule with the
						// sink Write sizes observed in the fault-free run
						if (at+kind+si)%5 == 0 || !r.Quick() {
							args := []string{"1", fmt.Sprint(at), fmt.Sprint(kind), map[bool]string{true: "1", false: "0"}[once]}
							prev := 0
							for i, o := range ops {
								k := map[byte]string{'w': "w", 'f': "f", 'c': "c"}[o.Kind]
								var ch []string
								for _, sz := range free.Sizes[prev:ft.WritesAft[i]] {
									ch = append(ch, fmt.Sprint(sz))
								}
								prev = ft.WritesAft[i]
								cs := "-"
								if len(ch) > 0 {
									cs = strings.Join(ch, ",")
								}
								args = append(args, fmt.Sprintf("%s:%d:%s", k, ft.Ns[i], cs))
							}
							var cls []string
							for i := range ops {
								cls = append(cls, vhlib.ErrClass(t.Errs[i]))
							}
							obs := strings.Join(cls, ",")
							if once {
								// after a once-fault the bit writer's second flush attempt may
								// deliver more bytes within the failing call: compare classes only
								r.Case("lwcls", args, obs)
							} else {
								r.Case("lw", args, fmt.Sprintf("%s|%d|%d", obs, t.OutAft[len(ops)-1], t.SinkAft[len(ops)-1]))
							}
						}
						got := sink.Buf.Bytes()
						fired := sink.Fired > 0
						// first non-nil return
						first := -1
						for i, e := range t.Errs {
							if e != nil {
								first = i
								break
							}
						}
						closeIdx := len(ops) - 1
						if fired {
							if first < 0 {
								r.Violate("sink-failure-never-surfaced", wc.Name, rp)
								continue
							}
							// from the first failure on, everything fails; Close never nil
							for i := first; i < len(t.Errs); i++ {
								if t.Errs[i] == nil {
									unsupported := full[i].Kind == 'f' && wc.Name != "xflate"
									if !unsupported {
										r.Violate("success-after-failure", fmt.Sprintf("%s: call %d (%s) returned nil after the failure at call %d", wc.Name, i, full[i], first), rp)
										break
									}
								}
							}
							if t.Errs[closeIdx] == nil {
								r.Violate("close-false-success", wc.Name, rp)
							}
							// bytes received are a prefix of the fault-free output (up to the failure;
							// a once-fault lets later bytes through, so compare up to `at`)
							lim := len(got)
							if lim > at {
								lim = at
							}
							if !bytes.Equal(got[:lim], good[:min(lim, len(good))]) {
								r.Violate("sink-not-prefix", wc.Name, rp)
							}
							if !once && len(got) > at {
								r.Violate("sink-beyond-fault", wc.Name, rp)
							}
						} else {
							// no fault fired (position beyond the output): identical to the fault-free run
							if t.Errs[closeIdx] != nil || !bytes.Equal(got[:min(len(got), len(good))], good) {
								r.Violate("no-fault-differs", wc.Name, rp)
							}
						}
						if t.Errs[closeIdx] == nil {
							plain, ok := wc.Decode(got[:t.SinkAft[closeIdx]])
							if !ok || !bytes.Equal(plain, accepted) {
								r.Violate("close-nil-but-stream-bad", wc.Name, rp)
							}
						}
						// offsets after every call of the original schedule
						acc := int64(0)
						for i := range ops {
							if full[i].Kind == 'w' {
								acc += int64(t.Ns[i])
							}
							if t.InAfter[i] != acc {
								r.Violate("input-offset-after-fault", fmt.Sprintf("%s call %d: in=%d accepted=%d", wc.Name, i, t.InAfter[i], acc), rp)
								break
							}
							if t.OutAft[i] != int64(t.SinkAft[i]) {
								r.Violate("output-offset-after-fault", fmt.Sprintf("%s call %d: out=%d sink=%d", wc.Name, i, t.OutAft[i], t.SinkAft[i]), rp)
								break
							}
						}
					}
				}
			}
			sops := wOpsStrings(ops)[:min(4, len(ops))]
			for i := range sops {
				sops[i] = sops[i][:min(len(sops[i]), 80)]
			}
			r.Sample(map[string]interface{}{"writer": wc.Name, "big_chunks": wc.Big, "ops": sops, "output_len": len(good), "fault_positions": len(positions)})
		}
	}
}

func min(a, b int) int {
	if a < b {
		return a
	}
	return b
}
