package main

import (
	"bytes"
	stdflate "compress/flate"
	"encoding/binary"
	"fmt"
	"io"
	"io/ioutil"

	"github.com/dsnet/compress/xflate/internal/meta"
	"github.com/dsnet/compress/xflate/verifharness/vhlib"
)

func init() { props["C16"] = runC16 }

// metaEncode runs the real meta.Writer over the given write partition and
// returns the bytes, the block boundaries (from OutputOffset deltas observed
// after every single-byte write) and the error.
func metaEncode(parts [][]byte, mode meta.FinalMode) (out []byte, starts []int, nblocks int64, err error) {
	var bb bytes.Buffer
	mw := meta.NewWriter(&bb)
	mw.FinalMode = mode
	last := int64(0)
	for _, p := range parts {
		// write byte-wise inside each part only to observe block boundaries;
		// the partition itself is exercised by metaEncodeRaw below.
		for i := range p {
			if _, err = mw.Write(p[i : i+1]); err != nil {
				return bb.Bytes(), starts, mw.NumBlocks, err
			}
			if mw.OutputOffset != last {
				starts = append(starts, int(last))
				last = mw.OutputOffset
			}
		}
	}
	err = mw.Close()
	if mw.OutputOffset != last {
		starts = append(starts, int(last))
	}
	return bb.Bytes(), starts, mw.NumBlocks, err
}

func metaEncodeRaw(parts [][]byte, mode meta.FinalMode) ([]byte, int64, int64, error) {
	var bb bytes.Buffer
	mw := meta.NewWriter(&bb)
	mw.FinalMode = mode
	for _, p := range parts {
		n, err := mw.Write(p)
		if err != nil || n != len(p) {
			return bb.Bytes(), mw.InputOffset, mw.OutputOffset, fmt.Errorf("write: %d %v", n, err)
		}
	}
	err := mw.Close()
	return bb.Bytes(), mw.InputOffset, mw.OutputOffset, err
}

type metaObs struct {
	cls     string
	payload []byte
	final   meta.FinalMode
	nblocks int64
	used    int64
	left    int // bytes left unread in the source
}

func metaDecode(src io.Reader, left func() int) metaObs {
	mr := meta.NewReader(src)
	payload, err := ioutil.ReadAll(mr)
	o := metaObs{cls: vhlib.ErrClass(err), payload: payload, final: mr.FinalMode,
		nblocks: mr.NumBlocks, used: mr.InputOffset}
	if left != nil {
		o.left = left()
	}
	return o
}

func (o metaObs) String() string {
	if o.cls == "nil" {
		return fmt.Sprintf("nil %s %d %d %d", vhlib.Hex(o.payload), int(o.final), o.nblocks, o.used)
	}
	return fmt.Sprintf("%s %s", o.cls, vhlib.Hex(o.payload))
}

// flateSilent decodes data with compress/flate and reports (output length,
// whether the stream ended with a final block, bytes consumed).
func stdInflate(data []byte) (out []byte, final bool, used int, err error) {
	br := &vhlib.ByteOnly{B: data}
	zr := stdflate.NewReader(br)
	out, err = ioutil.ReadAll(zr)
	return out, err == nil, br.Pos, err
}

func c16CheckEncoded(r *vhlib.Run, payload []byte, mode meta.FinalMode, parts [][]byte) {
	replay := map[string]interface{}{"payload": vhlib.Hex(payload), "mode": int(mode)}
	enc, starts, nblocks, err := metaEncode([][]byte{payload}, mode)
	if err != nil {
		r.Violate("encode-error", fmt.Sprint(err), replay)
		return
	}
	// correspondence: byte-for-byte output
	r.Case("menc", []string{fmt.Sprint(int(mode)), vhlib.Hex(payload)}, "ok "+vhlib.Hex(enc))

	// oracle: one Write of the whole payload gives the same bytes
	{
		enc1, inOff, outOff, err1 := metaEncodeRaw([][]byte{payload}, mode)
		if err1 != nil || !bytes.Equal(enc, enc1) {
			r.Violate("split-dependent", fmt.Sprintf("single Write of %d bytes: err=%v, %d vs %d output bytes", len(payload), err1, len(enc1), len(enc)), replay)
		}
		if err1 == nil && (inOff != int64(len(payload)) || outOff != int64(len(enc1))) {
			r.Violate("writer-offsets", fmt.Sprintf("in=%d out=%d", inOff, outOff), replay)
		}
	}
	// oracle: split independence
	if parts != nil {
		enc2, inOff, outOff, err2 := metaEncodeRaw(parts, mode)
		if err2 != nil || !bytes.Equal(enc, enc2) {
			r.Violate("split-dependent", fmt.Sprintf("err=%v", err2), replay)
		}
		if inOff != int64(len(payload)) || outOff != int64(len(enc2)) {
			r.Violate("writer-offsets", fmt.Sprintf("in=%d out=%d", inOff, outOff), replay)
		}
	}
	// oracle: round trip through both source kinds
	o1 := metaDecode(bytes.NewReader(enc), nil)
	o2 := metaDecode(&vhlib.ByteOnly{B: enc}, nil)
	for _, o := range []metaObs{o1, o2} {
		if o.cls != "nil" || !bytes.Equal(o.payload, payload) || o.final != mode ||
			o.used != int64(len(enc)) || o.nblocks != nblocks {
			r.Violate("roundtrip", o.String(), replay)
		}
	}
	// FinalMode is documented to be valid "after Close or upon hitting io.EOF": read exactly the
	// payload (no further Read that could observe io.EOF), Close, then look
	if len(payload) > 0 {
		mr := meta.NewReader(bytes.NewReader(enc))
		buf := make([]byte, len(payload))
		n, rerr := io.ReadFull(mr, buf)
		cerr := mr.Close()
		if rerr != nil || n != len(payload) || !bytes.Equal(buf, payload) || cerr != nil || mr.FinalMode != mode {
			r.Violate("roundtrip", fmt.Sprintf("ReadFull of exactly the %d payload bytes, then Close: n=%d err=%v close=%v FinalMode=%d want %d", len(payload), n, rerr, cerr, int(mr.FinalMode), int(mode)), replay)
		}
	}
	// ... and for every way the caller sizes its Read buffers (a header read with
	// io.ReadFull, byte-at-a-time parsing): small fixed sizes and a random schedule
	for _, bs := range []int{1, 3, 7, 0} {
		mr := meta.NewReader(bytes.NewReader(enc))
		var got []byte
		var rerr error
		for steps := 0; steps < 4*len(payload)+64; steps++ {
			n := bs
			if n == 0 {
				n = 1 + r.Rng.Intn(12)
			}
			buf := make([]byte, n)
			k, e := mr.Read(buf)
			got = append(got, buf[:k]...)
			if e != nil {
				rerr = e
				break
			}
		}
		if rerr != io.EOF || !bytes.Equal(got, payload) || mr.FinalMode != mode {
			r.Violate("roundtrip", fmt.Sprintf("Read buffers of %d bytes (0 = random 1..12): %d of %d payload bytes, err=%v, mode=%d", bs, len(got), len(payload), rerr, int(mr.FinalMode)), replay)
			break
		}
	}
	// ... and when a record header is taken with io.ReadFull and the rest with io.Copy (which uses
	// an io.WriterTo of the Reader if it has one, as xflate's own io.Copy from the meta Reader would)
	for _, head := range []int{1, 4, 12, len(payload) / 2} {
		if head <= 0 || head >= len(payload) {
			continue
		}
		mr := meta.NewReader(bytes.NewReader(enc))
		hb := make([]byte, head)
		_, herr := io.ReadFull(mr, hb)
		var rest bytes.Buffer
		_, cerr := io.Copy(&rest, io.Reader(mr))
		got := append(hb, rest.Bytes()...)
		if herr != nil || cerr != nil || !bytes.Equal(got, payload) || mr.FinalMode != mode || mr.OutputOffset != int64(len(payload)) {
			r.Violate("roundtrip", fmt.Sprintf("ReadFull(%d) then io.Copy: %d of %d payload bytes, errs=%v/%v, mode=%d, OutputOffset=%d", head, len(got), len(payload), herr, cerr, int(mr.FinalMode), mr.OutputOffset), replay)
			break
		}
	}
	// oracle: silent in DEFLATE
	if mode == meta.FinalStream {
		out, _, used, err := stdInflate(enc)
		if err != nil || len(out) != 0 || used != len(enc) {
			r.Violate("deflate-not-silent", fmt.Sprintf("out=%d used=%d/%d err=%v", len(out), used, len(enc), err), replay)
		}
	} else {
		// not final: append an empty final stored block; must decode to nothing, consuming all
		full := append(append([]byte{}, enc...), 0x01, 0x00, 0x00, 0xff, 0xff)
		out, _, used, err := stdInflate(full)
		if err != nil || len(out) != 0 || used != len(full) {
			r.Violate("deflate-not-silent", fmt.Sprintf("out=%d used=%d/%d err=%v", len(out), used, len(full), err), replay)
		}
		// and alone it must be incomplete (no final bit anywhere)
		_, _, _, err = stdInflate(enc)
		if err != io.ErrUnexpectedEOF {
			r.Violate("final-bit-in-nonfinal", fmt.Sprint(err), replay)
		}
	}
	// oracle: block sizes and count
	bounds := append(append([]int{}, starts...), len(enc))
	for i := 0; i+1 < len(bounds); i++ {
		sz := bounds[i+1] - bounds[i]
		if sz < meta.MinEncBytes || sz > meta.MaxEncBytes {
			r.Violate("block-size", fmt.Sprintf("size=%d", sz), replay)
		}
	}
	if len(payload) <= meta.EnsureRawBytes && nblocks != 1 {
		r.Violate("22-not-single", fmt.Sprintf("blocks=%d", nblocks), replay)
	}
	if int64(len(starts)) != nblocks {
		r.Violate("block-count", fmt.Sprintf("starts=%d blocks=%d", len(starts), nblocks), replay)
	}
	// oracle: signature only at block starts; reverse search finds last block
	isStart := map[int]bool{}
	for _, s := range starts {
		isStart[s] = true
	}
	for i := 0; i+4 <= len(enc); i++ {
		m := binary.LittleEndian.Uint32(enc[i:])
		if (m&0xfffe3fc6 == 0x05860004) != isStart[i] {
			r.Violate("magic-position", fmt.Sprintf("i=%d start=%v", i, isStart[i]), replay)
			break
		}
	}
	if rs := meta.ReverseSearch(enc); len(starts) > 0 && rs != starts[len(starts)-1] {
		r.Violate("reverse-search", fmt.Sprintf("rs=%d want=%d", rs, starts[len(starts)-1]), replay)
	}
	r.Case("mrs", []string{vhlib.Hex(enc)}, fmt.Sprint(meta.ReverseSearch(enc)))
	r.Case("mdec", []string{vhlib.Hex(enc)}, o1.String())
}

// c16CheckDecode: converse direction on an arbitrary string.
func c16CheckDecode(r *vhlib.Run, data []byte, bucket string) {
	replay := map[string]interface{}{"input": vhlib.Hex(data)}
	br := bytes.NewReader(data)
	o1 := metaDecode(br, func() int { return br.Len() })
	bo := &vhlib.ByteOnly{B: data}
	o2 := metaDecode(bo, func() int { return len(bo.B) - bo.Pos })
	if o1.String() != o2.String() {
		r.Violate("source-kind-dependent", o1.String()+" vs "+o2.String(), replay)
	}
	r.Case("mdec", []string{vhlib.Hex(data)}, o1.String())
	accepted := o1.cls == "nil" && o1.nblocks > 0
	r.Eval(bucket, accepted || o1.cls == "Corrupted" || o1.cls == "UEOF", data)
	if accepted {
		r.Hist["accepted"]++
	} else {
		r.Hist["rejected:"+o1.cls]++
	}
	if !accepted {
		return
	}
	if o1.left != len(data)-int(o1.used) || o2.left != len(data)-int(o2.used) {
		r.Violate("overconsumption", fmt.Sprintf("used=%d left=%d/%d", o1.used, o1.left, o2.left), replay)
	}
	// anything accepted is an empty DEFLATE block sequence with matching finality
	consumed := data[:o1.used]
	if o1.final == meta.FinalStream {
		out, _, used, err := stdInflate(consumed)
		if err != nil || len(out) != 0 || used != len(consumed) {
			r.Violate("accepted-not-empty-deflate", fmt.Sprintf("out=%d used=%d err=%v", len(out), used, err), replay)
		}
	} else {
		full := append(append([]byte{}, consumed...), 0x01, 0x00, 0x00, 0xff, 0xff)
		out, _, used, err := stdInflate(full)
		if err != nil || len(out) != 0 || used != len(full) {
			r.Violate("accepted-not-empty-deflate", fmt.Sprintf("out=%d used=%d err=%v", len(out), used, err), replay)
		}
		if _, _, _, err = stdInflate(consumed); err != io.ErrUnexpectedEOF {
			r.Violate("accepted-final-mismatch", fmt.Sprint(err), replay)
		}
	}
}

func runC16(r *vhlib.Run) {
	rng := r.Rng
	// meta.Reader itself against its implementation-level model, per call (Meta/ReaderImpl.v)
	runWMETAR(r)
	modes := []meta.FinalMode{meta.FinalNil, meta.FinalMeta, meta.FinalStream}
	enc := func(p []byte, m meta.FinalMode, parts [][]byte, bucket string) {
		r.Eval(bucket, true, p, []byte{byte(m)})
		c16CheckEncoded(r, p, m, parts)
	}
	// 1. exhaustive: length <= 1
	for _, m := range modes {
		enc(nil, m, nil, "len0")
		for b := 0; b < 256; b++ {
			enc([]byte{byte(b)}, m, nil, "len1")
		}
	}
	// 2. length 2: sampled (quick) / exhaustive (thorough)
	n2 := 1500
	if !r.Quick() {
		n2 = 65536
	}
	for i := 0; i < n2; i++ {
		var p []byte
		if r.Quick() {
			p = []byte{byte(rng.Intn(256)), byte(rng.Intn(256))}
		} else {
			p = []byte{byte(i), byte(i >> 8)}
		}
		enc(p, modes[rng.Intn(3)], nil, "len2")
	}
	// 2b. self-location sweep: every two-byte payload prefix (all 65536) followed by a
	// pseudo-random tail of 0, 5 or 18 bytes; alone and after a preceding block. Only the
	// signature positions and ReverseSearch are checked here (cheap: no decoders).
	{
		pre, _, _, _ := metaEncode([][]byte{[]byte("preceding block")}, meta.FinalNil)
		tails := [][]byte{nil, vhlib.RandBytes(rng, 5), vhlib.RandBytes(rng, 18), vhlib.RandBytes(rng, 18)}
		for i := 0; i < 65536*len(tails); i++ {
			tail := tails[i>>16]
			p := append([]byte{byte(i), byte(i >> 8)}, tail...)
			mode := modes[(i+i>>16)%3]
			encb, starts, _, err := metaEncode([][]byte{p}, mode)
			r.Evals++
			r.Hist["rs-sweep"]++
			if err != nil || len(starts) == 0 {
				continue
			}
			want := starts[len(starts)-1]
			rp := map[string]interface{}{"payload": vhlib.Hex(p), "mode": int(mode)}
			if rs := meta.ReverseSearch(encb); rs != want {
				r.Violate("reverse-search", fmt.Sprintf("rs=%d want=%d", rs, want), rp)
				break
			}
			both := append(append([]byte{}, pre...), encb...)
			if rs := meta.ReverseSearch(both); rs != len(pre)+want {
				r.Violate("reverse-search", fmt.Sprintf("after a preceding block: rs=%d want=%d", rs, len(pre)+want), rp)
				break
			}
			for k := 1; k+4 <= len(encb); k++ {
				isStart := false
				for _, st := range starts {
					if st == k {
						isStart = true
					}
				}
				if m := binary.LittleEndian.Uint32(encb[k:]); m&0xfffe3fc6 == 0x05860004 && !isStart {
					r.Violate("magic-position", fmt.Sprintf("i=%d inside a block", k), rp)
					break
				}
			}
		}
	}
	// 3. single-block payloads of low / high bit weight, lengths 0..31
	nw := 600
	if !r.Quick() {
		nw = 20000
	}
	for i := 0; i < nw; i++ {
		n := rng.Intn(32)
		p := make([]byte, n)
		w := rng.Intn(9) // bits set per byte on average
		for j := range p {
			for k := 0; k < 8; k++ {
				if rng.Intn(8) < w {
					p[j] |= 1 << uint(k)
				}
			}
		}
		enc(p, modes[rng.Intn(3)], vhlib.Partition(rng, p), "weighted")
	}
	// 3b. payloads of 20..31 bytes around the single-block capacity: bit weights of
	// 25-40% (either polarity), where 23 bytes may or may not fit one block
	nedge := 400
	if !r.Quick() {
		nedge = 20000
	}
	for i := 0; i < nedge; i++ {
		n := 20 + rng.Intn(12)
		p := make([]byte, n)
		ones := (8 * n) * (25 + rng.Intn(16)) / 100
		for _, pos := range rng.Perm(8 * n)[:ones] {
			p[pos/8] |= 1 << uint(pos%8)
		}
		if rng.Intn(2) == 0 {
			for j := range p {
				p[j] = ^p[j]
			}
		}
		enc(p, modes[rng.Intn(3)], vhlib.Partition(rng, p), "capacity-edge")
	}
	// 4. XFLATE footers: "XF\0" + uvarint(backSize)
	var sizes []uint64
	for _, b := range []uint64{0, 1, 127, 128, 16383, 16384, 1<<21 - 1, 1 << 21, 1<<28 - 1, 1 << 28, 1<<35 - 1, 1 << 35, 1<<63 - 1} {
		sizes = append(sizes, b)
	}
	nf := 400
	if !r.Quick() {
		nf = 1 << 21
	}
	for i := 0; i < nf; i++ {
		if r.Quick() {
			sizes = append(sizes, uint64(rng.Int63())>>uint(rng.Intn(63)))
		} else {
			sizes = append(sizes, uint64(i))
		}
	}
	for i, sz := range sizes {
		var buf [16]byte
		copy(buf[:], "XF\x00")
		n := 3 + binary.PutUvarint(buf[3:], sz)
		if !r.Quick() && i > 4000 && i%64 != 0 {
			// thorough: full impl oracle on every footer, model on a 1/64 sample
			p := buf[:n]
			encb, _, nb, err := metaEncode([][]byte{p}, meta.FinalStream)
			r.Eval("footer", true, p)
			if err != nil || nb != 1 || len(encb) > meta.MaxEncBytes {
				r.Violate("footer-single-block", fmt.Sprintf("nb=%d err=%v", nb, err), map[string]interface{}{"backsize": sz})
			}
			continue
		}
		enc(buf[:n], meta.FinalStream, nil, "footer")
	}
	// 5. random long payloads x splits
	nl := 120
	if !r.Quick() {
		nl = 3000
	}
	for i := 0; i < nl; i++ {
		p := vhlib.RandBytes(rng, rng.Intn(400))
		enc(p, modes[rng.Intn(3)], vhlib.Partition(rng, p), "long")
	}
	// 6. converse: mutations of valid blocks and random strings
	nm := 1500
	if !r.Quick() {
		nm = 40000
	}
	for i := 0; i < nm; i++ {
		p := vhlib.RandBytes(rng, rng.Intn(40))
		e, _, _, _ := metaEncodeRaw([][]byte{p}, modes[rng.Intn(3)])
		d := append([]byte{}, e...)
		switch rng.Intn(6) {
		case 0: // flip one of the first 96 bits
			if len(d) > 0 {
				bit := rng.Intn(96)
				if bit/8 < len(d) {
					d[bit/8] ^= 1 << uint(bit%8)
				}
			}
		case 1: // flip any bit
			if len(d) > 0 {
				d[rng.Intn(len(d))] ^= 1 << uint(rng.Intn(8))
			}
		case 2: // truncate
			d = d[:rng.Intn(len(d)+1)]
		case 3: // byte edit
			if len(d) > 0 {
				d[rng.Intn(len(d))] = byte(rng.Intn(256))
			}
		case 4: // trailing junk
			d = append(d, vhlib.RandBytes(rng, 1+rng.Intn(8))...)
		case 5: // concatenate another stream
			e2, _, _, _ := metaEncodeRaw([][]byte{vhlib.RandBytes(rng, rng.Intn(30))}, modes[rng.Intn(3)])
			d = append(d, e2...)
		}
		c16CheckDecode(r, d, "mutated")
	}
	for i := 0; i < nm/4; i++ {
		c16CheckDecode(r, vhlib.RandBytes(rng, rng.Intn(24)), "random")
	}
	// 7. computeHuffLen: the full (zeros, ones) domain a block can see is small
	r.Sample(map[string]interface{}{"payload": "6869", "mode": 2, "encoded": "1d00870500004864a644eaff3bdbf0"})
}
