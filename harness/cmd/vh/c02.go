package main

import (
	"bytes"
	"fmt"
	"os"
	"path/filepath"
	"time"

	"github.com/dsnet/compress/brotli"
	"github.com/dsnet/compress/xflate/verifharness/brcraft"
	"github.com/dsnet/compress/xflate/verifharness/gen"
	"github.com/dsnet/compress/xflate/verifharness/ref"
	"github.com/dsnet/compress/xflate/verifharness/vhlib"
)

func init() { props["C02"] = runC02 }

// brDict: libbrotlicommon's dictionary; written to the file the model driver
// reads, and compared with the implementation's copy.
func brDict(r *vhlib.Run) []byte {
	d := ref.LibBrotliDict()
	path := os.Getenv("VERIF_BRDICT")
	if path == "" {
		path = "/verif/bin/brdict.bin"
	}
	os.MkdirAll(filepath.Dir(path), 0o755)
	if err := os.WriteFile(path, d, 0o644); err != nil {
		panic(err)
	}
	if !bytes.Equal(d, brotli.VerifDictLUT()) {
		r.Violate("dictionary-differs", "brotli.dictLUT differs from libbrotlicommon's static dictionary", map[string]interface{}{"len": len(d)})
	}
	return d
}

func c02Check(r *vhlib.Run, m *vhlib.Model, data []byte, kind string) {
	replay := map[string]interface{}{"input": vhlib.Hex(data), "kind": kind}
	o := observeT(codecs()[1], data, srcKinds()[0], []int{1 << 16}, r.Rng, 20*time.Second)
	if o.Cls == "hang" {
		r.Eval(kind, true, data)
		r.Violate("hang", "brotli.Reader: "+o.Bad, replay)
		return
	}
	lout, lst, lused := ref.BrDecompress(data, len(o.Out)+1<<20)
	lcls := map[string]string{"end": "nil", "more": "UEOF", "err": "Corrupted", "cap": "cap"}[lst]
	r.Eval(kind, o.Cls == "nil" || len(o.Out) > 0 || len(data) > 3, data)
	r.Hist["impl:"+o.Cls]++
	if o.Panic != "" {
		r.Violate("panic", o.Panic, replay)
		return
	}
	if o.Cls == "outlimit" || lcls == "cap" {
		r.Hist["skipped-huge"]++
		return
	}
	if o.Bad != "" {
		r.Violate("contract", o.Bad, replay)
	}
	implObs := fmt.Sprintf("%s %s", o.Cls, vhlib.Hex(o.Out))
	if o.Cls == "nil" {
		implObs = fmt.Sprintf("nil %s %d", vhlib.Hex(o.Out), o.In)
	}
	// the model is the reference for "which bytes may be delivered before a failure";
	// for accepted streams it must agree with the implementation (correspondence)
	mobs := ""
	if len(o.Out) <= 1<<18 {
		if o.Cls == "nil" {
			mobs = "x " + r.CaseLive(m, "brotli", []string{vhlib.Hex(data)}, implObs)
		} else {
			mobs = m.Ask("x brotli " + vhlib.Hex(data))
		}
	}
	if (o.Cls == "nil") != (lcls == "nil") {
		r.Violate("acceptance-differs", fmt.Sprintf("impl=%s libbrotli=%s", o.Cls, lcls), replay)
		return
	}
	if o.Cls == "nil" {
		if !bytes.Equal(o.Out, lout) {
			r.Violate("output-differs", fmt.Sprintf("%d vs %d bytes", len(o.Out), len(lout)), replay)
		}
		if int(o.In) != lused {
			r.Violate("consumption-differs", fmt.Sprintf("impl=%d libbrotli=%d", o.In, lused), replay)
		}
		if mobs != "" && mobs != "x "+implObs {
			r.Hist["model-differs"]++
		}
		return
	}
	// failure: every delivered byte must be one the reference decoder delivers
	if !isPrefix(o.Out, lout) && !isPrefix(lout, o.Out) {
		r.Violate("wrong-byte-before-error", fmt.Sprintf("impl %d bytes vs libbrotli %d bytes", len(o.Out), len(lout)), replay)
		return
	}
	if mobs != "" {
		f := bytes.Fields([]byte(mobs))
		if len(f) >= 3 {
			mout := vhlib.UnHex(string(f[2]))
			if !isPrefix(o.Out, mout) {
				r.Violate("bytes-beyond-reference", fmt.Sprintf("impl delivered %d bytes before failing, the RFC 7932 model delivers %d (libbrotli %d)", len(o.Out), len(mout), len(lout)), replay)
				return
			}
			r.Hist["class-impl/model:"+o.Cls+"/"+string(f[1])]++
		}
	}
}

func runC02(r *vhlib.Run) {
	// brotli.Reader itself against its implementation-level model, per Read call (Brotli/Impl.v)
	wbrimpl(r)
	rng := r.Rng
	// the brotli sliding window against its implementation-level model (Window/DictBr.v)
	wdictbr(r)
	// brotli's own bit reader and prefix decoder against their implementation-level models
	wbrbits(r)
	wbrdec(r)
	dict := brDict(r)
	m := vhlib.StartModel()
	defer m.Close()
	// regression corpus
	c02Check(r, m, vhlib.UnHex("e20200004458801204"), "corpus-zero-distance")
	c02Check(r, m, vhlib.UnHex("020000004458e017c0ffff3f"), "corpus-insert-past-mlen")
	c02Check(r, m, vhlib.UnHex("03000000a0040002a00000"), "corpus-insert-past-mlen")
	// every string of <= 2 bytes (quick: <= 1 and a stratified sample of 2)
	c02Check(r, m, nil, "tiny")
	for a := 0; a < 256; a++ {
		c02Check(r, m, []byte{byte(a)}, "tiny")
	}
	step := 1
	if r.Quick() {
		step = 37
	}
	for i := 0; i < 65536; i += step {
		c02Check(r, m, []byte{byte(i), byte(i >> 8)}, "tiny")
	}
	if !r.Quick() {
		for i := 0; i < 1<<24; i += 9973 {
			c02Check(r, m, []byte{byte(i), byte(i >> 8), byte(i >> 16)}, "tiny3")
		}
	}
	n := 300
	maxPlain := 3000
	if !r.Quick() {
		n, maxPlain = 1500, 60000
	}
	var pool [][]byte
	for i := 0; i < n; i++ {
		switch rng.Intn(8) {
		case 0, 1, 2:
			p := gen.Plain(rng, maxPlain)
			if rng.Intn(3) == 0 {
				p = []byte(brText(rng, rng.Intn(maxPlain+1)))
			}
			d := gen.BrotliEnc(rng, p)
			pool = append(pool, d)
			c02Check(r, m, d, "libbrotli")
		case 3, 4:
			d := brcraft.Stream(rng, 0, dict)
			pool = append(pool, d)
			c02Check(r, m, d, "crafted")
		case 5:
			c02Check(r, m, brcraft.Stream(rng, 0.02, dict), "crafted-bad")
		default:
			if len(pool) > 0 {
				c02Check(r, m, gen.Mutate(rng, pool[rng.Intn(len(pool))]), "mutated")
			}
		}
	}
	// dictionary words that END INSIDE a multi-byte UTF-8 character (a transform that walks the word by
	// characters must stop at the word's end, not run on into the suffix), under every transform
	{
		offs, bits := brotli.VerifDictOffsets(), brotli.VerifDictBitSizes()
		var cutWords [][2]int // (word length, index)
		for wl := 4; wl <= 24 && len(cutWords) < 40; wl++ {
			for idx := 0; idx < 1<<uint(bits[wl]); idx++ {
				w := dict[offs[wl]+idx*wl:][:wl]
				last := w[wl-1]
				cut := last >= 0xc0 || (wl >= 2 && w[wl-2] >= 0xe0 && last >= 0x80)
				if cut {
					cutWords = append(cutWords, [2]int{wl, idx})
				}
			}
		}
		for ci, cw := range cutWords {
			for tid := 0; tid < 121; tid++ {
				if r.Quick() && (tid+ci)%4 != 0 {
					continue
				}
				brcraft.ForceDictIdx = cw[1]
				d := brcraft.DictStream(rng, tid, cw[0], dict)
				brcraft.ForceDictIdx = -1
				if d != nil {
					c02Check(r, m, d, "transform-cut-utf8-word")
				}
			}
		}
	}
	// every transform x several word lengths
	nt := 121
	for tid := 0; tid < nt; tid++ {
		for _, wl := range []int{4, 5, 9, 16, 24} {
			if r.Quick() && (tid+wl)%3 != 0 {
				continue
			}
			if d := brcraft.DictStream(rng, tid, wl, dict); d != nil {
				c02Check(r, m, d, "transform")
			}
		}
	}
	// truncations of short valid streams at every byte
	for i := 0; i < 6; i++ {
		d := brcraft.Stream(rng, 0, dict)
		if len(d) > 300 {
			d = gen.BrotliEnc(rng, vhlib.RandBytes(rng, 60))
		}
		for k := 0; k < len(d); k++ {
			c02Check(r, m, d[:k], "truncated")
		}
	}
	r.Sample(map[string]interface{}{"input": "0b028068656c6c6f03", "expect": "hello"})
}

func brText(rng interface{ Intn(int) int }, n int) string {
	words := []string{"the ", "and ", "of ", "with ", "that ", "<div>", "</div>", "http://", "ing ", "tion", "e", " ", "\n", "The ", "This ", "window", "function"}
	s := ""
	for len(s) < n {
		s += words[rng.Intn(len(words))]
	}
	return s[:n]
}
