package main

import (
	"bytes"
	"fmt"
	"math/rand"
	"strconv"
	"strings"

	"github.com/dsnet/compress/internal/prefix"
	"github.com/dsnet/compress/xflate/verifharness/vhlib"
)

// WRANGE: the range coding helpers of internal/prefix (range.go, Writer.WriteOffset,
// Reader.ReadOffset) against their implementation-level model (coq/Prefix/Range.v).
//
//   wrmk   <minBase> <bits>            MakeRangeCodes: the list of (Base, Len)
//   wrange <rcs> <ood> <wofs>          one case per range set:
//        checkValid; Init (panic on an invalid set); the 1024-entry lookup table;
//        Encode of EVERY offset in [Base(), End()) as a run-length list of the symbols;
//        Encode of the listed out-of-domain offsets (symbol or panic);
//        WriteOffset / ReadOffset of the listed in-domain offsets through a real
//        Writer / Reader: symbol, extra value, extra bit count, value read back.

func init() { props["WRANGE"] = runWRANGE }

func wrFmtRcs(rcs prefix.RangeCodes) string {
	if len(rcs) == 0 {
		return "-"
	}
	var sb strings.Builder
	for i, rc := range rcs {
		if i > 0 {
			sb.WriteByte(',')
		}
		fmt.Fprintf(&sb, "%d:%d", rc.Base, rc.Len)
	}
	return sb.String()
}

func wrFmtU(v []uint64) string {
	if len(v) == 0 {
		return "-"
	}
	s := make([]string, len(v))
	for i, x := range v {
		s[i] = strconv.FormatUint(x, 10)
	}
	return strings.Join(s, ",")
}

// run-length encoding "value x count" of a sequence of strings
type wrRLE struct {
	sb   strings.Builder
	cur  string
	n    int
	some bool
}

func (e *wrRLE) add(s string) {
	if e.n > 0 && s == e.cur {
		e.n++
		return
	}
	e.flush()
	e.cur, e.n = s, 1
}
func (e *wrRLE) flush() {
	if e.n > 0 {
		if e.some {
			e.sb.WriteByte(',')
		}
		fmt.Fprintf(&e.sb, "%sx%d", e.cur, e.n)
		e.some = true
	}
	e.n = 0
}
func (e *wrRLE) String() string {
	e.flush()
	if !e.some {
		return "-"
	}
	return e.sb.String()
}

func wrEncode(re *prefix.RangeEncoder, off uint) (res string) {
	defer func() {
		if p := recover(); p != nil {
			res = "P"
		}
	}()
	return strconv.FormatUint(uint64(re.Encode(off)), 10)
}

func wrInit(re *prefix.RangeEncoder, rcs prefix.RangeCodes) (ok bool) {
	defer func() {
		if p := recover(); p != nil {
			ok = false
		}
	}()
	re.Init(rcs)
	return true
}

// a fixed-length prefix code over at least n symbols
func wrFixedCode(n int) (pe *prefix.Encoder, pd *prefix.Decoder, nb uint) {
	nb = 1
	for 1<<nb < n {
		nb++
	}
	var codes prefix.PrefixCodes
	for i := 0; i < 1<<nb; i++ {
		codes = append(codes, prefix.PrefixCode{Sym: uint32(i), Len: uint32(nb)})
	}
	if err := prefix.GeneratePrefixes(codes); err != nil {
		panic(err)
	}
	pe, pd = new(prefix.Encoder), new(prefix.Decoder)
	pe.Init(codes)
	pd.Init(codes)
	return pe, pd, nb
}

func wrRangeCase(r *vhlib.Run, name string, rcs prefix.RangeCodes, rng *rand.Rand) {
	valid := len(rcs) > 0 && rcs.VerifCheckValid()
	if len(rcs) == 0 {
		valid = false // checkValid reports false; Base()/End() would panic
	}
	var re prefix.RangeEncoder
	inited := wrInit(&re, rcs)
	if !valid {
		obs := "invalid init=ok"
		if !inited {
			obs = "invalid init=panic"
		} else {
			r.Violate("range-init", fmt.Sprintf("%s: Init accepted a set that checkValid rejects", name), map[string]interface{}{"rcs": wrFmtRcs(rcs)})
		}
		r.Case("wrange", []string{wrFmtRcs(rcs), "-", "-"}, obs)
		r.Hist["set:invalid"]++
		return
	}
	if !inited {
		r.Case("wrange", []string{wrFmtRcs(rcs), "-", "-"}, "valid init=panic")
		r.Violate("range-init", fmt.Sprintf("%s: Init panicked on a valid set", name), map[string]interface{}{"rcs": wrFmtRcs(rcs)})
		return
	}
	lo, hi := uint64(rcs.Base()), uint64(rcs.End())
	if hi > lo && hi-lo > 200000 {
		return // never generated
	}
	// the lookup table
	lutv, minBase := re.VerifLUT()
	var lutE wrRLE
	for _, v := range lutv {
		lutE.add(strconv.FormatUint(uint64(v), 10))
	}
	// every offset of the domain
	var encE wrRLE
	bad := 0
	for off := lo; off < hi; off++ {
		s := wrEncode(&re, uint(off))
		encE.add(s)
		r.Evals++
		// oracle: the LAST range whose Base <= offset, and it holds the offset
		want := -1
		for i, rc := range rcs {
			if uint64(rc.Base) <= off {
				want = i
			}
		}
		if bad < 3 && (s != strconv.Itoa(want) || want < 0 || off >= uint64(rcs[want].End())) {
			bad++
			r.Violate("range-encode", fmt.Sprintf("%s: offset %d encoded to %s, last range with Base <= offset is %d", name, off, s, want),
				map[string]interface{}{"rcs": wrFmtRcs(rcs), "offset": off})
		}
	}
	// out-of-domain offsets
	oodSet := map[uint64]bool{}
	var ood []uint64
	addOod := func(v uint64) {
		if (v >= lo && v < hi) || oodSet[v] {
			return
		}
		oodSet[v] = true
		ood = append(ood, v)
	}
	for _, d := range []uint64{1, 2, 3, 1000, 1023, 1024, 1025, 70000} {
		if lo >= d {
			addOod(lo - d)
		}
	}
	addOod(0)
	for _, d := range []uint64{0, 1, 2, 500, 1022, 1023, 1024, 1025, 5000, 100000} {
		addOod(hi + d)
		addOod(uint64(minBase) + d)
	}
	for _, b := range []uint64{1 << 32, 1 << 33, 1 << 63} {
		for _, d := range []uint64{0, 1, 1023, 1024, 1 << 20} {
			addOod(b + d)
			addOod(b + lo + d)
			addOod(b + hi + d)
			addOod(b - 1 - d)
		}
	}
	addOod(1<<64 - 1)
	addOod(1<<64 - 1 - lo)
	for i := 0; i < 6; i++ {
		addOod(rng.Uint64())
		addOod(uint64(rng.Uint32()))
		addOod(1<<32 + uint64(rng.Uint32()))
	}
	var oodObs []string
	for _, v := range ood {
		oodObs = append(oodObs, wrEncode(&re, uint(v)))
		r.Evals++
	}
	// WriteOffset outside the domain: panic, or the number of extra bits handed to WriteBits
	var wooObs []string
	{
		pe, _, cnb := wrFixedCode(len(rcs))
		for _, v := range ood {
			wooObs = append(wooObs, func() (res string) {
				defer func() {
					if p := recover(); p != nil {
						res = "P"
					}
				}()
				var bb bytes.Buffer
				var pw prefix.Writer
				pw.Init(&bb, false)
				pw.WriteOffset(uint(v), pe, &re)
				return strconv.FormatInt(pw.BitsWritten()-int64(cnb), 10)
			}())
		}
	}
	// WriteOffset / ReadOffset of in-domain offsets
	var wofs []uint64
	if hi > lo {
		for _, rc := range rcs {
			b, e := uint64(rc.Base), uint64(rc.End())
			for _, v := range []uint64{b, b + 1, e - 1, e} {
				if v >= lo && v < hi && len(wofs) < 400 {
					wofs = append(wofs, v)
				}
			}
		}
		for _, d := range []uint64{1022, 1023, 1024, 1025} {
			if lo+d < hi {
				wofs = append(wofs, lo+d)
			}
		}
		for i := 0; i < 40; i++ {
			wofs = append(wofs, lo+uint64(rng.Int63n(int64(hi-lo))))
		}
	}
	var wrObs []string
	if len(wofs) > 0 {
		pe, pd, cnb := wrFixedCode(len(rcs))
		big := rng.Intn(2) == 0
		var bb bytes.Buffer
		var pw prefix.Writer
		pw.Init(&bb, big)
		var nbs []int64
		for _, off := range wofs {
			b0 := pw.BitsWritten()
			pw.WriteOffset(uint(off), pe, &re)
			nbs = append(nbs, pw.BitsWritten()-b0-int64(cnb))
			pw.WriteBits(0x15a, 9) // guard
		}
		pw.WritePads(0)
		pw.Flush()
		var pr, pr2 prefix.Reader
		pr.Init(bytes.NewReader(bb.Bytes()), big)
		pr2.Init(bytes.NewReader(bb.Bytes()), big)
		for i, off := range wofs {
			sym, ok := pr.ReadSymbol(pd), true
			var extra uint
			if int(sym) < len(rcs) {
				extra = pr.ReadBits(uint(rcs[sym].Len))
			} else {
				ok = false
			}
			g := pr.ReadBits(9)
			got := pr2.ReadOffset(pd, rcs)
			g2 := pr2.ReadBits(9)
			r.Evals++
			if !ok || g != 0x15a || g2 != 0x15a || uint64(got) != off {
				r.Violate("range-roundtrip", fmt.Sprintf("%s: offset %d written with WriteOffset read back as %d (sym %d, guards %#x %#x)", name, off, got, sym, g, g2),
					map[string]interface{}{"rcs": wrFmtRcs(rcs), "offset": off, "big_endian": big})
			}
			wrObs = append(wrObs, fmt.Sprintf("%d:%d:%d:%d", sym, extra, nbs[i], got))
		}
	}
	obs := fmt.Sprintf("valid base=%d end=%d min=%d lut=%s enc=%s ood=%s woo=%s wr=%s", lo, hi, minBase, lutE.String(), encE.String(),
		strings.Join(append([]string{"-"}, oodObs...), ","), strings.Join(append([]string{"-"}, wooObs...), ","), strings.Join(append([]string{"-"}, wrObs...), ","))
	r.Case("wrange", []string{wrFmtRcs(rcs), wrFmtU(ood), wrFmtU(wofs)}, obs)
	r.Hist["set:"+strings.SplitN(name, "#", 2)[0]]++
	if hi > lo && hi-lo > 1024 {
		r.Hist["reach:beyond-table"]++
	} else {
		r.Hist["reach:within-table"]++
	}
}

// ---- generators ---------------------------------------------------------------------
func wrRandContig(rng *rand.Rand, maxBits int, maxTotal uint64) (uint, []uint) {
	n := 1 + rng.Intn(60)
	var bits []uint
	total := uint64(0)
	for len(bits) < n {
		b := uint(rng.Intn(maxBits + 1))
		if rng.Intn(3) == 0 {
			b = uint(rng.Intn(4))
		}
		if total+1<<b > maxTotal {
			if b == 0 {
				break
			}
			continue
		}
		bits = append(bits, b)
		total += 1 << b
	}
	var minBase uint
	switch rng.Intn(5) {
	case 0:
		minBase = 0
	case 1:
		minBase = uint(rng.Intn(5000))
	case 2:
		minBase = uint(rng.Uint32() >> uint(rng.Intn(32)))
		if uint64(minBase)+total >= 1<<32 {
			minBase = uint(1<<32 - 1 - total)
		}
	case 3:
		minBase = uint(1<<32 - 1 - total - uint64(rng.Intn(3))) // ends right below 2^32
	default:
		minBase = uint(rng.Intn(70000))
	}
	return minBase, bits
}

// a valid set with overlaps: Base in [preBase, preEnd], End >= preEnd
func wrRandOverlap(rng *rand.Rand, maxTotal uint64) prefix.RangeCodes {
	n := 1 + rng.Intn(60)
	base := uint64(rng.Intn(5000))
	if rng.Intn(4) == 0 {
		base = uint64(rng.Uint32() >> 1)
	}
	start := base
	var rcs prefix.RangeCodes
	l := uint32(rng.Intn(12))
	rcs = append(rcs, prefix.RangeCode{Base: uint32(base), Len: l})
	for len(rcs) < n {
		pre := rcs[len(rcs)-1]
		pb, pe := uint64(pre.Base), uint64(pre.End())
		var cb uint64
		switch rng.Intn(6) {
		case 0:
			cb = pb // same base
		case 1, 2:
			cb = pe // contiguous
		default:
			cb = pb + uint64(rng.Int63n(int64(pe-pb+1)))
		}
		if rng.Intn(25) == 0 {
			// an empty range: Len >= 32 makes End() == Base
			rcs = append(rcs, prefix.RangeCode{Base: uint32(pe), Len: uint32(32 + rng.Intn(40))})
			continue
		}
		cl := uint32(0)
		for cb+1<<cl < pe {
			cl++
		}
		cl += uint32(rng.Intn(3))
		if rng.Intn(8) == 0 {
			cl += uint32(rng.Intn(6))
		}
		if cl > 13 || cb+1<<cl-start > maxTotal {
			break
		}
		rcs = append(rcs, prefix.RangeCode{Base: uint32(cb), Len: cl})
	}
	return rcs
}

func runWRANGE(r *vhlib.Run) {
	rng := r.Rng
	// ---- MakeRangeCodes
	type mk struct {
		minBase uint
		bits    []uint
	}
	mks := []mk{
		{1, []uint{0, 0, 0, 0, 1, 1, 2, 2, 3, 3, 4, 4, 5, 5, 6, 6, 7, 7, 8, 8, 9, 9, 10, 10, 11, 11, 12, 12, 13, 13}},
		{3, []uint{0, 0, 0, 0, 0, 0, 0, 0, 1, 1, 1, 1, 2, 2, 2, 2, 3, 3, 3, 3, 4, 4, 4, 4, 5, 5, 5, 5}},
		{0, nil},
		{7, []uint{31, 31}},
		{0, []uint{32, 0, 63, 64, 65, 1}},
		{1<<32 - 2, []uint{0, 0, 0, 1}},
		{1<<64 - 3, []uint{1, 1, 1}},
	}
	nmk := 30
	if !r.Quick() {
		nmk = 300
	}
	for i := 0; i < nmk; i++ {
		mb, bits := wrRandContig(rng, 13, 70000)
		if rng.Intn(6) == 0 {
			bits[rng.Intn(len(bits))] = uint(rng.Intn(80))
		}
		if rng.Intn(6) == 0 {
			mb = uint(rng.Uint64() >> uint(rng.Intn(64)))
		}
		mks = append(mks, mk{mb, bits})
	}
	for _, m := range mks {
		rcs := prefix.MakeRangeCodes(m.minBase, m.bits)
		bs := make([]uint64, len(m.bits))
		for i, b := range m.bits {
			bs[i] = uint64(b)
		}
		r.Case("wrmk", []string{strconv.FormatUint(uint64(m.minBase), 10), wrFmtU(bs)}, wrFmtRcs(rcs))
		r.Evals++
	}

	// ---- range sets
	type nset struct {
		name string
		rcs  prefix.RangeCodes
	}
	sets := []nset{
		{"deflate-dist", prefix.MakeRangeCodes(1, []uint{0, 0, 0, 0, 1, 1, 2, 2, 3, 3, 4, 4, 5, 5, 6, 6, 7, 7, 8, 8, 9, 9, 10, 10, 11, 11, 12, 12, 13, 13})},
		{"deflate-len", prefix.MakeRangeCodes(3, []uint{0, 0, 0, 0, 0, 0, 0, 0, 1, 1, 1, 1, 2, 2, 2, 2, 3, 3, 3, 3, 4, 4, 4, 4, 5, 5, 5, 5})},
		// RFC 1951 length codes 257..285 as flate builds them: the last one (258, 0 bits) overlaps
		{"deflate-len285", append(prefix.MakeRangeCodes(3, []uint{0, 0, 0, 0, 0, 0, 0, 0, 1, 1, 1, 1, 2, 2, 2, 2, 3, 3, 3, 3, 4, 4, 4, 4, 5, 5, 5, 5}), prefix.RangeCode{Base: 258, Len: 0})},
		{"brotli-insert", prefix.MakeRangeCodes(0, []uint{0, 0, 0, 0, 0, 0, 1, 1, 2, 2, 3, 3, 4, 4, 5, 5, 6, 7, 8, 9, 10, 12, 14})},
		{"brotli-copy", prefix.MakeRangeCodes(2, []uint{0, 0, 0, 0, 0, 0, 0, 0, 1, 1, 2, 2, 3, 3, 4, 4, 5, 5, 6, 7, 8, 9, 10, 14})},
		{"brotli-blklen", prefix.MakeRangeCodes(1, []uint{2, 2, 2, 2, 3, 3, 3, 3, 4, 4, 4, 4, 5, 5, 5, 5, 6, 6, 7, 8, 9, 10, 11, 12, 13})},
		{"single", prefix.RangeCodes{{Base: 5, Len: 3}}},
		{"single-wrap", prefix.RangeCodes{{Base: 1<<32 - 1, Len: 1}}},
		{"single-empty", prefix.RangeCodes{{Base: 9, Len: 32}}},
		{"single-big", prefix.RangeCodes{{Base: 100, Len: 16}}},
		{"edge1023", prefix.MakeRangeCodes(10, []uint{9, 8, 7, 6, 5, 4, 3, 2, 1, 0})},             // span 1023
		{"edge1024", prefix.MakeRangeCodes(10, []uint{9, 8, 7, 6, 5, 4, 3, 2, 1, 0, 0})},          // span 1024
		{"edge1025", prefix.MakeRangeCodes(10, []uint{9, 8, 7, 6, 5, 4, 3, 2, 1, 0, 0, 0, 3, 2})}, // a range starting at 1024
		{"edge-straddle", prefix.MakeRangeCodes(0, []uint{9, 8, 8, 4, 0, 0, 0, 0, 2, 11})},
		{"empty", nil},
		{"gap", prefix.RangeCodes{{Base: 0, Len: 2}, {Base: 5, Len: 2}}},
		{"base-decreasing", prefix.RangeCodes{{Base: 4, Len: 4}, {Base: 3, Len: 5}}},
		{"end-decreasing", prefix.RangeCodes{{Base: 4, Len: 4}, {Base: 5, Len: 2}}},
		{"end-wrap-invalid", prefix.MakeRangeCodes(1<<32-4, []uint{1, 1})},
	}
	nrand := 12
	if !r.Quick() {
		nrand = 120
	}
	for i := 0; i < nrand; i++ {
		maxTotal := uint64(70000)
		switch rng.Intn(4) {
		case 0:
			maxTotal = uint64(1 + rng.Intn(3000)) // around the table size
		case 1:
			maxTotal = uint64(1 + rng.Intn(20000))
		}
		mb, bits := wrRandContig(rng, 13, maxTotal)
		sets = append(sets, nset{fmt.Sprintf("contig#%d", i), prefix.MakeRangeCodes(mb, bits)})
		sets = append(sets, nset{fmt.Sprintf("overlap#%d", i), wrRandOverlap(rng, maxTotal)})
		// an invalid mutation of a valid set
		m := append(prefix.RangeCodes(nil), sets[len(sets)-1-rng.Intn(2)].rcs...)
		if len(m) >= 2 {
			j := 1 + rng.Intn(len(m)-1)
			switch rng.Intn(4) {
			case 0:
				m[j].Base += 1 + uint32(rng.Intn(3)) + (m[j-1].End() - m[j].Base) // a gap
			case 1:
				m[j-1], m[j] = m[j], m[j-1]
			case 2:
				m[j].Base = m[j-1].Base - uint32(rng.Intn(2)) // may stay valid
			default:
				m[j].Len = uint32(rng.Intn(14))
			}
			sets = append(sets, nset{fmt.Sprintf("mutated#%d", i), m})
		}
	}
	for _, s := range sets {
		wrRangeCase(r, s.name, s.rcs, rng)
	}
}
