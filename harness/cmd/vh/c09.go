package main

import (
	"bytes"
	"fmt"
	"io"
	"math/rand"

	"github.com/dsnet/compress/xflate"
	"github.com/dsnet/compress/xflate/verifharness/gen"
	"github.com/dsnet/compress/xflate/verifharness/ref"
	"github.com/dsnet/compress/xflate/verifharness/vhlib"
)

func init() { props["C09"] = runC09 }

var allowedReaderClasses = map[string]bool{"nil": true, "UEOF": true, "Corrupted": true, "Deprecated": true}

// failing sources ------------------------------------------------------------
type failRead struct {
	B    []byte
	Pos  int
	At   int
	Err  error
	Mode int // 0 Read only, 1 + ReadByte, 2 Peek/Discard
}

// failFired counts the times a failing source has handed its error to the Reader under test.
var failFired int

func (f *failRead) Read(p []byte) (int, error) {
	if f.Mode == 3 {
		// one-shot: the call that reaches position At returns its bytes TOGETHER with the error (a
		// deadline error: Timeout() is true); afterwards the source works again
		lim := len(f.B)
		if f.Pos < f.At && f.At < lim {
			lim = f.At
		}
		if f.Pos >= len(f.B) {
			return 0, io.EOF
		}
		n := copy(p, f.B[f.Pos:lim])
		f.Pos += n
		if f.Pos == f.At && n > 0 {
			f.At = -1
			failFired++
			return n, f.Err
		}
		return n, nil
	}
	if f.Pos >= f.At {
		failFired++
		return 0, f.Err
	}
	lim := f.At
	if lim > len(f.B) {
		lim = len(f.B)
	}
	if f.Pos >= lim {
		return 0, io.EOF
	}
	n := copy(p, f.B[f.Pos:lim])
	f.Pos += n
	return n, nil
}

type failByte struct{ failRead }

func (f *failByte) ReadByte() (byte, error) {
	var b [1]byte
	n, err := f.Read(b[:])
	if n == 1 {
		return b[0], nil
	}
	return 0, err
}

type failBuffered struct{ failRead }

func (f *failBuffered) lim() int {
	l := f.At
	if l > len(f.B) {
		l = len(f.B)
	}
	return l
}
func (f *failBuffered) Buffered() int {
	n := f.lim() - f.Pos
	if n > 13 {
		n = 13
	}
	if n < 0 {
		n = 0
	}
	return n
}
func (f *failBuffered) Peek(n int) ([]byte, error) {
	avail := f.lim() - f.Pos
	if avail < 0 {
		avail = 0
	}
	if n <= avail {
		return f.B[f.Pos : f.Pos+n], nil
	}
	if f.At <= len(f.B) {
		return f.B[f.Pos : f.Pos+avail], f.Err
	}
	return f.B[f.Pos : f.Pos+avail], io.EOF
}
func (f *failBuffered) Discard(n int) (int, error) {
	avail := f.lim() - f.Pos
	if n <= avail {
		f.Pos += n
		return n, nil
	}
	f.Pos += avail
	if f.At <= len(f.B) {
		return avail, f.Err
	}
	return avail, io.EOF
}

// faultSeeker fails reads that touch [From, To) once Armed.
type faultSeeker struct {
	R        *bytes.Reader
	From, To int64
	Err      error
	Armed    bool
}

func (f *faultSeeker) Read(p []byte) (int, error) {
	pos, _ := f.R.Seek(0, io.SeekCurrent)
	if f.Armed && pos < f.To && pos+int64(len(p)) > f.From {
		if pos >= f.From {
			return 0, f.Err
		}
		p = p[:f.From-pos]
	}
	return f.R.Read(p)
}
func (f *faultSeeker) Seek(off int64, wh int) (int64, error) { return f.R.Seek(off, wh) }

func failSrcKinds(at int) []srcKind {
	mk := func(mode int) func([]byte, *rand.Rand) (io.Reader, func() int) {
		return func(d []byte, _ *rand.Rand) (io.Reader, func() int) {
			base := failRead{B: d, At: at, Err: &vhlib.SentinelErr{Tag: 7}, Mode: mode}
			switch mode {
			case 1:
				return &failByte{base}, nil
			case 2:
				return &failBuffered{base}, nil
			}
			return &base, nil
		}
	}
	once := func(d []byte, _ *rand.Rand) (io.Reader, func() int) {
		return &failRead{B: d, At: at, Err: &vhlib.SentinelErr{Tag: 7, TO: true}, Mode: 3}, nil
	}
	return []srcKind{{Name: "fail-once-with-data(timeout)", Make: once}, {Name: "fail-ReadOnly", Make: mk(0)}, {Name: "fail-ByteReader", Exact: true, Make: mk(1)}, {Name: "fail-Buffered", Exact: true, Make: mk(2)}}
}

// greedySource: sources through which the bit reader sees every available
// byte (Peek), so that on a failing stream it salvages as much as the
// bit-exact model does; ReadByte-driven sources may stop a few bits earlier
// (flate asks for len(EOB) bits at a time), which the property allows.
func greedySource(name string) bool {
	return name != "ByteReader" && name != "ReadOnly" && name != "OneBytePerRead" && name != "DataWithEOF"
}

func runC09(r *vhlib.Run) {
	rng := r.Rng
	// lifecycle histories of flate.Reader (Read / Close / Reset in any order over scripted sources)
	// against the implementation-level model, per call (Flate/ImplLife.v)
	wfllife(r)
	// xflate.Reader over streams whose index is consistent but whose chunks are DAMAGED DEFLATE (bytes handed
	// over together with the error or with io.EOF), live against the Reader model, per call
	runWXRLatch(r)
	// lifecycle histories of bzip2.Reader against the implementation-level model, per call (Bzip2/ImplLife.v)
	wbzlife(r)
	// meta.Reader itself against its implementation-level model, per call (Meta/ReaderImpl.v)
	runWMETAR(r)
	nValid, maxPlain := 14, 1500
	if !r.Quick() {
		nValid, maxPlain = 60, 30000
	}
	base := srcKinds()[0]
	for _, c := range codecs() {
		for i := 0; i < nValid; i++ {
			s := c.Valid(rng, maxPlain)
			full := observe(c, s.Data, base, []int{4096}, rng)
			replay := map[string]interface{}{"codec": c.Name, "input": vhlib.Hex(s.Data)}
			if full.Cls != "nil" || !bytes.Equal(full.Out, s.Plain) {
				r.Hist["generator-not-valid:"+c.Name]++
				continue
			}
			r.Eval("valid:"+c.Name, true, s.Data)
			if full.Bad != "" {
				r.Violate("contract", c.Name+": "+full.Bad, replay)
			}
			// stream boundaries for multi-stream bzip2: where libbz2 consumed whole streams
			boundary := map[int]bool{}
			if c.Multi {
				for k := 1; k < len(s.Data); k++ {
					if k+3 <= len(s.Data) && string(s.Data[k:k+3]) == "BZh" {
						if _, ok, used, _, _ := ref.BZDecompress(s.Data[:k], len(s.Plain)+16); ok && used == k {
							boundary[k] = true
						}
					}
				}
			}
			// every proper prefix (or a sample)
			cuts := []int{}
			if len(s.Data) <= 500 || !r.Quick() && len(s.Data) <= 4000 {
				for k := 0; k < len(s.Data); k++ {
					cuts = append(cuts, k)
				}
			} else {
				for k := 0; k < 64; k++ {
					cuts = append(cuts, rng.Intn(len(s.Data)))
				}
				cuts = append(cuts, 0, 1, 2, len(s.Data)-1, len(s.Data)-2)
			}
			for _, k := range cuts {
				sk := srcKinds()[rng.Intn(8)]
				o := observe(c, s.Data[:k], sk, schedule(rng, rng.Intn(5)), rng)
				rp := map[string]interface{}{"codec": c.Name, "input": vhlib.Hex(s.Data), "cut": k, "source": sk.Name}
				r.Eval("cut:"+c.Name, true, s.Data, []byte(fmt.Sprint(k)))
				want := "UEOF"
				if boundary[k] {
					want = "nil"
				}
				if c.Name == "meta" {
					// a cut exactly between meta blocks is a clean EOF; otherwise UEOF
					if o.Cls != "UEOF" && o.Cls != "nil" {
						r.Violate("truncation-class", fmt.Sprintf("%s cut=%d class=%s", c.Name, k, o.Cls), rp)
					}
				} else if o.Cls != want {
					r.Violate("truncation-class", fmt.Sprintf("%s cut=%d/%d class=%s want=%s", c.Name, k, len(s.Data), o.Cls, want), rp)
				}
				if !isPrefix(o.Out, s.Plain) {
					r.Violate("truncation-wrong-byte", fmt.Sprintf("%s cut=%d", c.Name, k), rp)
				}
				if o.Bad != "" {
					r.Violate("contract", c.Name+": "+o.Bad, rp)
				}
				if o.Panic != "" {
					r.Violate("panic", o.Panic, rp)
				}
				if c.Name == "flate" && greedySource(sk.Name) {
					r.Case("inflate", []string{vhlib.Hex(s.Data[:k])}, decObs{cls: o.Cls, out: o.Out, inOff: o.In}.String())
				}
			}
			// malformed: mutations
			for m := 0; m < 12; m++ {
				d := gen.Mutate(rng, s.Data)
				sk := srcKinds()[rng.Intn(8)]
				o := observe(c, d, sk, schedule(rng, rng.Intn(5)), rng)
				rp := map[string]interface{}{"codec": c.Name, "input": vhlib.Hex(d), "source": sk.Name}
				r.Eval("mutated:"+c.Name, true, d)
				r.Hist["class:"+c.Name+":"+o.Cls]++
				if !allowedReaderClasses[o.Cls] {
					r.Violate("error-class", fmt.Sprintf("%s class=%s err=%v", c.Name, o.Cls, o.Err), rp)
				}
				if o.Bad != "" {
					r.Violate("contract", c.Name+": "+o.Bad, rp)
				}
				if c.Name == "flate" && greedySource(sk.Name) {
					r.Case("inflate", []string{vhlib.Hex(d)}, decObs{cls: o.Cls, out: o.Out, inOff: o.In}.String())
				}
			}
			// failing source at every position (quick: sampled)
			var ats []int
			if len(s.Data) < 120 || !r.Quick() && len(s.Data) < 1500 {
				for k := 0; k <= len(s.Data); k++ {
					ats = append(ats, k)
				}
			} else {
				for k := 0; k < 24; k++ {
					ats = append(ats, rng.Intn(len(s.Data)+1))
				}
			}
			for _, at := range ats {
				for _, sk := range failSrcKinds(at) {
					failFired = 0
					o := observe(c, s.Data, sk, schedule(rng, rng.Intn(5)), rng)
					rp := map[string]interface{}{"codec": c.Name, "input": vhlib.Hex(s.Data), "fail_at": at, "source": sk.Name}
					r.Eval("srcfail:"+c.Name, true, s.Data, []byte(fmt.Sprint(at, sk.Name)))
					ok := o.Cls == "Src7" || (o.Cls == "nil" && bytes.Equal(o.Out, s.Plain))
					// (a source that fails ONCE, handing its error over together with data, and then works again:
					// the Reader may go on - a bufio layer hands such an error over only when it runs dry - but
					// if it does report the error, the report is sticky like any other: checked inside observe)
					if se, isS := o.Err.(*vhlib.SentinelErr); o.Cls == "Src7" && (!isS || se.Tag != 7) {
						ok = false
					}
					if !ok {
						r.Violate("source-error-not-verbatim", fmt.Sprintf("%s at=%d src=%s class=%s err=%v", c.Name, at, sk.Name, o.Cls, o.Err), rp)
					}
					if !isPrefix(o.Out, s.Plain) {
						r.Violate("wrong-byte-before-source-error", c.Name, rp)
					}
					if o.Bad != "" {
						r.Violate("contract", c.Name+": "+o.Bad, rp)
					}
				}
			}
		}
	}
	// xflate.Reader: truncated and mutated containers
	for i := 0; i < nValid; i++ {
		sink, plain, ok := makeXFStream(randXWConfig(rng), randXWOps(rng, 2+rng.Intn(10), 40))
		if !ok {
			continue
		}
		for m := 0; m < 30; m++ {
			d := sink
			if m%2 == 0 {
				d = sink[:rng.Intn(len(sink))]
			} else {
				d = gen.Mutate(rng, sink)
			}
			r.Eval("xflate", true, d)
			rp := map[string]interface{}{"codec": "xflate", "input": vhlib.Hex(d)}
			func() {
				defer func() {
					if p := recover(); p != nil {
						r.Violate("panic", fmt.Sprint(p), rp)
					}
				}()
				xr, err := xflate.NewReader(bytes.NewReader(d), nil)
				cls := vhlib.ErrClass(err)
				var out []byte
				if err == nil {
					var e error
					buf := make([]byte, 64)
					for e == nil {
						var n int
						n, e = xr.Read(buf)
						out = append(out, buf[:n]...)
					}
					cls = vhlib.ErrClass(e)
					if e == io.EOF {
						cls = "nil"
					}
					for k := 0; k < 2; k++ {
						if n, e2 := xr.Read(buf); n != 0 || e2 != e {
							r.Violate("contract", fmt.Sprintf("xflate: after %v later Read gave (%d,%v)", e, n, e2), rp)
						}
					}
					ce := xr.Close()
					if (e == io.EOF) != (ce == nil) {
						r.Violate("contract", fmt.Sprintf("xflate: Close after %v returned %v", e, ce), rp)
					}
				}
				r.Hist["class:xflate:"+cls]++
				if !allowedReaderClasses[cls] {
					r.Violate("error-class", fmt.Sprintf("xflate class=%s", cls), rp)
				}
				if cls != "nil" && !isPrefix(out, plain) && m%2 == 0 {
					r.Violate("truncation-wrong-byte", "xflate", rp)
				}
			}()
		}
	}
	// xflate.Reader: a fault or corruption inside a chunk, reached by Seek into the
	// middle of that chunk (the skip-ahead path) and by sequential reading
	for i := 0; i < nValid; i++ {
		data := vhlib.RandBytes(rng, 3000+rng.Intn(3000))
		sink, _, ok := makeXFStream(xwCfg{Level: []int{-1, 1, 6}[rng.Intn(3)], ChunkSize: 1000, Index: 4}, []xwOp{{Kind: 'w', Data: data}, {Kind: 'c'}})
		if !ok {
			continue
		}
		for m := 0; m < 12; m++ {
			// choose a raw position, damage the compressed stream somewhere before the
			// end of the chunk holding it
			target := int64(rng.Intn(len(data)))
			dmg := rng.Intn(len(sink) * 2 / 3)
			bad := append([]byte{}, sink...)
			var src io.ReadSeeker
			kind := "corrupt-byte"
			if m%2 == 0 {
				bad[dmg] ^= 1 << uint(rng.Intn(8))
				src = bytes.NewReader(bad)
			} else {
				kind = "source-fault"
				src = &faultSeeker{R: bytes.NewReader(sink), From: int64(dmg), To: int64(dmg + 1 + rng.Intn(50)), Err: &vhlib.SentinelErr{Tag: 7}}
			}
			rp := map[string]interface{}{"codec": "xflate", "stream": vhlib.Hex(sink), "damage_at": dmg, "kind": kind, "seek_to": target}
			r.Eval("xflate-seek-"+kind, true, sink, []byte(fmt.Sprint(dmg, target, m)))
			func() {
				defer func() {
					if p := recover(); p != nil {
						r.Violate("panic", fmt.Sprint(p), rp)
					}
				}()
				xr, err := xflate.NewReader(src, nil)
				if err != nil {
					if !allowedReaderClasses[vhlib.ErrClass(err)] && vhlib.ErrClass(err) != "Src7" {
						r.Violate("error-class", "xflate open: "+vhlib.ErrClass(err), rp)
					}
					return
				}
				if fs, ok := src.(*faultSeeker); ok {
					fs.Armed = true
				}
				if _, err := xr.Seek(target, io.SeekStart); err != nil {
					return
				}
				buf := make([]byte, 700)
				var first error
				for k := 0; k < 12 && first == nil; k++ {
					_, first = xr.Read(buf)
				}
				if first == nil || first == io.EOF {
					return // the damage was not on the path
				}
				cls := vhlib.ErrClass(first)
				if !allowedReaderClasses[cls] && cls != "Src7" {
					r.Violate("error-class", "xflate: "+cls, rp)
				}
				if kind == "source-fault" && cls != "Src7" {
					r.Violate("source-error-not-verbatim", "xflate: "+cls, rp)
				}
				for k := 0; k < 2; k++ {
					if n, e2 := xr.Read(buf); n != 0 || e2 != first {
						r.Violate("contract", fmt.Sprintf("xflate: after %v a later Read returned (%d, %v)", first, n, e2), rp)
					}
				}
				if ce := xr.Close(); ce == nil {
					r.Violate("contract", fmt.Sprintf("xflate: Close after %v returned nil", first), rp)
				}
			}()
		}
	}
	// xflate.NewReader: the source fails while the footer or one of the index blocks is
	// being loaded (every region of the tail of the stream, and from the k-th Read on)
	for i := 0; i < nValid; i++ {
		data := vhlib.RandBytes(rng, 500+rng.Intn(2500))
		sink, _, ok := makeXFStream(xwCfg{Level: 6, ChunkSize: 300, Index: []int64{-1, 1, 2, 3}[rng.Intn(4)]}, []xwOp{{Kind: 'w', Data: data}, {Kind: 'c'}})
		if !ok {
			continue
		}
		for m := 0; m < 24; m++ {
			from := rng.Intn(len(sink))
			fs := &faultSeeker{R: bytes.NewReader(sink), From: int64(from), To: int64(from + 1 + rng.Intn(40)), Err: &vhlib.SentinelErr{Tag: 7}, Armed: true}
			rp := map[string]interface{}{"codec": "xflate", "stream": vhlib.Hex(sink), "source_fails_in": []int64{fs.From, fs.To}}
			r.Eval("xflate-open-source-fault", true, sink, []byte(fmt.Sprint(from, fs.To)))
			func() {
				defer func() {
					if p := recover(); p != nil {
						r.Violate("panic", fmt.Sprint(p), rp)
					}
				}()
				xr, err := xflate.NewReader(fs, nil)
				if err == nil {
					// the failing range was not touched while opening; drain it
					buf := make([]byte, 512)
					for k := 0; k < 64 && err == nil; k++ {
						_, err = xr.Read(buf)
					}
					if err == nil || err == io.EOF {
						r.Hist["xflate-open-fault:not-on-path"]++
						return
					}
				}
				cls := vhlib.ErrClass(err)
				r.Hist["xflate-open-fault:"+cls]++
				if cls != "Src7" {
					r.Violate("source-error-not-verbatim", "xflate: the source failed with its own error, the Reader reports "+cls, rp)
				}
			}()
		}
	}
	r.Sample(map[string]interface{}{"codec": "flate", "cut": 3, "of": "4b4c84010000", "expect": "UEOF"})
}
