package main

// WFLLIFE: the LIFECYCLE of the real flate.Reader against its implementation-level model
// (coq/Flate/ImplLife.v: fl_close / fl_op / fl_ops / fl_life over coq/Flate/Impl.v), per call.
// One Reader is driven through a history of Read (buffer sizes incl. 0), Close (before the
// first Read, in the middle of a block, after an error, after io.EOF, twice, ...) and Reset
// (after any of these, onto valid / corrupt / truncated / empty streams, both source kinds).
// After EVERY call the observation is: bytes delivered, error class, InputOffset,
// OutputOffset, position of the current scripted source.
//
// Next to the correspondence the run checks directly, on the real Reader, what
// coq/Flate/ImplLifeThms.v proves of the model (fl_error_sticky, fl_closed_inert): a latched
// error is returned again with no bytes and nothing moves; Close returns nil after io.EOF /
// Close and the latched error otherwise, and never touches the source or the offsets.

import (
	"fmt"
	"io"
	"math/rand"
	"strings"

	"github.com/dsnet/compress/flate"
	"github.com/dsnet/compress/xflate/verifharness/gen"
	"github.com/dsnet/compress/xflate/verifharness/vhlib"
)

func init() { props["WFLLIFE"] = wfllife }

// lifeRun drives one real Reader and records the history as the model is asked to replay it.
type lifeRun struct {
	r      *vhlib.Run
	zr     *flate.Reader
	src    *scriptSrc
	args   []string
	obs    []string
	all    []byte // every stream, for the evidence hash
	dead   bool   // a call crashed: the history ends
	expect string // class of the error a Read is known to return next ("" = not known)
	calls  int
}

func lifeSource(s flStream) (*scriptSrc, io.Reader) {
	src := &scriptSrc{B: s.data, Fills: append([]int{}, s.fills...), Reads: append([]int{}, s.reads...)}
	var rd io.Reader = src
	if !s.buffered {
		rd = byteOnlyView{scriptByteSrc{src}}
	}
	return src, rd
}

func lifeHex(b []byte) string {
	if len(b) == 0 {
		return "-"
	}
	return vhlib.Hex(b)
}

func newLife(r *vhlib.Run, s flStream) *lifeRun {
	l := &lifeRun{r: r}
	src, rd := lifeSource(s)
	l.src = src
	l.zr, _ = flate.NewReader(rd, nil)
	l.args = []string{lifeHex(s.data), fmt.Sprint(b2i(s.buffered)), joinInts(s.fills), joinInts(s.reads)}
	l.all = append(l.all, s.data...)
	return l
}

func (l *lifeRun) state() string {
	return fmt.Sprintf("%d:%d:%d", l.zr.InputOffset, l.zr.OutputOffset, l.src.Pos)
}

func (l *lifeRun) replay() interface{} {
	return map[string]interface{}{"type": "flate.Reader", "case": strings.Join(l.args, " ")}
}

// Read(make([]byte, n))
func (l *lifeRun) Read(n int) (cnt int, err error) {
	if l.dead {
		return 0, io.ErrClosedPipe
	}
	l.calls++
	l.args = append(l.args, fmt.Sprintf("r%d", n))
	before := l.state()
	buf := make([]byte, n)
	crashed := false
	func() {
		defer func() {
			if p := recover(); p != nil {
				crashed = true
			}
		}()
		cnt, err = l.zr.Read(buf)
	}()
	if crashed {
		l.obs = append(l.obs, "Panic")
		l.dead = true
		l.r.Violate("panic", "flate.Reader.Read panicked", l.replay())
		return 0, io.ErrClosedPipe
	}
	cls := vhlib.ErrClass(err)
	l.obs = append(l.obs, fmt.Sprintf("r:%s:%s:%s", fmtBytes(buf[:cnt]), cls, l.state()))
	if l.expect != "" {
		// fl_error_sticky / fl_closed_inert
		if cnt != 0 || cls != l.expect || l.state() != before {
			l.r.Violate("latched-error-not-sticky",
				fmt.Sprintf("call %d: Read after %s returned (%d,%s), state %s -> %s", l.calls, l.expect, cnt, cls, before, l.state()), l.replay())
		}
	}
	if err != nil {
		l.expect = cls
	}
	return cnt, err
}

func (l *lifeRun) Close() error {
	if l.dead {
		return nil
	}
	l.calls++
	l.args = append(l.args, "c")
	before := l.state()
	var err error
	crashed := false
	func() {
		defer func() {
			if p := recover(); p != nil {
				crashed = true
			}
		}()
		err = l.zr.Close()
	}()
	if crashed {
		l.obs = append(l.obs, "Panic")
		l.dead = true
		l.r.Violate("panic", "flate.Reader.Close panicked", l.replay())
		return nil
	}
	cls := vhlib.ErrClass(err)
	l.obs = append(l.obs, fmt.Sprintf("c:%s:%s", cls, l.state()))
	if l.state() != before {
		l.r.Violate("close-moved-state", fmt.Sprintf("call %d: Close changed %s -> %s", l.calls, before, l.state()), l.replay())
	}
	switch {
	case l.expect == "EOF" || l.expect == "Closed":
		if err != nil {
			l.r.Violate("close-not-idempotent", fmt.Sprintf("call %d: Close after %s returned %s", l.calls, l.expect, cls), l.replay())
		}
		l.expect = "Closed"
	case l.expect != "":
		if cls != l.expect {
			l.r.Violate("close-hides-error", fmt.Sprintf("call %d: Close after %s returned %s", l.calls, l.expect, cls), l.replay())
		}
	case err != nil:
		// an error was latched behind pending output: it is sticky from now on
		l.expect = cls
	}
	return err
}

func (l *lifeRun) Reset(s flStream) {
	if l.dead {
		return
	}
	l.calls++
	src, rd := lifeSource(s)
	l.args = append(l.args, fmt.Sprintf("R/%s/%d/%s/%s", lifeHex(s.data), b2i(s.buffered), joinInts(s.fills), joinInts(s.reads)))
	l.all = append(l.all, s.data...)
	err := l.zr.Reset(rd)
	l.src = src
	l.expect = ""
	l.obs = append(l.obs, fmt.Sprintf("R:%s:%s", vhlib.ErrClass(err), l.state()))
}

func (l *lifeRun) emit(kind string) {
	l.r.Eval("fllife:"+kind, true, l.all, []byte(strings.Join(l.args, " ")))
	obs := "-"
	if len(l.obs) > 0 {
		obs = strings.Join(l.obs, ",")
	}
	l.r.Case("fllife", l.args, obs)
}

// readUntilErr: Reads with sizes from sched (the last one repeats) until an error comes back.
func (l *lifeRun) readUntilErr(sched []int, max int) error {
	for i := 0; i < max && !l.dead; i++ {
		n := sched[len(sched)-1]
		if i < len(sched) {
			n = sched[i]
		}
		if _, err := l.Read(n); err != nil {
			return err
		}
	}
	return nil
}

var lifeSizes = []int{0, 0, 1, 1, 2, 3, 7, 16, 100, 257, 258, 259, 1000, 4095, 4096, 4097, 70000}

func lifeSize(rng *rand.Rand) int { return lifeSizes[rng.Intn(len(lifeSizes))] }

// lifeData: one input of the given family.
func lifeData(rng *rand.Rand, fam int) ([]byte, string) {
	for {
		var d []byte
		var kind string
		switch fam {
		case 0:
			d, kind = gen.StdDeflate(rng, gen.Plain(rng, 1500), 1+rng.Intn(9)), "valid-std"
		case 1:
			d, kind = gen.SynthFlate(rng, 0).Data, "valid-synth"
		case 2:
			d, kind = gen.SynthFlate(rng, 1+rng.Intn(12)).Data, "broken-rule"
		case 3:
			d, kind = gen.Mutate(rng, gen.SynthFlate(rng, 0).Data), "mutated"
		case 4:
			d = gen.SynthFlate(rng, 0).Data
			if rng.Intn(2) == 0 {
				d = gen.StdDeflate(rng, gen.Plain(rng, 2000), 6)
			}
			d, kind = d[:rng.Intn(len(d)+1)], "truncated"
		case 5:
			d, kind = nil, "empty"
		case 6:
			d, kind = minBitsWitness(rng.Intn(3)), "minbits"
		case 7:
			d, kind = gen.SynthShortEOB(rng).Data, "short-eob"
		case 8:
			d, kind = vhlib.RandBytes(rng, rng.Intn(6)), "tiny"
		default:
			// more than one initial window (4096) of output, compressible
			unit := vhlib.RandBytes(rng, 1+rng.Intn(300))
			var p []byte
			for len(p) < 4200+rng.Intn(6000) {
				p = append(p, unit...)
			}
			d, kind = gen.StdDeflate(rng, p, 6), "valid-window"
		}
		if len(d) <= 3000 {
			return d, kind
		}
	}
}

func lifeStreamOf(rng *rand.Rand) (flStream, string) {
	fam := []int{0, 0, 0, 1, 1, 1, 2, 2, 3, 3, 3, 4, 4, 4, 5, 6, 6, 7, 7, 8, 8, 0, 1, 9}[rng.Intn(24)]
	d, kind := lifeData(rng, fam)
	fills, reads := flScript(rng)
	return flStream{data: d, buffered: rng.Intn(2) == 0, fills: fills, reads: reads}, kind
}

// one random call
func (l *lifeRun) randomOp(rng *rand.Rand) {
	switch x := rng.Intn(20); {
	case x < 13:
		l.Read(lifeSize(rng))
	case x < 17:
		l.Close()
	default:
		s, _ := lifeStreamOf(rng)
		l.Reset(s)
	}
}

func wfllife(r *vhlib.Run) {
	rng := r.Rng
	nRand, nScen := 300, 40
	if !r.Quick() {
		nRand, nScen = 6000, 750
	}

	// ---- fixed witnesses ---------------------------------------------------------------------
	hello := []byte(strings.Repeat("hello, world; ", 40))
	for _, bf := range []bool{true, false} {
		// Close in the middle of a stream latches nothing: pending output is dropped, the
		// next Read goes on decoding (recorded behaviour, ImplLifeThms.v fl_close_midstream_witness)
		l := newLife(r, flStream{data: gen.StdDeflate(rand.New(rand.NewSource(7)), hello, 6), buffered: bf})
		l.Read(5)
		l.Close()
		l.readUntilErr([]int{100}, 50)
		l.Close()
		l.Read(1)
		l.emit("witness-midstream-close")

		// a dynamic block that fails in the middle (tail 0: corrupt copy; 1: input ends after
		// three literals) or ends well (2): sticky error, Close returns it / nil, twice
		for tail := 0; tail < 3; tail++ {
			l = newLife(r, flStream{data: minBitsWitness(tail), buffered: bf})
			l.readUntilErr([]int{1}, 50)
			l.Read(10)
			l.Read(0)
			l.Close()
			l.Read(10)
			l.Close()
			l.emit("witness-failed-dynamic")
		}

		// Reset over a grown window: the same stream is delivered in other pieces than by a
		// new Reader (ImplLifeThms.v fl_reset_capacity_witness)
		big := make([]byte, 0, 20000)
		for len(big) < 20000 {
			big = append(big, hello...)
		}
		mid := append([]byte{}, big[:6000]...)
		sb := flStream{data: gen.StdDeflate(rand.New(rand.NewSource(9)), mid, 6), buffered: bf}
		l = newLife(r, sb)
		l.readUntilErr([]int{100000}, 50)
		l.emit("witness-capacity-new")
		l = newLife(r, flStream{data: gen.StdDeflate(rand.New(rand.NewSource(8)), big, 6), buffered: bf})
		l.readUntilErr([]int{100000}, 50)
		l.Reset(sb)
		l.readUntilErr([]int{100000}, 50)
		l.emit("witness-capacity-reset")
	}

	// ---- scenarios: every lifecycle situation the properties name ---------------------------------
	for i := 0; i < nScen; i++ {
		for sc := 0; sc < 8; sc++ {
			s, kind := lifeStreamOf(rng)
			l := newLife(r, s)
			sched := flSched(rng, false)
			switch sc {
			case 0: // Close before the first Read, then Reads, Close again
				l.Close()
				l.Read(lifeSize(rng))
				l.Read(lifeSize(rng))
				l.Close()
				l.Read(lifeSize(rng))
			case 1: // to the end (io.EOF or an error), then more Reads, Close twice, Read
				l.readUntilErr(sched, 300)
				l.Read(lifeSize(rng))
				l.Read(0)
				l.Close()
				l.Close()
				l.Read(lifeSize(rng))
				l.Close()
			case 2: // a few Reads, Close in the middle, Reads to the end, Close
				for k := rng.Intn(4); k >= 0; k-- {
					l.Read(lifeSize(rng))
				}
				l.Close()
				l.readUntilErr(sched, 300)
				l.Close()
				l.Read(lifeSize(rng))
			case 3: // small Reads so that an error is latched behind pending output, then Close
				l.Read(1 + rng.Intn(3))
				l.Read(1 + rng.Intn(3))
				l.Close()
				l.Read(lifeSize(rng))
				l.Close()
			case 4: // Reset after the end / an error / Close, then the second stream to its end
				l.readUntilErr(sched, 300)
				if rng.Intn(2) == 0 {
					l.Close()
				}
				s2, _ := lifeStreamOf(rng)
				l.Reset(s2)
				l.readUntilErr(flSched(rng, false), 300)
				l.Close()
				l.Read(lifeSize(rng))
			case 5: // Reset in the middle, after a Close in the middle, twice in a row
				for k := rng.Intn(5); k >= 0; k-- {
					l.Read(lifeSize(rng))
				}
				if rng.Intn(2) == 0 {
					l.Close()
				}
				s2, _ := lifeStreamOf(rng)
				l.Reset(s2)
				if rng.Intn(3) == 0 {
					s3, _ := lifeStreamOf(rng)
					l.Reset(s3)
				}
				l.readUntilErr(flSched(rng, false), 300)
				l.Read(lifeSize(rng))
				l.Close()
			case 6: // closed, then Reset revives it
				l.readUntilErr(sched, 300)
				l.Close()
				l.Read(lifeSize(rng))
				s2, _ := lifeStreamOf(rng)
				l.Reset(s2)
				l.Read(lifeSize(rng))
				l.Close()
				l.Read(lifeSize(rng))
				s3, _ := lifeStreamOf(rng)
				l.Reset(s3)
				l.readUntilErr(flSched(rng, false), 300)
			default: // Reset straight after NewReader / after a Close before any Read
				if rng.Intn(2) == 0 {
					l.Close()
				}
				s2, _ := lifeStreamOf(rng)
				l.Reset(s2)
				l.readUntilErr(sched, 300)
				l.Close()
			}
			l.emit(fmt.Sprintf("scenario%d-%s", sc, kind))
		}
	}

	// ---- random histories ---------------------------------------------------------------------------
	for i := 0; i < nRand; i++ {
		s, kind := lifeStreamOf(rng)
		l := newLife(r, s)
		for k := 1 + rng.Intn(30); k > 0; k-- {
			l.randomOp(rng)
		}
		l.emit("random-" + kind)
	}
}
