package main

import (
	"fmt"
	"math/rand"
	"strings"

	"github.com/dsnet/compress/brotli"
	"github.com/dsnet/compress/xflate/verifharness/vhlib"
)

// WDICTBR: brotli.dictDecoder against coq/Window/DictBr.v. Same script language as WDICT
// without b (WriteByte) and t (TryWriteCopy), plus l (LastBytes).

func init() { props["WDICTBR"] = wdictbr }

func wdbRun(size int, recycled string, gen func(d wdQuery, k int) string) (ops, obs []string) {
	var d brotli.VerifDict
	failed := false
	do := func(f func()) {
		defer func() {
			if p := recover(); p != nil {
				obs = append(obs, "PANIC")
				failed = true
			}
		}()
		f()
	}
	do(func() { d.InitWith(size, wdRecycled(recycled)); obs = append(obs, "u") })
	for k := 0; !failed; k++ {
		o := gen(&d, k)
		if o == "" {
			break
		}
		ops = append(ops, o)
		f := strings.Split(o, ":")
		atoi := func(s string) int { var x int; fmt.Sscan(s, &x); return x }
		do(func() {
			switch f[0] {
			case "i":
				d.Init(atoi(f[1]))
				obs = append(obs, "u")
			case "c":
				obs = append(obs, fmt.Sprint(d.WriteCopy(atoi(f[1]), atoi(f[2]))))
			case "r":
				obs = append(obs, fmt.Sprint(d.WriteRaw(vhlib.UnHex(f[1]))))
			case "R":
				obs = append(obs, fmt.Sprint(d.WriteRaw(patBytes(atoi(f[2]), atoi(f[1])))))
			case "f":
				obs = append(obs, vhlib.Hex(d.ReadFlush()))
			case "h":
				obs = append(obs, fmt.Sprint(d.HistSize()))
			case "a":
				obs = append(obs, fmt.Sprint(d.AvailSize()))
			case "l":
				p1, p2 := d.LastBytes()
				obs = append(obs, vhlib.Hex([]byte{p1, p2}))
			}
		})
	}
	if !failed {
		l, c, w, r, full := d.Shape()
		obs = append(obs, fmt.Sprintf("s:%d:%d:%d:%d:%d", l, c, w, r, b2i(full)))
	}
	return ops, obs
}

// wdbGen adapts the flate generator: single bytes become one-byte raw writes (that is how
// brotli writes literals), TryWriteCopy becomes WriteCopy, and LastBytes is sprinkled in.
func wdbGen(rng *rand.Rand, inner func(d wdQuery, k int) string, lastOK bool) func(d wdQuery, k int) string {
	k2 := 0
	return func(d wdQuery, k int) string {
		if lastOK && rng.Intn(5) == 0 {
			return "l"
		}
		o := inner(d, k2)
		k2++
		switch {
		case strings.HasPrefix(o, "b:"):
			var c int
			fmt.Sscanf(o, "b:%d", &c)
			return fmt.Sprintf("r:%02x", c)
		case strings.HasPrefix(o, "t:"):
			return "c" + o[1:]
		}
		return o
	}
}

func wdictbr(r *vhlib.Run) {
	rng := r.Rng
	emit := func(bucket string, size int, recycled string, gen func(wdQuery, int) string) {
		ops, obs := wdbRun(size, recycled, gen)
		args := append([]string{fmt.Sprint(size), recycled}, ops...)
		r.Eval("wdictbr:"+bucket, true, []byte(strings.Join(args, " ")))
		r.Case("wdictbr", args, strings.Join(obs, ","))
	}
	recycled := func(size, minCap int) string {
		switch rng.Intn(6) {
		case 0:
			return "nil"
		case 1:
			return vhlib.Hex(vhlib.RandBytes(rng, minCap+rng.Intn(3)))
		case 2:
			return vhlib.Hex(vhlib.RandBytes(rng, size))
		case 3:
			return vhlib.Hex(vhlib.RandBytes(rng, size+1+rng.Intn(9)))
		default:
			return vhlib.Hex(vhlib.RandBytes(rng, minCap+rng.Intn(size+3)))
		}
	}
	n := 3000
	nbig := 2
	if !r.Quick() {
		n = 40000
		nbig = 8
	}
	// small windows with at least two bytes of buffer (LastBytes needs them)
	for i := 0; i < n; i++ {
		size := 2 + rng.Intn(63)
		if i%4 == 0 {
			size = 2 + rng.Intn(7)
		}
		emit("small", size, recycled(size, 2), wdbGen(rng, wdGen(rng, 5+rng.Intn(60), false, 0, 0), false))
	}
	// the same with LastBytes; re-Init may pick size 1, where LastBytes panics or misreports:
	// the model must agree there too
	for i := 0; i < n; i++ {
		size := 1 + rng.Intn(40)
		emit("last", size, recycled(size, rng.Intn(3)), wdbGen(rng, wdGen(rng, 5+rng.Intn(40), false, 0, 0), true))
	}
	// outside the protocol
	for i := 0; i < n/4; i++ {
		size := 1 + rng.Intn(40)
		emit("rogue", size, recycled(size, 0), wdbGen(rng, wdGen(rng, 5+rng.Intn(40), false, 80, 0), true))
	}
	// brotli window sizes (1<<wbits)-16 and the growth constants
	for _, size := range []int{1008, 4080, 4096, 4097, 16368, 32752, 65520} {
		for j := 0; j < nbig; j++ {
			rec := "nil"
			switch rng.Intn(5) {
			case 0:
				rec = fmt.Sprintf("p%d:%d", 2+rng.Intn(300), rng.Intn(256))
			case 1:
				rec = fmt.Sprintf("p%d:%d", []int{1024, 4096, 4097, size - 1, size, size + 1, size + 5000}[rng.Intn(7)], rng.Intn(256))
			}
			target := size*3 + rng.Intn(size*2)
			emit(fmt.Sprintf("big%d", size), size, rec, wdbGen(rng, wdGen(rng, 0, true, 0, target), true))
		}
	}
}
