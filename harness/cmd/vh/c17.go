package main

import (
	"bytes"
	"fmt"
	"io"
	"sort"
	"strconv"
	"strings"

	"github.com/dsnet/compress/xflate"
	"github.com/dsnet/compress/xflate/verifharness/vhlib"
)

func init() { props["C17"] = runC17 }

type span struct{ Off, Len int64 }

func parseLog(s string) []span {
	var out []span
	for _, f := range strings.Split(s, ";") {
		p := strings.Split(f, "+")
		if len(p) != 2 {
			continue
		}
		a, _ := strconv.ParseInt(p[0], 10, 64)
		b, _ := strconv.ParseInt(p[1], 10, 64)
		out = append(out, span{a, b})
	}
	return out
}

// covered reports whether every byte of [o, o+l) lies in the union of spans.
func covered(o, l int64, spans []span) bool {
	sort.Slice(spans, func(i, j int) bool { return spans[i].Off < spans[j].Off })
	pos := o
	for _, s := range spans {
		if s.Off > pos {
			break
		}
		if s.Off+s.Len > pos {
			pos = s.Off + s.Len
		}
		if pos >= o+l {
			return true
		}
	}
	return pos >= o+l
}

func total(spans []span) (t int64) {
	for _, s := range spans {
		t += s.Len
	}
	return
}

func runC17(r *vhlib.Run) {
	rng := r.Rng
	m := vhlib.StartModel()
	defer m.Close()
	type scfg struct {
		cfg  xwCfg
		size int
		name string
		idle bool // data chunks separated by runs of empty FlushFull chunks
	}
	cfgs := []scfg{
		{xwCfg{Level: 6, ChunkSize: 5, Index: 3}, 900, "180chunks-60indexes", false},
		{xwCfg{Level: -1, ChunkSize: 16, Index: -1}, 800, "50chunks-1index", false},
		{xwCfg{Level: 1, ChunkSize: 7, Index: 1}, 210, "30chunks-chain", false},
	}
	cfgs = append(cfgs,
		scfg{xwCfg{Level: 6, ChunkSize: 64, Index: -1}, 400, "idle-flush-runs-1index", true},
		scfg{xwCfg{Level: 6, ChunkSize: 32, Index: 16}, 400, "idle-flush-runs-index16", true})
	// more records than one index block of the default size (4096) would hold, in one index and in many
	cfgs = append(cfgs, scfg{xwCfg{Level: 6, ChunkSize: 4, Index: -1}, 4 * 4400, "4400chunks-1index", false})
	if !r.Quick() {
		cfgs = append(cfgs, scfg{xwCfg{Level: 6, ChunkSize: 64, Index: 8}, 40000, "625chunks", false},
			scfg{xwCfg{Level: 1, ChunkSize: 3, Index: 64}, 3 * 9000, "9000chunks-index64", false})
	}
	for _, sc := range cfgs {
		data := vhlib.RandBytes(rng, sc.size)
		ops := []xwOp{{Kind: 'w', Data: data[:sc.size/3]}, {Kind: 'f', Mode: 1}, {Kind: 'f', Mode: 1}, {Kind: 'w', Data: data[sc.size/3:]}, {Kind: 'c'}}
		var edges []int // uncompressed offsets where a flush happened
		if sc.idle {
			ops = nil
			for off := 0; off < sc.size; {
				n := 20 + rng.Intn(60)
				if off+n > sc.size {
					n = sc.size - off
				}
				ops = append(ops, xwOp{Kind: 'w', Data: data[off : off+n]})
				off += n
				edges = append(edges, off)
				for k := []int{0, 1, 2, 5, 40, 120}[rng.Intn(6)]; k >= 0; k-- {
					ops = append(ops, xwOp{Kind: 'f', Mode: 1})
				}
			}
			ops = append(ops, xwOp{Kind: 'c'})
		}
		sink, plain, ok := makeXFStream(sc.cfg, ops)
		if !ok {
			continue
		}
		// ---- opening
		cs := &countingSeeker{R: bytes.NewReader(sink)}
		xr, err := xflate.NewReader(cs, nil)
		if err != nil {
			r.Violate("open-failed", fmt.Sprint(err), map[string]interface{}{"stream": sc.name})
			continue
		}
		mresp := m.Ask("x xrlog " + vhlib.Hex(sink))
		parts := strings.Split(mresp, "|")
		if len(parts) < 3 {
			r.Violate("model-open-failed", mresp[:min(len(mresp), 80)], map[string]interface{}{"stream": sc.name})
			continue
		}
		openSpans := parseLog(parts[2])
		r.Eval("open:"+sc.name, true, sink)
		rp := map[string]interface{}{"stream": sc.name, "stream_hex": vhlib.Hex(sink), "len": len(sink)}
		for _, rg := range cs.Ranges {
			if !covered(rg[0], rg[1], append([]span{}, openSpans...)) {
				r.Violate("open-reads-outside-index", fmt.Sprintf("read %d+%d is outside footer/index blocks", rg[0], rg[1]), rp)
				break
			}
		}
		// the model's log for opening ends with the first chunk it prepares (not read until Read)
		allowed := total(openSpans)
		if cs.Bytes > allowed {
			r.Violate("open-reads-too-much", fmt.Sprintf("read %d bytes, footer+indexes are %d", cs.Bytes, allowed), rp)
		}
		r.Notes["open:"+sc.name] = map[string]interface{}{"stream_len": len(sink), "bytes_read": cs.Bytes, "model_allowed": allowed, "seeks": cs.Seeks}
		// ---- requests
		nreq := 60
		if !r.Quick() {
			nreq = 600
		}
		if len(sink) > 30000 {
			// the model is asked with the whole stream and the whole history each time
			nreq = 12
			if !r.Quick() {
				nreq = 40
			}
		}
		cur := int64(0) // the Reader's position, for relative seeks
		var hist []string
		prevModel := len(openSpans)
		for q := 0; q < nreq; q++ {
			p := rng.Intn(len(plain) + 3)
			n := []int{1, 3, int(sc.cfg.ChunkSize), int(sc.cfg.ChunkSize) * 3, 50}[rng.Intn(5)]
			if q%7 == 0 && q > 0 {
				p = 0 // backward / repeated
			}
			if len(edges) > 0 && q%2 == 1 {
				p = edges[rng.Intn(len(edges))] - 1 - rng.Intn(20) + rng.Intn(3)
				if p < 0 {
					p = 0
				}
			}
			before := len(cs.Ranges)
			bytesBefore := cs.Bytes
			// the same target position expressed from the start, from the current position (a
			// forward or backward skip, as archive readers do) or from the end
			whence, off := io.SeekStart, int64(p)
			switch rng.Intn(4) {
			case 0:
				whence, off = io.SeekCurrent, int64(p)-cur
			case 1:
				whence, off = io.SeekEnd, int64(p)-int64(len(plain))
			}
			if np, err := xr.Seek(off, whence); err != nil || np != int64(p) {
				r.Violate("wrong-data", fmt.Sprintf("Seek(%d, %d) = %d, %v; want %d", off, whence, np, err, p), rp)
			}
			buf := make([]byte, n)
			got, _ := io.ReadFull(xr, buf)
			cur = int64(p) + int64(got)
			if p <= len(plain) && !bytes.Equal(buf[:got], plain[p:min(p+got, len(plain))]) {
				r.Violate("wrong-data", fmt.Sprintf("p=%d n=%d", p, n), rp)
			}
			hist = append(hist, fmt.Sprintf("s:%d:%d", off, whence), fmt.Sprintf("r:%d", n))
			mresp := m.Ask("x xrlog " + vhlib.Hex(sink) + " " + strings.Join(hist, " "))
			parts := strings.Split(mresp, "|")
			if len(parts) < 3 {
				continue
			}
			all := parseLog(parts[2])
			newSpans := all[min(prevModel, len(all)):]
			// the chunk that was current before this request may also still be read from
			ctx := append([]span{}, newSpans...)
			if prevModel > 0 && prevModel <= len(all) {
				ctx = append(ctx, all[prevModel-1])
			}
			prevModel = len(all)
			r.Eval("request:"+sc.name, true, []byte(fmt.Sprint(sc.name, q, p, n)))
			rq := map[string]interface{}{"stream": sc.name, "stream_hex": vhlib.Hex(sink), "history": append([]string{}, hist...)}
			for _, rg := range cs.Ranges[before:] {
				if !covered(rg[0], rg[1], append([]span{}, ctx...)) {
					r.Violate("request-reads-outside-its-chunks", fmt.Sprintf("Seek(%d)+Read(%d) fetched %d+%d, outside the chunks between p and p+n", p, n, rg[0], rg[1]), rq)
					break
				}
			}
			if cs.Bytes-bytesBefore > total(ctx) {
				r.Violate("request-reads-too-much", fmt.Sprintf("Seek(%d)+Read(%d) fetched %d bytes, its chunks hold %d", p, n, cs.Bytes-bytesBefore, total(ctx)), rq)
			}
		}
	}
	// the WRITER's side of locality: whatever the flush schedule - here a Flush(FlushSync) after
	// every record, several per chunk, as a logger would do - chunks stay within ChunkSize, so a
	// small request anywhere costs about one or two chunks, not the distance from the start
	for _, lvl := range []int{0, 1, 6} {
		const chunk = 64
		cfg := xwCfg{Level: lvl, ChunkSize: chunk, Index: -1}
		var ops []xwOp
		size := 0
		for size < 6000 {
			n := chunk/4 + rng.Intn(chunk/4)
			b := make([]byte, n)
			rng.Read(b)
			ops = append(ops, xwOp{Kind: 'w', Data: b}, xwOp{Kind: 'f', Mode: 0})
			size += n
			if size > 2000 && size < 2000+chunk/2 {
				// the exported statistics fields may be set to any value ("per member" counters): chunking
				// must not follow them
				ops = append(ops, xwOp{Kind: 'o', Mode: 0})
			}
		}
		ops = append(ops, xwOp{Kind: 'c'})
		sink, plain, ok := makeXFStream(cfg, ops)
		if !ok {
			continue
		}
		cs := &countingSeeker{R: bytes.NewReader(sink)}
		xr, err := xflate.NewReader(cs, nil)
		if err != nil {
			r.Violate("open-failed", fmt.Sprint(err), map[string]interface{}{"stream": "sync-flush-per-record"})
			continue
		}
		// incompressible records: a chunk of 64 raw bytes with up to four sync markers and
		// block headers is well below 64+100 compressed bytes; allow three of them
		bound := 3 * (chunk + 100)
		for q := 0; q < 30; q++ {
			p := len(plain) - 1 - rng.Intn(len(plain)/2)
			before := cs.Bytes
			xr.Seek(int64(p), io.SeekStart)
			buf := make([]byte, 16)
			got, _ := io.ReadFull(xr, buf)
			r.Eval("request:sync-flush-per-record", true, []byte(fmt.Sprint(lvl, q, p)))
			if !bytes.Equal(buf[:got], plain[p:min(p+got, len(plain))]) {
				r.Violate("wrong-data", fmt.Sprintf("p=%d", p), map[string]interface{}{"stream": "sync-flush-per-record", "level": lvl})
			}
			if int(cs.Bytes-before) > bound {
				r.Violate("request-reads-too-much", fmt.Sprintf("ChunkSize %d, Flush(FlushSync) after every record of 16..31 bytes: Seek(%d)+Read(16) on a %d-byte stream fetched %d compressed bytes (bound %d = three chunks)", chunk, p, len(plain), cs.Bytes-before, bound),
					map[string]interface{}{"stream": "sync-flush-per-record", "level": lvl, "p": p, "stream_hex": vhlib.Hex(sink)})
				break
			}
		}
	}
	r.Sample(map[string]interface{}{"stream": "180 chunks of 5 bytes, index every 3 chunks", "request": "Seek(700); Read(15)", "allowed": "compressed bytes of chunks 140..143 and the index blocks between them"})
}
