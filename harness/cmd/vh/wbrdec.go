package main

// WBRDEC: brotli's own prefix decoder (brotli/prefix_decoder.go: prefixDecoder.Init in both
// assignCodes modes) and the table walk of bitReader.ReadSymbol / TryReadSymbol against the
// implementation-level model coq/Brotli/PrefixDecoderImpl.v.
//
//   brdectab  <z|g<seed>:<npl>> <assign 0|1> <codes>
//             Init over planted storage (z: fresh; g: chunks of capacity 512 and npl link
//             arrays of capacity 64 full of garbage): outcome, whole dump of the tables and the
//             codes afterwards (values assigned when assign = 1)
//   brdecread <assign> <codes> <hex|-> <mode> <bsz> <reads|-> op...   op = s | t | b:<n>
//             ReadSymbol / TryReadSymbol / ReadBits histories with the whole reader state

import (
	"bufio"
	"fmt"
	"math/rand"
	"strings"

	"github.com/dsnet/compress/brotli"
	"github.com/dsnet/compress/internal/prefix"
	"github.com/dsnet/compress/xflate/verifharness/vhlib"
)

func init() { props["WBRDEC"] = wbrdec }

func brGarbage(seed int, i int) uint32 {
	return uint32((uint64(i)*2654435761 + uint64(seed)*40503 + 12345) & 0xFFFFFFFF)
}

func toBrCodes(codes prefix.PrefixCodes) []brotli.VerifPrefixCode {
	out := make([]brotli.VerifPrefixCode, len(codes))
	for i, c := range codes {
		out[i] = brotli.VerifPrefixCode{Sym: c.Sym, Val: c.Val, Len: c.Len}
	}
	return out
}

func fmtBrCodes(codes []brotli.VerifPrefixCode) string {
	if len(codes) == 0 {
		return "-"
	}
	var s []string
	for _, c := range codes {
		s = append(s, fmt.Sprintf("%d:%d:%d", c.Sym, c.Len, c.Val))
	}
	return strings.Join(s, ",")
}

func brDump(d brotli.VerifDecoder) []uint32 {
	out := []uint32{d.ChunkMask, d.LinkMask, d.ChunkBits, d.MinBits, d.NumSyms, uint32(len(d.Chunks)), uint32(len(d.Links))}
	out = append(out, d.Chunks...)
	for _, l := range d.Links {
		out = append(out, uint32(len(l)))
		out = append(out, l...)
	}
	return out
}

// brPlant: mode string and a decoder with the planted storage
func brPlant(rng *rand.Rand, fresh bool) (string, *brotli.VerifPrefixDecoder) {
	pd := new(brotli.VerifPrefixDecoder)
	if fresh {
		return "z", pd
	}
	seed := rng.Intn(1000)
	npl := []int{0, 1, 2, 5, 40, 600}[rng.Intn(6)]
	chunks := make([]uint32, 512)
	for i := range chunks {
		chunks[i] = brGarbage(seed, i)
	}
	links := make([][]uint32, npl)
	for i := range links {
		links[i] = make([]uint32, 64)
		for j := range links[i] {
			links[i][j] = brGarbage(seed+1+i, j)
		}
	}
	pd.SetStorage(chunks, links)
	return fmt.Sprintf("g%d:%d", seed, npl), pd
}

// brInit: Init with the outcome classified
func brInit(pd *brotli.VerifPrefixDecoder, codes []brotli.VerifPrefixCode, assign bool) (outcome string, after []brotli.VerifPrefixCode) {
	ob, _ := brDoPlain(func() string {
		after = pd.Init(codes, assign)
		return "ok"
	})
	return ob, after
}

// brDoPlain: like brDo without the reader state
func brDoPlain(f func() string) (what string, stop bool) {
	var v brotli.VerifBitReader
	v.Init(strings.NewReader(""))
	s := &brSource{byt: &scriptSrc{}}
	ob, stop := brDo(&v, s, f)
	return ob[:strings.Index(ob, "/")], stop
}

func runBrDecOps(v *brotli.VerifBitReader, s *brSource, pd *brotli.VerifPrefixDecoder, ops []dtOp) (obs []string) {
	for _, o := range ops {
		o := o
		ob, stop := brDo(v, s, func() string {
			switch o.Kind {
			case 's':
				return fmt.Sprintf("s:%d", v.ReadSymbol(pd))
			case 't':
				x, ok := v.TryReadSymbol(pd)
				if !ok {
					return "t:no"
				}
				return fmt.Sprintf("t:%d", x)
			default:
				return fmt.Sprintf("b:%d", v.ReadBits(uint(o.N)))
			}
		})
		obs = append(obs, ob)
		if stop {
			break
		}
	}
	return obs
}

// brRandValid: a valid code with lengths of at most 15 bits
func brRandValid(rng *rand.Rand) (codes prefix.PrefixCodes, canonical bool) {
	for {
		n := 2 + rng.Intn(40)
		switch rng.Intn(6) {
		case 0:
			n = 2 + rng.Intn(6)
		case 1:
			n = 2 + rng.Intn(703)
		}
		lo := ceilLog2(n)
		if lo < 1 {
			lo = 1
		}
		if lo > 15 {
			continue
		}
		if rng.Intn(3) > 0 {
			mb := []uint{lo, lo + 1, 9, 10, 11, 12, 15, 15}[rng.Intn(8)]
			if mb < lo {
				mb = lo
			}
			if mb > 15 {
				mb = 15
			}
			return genCanonical(rng, n, mb, rng.Intn(5)), true
		}
		mb := []int{9, 10, 11, 12, 15}[rng.Intn(5)]
		if mb < int(lo) {
			mb = int(lo)
		}
		return genTree(rng, n, mb, []int{0, 30, 70, 95, 100}[rng.Intn(5)]), false
	}
}

func wbrdec(r *vhlib.Run) {
	rng := r.Rng
	nValid, nInvalid := 900, 1500
	if !r.Quick() {
		nValid, nInvalid = 8000, 12000
	}

	// one long-lived decoder per mode: every Init recycles what the previous ones left
	shared := []*brotli.VerifPrefixDecoder{new(brotli.VerifPrefixDecoder), new(brotli.VerifPrefixDecoder)}

	for i := 0; i < nValid; i++ {
		codes, canonical := brRandValid(rng)
		maxLen := uint32(0)
		for _, c := range codes {
			if c.Len > maxLen {
				maxLen = c.Len
			}
		}
		assign := canonical && rng.Intn(3) > 0
		in := toBrCodes(codes)
		if assign { // the values are outputs: hand in rubbish
			for k := range in {
				in[k].Val = uint32(rng.Intn(1 << 16))
			}
		}
		cs := fmtBrCodes(in)
		r.Eval(fmt.Sprintf("valid:canonical=%v:assign=%v:maxlen=%d", canonical, assign, maxLen), true, []byte(cs))

		// --- Init over planted storage ---
		mode, pd := brPlant(rng, i%4 == 0)
		what, after := brInit(pd, in, assign)
		if what != "ok" {
			r.Violate("brdec-valid-code-rejected", cs+" "+what, nil)
		}
		r.Case("brdectab", []string{mode, fmt.Sprint(b2i(assign)), cs}, what+" "+fmtDump(brDump(pd.Dump()))+" | "+fmtBrCodes(after))
		if assign && canonical { // the assigned values are the package-independent canonical ones
			for k := range after {
				if after[k].Val != codes[k].Val {
					r.Violate("brdec-assign-not-canonical", cs, nil)
					break
				}
			}
		}
		// --- the long-lived decoder: stale tables of the previous code; the model starts
		// from zeros (the tables do not depend on what the storage held) ---
		sh := shared[b2i(assign)]
		what2, after2 := brInit(sh, in, assign)
		r.Case("brdectab", []string{"z", fmt.Sprint(b2i(assign)), cs}, what2+" "+fmtDump(brDump(sh.Dump()))+" | "+fmtBrCodes(after2))

		// --- reading ---
		for k := 0; k < 3; k++ {
			var data []byte
			switch rng.Intn(3) {
			case 0:
				data = vhlib.RandBytes(rng, rng.Intn(40))
			default:
				data = encodeStream(rng, codes, 1+rng.Intn(30), false)
				if rng.Intn(3) == 0 {
					data = append(data, vhlib.RandBytes(rng, rng.Intn(6))...)
				}
				if rng.Intn(6) == 0 && len(data) > 0 {
					data = data[:len(data)-1]
				}
			}
			var ops []dtOp
			for j := 3 + rng.Intn(40); j > 0; j-- {
				switch rng.Intn(12) {
				case 0:
					ops = append(ops, dtOp{'t', 0})
				case 1:
					ops = append(ops, dtOp{'b', rng.Intn(20)})
				default:
					ops = append(ops, dtOp{'s', 0})
				}
			}
			var opss []string
			for _, o := range ops {
				opss = append(opss, o.String())
			}
			hex := vhlib.Hex(data)
			if hex == "" {
				hex = "-"
			}
			rmode := rng.Intn(3)
			var reads []int
			v := new(brotli.VerifBitReader)
			s := new(brSource)
			bsz := 0
			switch rmode {
			case 0:
				s.byt = &scriptSrc{B: data}
				v.Init(byteOnlyView{scriptByteSrc{s.byt}})
			default:
				for j := rng.Intn(20); j > 0; j-- {
					reads = append(reads, []int{1, 1, 2, 3, 7, 8, 9, 16, 100}[rng.Intn(9)])
				}
				bsz = []int{16, 16, 32, 4096}[rng.Intn(4)]
				s.under = &brUnder{B: data, Reads: append([]int{}, reads...)}
				v.Init(bufio.NewReaderSize(s.under, bsz))
			}
			obs := runBrDecOps(v, s, pd, ops)
			m := 0
			if rmode != 0 {
				m = 1
			}
			args := append([]string{fmt.Sprint(b2i(assign)), cs, hex, fmt.Sprint(m), fmt.Sprint(bsz), joinInts(reads)}, opss...)
			r.Case("brdecread", args, strings.Join(obs, ","))
		}
	}

	// arbitrary code lists: every check of Init, run-time panics, stale entries that survive
	for i := 0; i < nInvalid; i++ {
		var in []brotli.VerifPrefixCode
		assign := rng.Intn(2) == 0
		switch rng.Intn(5) {
		case 0, 1:
			in = toBrCodes(randInvalid(rng))
		case 2: // a valid code with a few fields disturbed
			codes, _ := brRandValid(rng)
			in = toBrCodes(codes)
			for k := 1 + rng.Intn(3); k > 0; k-- {
				j := rng.Intn(len(in))
				switch rng.Intn(5) {
				case 0:
					in[j].Len = uint32(rng.Intn(40))
				case 1:
					in[j].Val = uint32(rng.Intn(1 << 16))
				case 2:
					in[j].Val ^= 1 << uint(rng.Intn(16))
				case 3:
					in[j].Sym = uint32(rng.Intn(1 << 28))
				default:
					in[j].Len++
				}
			}
		case 3: // complete lengths, arbitrary values
			codes, _ := brRandValid(rng)
			in = toBrCodes(codes)
			for j := range in {
				in[j].Val = uint32(rng.Intn(1 << in[j].Len))
			}
			assign = false
		default: // tiny
			n := rng.Intn(4)
			sym := uint32(rng.Intn(3))
			for j := 0; j < n; j++ {
				in = append(in, brotli.VerifPrefixCode{Sym: sym, Len: uint32(rng.Intn(4)), Val: uint32(rng.Intn(8))})
				sym += uint32(rng.Intn(3))
			}
		}
		cs := fmtBrCodes(in)
		mode, pd := brPlant(rng, rng.Intn(3) == 0)
		what, after := brInit(pd, in, assign)
		r.Eval(fmt.Sprintf("arbitrary:assign=%v:%s", assign, what), true, []byte(cs))
		obs := what
		if what == "ok" {
			obs += " " + fmtDump(brDump(pd.Dump())) + " | " + fmtBrCodes(after)
		}
		r.Case("brdectab", []string{mode, fmt.Sprint(b2i(assign)), cs}, obs)
	}
}
