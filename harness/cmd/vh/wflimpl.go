package main

// WFLIMPL: the real flate.Reader against its implementation-level model
// (coq/Flate/Impl.v: fl_new / fl_reset / fl_read) over the same scripted source, with the
// same schedule of Read buffer sizes, compared PER CALL: the bytes each Read returns
// (count and content), the error class, InputOffset / OutputOffset after the call and the
// position of the source. One Reader serves one or two streams (Reset in between, also in
// the middle of the first stream).

import (
	"fmt"
	"io"
	"math/rand"
	"strings"

	"github.com/dsnet/compress/flate"
	"github.com/dsnet/compress/xflate/verifharness/gen"
	"github.com/dsnet/compress/xflate/verifharness/vhlib"
)

func init() { props["WFLIMPL"] = wflimpl }

type flStream struct {
	data     []byte
	buffered bool
	fills    []int
	reads    []int
	sched    []int // buffer sizes; the last one repeats
	maxCalls int   // > 0: abandon the stream after that many calls
}

func fmtBytes(b []byte) string {
	if len(b) == 0 {
		return "-"
	}
	if len(b) <= 48 {
		return vhlib.Hex(b)
	}
	h := uint64(0)
	for _, x := range b {
		h = (h*1000003 + uint64(x) + 1) & (1<<40 - 1)
	}
	return fmt.Sprintf("H%d.%d", len(b), h)
}

// runFlImpl drives the real Reader; returns the arguments for the model and the observations.
func runFlImpl(streams []flStream) (args []string, obs string) {
	var zr *flate.Reader
	var sobs []string
	args = append(args, fmt.Sprint(len(streams)))
	for si, s := range streams {
		src := &scriptSrc{B: s.data, Fills: append([]int{}, s.fills...), Reads: append([]int{}, s.reads...)}
		var rd io.Reader = src
		if !s.buffered {
			rd = byteOnlyView{scriptByteSrc{src}}
		}
		if si == 0 {
			zr, _ = flate.NewReader(rd, nil)
		} else {
			zr.Reset(rd)
		}
		var calls []string
		var sizes []int
		limit := 400000
		if s.maxCalls > 0 {
			limit = s.maxCalls
		}
		for i := 0; i < limit; i++ {
			n := s.sched[len(s.sched)-1]
			if i < len(s.sched) {
				n = s.sched[i]
			}
			sizes = append(sizes, n)
			buf := make([]byte, n)
			var cnt int
			var err error
			crashed := false
			func() {
				defer func() {
					if p := recover(); p != nil {
						crashed = true
					}
				}()
				cnt, err = zr.Read(buf)
			}()
			if crashed {
				calls = append(calls, "Panic")
				break
			}
			calls = append(calls, fmt.Sprintf("%s:%s:%d:%d:%d", fmtBytes(buf[:cnt]), vhlib.ErrClass(err), zr.InputOffset, zr.OutputOffset, src.Pos))
			if err != nil {
				break
			}
		}
		hx := vhlib.Hex(s.data)
		if hx == "" {
			hx = "-"
		}
		args = append(args, hx, fmt.Sprint(b2i(s.buffered)), joinInts(s.fills), joinInts(s.reads), joinInts(sizes))
		sobs = append(sobs, strings.Join(calls, ","))
	}
	return args, strings.Join(sobs, "|")
}

func flScript(rng *rand.Rand) (fills, reads []int) {
	for k := rng.Intn(12); k > 0; k-- {
		fills = append(fills, []int{0, 0, 1, 2, 7, 8, 9, 100, 5000}[rng.Intn(9)])
	}
	switch rng.Intn(3) {
	case 0:
	case 1:
		for k := rng.Intn(8); k > 0; k-- {
			reads = append(reads, 1+rng.Intn(20))
		}
	default:
		for k := rng.Intn(8); k > 0; k-- {
			reads = append(reads, []int{1, 2, 100, 1000, 4095, 4096, 4097, 70000}[rng.Intn(8)])
		}
	}
	return
}

func flSched(rng *rand.Rand, big bool) []int {
	if big {
		return [][]int{{4096}, {70000}, {1000, 0, 32768, 5}, {200000}, {333}}[rng.Intn(5)]
	}
	switch rng.Intn(7) {
	case 0:
		return []int{4096}
	case 1:
		return []int{1}
	case 2:
		return []int{0, 0, 1, 0, 2, 0, 3}
	case 3:
		return []int{100000}
	default:
		var s []int
		for k := 1 + rng.Intn(8); k > 0; k-- {
			s = append(s, []int{0, 1, 2, 3, 7, 16, 100, 257, 258, 259, 4095, 4096, 4097}[rng.Intn(13)])
		}
		s = append(s, 1+rng.Intn(600))
		return s
	}
}

func flStreamOf(rng *rand.Rand, data []byte, big bool) flStream {
	fills, reads := flScript(rng)
	return flStream{data: data, buffered: rng.Intn(2) == 0, fills: fills, reads: reads, sched: flSched(rng, big)}
}

// minBitsWitness: a final dynamic block whose end-of-block code has 15 bits while a length
// symbol has 2; the stream ends after <length, distance 1> with no history. A ByteReader
// source makes ReadSymbol ask for MinBits = 15 bits first (prefix.go: "hl.MinBits = ...").
func minBitsWitness(tail int) []byte {
	var w gen.BitW
	w.Bits(1, 1)
	w.Bits(2, 2)
	nlit := 258
	litLens := make([]int, nlit)
	for i := 0; i < 12; i++ {
		litLens[i] = 3 + i
	}
	litLens[12] = 15
	litLens[256] = 15
	litLens[97] = 1
	litLens[257] = 2
	distLens := []int{1, 1}
	all := append(append([]int{}, litLens...), distLens...)
	clLens := make([]int, 19)
	for i := 0; i < 16; i++ {
		clLens[i] = 4
	}
	order := []int{16, 17, 18, 0, 8, 7, 9, 6, 10, 5, 11, 4, 12, 3, 13, 2, 14, 1, 15}
	w.Bits(uint64(nlit-257), 5)
	w.Bits(uint64(len(distLens)-1), 5)
	w.Bits(19-4, 4)
	for i := 0; i < 19; i++ {
		w.Bits(uint64(clLens[order[i]]), 3)
	}
	cc := gen.Canonical(clLens)
	for _, v := range all {
		w.Code(cc[v], uint(clLens[v]))
	}
	lc := gen.Canonical(litLens)
	switch tail {
	case 0: // <length 3, distance 1> with an empty history
		w.Code(lc[257], 2)
		w.Code(0, 1)
	case 1: // three literals 'a', then the input ends
		w.Code(lc[97], 1)
		w.Code(lc[97], 1)
		w.Code(lc[97], 1)
	default: // a complete block: literals, a match, end-of-block
		w.Code(lc[97], 1)
		w.Code(lc[257], 2)
		w.Code(0, 1)
		w.Code(lc[256], 15)
	}
	w.Align()
	return w.Buf
}

func wflimpl(r *vhlib.Run) {
	rng := r.Rng
	emit := func(kind string, streams []flStream) {
		args, obs := runFlImpl(streams)
		var content []byte
		for _, s := range streams {
			content = append(content, s.data...)
		}
		r.Eval("flimpl:"+kind, true, content, []byte(strings.Join(args, " ")))
		r.Case("flimpl", args, obs)
	}
	nSmall := 400
	nBig := 0
	if !r.Quick() {
		nSmall = 12000
		nBig = 12
	}
	// the error-class witnesses, both source kinds, complete and truncated
	for tail := 0; tail < 3; tail++ {
		d := minBitsWitness(tail)
		for _, bf := range []bool{false, true} {
			emit("minbits", []flStream{{data: d, buffered: bf, sched: []int{4096}}})
			emit("minbits", []flStream{{data: d, buffered: bf, sched: []int{1}, fills: []int{0, 1, 2}}})
		}
	}
	// tiny inputs
	emit("tiny", []flStream{{data: nil, buffered: true, sched: []int{5}}})
	emit("tiny", []flStream{{data: nil, buffered: false, sched: []int{0, 5}}})
	for a := 0; a < 256; a++ {
		emit("tiny", []flStream{flStreamOf(rng, []byte{byte(a)}, false)})
	}
	for i := 0; i < 400; i++ {
		emit("tiny", []flStream{flStreamOf(rng, []byte{byte(rng.Intn(256)), byte(rng.Intn(256)), byte(rng.Intn(256))}, false)})
	}
	// the corpus of C01 (valid streams of compress/flate and zlib, synthesized streams, one
	// broken rule, mutations, window-boundary streams, short end-of-block codes)
	small := 0
	for _, s := range gen.FlateCorpus(rng, nSmall, 3000) {
		if len(s.Data) > 6000 || len(s.Plain) > 20000 {
			continue // the large ones are covered below, a few at a time
		}
		small++
		emit(s.Kind, []flStream{flStreamOf(rng, s.Data, false)})
		if small%5 == 0 {
			// the same stream under the other source kind / another schedule
			emit(s.Kind, []flStream{flStreamOf(rng, s.Data, false)})
		}
	}
	// truncation at every byte for small valid streams
	for i := 0; i < 25; i++ {
		s := gen.SynthFlate(rng, 0)
		if len(s.Data) > 400 {
			continue
		}
		for k := 0; k < len(s.Data); k++ {
			emit("truncated", []flStream{flStreamOf(rng, s.Data[:k], false)})
		}
	}
	for i := 0; i < 60; i++ {
		s := gen.SynthShortEOB(rng)
		k := rng.Intn(len(s.Data) + 1)
		emit("truncated-short-eob", []flStream{{data: s.Data[:k], buffered: false, sched: flSched(rng, false)}})
	}
	// Reset: the same Reader over a second stream, after the first one ended, failed, or
	// was abandoned in the middle
	for i := 0; i < nSmall/6; i++ {
		pick := func() []byte {
			for {
				var s gen.Stream
				switch rng.Intn(4) {
				case 0:
					p := gen.Plain(rng, 6000)
					s = gen.Stream{Data: gen.StdDeflate(rng, p, 1+rng.Intn(9))}
				case 1:
					s = gen.SynthFlate(rng, rng.Intn(13))
				case 2:
					s = gen.SynthShortEOB(rng)
				default:
					s = gen.SynthFlate(rng, 0)
					s.Data = gen.Mutate(rng, s.Data)
				}
				if len(s.Data) <= 6000 {
					return s.Data
				}
			}
		}
		a := flStreamOf(rng, pick(), false)
		b := flStreamOf(rng, pick(), false)
		if rng.Intn(3) == 0 {
			a.maxCalls = 1 + rng.Intn(6)
		}
		streams := []flStream{a, b}
		if rng.Intn(4) == 0 {
			streams = append(streams, flStreamOf(rng, pick(), false))
		}
		emit("reset", streams)
	}
	// large outputs: the window grows 4096 -> 16384 -> 32768 and wraps
	for i := 0; i < nBig; i++ {
		var data []byte
		switch i % 3 {
		case 0:
			top := 48000
			if !r.Quick() {
				top = 100000
			}
			p := gen.Plain(rng, top)
			for len(p) < 34000 {
				p = append(p, gen.Plain(rng, 8000)...)
			}
			data = gen.StdDeflate(rng, p, 6)
		case 1:
			data = gen.SynthBoundary(rng).Data
		default:
			per := []int{4095, 4096, 4097, 16384, 32767, 32768, 258, 1}[rng.Intn(8)]
			unit := vhlib.RandBytes(rng, per)
			var p []byte
			want := 36000 + rng.Intn(12000)
			if !r.Quick() {
				want = 70000 + rng.Intn(30000)
			}
			for len(p) < want {
				p = append(p, unit...)
			}
			data = gen.StdDeflate(rng, p, 9)
		}
		s := flStreamOf(rng, data, true)
		streams := []flStream{s}
		if i%2 == 1 {
			// Reset over a grown window, then a small stream
			streams = append(streams, flStreamOf(rng, gen.SynthFlate(rng, 0).Data, false))
		}
		emit("large", streams)
	}
}
