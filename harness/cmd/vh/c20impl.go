package main

import (
	"fmt"
	"io"
	"math/rand"
	"strings"

	"github.com/dsnet/compress/internal/prefix"
	"github.com/dsnet/compress/xflate/verifharness/vhlib"
)

// scriptSrc is a compress.BufferedReader whose only freedoms within the api.go
// contract are scripted: how much more than asked it buffers on a fill (Fills) and
// how many bytes a raw Read returns (Reads). coq/Prefix/ReaderImpl.v models exactly
// this source, so prefix.Reader and its implementation-level model run on the same
// script.
type scriptSrc struct {
	B     []byte
	Pos   int
	buf   int
	Fills []int
	Reads []int
}

func (f *scriptSrc) avail() int { return len(f.B) - f.Pos }

func (f *scriptSrc) Read(p []byte) (int, error) {
	if f.avail() == 0 {
		return 0, io.EOF
	}
	k := len(p)
	lim := k
	if len(f.Reads) > 0 {
		lim = f.Reads[0]
		f.Reads = f.Reads[1:]
		if lim > k {
			lim = k
		}
		if lim < 1 {
			lim = 1
		}
	}
	n := k
	if lim < n {
		n = lim
	}
	if f.avail() < n {
		n = f.avail()
	}
	copy(p, f.B[f.Pos:f.Pos+n])
	f.Pos += n
	f.buf = 0
	return n, nil
}

func (f *scriptSrc) Buffered() int {
	if f.buf > f.avail() {
		f.buf = f.avail()
	}
	return f.buf
}

func (f *scriptSrc) Peek(n int) ([]byte, error) {
	if f.buf < n {
		e := 0
		if len(f.Fills) > 0 {
			e = f.Fills[0]
			f.Fills = f.Fills[1:]
		}
		f.buf = n + e
		if f.buf > f.avail() {
			f.buf = f.avail()
		}
	}
	if n > f.avail() {
		return f.B[f.Pos:], io.EOF
	}
	return f.B[f.Pos : f.Pos+n], nil
}

func (f *scriptSrc) Discard(n int) (int, error) {
	if n > f.avail() {
		a := f.avail()
		f.Pos += a
		f.buf = 0
		return a, io.EOF
	}
	f.Pos += n
	f.buf -= n
	if f.buf < 0 {
		f.buf = 0
	}
	return n, nil
}

// scriptByteSrc: the same data through Read + ReadByte only.
type scriptByteSrc struct{ *scriptSrc }

func (f scriptByteSrc) ReadByte() (byte, error) {
	if f.avail() == 0 {
		return 0, io.EOF
	}
	b := f.B[f.Pos]
	f.Pos++
	if f.buf > 0 {
		f.buf--
	}
	return b, nil
}

// only Read and ReadByte are visible
type byteOnlyView struct{ s scriptByteSrc }

func (v byteOnlyView) Read(p []byte) (int, error) { return v.s.Read(p) }
func (v byteOnlyView) ReadByte() (byte, error)    { return v.s.ReadByte() }

type implOp struct {
	Kind byte // 'b' bits, 'p' pads, 'r' raw, 'f' flush
	N    int
}

func (o implOp) String() string {
	switch o.Kind {
	case 'b':
		return fmt.Sprintf("b:%d", o.N)
	case 'r':
		return fmt.Sprintf("r:%d", o.N)
	case 'p':
		return "p"
	case 'u':
		return fmt.Sprintf("u:%d", o.N)
	}
	return "f"
}

// runImplOps drives the real prefix.Reader; one observation per op, in the format of
// the model driver ("primpl").
func runImplOps(data []byte, buffered, big bool, fills, reads []int, ops []implOp) (obs []string) {
	src := &scriptSrc{B: data, Fills: append([]int{}, fills...), Reads: append([]int{}, reads...)}
	var pr prefix.Reader
	if buffered {
		pr.Init(src, big)
	} else {
		pr.Init(byteOnlyView{scriptByteSrc{src}}, big)
	}
	for _, o := range ops {
		stop := false
		func() {
			defer func() {
				if p := recover(); p != nil {
					obs = append(obs, fmt.Sprintf("b:panic:%d", pr.BitsRead()))
					stop = true
				}
			}()
			switch o.Kind {
			case 'b':
				v := pr.ReadBits(uint(o.N))
				obs = append(obs, fmt.Sprintf("b:%d:%d", v, pr.BitsRead()))
			case 'p':
				v := pr.ReadPads()
				obs = append(obs, fmt.Sprintf("p:%d:%d", v, pr.BitsRead()))
			case 'r':
				buf := make([]byte, o.N)
				n, err := pr.Read(buf)
				e := 0
				switch {
				case err == io.EOF:
					e = 1
				case err != nil && strings.Contains(err.Error(), "non-aligned"):
					e = 2
				case err != nil:
					e = 3
				}
				h := vhlib.Hex(buf[:n])
				if h == "" {
					h = "-"
				}
				obs = append(obs, fmt.Sprintf("r:%s:%d:%d", h, e, pr.BitsRead()))
			case 'f':
				off, _ := pr.Flush()
				obs = append(obs, fmt.Sprintf("f:%d:%d", off, src.Pos))
			case 'u':
				e := 0
				if err := pr.PullBits(uint(o.N)); err != nil {
					e = 1
				}
				obs = append(obs, fmt.Sprintf("u:%d:%d", e, pr.BitsRead()))
			}
		}()
		if stop {
			break
		}
	}
	return obs
}

// c20Impl: prefix.Reader against its implementation-level model over scripted sources,
// and against the abstract bit stream (the values themselves).
func c20Impl(r *vhlib.Run) {
	rng := r.Rng
	n := 1500
	if !r.Quick() {
		n = 40000
	}
	for i := 0; i < n; i++ {
		data := vhlib.RandBytes(rng, rng.Intn(60))
		if i%5 == 0 {
			data = vhlib.RandBytes(rng, 60+rng.Intn(600))
		}
		buffered := rng.Intn(4) != 0
		big := rng.Intn(3) == 0
		var fills, reads []int
		for k := rng.Intn(12); k > 0; k-- {
			fills = append(fills, []int{0, 0, 1, 2, 7, 8, 9, 100}[rng.Intn(8)])
		}
		for k := rng.Intn(6); k > 0; k-- {
			reads = append(reads, 1+rng.Intn(20))
		}
		var ops []implOp
		pulls := i%3 == 0 // ReadSymbol-style over-pulls (not covered by the specification check)
		for k := 1 + rng.Intn(25); k > 0; k-- {
			if pulls && rng.Intn(4) == 0 {
				ops = append(ops, implOp{Kind: 'u', N: 1 + rng.Intn(48)})
				if rng.Intn(2) == 0 {
					ops = append(ops, implOp{Kind: 'b', N: 1 + rng.Intn(7)}, implOp{Kind: 'f'})
				}
				continue
			}
			switch rng.Intn(10) {
			case 0:
				ops = append(ops, implOp{Kind: 'p'})
			case 1:
				ops = append(ops, implOp{Kind: 'p'}, implOp{Kind: 'r', N: rng.Intn(12)})
			case 2:
				ops = append(ops, implOp{Kind: 'f'})
			case 3:
				ops = append(ops, implOp{Kind: 'r', N: rng.Intn(40)})
			default:
				ops = append(ops, implOp{Kind: 'b', N: []int{0, 1, 2, 3, 5, 7, 8, 9, 13, 16, 24, 31, 32, 33, 48, 56, 57}[rng.Intn(17)]})
			}
		}
		obs := runImplOps(data, buffered, big, fills, reads, ops)
		args := []string{vhlib.Hex(data), fmt.Sprint(b2i(buffered)), fmt.Sprint(b2i(big)), joinInts(fills), joinInts(reads)}
		if args[0] == "" {
			args[0] = "-"
		}
		for _, o := range ops {
			args = append(args, o.String())
		}
		r.Eval("reader-impl:"+map[bool]string{true: "buffered", false: "bytereader"}[buffered], true, data, []byte(strings.Join(args[1:], " ")))
		r.Case("primpl", args, strings.Join(obs, ","))
		// and the model's run satisfies the abstract bit-stream specification
		// (Prefix/ReaderSpec.v check_model): values, positions, no over-consumption
		if !pulls {
			r.Case("prspec", args, "spec-ok")
		}
	}
}

func b2i(b bool) int {
	if b {
		return 1
	}
	return 0
}

func joinInts(l []int) string {
	if len(l) == 0 {
		return "-"
	}
	var s []string
	for _, x := range l {
		s = append(s, fmt.Sprint(x))
	}
	return strings.Join(s, ",")
}

var _ = rand.Int
