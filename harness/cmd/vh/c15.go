package main

import (
	"bytes"
	stdflate "compress/flate"
	"encoding/binary"
	"fmt"
	"hash/crc32"
	"io"
	"io/ioutil"
	"strings"
	"time"

	"github.com/dsnet/compress/xflate"
	"github.com/dsnet/compress/xflate/internal/meta"
	"github.com/dsnet/compress/xflate/verifharness/gen"
	"github.com/dsnet/compress/xflate/verifharness/ref"
	"github.com/dsnet/compress/xflate/verifharness/vhlib"
)

func init() { props["C15"] = runC15 }

// ---- builders of XFLATE streams from parts -----------------------------------

type xchunk struct {
	Comp  []byte // compressed bytes of the chunk
	RSize int64  // raw size recorded in the index
	CSize int64  // compressed size recorded (normally len(Comp))
}

func metaBlock(payload []byte, mode meta.FinalMode) []byte {
	var bb bytes.Buffer
	mw := meta.NewWriter(&bb)
	mw.FinalMode = mode
	mw.Write(payload)
	mw.Close()
	return bb.Bytes()
}

type idxOpts struct {
	BackSize int64
	TotalsDC int64 // delta added to the total compressed size field
	TotalsDR int64
	BadCRC   bool
	NumRecsD int64 // delta added to the record count field
	Mode     meta.FinalMode
	Trailing []byte // extra payload bytes before the CRC
}

func buildIndex(chunks []xchunk, o idxOpts) []byte {
	var p []byte
	put := func(x int64) {
		var b [10]byte
		p = append(p, b[:binary.PutUvarint(b[:], uint64(x))]...)
	}
	var tc, tr int64
	for _, c := range chunks {
		tc += c.CSize
		tr += c.RSize
	}
	put(o.BackSize)
	put(int64(len(chunks)) + o.NumRecsD)
	put(tc + o.TotalsDC)
	put(tr + o.TotalsDR)
	for _, c := range chunks {
		put(c.CSize)
		put(c.RSize)
	}
	p = append(p, o.Trailing...)
	crc := crc32.ChecksumIEEE(p)
	if o.BadCRC {
		crc ^= 1
	}
	var b [4]byte
	binary.LittleEndian.PutUint32(b[:], crc)
	p = append(p, b[:]...)
	mode := o.Mode
	if mode == 0 {
		mode = meta.FinalMeta
	}
	return metaBlock(p, mode)
}

func buildFooter(backSize int64, magic string, mode meta.FinalMode, extra []byte) []byte {
	var b [10]byte
	p := append([]byte(magic), b[:binary.PutUvarint(b[:], uint64(backSize))]...)
	p = append(p, extra...)
	return metaBlock(p, mode)
}

// deflateChunk: compress/flate output of data ending with a sync marker
func deflateChunk(data []byte, level int) []byte {
	var bb bytes.Buffer
	zw, _ := stdflate.NewWriter(&bb, level)
	zw.Write(data)
	zw.Flush()
	return bb.Bytes()
}

// assemble: chunks, one index, footer
func assemble(chunks []xchunk, io_ idxOpts, magic string, fmode meta.FinalMode) []byte {
	var out []byte
	for _, c := range chunks {
		out = append(out, c.Comp...)
	}
	idx := buildIndex(chunks, io_)
	out = append(out, idx...)
	out = append(out, buildFooter(int64(len(idx)), magic, fmode, nil)...)
	return out
}

// ---- the oracle -------------------------------------------------------------------

var c15Hangs int

func c15Check(r *vhlib.Run, m *vhlib.Model, data []byte, kind string) {
	replay := map[string]interface{}{"input": vhlib.Hex(data), "kind": kind}
	r.Eval(kind, true, data)
	var content []byte
	accepted := false
	// first of all: does reading it come to an end? (an input on which the Reader spins would stall
	// every later step of this check; C08 owns the property, here it is reported and skipped)
	if c15Hangs >= 2 {
		return
	}
	fin := make(chan struct{})
	go func() {
		defer close(fin)
		defer func() { recover() }()
		if xr, err := xflate.NewReader(bytes.NewReader(data), nil); err == nil {
			io.Copy(ioutil.Discard, io.LimitReader(xr, 1<<28))
		}
	}()
	select {
	case <-fin:
	case <-time.After(20 * time.Second):
		c15Hangs++
		r.Violate("hang", fmt.Sprintf("xflate.Reader does not finish reading a %d-byte input within 20 s", len(data)), replay)
		return
	}
	func() {
		defer func() {
			if p := recover(); p != nil {
				r.Violate("panic", fmt.Sprint(p), replay)
			}
		}()
		xr, err := xflate.NewReader(bytes.NewReader(data), nil)
		if err != nil {
			r.Hist["open:"+vhlib.ErrClass(err)]++
			return
		}
		out, err := ioutil.ReadAll(xr)
		if err != nil {
			r.Hist["read:"+vhlib.ErrClass(err)]++
			return
		}
		content, accepted = out, true
	}()
	implObs := "0 -"
	if accepted {
		implObs = "A " + vhlib.Hex(content)
	}
	// ... nor on whether the caller drains it with Read or through io.Copy (an io.WriterTo of the Reader)
	func() {
		defer func() { recover() }()
		acc2 := false
		var c2 []byte
		if xr, err := xflate.NewReader(bytes.NewReader(data), nil); err == nil {
			var bb bytes.Buffer
			if _, err := io.Copy(&bb, io.Reader(xr)); err == nil {
				acc2, c2 = true, bb.Bytes()
			}
		}
		if acc2 != accepted || !bytes.Equal(c2, content) {
			r.Violate("acceptance-depends-on-source", fmt.Sprintf("ReadAll: accepted=%v (%d bytes); io.Copy: accepted=%v (%d bytes)", accepted, len(content), acc2, len(c2)), replay)
		}
	}()
	// what is accepted must not depend on how the source fragments its reads
	for _, cap := range []int{7, 2} {
		func() {
			defer func() { recover() }()
			acc2 := false
			var c2 []byte
			if xr, err := xflate.NewReader(&fragSeeker{B: data, Cap: cap}, nil); err == nil {
				if out, err := ioutil.ReadAll(xr); err == nil {
					acc2, c2 = true, out
				}
			}
			if acc2 != accepted || !bytes.Equal(c2, content) {
				r.Violate("acceptance-depends-on-source", fmt.Sprintf("bytes.Reader: accepted=%v (%d bytes); source returning at most %d bytes per Read: accepted=%v (%d bytes)", accepted, len(content), cap, acc2, len(c2)), replay)
			}
		}()
	}
	// ... nor on how the caller sizes its Read buffers: sizes that divide the raw sizes the
	// index advertises (the buffer then ends exactly where a record says its chunk ends),
	// single bytes, and a few fixed sizes
	{
		sizes := map[int]bool{1: true, 64: true, 1024: true}
		if accepted {
			for _, d := range []int{2, 4, 8} {
				if len(content) >= d && len(content)%d == 0 {
					sizes[len(content)/d] = true
				}
			}
			if len(content) > 0 {
				sizes[len(content)] = true
			}
		}
		for bs := range sizes {
			func() {
				defer func() { recover() }()
				xr, err := xflate.NewReader(bytes.NewReader(data), nil)
				if err != nil {
					if accepted {
						r.Violate("acceptance-depends-on-read-sizes", "second open failed", replay)
					}
					return
				}
				var c2 []byte
				var rerr error
				buf := make([]byte, bs)
				for steps := 0; steps < 4*len(data)+4*len(content)+1000; steps++ {
					n, e := xr.Read(buf)
					c2 = append(c2, buf[:n]...)
					if e != nil {
						rerr = e
						break
					}
				}
				acc2 := rerr == io.EOF
				if acc2 != accepted || (acc2 && !bytes.Equal(c2, content)) {
					r.Violate("acceptance-depends-on-read-sizes", fmt.Sprintf("ReadAll: accepted=%v (%d bytes); Read buffers of %d bytes: accepted=%v (%d bytes, err=%v)", accepted, len(content), bs, acc2, len(c2), rerr), replay)
				}
			}()
		}
	}
	// model: class and content
	mobs := m.Ask("x c15 " + vhlib.Hex(data))
	mf := strings.Fields(mobs)
	mcls := "?"
	if len(mf) >= 3 {
		mcls = mf[1]
		mo := "0 -"
		if mcls != "0" {
			mo = "A " + mf[2]
		}
		r.CaseLive(m, "c15acc", []string{vhlib.Hex(data)}, implObs)
		_ = mo
	}
	if !accepted {
		return
	}
	r.Hist["accepted"]++
	sOut, sCls, sUsed := stdInflateObs(data)
	zOut, zSt, zUsed := ref.ZInflate(data, len(content)+len(data)+64)
	okStd := sCls == "nil" && bytes.Equal(sOut, content) && sUsed == len(data)
	okZ := zSt == "end" && bytes.Equal(zOut, content) && zUsed == len(data)
	if okStd && okZ {
		return
	}
	detail := fmt.Sprintf("xflate served %d bytes; compress/flate: class=%s out=%d used=%d/%d; zlib: %s out=%d used=%d", len(content), sCls, len(sOut), sUsed, len(data), zSt, len(zOut), zUsed)
	if mcls == "2" {
		// known finding: a block with the final bit starts inside a data chunk
		r.Violate("final-bit-inside-chunk", detail, replay)
	} else {
		r.Violate("accepted-but-deflate-differs", detail+" (model class "+mcls+")", replay)
	}
}

// stored block helpers
func storedBlock(final bool, lenField int, data []byte) []byte {
	b := []byte{0}
	if final {
		b[0] = 1
	}
	b = append(b, byte(lenField), byte(lenField>>8), byte(^lenField), byte(^lenField>>8))
	return append(b, data...)
}

func runC15(r *vhlib.Run) {
	rng := r.Rng
	// xflate.Reader over streams whose index is consistent but whose chunks are DAMAGED DEFLATE (bytes handed
	// over together with the error or with io.EOF), live against the Reader model, per call
	runWXRLatch(r)
	m := vhlib.StartModel()
	defer m.Close()
	syncM := []byte{0, 0, 0xff, 0xff}

	// 0. the D7 witness family: a FINAL stored block whose LEN runs 5 bytes past the chunk
	for _, n := range []int{0, 3, 20} {
		payload := append(vhlib.RandBytes(rng, n), syncM...)
		comp := storedBlock(true, len(payload)+5, payload)
		ch := xchunk{Comp: comp, CSize: int64(len(comp)), RSize: int64(len(payload) + 5)}
		c15Check(r, m, assemble([]xchunk{ch}, idxOpts{}, "XF\x00", meta.FinalStream), "corpus-final-stored-overrun")
	}

	n := 60
	if !r.Quick() {
		n = 1500
	}
	for i := 0; i < n; i++ {
		// a valid base: 1..4 chunks
		var chunks []xchunk
		var plain []byte
		for k := 0; k < 1+rng.Intn(4); k++ {
			d := vhlib.RandBytes(rng, rng.Intn(60))
			c := deflateChunk(d, []int{-2, 0, 1, 6, 9}[rng.Intn(5)])
			chunks = append(chunks, xchunk{Comp: c, CSize: int64(len(c)), RSize: int64(len(d))})
			plain = append(plain, d...)
		}
		valid := assemble(chunks, idxOpts{}, "XF\x00", meta.FinalStream)
		c15Check(r, m, valid, "valid")
		clone := func() []xchunk { return append([]xchunk{}, chunks...) }
		for t := 0; t < 34; t++ {
			cs := clone()
			io_ := idxOpts{}
			magic, fmode := "XF\x00", meta.FinalStream
			kind := ""
			var out []byte
			switch t {
			case 0: // move raw bytes between two records, sums consistent
				kind = "idx-shift-raw"
				if len(cs) >= 2 {
					cs[0].RSize++
					cs[1].RSize--
				}
			case 1: // move compressed bytes between records
				kind = "idx-shift-comp"
				if len(cs) >= 2 {
					cs[0].CSize++
					cs[1].CSize--
				}
			case 2:
				kind, io_.TotalsDC = "totals-comp", 1
			case 3:
				kind, io_.TotalsDR = "totals-raw", int64(rng.Intn(3)-1)
			case 4:
				kind, io_.BadCRC = "bad-crc", true
			case 5:
				kind, io_.BackSize = "index-backsize", int64(1+rng.Intn(40))
			case 6:
				kind, magic = "footer-magic", []string{"XF\x01", "XG\x00", "xf\x00"}[rng.Intn(3)]
			case 7:
				kind, fmode = "footer-not-final", meta.FinalMeta
			case 8: // swap two chunks (records follow the chunks)
				kind = "swap-chunks"
				if len(cs) >= 2 {
					cs[0], cs[1] = cs[1], cs[0]
				}
			case 9: // swap chunk bytes but not records
				kind = "swap-bytes-only"
				if len(cs) >= 2 {
					cs[0].Comp, cs[1].Comp = cs[1].Comp, cs[0].Comp
				}
			case 10: // second chunk compressed with back-references into the first (no reset)
				kind = "backref-across-chunk"
				if len(cs) >= 1 {
					d1 := bytes.Repeat([]byte("abcdefgh"), 6)
					var bb bytes.Buffer
					zw, _ := stdflate.NewWriter(&bb, 6)
					zw.Write(d1)
					zw.Flush()
					n1 := bb.Len()
					zw.Write(d1)
					zw.Flush()
					all := bb.Bytes()
					cs = []xchunk{{Comp: all[:n1], CSize: int64(n1), RSize: int64(len(d1))},
						{Comp: all[n1:], CSize: int64(len(all) - n1), RSize: int64(len(d1))}}
				}
			case 11: // a final EMPTY stored block inside a chunk, then more blocks
				kind = "embedded-final-empty"
				c := append(storedBlock(true, 0, nil), deflateChunk([]byte("zz"), 6)...)
				cs = append(cs, xchunk{Comp: c, CSize: int64(len(c)), RSize: 2})
			case 12: // final stored block overrunning the chunk by 5 (D7)
				kind = "final-stored-overrun"
				payload := append(vhlib.RandBytes(rng, rng.Intn(10)), syncM...)
				c := storedBlock(true, len(payload)+5, payload)
				cs = append(cs, xchunk{Comp: c, CSize: int64(len(c)), RSize: int64(len(payload) + 5)})
			case 13: // non-final stored block overrunning by 5: swallows the end block, then needs more
				kind = "nonfinal-stored-overrun"
				payload := append(vhlib.RandBytes(rng, rng.Intn(10)), syncM...)
				c := storedBlock(false, len(payload)+5, payload)
				cs = append(cs, xchunk{Comp: c, CSize: int64(len(c)), RSize: int64(len(payload) + 5)})
			case 14: // fixed-Huffman final block then sync marker
				kind = "final-fixed-inside"
				var bb bytes.Buffer
				zw, _ := stdflate.NewWriter(&bb, 6)
				zw.Write([]byte("q"))
				zw.Close() // final block
				c := append(bb.Bytes(), 0, 0, 0, 0xff, 0xff)
				cs = append(cs, xchunk{Comp: c, CSize: int64(len(c)), RSize: 1})
			case 15:
				kind, io_.NumRecsD = "numrecs", int64(rng.Intn(3)-1)
			case 16:
				kind, io_.Mode = "index-finalstream", meta.FinalStream
			case 17:
				kind, io_.Trailing = "index-trailing", []byte{0}
			case 18: // trailing bytes after the footer
				kind = "trailing-bytes"
				out = append(append([]byte{}, valid...), vhlib.RandBytes(rng, 1+rng.Intn(5))...)
			case 19: // leading junk
				kind = "leading-bytes"
				out = append([]byte{0}, valid...)
			case 20: // nested: a complete xflate stream as a chunk's content
				kind = "nested-stream"
				c := deflateChunk(valid, 0)
				cs = []xchunk{{Comp: c, CSize: int64(len(c)), RSize: int64(len(valid))}}
			case 21: // record claims a zero-size chunk
				kind = "zero-chunk"
				cs = append(cs, xchunk{Comp: nil, CSize: 0, RSize: 0})
			case 22: // chunk not ending with the sync marker (closed stream instead)
				kind = "no-sync-marker"
				var bb bytes.Buffer
				zw, _ := stdflate.NewWriter(&bb, 6)
				zw.Write([]byte("abc"))
				zw.Close()
				cs = append(cs, xchunk{Comp: bb.Bytes(), CSize: int64(bb.Len()), RSize: 3})
			case 24, 25: // (final | non-final) stored block borrowing 1..4 bytes of what follows the chunk
				kind = "stored-partial-overrun"
				j := 1 + rng.Intn(4)
				payload := append(vhlib.RandBytes(rng, rng.Intn(10)), syncM...)
				c := storedBlock(t == 24, len(payload)+j, payload)
				lc := xchunk{Comp: c, CSize: int64(len(c)), RSize: int64(len(payload) + j)}
				at := rng.Intn(len(cs) + 1)
				cs = append(cs[:at:at], append([]xchunk{lc}, cs[at:]...)...)
			case 26: // final stored block swallowing the end block, chunk tail only PARTLY a sync marker
				kind = "final-stored-overrun-partial-sync"
				tail := [][]byte{{0xff, 0xff}, {0x00, 0xff, 0xff}, {0xab, 0xcd, 0xff, 0xff}, {0xff}}[rng.Intn(4)]
				payload := append(vhlib.RandBytes(rng, 1+rng.Intn(10)), tail...)
				c := storedBlock(true, len(payload)+5, payload)
				cs = append(cs, xchunk{Comp: c, CSize: int64(len(c)), RSize: int64(len(payload) + 5)})
			case 23: // random mutation of the valid stream
				kind = "mutated"
				out = gen.Mutate(rng, valid)
			case 27, 28: // every value of the footer's flag byte x every way of ending the footer block
				kind = "footer-flags-x-finalmode"
				// (all 24 combinations of the listed flag values and the three modes within 24 base streams)
				magic = "XF" + string([]byte{[]byte{1, 2, 3, 4, 0x10, 0x80, 0xff, byte(rng.Intn(256))}[i%8]})
				fmode = []meta.FinalMode{meta.FinalNil, meta.FinalMeta, meta.FinalStream}[(i/8)%3]
				if t == 28 {
					magic = "XF\x00"
					fmode = []meta.FinalMode{meta.FinalNil, meta.FinalMeta}[rng.Intn(2)]
				}
			case 31, 32: // index honest in its sizes, one byte INSIDE a chunk changed: block headers, the header
				// byte of the sync-marker block (its final bit, its type), a length field, any byte
				kind = "chunk-byte-tampered"
				j := rng.Intn(len(cs))
				lvl := 6
				if t == 32 {
					lvl = 0 // stored layout: header, LEN, NLEN, data, marker block
				}
				d := vhlib.RandBytes(rng, 1+rng.Intn(60))
				c := deflateChunk(d, lvl)
				at := []int{0, len(c) - 5, len(c) - 5, 1, 3, rng.Intn(len(c))}[rng.Intn(6)]
				if at < 0 {
					at = 0
				}
				c = append([]byte{}, c...)
				if rng.Intn(2) == 0 {
					c[at] ^= byte(1) << uint(rng.Intn(3))
				} else {
					c[at] = byte(rng.Intn(8))
				}
				cs[j] = xchunk{Comp: c, CSize: int64(len(c)), RSize: int64(len(d))}
			case 33: // a record that declares raw bytes for NO compressed bytes
				kind = "record-raw-without-compressed"
				at := rng.Intn(len(cs) + 1)
				lc := xchunk{Comp: nil, CSize: 0, RSize: int64(1 + rng.Intn(300))}
				cs = append(cs[:at:at], append([]xchunk{lc}, cs[at:]...)...)
			case 29, 30: // a complete stream (XFLATE or plain DEFLATE) followed by a complete XFLATE stream
				kind = "stream-after-stream"
				var first []byte
				if t == 29 {
					var fc []xchunk
					for k := 0; k < 1+rng.Intn(3); k++ {
						d := vhlib.RandBytes(rng, rng.Intn(40))
						c := deflateChunk(d, 6)
						fc = append(fc, xchunk{Comp: c, CSize: int64(len(c)), RSize: int64(len(d))})
					}
					first = assemble(fc, idxOpts{}, "XF\x00", meta.FinalStream)
					if rng.Intn(3) == 0 {
						first = valid
					}
				} else {
					var bb bytes.Buffer
					zw, _ := stdflate.NewWriter(&bb, 6)
					zw.Write(vhlib.RandBytes(rng, rng.Intn(50)))
					zw.Close()
					first = bb.Bytes()
				}
				out = append(append([]byte{}, first...), valid...)
			}
			if out == nil {
				out = assemble(cs, io_, magic, fmode)
			}
			c15Check(r, m, out, kind)
		}
		// several index segments; one record claims raw size 0 for a chunk that is
		// (a) an honest empty chunk, (b) a real chunk with data, (c) garbage,
		// (d) an empty stored block carrying the final bit -- at every position,
		// in particular directly after an index block
		{
			nseg := 2 + rng.Intn(2)
			var segs [][]xchunk
			total := 0
			for sgi := 0; sgi < nseg; sgi++ {
				var sg []xchunk
				for k := 1 + rng.Intn(3); k > 0; k-- {
					d := vhlib.RandBytes(rng, 1+rng.Intn(30))
					c := deflateChunk(d, []int{0, 6}[rng.Intn(2)])
					sg = append(sg, xchunk{Comp: c, CSize: int64(len(c)), RSize: int64(len(d))})
					total++
				}
				segs = append(segs, sg)
			}
			target, lie := rng.Intn(total+nseg), rng.Intn(4)
			kinds := []string{"seg-honest-empty-chunk", "seg-zero-rsize-real-chunk", "seg-zero-rsize-garbage", "seg-zero-rsize-final-bit"}
			var lc xchunk
			switch lie {
			case 0:
				lc = xchunk{Comp: []byte{0, 0, 0, 0xff, 0xff}}
			case 1:
				lc = xchunk{Comp: deflateChunk(vhlib.RandBytes(rng, 1+rng.Intn(20)), 6)}
			case 2:
				lc = xchunk{Comp: append([]byte{6 | byte(rng.Intn(32))<<3}, vhlib.RandBytes(rng, 4+rng.Intn(8))...)}
			case 3:
				lc = xchunk{Comp: []byte{1, 0, 0, 0xff, 0xff}}
			}
			lc.CSize = int64(len(lc.Comp))
			if rng.Intn(3) == 0 {
				// a last segment made ONLY of chunks that claim raw size 0 (everything
				// before it honest): the raw total is reached before that segment starts
				segs = append(segs, []xchunk{lc})
				if rng.Intn(2) == 0 {
					segs[len(segs)-1] = append(segs[len(segs)-1], xchunk{Comp: []byte{0, 0, 0, 0xff, 0xff}, CSize: 5})
				}
			} else {
				// insert the lying chunk as the first chunk of a segment (directly after the
				// preceding index) half of the time, else anywhere
				sgi := rng.Intn(nseg)
				posn := 0
				if target%2 == 1 {
					posn = rng.Intn(len(segs[sgi]) + 1)
				}
				sg := append([]xchunk{}, segs[sgi][:posn]...)
				sg = append(sg, lc)
				segs[sgi] = append(sg, segs[sgi][posn:]...)
			}
			var out []byte
			var back int64
			for _, sg := range segs {
				for _, c := range sg {
					out = append(out, c.Comp...)
				}
				ix := buildIndex(sg, idxOpts{BackSize: back})
				out = append(out, ix...)
				back = int64(len(ix))
			}
			out = append(out, buildFooter(back, "XF\x00", meta.FinalStream, nil)...)
			c15Check(r, m, out, kinds[lie])
		}
		// two chained indexes with a tampered back size in the second
		if i%4 == 0 && len(chunks) >= 2 {
			var out []byte
			out = append(out, chunks[0].Comp...)
			i1 := buildIndex(chunks[:1], idxOpts{})
			out = append(out, i1...)
			out = append(out, chunks[1].Comp...)
			bs := int64(len(i1))
			if i%8 == 0 {
				bs += int64(rng.Intn(3) - 1)
			}
			i2 := buildIndex(chunks[1:2], idxOpts{BackSize: bs})
			out = append(out, i2...)
			out = append(out, buildFooter(int64(len(i2)), "XF\x00", meta.FinalStream, nil)...)
			c15Check(r, m, out, "chained-index")
		}
	}
	_ = io.EOF
	r.Sample(map[string]interface{}{"kind": "final-stored-overrun", "chunk": "01 LEN NLEN data 00 00 ff ff with LEN = len(data)+4+5"})
}
