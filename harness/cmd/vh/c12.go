package main

import (
	"bytes"
	stdbzip2 "compress/bzip2"
	"fmt"
	"io/ioutil"
	"strings"

	"github.com/dsnet/compress/xflate"
	"github.com/dsnet/compress/xflate/internal/meta"
	"github.com/dsnet/compress/xflate/verifharness/ref"
	"github.com/dsnet/compress/xflate/verifharness/vhlib"
)

func init() { props["C12"] = runC12 }

func cutPositions(r *vhlib.Run, n int, boundaries []int) []int {
	var cuts []int
	if n <= 2048 || !r.Quick() && n <= 20000 {
		for k := 0; k <= n; k++ {
			cuts = append(cuts, k)
		}
		return cuts
	}
	seen := map[int]bool{}
	add := func(k int) {
		if k >= 0 && k <= n && !seen[k] {
			seen[k] = true
			cuts = append(cuts, k)
		}
	}
	for _, b := range boundaries {
		for d := -2; d <= 2; d++ {
			add(b + d)
		}
	}
	for i := 0; i < 300; i++ {
		add(r.Rng.Intn(n + 1))
	}
	add(0)
	add(n)
	return cuts
}

func c12XFlate(r *vhlib.Run, m *vhlib.Model, cfg xwCfg, ops []xwOp, kind string) {
	var bb bytes.Buffer
	res := runXW(cfg, ops, nil, &bb)
	if res.NewErr != "nil" || res.Panic != "" || len(res.PerOp) == 0 || res.PerOp[len(res.PerOp)-1] != "0:nil" {
		return
	}
	sink, plain := res.Sink, res.Written
	base := map[string]interface{}{"level": cfg.Level, "chunk": cfg.ChunkSize, "index": cfg.Index, "ops": opsStrings(ops), "kind": kind}
	// every point at which a Flush returned: a DEFLATE decoder recovers everything written before
	for i, p := range res.FlushAt {
		out, cls, _ := stdInflateObs(sink[:p])
		r.Eval("flush-point", true, sink[:p])
		want := plain[:res.FlushIn[i]]
		if !(len(out) >= len(want) && bytes.Equal(out[:len(want)], want)) || (cls != "UEOF" && cls != "nil") {
			rp := copyMap(base)
			rp["flush_index"], rp["sink_len"] = i, p
			r.Violate("flushed-data-not-recoverable", fmt.Sprintf("after flush %d (%d sink bytes) decoder gives %d bytes (%s), %d were written", i, p, len(out), cls, len(want)), rp)
		}
		zout, _, _ := ref.ZInflate(sink[:p], len(plain)+64)
		if !(len(zout) >= len(want) && bytes.Equal(zout[:len(want)], want)) {
			rp := copyMap(base)
			rp["flush_index"] = i
			r.Violate("flushed-data-not-recoverable", "zlib", rp)
		}
	}
	// every cut position
	bounds := append([]int{}, res.FlushAt...)
	for _, k := range cutPositions(r, len(sink), bounds) {
		cut := sink[:k]
		r.Eval("cut:xflate:"+kind, true, cut, []byte(fmt.Sprint(k)))
		rp := copyMap(base)
		rp["cut"], rp["sink"] = k, vhlib.Hex(sink)
		if k < len(sink) {
			out, cls, _ := stdInflateObs(cut)
			if cls == "nil" || !isPrefix(out, plain) {
				r.Violate("cut-deflate-misread", fmt.Sprintf("cut=%d/%d compress/flate: class=%s out=%d prefix=%v", k, len(sink), cls, len(out), isPrefix(out, plain)), rp)
			}
			zout, zst, _ := ref.ZInflate(cut, len(plain)+64)
			if zst == "end" || !isPrefix(zout, plain) {
				r.Violate("cut-deflate-misread", fmt.Sprintf("cut=%d zlib: %s", k, zst), rp)
			}
		}
		// this repository's flate.Reader on the cut, over both input paths of the bit reader
		if k < len(sink) {
			for _, sk := range srcKinds() {
				if sk.Name != "ByteReader" && sk.Name != "bytes.Reader" {
					continue
				}
				ob := observe(codecs()[0], cut, sk, []int{4096}, r.Rng)
				if ob.Cls == "nil" || !isPrefix(ob.Out, plain) {
					r.Violate("cut-deflate-misread", fmt.Sprintf("cut=%d/%d flate.Reader src=%s: class=%s out=%d", k, len(sink), sk.Name, ob.Cls, len(ob.Out)), rp)
				}
			}
		}
		// xflate.NewReader: fails, or serves exactly the original
		func() {
			defer func() {
				if p := recover(); p != nil {
					r.Violate("panic", fmt.Sprint(p), rp)
				}
			}()
			xr, err := xflate.NewReader(bytes.NewReader(cut), nil)
			if err != nil {
				r.Hist["cut-open-fails"]++
				return
			}
			out, err := ioutil.ReadAll(xr)
			r.Hist["cut-open-ok"]++
			if err == nil && !bytes.Equal(out, plain) {
				r.Violate("cut-served-different-content", fmt.Sprintf("cut=%d/%d: opened and read %d bytes without error, original has %d", k, len(sink), len(out), len(plain)), rp)
			}
			if err != nil && !isPrefix(out, plain) {
				r.Violate("cut-wrong-byte", fmt.Sprintf("cut=%d", k), rp)
			}
		}()
	}
	// the model decodes the complete output to the original
	if len(sink) < 6000 {
		r.Case("inflate", []string{vhlib.Hex(sink)}, fmt.Sprintf("nil %s %d", vhlib.Hex(plain), len(sink)))
	}
}

func copyMap(m map[string]interface{}) map[string]interface{} {
	o := map[string]interface{}{}
	for k, v := range m {
		o[k] = v
	}
	return o
}

func c12Bzip2(r *vhlib.Run, data []byte, level int) {
	sink, err, _, _ := bzWrite(data, level, vhlib.Partition(r.Rng, data))
	if err != nil {
		return
	}
	base := map[string]interface{}{"writer": "bzip2", "level": level, "input_len": len(data)}
	if len(data) < 3000 {
		base["input"] = vhlib.Hex(data)
	}
	for _, k := range cutPositions(r, len(sink), []int{4, len(sink) - 10, len(sink) - 4}) {
		if k >= len(sink) {
			continue
		}
		cut := sink[:k]
		r.Eval("cut:bzip2", true, cut, []byte(fmt.Sprint(k)))
		rp := copyMap(base)
		rp["cut"] = k
		lout, lok, _, lns, _ := ref.BZDecompress(cut, len(data)+64)
		if (lok && lns > 0) || !isPrefix(lout, data) {
			r.Violate("cut-bzip2-misread", fmt.Sprintf("libbz2 cut=%d/%d ok=%v out=%d", k, len(sink), lok, len(lout)), rp)
		}
		// Go's compress/bzip2 must not ACCEPT a cut either; what it delivers before failing is not
		// held against the Writer: its bit reader feeds zeros to the decoder after the input ends,
		// so on a cut it can emit bytes of its own making before it reports the error (libbz2 and
		// this repository's Reader are the references for the bytes)
		sout, serr := ioutil.ReadAll(stdbzip2.NewReader(bytes.NewReader(cut)))
		if serr == nil {
			r.Violate("cut-bzip2-misread", fmt.Sprintf("compress/bzip2 accepted cut=%d out=%d", k, len(sout)), rp)
		}
		if !isPrefix(sout, data) {
			r.Hist["compress/bzip2-garbage-before-error-on-cut"]++
		}
		o := observe(codecs()[2], cut, srcKinds()[0], []int{4096}, r.Rng)
		if o.Cls == "nil" || !isPrefix(o.Out, data) {
			r.Violate("cut-bzip2-misread", fmt.Sprintf("bzip2.Reader cut=%d class=%s", k, o.Cls), rp)
		}
		// the same cut through a ReadByte-only source (the other input path of the bit reader)
		for _, sk := range srcKinds() {
			if sk.Name != "ByteReader" {
				continue
			}
			ob := observe(codecs()[2], cut, sk, []int{4096}, r.Rng)
			if ob.Cls == "nil" || !isPrefix(ob.Out, data) {
				r.Violate("cut-bzip2-misread", fmt.Sprintf("bzip2.Reader over a ReadByte-only source: cut=%d class=%s", k, ob.Cls), rp)
			}
		}
		if k%5 == 0 && len(cut) < 3000 {
			obsStr := fmt.Sprintf("%s %s", o.Cls, vhlib.Hex(o.Out))
			r.Case("bzdec", []string{vhlib.Hex(cut)}, obsStr)
		}
	}
}

func runC12(r *vhlib.Run) {
	rng := r.Rng
	m := vhlib.StartModel()
	defer m.Close()
	n := 14
	if !r.Quick() {
		n = 200
	}
	for i := 0; i < n; i++ {
		cfg := randXWConfig(rng)
		c12XFlate(r, m, cfg, randXWOps(rng, 2+rng.Intn(14), 50), "random")
	}
	// a destination that fails once (possibly after a short write) and then works
	// again: every Flush that still returns nil promises recoverability of what the
	// destination holds
	nf := 200
	if !r.Quick() {
		nf = 4000
	}
	for i := 0; i < nf; i++ {
		cfg := randXWConfig(rng)
		ops := randXWOps(rng, 3+rng.Intn(20), 40)
		var bb bytes.Buffer
		clean := runXW(cfg, ops, nil, &bb)
		if clean.NewErr != "nil" || len(clean.Sink) == 0 {
			continue
		}
		fs := &faultSink{At: rng.Intn(len(clean.Sink)), Kind: rng.Intn(2), Once: true}
		res := runXW(cfg, ops, fs, &fs.Buf)
		r.Eval("transient-sink-fault", true, []byte(fmt.Sprint(cfg, fs.At, fs.Kind)), []byte(strings.Join(opsStrings(ops), " ")))
		if res.Panic != "" {
			continue // C08/C13 report panics
		}
		got := fs.Buf.Bytes()
		for k, p := range res.FlushAt {
			if p <= fs.At || fs.Fired == 0 {
				continue // flush points before the fault are covered above
			}
			r.Hist["flush-nil-after-transient-fault"]++
			want := res.Written[:res.FlushIn[k]]
			out, cls, _ := stdInflateObs(got[:p])
			if !(len(out) >= len(want) && bytes.Equal(out[:len(want)], want)) || (cls != "UEOF" && cls != "nil") {
				r.Violate("flushed-data-not-recoverable", fmt.Sprintf("sink failed once at byte %d; a later Flush returned nil with %d sink bytes, decoder gives %d bytes (%s), %d were written", fs.At, p, len(out), cls, len(want)),
					map[string]interface{}{"level": cfg.Level, "chunk": cfg.ChunkSize, "index": cfg.Index, "ops": opsStrings(ops), "sink_fails_once_at": fs.At, "fault_kind": fs.Kind})
				break
			}
		}
	}
	// NoCompression with user data that looks like XFLATE structure: meta blocks and a complete nested stream
	for i := 0; i < 4; i++ {
		nested, _, _ := makeXFStream(xwCfg{Level: 6, ChunkSize: 8, Index: 2}, []xwOp{{Kind: 'w', Data: vhlib.RandBytes(rng, 20)}, {Kind: 'c'}})
		var mb bytes.Buffer
		mw := meta.NewWriter(&mb)
		mw.FinalMode = meta.FinalStream
		mw.Write([]byte("XF\x00\x00"))
		mw.Close()
		user := append(append(vhlib.RandBytes(rng, rng.Intn(30)), nested...), mb.Bytes()...)
		user = append(user, vhlib.RandBytes(rng, rng.Intn(10))...)
		c12XFlate(r, m, xwCfg{Level: -1, ChunkSize: int64(len(user) + 50), Index: -1}, []xwOp{{Kind: 'w', Data: user}, {Kind: 'f', Mode: rng.Intn(3)}, {Kind: 'w', Data: nested}, {Kind: 'c'}}, "lookalike")
	}
	nb := 6
	if !r.Quick() {
		nb = 60
	}
	for i := 0; i < nb; i++ {
		c12Bzip2(r, bzPlain(rng, 1500), 1+rng.Intn(9))
	}
	r.Sample(map[string]interface{}{"writer": "xflate", "ops": []string{"w:…", "f:1", "w:…", "c"}, "cuts": "every byte position of the output"})
}
