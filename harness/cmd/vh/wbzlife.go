package main

// WBZLIFE: the LIFECYCLE of the real bzip2.Reader against its implementation-level model
// (coq/Bzip2/ImplLife.v: bz_close / bz_op / bz_ops / bz_life over coq/Bzip2/Impl.v), per call.
// One Reader is driven through a history of Read (buffer sizes incl. 0), Close (before the
// first Read, in the middle of a block, in the middle of a run of the RLE1 stage, after an
// error, after io.EOF, twice, ...) and Reset (after any of these, onto valid / corrupt /
// truncated / empty / multi-stream inputs, both source kinds).  After EVERY call the
// observation is: bytes delivered, error class, InputOffset, OutputOffset, position of the
// current scripted source.
//
// Next to the correspondence the run checks directly, on the real Reader, what
// coq/Bzip2/ImplLifeThms.v proves of the model (bz_error_sticky, bz_close_frame,
// bz_closed_inert): a latched error is returned again with no bytes and nothing moves; Close
// returns nil after io.EOF / Close and the latched error otherwise, and never touches the
// source or the offsets; and (bz_reset_as_new) a Reader that is Reset behaves call by call
// like a new one: every history that follows a Reset is replayed on a NEW Reader over the same
// scripted source and the observations are compared.

import (
	"bytes"
	"fmt"
	"io"
	"math/rand"
	"strings"

	"github.com/dsnet/compress/bzip2"
	"github.com/dsnet/compress/xflate/verifharness/gen"
	"github.com/dsnet/compress/xflate/verifharness/ref"
	"github.com/dsnet/compress/xflate/verifharness/vhlib"
)

func init() { props["WBZLIFE"] = wbzlife }

// one call of a history, as it is replayed
type bzLifeOp struct {
	kind byte // 'r', 'c', 'R'
	n    int
	s    bzStream
}

// bzLifeRun drives one real Reader and records the history as the model is asked to replay it.
type bzLifeRun struct {
	r      *vhlib.Run
	zr     *bzip2.Reader
	src    *scriptSrc
	args   []string
	obs    []string
	all    []byte // every stream, for the evidence hash
	dead   bool   // a call crashed: the history ends
	expect string // class of the error a Read is known to return next ("" = not known)
	calls  int
	shadow bool // a replay on a new Reader: nothing is recorded
	// the calls since the last Reset (with the source of that Reset) and what they returned
	since    []bzLifeOp
	sinceObs []string
	sinceSrc bzStream
	wasReset bool
}

func bzLifeSource(s bzStream) (*scriptSrc, io.Reader) {
	src := &scriptSrc{B: s.data, Fills: append([]int{}, s.fills...), Reads: append([]int{}, s.reads...)}
	var rd io.Reader = src
	if !s.buffered {
		rd = byteOnlyView{scriptByteSrc{src}}
	}
	return src, rd
}

func newBzLife(r *vhlib.Run, s bzStream) *bzLifeRun {
	l := &bzLifeRun{r: r}
	src, rd := bzLifeSource(s)
	l.src = src
	l.zr, _ = bzip2.NewReader(rd, nil)
	l.args = []string{lifeHex(s.data), fmt.Sprint(b2i(s.buffered)), joinInts(s.fills), joinInts(s.reads)}
	l.all = append(l.all, s.data...)
	l.sinceSrc = s
	return l
}

func (l *bzLifeRun) state() string {
	return fmt.Sprintf("%d:%d:%d", l.zr.InputOffset, l.zr.OutputOffset, l.src.Pos)
}

func (l *bzLifeRun) replay() interface{} {
	return map[string]interface{}{"type": "bzip2.Reader", "case": strings.Join(l.args, " ")}
}

func (l *bzLifeRun) note(o bzLifeOp, ob string) {
	l.obs = append(l.obs, ob)
	l.since = append(l.since, o)
	l.sinceObs = append(l.sinceObs, ob)
}

// Read(make([]byte, n))
func (l *bzLifeRun) Read(n int) (cnt int, err error) {
	if l.dead {
		return 0, io.ErrClosedPipe
	}
	l.calls++
	l.args = append(l.args, fmt.Sprintf("r%d", n))
	before := l.state()
	buf := make([]byte, n)
	crashed := false
	func() {
		defer func() {
			if p := recover(); p != nil {
				crashed = true
			}
		}()
		cnt, err = l.zr.Read(buf)
	}()
	if crashed {
		l.obs = append(l.obs, "Panic")
		l.dead = true
		if !l.shadow {
			l.r.Violate("panic", "bzip2.Reader.Read panicked", l.replay())
		}
		return 0, io.ErrClosedPipe
	}
	cls := vhlib.ErrClass(err)
	l.note(bzLifeOp{kind: 'r', n: n}, fmt.Sprintf("r:%s:%s:%s", bzFmtBytes(buf[:cnt]), cls, l.state()))
	if l.expect != "" && !l.shadow {
		// bz_error_sticky / bz_closed_inert
		if cnt != 0 || cls != l.expect || l.state() != before {
			l.r.Violate("latched-error-not-sticky",
				fmt.Sprintf("call %d: Read after %s returned (%d,%s), state %s -> %s", l.calls, l.expect, cnt, cls, before, l.state()), l.replay())
		}
	}
	if err != nil {
		l.expect = cls
	}
	return cnt, err
}

func (l *bzLifeRun) Close() error {
	if l.dead {
		return nil
	}
	l.calls++
	l.args = append(l.args, "c")
	before := l.state()
	var err error
	crashed := false
	func() {
		defer func() {
			if p := recover(); p != nil {
				crashed = true
			}
		}()
		err = l.zr.Close()
	}()
	if crashed {
		l.obs = append(l.obs, "Panic")
		l.dead = true
		if !l.shadow {
			l.r.Violate("panic", "bzip2.Reader.Close panicked", l.replay())
		}
		return nil
	}
	cls := vhlib.ErrClass(err)
	l.note(bzLifeOp{kind: 'c'}, fmt.Sprintf("c:%s:%s", cls, l.state()))
	if l.shadow {
		return err
	}
	// bz_close_frame
	if l.state() != before {
		l.r.Violate("close-moved-state", fmt.Sprintf("call %d: Close changed %s -> %s", l.calls, before, l.state()), l.replay())
	}
	switch {
	case l.expect == "EOF" || l.expect == "Closed":
		if err != nil {
			l.r.Violate("close-not-idempotent", fmt.Sprintf("call %d: Close after %s returned %s", l.calls, l.expect, cls), l.replay())
		}
		l.expect = "Closed"
	case l.expect != "":
		if cls != l.expect {
			l.r.Violate("close-hides-error", fmt.Sprintf("call %d: Close after %s returned %s", l.calls, l.expect, cls), l.replay())
		}
	case err != nil:
		// an error was latched behind delivered output (a missing run-length count at the
		// end of a block): it is sticky from now on
		l.expect = cls
		l.r.Hist["close-surfaced-pending-error"]++
	}
	return err
}

// checkSince: the calls since the last Reset, on a NEW Reader over the same scripted source,
// return the same observations (bz_reset_as_new, checked on the real code)
func (l *bzLifeRun) checkSince() {
	if l.shadow || !l.wasReset || l.dead || len(l.since) == 0 {
		return
	}
	sh := newBzLife(l.r, l.sinceSrc)
	sh.shadow = true
	for _, o := range l.since {
		switch o.kind {
		case 'r':
			sh.Read(o.n)
		case 'c':
			sh.Close()
		}
	}
	l.r.Hist["reset-vs-new-replays"]++
	if strings.Join(sh.obs, ",") != strings.Join(l.sinceObs, ",") {
		l.r.Violate("reset-differs-from-new",
			fmt.Sprintf("after Reset: %s ; new Reader: %s", strings.Join(l.sinceObs, ","), strings.Join(sh.obs, ",")), l.replay())
	}
}

func (l *bzLifeRun) Reset(s bzStream) {
	if l.dead {
		return
	}
	l.checkSince()
	l.calls++
	src, rd := bzLifeSource(s)
	l.args = append(l.args, fmt.Sprintf("R/%s/%d/%s/%s", lifeHex(s.data), b2i(s.buffered), joinInts(s.fills), joinInts(s.reads)))
	l.all = append(l.all, s.data...)
	err := l.zr.Reset(rd)
	l.src = src
	l.expect = ""
	l.obs = append(l.obs, fmt.Sprintf("R:%s:%s", vhlib.ErrClass(err), l.state()))
	l.since, l.sinceObs, l.sinceSrc, l.wasReset = nil, nil, s, true
}

func (l *bzLifeRun) emit(kind string) {
	l.checkSince()
	l.r.Eval("bzlife:"+kind, true, l.all, []byte(strings.Join(l.args, " ")))
	l.r.Hist["calls"] += l.calls
	obs := "-"
	if len(l.obs) > 0 {
		obs = strings.Join(l.obs, ",")
	}
	l.r.Case("bzlife", l.args, obs)
}

// readUntilErr: Reads with sizes from sched (the last one repeats) until an error comes back.
func (l *bzLifeRun) readUntilErr(sched []int, max int) error {
	for i := 0; i < max && !l.dead; i++ {
		n := sched[len(sched)-1]
		if i < len(sched) {
			n = sched[i]
		}
		if _, err := l.Read(n); err != nil {
			return err
		}
	}
	return nil
}

var bzLifeSizes = []int{0, 0, 1, 1, 2, 3, 4, 5, 7, 16, 100, 254, 255, 256, 257, 258, 259, 260, 1000, 4096, 70000}

func bzLifeSize(rng *rand.Rand) int { return bzLifeSizes[rng.Intn(len(bzLifeSizes))] }

// plain text with long runs of equal bytes (4..700): the RLE1 stage repeats lastVal over many Reads
func bzRunsPlain(rng *rand.Rand) []byte {
	var p []byte
	for k := 1 + rng.Intn(5); k > 0; k-- {
		p = append(p, vhlib.RandBytes(rng, rng.Intn(6))...)
		p = append(p, bytes.Repeat([]byte{byte(rng.Intn(256))}, []int{4, 5, 9, 200, 255, 256, 258, 259, 260, 700}[rng.Intn(10)])...)
	}
	return p
}

// bzLifeData: one input of the given family (at most maxLen bytes, light for the model).
func bzLifeData(rng *rand.Rand, fam int, maxLen int) ([]byte, string) {
	for try := 0; ; try++ {
		var d []byte
		var kind string
		switch fam {
		case 0:
			d, kind = ref.BZCompress(bzPlain(rng, 1200), 1+rng.Intn(9)), "valid-libbz2"
		case 1:
			d, _, _, _ = bzWrite(bzPlain(rng, 1200), 1+rng.Intn(9), nil)
			kind = "valid-own-writer"
		case 2:
			c := gen.BzSynth(rng)
			d, kind = c.Data, "synth"
		case 3:
			d, kind = gen.Mutate(rng, gen.BzSynth(rng).Data), "mutated"
		case 4:
			d = ref.BZCompress(bzPlain(rng, 600), 1+rng.Intn(9))
			if rng.Intn(2) == 0 {
				d = gen.BzSynth(rng).Data
			}
			d, kind = d[:rng.Intn(len(d)+1)], "truncated"
		case 5:
			d, kind = nil, "empty"
		case 6: // several streams, sometimes with something wrong after the first
			d = append(ref.BZCompress(bzPlain(rng, 300), 1+rng.Intn(9)), ref.BZCompress(bzPlain(rng, 300), 1+rng.Intn(9))...)
			switch rng.Intn(4) {
			case 0:
				d = append(d, ref.BZCompress(nil, 9)...)
			case 1:
				d = append(d, []byte("BZh")...)
			case 2:
				d = append(d, 0)
			}
			kind = "multi-stream"
		case 7:
			d, kind = ref.BZCompress(bzRunsPlain(rng), 1+rng.Intn(9)), "valid-runs"
		case 8:
			d, kind = vhlib.RandBytes(rng, rng.Intn(6)), "tiny"
		case 9:
			d, kind = gen.BzKraftCombos(rng)[rng.Intn(10)].Data, "kraft-combo"
		case 10: // block-limit / run-limit / RLE1 edge cases, e.g. a block that ends after four
			// equal bytes: "missing terminating run-length repeater"
			if len(bzLifeTargets) == 0 {
				fam = 0
				continue
			}
			d, kind = bzLifeTargets[rng.Intn(len(bzLifeTargets))], "targeted"
		default: // compressible, tens of KB of output from a small input
			d, kind = ref.BZCompress(bzCompressible(rng, 20000+rng.Intn(40000)), 1+rng.Intn(9)), "valid-large-output"
		}
		if len(d) <= maxLen && !bzHeavy(d) {
			return d, kind
		}
		if try > 20 {
			fam = 0
		}
	}
}

// the small ones of gen.BzTargeted (generated once per run: the large ones are 100000-byte blocks)
var bzLifeTargets [][]byte

var bzLifeFams = []int{0, 0, 0, 1, 1, 2, 2, 2, 3, 3, 3, 4, 4, 4, 5, 6, 6, 7, 7, 7, 8, 9, 10, 11}

func bzLifeStreamOf(rng *rand.Rand, maxLen int) (bzStream, string) {
	fam := bzLifeFams[rng.Intn(len(bzLifeFams))]
	d, kind := bzLifeData(rng, fam, maxLen)
	s := bzStreamOf(rng, d, false)
	return s, kind
}

// one random call
func (l *bzLifeRun) randomOp(rng *rand.Rand, maxLen int) {
	switch x := rng.Intn(20); {
	case x < 13:
		l.Read(bzLifeSize(rng))
	case x < 17:
		l.Close()
	default:
		s, _ := bzLifeStreamOf(rng, maxLen)
		l.Reset(s)
	}
}

func wbzlife(r *vhlib.Run) {
	rng := r.Rng
	nRand, nScen, maxLen := 100, 9, 1500
	if !r.Quick() {
		nRand, nScen, maxLen = 4000, 400, 3000
	}

	bzLifeTargets = nil
	for _, t := range gen.BzTargeted(rng) {
		if len(t.Data) <= 400 && !bzHeavy(t.Data) {
			bzLifeTargets = append(bzLifeTargets, t.Data)
		}
	}

	// ---- the concrete histories of the Examples of coq/Bzip2/ImplLifeThms.v, on the real Reader:
	// the model side of these cases is what the Examples state (vm_compute), so the numbers
	// proved there are replayed here
	{
		hx := func(s string) []byte {
			b := make([]byte, len(s)/2)
			fmt.Sscanf(s, "%x", &b)
			return b
		}
		exHello40 := hx("425a68393141592653590a6aeda300008b998040040008064490802000508018052a9a68f48d09a1304d8982609e89c13826c27c2609e09f8bb9229c2848053576d180")
		exRuns := hx("425a6831314159265359852b8f8100000491808020200000700008200030c0064c6a72411dc5f177245385090852b8f810")
		exNorep := hx("425a68313141592653599e955272000002018020000070300026fffffe830cd341a69bde86e8bb9229c28484f4aa9390")
		exTwo := catBytes(exRuns, exHello40[:40])
		run := func(name string, s bzStream, ops ...interface{}) {
			l := newBzLife(r, s)
			for _, o := range ops {
				switch v := o.(type) {
				case int:
					l.Read(v)
				case string:
					l.Close()
				case bzStream:
					l.Reset(v)
				}
			}
			l.emit("coq-" + name)
		}
		// bz_error_sticky_example
		run("error-sticky", bzStream{data: exTwo, buffered: true}, 1000, 1000, 1000, 0, 7, "c", 1, "c")
		// bz_closed_inert_example, bz_closed_inert_example_eof
		run("closed-inert", bzStream{data: exNorep, buffered: true}, 100, "c", 100, "c", 1)
		run("closed-inert-eof", bzStream{data: exHello40, buffered: false}, 1000, 1000, "c", 5, "c", 0)
		// bz_close_midstream_witness / bz_close_closes_refuted, bz_close_first_witness
		run("close-midstream", bzStream{data: exRuns, buffered: false}, 10, "c", 10, 0, "c", 1000, 1000, "c", 3)
		run("close-first", bzStream{data: exHello40, buffered: true}, "c", "c", 1000, 1, "c", 1)
		// bz_reset_as_new_example: ex_history after Reset of the mid-block Reader, and on a new Reader
		hist := []interface{}{10, "c", 0, 1000, 1, "c", 1, bzStream{data: exTwo, buffered: true, fills: []int{3, 0}}, 100, 1000, 5, "c"}
		run("reset-as-new", bzStream{data: exHello40, buffered: false}, append([]interface{}{5, bzStream{data: exRuns, buffered: true}}, hist...)...)
		run("reset-as-new-ref", bzStream{data: exRuns, buffered: true}, hist...)
	}

	// ---- fixed witnesses ---------------------------------------------------------------------
	hello := []byte(strings.Repeat("hello, world; ", 40))
	for _, bf := range []bool{true, false} {
		// Close in the middle of a stream does NOTHING: nil, nothing latched, the pending output
		// stays and the next Reads deliver it (ImplLifeThms.v bz_close_midstream_witness)
		l := newBzLife(r, bzStream{data: ref.BZCompress(hello, 9), buffered: bf})
		l.Read(5)
		l.Close()
		l.readUntilErr([]int{100}, 50)
		l.Close()
		l.Read(1)
		l.emit("witness-midstream-close")

		// Close before the first Read: nil, the Reader is NOT closed
		l = newBzLife(r, bzStream{data: ref.BZCompress(hello, 1), buffered: bf})
		l.Close()
		l.Close()
		l.readUntilErr([]int{4096}, 50)
		l.Close()
		l.Close()
		l.Read(7)
		l.Read(0)
		l.emit("witness-close-first")

		// Close in the middle of a run of the RLE1 stage (lastCnt > 0)
		runs := ref.BZCompress(append([]byte("xyz"), bytes.Repeat([]byte{'a'}, 300)...), 1)
		l = newBzLife(r, bzStream{data: runs, buffered: bf})
		l.Read(10)
		l.Close()
		l.Read(10)
		l.Read(0)
		l.Close()
		l.readUntilErr([]int{250}, 50)
		l.Close()
		l.Read(3)
		l.emit("witness-midrun-close")

		// the stream cut in the middle of the block: the error is sticky, Close returns it, twice
		for _, cut := range []int{len(runs) - 1, len(runs) / 2, 4, 3, 0} {
			l = newBzLife(r, bzStream{data: runs[:cut], buffered: bf})
			l.readUntilErr([]int{1}, 500)
			l.Read(10)
			l.Read(0)
			l.Close()
			l.Read(10)
			l.Close()
			l.Reset(bzStream{data: runs, buffered: !bf})
			l.readUntilErr([]int{1000}, 50)
			l.emit("witness-truncated")
		}

		// a block that ends after four equal bytes (no count byte): the error comes only when
		// the buffer is not filled; Close surfaces it behind delivered output
		for _, td := range bzLifeTargets {
			for _, sz := range []int{1, 4, 100} {
				l = newBzLife(r, bzStream{data: td, buffered: bf})
				l.Read(sz)
				l.Close()
				l.readUntilErr([]int{sz}, 600)
				l.Close()
				l.Read(1)
				l.emit("witness-targeted")
			}
		}

		// Reset over a Reader that has decoded a large block: buffers of every stage have grown
		// (mtf, bwt, treeSels, syms); the next stream is delivered exactly as by a new Reader
		big := ref.BZCompress(bzCompressible(rand.New(rand.NewSource(11)), 60000), 9)
		small := ref.BZCompress(hello, 9)
		if len(big) <= 3000 {
			l = newBzLife(r, bzStream{data: big, buffered: bf})
			l.readUntilErr([]int{100000}, 50)
			l.Reset(bzStream{data: small, buffered: bf})
			l.readUntilErr([]int{100000}, 50)
			l.Reset(bzStream{data: big, buffered: !bf})
			l.Read(100000)
			l.Reset(bzStream{data: big, buffered: bf})
			l.readUntilErr([]int{30000}, 50)
			l.Close()
			l.Reset(bzStream{data: small, buffered: bf})
			l.readUntilErr([]int{7}, 200)
			l.emit("witness-capacity-reset")
		}
	}

	// ---- scenarios: every lifecycle situation the properties name ---------------------------------
	for i := 0; i < nScen; i++ {
		for sc := 0; sc < 9; sc++ {
			s, kind := bzLifeStreamOf(rng, maxLen)
			l := newBzLife(r, s)
			sched := bzSched(rng, false)
			switch sc {
			case 0: // Close before the first Read, then Reads, Close again
				l.Close()
				l.Read(bzLifeSize(rng))
				l.Read(bzLifeSize(rng))
				l.Close()
				l.Read(bzLifeSize(rng))
			case 1: // to the end (io.EOF or an error), then more Reads, Close twice, Read
				l.readUntilErr(sched, 300)
				l.Read(bzLifeSize(rng))
				l.Read(0)
				l.Close()
				l.Close()
				l.Read(bzLifeSize(rng))
				l.Close()
			case 2: // a few Reads, Close in the middle, Reads to the end, Close
				for k := rng.Intn(4); k >= 0; k-- {
					l.Read(bzLifeSize(rng))
				}
				l.Close()
				l.readUntilErr(sched, 300)
				l.Close()
				l.Read(bzLifeSize(rng))
			case 3: // small Reads (in the middle of a block / of a run), Close, go on
				l.Read(1 + rng.Intn(5))
				l.Read(1 + rng.Intn(5))
				l.Close()
				l.Read(bzLifeSize(rng))
				l.Close()
				l.Read(0)
				l.Read(1 + rng.Intn(300))
			case 4: // Reset after the end / an error / Close, then the second stream to its end
				l.readUntilErr(sched, 300)
				if rng.Intn(2) == 0 {
					l.Close()
				}
				s2, _ := bzLifeStreamOf(rng, maxLen)
				l.Reset(s2)
				l.readUntilErr(bzSched(rng, false), 300)
				l.Close()
				l.Read(bzLifeSize(rng))
			case 5: // Reset in the middle, after a Close in the middle, twice in a row
				for k := rng.Intn(5); k >= 0; k-- {
					l.Read(bzLifeSize(rng))
				}
				if rng.Intn(2) == 0 {
					l.Close()
				}
				s2, _ := bzLifeStreamOf(rng, maxLen)
				l.Reset(s2)
				if rng.Intn(3) == 0 {
					s3, _ := bzLifeStreamOf(rng, maxLen)
					l.Reset(s3)
				}
				l.readUntilErr(bzSched(rng, false), 300)
				l.Read(bzLifeSize(rng))
				l.Close()
			case 6: // closed, then Reset revives it
				l.readUntilErr(sched, 300)
				l.Close()
				l.Read(bzLifeSize(rng))
				s2, _ := bzLifeStreamOf(rng, maxLen)
				l.Reset(s2)
				l.Read(bzLifeSize(rng))
				l.Close()
				l.Read(bzLifeSize(rng))
				s3, _ := bzLifeStreamOf(rng, maxLen)
				l.Reset(s3)
				l.readUntilErr(bzSched(rng, false), 300)
			case 7: // Reset straight after NewReader / after a Close before any Read
				if rng.Intn(2) == 0 {
					l.Close()
				}
				s2, _ := bzLifeStreamOf(rng, maxLen)
				l.Reset(s2)
				l.readUntilErr(sched, 300)
				l.Close()
			default: // the same input again after Reset, other source kind, other Read sizes
				l.readUntilErr(sched, 300)
				s2 := s
				s2.buffered = !s.buffered
				l.Reset(s2)
				l.readUntilErr(bzSched(rng, false), 300)
				l.Close()
				l.Read(bzLifeSize(rng))
			}
			l.emit(fmt.Sprintf("scenario%d-%s", sc, kind))
		}
	}

	// ---- random histories ---------------------------------------------------------------------------
	for i := 0; i < nRand; i++ {
		s, kind := bzLifeStreamOf(rng, maxLen)
		l := newBzLife(r, s)
		for k := 1 + rng.Intn(30); k > 0; k-- {
			l.randomOp(rng, maxLen)
		}
		l.emit("random-" + kind)
	}

	// ---- thorough tier: Resets between LARGE blocks (100-300 KB of output, several blocks) -------
	if !r.Quick() {
		for i := 0; i < 6; i++ {
			p1 := bzCompressible(rng, 100000+rng.Intn(200000))
			p2 := bzCompressible(rng, 1000+rng.Intn(150000))
			d1 := ref.BZCompress(p1, 1+rng.Intn(9))
			d2 := ref.BZCompress(p2, 1+rng.Intn(9))
			if len(d1) > 40000 || len(d2) > 40000 {
				continue
			}
			l := newBzLife(r, bzStreamOf(rng, d1, true))
			if i%2 == 0 {
				l.readUntilErr([]int{70000}, 50)
			} else {
				l.Read(1000)
				l.Close()
				l.Read(50000)
			}
			l.Reset(bzStreamOf(rng, d2, true))
			l.readUntilErr([]int{1 << 20}, 50)
			l.Close()
			l.Reset(bzStreamOf(rng, d1, true))
			l.Read(100)
			l.Close()
			l.Read(100)
			l.emit("large-reset")
		}
	}
}
