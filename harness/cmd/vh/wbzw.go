package main

import (
	"fmt"
	"math/rand"
	"strings"

	"github.com/dsnet/compress/bzip2"
	"github.com/dsnet/compress/xflate/verifharness/vhlib"
)

// WBZW: the real bzip2.Writer over the scripted sink of wbitw.go against its
// implementation-level model (coq/Bzip2/WriterImpl.v), PER CALL: return values,
// InputOffset / OutputOffset after the call, the number of sink calls the call made and
// how many bytes each of them accepted; and the bytes every sink holds at the end
// (a Reset installs a new sink).

func init() { props["WBZW"] = runWBZW }

// ---- operations ----------------------------------------------------------------------
type zwOp struct {
	Kind   byte // 'w' Write, 'c' Close, 'r' Reset(new sink)
	Data   []byte
	Script []wSinkBeh
	Rest   wSinkBeh
}

func wScriptString(script []wSinkBeh) string {
	var sc []string
	for _, b := range script {
		sc = append(sc, b.String())
	}
	if len(sc) == 0 {
		return "-"
	}
	return strings.Join(sc, ",")
}

func (o zwOp) String() string {
	switch o.Kind {
	case 'w':
		h := vhlib.Hex(o.Data)
		if h == "" {
			h = "-"
		}
		return "w:" + h
	case 'r':
		return "r/" + wScriptString(o.Script) + "/" + o.Rest.String()
	}
	return "c"
}

// a sink that also records how many bytes each call accepted
type zwSink struct {
	wScriptSink
	Acc []int
}

func (s *zwSink) Write(p []byte) (int, error) {
	n, err := s.wScriptSink.Write(p)
	s.Acc = append(s.Acc, n)
	return n, err
}

func newZwSink(script []wSinkBeh, rest wSinkBeh) *zwSink {
	return &zwSink{wScriptSink: wScriptSink{Script: append([]wSinkBeh{}, script...), Rest: rest}}
}

func zwErrName(err error) string {
	if e, ok := err.(wSinkErr); ok {
		return fmt.Sprintf("Src%d", e.Tag)
	}
	return vhlib.ErrClass(err)
}

func hexOrDash(b []byte) string {
	if len(b) == 0 {
		return "-"
	}
	return vhlib.Hex(b)
}

// the per-call observation shared by WBZW and WMETAW: <ret>:<in>:<out>:<accepted sizes>
func zwCallObs(head string, in, out int64, sink *zwSink, calls0 int) string {
	var sz []string
	for _, n := range sink.Acc[calls0:] {
		sz = append(sz, fmt.Sprint(n))
	}
	s := strings.Join(sz, "+")
	if s == "" {
		s = "-"
	}
	return fmt.Sprintf("%s:%d:%d:%s", head, in, out, s)
}

// runBzWriter drives the real bzip2.Writer; returns the observation string and all sinks.
func runBzWriter(level int, script []wSinkBeh, rest wSinkBeh, ops []zwOp) (string, []*zwSink) {
	sink := newZwSink(script, rest)
	sinks := []*zwSink{sink}
	zw, err := bzip2.NewWriter(sink, &bzip2.WriterConfig{Level: level})
	if err != nil {
		panic(err)
	}
	var obs []string
	for _, o := range ops {
		calls0 := len(sink.Acc)
		var head string
		rtPanic := false
		func() {
			defer func() {
				if p := recover(); p != nil {
					rtPanic = true
				}
			}()
			switch o.Kind {
			case 'w':
				n, err := zw.Write(o.Data)
				head = fmt.Sprintf("w:%d:%s", n, zwErrName(err))
			case 'c':
				err := zw.Close()
				head = "c:" + zwErrName(err)
			case 'r':
				sink = newZwSink(o.Script, o.Rest)
				sinks = append(sinks, sink)
				calls0 = 0
				zw.Reset(sink)
				head = "r"
			}
		}()
		if rtPanic {
			head = "panic"
		}
		obs = append(obs, zwCallObs(head, zw.InputOffset, zw.OutputOffset, sink, calls0))
		if rtPanic {
			break
		}
	}
	var finals []string
	for _, s := range sinks {
		finals = append(finals, hexOrDash(s.Data))
	}
	return strings.Join(obs, ",") + " " + strings.Join(finals, ","), sinks
}

// ---- inputs ------------------------------------------------------------------------------
// data without periodic structure (the model sorts rotations by direct comparison)
func zwData(rng *rand.Rand, n int, kind int) []byte {
	b := make([]byte, n)
	switch kind {
	case 0: // uniform
		rng.Read(b)
	case 1: // text-like
		const alpha = "etaoin shrdlu,.\nETAOIN"
		for i := range b {
			b[i] = alpha[rng.Intn(len(alpha))]
		}
	case 2: // short runs of random bytes (RLE1 active: runs of 4.. and of 256..)
		for i := 0; i < n; {
			c := byte(rng.Intn(256))
			l := 1
			switch rng.Intn(8) {
			case 0:
				l = 3 + rng.Intn(4)
			case 1:
				l = 250 + rng.Intn(20)
			}
			for j := 0; j < l && i < n; j++ {
				b[i] = c
				i++
			}
		}
	case 3: // no two equal neighbours: RLE1 stores every byte, idx = number of bytes
		prev := -1
		for i := range b {
			c := rng.Intn(256)
			for c == prev {
				c = rng.Intn(256)
			}
			b[i] = byte(c)
			prev = c
		}
	default: // few symbols
		for i := range b {
			b[i] = byte(rng.Intn(3) * 7)
		}
	}
	return b
}

func zwPartition(rng *rand.Rand, b []byte) []zwOp {
	var ops []zwOp
	switch rng.Intn(3) {
	case 0:
		ops = append(ops, zwOp{Kind: 'w', Data: b})
	case 1:
		for _, p := range vhlib.Partition(rng, b) {
			ops = append(ops, zwOp{Kind: 'w', Data: p})
		}
	default:
		k := 0
		if len(b) > 0 {
			k = rng.Intn(len(b) + 1)
		}
		ops = append(ops, zwOp{Kind: 'w', Data: b[:k]}, zwOp{Kind: 'w', Data: b[k:]})
	}
	return ops
}

// what may follow the Close of a stream
func zwTail(rng *rand.Rand) []zwOp {
	var ops []zwOp
	for k := rng.Intn(4); k > 0; k-- {
		if rng.Intn(2) == 0 {
			ops = append(ops, zwOp{Kind: 'c'})
		} else {
			ops = append(ops, zwOp{Kind: 'w', Data: vhlib.RandBytes(rng, rng.Intn(6))})
		}
	}
	return ops
}

func zwArgs(level int, script []wSinkBeh, rest wSinkBeh, ops []zwOp) []string {
	args := []string{fmt.Sprint(level), wScriptString(script), rest.String()}
	for _, o := range ops {
		args = append(args, o.String())
	}
	return args
}

func zwFailAt(ci, k, tag int) []wSinkBeh {
	var script []wSinkBeh
	for j := 0; j < ci; j++ {
		script = append(script, wSinkBeh{})
	}
	return append(script, wSinkBeh{Fail: true, K: k, Tag: tag})
}

// the short counts tried at a sink call of size n
func zwShortCounts(rng *rand.Rand, n int, all bool) []int {
	if all || n <= 12 {
		var ks []int
		for k := 0; k <= n; k++ {
			ks = append(ks, k)
		}
		return append(ks, n+3)
	}
	ks := []int{0, 1, n - 1, n, n + 1000}
	for t := 0; t < 3; t++ {
		ks = append(ks, rng.Intn(n+1))
	}
	if n > 16 {
		ks = append(ks, 7, 8, 9)
	}
	return ks
}

func runWBZW(r *vhlib.Run) {
	rng := r.Rng
	accept := wSinkBeh{}
	emit := func(bucket string, level int, script []wSinkBeh, rest wSinkBeh, ops []zwOp) {
		obs, _ := runBzWriter(level, script, rest, ops)
		args := zwArgs(level, script, rest, ops)
		r.Eval("bzw-impl:"+bucket, true, []byte(strings.Join(args[:3], " ")), []byte(obs))
		r.Case("wbzw", args, obs)
	}
	// every fault position (or a sample) of one history, with and without a Reset afterwards
	sweep := func(bucket string, level int, ops []zwOp, allCalls bool, allCounts bool, maxCalls int) {
		_, dry := runBzWriter(level, nil, accept, ops)
		sizes := dry[0].Acc
		emit(bucket+":never", level, nil, accept, ops)
		var calls []int
		if allCalls || len(sizes) <= maxCalls {
			for ci := range sizes {
				calls = append(calls, ci)
			}
		} else {
			calls = append(calls, 0, len(sizes)-1, len(sizes)-2)
			for len(calls) < maxCalls {
				calls = append(calls, rng.Intn(len(sizes)))
			}
		}
		for _, ci := range calls {
			for _, k := range zwShortCounts(rng, sizes[ci], allCounts) {
				tag := 1 + rng.Intn(9)
				emit(bucket+":once", level, zwFailAt(ci, k, tag), accept, ops)
				perm := wSinkBeh{Fail: true, K: []int{0, 0, 1, 3, 1000}[rng.Intn(5)], Tag: 10 + rng.Intn(9)}
				emit(bucket+":permanent", level, zwFailAt(ci, k, tag), perm, ops)
				if rng.Intn(4) == 0 {
					// the failed Writer is Reset onto a good sink and used again
					ops2 := append(append([]zwOp{}, ops...), zwOp{Kind: 'r', Rest: accept})
					ops2 = append(ops2, zwPartition(rng, zwData(rng, rng.Intn(80), rng.Intn(5)))...)
					ops2 = append(ops2, zwOp{Kind: 'c'})
					emit(bucket+":reset", level, zwFailAt(ci, k, tag), accept, ops2)
				}
			}
		}
	}

	// (1) small streams: the first block is flushed only at Close (two sink calls)
	nsmall := 20
	if !r.Quick() {
		nsmall = 400
	}
	for i := 0; i < nsmall; i++ {
		level := 1 + rng.Intn(9)
		n := rng.Intn(60)
		if i%4 == 0 {
			n = rng.Intn(400)
		}
		var data []byte
		if rng.Intn(3) == 0 {
			data = vhlib.RandBytes(rng, n)
		} else {
			data = zwData(rng, n, rng.Intn(5))
		}
		ops := append(zwPartition(rng, data), zwOp{Kind: 'c'})
		ops = append(ops, zwTail(rng)...)
		sweep("small", level, ops, true, i%8 == 1, 0)
	}
	// (2) medium streams: several sink calls inside encodeBlock (WriteBits / WriteSymbol
	// raise the sink's error with errors.Panic)
	nmed := 4
	if !r.Quick() {
		nmed = 100
	}
	for i := 0; i < nmed; i++ {
		level := 1 + rng.Intn(9)
		n := 600 + rng.Intn(3500)
		data := zwData(rng, n, []int{0, 0, 1, 2, 3}[rng.Intn(5)])
		ops := append(zwPartition(rng, data), zwOp{Kind: 'c'})
		ops = append(ops, zwTail(rng)...)
		sweep("medium", level, ops, i%3 == 0, false, 4)
	}
	// (3) two streams through one Writer (Reset), arbitrary sink scripts
	nrand := 60
	if !r.Quick() {
		nrand = 1500
	}
	for i := 0; i < nrand; i++ {
		level := 1 + rng.Intn(9)
		rscript := func() ([]wSinkBeh, wSinkBeh) {
			var script []wSinkBeh
			for k := rng.Intn(5); k > 0; k-- {
				if rng.Intn(3) == 0 {
					script = append(script, wSinkBeh{Fail: true, K: []int{0, 1, 2, 10, 100, 503, 504, 511, 512, 3000}[rng.Intn(10)], Tag: 20 + rng.Intn(9)})
				} else {
					script = append(script, accept)
				}
			}
			rest := accept
			if rng.Intn(4) == 0 {
				rest = wSinkBeh{Fail: true, K: rng.Intn(4), Tag: 30}
			}
			return script, rest
		}
		var ops []zwOp
		for s := 1 + rng.Intn(3); s > 0; s-- {
			n := rng.Intn(100)
			if rng.Intn(4) == 0 {
				n = 500 + rng.Intn(1500)
			}
			ops = append(ops, zwPartition(rng, zwData(rng, n, rng.Intn(5)))...)
			if rng.Intn(5) > 0 {
				ops = append(ops, zwOp{Kind: 'c'})
				ops = append(ops, zwTail(rng)...)
			}
			if s > 1 {
				sc, rs := rscript()
				ops = append(ops, zwOp{Kind: 'r', Script: sc, Rest: rs})
			}
		}
		sc, rs := rscript()
		emit("random", level, sc, rs, ops)
	}
	// (4) large streams at level 1: a block is flushed inside Write (> 100000 bytes stored
	// by the RLE1 stage), including the buffer being exactly full at the end of a Write
	nlarge := 0
	if !r.Quick() {
		nlarge = 12
	}
	for i := 0; i < nlarge; i++ {
		var ops []zwOp
		switch i % 3 {
		case 0: // incompressible: about 200 sink calls in the first block
			data := zwData(rng, 100001+rng.Intn(20000), 0)
			k := rng.Intn(len(data))
			ops = []zwOp{{Kind: 'w', Data: data[:k]}, {Kind: 'w', Data: data[k:]}, {Kind: 'c'}}
		case 1: // exactly full after the first Write; the next Write flushes
			data := zwData(rng, 100000, 3)
			ops = []zwOp{{Kind: 'w', Data: data}, {Kind: 'w', Data: zwData(rng, 1+rng.Intn(50), 1)}, {Kind: 'c'}}
		default: // text-like, a run crossing the block edge
			data := zwData(rng, 99990+rng.Intn(8), 1)
			run := make([]byte, 4+rng.Intn(300))
			for j := range run {
				run[j] = 'x'
			}
			data = append(data, run...)
			data = append(data, zwData(rng, rng.Intn(3000), 1)...)
			ops = []zwOp{{Kind: 'w', Data: data}, {Kind: 'c'}, {Kind: 'c'}}
		}
		_, dry := runBzWriter(1, nil, accept, ops)
		sizes := dry[0].Acc
		emit("large:never", 1, nil, accept, ops)
		nf := 4
		for t := 0; t < nf; t++ {
			ci := rng.Intn(len(sizes))
			if t == 0 {
				ci = len(sizes) - 1
			}
			k := []int{0, 1, sizes[ci] / 2, sizes[ci]}[rng.Intn(4)]
			if t%2 == 0 {
				emit("large:once", 1, zwFailAt(ci, k, 5), accept, ops)
			} else {
				emit("large:permanent", 1, zwFailAt(ci, k, 6), wSinkBeh{Fail: true, K: 2, Tag: 7}, ops)
			}
		}
	}
}
