package main

import (
	"bytes"
	"fmt"
	"math/rand"
	"strings"

	"github.com/dsnet/compress/xflate"
	"github.com/dsnet/compress/xflate/internal/meta"
	"github.com/dsnet/compress/xflate/verifharness/gen"
	"github.com/dsnet/compress/xflate/verifharness/vhlib"
)

// WXRLATCH: xflate.Reader over streams with DAMAGED chunks (index, sizes and footer
// consistent; only the compressed bytes of one chunk are hostile), read with small
// buffers, then Seek / Close. The point: compress/flate returns its final status
// (io.EOF or the error) in the very Read call that hands over the last decoded
// bytes, if any bytes are pending at that moment; (*Reader).Read then acts on the
// status in that call - an error is latched at once (Read = (n > 0, Corrupted), the
// following Seek and Close fail), io.EOF runs the end-of-chunk checks at once. The
// model (coq/XFlate/Reader.v: z_joined, zr_status_now, read_loop) must agree call by
// call: kinds xr (public observations) and xrr (plus cursor fields after every call).
func init() { props["WXRLATCH"] = runWXRLatch }

// ---- DEFLATE by hand (fixed Huffman code, stored blocks) ----------------------------
func fixSym(w *gen.BitW, sym int) {
	switch {
	case sym < 144:
		w.Code(uint64(0x30+sym), 8)
	case sym < 256:
		w.Code(uint64(0x190+sym-144), 9)
	case sym < 280:
		w.Code(uint64(sym-256), 7)
	default:
		w.Code(uint64(0xc0+sym-280), 8)
	}
}
func blkHdr(w *gen.BitW, final, typ uint64) { w.Bits(final, 1); w.Bits(typ, 2) }
func storedBlk(w *gen.BitW, final uint64, data []byte, declared int) {
	blkHdr(w, final, 0)
	w.Align()
	w.Bits(uint64(declared), 16)
	w.Bits(uint64(^declared)&0xffff, 16)
	for _, b := range data {
		w.Bits(uint64(b), 8)
	}
}
func fixLits(w *gen.BitW, final uint64, lits []byte) {
	blkHdr(w, final, 1)
	for _, b := range lits {
		fixSym(w, int(b))
	}
}

type latchChunk struct {
	Name string
	Comp []byte
	Out  []byte // what the decompressor hands out before its final status
	Big  bool
}

var syncBytes = []byte{0, 0, 0xff, 0xff}

func latchChunks(rng *rand.Rand, lits []byte) []latchChunk {
	var out []latchChunk
	add := func(name string, outb []byte, f func(w *gen.BitW)) {
		w := &gen.BitW{}
		f(w)
		w.Align()
		out = append(out, latchChunk{Name: name, Comp: append([]byte{}, w.Buf...), Out: append([]byte{}, outb...)})
	}
	pad := func(w *gen.BitW) {
		w.Align()
		w.Bits(0, 32)
	}
	cat := func(a ...[]byte) []byte {
		var r []byte
		for _, x := range a {
			r = append(r, x...)
		}
		return r
	}
	// errors that arrive together with pending bytes
	add("lits+badsym", lits, func(w *gen.BitW) { fixLits(w, 0, lits); fixSym(w, 286); pad(w) })
	add("lits+baddist", lits, func(w *gen.BitW) {
		fixLits(w, 0, lits)
		fixSym(w, 257)
		w.Code(29, 5)
		w.Bits(0x1fff, 13)
		pad(w)
	})
	add("lits+badtype", lits, func(w *gen.BitW) { fixLits(w, 0, lits); fixSym(w, 256); blkHdr(w, 0, 3); pad(w) })
	add("stored-truncated", cat(lits, []byte{1, 0, 0, 0xff, 0xff}), func(w *gen.BitW) { storedBlk(w, 0, lits, len(lits)+7) })
	add("stored-badlen-after-lits", lits, func(w *gen.BitW) {
		fixLits(w, 0, lits)
		fixSym(w, 256)
		blkHdr(w, 0, 0)
		w.Align()
		w.Bits(3, 16)
		w.Bits(3, 16)
		pad(w)
	})
	// errors that arrive alone: nothing pending (the sync marker handed the bytes over before)
	add("badsym-only", nil, func(w *gen.BitW) { blkHdr(w, 0, 1); fixSym(w, 287); pad(w) })
	add("lits+sync+badtype", lits, func(w *gen.BitW) {
		fixLits(w, 0, lits)
		fixSym(w, 256)
		storedBlk(w, 0, nil, 0)
		blkHdr(w, 0, 3)
		pad(w)
	})
	// first part handed over at the sync marker, second part together with the error
	add("lits+sync+lits+badsym", cat(lits, lits), func(w *gen.BitW) {
		fixLits(w, 0, lits)
		fixSym(w, 256)
		storedBlk(w, 0, nil, 0)
		fixLits(w, 0, lits)
		fixSym(w, 286)
		pad(w)
	})
	// io.EOF together with pending bytes
	add("stored-ending-in-sync-bytes(accepted)", cat(lits, syncBytes), func(w *gen.BitW) { storedBlk(w, 0, cat(lits, syncBytes), len(lits)+4) })
	add("lits+stored1(no sync marker)", cat(lits, []byte{'x'}), func(w *gen.BitW) {
		fixLits(w, 0, lits)
		fixSym(w, 256)
		storedBlk(w, 0, []byte{'x'}, 1)
	})
	add("own-final-block+sync-bytes", lits, func(w *gen.BitW) {
		fixLits(w, 1, lits)
		fixSym(w, 256)
		w.Align()
		for _, b := range syncBytes {
			w.Bits(uint64(b), 8)
		}
	})
	add("own-final-empty-stored", lits, func(w *gen.BitW) { fixLits(w, 0, lits); fixSym(w, 256); storedBlk(w, 1, nil, 0) })
	// io.EOF alone although the chunk ends early: everything was handed over at the sync marker
	add("sync+own-final-empty-stored", lits, func(w *gen.BitW) {
		fixLits(w, 0, lits)
		fixSym(w, 256)
		storedBlk(w, 0, nil, 0)
		storedBlk(w, 1, nil, 0)
	})
	// what the Writer makes
	add("honest", lits, func(w *gen.BitW) { fixLits(w, 0, lits); fixSym(w, 256); storedBlk(w, 0, nil, 0) })
	// a chunk of compress/flate with one byte damaged
	for i := 0; i < 3; i++ {
		c := deflateChunk(lits, 6)
		c[rng.Intn(len(c))] ^= byte(1 << uint(rng.Intn(8)))
		out = append(out, latchChunk{Name: fmt.Sprintf("writer-chunk-bitflip%d", i), Comp: c, Out: lits})
	}
	return out
}

// the 32 KiB window: compress/flate hands the window over (without status) whenever it is full
func latchBigChunks(rng *rand.Rand, quick bool) []latchChunk {
	var out []latchChunk
	sizes := []int{32767, 32768, 32769, 65536, 65537}
	if quick {
		sizes = []int{32768, 32769}
	}
	for _, n := range sizes {
		data := vhlib.RandBytes(rng, n)
		w := &gen.BitW{}
		rest := data
		for len(rest) > 0 {
			k := len(rest)
			if k > 40000 {
				k = 40000
			}
			storedBlk(w, 0, rest[:k], k)
			rest = rest[k:]
		}
		blkHdr(w, 0, 3)
		w.Align()
		w.Bits(0, 32)
		out = append(out, latchChunk{Name: fmt.Sprintf("stored%d+badtype", n), Comp: append([]byte{}, w.Buf...), Out: data, Big: true})
	}
	return out
}

type latchStream struct {
	Name  string
	Sink  []byte
	Start int // raw offset at which the damaged chunk starts
	Out   int // bytes the damaged chunk hands out
	Big   bool
}

func latchStreams(rng *rand.Rand, quick bool) []latchStream {
	var out []latchStream
	good := func(n int) xchunk {
		d := vhlib.RandBytes(rng, n)
		c := deflateChunk(d, 6)
		return xchunk{Comp: c, RSize: int64(n), CSize: int64(len(c))}
	}
	nl := []int{1, 3, 9}
	if quick {
		nl = []int{3}
	}
	for _, n := range nl {
		lits := []byte("abcdefghijklmnop")[:n]
		for _, lc := range latchChunks(rng, lits) {
			for _, dr := range []int{0, 1, -1} {
				rs := int64(len(lc.Out) + dr)
				if rs < 0 || (dr != 0 && n != 3) {
					continue
				}
				bad := xchunk{Comp: lc.Comp, RSize: rs, CSize: int64(len(lc.Comp))}
				for pos := 0; pos < 3; pos++ {
					if pos != 1 && (dr != 0 || n != 3) {
						continue
					}
					var chunks []xchunk
					start := 0
					switch pos {
					case 0:
						chunks = []xchunk{bad, good(5)}
					case 1:
						chunks = []xchunk{good(4), bad, good(5)}
						start = 4
					case 2:
						chunks = []xchunk{good(4), bad}
						start = 4
					}
					out = append(out, latchStream{
						Name:  fmt.Sprintf("%s/n%d/rsize%+d/pos%d", lc.Name, n, dr, pos),
						Sink:  assemble(chunks, idxOpts{}, "XF\x00", meta.FinalStream),
						Start: start, Out: len(lc.Out),
					})
				}
			}
		}
	}
	for _, lc := range latchBigChunks(rng, quick) {
		bad := xchunk{Comp: lc.Comp, RSize: int64(len(lc.Out)), CSize: int64(len(lc.Comp))}
		out = append(out, latchStream{
			Name:  lc.Name,
			Sink:  assemble([]xchunk{good(4), bad, good(5)}, idxOpts{}, "XF\x00", meta.FinalStream),
			Start: 4, Out: len(lc.Out), Big: true,
		})
	}
	return out
}

var latchWitnesses int

func latchCase(r *vhlib.Run, m *vhlib.Model, st latchStream, ops []xrOp) {
	// public observations, kind xr
	obs, _ := runXR(r, st.Sink, nil, ops, false)
	r.Eval("xr:"+strings.SplitN(st.Name, "/", 2)[0], len(ops) > 0, st.Sink, []byte(strings.Join(xrOpsStrings(ops), " ")))
	if obs == "hang" || obs == "panic" {
		r.Violate("reader-"+obs, st.Name, map[string]interface{}{"stream": vhlib.Hex(st.Sink), "ops": xrOpsStrings(ops)})
		return
	}
	args := append([]string{vhlib.Hex(st.Sink)}, xrOpsStrings(ops)...)
	r.CaseLive(m, "xr", args, obs+"|")
	// the same history on a Reader that is Reset onto the stream, kind xrr: additionally the
	// cursor fields (ri, offset, discard, chunk sizes and type) after every call, and the
	// I/O oracles of WXFRESET
	yops := []yrOp{{Kind: 'R', Src: st.Sink}}
	for _, o := range ops {
		yops = append(yops, yrOp{Kind: o.Kind, Off: o.Off, Whence: o.Whence, N: o.N})
	}
	wxfReaderCase(r, m, "latch", yops)
	if dataWithErrorAt >= 0 {
		r.Hist["histories in which one Read call returned bytes together with an error other than io.EOF"]++
	}
}

func runWXRLatch(r *vhlib.Run) {
	rng := r.Rng
	m := vhlib.StartModel()
	defer m.Close()
	streams := latchStreams(rng, r.Quick())
	r.Notes["streams"] = len(streams)
	rd := func(n int) xrOp { return xrOp{Kind: 'r', N: n} }
	sk := func(off int64, wh int) xrOp { return xrOp{Kind: 's', Off: off, Whence: wh} }
	cl := xrOp{Kind: 'c'}
	// the witness of the task: one byte asked for, one byte and Corrupted returned
	{
		w := &gen.BitW{}
		fixLits(w, 0, []byte("a"))
		fixSym(w, 286)
		w.Align()
		w.Bits(0, 32)
		bad := xchunk{Comp: w.Buf, RSize: 1, CSize: int64(len(w.Buf))}
		st := latchStream{Name: "witness", Sink: assemble([]xchunk{bad}, idxOpts{}, "XF\x00", meta.FinalStream), Out: 1}
		latchCase(r, m, st, []xrOp{rd(1), sk(0, 0), cl})
		latchCase(r, m, st, []xrOp{rd(1), cl, sk(0, 0)})
		if xr, oerr := xflate.NewReader(bytes.NewReader(st.Sink), nil); oerr == nil {
			buf := make([]byte, 1)
			n, err := xr.Read(buf)
			_, serr := xr.Seek(0, 0)
			cerr := xr.Close()
			r.Notes["witness"] = fmt.Sprintf("stream %s: Read(1) = (%d, %s), Seek(0,0) = %s, Close = %s",
				vhlib.Hex(st.Sink), n, vhlib.ErrClass(err), vhlib.ErrClass(serr), vhlib.ErrClass(cerr))
		}
	}
	nbig := 0
	for _, st := range streams {
		if st.Big {
			nbig++
			if r.Quick() && nbig > 2 {
				continue // every request carries the whole stream to the model
			}
		}
		P, D := int64(st.Start), st.Out
		var sizes []int
		if st.Big {
			sizes = []int{D - 1, D, D + 1, 32768, 32769, D + 20}
		} else {
			sizes = []int{1, 2, D - 1, D, D + 1, st.Start + D, st.Start + D + 1, 40}
		}
		prefixes := [][]xrOp{nil, {sk(P, 0)}, {sk(P+1, 0)}, {sk(P+int64(D)-1, 0)}, {sk(P+int64(D), 0)}, {sk(P+int64(D)+1, 0)}, {rd(st.Start), sk(1, 1)}, {rd(st.Start), sk(int64(D), 1)}}
		tails := [][]xrOp{{sk(0, 1), cl}, {cl, rd(1)}, {sk(0, 0), rd(1), cl}, {rd(1), sk(0, 1), rd(0), cl}, {sk(1, 1), rd(2)}}
		if st.Big {
			prefixes = [][]xrOp{nil, {sk(P+int64(D)-1, 0)}, {sk(P+int64(D), 0)}, {sk(P+32768, 0)}, {sk(P+32767, 0)}}
			tails = [][]xrOp{{sk(0, 1), cl}, {rd(1), sk(0, 1), cl}}
		}
		seen := map[string]bool{}
		for pi, pre := range prefixes {
			for _, k := range sizes {
				if k <= 0 {
					continue
				}
				for reps := 1; reps <= 3; reps++ {
					if st.Big && (reps > 1 || (r.Quick() && pi > 2)) {
						continue
					}
					for _, tl := range tails {
						ops := append([]xrOp{}, pre...)
						for i := 0; i < reps; i++ {
							ops = append(ops, rd(k))
						}
						ops = append(ops, tl...)
						key := strings.Join(xrOpsStrings(ops), " ")
						if seen[key] {
							continue
						}
						seen[key] = true
						if r.Quick() && !st.Big && rng.Intn(120) != 0 {
							continue // the quick tier takes one history in 120 of the enumeration
						}
						latchCase(r, m, st, ops)
					}
				}
			}
		}
		if st.Big {
			continue
		}
		// random histories
		nr := 6
		if !r.Quick() {
			nr = 80
		}
		for i := 0; i < nr; i++ {
			var ops []xrOp
			for k := 0; k < 2+rng.Intn(8); k++ {
				switch x := rng.Intn(10); {
				case x < 5:
					ops = append(ops, rd(rng.Intn(D+4)))
				case x < 8:
					wh := rng.Intn(3)
					off := int64(rng.Intn(st.Start+D+8)) - 1
					if wh == 1 {
						off = int64(rng.Intn(D+3)) - 1
					} else if wh == 2 {
						off = -int64(rng.Intn(D + 8))
					}
					ops = append(ops, sk(off, wh))
				case x < 9:
					ops = append(ops, cl)
				default:
					ops = append(ops, sk(P+int64(rng.Intn(D+2)), 0))
				}
			}
			latchCase(r, m, st, ops)
		}
	}
	r.Sample(map[string]interface{}{"stream": streams[0].Name, "ops": []string{"r:1", "s:0:0", "c"}})
}
