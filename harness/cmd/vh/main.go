// vh: the Go side of the correspondence checks. `vh <prop> -tier quick|thorough
// -seed N -out DIR` runs the property's generators against the real packages,
// applies the property's own oracles to the implementation, and writes
// cases.txt (for the extracted model), impl.txt (observations) and oracle.json.
package main

import (
	"flag"
	"fmt"
	"os"

	"github.com/dsnet/compress/xflate/verifharness/vhlib"
)

var props = map[string]func(*vhlib.Run){}

func main() {
	if len(os.Args) < 2 {
		fmt.Fprintln(os.Stderr, "usage: vh <prop> [flags]")
		os.Exit(2)
	}
	prop := os.Args[1]
	fs := flag.NewFlagSet("vh", flag.ExitOnError)
	tier := fs.String("tier", "quick", "quick|thorough")
	seed := fs.Int64("seed", 1, "seed")
	out := fs.String("out", "", "output dir")
	fs.Parse(os.Args[2:])
	f, ok := props[prop]
	if !ok {
		fmt.Fprintln(os.Stderr, "unknown property", prop)
		os.Exit(2)
	}
	r := vhlib.NewRun(prop, *out, *tier, *seed)
	f(r)
	r.Finish()
}
