package main

import (
	"bytes"
	"fmt"

	"github.com/dsnet/compress/internal/prefix"
	"github.com/dsnet/compress/xflate/verifharness/vhlib"
)

// c20Ranges: the (symbol, extra bits) coding of offsets. For contiguous range sets - the
// DEFLATE length and distance ranges, Brotli-like sets, random ones reaching far beyond the
// encoder's 1024-entry lookup table - EVERY offset of the domain must be encoded to the range
// that holds it (RangeEncoder.Encode), and written with WriteOffset it must be read back by
// ReadOffset, in both bit orders, together with a guard field behind it.
func c20Ranges(r *vhlib.Run) {
	rng := r.Rng
	type rset struct {
		name    string
		minBase uint
		bits    []uint
	}
	sets := []rset{
		{"deflate-dist", 1, []uint{0, 0, 0, 0, 1, 1, 2, 2, 3, 3, 4, 4, 5, 5, 6, 6, 7, 7, 8, 8, 9, 9, 10, 10, 11, 11, 12, 12, 13, 13}},
		{"deflate-len", 3, []uint{0, 0, 0, 0, 0, 0, 0, 0, 1, 1, 1, 1, 2, 2, 2, 2, 3, 3, 3, 3, 4, 4, 4, 4, 5, 5, 5, 5}},
		{"brotli-insert", 0, []uint{0, 0, 0, 0, 0, 0, 1, 1, 2, 2, 3, 3, 4, 4, 5, 5, 6, 7, 8, 9, 10, 12, 14}},
	}
	nrand := 4
	if !r.Quick() {
		nrand = 40
	}
	for i := 0; i < nrand; i++ {
		var bits []uint
		total := 0
		for len(bits) < 2+rng.Intn(40) && total < 60000 {
			b := uint(rng.Intn(12))
			bits = append(bits, b)
			total += 1 << b
		}
		sets = append(sets, rset{fmt.Sprintf("random%d", i), uint(rng.Intn(2000)), bits})
	}
	for _, s := range sets {
		rcs := prefix.MakeRangeCodes(s.minBase, s.bits)
		var re prefix.RangeEncoder
		re.Init(rcs)
		// a complete code for the range symbols (all of the same length)
		nb := uint32(0)
		for 1<<nb < len(rcs) {
			nb++
		}
		var codes prefix.PrefixCodes
		for i := 0; i < 1<<nb; i++ {
			codes = append(codes, prefix.PrefixCode{Sym: uint32(i), Len: nb})
		}
		if nb == 0 {
			continue
		}
		if err := prefix.GeneratePrefixes(codes); err != nil {
			continue
		}
		var pe prefix.Encoder
		var pd prefix.Decoder
		pe.Init(codes)
		pd.Init(codes)
		lo, hi := uint(rcs.Base()), uint(rcs.End())
		bad := 0
		for off := lo; off < hi && bad < 3; off++ {
			sym := re.Encode(off)
			r.Evals++
			if int(sym) >= len(rcs) || uint(rcs[sym].Base) > off || off >= uint(rcs[sym].End()) {
				bad++
				r.Violate("range-encode", fmt.Sprintf("%s: offset %d encoded to range %d [%d,%d)", s.name, off, sym, rcs[minInt(int(sym), len(rcs)-1)].Base, rcs[minInt(int(sym), len(rcs)-1)].End()),
					map[string]interface{}{"min_base": s.minBase, "bits": s.bits, "offset": off})
			}
		}
		// write/read round trip: all range starts and ends, plus a sample (thorough: every offset)
		var offs []uint
		for _, rc := range rcs {
			offs = append(offs, uint(rc.Base), uint(rc.End())-1)
		}
		step := uint(97)
		if !r.Quick() {
			step = 1
		}
		for off := lo; off < hi; off += step {
			offs = append(offs, off)
		}
		for _, big := range []bool{false, true} {
			var bb bytes.Buffer
			var pw prefix.Writer
			pw.Init(&bb, big)
			for _, off := range offs {
				pw.WriteOffset(off, &pe, &re)
				pw.WriteBits(0x15a, 9) // guard
			}
			pw.WritePads(0)
			pw.Flush()
			var pr prefix.Reader
			pr.Init(bytes.NewReader(bb.Bytes()), big)
			func() {
				defer func() {
					if p := recover(); p != nil {
						r.Violate("bit-io-roundtrip", fmt.Sprintf("%s: panic while reading offsets back: %v", s.name, p), map[string]interface{}{"min_base": s.minBase, "bits": s.bits})
					}
				}()
				for _, off := range offs {
					got := pr.ReadOffset(&pd, rcs)
					g := pr.ReadBits(9)
					r.Evals++
					if got != off || g != 0x15a {
						r.Violate("bit-io-roundtrip", fmt.Sprintf("%s (bigEndian=%v): offset %d written with WriteOffset read back as %d, guard %#x", s.name, big, off, got, g),
							map[string]interface{}{"min_base": s.minBase, "bits": s.bits, "offset": off, "big_endian": big})
						return
					}
				}
			}()
		}
		r.Hist["range-set:"+map[bool]string{true: "named", false: "random"}[len(s.name) < 7 || s.name[:6] != "random"]]++
	}
}

func minInt(a, b int) int {
	if a < b {
		return a
	}
	return b
}

var _ = vhlib.Hex
