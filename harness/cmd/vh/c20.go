package main

import (
	"bufio"
	"bytes"
	"fmt"
	"io"
	"strings"

	"github.com/dsnet/compress/internal/prefix"
	"github.com/dsnet/compress/xflate/verifharness/vhlib"
)

func init() { props["C20"] = runC20 }

func log2ceil(n int) uint {
	b := uint(0)
	for (1 << b) < n {
		b++
	}
	return b
}

// c20Lengths: one frequency profile under one limit.
func c20Lengths(r *vhlib.Run, counts []uint32, maxBits uint, bucket string, model bool) {
	n := len(counts)
	codes := make(prefix.PrefixCodes, n)
	for i, c := range counts {
		codes[i] = prefix.PrefixCode{Sym: uint32(i), Cnt: c}
	}
	replay := map[string]interface{}{"counts": counts, "maxBits": maxBits}
	r.Eval(bucket, n >= 2, []byte(fmt.Sprint(counts, maxBits)))
	var err error
	pan := ""
	codes.SortByCount()
	var margs []string
	if model {
		margs = append(margs, fmt.Sprint(maxBits))
		for _, c := range codes {
			margs = append(margs, fmt.Sprintf("%d:%d", c.Cnt, c.Sym))
		}
	}
	func() {
		defer func() {
			if p := recover(); p != nil {
				pan = fmt.Sprint(p)
			}
		}()
		err = prefix.GenerateLengths(codes, maxBits)
	}()
	if pan != "" {
		r.Violate("panic", "GenerateLengths: "+pan, replay)
		if model {
			r.Case("genlen", margs, "panic")
		}
		return
	}
	if err != nil {
		r.Violate("generate-lengths-error", fmt.Sprint(err), replay)
		return
	}
	if model {
		var o []string
		for _, c := range codes {
			o = append(o, fmt.Sprintf("%d:%d", c.Sym, c.Len))
		}
		obs := "ok -"
		if len(o) > 0 {
			obs = "ok " + strings.Join(o, ",")
		}
		r.Case("genlen", margs, obs)
	}
	if n == 1 {
		if codes[0].Len != 0 {
			r.Violate("single-symbol-length", fmt.Sprint(codes[0].Len), replay)
			return
		}
		// the lone symbol is coded with zero bits: its value must be zero whatever the (recycled)
		// array held, since writers OR the value into their bit buffer
		codes[0].Val = uint32(1 + r.Rng.Intn(1<<20))
		if err := prefix.GeneratePrefixes(codes); err != nil {
			r.Violate("generate-prefixes-error", fmt.Sprint(err), replay)
			return
		}
		if model {
			r.Case("genpfx", []string{fmt.Sprintf("%d:%d", codes[0].Sym, codes[0].Len)}, fmt.Sprintf("ok %d:%d:%d", codes[0].Sym, codes[0].Len, codes[0].Val))
		}
		if codes[0].Val != 0 {
			r.Violate("not-canonical-prefix-code", fmt.Sprintf("the zero-length code of a one-symbol alphabet has value %d", codes[0].Val), replay)
		}
		return
	}
	if n == 0 {
		return
	}
	// complete, within the limit, monotone
	sum := uint64(0)
	var total uint64
	for _, c := range codes {
		total += uint64(c.Cnt)
		if c.Len < 1 || uint(c.Len) > maxBits {
			r.Violate("length-out-of-range", fmt.Sprintf("sym %d len %d limit %d", c.Sym, c.Len, maxBits), replay)
			return
		}
		sum += uint64(1) << (32 - c.Len)
	}
	if sum != 1<<32 {
		r.Violate("code-not-complete", fmt.Sprintf("Kraft sum %d/2^32", sum), replay)
		return
	}
	if total < 1<<32 {
		for i := range codes {
			for j := range codes {
				if codes[i].Cnt < codes[j].Cnt && codes[i].Len < codes[j].Len {
					r.Violate("more-frequent-symbol-longer-code", fmt.Sprintf("cnt %d len %d vs cnt %d len %d", codes[i].Cnt, codes[i].Len, codes[j].Cnt, codes[j].Len), replay)
					return
				}
			}
		}
	}
	// canonical prefixes
	codes.SortBySymbol()
	// the code array is recycled by the callers (bzip2's codes2D): whatever an earlier code left in
	// the Val fields must not show in this one
	for i := range codes {
		codes[i].Val = uint32(r.Rng.Intn(1 << 20))
	}
	if err := prefix.GeneratePrefixes(codes); err != nil {
		r.Violate("generate-prefixes-error", fmt.Sprint(err), replay)
		return
	}
	if model && n <= 64 {
		var a, o []string
		for _, c := range codes {
			a = append(a, fmt.Sprintf("%d:%d", c.Sym, c.Len))
			o = append(o, fmt.Sprintf("%d:%d:%d", c.Sym, c.Len, c.Val))
		}
		r.Case("genpfx", a, "ok "+strings.Join(o, ","))
	}
	lok, pok, cok := codes.VerifCheck()
	if !lok || !pok || !cok {
		r.Violate("not-canonical-prefix-code", fmt.Sprintf("lengths=%v prefixes=%v canonical=%v", lok, pok, cok), replay)
		return
	}
	// write every symbol with it and read it back, both bit orders
	c20RoundTrip(r, codes, replay)
}

type bitOp struct {
	Kind byte // 's' symbol, 'b' bits, 'p' pads, 'r' raw bytes
	V    uint
	NB   uint
	Raw  []byte
}

func c20RoundTrip(r *vhlib.Run, codes prefix.PrefixCodes, replay map[string]interface{}) {
	rng := r.Rng
	var enc prefix.Encoder
	var dec prefix.Decoder
	enc.Init(codes)
	dec.Init(codes)
	for _, big := range []bool{false, true} {
		var ops []bitOp
		for _, c := range codes {
			ops = append(ops, bitOp{Kind: 's', V: uint(c.Sym), NB: uint(rng.Intn(2))})
		}
		// long runs of symbols through the fast path, so that every fill level of
		// the 64-bit buffer meets every code length
		if len(codes) <= 64 {
			for k := 0; k < 120; k++ {
				ops = append(ops, bitOp{Kind: 's', V: uint(codes[rng.Intn(len(codes))].Sym), NB: 1})
				if rng.Intn(4) == 0 {
					nb := uint(1 + rng.Intn(7))
					ops = append(ops, bitOp{Kind: 'b', V: uint(rng.Intn(1 << nb)), NB: nb, Raw: []byte{1}})
				}
			}
		}
		for k := 0; k < 20; k++ {
			switch rng.Intn(6) {
			case 0:
				nb := uint(1 + rng.Intn(32))
				ops = append(ops, bitOp{Kind: 'b', V: uint(rng.Int63()) & (1<<nb - 1), NB: nb})
			case 1:
				ops = append(ops, bitOp{Kind: 'p'}, bitOp{Kind: 'r', Raw: vhlib.RandBytes(rng, 1+rng.Intn(30))})
			default:
				ops = append(ops, bitOp{Kind: 's', V: uint(codes[rng.Intn(len(codes))].Sym)})
			}
		}
		c20Script(r, ops, &enc, &dec, big, replay)
	}
}

// c20Script writes the ops and reads them back through several source kinds.
func c20Script(r *vhlib.Run, ops []bitOp, enc *prefix.Encoder, dec *prefix.Decoder, big bool, replay map[string]interface{}) {
	var bb bytes.Buffer
	var pw prefix.Writer
	pan := ""
	func() {
		defer func() {
			if p := recover(); p != nil {
				pan = fmt.Sprint(p)
			}
		}()
		pw.Init(&bb, big)
		for _, o := range ops {
			switch o.Kind {
			case 's':
				// the callers' pattern: fast path first, slow path on refusal
				if o.NB == 1 {
					if ok := pw.TryWriteSymbol(o.V, enc); !ok {
						pw.WriteSymbol(o.V, enc)
					}
				} else {
					pw.WriteSymbol(o.V, enc)
				}
			case 'b':
				if o.NB <= 32 && len(o.Raw) == 1 {
					if ok := pw.TryWriteBits(o.V, o.NB); !ok {
						pw.WriteBits(o.V, o.NB)
					}
				} else {
					pw.WriteBits(o.V, o.NB)
				}
			case 'p':
				pw.WritePads(0)
			case 'r':
				pw.Write(o.Raw)
			}
		}
		pw.WritePads(0)
		pw.Flush()
	}()
	if pan != "" {
		r.Violate("panic", "prefix.Writer: "+pan, replay)
		return
	}
	data := bb.Bytes()
	for _, sk := range srcKinds() {
		if !sk.Exact {
			continue
		}
		src, left := sk.Make(data, r.Rng)
		var pr prefix.Reader
		bad := ""
		func() {
			defer func() {
				if p := recover(); p != nil {
					bad = fmt.Sprint("panic: ", p)
				}
			}()
			pr.Init(src, big)
			for i, o := range ops {
				switch o.Kind {
				case 's':
					if got := pr.ReadSymbol(dec); got != o.V {
						bad = fmt.Sprintf("op %d: symbol %d read back as %d", i, o.V, got)
						return
					}
				case 'b':
					if got := pr.ReadBits(o.NB); got != o.V {
						bad = fmt.Sprintf("op %d: %d-bit field %d read back as %d", i, o.NB, o.V, got)
						return
					}
				case 'p':
					pr.ReadPads()
				case 'r':
					buf := make([]byte, len(o.Raw))
					if _, err := io.ReadFull(&pr, buf); err != nil || !bytes.Equal(buf, o.Raw) {
						bad = fmt.Sprintf("op %d: raw bytes differ (err=%v)", i, err)
						return
					}
				}
			}
			pr.ReadPads()
			pr.Flush()
		}()
		r.Evals++
		if bad != "" {
			rp := map[string]interface{}{"source": sk.Name, "bigEndian": big, "stream": vhlib.Hex(data)}
			for k, v := range replay {
				rp[k] = v
			}
			r.Violate("bit-io-roundtrip", fmt.Sprintf("%s bigEndian=%v: %s", sk.Name, big, bad), rp)
			return
		}
		if left != nil && left() != 0 {
			r.Violate("bit-io-consumption", fmt.Sprintf("%s: %d bytes left", sk.Name, left()), replay)
		}
	}
}

func runC20(r *vhlib.Run) {
	rng := r.Rng
	c20Impl(r)
	// prefix.Writer against its implementation-level model over scripted (also failing) sinks
	runWBITW(r)
	// offsets coded as (range symbol, extra bits): RangeEncoder, WriteOffset / ReadOffset
	c20Ranges(r)
	runWRANGE(r) // RangeEncoder / MakeRangeCodes against the model Prefix/Range.v
	// Decoder.Init / Encoder.Init tables and ReadSymbol against their implementation-level model
	wdectab(r)
	// exhaustive: alphabets up to 5 (thorough: 6) symbols with counts 0..4, every limit
	maxN := 5
	if !r.Quick() {
		maxN = 6
	}
	for n := 1; n <= maxN; n++ {
		counts := make([]uint32, n)
		var rec func(i int)
		rec = func(i int) {
			if i == n {
				lo := log2ceil(n)
				if lo == 0 {
					lo = 1
				}
				for mb := lo; mb <= 27; mb++ {
					if r.Quick() && mb > lo+2 && mb != 27 && mb != 15 {
						continue
					}
					c20Lengths(r, append([]uint32{}, counts...), mb, "exhaustive", n <= 4 || !r.Quick())
				}
				return
			}
			for c := uint32(0); c <= 4; c++ {
				counts[i] = c
				rec(i + 1)
			}
		}
		rec(0)
	}
	// profiles up to 704 symbols
	nprof := 40
	if !r.Quick() {
		nprof = 1500
	}
	for i := 0; i < nprof; i++ {
		n := []int{2, 3, 7, 19, 30, 64, 258, 286, 704}[rng.Intn(9)]
		counts := make([]uint32, n)
		kind := ""
		switch rng.Intn(7) {
		case 0:
			kind = "fibonacci"
			a, b := uint32(1), uint32(1)
			for k := range counts {
				counts[k] = a
				if a < 1<<30 {
					a, b = b, a+b
				}
			}
		case 1:
			kind = "powers-of-two"
			for k := range counts {
				counts[k] = 1 << uint(k%31)
			}
		case 2:
			kind = "all-zero"
		case 3:
			kind = "all-equal"
			for k := range counts {
				counts[k] = 7
			}
		case 4:
			kind = "near-2^32"
			for k := range counts {
				counts[k] = 1<<32 - 1 - uint32(rng.Intn(1000))
			}
		default:
			kind = "random"
			for k := range counts {
				counts[k] = uint32(rng.Int63()) >> uint(rng.Intn(32))
			}
		}
		rng.Shuffle(n, func(a, b int) { counts[a], counts[b] = counts[b], counts[a] })
		lo := log2ceil(n)
		mb := lo + uint(rng.Intn(int(27-lo)+1))
		if rng.Intn(3) == 0 {
			mb = lo
		}
		c20Lengths(r, counts, mb, kind, n <= 64)
	}
	// unsorted input is refused
	{
		codes := prefix.PrefixCodes{{Sym: 0, Cnt: 5}, {Sym: 1, Cnt: 3}, {Sym: 2, Cnt: 9}}
		if err := prefix.GenerateLengths(codes, 15); err == nil {
			r.Violate("unsorted-input-accepted", "", map[string]interface{}{})
		}
		r.Case("genlen", []string{"15", "5:0", "3:1", "9:2"}, "invalid")
	}
	// bit I/O scripts incl. the D5 call order (fields, pads, raw bytes, fields) through every source kind
	var dec prefix.Decoder
	var enc prefix.Encoder
	codes := prefix.PrefixCodes{{Sym: 0, Len: 1}, {Sym: 1, Len: 2}, {Sym: 2, Len: 2}}
	prefix.GeneratePrefixes(codes)
	enc.Init(codes)
	dec.Init(codes)
	d5 := []bitOp{{Kind: 'b', V: 5, NB: 3}, {Kind: 'b', V: 0x0123456789abcd, NB: 56}, {Kind: 'b', V: 21, NB: 5}, {Kind: 'p'},
		{Kind: 'r', Raw: vhlib.RandBytes(rng, 20)}, {Kind: 'b', V: 0x6c, NB: 8}, {Kind: 'b', V: 1, NB: 1}}
	for _, big := range []bool{false, true} {
		c20Script(r, d5, &enc, &dec, big, map[string]interface{}{"script": "bits3 bits56 bits5 pads raw20 bits8 bits1"})
	}
	nscripts := 300
	if !r.Quick() {
		nscripts = 10000
	}
	for i := 0; i < nscripts; i++ {
		var ops []bitOp
		var desc []string
		for k := 0; k < 3+rng.Intn(25); k++ {
			switch rng.Intn(8) {
			case 0, 1, 2:
				nb := uint(1 + rng.Intn(32))
				if rng.Intn(4) == 0 {
					// the 64-bit bit buffers of Reader and Writer hold up to 7 pending
					// bits, so a single field can be at most 57 bits wide
					nb = uint(33 + rng.Intn(25))
				}
				ops = append(ops, bitOp{Kind: 'b', V: uint(rng.Int63()) & (1<<nb - 1), NB: nb})
				desc = append(desc, fmt.Sprintf("bits%d", nb))
			case 3:
				l := 1 + rng.Intn(40)
				ops = append(ops, bitOp{Kind: 'p'}, bitOp{Kind: 'r', Raw: vhlib.RandBytes(rng, l)})
				desc = append(desc, "pads", fmt.Sprintf("raw%d", l))
			case 4:
				ops = append(ops, bitOp{Kind: 'p'})
				desc = append(desc, "pads")
			default:
				ops = append(ops, bitOp{Kind: 's', V: uint(rng.Intn(3))})
				desc = append(desc, "sym")
			}
		}
		r.Eval("bit-script", true, []byte(strings.Join(desc, " ")+fmt.Sprint(i)))
		c20Script(r, ops, &enc, &dec, rng.Intn(2) == 0, map[string]interface{}{"script": strings.Join(desc, " ")})
	}
	_ = bufio.NewReader
	r.Sample(map[string]interface{}{"counts": []int{1, 1, 2, 3, 5, 8, 13}, "maxBits": 3})
}
