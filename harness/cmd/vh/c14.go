package main

import (
	"bytes"
	"fmt"
	"io"
	"io/ioutil"
	"math/rand"

	"github.com/dsnet/compress/xflate"
	"github.com/dsnet/compress/xflate/verifharness/gen"
	"github.com/dsnet/compress/xflate/verifharness/ref"
	"github.com/dsnet/compress/xflate/verifharness/vhlib"
)

func init() { props["C14"] = runC14 }

type rdAct struct {
	Name string
	Do   func(z rdr, rng *rand.Rand)
}

func readerActs(pool [][]byte) []rdAct {
	acts := []rdAct{
		{"nothing", func(z rdr, _ *rand.Rand) {}},
		{"read0", func(z rdr, _ *rand.Rand) { z.Read(nil) }},
		{"read1", func(z rdr, _ *rand.Rand) { z.Read(make([]byte, 1)) }},
		{"read10", func(z rdr, _ *rand.Rand) { io.ReadFull(z, make([]byte, 10)) }},
		{"readmid", func(z rdr, _ *rand.Rand) { io.ReadFull(z, make([]byte, 700)) }},
		{"readmost", func(z rdr, _ *rand.Rand) { io.ReadFull(z, make([]byte, 110000)) }}, // well into a later block of a long stream
		{"readall", func(z rdr, _ *rand.Rand) { io.Copy(ioutil.Discard, z) }},
		{"close", func(z rdr, _ *rand.Rand) { z.Close() }},
		{"readall+close", func(z rdr, _ *rand.Rand) { io.Copy(ioutil.Discard, z); z.Close() }},
	}
	for i, p := range pool {
		p := p
		acts = append(acts, rdAct{fmt.Sprintf("reset(pool%d)", i), func(z rdr, _ *rand.Rand) { z.Reset(bytes.NewReader(p)) }})
	}
	return acts
}

type finalObs struct {
	out      []byte
	cls      string
	in, outN int64
	pan      string
}

func readFinal(z rdr) (o finalObs) {
	defer func() {
		if p := recover(); p != nil {
			o.pan = fmt.Sprint(p)
		}
	}()
	out, err := ioutil.ReadAll(z)
	o.out = out
	o.cls = vhlib.ErrClass(err)
	o.in, o.outN = z.Offsets()
	return
}

func (o finalObs) eq(p finalObs) bool {
	return bytes.Equal(o.out, p.out) && o.cls == p.cls && o.in == p.in && o.outN == p.outN && o.pan == p.pan
}

func runC14(r *vhlib.Run) {
	rng := r.Rng
	// lifecycle histories of flate.Reader (Read / Close / Reset in any order over scripted sources)
	// against the implementation-level model, per call (Flate/ImplLife.v)
	wfllife(r)
	// lifecycle histories of bzip2.Reader against the implementation-level model, per call (Bzip2/ImplLife.v)
	wbzlife(r)
	// xflate.Writer / xflate.Reader histories WITH Reset against the models extended by Reset (XFlate/WriterReset.v,
	// ReaderReset.v), live, per op
	runWXFReset(r)
	// meta.Reader itself against its implementation-level model, per call (Meta/ReaderImpl.v)
	runWMETAR(r)
	// bzip2.Reader with Reset between streams against its implementation-level model (Bzip2/Impl.v)
	wbzimpl(r)
	depth := 2
	if !r.Quick() {
		depth = 3
	}
	for _, c := range codecs() {
		// pool: valid short, valid long, corrupt, truncated, empty, (multi-stream for bzip2 comes from Valid)
		short := c.Valid(rng, 300)
		long := c.Valid(rng, 9000)
		for try := 0; len(long.Plain) < 2000 && try < 20; try++ {
			long = c.Valid(rng, 9000)
		}
		pool := [][]byte{short.Data, long.Data, gen.Mutate(rng, long.Data), long.Data[:len(long.Data)*2/3], nil, c.Valid(rng, 2000).Data}
		// streams that fail very early: cut inside the first block/stream header
		for _, k := range []int{2, 3, 5, 9} {
			if k < len(long.Data) {
				pool = append(pool, long.Data[:k])
			}
		}
		// a stream that fills and wraps the 32 KiB window, and targets that refer
		// to history the new stream does not have (must not see the old window)
		switch c.Name {
		case "flate":
			big := gen.Plain(rng, 50000)
			for len(big) < 40000 {
				big = append(big, vhlib.RandBytes(rng, 5000)...)
			}
			pool = append(pool, gen.StdDeflate(rng, big, 6))
			dyn := gen.StdDeflate(rng, []byte(brText(rng, 3000)), 9)
			pool = append(pool, dyn, dyn[:2], dyn[:4], dyn[:7])
			// fixed block: literal 'X', then length-3 matches at distances 4, 300 and 30000
			for _, dsym := range []struct{ sym, extra, nb uint64 }{{3, 0, 0}, {16, 43, 7}, {29, 5423, 13}} {
				var w gen.BitW
				w.Bits(1, 1)
				w.Bits(1, 2)
				w.Code(0x30+'X', 8)
				w.Code(1, 7) // symbol 257: length 3
				w.Code(dsym.sym, 5)
				w.Bits(dsym.extra, uint(dsym.nb))
				w.Code(0, 7) // end of block
				w.Align()
				pool = append(pool, w.Buf)
			}
		case "brotli":
			big := gen.Plain(rng, 50000)
			for len(big) < 40000 {
				big = append(big, vhlib.RandBytes(rng, 5000)...)
			}
			pool = append(pool, gen.BrotliEnc(rng, big))
			// small windows that the stream wraps several times, and context-modelled
			// text (several literal trees) declaring the SAME window size: what the first
			// two literals of the next stream see as "previous bytes" must be zero
			for _, lgwin := range []int{10, 12} {
				for k := 0; k < 2; k++ {
					txt := []byte(brText(rng, 6000+rng.Intn(3000)))
					pool = append(pool, ref.BrCompress([]ref.BrOp{{Data: txt, Op: 2}}, 11, lgwin, 1, 0, -1, -1))
				}
			}
		case "bzip2":
			pool = append(pool, ref.BZCompress(vhlib.RandBytes(rng, 120000), 1))
		}
		acts := readerActs(pool)
		for ti, target := range pool {
			fresh := readFinal(c.New(bytes.NewReader(target)))
			var rec func(hist []int, d int)
			rec = func(hist []int, d int) {
				if len(hist) > 0 {
					var names []string
					src := bytes.NewReader(pool[hist[0]%len(pool)])
					z := c.New(src)
					func() {
						defer func() { recover() }()
						for _, a := range hist[1:] {
							names = append(names, acts[a].Name)
							acts[a].Do(z, rng)
						}
					}()
					// how the next source is handed over: a new object; the SAME object
					// re-pointed at the new data; the same object re-pointed at a frame whose
					// header the caller has already consumed
					how := []string{"new-source-object", "same-object-repointed", "same-object-behind-consumed-header"}[(len(hist)+ti+hist[len(hist)-1])%3]
					switch how {
					case "new-source-object":
						z.Reset(bytes.NewReader(target))
					case "same-object-repointed":
						src.Reset(target)
						z.Reset(src)
					default:
						hdr := vhlib.RandBytes(rng, 1+rng.Intn(12))
						src.Reset(append(append([]byte{}, hdr...), target...))
						io.ReadFull(src, make([]byte, len(hdr)))
						z.Reset(src)
					}
					got := readFinal(z)
					rp := map[string]interface{}{"type": c.Name + ".Reader", "first_stream": fmt.Sprintf("pool%d", hist[0]%len(pool)), "history": names, "target": fmt.Sprintf("pool%d", ti), "target_hex": vhlib.Hex(target), "handover": how}
					r.Eval("reader:"+c.Name, true, []byte(fmt.Sprint(c.Name, hist, ti)))
					if !got.eq(fresh) {
						r.Violate("reset-not-fresh", fmt.Sprintf("%s.Reader: after %v + Reset: class=%s out=%d in=%d; fresh: class=%s out=%d in=%d (panic %q)",
							c.Name, names, got.cls, len(got.out), got.in, fresh.cls, len(fresh.out), fresh.in, got.pan), rp)
					}
				}
				// the same history over sources that offer Read only (the Reader wraps them in its
				// own buffering, which may still hold unread bytes of the previous source - here the
				// previous stream is followed by a trailer): Reset must switch to the new source
				if len(hist) > 0 && (len(hist)+ti)%2 == 0 {
					first := append(append([]byte{}, pool[hist[0]%len(pool)]...), vhlib.RandBytes(rng, 1+rng.Intn(40))...)
					ro := &vhlib.ReadOnly{B: first}
					z := c.New(ro)
					var names []string
					func() {
						defer func() { recover() }()
						for _, a := range hist[1:] {
							names = append(names, acts[a].Name)
							if len(acts[a].Name) >= 5 && acts[a].Name[:5] == "reset" {
								continue // those re-point at bytes.Readers
							}
							acts[a].Do(z, rng)
						}
					}()
					if (len(hist)+ti)%4 == 0 {
						// the SAME source object, re-pointed at the new data and rewound by the caller
						ro.B, ro.Pos = target, 0
						z.Reset(ro)
					} else {
						z.Reset(&vhlib.ReadOnly{B: target})
					}
					got := readFinal(z)
					freshRO := readFinal(c.New(&vhlib.ReadOnly{B: target}))
					r.Eval("reader-readonly-sources:"+c.Name, true, []byte(fmt.Sprint(c.Name, hist, ti)))
					if !got.eq(freshRO) {
						r.Violate("reset-not-fresh", fmt.Sprintf("%s.Reader over Read-only sources: after %v + Reset: class=%s out=%d in=%d; fresh: class=%s out=%d in=%d (panic %q)",
							c.Name, names, got.cls, len(got.out), got.in, freshRO.cls, len(freshRO.out), freshRO.in, got.pan),
							map[string]interface{}{"type": c.Name + ".Reader", "sources": "Read-only", "first_stream": fmt.Sprintf("pool%d+trailer", hist[0]%len(pool)), "history": names, "target_hex": vhlib.Hex(target)})
					}
				}
				if d == 0 {
					return
				}
				if len(hist) == 0 {
					for p := range pool {
						if r.Quick() && (p+ti)%3 != 0 {
							continue // quick tier: a third of the (first stream, target) pairs
						}
						rec([]int{p}, d)
					}
					return
				}
				for a := range acts {
					rec(append(append([]int{}, hist...), a), d-1)
				}
			}
			rec(nil, depth)
		}
	}
	// xflate.Reader (Reset takes a ReadSeeker)
	{
		var pool [][]byte
		for i := 0; i < 3; i++ {
			s, _, _ := makeXFStream(randXWConfig(rng), randXWOps(rng, 3+rng.Intn(8), 60))
			pool = append(pool, s)
		}
		// one index listing many chunks (the record slice has spare capacity afterwards), and
		// streams with several indexes whose chunks differ in size
		{
			var ops []xwOp
			for k := 0; k < 20+rng.Intn(10); k++ {
				ops = append(ops, xwOp{Kind: 'w', Data: vhlib.RandBytes(rng, 8)})
			}
			ops = append(ops, xwOp{Kind: 'c'})
			s, _, _ := makeXFStream(xwCfg{Level: 6, ChunkSize: 8, Index: -1}, ops)
			pool = append(pool, s)
			for _, idx := range []int64{2, 3} {
				var ops2 []xwOp
				for k := 0; k < 7; k++ {
					ops2 = append(ops2, xwOp{Kind: 'w', Data: vhlib.RandBytes(rng, 1+rng.Intn(40))}, xwOp{Kind: 'f', Mode: 1})
				}
				ops2 = append(ops2, xwOp{Kind: 'c'})
				s2, _, _ := makeXFStream(xwCfg{Level: 6, ChunkSize: 64, Index: idx}, ops2)
				pool = append(pool, s2)
			}
		}
		pool = append(pool, gen.Mutate(rng, pool[0]), pool[1][:len(pool[1])/2], nil)
		type xact func(x *xflate.Reader)
		acts := map[string]xact{
			"nothing":   func(x *xflate.Reader) {},
			"read5":     func(x *xflate.Reader) { io.ReadFull(x, make([]byte, 5)) },
			"readall":   func(x *xflate.Reader) { io.Copy(ioutil.Discard, x) },
			"seek7":     func(x *xflate.Reader) { x.Seek(7, io.SeekStart) },
			"seekend":   func(x *xflate.Reader) { x.Seek(0, io.SeekEnd) },
			"close":     func(x *xflate.Reader) { x.Close() },
			"seek+read": func(x *xflate.Reader) { x.Seek(3, io.SeekStart); x.Read(make([]byte, 2)) },
		}
		full := func(x *xflate.Reader, err error) string {
			if err != nil {
				return "open:" + vhlib.ErrClass(err)
			}
			out, e := ioutil.ReadAll(x)
			end, _ := x.Seek(0, io.SeekEnd)
			return fmt.Sprintf("%s|%x|%d", vhlib.ErrClass(e), out, end)
		}
		for ti, target := range pool {
			xf, ferr := xflate.NewReader(bytes.NewReader(target), nil)
			fresh := full(xf, ferr)
			for pi, first := range pool {
				for n1, a1 := range acts {
					for n2, a2 := range acts {
						x, _ := xflate.NewReader(bytes.NewReader(first), nil)
						func() {
							defer func() { recover() }()
							a1(x)
							a2(x)
						}()
						err := x.Reset(bytes.NewReader(target))
						got := full(x, err)
						r.Eval("reader:xflate", true, []byte(fmt.Sprint(pi, n1, n2, ti)))
						if got != fresh {
							r.Violate("reset-not-fresh", fmt.Sprintf("xflate.Reader: pool%d,%s,%s then Reset(pool%d): %.60s vs fresh %.60s", pi, n1, n2, ti, got, fresh),
								map[string]interface{}{"type": "xflate.Reader", "history": []string{n1, n2}, "first": vhlib.Hex(first), "target": vhlib.Hex(target)})
						}
					}
				}
			}
		}
	}
	// Writers
	for _, wc := range wcodecs() {
		payloads := [][]byte{nil, vhlib.RandBytes(rng, 50), vhlib.RandBytes(rng, 3000)}
		type wact struct {
			Name string
			Do   func(w wrt)
		}
		acts := []wact{
			{"nothing", func(w wrt) {}},
			{"write", func(w wrt) { w.Write(vhlib.RandBytes(rng, 1+rng.Intn(200))) }},
			{"writebig", func(w wrt) { w.Write(vhlib.RandBytes(rng, 5000)) }},
			{"flush1", func(w wrt) { w.Flush(1) }},
			{"flush2", func(w wrt) { w.Flush(2) }},
			{"badflush", func(w wrt) { w.Flush(7) }},
			{"close", func(w wrt) { w.Close() }},
		}
		// the stream written after the Reset: one Write and Close; Close alone (no Write call at all:
		// whatever is set up lazily on the first Write is never set up); split Writes with a Flush
		posts := []struct {
			Name string
			Do   func(w wrt, target []byte) error
		}{
			{"write,close", func(w wrt, target []byte) error { w.Write(target); return w.Close() }},
			{"close", func(w wrt, target []byte) error { return w.Close() }},
			{"write-halves,flush,close", func(w wrt, target []byte) error {
				w.Write(target[:len(target)/2])
				w.Flush(1)
				w.Write(target[len(target)/2:])
				return w.Close()
			}},
		}
		for ti, target := range payloads {
			for pi, post := range posts {
				if pi > 0 && ti == 2 && r.Quick() {
					continue
				}
				var fb bytes.Buffer
				fw := wc.New(&fb)
				ferr := post.Do(fw, target)
				fin, fout := fw.Offsets()
				for faulty := 0; faulty < 3; faulty++ {
					for a1 := range acts {
						for a2 := range acts {
							var first io.Writer = &bytes.Buffer{}
							switch faulty {
							case 1:
								first = &faultSink{At: rng.Intn(30), Kind: rng.Intn(2)}
							case 2:
								// the first destination fails at once, having accepted nothing
								first = &faultSink{At: 0, Kind: 0}
							}
							w := wc.New(first)
							pan := ""
							func() {
								defer func() {
									if p := recover(); p != nil {
										pan = fmt.Sprint(p)
									}
								}()
								acts[a1].Do(w)
								acts[a2].Do(w)
							}()
							var gb bytes.Buffer
							w.Reset(&gb)
							gerr := post.Do(w, target)
							gin, gout := w.Offsets()
							r.Eval("writer:"+wc.Name, true, []byte(fmt.Sprint(wc.Name, a1, a2, faulty, len(target))))
							if pan != "" || !bytes.Equal(gb.Bytes(), fb.Bytes()) || vhlib.ErrClass(gerr) != vhlib.ErrClass(ferr) || gin != fin || gout != fout {
								r.Violate("reset-not-fresh", fmt.Sprintf("%s.Writer: after %s,%s (faulty sink: %v) + Reset + %s: %d bytes err=%v in=%d out=%d; fresh: %d bytes err=%v in=%d out=%d %s",
									wc.Name, acts[a1].Name, acts[a2].Name, faulty > 0, post.Name, gb.Len(), gerr, gin, gout, fb.Len(), ferr, fin, fout, pan),
									map[string]interface{}{"type": wc.Name + ".Writer", "history": []string{acts[a1].Name, acts[a2].Name}, "after_reset": post.Name, "faulty_first_sink": faulty, "payload": vhlib.Hex(target)})
							}
						}
					}
				}
			}
		}
	}
	// A Writer that is closed (or abandoned) and later Reset must not share anything with a
	// Writer created in between: both are then used alternately and each destination must
	// hold exactly what a fresh Writer produces for its own data.
	for _, wc := range wcodecs() {
		fresh := func(parts ...[]byte) []byte {
			var b bytes.Buffer
			w := wc.New(&b)
			for _, p := range parts {
				w.Write(p)
			}
			w.Close()
			return b.Bytes()
		}
		nrep := 6
		if !r.Quick() {
			nrep = 60
		}
		for rep := 0; rep < nrep; rep++ {
			d1a, d1b := vhlib.RandBytes(rng, 1+rng.Intn(400)), vhlib.RandBytes(rng, 1+rng.Intn(2000))
			d2a, d2b := vhlib.RandBytes(rng, 1+rng.Intn(400)), vhlib.RandBytes(rng, 1+rng.Intn(2000))
			how := rep % 3 // 0: closed, 1: closed twice via Reset cycle, 2: abandoned without Close
			var junk bytes.Buffer
			w1 := wc.New(&junk)
			w1.Write(vhlib.RandBytes(rng, rng.Intn(300)))
			switch how {
			case 0:
				w1.Close()
			case 1:
				w1.Close()
				w1.Reset(&junk)
				w1.Close()
			}
			var b1, b2 bytes.Buffer
			w2 := wc.New(&b2) // created in between
			var w3 wrt
			var b3 bytes.Buffer
			if how == 1 {
				w3 = wc.New(&b3)
			}
			w1.Reset(&b1)
			pan := ""
			var e1, e2 error
			func() {
				defer func() {
					if p := recover(); p != nil {
						pan = fmt.Sprint(p)
					}
				}()
				w1.Write(d1a)
				w2.Write(d2a)
				if w3 != nil {
					w3.Write(d2a)
				}
				w1.Flush(1)
				w2.Write(d2b)
				w1.Write(d1b)
				if w3 != nil {
					w3.Write(d1b)
					w3.Close()
				}
				e2 = w2.Close()
				e1 = w1.Close()
			}()
			r.Eval("writers-side-by-side:"+wc.Name, true, d1a, d1b, d2a, d2b)
			want1 := fresh(d1a, d1b)
			if _, sup := wc.New(ioutil.Discard).Flush(1); sup {
				var b bytes.Buffer
				w := wc.New(&b)
				w.Write(d1a)
				w.Flush(1)
				w.Write(d1b)
				w.Close()
				want1 = b.Bytes()
			}
			bad := pan != "" || e1 != nil || e2 != nil || !bytes.Equal(b1.Bytes(), want1) || !bytes.Equal(b2.Bytes(), fresh(d2a, d2b))
			if w3 != nil && !bytes.Equal(b3.Bytes(), fresh(d2a, d1b)) {
				bad = true
			}
			if bad {
				r.Violate("reset-not-fresh", fmt.Sprintf("%s.Writer reused through Reset next to a Writer created in between (%s): outputs %d/%d bytes, fresh %d/%d, errors %v %v %s",
					wc.Name, []string{"after Close", "after Close, Reset, Close", "abandoned"}[how], b1.Len(), b2.Len(), len(want1), len(fresh(d2a, d2b)), e1, e2, pan),
					map[string]interface{}{"type": wc.Name + ".Writer", "kind": "writer-created-in-between", "first_writer_was": how,
						"d1a": vhlib.Hex(d1a), "d1b": vhlib.Hex(d1b), "d2a": vhlib.Hex(d2a), "d2b": vhlib.Hex(d2b)})
			}
		}
	}
	r.Sample(map[string]interface{}{"type": "bzip2.Reader", "history": []string{"pool1", "read10"}, "then": "Reset(pool0); ReadAll", "compare": "fresh reader on pool0"})
}
