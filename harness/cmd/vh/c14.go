package main

import (
	"bytes"
	"fmt"
	"io"
	"io/ioutil"
	"math/rand"

	"github.com/dsnet/compress/xflate"
	"github.com/dsnet/compress/xflate/verifharness/gen"
	"github.com/dsnet/compress/xflate/verifharness/ref"
	"github.com/dsnet/compress/xflate/verifharness/vhlib"
)

func init() { props["C14"] = runC14 }

type rdAct struct {
	Name string
	Do   func(z rdr, rng *rand.Rand)
}

func readerActs(pool [][]byte) []rdAct {
	acts := []rdAct{
		{"nothing", func(z rdr, _ *rand.Rand) {}},
		{"read0", func(z rdr, _ *rand.Rand) { z.Read(nil) }},
		{"read1", func(z rdr, _ *rand.Rand) { z.Read(make([]byte, 1)) }},
		{"read10", func(z rdr, _ *rand.Rand) { io.ReadFull(z, make([]byte, 10)) }},
		{"readmid", func(z rdr, _ *rand.Rand) { io.ReadFull(z, make([]byte, 700)) }},
		{"readall", func(z rdr, _ *rand.Rand) { io.Copy(ioutil.Discard, z) }},
		{"close", func(z rdr, _ *rand.Rand) { z.Close() }},
		{"readall+close", func(z rdr, _ *rand.Rand) { io.Copy(ioutil.Discard, z); z.Close() }},
	}
	for i, p := range pool {
		p := p
		acts = append(acts, rdAct{fmt.Sprintf("reset(pool%d)", i), func(z rdr, _ *rand.Rand) { z.Reset(bytes.NewReader(p)) }})
	}
	return acts
}

type finalObs struct {
	out      []byte
	cls      string
	in, outN int64
	pan      string
}

func readFinal(z rdr) (o finalObs) {
	defer func() {
		if p := recover(); p != nil {
			o.pan = fmt.Sprint(p)
		}
	}()
	out, err := ioutil.ReadAll(z)
	o.out = out
	o.cls = vhlib.ErrClass(err)
	o.in, o.outN = z.Offsets()
	return
}

func (o finalObs) eq(p finalObs) bool {
	return bytes.Equal(o.out, p.out) && o.cls == p.cls && o.in == p.in && o.outN == p.outN && o.pan == p.pan
}

func runC14(r *vhlib.Run) {
	rng := r.Rng
	depth := 2
	if !r.Quick() {
		depth = 3
	}
	for _, c := range codecs() {
		// pool: valid short, valid long, corrupt, truncated, empty, (multi-stream for bzip2 comes from Valid)
		short := c.Valid(rng, 300)
		long := c.Valid(rng, 9000)
		for try := 0; len(long.Plain) < 2000 && try < 20; try++ {
			long = c.Valid(rng, 9000)
		}
		pool := [][]byte{short.Data, long.Data, gen.Mutate(rng, long.Data), long.Data[:len(long.Data)*2/3], nil, c.Valid(rng, 2000).Data}
		// a stream that fills and wraps the 32 KiB window, and targets that refer
		// to history the new stream does not have (must not see the old window)
		switch c.Name {
		case "flate":
			big := gen.Plain(rng, 50000)
			for len(big) < 40000 {
				big = append(big, vhlib.RandBytes(rng, 5000)...)
			}
			pool = append(pool, gen.StdDeflate(rng, big, 6))
			// fixed block: literal 'X', then length-3 matches at distances 4, 300 and 30000
			for _, dsym := range []struct{ sym, extra, nb uint64 }{{3, 0, 0}, {16, 43, 7}, {29, 5423, 13}} {
				var w gen.BitW
				w.Bits(1, 1)
				w.Bits(1, 2)
				w.Code(0x30+'X', 8)
				w.Code(1, 7) // symbol 257: length 3
				w.Code(dsym.sym, 5)
				w.Bits(dsym.extra, uint(dsym.nb))
				w.Code(0, 7) // end of block
				w.Align()
				pool = append(pool, w.Buf)
			}
		case "brotli":
			big := gen.Plain(rng, 50000)
			for len(big) < 40000 {
				big = append(big, vhlib.RandBytes(rng, 5000)...)
			}
			pool = append(pool, gen.BrotliEnc(rng, big))
			// small windows that the stream wraps several times, and context-modelled
			// text (several literal trees) declaring the SAME window size: what the first
			// two literals of the next stream see as "previous bytes" must be zero
			for _, lgwin := range []int{10, 12} {
				for k := 0; k < 2; k++ {
					txt := []byte(brText(rng, 6000+rng.Intn(3000)))
					pool = append(pool, ref.BrCompress([]ref.BrOp{{Data: txt, Op: 2}}, 11, lgwin, 1, 0, -1, -1))
				}
			}
		case "bzip2":
			pool = append(pool, ref.BZCompress(vhlib.RandBytes(rng, 120000), 1))
		}
		acts := readerActs(pool)
		for ti, target := range pool {
			fresh := readFinal(c.New(bytes.NewReader(target)))
			var rec func(hist []int, d int)
			rec = func(hist []int, d int) {
				if len(hist) > 0 {
					var names []string
					src := bytes.NewReader(pool[hist[0]%len(pool)])
					z := c.New(src)
					func() {
						defer func() { recover() }()
						for _, a := range hist[1:] {
							names = append(names, acts[a].Name)
							acts[a].Do(z, rng)
						}
					}()
					// how the next source is handed over: a new object; the SAME object
					// re-pointed at the new data; the same object re-pointed at a frame whose
					// header the caller has already consumed
					how := []string{"new-source-object", "same-object-repointed", "same-object-behind-consumed-header"}[(len(hist)+ti+hist[len(hist)-1])%3]
					switch how {
					case "new-source-object":
						z.Reset(bytes.NewReader(target))
					case "same-object-repointed":
						src.Reset(target)
						z.Reset(src)
					default:
						hdr := vhlib.RandBytes(rng, 1+rng.Intn(12))
						src.Reset(append(append([]byte{}, hdr...), target...))
						io.ReadFull(src, make([]byte, len(hdr)))
						z.Reset(src)
					}
					got := readFinal(z)
					rp := map[string]interface{}{"type": c.Name + ".Reader", "first_stream": fmt.Sprintf("pool%d", hist[0]%len(pool)), "history": names, "target": fmt.Sprintf("pool%d", ti), "target_hex": vhlib.Hex(target), "handover": how}
					r.Eval("reader:"+c.Name, true, []byte(fmt.Sprint(c.Name, hist, ti)))
					if !got.eq(fresh) {
						r.Violate("reset-not-fresh", fmt.Sprintf("%s.Reader: after %v + Reset: class=%s out=%d in=%d; fresh: class=%s out=%d in=%d (panic %q)",
							c.Name, names, got.cls, len(got.out), got.in, fresh.cls, len(fresh.out), fresh.in, got.pan), rp)
					}
				}
				if d == 0 {
					return
				}
				if len(hist) == 0 {
					for p := range pool {
						if r.Quick() && p >= 4 && p < 6 {
							continue
						}
						rec([]int{p}, d)
					}
					return
				}
				for a := range acts {
					rec(append(append([]int{}, hist...), a), d-1)
				}
			}
			rec(nil, depth)
		}
	}
	// xflate.Reader (Reset takes a ReadSeeker)
	{
		var pool [][]byte
		for i := 0; i < 3; i++ {
			s, _, _ := makeXFStream(randXWConfig(rng), randXWOps(rng, 3+rng.Intn(8), 60))
			pool = append(pool, s)
		}
		pool = append(pool, gen.Mutate(rng, pool[0]), pool[1][:len(pool[1])/2], nil)
		type xact func(x *xflate.Reader)
		acts := map[string]xact{
			"nothing":   func(x *xflate.Reader) {},
			"read5":     func(x *xflate.Reader) { io.ReadFull(x, make([]byte, 5)) },
			"readall":   func(x *xflate.Reader) { io.Copy(ioutil.Discard, x) },
			"seek7":     func(x *xflate.Reader) { x.Seek(7, io.SeekStart) },
			"seekend":   func(x *xflate.Reader) { x.Seek(0, io.SeekEnd) },
			"close":     func(x *xflate.Reader) { x.Close() },
			"seek+read": func(x *xflate.Reader) { x.Seek(3, io.SeekStart); x.Read(make([]byte, 2)) },
		}
		full := func(x *xflate.Reader, err error) string {
			if err != nil {
				return "open:" + vhlib.ErrClass(err)
			}
			out, e := ioutil.ReadAll(x)
			end, _ := x.Seek(0, io.SeekEnd)
			return fmt.Sprintf("%s|%x|%d", vhlib.ErrClass(e), out, end)
		}
		for ti, target := range pool {
			xf, ferr := xflate.NewReader(bytes.NewReader(target), nil)
			fresh := full(xf, ferr)
			for pi, first := range pool {
				for n1, a1 := range acts {
					for n2, a2 := range acts {
						x, _ := xflate.NewReader(bytes.NewReader(first), nil)
						func() {
							defer func() { recover() }()
							a1(x)
							a2(x)
						}()
						err := x.Reset(bytes.NewReader(target))
						got := full(x, err)
						r.Eval("reader:xflate", true, []byte(fmt.Sprint(pi, n1, n2, ti)))
						if got != fresh {
							r.Violate("reset-not-fresh", fmt.Sprintf("xflate.Reader: pool%d,%s,%s then Reset(pool%d): %.60s vs fresh %.60s", pi, n1, n2, ti, got, fresh),
								map[string]interface{}{"type": "xflate.Reader", "history": []string{n1, n2}, "first": vhlib.Hex(first), "target": vhlib.Hex(target)})
						}
					}
				}
			}
		}
	}
	// Writers
	for _, wc := range wcodecs() {
		payloads := [][]byte{nil, vhlib.RandBytes(rng, 50), vhlib.RandBytes(rng, 3000)}
		type wact struct {
			Name string
			Do   func(w wrt)
		}
		acts := []wact{
			{"nothing", func(w wrt) {}},
			{"write", func(w wrt) { w.Write(vhlib.RandBytes(rng, 1+rng.Intn(200))) }},
			{"writebig", func(w wrt) { w.Write(vhlib.RandBytes(rng, 5000)) }},
			{"flush1", func(w wrt) { w.Flush(1) }},
			{"flush2", func(w wrt) { w.Flush(2) }},
			{"badflush", func(w wrt) { w.Flush(7) }},
			{"close", func(w wrt) { w.Close() }},
		}
		for _, target := range payloads {
			var fb bytes.Buffer
			fw := wc.New(&fb)
			fw.Write(target)
			ferr := fw.Close()
			fin, fout := fw.Offsets()
			for faulty := 0; faulty < 2; faulty++ {
				for a1 := range acts {
					for a2 := range acts {
						var first io.Writer = &bytes.Buffer{}
						if faulty == 1 {
							first = &faultSink{At: rng.Intn(30), Kind: rng.Intn(2)}
						}
						w := wc.New(first)
						pan := ""
						func() {
							defer func() {
								if p := recover(); p != nil {
									pan = fmt.Sprint(p)
								}
							}()
							acts[a1].Do(w)
							acts[a2].Do(w)
						}()
						var gb bytes.Buffer
						w.Reset(&gb)
						w.Write(target)
						gerr := w.Close()
						gin, gout := w.Offsets()
						r.Eval("writer:"+wc.Name, true, []byte(fmt.Sprint(wc.Name, a1, a2, faulty, len(target))))
						if pan != "" || !bytes.Equal(gb.Bytes(), fb.Bytes()) || vhlib.ErrClass(gerr) != vhlib.ErrClass(ferr) || gin != fin || gout != fout {
							r.Violate("reset-not-fresh", fmt.Sprintf("%s.Writer: after %s,%s (faulty sink: %v) + Reset: %d bytes err=%v in=%d out=%d; fresh: %d bytes err=%v in=%d out=%d %s",
								wc.Name, acts[a1].Name, acts[a2].Name, faulty == 1, gb.Len(), gerr, gin, gout, fb.Len(), ferr, fin, fout, pan),
								map[string]interface{}{"type": wc.Name + ".Writer", "history": []string{acts[a1].Name, acts[a2].Name}, "faulty_first_sink": faulty == 1, "payload": vhlib.Hex(target)})
						}
					}
				}
			}
		}
	}
	r.Sample(map[string]interface{}{"type": "bzip2.Reader", "history": []string{"pool1", "read10"}, "then": "Reset(pool0); ReadAll", "compare": "fresh reader on pool0"})
}
