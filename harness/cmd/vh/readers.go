package main

import (
	"bufio"
	"bytes"
	"fmt"
	"io"
	"math/rand"
	"strings"
	"time"

	"github.com/dsnet/compress/brotli"
	"github.com/dsnet/compress/bzip2"
	"github.com/dsnet/compress/flate"
	"github.com/dsnet/compress/xflate/internal/meta"
	"github.com/dsnet/compress/xflate/verifharness/gen"
	"github.com/dsnet/compress/xflate/verifharness/ref"
	"github.com/dsnet/compress/xflate/verifharness/vhlib"
)

// rdr is the common face of the stream decoders under test.
type rdr interface {
	io.Reader
	Close() error
	Reset(io.Reader) error
	Offsets() (in, out int64)
}

type flateR struct{ *flate.Reader }

func (r flateR) Offsets() (int64, int64) { return r.InputOffset, r.OutputOffset }

type brotliR struct{ *brotli.Reader }

func (r brotliR) Offsets() (int64, int64) { return r.InputOffset, r.OutputOffset }

type bzip2R struct{ *bzip2.Reader }

func (r bzip2R) Offsets() (int64, int64) { return r.InputOffset, r.OutputOffset }

type metaR struct{ *meta.Reader }

func (r metaR) Offsets() (int64, int64) { return r.InputOffset, r.OutputOffset }
func (r metaR) Reset(s io.Reader) error { r.Reader.Reset(s); return nil }

// codec describes one decoder: how to construct it and how to make inputs.
type codec struct {
	Name  string
	New   func(io.Reader) rdr
	Valid func(rng *rand.Rand, maxPlain int) gen.Stream // a valid complete stream
	Multi bool                                          // continues into following streams (bzip2)
}

func codecs() []codec {
	return []codec{
		{Name: "flate",
			New: func(s io.Reader) rdr { z, _ := flate.NewReader(s, nil); return flateR{z} },
			Valid: func(rng *rand.Rand, maxPlain int) gen.Stream {
				switch rng.Intn(6) {
				case 4:
					if maxPlain >= 3000 && rng.Intn(3) == 0 {
						return gen.SynthBoundary(rng)
					}
					return gen.SynthShortEOB(rng)
				case 5:
					return gen.SynthShortEOB(rng)
				case 0:
					return gen.SynthFlate(rng, 0)
				case 1:
					p := gen.Plain(rng, maxPlain)
					if z := gen.ZlibDeflate(rng, p); z != nil {
						return gen.Stream{Data: z, Plain: p, Valid: true, Kind: "zlib"}
					}
				}
				p := gen.Plain(rng, maxPlain)
				return gen.Stream{Data: gen.StdDeflate(rng, p, []int{-2, 0, 1, 6, 9}[rng.Intn(5)]), Plain: p, Valid: true, Kind: "std"}
			}},
		{Name: "brotli",
			New: func(s io.Reader) rdr { z, _ := brotli.NewReader(s, nil); return brotliR{z} },
			Valid: func(rng *rand.Rand, maxPlain int) gen.Stream {
				p := gen.Plain(rng, maxPlain)
				return gen.Stream{Data: gen.BrotliEnc(rng, p), Plain: p, Valid: true, Kind: "libbrotli"}
			}},
		{Name: "bzip2", Multi: true,
			New: func(s io.Reader) rdr { z, _ := bzip2.NewReader(s, nil); return bzip2R{z} },
			Valid: func(rng *rand.Rand, maxPlain int) gen.Stream {
				p := gen.Plain(rng, maxPlain)
				if rng.Intn(3) == 0 {
					// the block ends inside a run: the RLE1 stage still owes bytes
					// after it has consumed all its input
					p = append(append([]byte{}, p...), bytes.Repeat([]byte{byte(rng.Intn(256))}, 4+rng.Intn(300))...)
				}
				d := ref.BZCompress(p, 1+rng.Intn(9))
				if rng.Intn(4) == 0 {
					p2 := gen.Plain(rng, maxPlain/4)
					d = append(d, ref.BZCompress(p2, 1+rng.Intn(9))...)
					p = append(append([]byte{}, p...), p2...)
				}
				return gen.Stream{Data: d, Plain: p, Valid: true, Kind: "libbz2"}
			}},
		{Name: "meta",
			New: func(s io.Reader) rdr { return metaR{meta.NewReader(s)} },
			Valid: func(rng *rand.Rand, maxPlain int) gen.Stream {
				p := vhlib.RandBytes(rng, rng.Intn(200))
				var bb bytes.Buffer
				mw := meta.NewWriter(&bb)
				mw.FinalMode = []meta.FinalMode{meta.FinalMeta, meta.FinalStream}[rng.Intn(2)]
				mw.Write(p)
				mw.Close()
				return gen.Stream{Data: bb.Bytes(), Plain: p, Valid: true, Kind: "meta"}
			}},
	}
}

// ---- source kinds ----------------------------------------------------------

type srcKind struct {
	Name   string
	Exact  bool // offers ReadByte or Peek/Discard: no over-consumption allowed
	Custom bool // a user-defined BufferedReader (brotli only recognises *bufio.Reader)
	Make   func(d []byte, rng *rand.Rand) (io.Reader, func() int)
}

// fragBuffered: a compress.BufferedReader that fragments Buffered/Peek randomly
// within the api.go contract.
type fragBuffered struct {
	B    []byte
	Pos  int
	Rng  *rand.Rand
	buf  int    // currently "buffered" bytes
	lent []byte // what the last Peek handed out: a private copy, overwritten by the next call
}

// poison: the contract lets a Peek result become invalid with the next Read, Discard or Peek; this
// source really does reuse that memory (as a queue that slides its data to the front does)
func (f *fragBuffered) poison() {
	for i := range f.lent {
		f.lent[i] ^= 0xa5
	}
	f.lent = nil
}

func (f *fragBuffered) Read(p []byte) (int, error) {
	f.poison()
	if f.Pos >= len(f.B) {
		return 0, io.EOF
	}
	n := copy(p, f.B[f.Pos:])
	if n > 1 && f.Rng.Intn(2) == 0 {
		n = 1 + f.Rng.Intn(n)
	}
	f.Pos += n
	f.buf = 0
	return n, nil
}
func (f *fragBuffered) Buffered() int {
	if f.buf > len(f.B)-f.Pos {
		f.buf = len(f.B) - f.Pos
	}
	return f.buf
}
func (f *fragBuffered) Peek(n int) ([]byte, error) {
	avail := len(f.B) - f.Pos
	if n > f.buf {
		// "fill": buffer at least n if possible, sometimes more
		f.buf = n + f.Rng.Intn(9)
		if f.buf > avail {
			f.buf = avail
		}
	}
	f.poison()
	if n > avail {
		f.lent = append([]byte{}, f.B[f.Pos:]...)
		return f.lent, io.EOF
	}
	f.lent = append([]byte{}, f.B[f.Pos:f.Pos+n]...)
	return f.lent, nil
}
func (f *fragBuffered) Discard(n int) (int, error) {
	f.poison()
	avail := len(f.B) - f.Pos
	if n > avail {
		f.Pos += avail
		f.buf = 0
		return avail, io.EOF
	}
	f.Pos += n
	f.buf -= n
	if f.buf < 0 {
		f.buf = 0
	}
	return n, nil
}

func srcKinds() []srcKind {
	return []srcKind{
		{Name: "bytes.Reader", Exact: true, Make: func(d []byte, _ *rand.Rand) (io.Reader, func() int) { r := bytes.NewReader(d); return r, r.Len }},
		{Name: "bytes.Buffer", Exact: true, Make: func(d []byte, _ *rand.Rand) (io.Reader, func() int) {
			r := bytes.NewBuffer(append([]byte{}, d...))
			return r, r.Len
		}},
		{Name: "strings.Reader", Exact: true, Make: func(d []byte, _ *rand.Rand) (io.Reader, func() int) {
			r := strings.NewReader(string(d))
			return r, r.Len
		}},
		{Name: "bufio16", Exact: true, Make: func(d []byte, _ *rand.Rand) (io.Reader, func() int) {
			u := bytes.NewReader(d)
			r := bufio.NewReaderSize(u, 16)
			return r, func() int { return u.Len() + r.Buffered() }
		}},
		{Name: "bufio4096", Exact: true, Make: func(d []byte, _ *rand.Rand) (io.Reader, func() int) {
			u := bytes.NewReader(d)
			r := bufio.NewReaderSize(u, 4096)
			return r, func() int { return u.Len() + r.Buffered() }
		}},
		{Name: "bufio-over-1byte", Exact: true, Make: func(d []byte, _ *rand.Rand) (io.Reader, func() int) {
			u := &vhlib.ReadOnly{B: d, Cap: 1}
			r := bufio.NewReaderSize(u, 17)
			return r, func() int { return len(d) - u.Pos + r.Buffered() }
		}},
		{Name: "ByteReader", Exact: true, Make: func(d []byte, _ *rand.Rand) (io.Reader, func() int) {
			r := &vhlib.ByteOnly{B: d}
			return r, func() int { return len(r.B) - r.Pos }
		}},
		{Name: "fragBuffered", Exact: true, Custom: true, Make: func(d []byte, rng *rand.Rand) (io.Reader, func() int) {
			r := &fragBuffered{B: d, Rng: rand.New(rand.NewSource(rng.Int63()))}
			return r, func() int { return len(r.B) - r.Pos }
		}},
		{Name: "ReadOnly", Exact: false, Make: func(d []byte, _ *rand.Rand) (io.Reader, func() int) { return &vhlib.ReadOnly{B: d}, nil }},
		{Name: "OneBytePerRead", Exact: false, Make: func(d []byte, _ *rand.Rand) (io.Reader, func() int) { return &vhlib.ReadOnly{B: d, Cap: 1}, nil }},
		{Name: "bufio-over-DataWithEOF", Exact: false, Make: func(d []byte, rng *rand.Rand) (io.Reader, func() int) {
			return bufio.NewReaderSize(&vhlib.ReadOnly{B: d, WithEOF: true}, []int{16, 512, 4096, 65536}[rng.Intn(4)]), nil
		}},
		{Name: "DataWithEOF", Exact: false, Make: func(d []byte, _ *rand.Rand) (io.Reader, func() int) { return &vhlib.ReadOnly{B: d, WithEOF: true}, nil }},
	}
}

// ---- generic observation -----------------------------------------------------

type obs struct {
	Out      []byte
	Cls      string // final error class; "nil" = io.EOF reached
	Err      error
	In, OutN int64
	Left     int
	Panic    string
	Bad      string // per-call contract breach noticed while reading
}

func schedule(rng *rand.Rand, kind int) []int {
	switch kind {
	case 0:
		return []int{1}
	case 1:
		return []int{4096}
	case 2:
		return []int{1 << 20}
	case 3:
		return []int{7}
	case 6: // a few short Reads (stopping inside a block), the rest through io.Copy
		var s []int
		for k := rng.Intn(4); k > 0; k-- {
			s = append(s, 1+rng.Intn(40))
		}
		return append(s, -1)
	case 5: // a zero-length Read after every short Read, all the way through
		var s []int
		for i := 0; i < 6000; i++ {
			s = append(s, 1+rng.Intn(60), 0)
		}
		return append(s, 4096)
	default:
		var s []int
		for i := 0; i < 20; i++ {
			if rng.Intn(10) < 3 {
				s = append(s, 0)
			} else {
				s = append(s, 1+rng.Intn(300))
			}
		}
		return append(s, 1+rng.Intn(5000))
	}
}

// observeT is observe under a watchdog: a decoder that does not finish within
// the limit is reported as class "hang" (the goroutine is abandoned).
func observeT(c codec, data []byte, sk srcKind, sched []int, rng *rand.Rand, limit time.Duration) obs {
	ch := make(chan obs, 1)
	seed := rng.Int63()
	go func() { ch <- observe(c, data, sk, sched, rand.New(rand.NewSource(seed))) }()
	select {
	case o := <-ch:
		return o
	case <-time.After(limit):
		return obs{Cls: "hang", Bad: fmt.Sprintf("Read did not return within %v", limit)}
	}
}

// observeReuse makes observe work with ONE Reader per codec, Reset from stream to stream (what a
// Reader keeps from earlier streams - tables, windows, per-tree parameters - must not show).
var (
	observeReuse bool
	observeUsed  = map[string]rdr{}
)

// observe reads a decoder to its first error with the given schedule, checking
// per-call invariants (n <= len(buf), OutputOffset bookkeeping).
func observe(c codec, data []byte, sk srcKind, sched []int, rng *rand.Rand) (o obs) {
	src, left := sk.Make(data, rng)
	defer func() {
		if p := recover(); p != nil {
			o.Panic = fmt.Sprint(p)
			o.Cls = "Panic"
		}
	}()
	var zr rdr
	if observeReuse {
		// a Reader that has already been through another stream, handed the new one by Reset
		if z, ok := observeUsed[c.Name]; ok {
			z.Reset(src)
			zr = z
		}
	}
	if zr == nil {
		zr = c.New(src)
	}
	if observeReuse {
		observeUsed[c.Name] = zr
	}
	i, idle := 0, 0
	var pool []byte // one buffer for all calls (a fresh 1 MiB buffer per call dominates the run time)
	for {
		n := sched[i]
		if i+1 < len(sched) {
			i++
		}
		var cnt int
		var err error
		var buf []byte
		if n < 0 {
			// the rest through io.Copy (which uses an io.WriterTo of the Reader if it has one)
			var bb bytes.Buffer
			_, err = io.Copy(&bb, io.Reader(zr))
			if err == nil {
				err = io.EOF
			}
			buf, cnt, n = bb.Bytes(), bb.Len(), bb.Len()
		} else {
			if cap(pool) < n {
				pool = make([]byte, n)
			}
			buf = pool[:n]
			cnt, err = zr.Read(buf)
		}
		if cnt < 0 || cnt > n {
			o.Bad = fmt.Sprintf("Read returned %d for len %d", cnt, n)
			cnt = 0
		}
		o.Out = append(o.Out, buf[:cnt]...)
		in, out := zr.Offsets()
		if out != int64(len(o.Out)) && o.Bad == "" {
			o.Bad = fmt.Sprintf("OutputOffset %d after %d delivered bytes", out, len(o.Out))
		}
		o.In, o.OutN = in, out
		// sources that expose exactly what has been consumed (ReadByte, Peek/Discard):
		// after every Read, InputOffset never exceeds the bytes taken from the source
		if left != nil && sk.Exact && o.Bad == "" && (err == nil || err == io.EOF) {
			if consumed := int64(len(data) - left()); in > consumed {
				o.Bad = fmt.Sprintf("InputOffset %d exceeds the %d bytes taken from the source", in, consumed)
			}
		}
		if err != nil {
			o.Err = err
			o.Cls = vhlib.ErrClass(err)
			if err == io.EOF {
				o.Cls = "nil"
			}
			break
		}
		if cnt == 0 {
			idle++
			if idle > 2000 {
				o.Bad = "no progress in 2000 calls"
				o.Cls = "stuck"
				break
			}
		} else {
			idle = 0
		}
		if len(o.Out) > 1<<27 {
			o.Cls = "outlimit"
			break
		}
	}
	if left != nil {
		o.Left = left()
	} else {
		o.Left = -1
	}
	// stickiness and Close
	// (a zero-length Read in between may answer (0, nil) or the error, but must not disturb the latch)
	for _, sz := range []int{8, 0, 8, 0, 1} {
		cnt, err := zr.Read(make([]byte, sz))
		if sz == 0 && cnt == 0 && err == nil {
			continue
		}
		if cnt != 0 || err != o.Err {
			if o.Bad == "" && o.Cls != "stuck" && o.Cls != "outlimit" {
				o.Bad = fmt.Sprintf("after error %v a later Read returned (%d, %v)", o.Err, cnt, err)
			}
		}
	}
	cerr := zr.Close()
	if o.Cls != "stuck" && o.Cls != "outlimit" && o.Bad == "" {
		if o.Err == io.EOF && cerr != nil {
			o.Bad = fmt.Sprintf("Close after EOF returned %v", cerr)
		}
		if o.Err != io.EOF && cerr == nil {
			o.Bad = fmt.Sprintf("Close after %v returned nil", o.Err)
		}
	}
	return o
}
