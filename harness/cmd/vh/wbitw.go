package main

import (
	"fmt"
	"math/rand"
	"strings"

	"github.com/dsnet/compress/internal/errors"
	"github.com/dsnet/compress/internal/prefix"
	"github.com/dsnet/compress/xflate/verifharness/vhlib"
)

// WBITW: prefix.Writer against its implementation-level model
// (coq/Prefix/WriterImpl.v) over scripted sinks. One case per (operation script,
// sink script); one observation per operation: outcome, Offset, BitsWritten, the
// number of calls the sink saw during the operation and the bytes it accepted.

func init() { props["WBITW"] = runWBITW }

// ---- the scripted sink (sink / sink_write of WriterImpl.v) -------------------------
type wSinkBeh struct {
	Fail bool
	K    int
	Tag  int
}

func (b wSinkBeh) String() string {
	if !b.Fail {
		return "a"
	}
	return fmt.Sprintf("f%d:%d", b.K, b.Tag)
}

type wSinkErr struct{ Tag int }

func (e wSinkErr) Error() string { return fmt.Sprintf("sink-error-%d", e.Tag) }

type wScriptSink struct {
	Script []wSinkBeh
	Rest   wSinkBeh
	Data   []byte
	Calls  int
	Sizes  []int // len(p) of every call
}

func (s *wScriptSink) Write(p []byte) (int, error) {
	b := s.Rest
	if len(s.Script) > 0 {
		b = s.Script[0]
		s.Script = s.Script[1:]
	}
	s.Calls++
	s.Sizes = append(s.Sizes, len(p))
	if !b.Fail {
		s.Data = append(s.Data, p...)
		return len(p), nil
	}
	n := b.K
	if n > len(p) {
		n = len(p)
	}
	s.Data = append(s.Data, p[:n]...)
	return n, wSinkErr{b.Tag}
}

// ---- operations -----------------------------------------------------------------
type bwOp struct {
	Kind byte // b WriteBits, t TryWriteBits, p WritePads, r Write, c WriteSymbol, d TryWriteSymbol, f Flush, u PushBits
	V    uint64
	N    uint
	Raw  []byte
	Sym  uint // for c, d: the symbol whose chunk is (V, N)
}

func (o bwOp) String() string {
	switch o.Kind {
	case 'b', 't', 'c', 'd':
		return fmt.Sprintf("%c:%d:%d", o.Kind, o.V, o.N)
	case 'p':
		return fmt.Sprintf("p:%d", o.V)
	case 'r':
		h := vhlib.Hex(o.Raw)
		if h == "" {
			h = "-"
		}
		return "r:" + h
	}
	return string(o.Kind)
}

func wErrName(err error) string {
	switch e := err.(type) {
	case nil:
		return "nil"
	case wSinkErr:
		return fmt.Sprintf("Src%d", e.Tag)
	}
	if errors.IsInvalid(err) {
		return "Invalid"
	}
	return "other(" + err.Error() + ")"
}

// runWriterOps drives the real prefix.Writer.
func runWriterOps(big bool, script []wSinkBeh, rest wSinkBeh, ops []bwOp) (obs []string, sink *wScriptSink) {
	sink = &wScriptSink{Script: append([]wSinkBeh{}, script...), Rest: rest}
	// the encoder for the WriteSymbol / TryWriteSymbol operations: symbol i has chunk (V, N)
	var pe prefix.Encoder
	var codes prefix.PrefixCodes
	for i := range ops {
		if ops[i].Kind == 'c' || ops[i].Kind == 'd' {
			ops[i].Sym = uint(len(codes))
			codes = append(codes, prefix.PrefixCode{Sym: uint32(len(codes)), Len: uint32(ops[i].N), Val: uint32(ops[i].V)})
		}
	}
	for len(codes) < 2 {
		codes = append(codes, prefix.PrefixCode{Sym: uint32(len(codes)), Len: 1, Val: uint32(len(codes))})
	}
	pe.Init(codes)
	dump := pe.VerifDump()
	mask, chunks := dump[0], dump[3:]
	for _, c := range codes {
		if chunks[c.Sym&mask] != c.Val<<5|c.Len {
			panic("wbitw: encoder chunk is not the expected (value, nb) pair")
		}
	}

	var pw prefix.Writer
	pw.Init(sink, big)
	for _, o := range ops {
		calls0, len0 := sink.Calls, len(sink.Data)
		var head string
		rtPanic := false
		func() {
			defer func() {
				if p := recover(); p != nil {
					rtPanic = true
				}
			}()
			var perr error // the value raised with errors.Panic, if any
			func() {
				defer errors.Recover(&perr)
				switch o.Kind {
				case 'b':
					pw.WriteBits(uint(o.V), o.N)
				case 'c':
					pw.WriteSymbol(o.Sym, &pe)
				case 't':
					head = fmt.Sprintf("t:%d", b2i(pw.TryWriteBits(uint(o.V), o.N)))
				case 'd':
					head = fmt.Sprintf("t:%d", b2i(pw.TryWriteSymbol(o.Sym, &pe)))
				case 'p':
					pw.WritePads(uint(o.V))
					head = "p"
				case 'r':
					n, err := pw.Write(o.Raw)
					head = fmt.Sprintf("r:%d:%s", n, wErrName(err))
				case 'f':
					ret, err := pw.Flush()
					head = fmt.Sprintf("f:%d:%s", ret, wErrName(err))
				case 'u':
					n, err := pw.PushBits()
					head = fmt.Sprintf("u:%d:%s", n, wErrName(err))
				}
			}()
			if o.Kind == 'b' || o.Kind == 'c' {
				head = "b:" + wErrName(perr)
			} else if perr != nil {
				head = "unexpected-errors.Panic"
			}
		}()
		if rtPanic {
			// run-time panic (never a sink error): the history ends here
			switch o.Kind {
			case 'b', 'c':
				head = "b:Panic"
			case 'r':
				head = "r:0:Panic"
			case 'f':
				head = fmt.Sprintf("f:%d:Panic", pw.Offset)
			case 'u':
				head = "u:0:Panic"
			default:
				head = "unexpected-panic"
			}
		}
		delta := vhlib.Hex(sink.Data[len0:])
		if delta == "" {
			delta = "-"
		}
		obs = append(obs, fmt.Sprintf("%s:%d:%d:%d/%s", head, pw.Offset, pw.BitsWritten(), sink.Calls-calls0, delta))
		if rtPanic {
			break
		}
	}
	return obs, sink
}

// a value of exactly nb bits (top bit set), nb <= 64
func wExact(rng *rand.Rand, nb uint) uint64 {
	if nb == 0 {
		return 0
	}
	v := rng.Uint64()
	if nb < 64 {
		v &= 1<<nb - 1
	}
	return v | 1<<(nb-1)
}

func wRandOps(rng *rand.Rand, mode int) []bwOp {
	var ops []bwOp
	width := func() uint {
		switch rng.Intn(6) {
		case 0:
			return []uint{0, 1, 7, 8, 9, 31, 32, 33, 48, 55, 56, 57}[rng.Intn(12)]
		case 1:
			return 50 + uint(rng.Intn(8))
		}
		return uint(rng.Intn(58))
	}
	bits := func() bwOp { nb := width(); return bwOp{Kind: 'b', V: wExact(rng, nb), N: nb} }
	chunk := func(kind byte) bwOp {
		nb := uint(rng.Intn(28))
		return bwOp{Kind: kind, V: wExact(rng, nb), N: nb}
	}
	switch mode {
	case 0: // mixed
		for k := 1 + rng.Intn(60); k > 0; k-- {
			switch rng.Intn(16) {
			case 0:
				ops = append(ops, bwOp{Kind: 'p', V: 0})
			case 1:
				ops = append(ops, bwOp{Kind: 'p', V: uint64(rng.Intn(2))}) // v < 2^pads only when pads > 0 or v = 0; else out of the precondition
			case 2:
				ops = append(ops, bwOp{Kind: 'p'}, bwOp{Kind: 'r', Raw: vhlib.RandBytes(rng, rng.Intn(40))})
			case 3:
				ops = append(ops, bwOp{Kind: 'p'}, bwOp{Kind: 'r', Raw: vhlib.RandBytes(rng, rng.Intn(2001))})
			case 4:
				ops = append(ops, bwOp{Kind: 'r', Raw: vhlib.RandBytes(rng, rng.Intn(20))}) // mostly unaligned
			case 5:
				ops = append(ops, bwOp{Kind: 'f'})
			case 6:
				ops = append(ops, bwOp{Kind: 'u'})
			case 7, 8:
				nb := uint(rng.Intn(65))
				ops = append(ops, bwOp{Kind: 't', V: wExact(rng, nb), N: nb})
			case 9:
				ops = append(ops, chunk('c'))
			case 10:
				ops = append(ops, chunk('d'))
			default:
				ops = append(ops, bits())
			}
		}
	case 1: // long runs that cross the 504/512 staging edge many times
		for k := 150 + rng.Intn(1400); k > 0; k-- {
			switch rng.Intn(40) {
			case 0:
				ops = append(ops, bwOp{Kind: 'p'})
			case 1:
				ops = append(ops, bwOp{Kind: 'u'})
			case 2:
				if rng.Intn(4) == 0 {
					ops = append(ops, bwOp{Kind: 'f'})
				}
			case 3:
				if rng.Intn(6) == 0 {
					ops = append(ops, bwOp{Kind: 'p'}, bwOp{Kind: 'r', Raw: vhlib.RandBytes(rng, rng.Intn(700))})
				}
			case 4, 5, 6, 7, 8, 9:
				nb := uint(rng.Intn(40))
				ops = append(ops, bwOp{Kind: 't', V: wExact(rng, nb), N: nb})
			case 10, 11:
				ops = append(ops, chunk('c'))
			case 12, 13:
				ops = append(ops, chunk('d'))
			default:
				nb := 40 + uint(rng.Intn(18))
				if rng.Intn(3) == 0 {
					nb = width()
				}
				ops = append(ops, bwOp{Kind: 'b', V: wExact(rng, nb), N: nb})
			}
		}
	case 2: // aligned 64-bit fields (the widest the code supports at a byte boundary)
		for k := 1 + rng.Intn(200); k > 0; k-- {
			switch rng.Intn(8) {
			case 0:
				ops = append(ops, bwOp{Kind: 'f'})
			case 1:
				nb := 8 * uint(rng.Intn(9))
				ops = append(ops, bwOp{Kind: 't', V: wExact(rng, nb), N: nb})
			default:
				nb := 8 * uint(rng.Intn(9))
				ops = append(ops, bwOp{Kind: 'b', V: wExact(rng, nb), N: nb})
			}
		}
	default: // wild: outside the precondition (too wide, value wider than the field)
		for k := 1 + rng.Intn(120); k > 0; k-- {
			switch rng.Intn(10) {
			case 0:
				ops = append(ops, bwOp{Kind: 'p', V: rng.Uint64()})
			case 1:
				ops = append(ops, bwOp{Kind: 'r', Raw: vhlib.RandBytes(rng, rng.Intn(30))})
			case 2:
				ops = append(ops, bwOp{Kind: 'f'})
			case 3:
				ops = append(ops, bwOp{Kind: 'u'})
			case 4:
				ops = append(ops, bwOp{Kind: 't', V: rng.Uint64(), N: uint(rng.Intn(80))})
			case 5:
				nb := uint(rng.Intn(32))
				ops = append(ops, bwOp{Kind: "cd"[rng.Intn(2)], V: uint64(rng.Intn(1 << 27)), N: nb})
			case 6:
				ops = append(ops, bwOp{Kind: 'b', V: rng.Uint64(), N: []uint{200, 1000, 4000, 1 << 20, 1 << 40, 1<<64 - 1, 1<<64 - 8, 1 << 63}[rng.Intn(8)]})
			default:
				ops = append(ops, bwOp{Kind: 'b', V: rng.Uint64() >> uint(rng.Intn(64)), N: uint(rng.Intn(140))})
			}
		}
	}
	return ops
}

func runWBITW(r *vhlib.Run) {
	rng := r.Rng
	n := 1200
	if !r.Quick() {
		n = 12000
	}
	for i := 0; i < n; i++ {
		big := rng.Intn(2) == 0
		mode := []int{0, 0, 0, 1, 1, 2, 3, 3}[i%8]
		ops := wRandOps(rng, mode)
		accept := wSinkBeh{}

		// dry run with a sink that never fails: the sizes of the sink calls
		_, dry := runWriterOps(big, nil, accept, ops)

		type sk struct {
			script []wSinkBeh
			rest   wSinkBeh
			name   string
		}
		sinks := []sk{{nil, accept, "never"}}
		// fail at a chosen call (= a chosen absolute byte position) with a short count 0..len
		for rep := 0; rep < 2; rep++ {
			if len(dry.Sizes) == 0 {
				break
			}
			ci := rng.Intn(len(dry.Sizes))
			// prefer calls that carry bytes
			for t := 0; t < 4 && dry.Sizes[ci] == 0; t++ {
				ci = rng.Intn(len(dry.Sizes))
			}
			k := 0
			switch rng.Intn(4) {
			case 0:
				k = 0
			case 1:
				k = dry.Sizes[ci]
			default:
				k = rng.Intn(dry.Sizes[ci] + 1)
			}
			var script []wSinkBeh
			for j := 0; j < ci; j++ {
				script = append(script, accept)
			}
			script = append(script, wSinkBeh{Fail: true, K: k, Tag: 1 + rng.Intn(9)})
			if rep == 0 {
				sinks = append(sinks, sk{script, accept, "once"})
			} else {
				sinks = append(sinks, sk{script, wSinkBeh{Fail: true, K: []int{0, 0, 1, 3, 1000}[rng.Intn(5)], Tag: 10 + rng.Intn(9)}, "permanent"})
			}
		}
		// arbitrary script
		{
			var script []wSinkBeh
			for k := rng.Intn(12); k > 0; k-- {
				if rng.Intn(3) == 0 {
					script = append(script, wSinkBeh{Fail: true, K: []int{0, 1, 2, 100, 503, 504, 511, 512, 3000}[rng.Intn(9)], Tag: 20 + rng.Intn(9)})
				} else {
					script = append(script, accept)
				}
			}
			rest := accept
			if rng.Intn(3) == 0 {
				rest = wSinkBeh{Fail: true, K: rng.Intn(4), Tag: 30}
			}
			sinks = append(sinks, sk{script, rest, "random"})
		}
		for _, s := range sinks {
			obs, sink := runWriterOps(big, s.script, s.rest, ops)
			var sc []string
			for _, b := range s.script {
				sc = append(sc, b.String())
			}
			scs := strings.Join(sc, ",")
			if scs == "" {
				scs = "-"
			}
			args := []string{fmt.Sprint(b2i(big)), scs, s.rest.String()}
			for _, o := range ops {
				args = append(args, o.String())
			}
			r.Eval(fmt.Sprintf("writer-impl:mode%d:%s", mode, s.name), true, []byte(strings.Join(args, " ")))
			final := vhlib.Hex(sink.Data)
			if final == "" {
				final = "-"
			}
			r.Case("wbitw", args, strings.Join(obs, ",")+" "+final)
		}
	}
}
