package main

import (
	"bytes"
	stdflate "compress/flate"
	"fmt"
	"io"

	"github.com/dsnet/compress/flate"
	"github.com/dsnet/compress/xflate/verifharness/gen"
	"github.com/dsnet/compress/xflate/verifharness/ref"
	"github.com/dsnet/compress/xflate/verifharness/vhlib"
)

func init() { props["C01"] = runC01 }

type decObs struct {
	cls    string
	out    []byte
	inOff  int64
	outOff int64
	left   int
	panic  string
}

func (o decObs) String() string {
	if o.panic != "" {
		return "Panic " + vhlib.Hex(o.out)
	}
	if o.cls == "nil" {
		return fmt.Sprintf("nil %s %d", vhlib.Hex(o.out), o.inOff)
	}
	return fmt.Sprintf("%s %s", o.cls, vhlib.Hex(o.out))
}

// readSched drives a reader with the given buffer-length schedule (the last
// element repeats) until a non-nil error; zero-length reads allowed.
func readSched(rd io.Reader, sched []int, limit int) (out []byte, err error) {
	i := 0
	zeros := 0
	for {
		n := sched[i]
		if i+1 < len(sched) {
			i++
		}
		buf := make([]byte, n)
		c, e := rd.Read(buf)
		out = append(out, buf[:c]...)
		if e != nil {
			return out, e
		}
		if c == 0 {
			zeros++
			if zeros > 1000 && n > 0 {
				return out, fmt.Errorf("no-progress")
			}
		}
		if len(out) > limit {
			return out, fmt.Errorf("output-limit")
		}
	}
}

func flateDecode(data []byte, mk func([]byte) (io.Reader, func() int), sched []int) (o decObs) {
	src, left := mk(data)
	defer func() {
		if p := recover(); p != nil {
			o.panic = fmt.Sprint(p)
		}
	}()
	zr, _ := flate.NewReader(src, nil)
	out, err := readSched(zr, sched, 1<<26)
	cls := vhlib.ErrClass(err)
	if err == io.EOF {
		cls = "nil"
	}
	o = decObs{cls: cls, out: out, inOff: zr.InputOffset, outOff: zr.OutputOffset}
	if left != nil {
		o.left = left()
	}
	return o
}

func srcBytesReader(d []byte) (io.Reader, func() int) {
	r := bytes.NewReader(d)
	return r, r.Len
}
func srcByteOnly(d []byte) (io.Reader, func() int) {
	r := &vhlib.ByteOnly{B: d}
	return r, func() int { return len(r.B) - r.Pos }
}

// stdInflateObs: Go's compress/flate on the same input.
func stdInflateObs(data []byte) (out []byte, cls string, used int) {
	br := &vhlib.ByteOnly{B: data}
	zr := stdflate.NewReader(br)
	var bb bytes.Buffer
	_, err := io.Copy(&bb, zr)
	switch {
	case err == nil:
		cls = "nil"
	case err == io.ErrUnexpectedEOF:
		cls = "UEOF"
	default:
		if _, ok := err.(stdflate.CorruptInputError); ok {
			cls = "Corrupted"
		} else {
			cls = "Other"
		}
	}
	return bb.Bytes(), cls, br.Pos
}

func isPrefix(a, b []byte) bool { return len(a) <= len(b) && bytes.Equal(a, b[:len(a)]) }

// c01Check runs one input through the implementation, the references and
// records the correspondence case.
func c01Check(r *vhlib.Run, s gen.Stream) decObs {
	data := s.Data
	replay := map[string]interface{}{"input": vhlib.Hex(data), "kind": s.Kind}
	o := flateDecode(data, srcBytesReader, []int{4096})
	r.Case("inflate", []string{vhlib.Hex(data)}, o.String())

	sOut, sCls, sUsed := stdInflateObs(data)
	capOut := len(sOut) + len(o.out) + 1024
	zOut, zSt, zUsed := ref.ZInflate(data, capOut)
	zCls := map[string]string{"end": "nil", "more": "UEOF", "err": "Corrupted", "cap": "cap"}[zSt]

	nontrivial := o.cls == "nil" || len(o.out) > 0 || len(data) > 2
	r.Eval(s.Kind, nontrivial, data)
	r.Hist["impl:"+o.cls]++
	if o.panic != "" {
		r.Violate("panic", o.panic, replay)
		return o
	}
	refsAgree := sCls == zCls && (sCls != "nil" || (bytes.Equal(sOut, zOut) && sUsed == zUsed))
	if !refsAgree {
		r.Hist["reference-ambiguity"]++
	}
	// acceptance and output vs references
	for _, rf := range []struct {
		name string
		out  []byte
		cls  string
		used int
	}{{"stdlib", sOut, sCls, sUsed}, {"zlib", zOut, zCls, zUsed}} {
		if !refsAgree {
			break
		}
		if (o.cls == "nil") != (rf.cls == "nil") {
			r.Violate("acceptance-differs", fmt.Sprintf("impl=%s %s=%s", o.cls, rf.name, rf.cls), replay)
			break
		}
		if o.cls == "nil" {
			if !bytes.Equal(o.out, rf.out) {
				r.Violate("output-differs", fmt.Sprintf("vs %s: %d vs %d bytes", rf.name, len(o.out), len(rf.out)), replay)
			}
			if int(o.inOff) != rf.used {
				r.Violate("consumption-differs", fmt.Sprintf("impl=%d %s=%d", o.inOff, rf.name, rf.used), replay)
			}
		} else {
			// never a wrong byte: what impl delivered and what the reference
			// delivered must be prefix-comparable
			if !isPrefix(o.out, rf.out) && !isPrefix(rf.out, o.out) {
				r.Violate("wrong-byte-before-error", fmt.Sprintf("vs %s", rf.name), replay)
			}
			if rf.cls == "UEOF" && o.cls != "UEOF" || rf.cls == "Corrupted" && o.cls != "Corrupted" {
				// class disagreement between truncated/corrupt is reported by C09; note it here
				r.Hist["class-differs:"+o.cls+"/"+rf.cls]++
			}
		}
	}
	if s.Valid {
		if o.cls != "nil" || !bytes.Equal(o.out, s.Plain) {
			// generator believed it valid: confirm with references before blaming impl
			if sCls == "nil" && bytes.Equal(sOut, s.Plain) {
				r.Violate("valid-stream-rejected", fmt.Sprintf("impl=%s", o.cls), replay)
			} else {
				r.Hist["generator-invalid"]++
			}
		}
	}
	if o.cls == "nil" {
		if o.left != len(data)-int(o.inOff) {
			r.Violate("overconsumption", fmt.Sprintf("in=%d left=%d len=%d", o.inOff, o.left, len(data)), replay)
		}
		if o.outOff != int64(len(o.out)) {
			r.Violate("output-offset", fmt.Sprintf("%d vs %d", o.outOff, len(o.out)), replay)
		}
	}
	return o
}

func runC01(r *vhlib.Run) {
	rng := r.Rng
	// the sliding window against its implementation-level model (Window/Dict.v)
	wdict(r)
	// flate.Reader itself against its implementation-level model, per Read call (Flate/Impl.v)
	wflimpl(r)
	// every string of <= 2 bytes (quick) / <= 3 bytes (thorough: impl + refs, model on a sample)
	c01Check(r, gen.Stream{Kind: "tiny"})
	for a := 0; a < 256; a++ {
		c01Check(r, gen.Stream{Data: []byte{byte(a)}, Kind: "tiny"})
	}
	step := 1
	if r.Quick() {
		step = 7
	}
	for i := 0; i < 65536; i += step {
		c01Check(r, gen.Stream{Data: []byte{byte(i), byte(i >> 8)}, Kind: "tiny"})
	}
	if !r.Quick() {
		for i := 0; i < 1<<24; i += 61 {
			c01Check(r, gen.Stream{Data: []byte{byte(i), byte(i >> 8), byte(i >> 16)}, Kind: "tiny3"})
		}
	}
	n := 1500
	maxPlain := 6000
	if !r.Quick() {
		n = 40000
		maxPlain = 70000
	}
	for _, s := range gen.FlateCorpus(rng, n, maxPlain) {
		o := c01Check(r, s)
		if len(r.Samples) < 6 && len(s.Data) < 60 {
			r.Sample(map[string]interface{}{"kind": s.Kind, "input": vhlib.Hex(s.Data), "impl": o.String()})
		}
	}
	// truncation at every byte for small valid streams
	for i := 0; i < 40; i++ {
		s := gen.SynthFlate(rng, 0)
		for k := 0; k < len(s.Data); k++ {
			c01Check(r, gen.Stream{Data: s.Data[:k], Kind: "truncated"})
		}
	}
	// large: copies wrapping the window while it grows
	for _, sz := range []int{40000, 70000} {
		p := gen.Plain(rng, sz)
		c01Check(r, gen.Stream{Data: gen.StdDeflate(rng, p, 6), Plain: p, Valid: true, Kind: "large"})
	}
}
