package main

// WBRIMPL: the REAL brotli.Reader against its implementation-level model coq/Brotli/Impl.v,
// PER Read CALL: the bytes returned, the error class, InputOffset, OutputOffset and (while
// no error has occurred) the internal state of the Reader (brotli.VerifReaderState: step,
// stepState, blkLen/insLen/cpyLen, the three block decoders, context-map slices, distance
// ring, the bit reader's fields, the window's fields), over both source paths of the bit
// reader and scripted underlying readers, over several Read schedules, and across Reset.
//
//   brimpl <nseg> { <hex|-> <mode 0|1> <bsz> <reads|-> <sched> }*
//          mode 1: Peek/Discard path over a genuine bufio.Reader of size bsz (4096 when the
//                  Reader wraps the source itself) over an underlying reader scripted by reads
//          mode 0: a byteReader that is not a bufio.Reader (ReadByte per byte; raw Reads scripted)
//          sched : the lengths of the buffers of the successive Read calls
//          segments after the first: Reset(new source) on the same Reader
//   observation: per segment (joined by |) the Read calls (joined by ,):
//          <hex>@<err>@<InputOffset>@<OutputOffset>[@<state>]
//
// Inputs: libbrotli encoder output (qualities 0-11, lgwin 10-24, flush points, metadata),
// crafted streams (harness/brcraft: every transform, context modes, block switches,
// simple / complex codes, context maps with RLE / IMTF, NPOSTFIX / NDIRECT), the .br files of
// brotli/testdata, mutations, truncations at every byte, tiny strings.
//
// Besides, for every input the final outcome of the real Reader (class, output, InputOffset)
// is compared with the RFC 7932 specification model (coq/Brotli/Spec.v brotli_decode, asked
// live): agreement classes are counted in the histogram and the smallest witness of every
// disagreeing (impl class / spec class) pair is kept in the notes.

import (
	"bufio"
	"fmt"
	"io"
	"math/rand"
	"os"
	"path/filepath"
	"sort"
	"strings"
	"time"

	"github.com/dsnet/compress/brotli"
	"github.com/dsnet/compress/xflate/verifharness/brcraft"
	"github.com/dsnet/compress/xflate/verifharness/gen"
	"github.com/dsnet/compress/xflate/verifharness/vhlib"
)

func init() { props["WBRIMPL"] = wbrimpl }

type brSeg struct {
	Data  []byte
	Mode  int
	Bsz   int
	Impl  bool // mode 1: let the Reader wrap the source itself (bsz = 4096)
	Reads []int
	Sched []int // sizes; the last one is repeated
}

type brSegObs struct {
	Calls  []string
	Sizes  []int
	Out    []byte
	Cls    string
	In     int64
	Panic  bool
	NoErr  bool // the call budget ran out before an error
	BadBuf string
}

func (s *brSeg) source() io.Reader {
	if s.Mode == 1 {
		u := &brUnder{B: s.Data, Reads: append([]int{}, s.Reads...)}
		if s.Impl {
			return u
		}
		return bufio.NewReaderSize(u, s.Bsz)
	}
	return byteOnlyView{scriptByteSrc{&scriptSrc{B: s.Data, Reads: append([]int{}, s.Reads...)}}}
}

const brMaxCalls = 6000

// brRunSeg reads one segment to its first error (or until the call budget is used up)
func brRunSeg(zr *brotli.Reader, s *brSeg, withState bool) (o brSegObs) {
	defer func() {
		if p := recover(); p != nil {
			o.Calls = append(o.Calls, "panic")
			o.Panic = true
			o.Cls = "Panic"
		}
	}()
	i := 0
	for len(o.Sizes) < brMaxCalls {
		n := s.Sched[i]
		if i+1 < len(s.Sched) {
			i++
		}
		o.Sizes = append(o.Sizes, n)
		buf := make([]byte, n)
		cnt, err := zr.Read(buf)
		if cnt < 0 || cnt > n {
			o.BadBuf = fmt.Sprintf("Read returned %d for len %d", cnt, n)
			cnt = 0
		}
		o.Out = append(o.Out, buf[:cnt]...)
		call := fmt.Sprintf("%s@%s@%d@%d", vhlib.Hex(buf[:cnt]), vhlib.ErrClass(err), zr.InputOffset, zr.OutputOffset)
		if err == nil && withState {
			call += "@" + brotli.VerifReaderState(zr)
		}
		o.Calls = append(o.Calls, call)
		o.In = zr.InputOffset
		if err != nil {
			o.Cls = vhlib.ErrClass(err)
			return o
		}
	}
	o.NoErr = true
	o.Cls = "budget"
	return o
}

func brSegArgs(s *brSeg, sizes []int) []string {
	return []string{vhlib.Hex(s.Data), fmt.Sprint(s.Mode), fmt.Sprint(s.Bsz), joinInts(s.Reads), joinInts(sizes)}
}

// brCase runs the segments on one Reader (under a watchdog) and records the case
func brCase(r *vhlib.Run, kind string, segs []*brSeg) []brSegObs {
	type res struct{ obs []brSegObs }
	ch := make(chan res, 1)
	go func() {
		var out []brSegObs
		var zr *brotli.Reader
		for k, s := range segs {
			src := s.source()
			if k == 0 {
				zr, _ = brotli.NewReader(src, nil)
			} else {
				zr.Reset(src)
			}
			if b, sz := brotli.VerifIsBuffered(zr); b != (s.Mode == 1) || (b && sz != s.Bsz) {
				r.Violate("brimpl-init-path", fmt.Sprintf("mode %d bsz %d: buffered=%v size=%d", s.Mode, s.Bsz, b, sz), nil)
			}
			o := brRunSeg(zr, s, true)
			out = append(out, o)
			if o.Panic {
				break
			}
		}
		ch <- res{out}
	}()
	var out []brSegObs
	select {
	case x := <-ch:
		out = x.obs
	case <-time.After(60 * time.Second):
		r.Violate("brimpl-hang", kind, map[string]interface{}{"input": vhlib.Hex(segs[0].Data)})
		return nil
	}
	args := []string{fmt.Sprint(len(out))}
	var obs []string
	for k, o := range out {
		args = append(args, brSegArgs(segs[k], o.Sizes)...)
		obs = append(obs, strings.Join(o.Calls, ","))
		if o.BadBuf != "" {
			r.Violate("brimpl-contract", o.BadBuf, nil)
		}
		if o.Panic {
			r.Violate("brimpl-panic", kind, map[string]interface{}{"input": vhlib.Hex(segs[k].Data)})
		}
		r.Hist["impl:"+o.Cls]++
	}
	r.Case("brimpl", args, strings.Join(obs, "|"))
	r.Eval("brimpl:"+kind, true, []byte(strings.Join(args, " ")))
	return out
}

func brReads(rng *rand.Rand) []int {
	var reads []int
	switch rng.Intn(5) {
	case 0:
	case 1: // a trickling reader
		for k := 0; k < 300; k++ {
			reads = append(reads, 1+rng.Intn(3))
		}
	default:
		for k := rng.Intn(40); k > 0; k-- {
			reads = append(reads, []int{1, 1, 2, 3, 5, 7, 8, 9, 15, 16, 17, 40, 100, 4096, 5000, 9000}[rng.Intn(16)])
		}
	}
	return reads
}

func brSched(rng *rand.Rand, small bool) []int {
	k := rng.Intn(7)
	if !small && k < 2 {
		k = 2 + rng.Intn(5)
	}
	switch k {
	case 0:
		return []int{1}
	case 1:
		return []int{7}
	case 2:
		return []int{4096}
	case 3:
		return []int{1 << 16}
	case 4:
		return []int{100000, 0, 3, 65536}
	default:
		var s []int
		for i := 0; i < 12; i++ {
			if rng.Intn(10) < 2 {
				s = append(s, 0)
			} else {
				s = append(s, 1+rng.Intn(300))
			}
		}
		if small {
			return append(s, 1+rng.Intn(500))
		}
		return append(s, 2000+rng.Intn(60000))
	}
}

func brMkSeg(rng *rand.Rand, data []byte, small bool) *brSeg {
	s := &brSeg{Data: data, Reads: brReads(rng), Sched: brSched(rng, small)}
	switch rng.Intn(6) {
	case 0, 1:
		s.Mode = 0
	case 2:
		s.Mode, s.Bsz, s.Impl = 1, 4096, true
	default:
		s.Mode = 1
		s.Bsz = []int{16, 16, 17, 24, 32, 64, 512, 4096, 4096}[rng.Intn(9)]
	}
	if len(data) > 8000 { // the source models are lists: a refill costs the position
		s.Mode, s.Bsz = 1, 4096
	}
	return s
}

type brDiv struct {
	Input string
	Impl  string
	Spec  string
}

func wbrimpl(r *vhlib.Run) {
	rng := r.Rng
	dict := brDict(r)
	m := vhlib.StartModel()
	defer m.Close()
	div := map[string]brDiv{}

	// one input: the correspondence case(s), and the comparison of the final outcome with
	// the specification
	check := func(kind string, data []byte, nsrc int) {
		outLen := 0
		for k := 0; k < nsrc; k++ {
			small := true
			if k > 0 && outLen > 3000 {
				small = false
			}
			seg := brMkSeg(rng, data, small)
			if k == 0 { // first pass: one big Read at a time, to learn the size of the output
				seg.Sched = []int{1 << 16}
			}
			segs := []*brSeg{seg}
			if rng.Intn(6) == 0 { // a second stream on the same Reader
				d2 := data
				if rng.Intn(2) == 0 {
					d2 = brcraft.Stream(rng, 0, dict)
				}
				segs = append(segs, brMkSeg(rng, d2, len(d2) < 2000 && outLen < 3000))
			}
			out := brCase(r, kind, segs)
			if len(out) == 0 {
				return
			}
			if k == 0 {
				o := out[0]
				outLen = len(o.Out)
				if o.NoErr || o.Panic || len(o.Out) > 1<<18 {
					continue
				}
				icls := o.Cls
				iobs := fmt.Sprintf("%s %s", icls, vhlib.Hex(o.Out))
				if icls == "EOF" {
					iobs = fmt.Sprintf("nil %s %d", vhlib.Hex(o.Out), o.In)
				}
				sp := m.Ask("x brotli " + vhlib.Hex(data))
				f := strings.Fields(sp)
				if len(f) < 3 {
					r.Hist["spec:?"]++
					continue
				}
				scls := f[1]
				pair := icls + "/" + scls
				if icls == "EOF" && scls == "nil" {
					pair = "nil/nil"
					if sp != "x "+iobs {
						pair = "nil/nil-DIFFERENT"
					}
				} else if icls != "EOF" && scls != "nil" {
					// both fail: the bytes delivered by the implementation must be a prefix of the
					// specification's
					if !strings.HasPrefix(strings.TrimPrefix(f[2], "-"), strings.TrimPrefix(vhlib.Hex(o.Out), "-")) {
						pair += "-BYTES-BEYOND"
					}
				}
				r.Hist["impl/spec:"+pair]++
				if (icls == "EOF") != (scls == "nil") || (icls != "EOF" && icls != scls) || strings.Contains(pair, "-") {
					if old, ok := div[pair]; !ok || len(data)*2 < len(old.Input) {
						div[pair] = brDiv{Input: vhlib.Hex(data), Impl: iobs, Spec: sp}
					}
				}
			}
		}
	}

	// regression corpus and tiny strings
	for _, h := range []string{"0b028068656c6c6f03", "e20200004458801204", "020000004458e017c0ffff3f", "03000000a0040002a00000", "06", "", "3b", "81 01",
		// error-class witnesses: Reader UEOF / RFC model Corrupted, Reader Corrupted / RFC model UEOF
		"2065414e6e54", "020000007027"} {
		check("corpus", vhlib.UnHex(strings.Replace(h, " ", "", -1)), 2)
	}
	for a := 0; a < 256; a++ {
		check("tiny", []byte{byte(a)}, 1)
	}
	step := 1499
	if !r.Quick() {
		step = 7
	}
	for i := 0; i < 65536; i += step {
		check("tiny", []byte{byte(i), byte(i >> 8)}, 1)
	}
	n3 := 40
	if !r.Quick() {
		n3 = 400
	}
	for i := 0; i < n3; i++ {
		check("tiny3", vhlib.RandBytes(rng, 3+rng.Intn(6)), 1)
	}

	n := 20
	maxPlain := 500
	if !r.Quick() {
		n, maxPlain = 1200, 20000
	}
	var pool [][]byte
	for i := 0; i < n; i++ {
		switch rng.Intn(9) {
		case 0, 1, 2:
			p := gen.Plain(rng, maxPlain)
			if rng.Intn(3) == 0 {
				p = []byte(brText(rng, rng.Intn(maxPlain+1)))
			}
			d := gen.BrotliEnc(rng, p)
			pool = append(pool, d)
			check("libbrotli", d, 2)
		case 3, 4:
			d := brcraft.Stream(rng, 0, dict)
			pool = append(pool, d)
			check("crafted", d, 3)
		case 5:
			check("crafted-bad", brcraft.Stream(rng, 0.02, dict), 2)
		case 6:
			if len(pool) > 0 {
				d := pool[rng.Intn(len(pool))]
				if len(d) > 0 {
					check("truncated", d[:rng.Intn(len(d))], 2)
				}
			}
		default:
			if len(pool) > 0 {
				check("mutated", gen.Mutate(rng, pool[rng.Intn(len(pool))]), 2)
			}
		}
	}
	// every transform x several word lengths
	for tid := 0; tid < 121; tid++ {
		for _, wl := range []int{4, 5, 9, 16, 24} {
			if r.Quick() && (tid+wl)%13 != 0 {
				continue
			}
			if d := brcraft.DictStream(rng, tid, wl, dict); d != nil {
				check("transform", d, 1)
			}
		}
	}
	// truncations of short valid streams at every byte
	nt := 1
	if !r.Quick() {
		nt = 12
	}
	for i := 0; i < nt; i++ {
		d := brcraft.Stream(rng, 0, dict)
		if len(d) > 300 {
			d = gen.BrotliEnc(rng, vhlib.RandBytes(rng, 60))
		}
		for k := 0; k < len(d); k++ {
			check("truncated-every", d[:k], 1)
		}
	}
	// the .br files of brotli/testdata: the small ones always, larger ones in the thorough tier
	tdir := os.Getenv("VERIF_BRTESTDATA")
	if tdir == "" {
		tdir = "/repo/brotli/testdata"
	}
	files, _ := filepath.Glob(filepath.Join(tdir, "*.br"))
	sort.Strings(files)
	for _, f := range files {
		d, err := os.ReadFile(f)
		if err != nil {
			continue
		}
		lim := 1200
		if !r.Quick() {
			lim = 60000
		}
		if len(d) > lim {
			continue
		}
		seg := &brSeg{Data: d, Mode: 1, Bsz: 4096, Impl: true, Sched: []int{1 << 16}}
		if len(d) < 1000 {
			check("testdata", d, 3)
		} else {
			brCase(r, "testdata:"+filepath.Base(f), []*brSeg{seg})
			seg2 := &brSeg{Data: d, Mode: 0, Reads: brReads(rng), Sched: []int{30000, 0, 5000}}
			if len(d) <= 6000 {
				brCase(r, "testdata:"+filepath.Base(f), []*brSeg{seg2})
			}
		}
		r.Hist["testdata-files"]++
	}
	keys := make([]string, 0, len(div))
	for k := range div {
		keys = append(keys, k)
	}
	sort.Strings(keys)
	for _, k := range keys {
		r.Notes["impl/spec:"+k] = div[k]
	}
}
