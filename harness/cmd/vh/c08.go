package main

import (
	"bufio"
	"bytes"
	"encoding/binary"
	"encoding/json"
	"fmt"
	"hash/crc32"
	"io"
	"math/rand"
	"os"
	"os/exec"
	"runtime"
	"runtime/debug"
	"strings"
	"time"

	"github.com/dsnet/compress/xflate"
	"github.com/dsnet/compress/xflate/internal/meta"
	"github.com/dsnet/compress/xflate/verifharness/brcraft"
	"github.com/dsnet/compress/xflate/verifharness/gen"
	"github.com/dsnet/compress/xflate/verifharness/ref"
	"github.com/dsnet/compress/xflate/verifharness/vhlib"
)

func init() {
	props["C08"] = runC08
	props["C08child"] = runC08Child
}

type c08Result struct {
	ID       int    `json:"id"`
	Class    string `json:"class"`
	Out      int64  `json:"out"`
	Alloc    uint64 `json:"alloc"` // TotalAlloc delta
	HeapPeak uint64 `json:"heap"`  // HeapSys after
	Millis   int64  `json:"ms"`
	Panic    string `json:"panic,omitempty"`
}

// child: reads "id codec hex" lines, decodes each, prints one JSON line.
func runC08Child(r *vhlib.Run) {
	// no decoder needs a deep stack: recursion that grows with the input is a finding
	// (the process dies with "stack overflow" and the parent reports the input)
	debug.SetMaxStack(48 << 20)
	sc := bufio.NewScanner(os.Stdin)
	sc.Buffer(make([]byte, 1<<20), 1<<28)
	w := bufio.NewWriter(os.Stdout)
	defer w.Flush()
	cs := map[string]codec{}
	for _, c := range codecs() {
		cs[c.Name] = c
	}
	for sc.Scan() {
		f := strings.Fields(sc.Text())
		if len(f) != 3 {
			continue
		}
		var id int
		fmt.Sscan(f[0], &id)
		data := vhlib.UnHex(f[2])
		res := c08Result{ID: id}
		var m0, m1 runtime.MemStats
		runtime.GC()
		runtime.ReadMemStats(&m0)
		t0 := time.Now()
		func() {
			defer func() {
				if p := recover(); p != nil {
					res.Panic = fmt.Sprint(p)
					res.Class = "Panic"
				}
			}()
			buf := make([]byte, 1<<16)
			if f[1] == "xflate" {
				xr, err := xflate.NewReader(bytes.NewReader(data), nil)
				if err != nil {
					res.Class = vhlib.ErrClass(err)
					return
				}
				xr.Read(buf[:0]) // a call with an empty buffer returns like any other
				for _, off := range []int64{1 << 40, 0, 7} {
					xr.Seek(off, io.SeekStart)
					xr.Read(buf[:0])
					xr.Read(buf[:16])
				}
				xr.Seek(0, io.SeekStart)
				for {
					if res.Out%3 == 1 {
						xr.Read(nil)
					}
					n, err := xr.Read(buf)
					res.Out += int64(n)
					if err != nil {
						res.Class = vhlib.ErrClass(err)
						return
					}
					if res.Out > 1<<28 {
						res.Class = "outlimit"
						return
					}
				}
			}
			z := cs[f[1]].New(bytes.NewReader(data))
			z.Read(buf[:0])
			for {
				if res.Out%3 == 1 {
					z.Read(nil)
				}
				n, err := z.Read(buf)
				res.Out += int64(n)
				if err != nil {
					res.Class = vhlib.ErrClass(err)
					return
				}
				if res.Out > 1<<28 {
					res.Class = "outlimit"
					return
				}
			}
		}()
		res.Millis = time.Since(t0).Milliseconds()
		runtime.ReadMemStats(&m1)
		res.Alloc = m1.TotalAlloc - m0.TotalAlloc
		res.HeapPeak = m1.HeapSys
		b, _ := json.Marshal(res)
		w.Write(b)
		w.WriteByte('\n')
		w.Flush()
	}
}

type c08Input struct {
	Codec, Kind string
	Data        []byte
}

func uv(x uint64) []byte {
	var b [10]byte
	return append([]byte{}, b[:binary.PutUvarint(b[:], x)]...)
}

func c08Hostile(rng *rand.Rand, quick bool) []c08Input {
	var in []c08Input
	add := func(c, k string, d []byte) { in = append(in, c08Input{c, k, d}) }
	// ---- xflate: indexes declaring huge record counts / sizes
	mkIdx := func(vlis ...uint64) []byte {
		var p []byte
		for _, v := range vlis {
			p = append(p, uv(v)...)
		}
		var c [4]byte
		binary.LittleEndian.PutUint32(c[:], crc32.ChecksumIEEE(p))
		return metaBlock(append(p, c[:]...), meta.FinalMeta)
	}
	for _, nrec := range []uint64{1 << 40, 1 << 62, 1 << 20, 70000} {
		idx := mkIdx(0, nrec, 0, 0)
		add("xflate", "huge-record-count", append(append([]byte{}, idx...), buildFooter(int64(len(idx)), "XF\x00", meta.FinalStream, nil)...))
		idx = mkIdx(0, nrec, 1<<50, 1<<50, 1<<50, 1<<50)
		add("xflate", "huge-record-count", append(append([]byte{}, idx...), buildFooter(int64(len(idx)), "XF\x00", meta.FinalStream, nil)...))
	}
	for _, bs := range []int64{1 << 62, 1<<63 - 1, -1, 1 << 40} {
		add("xflate", "huge-backsize", buildFooter(bs, "XF\x00", meta.FinalStream, nil))
	}
	{ // a long chain of empty indexes
		var s []byte
		back := int64(0)
		for i := 0; i < 300; i++ {
			idx := buildIndex(nil, idxOpts{BackSize: back})
			s = append(s, idx...)
			back = int64(len(idx))
		}
		add("xflate", "empty-index-chain", append(s, buildFooter(back, "XF\x00", meta.FinalStream, nil)...))
	}
	{
		// a chunk that stops inside an open dynamic-Huffman block whose code is built so
		// that the end marker the Reader appends (01 00 00 ff ff), however often it were
		// repeated, never spells end-of-block or an invalid symbol: literal 'a' = 0,
		// 'x' = 100, end-of-block = 101 (the bit pattern 101 never occurs in runs of ones
		// and zeros), length 3 = 110, length 4 = 111; distances 1 and 2 with one bit each.
		// A correct Reader fails with unexpected EOF after the marker; a Reader that keeps
		// feeding the marker never stops.
		var w gen.BitW
		w.Bits(0, 1)  // not final
		w.Bits(2, 2)  // dynamic
		w.Bits(2, 5)  // HLIT: 259 literal/length codes
		w.Bits(1, 5)  // HDIST: 2 distance codes
		w.Bits(14, 4) // HCLEN: 18 code length code lengths
		clOrder := []int{16, 17, 18, 0, 8, 7, 9, 6, 10, 5, 11, 4, 12, 3, 13, 2, 14, 1, 15}
		for _, sym := range clOrder[:18] {
			switch sym {
			case 0:
				w.Bits(1, 3)
			case 1, 3:
				w.Bits(2, 3)
			default:
				w.Bits(0, 3)
			}
		}
		// code length code: 0 -> "0", 1 -> "10", 3 -> "11"
		put := func(l int) {
			switch l {
			case 0:
				w.Code(0, 1)
			case 1:
				w.Code(2, 2)
			case 3:
				w.Code(3, 2)
			}
		}
		for sym := 0; sym < 259; sym++ {
			switch sym {
			case 'a':
				put(1)
			case 'x', 256, 257, 258:
				put(3)
			default:
				put(0)
			}
		}
		put(1)
		put(1)
		for i := 0; i < 5; i++ {
			w.Code(0, 1) // "aaaaa"
		}
		w.Align()
		c := w.Buf
		for _, rs := range []int64{1000, 1 << 50} {
			ch := xchunk{Comp: c, CSize: int64(len(c)), RSize: rs}
			add("xflate", "chunk-stops-inside-open-block", assemble([]xchunk{ch}, idxOpts{}, "XF\x00", meta.FinalStream))
		}
		add("flate", "stops-inside-open-block", c)
	}
	{ // a record with a huge raw size over a tiny chunk
		c := deflateChunk([]byte("x"), 6)
		ch := xchunk{Comp: c, CSize: int64(len(c)), RSize: 1 << 50}
		add("xflate", "huge-rawsize", assemble([]xchunk{ch}, idxOpts{}, "XF\x00", meta.FinalStream))
	}
	// records that declare more (or less) raw data than their chunk inflates to, for empty chunks
	// and chunks with data, at every position among honest chunks (a Reader that trusts the record
	// keeps coming back to the same chunk)
	for it := 0; it < 24; it++ {
		var cs []xchunk
		n := 1 + rng.Intn(4)
		liar := rng.Intn(n)
		for k := 0; k < n; k++ {
			d := vhlib.RandBytes(rng, []int{0, 0, 1, 30}[rng.Intn(4)])
			if k == liar && it%2 == 0 {
				d = nil
			}
			c := deflateChunk(d, []int{0, 6}[rng.Intn(2)])
			ch := xchunk{Comp: c, CSize: int64(len(c)), RSize: int64(len(d))}
			if k == liar {
				ch.RSize += []int64{1, 2, 40, 1 << 20, 1 << 50, -1}[it%6]
				if ch.RSize < 0 {
					ch.RSize = 1
				}
			}
			cs = append(cs, ch)
		}
		add("xflate", "rawsize-disagrees-with-chunk", assemble(cs, idxOpts{}, "XF\x00", meta.FinalStream))
	}
	// ---- brotli
	add("brotli", "wbits24-empty", []byte{0x1f, 0x03}[:2])
	add("brotli", "mlen-16M-tiny-input", vhlib.UnHex("020000004458e017c0ffff3f"))
	add("brotli", "zero-distance-via-short-code", vhlib.UnHex("e20200004458801204"))
	for i := 0; i < 40; i++ {
		d := vhlib.RandBytes(rng, 30)
		d[0] = byte([]int{0x0f, 0x1f, 0x11, 0x01}[rng.Intn(4)]) // large windows
		add("brotli", "header-fuzz", d)
	}
	{ // big MSKIPLEN with no data
		w := gen.BitW{}
		w.Bits(0, 1) // WBITS 16
		w.Bits(0, 1) // ISLAST 0
		w.Bits(3, 2) // MNIBBLES 0
		w.Bits(0, 1) // reserved
		w.Bits(3, 2) // MSKIPBYTES 3
		w.Bits(0xffffff, 24)
		w.Align()
		add("brotli", "huge-skip", w.Buf)
	}
	{ // very long chains of the cheapest units of each format (stack depth, quadratic work)
		nch := 1 << 21
		if quick {
			nch = 1 << 20
		}
		chain := append([]byte{0x0c}, bytes.Repeat([]byte{0x06}, nch)...) // empty metadata meta-blocks
		add("brotli", "metadata-chain", append(chain, 0x03))
		add("flate", "empty-stored-chain", append(bytes.Repeat([]byte{0, 0, 0, 0xff, 0xff}, nch/4), 1, 0, 0, 0xff, 0xff))
		var fx gen.BitW // empty fixed-Huffman blocks: 3 header bits + 7-bit end-of-block
		for i := 0; i < nch/2; i++ {
			fx.Bits(2, 3)
			fx.Bits(0, 7)
		}
		fx.Bits(3, 3)
		fx.Bits(0, 7)
		fx.Align()
		add("flate", "empty-fixed-chain", fx.Buf)
		add("bzip2", "empty-stream-chain", bytes.Repeat(ref.BZCompress(nil, 9), nch/16))
		add("meta", "empty-block-chain", bytes.Repeat(metaBlock(nil, meta.FinalNil), nch/32))
	}
	zeros := make([]byte, 200000)
	add("brotli", "bomb-zeros", ref.BrCompress([]ref.BrOp{{Data: zeros, Op: 2}}, 9, 22, 0, 0, -1, -1))
	for i := 0; i < 20; i++ {
		add("brotli", "crafted-bad", brcraft.Stream(rng, 0.05, ref.LibBrotliDict()))
	}
	// ---- bzip2
	{
		// nSelectors = 32767 in a tiny stream
		w := gen.BitW{MSB: true}
		w.Bits(0x425a6839, 32)
		w.Bits(0x314159265359, 48)
		w.Bits(0, 32)
		w.Bits(0, 1)
		w.Bits(0, 24)
		w.Bits(0x8000, 16)
		w.Bits(0xc000, 16) // symbols 0,1
		w.Bits(6, 3)
		w.Bits(32767, 15)
		w.Align()
		add("bzip2", "max-selectors-truncated", w.Buf)
	}
	for i := 0; i < 25; i++ {
		c := gen.BzSynth(rng)
		add("bzip2", c.Kind, c.Data)
	}
	for _, t := range gen.BzTargeted(rng) {
		if strings.Contains(t.Kind, "run-") {
			add("bzip2", t.Kind, t.Data)
		}
	}
	add("bzip2", "bomb-zeros", ref.BZCompress(make([]byte, 3000000), 9))
	// ---- flate
	add("flate", "bomb-zeros", gen.StdDeflate(rng, make([]byte, 3000000), 9))
	for i := 0; i < 60; i++ {
		add("flate", "synth-illegal", gen.SynthFlate(rng, 1+rng.Intn(12)).Data)
	}
	// ---- meta
	for i := 0; i < 40; i++ {
		d := metaBlock(vhlib.RandBytes(rng, rng.Intn(30)), meta.FinalMeta)
		add("meta", "mutated", gen.Mutate(rng, d))
	}
	// ---- all codecs: random strings and mutations of valid streams
	n := 250
	if !quick {
		n = 6000
	}
	for _, c := range append(codecs(), codec{Name: "xflate"}) {
		for i := 0; i < n; i++ {
			var d []byte
			if c.Name == "xflate" {
				s, _, _ := makeXFStream(randXWConfig(rng), randXWOps(rng, 2+rng.Intn(8), 60))
				d = s
			} else {
				d = c.Valid(rng, 3000).Data
			}
			switch rng.Intn(4) {
			case 0:
				d = vhlib.RandBytes(rng, rng.Intn(64))
			case 1:
			default:
				d = gen.Mutate(rng, d)
				if rng.Intn(2) == 0 {
					d = gen.Mutate(rng, d)
				}
			}
			add(c.Name, "fuzz", d)
		}
	}
	return in
}

func runC08(r *vhlib.Run) {
	inputs := c08Hostile(r.Rng, r.Quick())
	// one child per codec, memory-limited, with a wall-clock budget proportional to the work allowed
	byCodec := map[string][]int{}
	for i, in := range inputs {
		byCodec[in.Codec] = append(byCodec[in.Codec], i)
	}
	self, _ := os.Executable()
	for codecName, idxs := range byCodec {
		pos := 0
		hangs := 0
		for pos < len(idxs) && hangs < 2 { // two inputs that hang are reported; the rest of that codec's list is skipped
			var stdin bytes.Buffer
			for _, i := range idxs[pos:] {
				fmt.Fprintf(&stdin, "%d %s %s\n", i, codecName, vhlib.Hex(inputs[i].Data))
			}
			cmd := exec.Command("sh", "-c", "ulimit -v 3000000; exec "+self+" C08child -out "+r.Dir+"/child")
			cmd.Stdin = &stdin
			var out bytes.Buffer
			cmd.Stdout = &out
			var errb bytes.Buffer
			cmd.Stderr = &errb
			done := make(chan error, 1)
			cmd.Start()
			go func() { done <- cmd.Wait() }()
			var werr error
			timedOut := false
			select {
			case werr = <-done:
			case <-time.After(90 * time.Second):
				cmd.Process.Kill()
				timedOut = true
				<-done
			}
			seen := 0
			for _, line := range strings.Split(out.String(), "\n") {
				if line == "" {
					continue
				}
				var res c08Result
				if json.Unmarshal([]byte(line), &res) != nil {
					continue
				}
				seen++
				in := inputs[res.ID]
				replay := map[string]interface{}{"codec": in.Codec, "kind": in.Kind, "input_len": len(in.Data)}
				if len(in.Data) < 5000 {
					replay["input"] = vhlib.Hex(in.Data)
				}
				r.Eval(in.Codec+":"+in.Kind, true, in.Data, []byte(in.Codec))
				work := int64(len(in.Data)) + res.Out
				if res.Panic != "" {
					r.Violate("panic", fmt.Sprintf("%s: %s", in.Codec, res.Panic), replay)
				}
				// 3 ms per input or delivered byte is the calibrated allowance (property text); plus a constant
				if res.Millis > 3*work+10000 {
					r.Violate("superlinear-time", fmt.Sprintf("%s %s: %d ms for %d input + %d output bytes", in.Codec, in.Kind, res.Millis, len(in.Data), res.Out), replay)
				}
				// DEFLATE cannot expand more than 1032:1 (258 bytes for a 1-bit length and a 1-bit
				// distance code): a flate or xflate Reader that delivers more is not terminating
				if (in.Codec == "flate" || in.Codec == "xflate") && res.Out > 1032*int64(len(in.Data))+65536 {
					r.Violate("output-exceeds-format-bound", fmt.Sprintf("%s %s: %d output bytes from %d input bytes", in.Codec, in.Kind, res.Out, len(in.Data)), replay)
				}
				// memory: format constant (window/block tables) plus a small multiple of input+output
				limit := uint64(96<<20) + 64*uint64(work)
				if res.Alloc > limit {
					r.Violate("memory-by-declared-size", fmt.Sprintf("%s %s: allocated %d bytes for %d input + %d output bytes", in.Codec, in.Kind, res.Alloc, len(in.Data), res.Out), replay)
				}
				if len(r.Samples) < 8 && in.Kind != "fuzz" {
					r.Sample(map[string]interface{}{"codec": in.Codec, "kind": in.Kind, "input_len": len(in.Data), "class": res.Class, "out": res.Out, "alloc": res.Alloc, "ms": res.Millis})
				}
			}
			if seen < len(idxs)-pos {
				// the child died or hung on input idxs[pos+seen]
				bad := idxs[pos+seen]
				in := inputs[bad]
				replay := map[string]interface{}{"codec": in.Codec, "kind": in.Kind, "input": vhlib.Hex(in.Data)}
				what := "child-killed"
				if timedOut {
					what = "hang-or-too-slow"
					hangs++
				}
				r.Eval(in.Codec+":"+in.Kind, true, in.Data)
				r.Violate(what, fmt.Sprintf("%s %s (%d bytes): child exit=%v stderr=%.300s", in.Codec, in.Kind, len(in.Data), werr, errb.String()), replay)
				pos += seen + 1
				continue
			}
			pos = len(idxs)
		}
	}
}
