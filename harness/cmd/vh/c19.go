package main

import (
	"bytes"
	"crypto/sha256"
	"fmt"
	"io/ioutil"
	"sync"

	"github.com/dsnet/compress/brotli"
	"github.com/dsnet/compress/bzip2"
	"github.com/dsnet/compress/flate"
	cinternal "github.com/dsnet/compress/internal"
	"github.com/dsnet/compress/xflate"
	"github.com/dsnet/compress/xflate/internal/meta"
	"github.com/dsnet/compress/xflate/verifharness/vhlib"
)

func init() { props["C19"] = runC19 }

// sharedDigest hashes every package-level table the Readers and Writers share.
func sharedDigest() [32]byte {
	h := sha256.New()
	put := func(v []uint32) {
		b := make([]byte, 4*len(v))
		for i, x := range v {
			b[4*i], b[4*i+1], b[4*i+2], b[4*i+3] = byte(x), byte(x>>8), byte(x>>16), byte(x>>24)
		}
		h.Write(b)
	}
	put(flate.VerifShared())
	put(bzip2.VerifShared())
	put(meta.VerifShared())
	put(brotli.VerifShared())
	h.Write(cinternal.ReverseLUT[:])
	h.Write(cinternal.IdentityLUT[:])
	var d [32]byte
	copy(d[:], h.Sum(nil))
	return d
}

type job struct {
	Name string
	Run  func() string // returns a digest of everything observable
}

func c19Jobs(r *vhlib.Run) []job {
	rng := r.Rng
	var jobs []job
	sum := func(parts ...[]byte) string {
		h := sha256.New()
		for _, p := range parts {
			h.Write(p)
			h.Write([]byte{0xfe})
		}
		return fmt.Sprintf("%x", h.Sum(nil)[:8])
	}
	for _, c := range codecs() {
		c := c
		for k := 0; k < 3; k++ {
			s := c.Valid(rng, 20000)
			bad := append([]byte{}, s.Data...)
			if len(bad) > 3 {
				bad[len(bad)/2] ^= 0x10
			}
			jobs = append(jobs, job{c.Name + ".Reader", func() string {
				z := c.New(bytes.NewReader(s.Data))
				out, err := ioutil.ReadAll(z)
				z.Reset(bytes.NewReader(bad))
				out2, err2 := ioutil.ReadAll(z)
				z.Reset(bytes.NewReader(s.Data))
				out3, _ := ioutil.ReadAll(z)
				return sum(out, []byte(vhlib.ErrClass(err)), out2, []byte(vhlib.ErrClass(err2)), out3)
			}})
		}
	}
	for _, wc := range wcodecs() {
		wc := wc
		for k := 0; k < 3; k++ {
			data := vhlib.RandBytes(rng, 5000+rng.Intn(20000))
			jobs = append(jobs, job{wc.Name + ".Writer", func() string {
				var bb bytes.Buffer
				w := wc.New(&bb)
				w.Write(data[:len(data)/2])
				w.Flush(1)
				w.Write(data[len(data)/2:])
				err := w.Close()
				first := append([]byte{}, bb.Bytes()...)
				bb.Reset()
				w.Reset(&bb)
				w.Write(data)
				w.Close()
				return sum(first, []byte(vhlib.ErrClass(err)), bb.Bytes())
			}})
		}
	}
	for k := 0; k < 3; k++ {
		sink, _, _ := makeXFStream(xwCfg{Level: 6, ChunkSize: 64, Index: 4}, []xwOp{{Kind: 'w', Data: vhlib.RandBytes(rng, 3000)}, {Kind: 'c'}})
		jobs = append(jobs, job{"xflate.Reader", func() string {
			xr, err := xflate.NewReader(bytes.NewReader(sink), nil)
			if err != nil {
				return "open-failed"
			}
			out, _ := ioutil.ReadAll(xr)
			xr.Seek(100, 0)
			b := make([]byte, 50)
			xr.Read(b)
			xr.Reset(bytes.NewReader(sink))
			out2, _ := ioutil.ReadAll(xr)
			return sum(out, b, out2)
		}})
	}
	return jobs
}

func runC19(r *vhlib.Run) {
	jobs := c19Jobs(r)
	before := sharedDigest()
	// sequential reference results
	want := make([]string, len(jobs))
	for i, j := range jobs {
		want[i] = j.Run()
		if d := sharedDigest(); d != before {
			r.Violate("shared-table-modified", fmt.Sprintf("package-level tables changed while running %s alone", j.Name), map[string]interface{}{"job": j.Name})
			before = d
		}
	}
	rounds := 6
	if !r.Quick() {
		rounds = 60
	}
	for round := 0; round < rounds; round++ {
		got := make([]string, len(jobs))
		var wg sync.WaitGroup
		start := make(chan struct{})
		order := r.Rng.Perm(len(jobs))
		for _, i := range order {
			i := i
			wg.Add(1)
			go func() {
				defer wg.Done()
				<-start
				defer func() {
					if p := recover(); p != nil {
						got[i] = fmt.Sprint("panic: ", p)
					}
				}()
				got[i] = jobs[i].Run()
			}()
		}
		close(start)
		wg.Wait()
		for i := range jobs {
			r.Eval("concurrent:"+jobs[i].Name, true, []byte(fmt.Sprint(round, i)))
			if got[i] != want[i] {
				r.Violate("result-differs-under-concurrency", fmt.Sprintf("%s: alone %s, concurrently %s", jobs[i].Name, want[i], got[i]),
					map[string]interface{}{"job": jobs[i].Name, "round": round, "jobs": len(jobs)})
			}
		}
		if d := sharedDigest(); d != before {
			r.Violate("shared-table-modified", "package-level tables changed during a concurrent round", map[string]interface{}{"round": round})
			before = d
		}
	}
	r.Notes["race_detector"] = raceEnabled
	r.Notes["goroutines_per_round"] = len(jobs)
	r.Sample(map[string]interface{}{"jobs": len(jobs), "types": "flate/brotli/bzip2/meta/xflate Readers (read, Reset to corrupt stream, Reset back), bzip2/xflate/meta Writers (write, flush, close, Reset, rewrite)"})
}
