package main

import (
	"bufio"
	"bytes"
	stdflate "compress/flate"
	"crypto/sha256"
	"fmt"
	"io"
	"io/ioutil"
	"runtime"
	"strings"
	"sync"
	"time"

	"github.com/dsnet/compress/brotli"
	"github.com/dsnet/compress/bzip2"
	"github.com/dsnet/compress/flate"
	cinternal "github.com/dsnet/compress/internal"
	"github.com/dsnet/compress/xflate"
	"github.com/dsnet/compress/xflate/internal/meta"
	"github.com/dsnet/compress/xflate/verifharness/gen"
	"github.com/dsnet/compress/xflate/verifharness/ref"
	"github.com/dsnet/compress/xflate/verifharness/vhlib"
)

func init() { props["C19"] = runC19 }

// sharedDigest hashes every package-level table the Readers and Writers share.
func sharedDigest() [32]byte {
	h := sha256.New()
	put := func(v []uint32) {
		b := make([]byte, 4*len(v))
		for i, x := range v {
			b[4*i], b[4*i+1], b[4*i+2], b[4*i+3] = byte(x), byte(x>>8), byte(x>>16), byte(x>>24)
		}
		h.Write(b)
	}
	put(flate.VerifShared())
	put(bzip2.VerifShared())
	put(meta.VerifShared())
	put(brotli.VerifShared())
	h.Write(cinternal.ReverseLUT[:])
	h.Write(cinternal.IdentityLUT[:])
	var d [32]byte
	copy(d[:], h.Sum(nil))
	return d
}

// c19Src: the source kinds the Readers treat differently (Peek/Discard, ReadByte only, Read only
// behind the Reader's own bufio, a caller's bufio).
func c19Src(k int, d []byte) io.Reader {
	switch k % 4 {
	case 1:
		return &vhlib.ByteOnly{B: d}
	case 2:
		return &vhlib.ReadOnly{B: d}
	case 3:
		return bufio.NewReaderSize(&vhlib.ReadOnly{B: d, Cap: 7}, 16)
	}
	return bytes.NewReader(d)
}

func c19SrcName(k int) string {
	return []string{"bytes.Reader", "ByteReader", "ReadOnly", "bufio16"}[k%4]
}

// gate parks the goroutine that makes the at-th call through it until released.
type gate struct {
	at, calls int
	entered   chan struct{}
	release   chan struct{}
}

func newGate(at int) *gate {
	return &gate{at: at, entered: make(chan struct{}), release: make(chan struct{})}
}

func (g *gate) hit() {
	g.calls++
	if g.calls == g.at {
		close(g.entered)
		<-g.release
	}
}

type gateSink struct {
	g *gate
	w io.Writer
}

func (s gateSink) Write(p []byte) (int, error) { s.g.hit(); return s.w.Write(p) }

type gateSrc struct {
	g *gate
	r io.Reader
}

func (s gateSrc) Read(p []byte) (int, error) { s.g.hit(); return s.r.Read(p) }

type gateSeekSrc struct {
	g *gate
	r io.ReadSeeker
}

func (s gateSeekSrc) Read(p []byte) (int, error)         { s.g.hit(); return s.r.Read(p) }
func (s gateSeekSrc) Seek(o int64, w int) (int64, error) { return s.r.Seek(o, w) }

type job struct {
	Name string
	Run  func() string // returns a digest of everything observable
}

var c19Special = map[string][][]byte{}

func c19Jobs(r *vhlib.Run) []job {
	rng := r.Rng
	var jobs []job
	sum := func(parts ...[]byte) string {
		h := sha256.New()
		for _, p := range parts {
			h.Write(p)
			h.Write([]byte{0xfe})
		}
		return fmt.Sprintf("%x", h.Sum(nil)[:8])
	}
	for _, c := range codecs() {
		c := c
		for k := 0; k < 4; k++ {
			s := c.Valid(rng, 20000)
			bad := append([]byte{}, s.Data...)
			if len(bad) > 3 {
				bad[len(bad)/2] ^= 0x10
			}
			k := k
			jobs = append(jobs, job{c.Name + ".Reader/" + c19SrcName(k), func() string {
				z := c.New(c19Src(k, s.Data))
				out, err := readCap(z)
				z.Reset(c19Src(k+1, bad))
				out2, err2 := readCap(z)
				z.Reset(c19Src(k+2, s.Data))
				out3, _ := readCap(z)
				return sum(out, []byte(vhlib.ErrClass(err)), out2, []byte(vhlib.ErrClass(err2)), out3)
			}})
		}
	}
	// workloads that exercise rarely used paths of the decoders
	special := c19Special
	for k := range special {
		delete(special, k)
	}
	for per := 1; per <= 4; per++ {
		// flate: periodic data flushed every few bytes: hundreds of dynamic blocks
		// with single-code distance trees, a different code per period
		var bb bytes.Buffer
		zw, _ := stdflate.NewWriter(&bb, 9)
		unit := vhlib.RandBytes(rng, per)
		for i := 0; i < 300; i++ {
			for k := 0; k < 40; k++ {
				zw.Write(unit)
			}
			zw.Flush()
		}
		zw.Close()
		special["flate"] = append(special["flate"], bb.Bytes())
	}
	for k := 0; k < 4; k++ {
		// brotli: dictionary-rich text, long enough for words to straddle the
		// window growth boundaries (4 KiB, 16 KiB, 64 KiB)
		txt := []byte(brText(rng, 80000+rng.Intn(20000)))
		special["brotli"] = append(special["brotli"], ref.BrCompress([]ref.BrOp{{Data: txt, Op: 2}}, 11, 22, 1, 0, -1, -1))
	}
	for k := 0; k < 3; k++ {
		special["bzip2"] = append(special["bzip2"], ref.BZCompress(vhlib.RandBytes(rng, 150000), 1+k))
	}
	for _, c := range codecs() {
		c := c
		for _, d := range special[c.Name] {
			d := d
			jobs = append(jobs, job{c.Name + ".Reader(special)", func() string {
				z := c.New(bytes.NewReader(d))
				out, err := readCap(z)
				return sum(out, []byte(vhlib.ErrClass(err)))
			}})
		}
	}
	// flate: batches of bit-level synthesized streams: every batch parses hundreds of
	// dynamic block headers, a third of them with single-code (degenerate) trees
	for k := 0; k < 4; k++ {
		var batch [][]byte
		for i := 0; i < 300; i++ {
			batch = append(batch, gen.SynthFlate(rng, 0).Data)
		}
		jobs = append(jobs, job{"flate.Reader(synth-batch)", func() string {
			h := sha256.New()
			for _, d := range batch {
				z, _ := flate.NewReader(bytes.NewReader(d), nil)
				out, err := readCap(z)
				h.Write(out)
				h.Write([]byte(vhlib.ErrClass(err)))
			}
			return fmt.Sprintf("%x", h.Sum(nil))
		}})
	}
	for _, wc := range wcodecs() {
		wc := wc
		for k := 0; k < 3; k++ {
			data := vhlib.RandBytes(rng, 5000+rng.Intn(20000))
			jobs = append(jobs, job{wc.Name + ".Writer", func() string {
				var bb bytes.Buffer
				w := wc.New(&bb)
				w.Write(data[:len(data)/2])
				w.Flush(1)
				w.Write(data[len(data)/2:])
				err := w.Close()
				first := append([]byte{}, bb.Bytes()...)
				bb.Reset()
				w.Reset(&bb)
				w.Write(data)
				w.Close()
				return sum(first, []byte(vhlib.ErrClass(err)), bb.Bytes())
			}})
		}
	}
	// archives of the same SHAPE (stored chunks of equal sizes, an index flushed in the middle): their last
	// index block and footer are byte for byte the same although the contents differ - whatever a Reader
	// remembers about "the archive" beyond its own object must not be keyed by that
	{
		// searched for: how long an index block is depends on its content, so candidates with a random cut of
		// the first segment are grouped by (length, last 64 bytes) until two groups hold two archives each
		type cand struct{ sink, plain []byte }
		groups := map[string][]cand{}
		found := 0
		tailData := vhlib.RandBytes(rng, 500) // the same last segment in every candidate
		for tries := 0; tries < 600 && found < 2; tries++ {
			d := append(vhlib.RandBytes(rng, 400), tailData...)
			cut := 40 + rng.Intn(320)
			sink, plain, ok := makeXFStream(xwCfg{Level: 0, ChunkSize: 1000, Index: -1}, []xwOp{{Kind: 'w', Data: d[:cut]}, {Kind: 'f', Mode: 1}, {Kind: 'w', Data: d[cut:400]}, {Kind: 'f', Mode: 1},
				{Kind: 'f', Mode: 2}, {Kind: 'w', Data: d[400:]}, {Kind: 'c'}})
			if !ok || len(sink) < 64 {
				continue
			}
			key := fmt.Sprint(len(sink), sink[len(sink)-64:])
			groups[key] = append(groups[key], cand{sink, append([]byte{}, plain...)})
			if len(groups[key]) == 2 {
				found++
				for _, c := range groups[key] {
					c := c
					jobs = append(jobs, job{"xflate.Reader(same-tail)", func() string {
						xr, err := xflate.NewReader(bytes.NewReader(c.sink), nil)
						if err != nil {
							return "WRONG CONTENT open failed: " + err.Error()
						}
						out, rerr := readCap(xr)
						if !bytes.Equal(out, c.plain) {
							return fmt.Sprintf("WRONG CONTENT %d/%d %v", len(out), len(c.plain), rerr)
						}
						return sum(out, []byte(vhlib.ErrClass(rerr)))
					}})
				}
			}
		}
	}
	for k := 0; k < 3; k++ {
		sink, _, _ := makeXFStream(xwCfg{Level: 6, ChunkSize: 64, Index: 4}, []xwOp{{Kind: 'w', Data: vhlib.RandBytes(rng, 3000)}, {Kind: 'c'}})
		jobs = append(jobs, job{"xflate.Reader", func() string {
			xr, err := xflate.NewReader(bytes.NewReader(sink), nil)
			if err != nil {
				return "open-failed"
			}
			out, _ := readCap(xr)
			xr.Seek(100, 0)
			b := make([]byte, 50)
			xr.Read(b)
			xr.Reset(bytes.NewReader(sink))
			out2, _ := readCap(xr)
			return sum(out, b, out2)
		}})
	}
	return jobs
}

func runC19(r *vhlib.Run) {
	jobs := c19Jobs(r)
	before := sharedDigest()
	// sequential reference results
	want := make([]string, len(jobs))
	for i, j := range jobs {
		want[i] = j.Run()
		if strings.HasPrefix(want[i], "WRONG CONTENT") {
			// a job that knows its own expected output: instances used one after the other already interfere
			r.Violate("result-differs-when-interleaved", fmt.Sprintf("%s, run after other instances of its type in the same process: %s", j.Name, want[i]), map[string]interface{}{"job": j.Name})
		}
		if d := sharedDigest(); d != before {
			r.Violate("shared-table-modified", fmt.Sprintf("package-level tables changed while running %s alone", j.Name), map[string]interface{}{"job": j.Name})
			before = d
		}
	}
	rounds := 6
	if !r.Quick() {
		rounds = 60
	}
	for round := 0; round < rounds; round++ {
		got := make([]string, len(jobs))
		var wg sync.WaitGroup
		start := make(chan struct{})
		order := r.Rng.Perm(len(jobs))
		for _, i := range order {
			i := i
			wg.Add(1)
			go func() {
				defer wg.Done()
				<-start
				defer func() {
					if p := recover(); p != nil {
						got[i] = fmt.Sprint("panic: ", p)
					}
				}()
				got[i] = jobs[i].Run()
			}()
		}
		close(start)
		wg.Wait()
		for i := range jobs {
			r.Eval("concurrent:"+jobs[i].Name, true, []byte(fmt.Sprint(round, i)))
			if got[i] != want[i] {
				r.Violate("result-differs-under-concurrency", fmt.Sprintf("%s: alone %s, concurrently %s", jobs[i].Name, want[i], got[i]),
					map[string]interface{}{"job": jobs[i].Name, "round": round, "jobs": len(jobs)})
			}
		}
		if d := sharedDigest(); d != before {
			r.Violate("shared-table-modified", "package-level tables changed during a concurrent round", map[string]interface{}{"round": round})
			before = d
		}
	}
	// deterministic interleaving in ONE goroutine: two Readers of the same type take
	// turns calling Read with small buffers; each must deliver what it delivers alone
	for _, c := range codecs() {
		var streams [][]byte
		streams = append(streams, c19Special[c.Name]...)
		for k := 0; k < 3; k++ {
			streams = append(streams, c.Valid(r.Rng, 20000).Data)
		}
		alone := make([][]byte, len(streams))
		for i, d := range streams {
			alone[i], _ = readCap(c.New(bytes.NewReader(d)))
		}
		for i := range streams {
			for j := range streams {
				if i == j {
					continue
				}
				a, b := c.New(bytes.NewReader(streams[i])), c.New(bytes.NewReader(streams[j]))
				var oa, ob []byte
				bufA, bufB := make([]byte, 1+r.Rng.Intn(700)), make([]byte, 1+r.Rng.Intn(700))
				var ea, eb error
				for (ea == nil || eb == nil) && len(oa) < 64<<20 && len(ob) < 64<<20 {
					if ea == nil {
						var n int
						n, ea = a.Read(bufA)
						oa = append(oa, bufA[:n]...)
					}
					if eb == nil {
						var n int
						n, eb = b.Read(bufB)
						ob = append(ob, bufB[:n]...)
					}
				}
				r.Eval("interleaved:"+c.Name, true, []byte(fmt.Sprint(c.Name, i, j)))
				if !bytes.Equal(oa, alone[i]) || !bytes.Equal(ob, alone[j]) {
					r.Violate("result-differs-when-interleaved", fmt.Sprintf("%s: two Readers taking turns in one goroutine: stream %d gives %d/%d bytes, stream %d gives %d/%d bytes (alone)",
						c.Name, i, len(oa), len(alone[i]), j, len(ob), len(alone[j])), map[string]interface{}{"codec": c.Name, "stream_a": vhlib.Hex(streams[i][:min(len(streams[i]), 200)]), "stream_b": vhlib.Hex(streams[j][:min(len(streams[j]), 200)])})
				}
			}
		}
	}
	// instances of DIFFERENT types and over different kinds of source take turns in one
	// goroutine, and further instances are constructed and Reset in between: a per-instance mode
	// kept in a package-level variable shows here
	{
		type inst struct {
			name  string
			z     io.Reader
			want  []byte
			got   []byte
			err   error
			buf   []byte
			fresh func() io.Reader
		}
		for round := 0; round < 8; round++ {
			var set []*inst
			cs := codecs()
			for n := 2 + r.Rng.Intn(3); n > 0; n-- {
				c := cs[r.Rng.Intn(len(cs))]
				d := c.Valid(r.Rng, 30000).Data
				if n%2 == 0 && len(c19Special[c.Name]) > 0 {
					d = c19Special[c.Name][r.Rng.Intn(len(c19Special[c.Name]))]
				}
				k := r.Rng.Intn(4)
				if round%2 == 0 {
					k = 1 // ByteReader-only sources for everybody
				}
				want, _ := readCap(c.New(c19Src(k, d)))
				set = append(set, &inst{name: c.Name + "/" + c19SrcName(k), z: c.New(c19Src(k, d)), want: want, buf: make([]byte, 1+r.Rng.Intn(3000)),
					fresh: func() io.Reader { return c.New(c19Src(k, d)) }})
			}
			for live := len(set); live > 0; {
				live = 0
				for _, it := range set {
					if it.err != nil || len(it.got) > 64<<20 {
						continue
					}
					live++
					var n int
					n, it.err = it.z.Read(it.buf)
					it.got = append(it.got, it.buf[:n]...)
					if r.Rng.Intn(4) == 0 {
						// construction (and a first Read) of yet another instance
						o := set[r.Rng.Intn(len(set))].fresh()
						if r.Rng.Intn(2) == 0 {
							o.Read(make([]byte, 1))
						}
					}
				}
			}
			for _, it := range set {
				r.Eval("interleaved-mixed:"+it.name, true, []byte(fmt.Sprint(round, it.name)))
				if !bytes.Equal(it.got, it.want) {
					var names []string
					for _, o := range set {
						names = append(names, o.name)
					}
					r.Violate("result-differs-when-interleaved", fmt.Sprintf("%s taking turns with %v in one goroutine: %d bytes then %v, alone %d bytes", it.name, names, len(it.got), it.err, len(it.want)),
						map[string]interface{}{"instances": names, "round": round})
					break
				}
			}
		}
	}
	// an instance whose sink or source does not return (a stalled connection) must not keep
	// OTHER instances from making progress: locks around state shared by the package
	c19Stalled(r)
	// an instance that was closed and is reused through Reset must not share anything with
	// instances created in between (pools that keep a reference after release):
	//   a := New(s1); read; a.Close(); b := New(s2); a.Reset(s3); a and b take turns
	turn := func(a, b io.Reader, r *vhlib.Run) (oa, ob []byte) {
		bufA, bufB := make([]byte, 1+r.Rng.Intn(700)), make([]byte, 1+r.Rng.Intn(700))
		var ea, eb error
		for (ea == nil || eb == nil) && len(oa) < 64<<20 && len(ob) < 64<<20 {
			if ea == nil {
				var n int
				n, ea = a.Read(bufA)
				oa = append(oa, bufA[:n]...)
			}
			if eb == nil {
				var n int
				n, eb = b.Read(bufB)
				ob = append(ob, bufB[:n]...)
			}
		}
		return
	}
	// text-like streams: every block carries its own code tables, and the blocks are long
	// enough for a Reader to return in the middle of one
	textStream := func(name string, n int) []byte {
		p := gen.Text(r.Rng, n)
		switch name {
		case "flate":
			return gen.StdDeflate(r.Rng, p, []int{1, 6, 9}[r.Rng.Intn(3)])
		case "brotli":
			return gen.BrotliEnc(r.Rng, p)
		case "bzip2":
			return ref.BZCompress(p, 1+r.Rng.Intn(9))
		}
		return nil
	}
	for _, c := range codecs() {
		for k := 0; k < 16; k++ {
			s1, s2, s3 := c.Valid(r.Rng, 3000).Data, c.Valid(r.Rng, 6000).Data, c.Valid(r.Rng, 6000).Data
			if k >= 6 {
				if textStream(c.Name, 10) == nil {
					break
				}
				s1, s2, s3 = textStream(c.Name, 2000+r.Rng.Intn(30000)), textStream(c.Name, 20000+r.Rng.Intn(60000)), textStream(c.Name, 20000+r.Rng.Intn(60000))
			}
			want2, _ := ioutil.ReadAll(c.New(bytes.NewReader(s2)))
			want3, _ := ioutil.ReadAll(c.New(bytes.NewReader(s3)))
			a := c.New(bytes.NewReader(s1))
			if k%2 == 0 || k%5 == 1 {
				io.Copy(ioutil.Discard, a)
			}
			a.Close()
			b := c.New(bytes.NewReader(s2))
			var pre []byte
			if k%3 == 2 {
				// the new Reader is already inside its first block when the old one starts again
				pre = make([]byte, 1+r.Rng.Intn(300))
				n, _ := io.ReadFull(b, pre)
				pre = pre[:n]
			}
			a.Reset(bytes.NewReader(s3))
			var oa, ob []byte
			if k%4 == 3 {
				oa, _ = readCap(a)
				ob, _ = readCap(b)
			} else {
				oa, ob = turn(a, b, r)
			}
			ob = append(pre, ob...)
			r.Eval("closed-then-reset-vs-new:"+c.Name, true, []byte(fmt.Sprint(c.Name, k)), s2, s3)
			if !bytes.Equal(oa, want3) || !bytes.Equal(ob, want2) {
				r.Violate("result-differs-when-interleaved", fmt.Sprintf("%s: a closed Reader reused through Reset and a Reader created in between: %d/%d and %d/%d bytes", c.Name, len(oa), len(want3), len(ob), len(want2)),
					map[string]interface{}{"codec": c.Name, "history": "a=New(s1); a.Close(); b=New(s2); a.Reset(s3); alternate Reads", "s2": vhlib.Hex(s2[:min(len(s2), 200)]), "s3": vhlib.Hex(s3[:min(len(s3), 200)])})
			}
		}
	}
	for k := 0; k < 6; k++ {
		mk := func() ([]byte, []byte) {
			s, p, _ := makeXFStream(randXWConfig(r.Rng), randXWOps(r.Rng, 3+r.Rng.Intn(10), 300))
			return s, p
		}
		s1, _ := mk()
		s2, p2 := mk()
		s3, p3 := mk()
		a, err := xflate.NewReader(bytes.NewReader(s1), nil)
		if err != nil {
			continue
		}
		if k%2 == 0 {
			io.Copy(ioutil.Discard, a)
		}
		a.Close()
		b, err := xflate.NewReader(bytes.NewReader(s2), nil)
		if err != nil || a.Reset(bytes.NewReader(s3)) != nil {
			continue
		}
		oa, ob := turn(a, b, r)
		r.Eval("closed-then-reset-vs-new:xflate", true, []byte(fmt.Sprint(k)), s2, s3)
		if !bytes.Equal(oa, p3) || !bytes.Equal(ob, p2) {
			r.Violate("result-differs-when-interleaved", fmt.Sprintf("xflate: a closed Reader reused through Reset and a Reader created in between: %d/%d and %d/%d bytes", len(oa), len(p3), len(ob), len(p2)),
				map[string]interface{}{"codec": "xflate", "history": "a=New(s1); a.Close(); b=New(s2); a.Reset(s3); alternate Reads", "s2": vhlib.Hex(s2), "s3": vhlib.Hex(s3)})
		}
	}
	r.Notes["race_detector"] = raceEnabled
	r.Notes["goroutines_per_round"] = len(jobs)
	r.Sample(map[string]interface{}{"jobs": len(jobs), "types": "flate/brotli/bzip2/meta/xflate Readers (read, Reset to corrupt stream, Reset back), bzip2/xflate/meta Writers (write, flush, close, Reset, rewrite)"})
}

// readCap is ioutil.ReadAll with a ceiling: a decoder that has been corrupted by
// another instance may produce output without end.
func readCap(z io.Reader) ([]byte, error) {
	const ceil = 32 << 20
	var out []byte
	buf := make([]byte, 32<<10)
	for {
		n, err := z.Read(buf)
		out = append(out, buf[:n]...)
		if err == io.EOF {
			return out, nil
		}
		if err != nil {
			return out, err
		}
		if len(out) > ceil {
			return out, fmt.Errorf("output exceeds %d bytes", ceil)
		}
	}
}

// c19Stalled: one instance is parked inside a call to its own sink or source; meanwhile every
// other type of instance must still be able to run to completion.
func c19Stalled(r *vhlib.Run) {
	rng := r.Rng
	type stall struct {
		name  string
		calls func() int           // number of sink/source calls of the workload, run alone
		run   func(g *gate) string // the workload with the gate in place
	}
	var stalls []stall
	for _, wc := range wcodecs() {
		wc := wc
		data := vhlib.RandBytes(rng, 3000+rng.Intn(3000))
		work := func(w io.Writer) string {
			var keep bytes.Buffer
			z := wc.New(io.MultiWriter(w, &keep))
			z.Write(data[:len(data)/2])
			z.Flush(2)
			z.Write(data[len(data)/2:])
			err := z.Close()
			return fmt.Sprintf("%x %s", sha256.Sum256(keep.Bytes()), vhlib.ErrClass(err))
		}
		stalls = append(stalls, stall{wc.Name + ".Writer",
			func() int { g := newGate(-1); work(gateSink{g, ioutil.Discard}); return g.calls },
			func(g *gate) string { return work(gateSink{g, ioutil.Discard}) }})
	}
	for _, c := range codecs() {
		c := c
		d := c.Valid(rng, 20000).Data
		work := func(src io.Reader) string {
			out, err := readCap(c.New(src))
			return fmt.Sprintf("%x %s", sha256.Sum256(out), vhlib.ErrClass(err))
		}
		stalls = append(stalls, stall{c.Name + ".Reader",
			func() int { g := newGate(-1); work(gateSrc{g, &vhlib.ReadOnly{B: d, Cap: 512}}); return g.calls },
			func(g *gate) string { return work(gateSrc{g, &vhlib.ReadOnly{B: d, Cap: 512}}) }})
	}
	{
		sink, _, _ := makeXFStream(xwCfg{Level: 6, ChunkSize: 64, Index: 4}, []xwOp{{Kind: 'w', Data: vhlib.RandBytes(rng, 3000)}, {Kind: 'c'}})
		work := func(src io.ReadSeeker) string {
			xr, err := xflate.NewReader(src, nil)
			if err != nil {
				return "open-failed"
			}
			out, err := readCap(xr)
			return fmt.Sprintf("%x %s", sha256.Sum256(out), vhlib.ErrClass(err))
		}
		stalls = append(stalls, stall{"xflate.Reader",
			func() int { g := newGate(-1); work(gateSeekSrc{g, bytes.NewReader(sink)}); return g.calls },
			func(g *gate) string { return work(gateSeekSrc{g, bytes.NewReader(sink)}) }})
	}
	// what the others do meanwhile: one complete run of every type
	others := func() {
		for _, s := range stalls {
			s.run(newGate(-1))
		}
	}
	for _, s := range stalls {
		n := s.calls()
		want := s.run(newGate(-1))
		ats := []int{1, n, n - 1, n - 2, 1 + rng.Intn(n), (n + 1) / 2}
		if !r.Quick() {
			for k := 0; k < 12; k++ {
				ats = append(ats, 1+rng.Intn(n))
			}
		}
		for ai, at := range ats {
			if at < 1 || at > n {
				continue
			}
			g := newGate(at)
			res := make(chan string, 1)
			go func() { res <- s.run(g) }()
			select {
			case <-g.entered:
			case got := <-res:
				if got != want {
					r.Violate("result-differs-under-concurrency", s.name+": result differs from run to run", map[string]interface{}{"instance": s.name})
				}
				continue
			}
			// for the first, a random and the middle position also park a crowd of further instances of the same type at the same
			// call (more than there are processors): a package-wide pool of slots held across the call
			var crowd []*gate
			crowdDone := make(chan string, 64)
			if ai == 0 || ai == 4 || ai == 5 {
				for k := 0; k < runtime.GOMAXPROCS(0)+2 && k < 40; k++ {
					cg := newGate(at)
					crowd = append(crowd, cg)
					go func() { crowdDone <- s.run(cg) }()
				}
				for _, cg := range crowd {
					select {
					case <-cg.entered:
					case <-time.After(20 * time.Second):
					}
				}
			}
			defer func(crowd []*gate) {
				for _, cg := range crowd {
					select {
					case <-cg.release:
					default:
						close(cg.release)
					}
				}
			}(crowd)
			done := make(chan struct{})
			go func() { others(); close(done) }()
			stalled := false
			select {
			case <-done:
			case <-time.After(20 * time.Second):
				stalled = true
			}
			close(g.release)
			for _, cg := range crowd {
				close(cg.release)
			}
			got := <-res
			for range crowd {
				if cgot := <-crowdDone; cgot != want && !stalled {
					r.Violate("result-differs-under-concurrency", fmt.Sprintf("%s: result after having been parked in a crowd differs from the result alone", s.name), map[string]interface{}{"instance": s.name, "call": at})
					break
				}
			}
			if stalled {
				<-done
			}
			r.Eval("stalled:"+s.name, true, []byte(fmt.Sprint(s.name, at)))
			if stalled {
				r.Violate("stalled-instance-blocks-others", fmt.Sprintf("%s parked inside call %d of %d to its own sink/source: the other instances (one of every type, own sinks and sources) did not finish within 20 s", s.name, at, n),
					map[string]interface{}{"instance": s.name, "call": at, "of": n})
				return
			}
			if got != want {
				r.Violate("result-differs-under-concurrency", fmt.Sprintf("%s: result after having been parked differs from the result alone", s.name), map[string]interface{}{"instance": s.name, "call": at})
			}
		}
	}
}
