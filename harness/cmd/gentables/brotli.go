//go:build verif

package main

import (
	"fmt"
	"io"
	"strings"

	"github.com/dsnet/compress/brotli"
)

func nlist(vs []int) string {
	var sb strings.Builder
	sb.WriteString("[")
	for i, v := range vs {
		if i > 0 {
			sb.WriteString(";")
			if i%16 == 0 {
				sb.WriteString("\n   ")
			} else {
				sb.WriteString(" ")
			}
		}
		fmt.Fprintf(&sb, "%d", v)
	}
	sb.WriteString("]")
	return sb.String()
}

func bytesToInts(b []byte) []int {
	out := make([]int, len(b))
	for i, x := range b {
		out[i] = int(x)
	}
	return out
}

func rangesStr(rs []brotli.VerifRange) string {
	var sb strings.Builder
	sb.WriteString("[")
	for i, r := range rs {
		if i > 0 {
			sb.WriteString("; ")
			if i%8 == 0 {
				sb.WriteString("\n   ")
			}
		}
		fmt.Fprintf(&sb, "(%d, %d)", r.Base, r.Bits)
	}
	sb.WriteString("]")
	return sb.String()
}

// writeTables emits /verif/coq/Brotli/Tables.v from the tables of /repo/brotli.
func writeBrotliTables(w io.Writer) {

	l0, l1, l2 := brotli.VerifContextLUTs()
	fmt.Fprintf(w, "(* RFC 7932 section 7.1 *)\nDefinition ctx_lut0 : list N :=\n  %s.\n\n", nlist(bytesToInts(l0)))
	fmt.Fprintf(w, "Definition ctx_lut1 : list N :=\n  %s.\n\n", nlist(bytesToInts(l1)))
	fmt.Fprintf(w, "Definition ctx_lut2 : list N :=\n  %s.\n\n", nlist(bytesToInts(l2)))
	fmt.Fprintf(w, "(* RFC 7932 appendix A: NDBITS by word length 0..24 *)\nDefinition dict_ndbits : list N :=\n  %s.\n\n", nlist(brotli.VerifDictBitSizes()))
	fmt.Fprintf(w, "(* DOFFSET by word length 0..24 as computed by /repo/brotli (cross-check only) *)\nDefinition go_dict_offsets : list N :=\n  %s.\n\n", nlist(brotli.VerifDictOffsets()))
	fmt.Fprintf(w, "(* range tables of /repo/brotli as (base, extra bits) (cross-check only) *)\n")
	fmt.Fprintf(w, "Definition go_ins_ranges : list (N * N) :=\n  %s.\n\n", rangesStr(brotli.VerifInsLenRanges()))
	fmt.Fprintf(w, "Definition go_cpy_ranges : list (N * N) :=\n  %s.\n\n", rangesStr(brotli.VerifCpyLenRanges()))
	fmt.Fprintf(w, "Definition go_blk_ranges : list (N * N) :=\n  %s.\n\n", rangesStr(brotli.VerifBlkLenRanges()))
	fmt.Fprintf(w, "Definition go_rle_ranges : list (N * N) :=\n  %s.\n\n", rangesStr(brotli.VerifMaxRLERanges()))
	cl := brotli.VerifComplexLens()
	cli := make([]int, len(cl))
	for i, x := range cl {
		cli[i] = int(x)
	}
	fmt.Fprintf(w, "Definition go_clen_order : list N :=\n  %s.\n\n", nlist(cli))

	fmt.Fprintln(w, "(* RFC 7932 appendix B: (prefix, transformation, suffix), index = transform id *)")
	fmt.Fprintln(w, "Definition transforms : list (list N * xform * list N) :=")
	ts := brotli.VerifTransforms()
	for i, t := range ts {
		op := ""
		switch {
		case t.Op == 0:
			op = "XIdentity"
		case t.Op == 1:
			op = "XUppercaseFirst"
		case t.Op == 2:
			op = "XUppercaseAll"
		case t.Op <= 11:
			op = fmt.Sprintf("XOmitFirst %d", t.Op-2)
		default:
			op = fmt.Sprintf("XOmitLast %d", t.Op-11)
		}
		sep := ";"
		if i == len(ts)-1 {
			sep = ""
		}
		lead := "   "
		if i == 0 {
			lead = "  ["
		}
		fmt.Fprintf(w, "%s(%s, %s, %s)%s (* %d *)\n", lead,
			nlist(bytesToInts([]byte(t.Prefix))), op, nlist(bytesToInts([]byte(t.Suffix))), sep, i)
	}
	fmt.Fprintln(w, "  ].")
}
