//go:build verif

package main

import (
	"fmt"
	"io"
	"strings"

	"github.com/dsnet/compress/brotli"
	"github.com/dsnet/compress/bzip2"
	"github.com/dsnet/compress/flate"
	"github.com/dsnet/compress/internal"
	"github.com/dsnet/compress/xflate/internal/meta"
)

// Tables that the library DERIVES at package initialisation and decodes
// with (as opposed to the RFC constant tables of brotli.go). Each is dumped
// exactly as stored; Gen/TablesOK.v proves it equal to the tabulation of the
// model's function over the table's whole index domain.

func u32s(vs []uint32) []int {
	out := make([]int, len(vs))
	for i, v := range vs {
		out[i] = int(v)
	}
	return out
}

func uints(vs []uint) []int {
	out := make([]int, len(vs))
	for i, v := range vs {
		out[i] = int(v)
	}
	return out
}

func nlists(vss [][]int) string {
	var sb strings.Builder
	sb.WriteString("[")
	for i, vs := range vss {
		if i > 0 {
			sb.WriteString(";\n   ")
		}
		sb.WriteString(nlist(vs))
	}
	sb.WriteString("]")
	return sb.String()
}

// decoder tables as (chunks, links, [chunkMask; linkMask; chunkBits; minBits; numSyms])
func decoderStr(chunks []uint32, links [][]uint32, params []uint32) string {
	ls := make([][]int, len(links))
	for i, l := range links {
		ls[i] = u32s(l)
	}
	return fmt.Sprintf("(%s,\n   %s,\n   %s)", nlist(u32s(chunks)), nlists(ls), nlist(u32s(params)))
}

// parse (*prefix.Decoder).VerifDump:
// chunkMask, linkMask, chunkBits, MinBits, NumSyms, len(chunks), len(links), chunks..., {len(l), l...}...
func prefixDecoderStr(d []uint32) string {
	params := d[:5]
	nc, nl := int(d[5]), int(d[6])
	chunks := d[7 : 7+nc]
	rest := d[7+nc:]
	var links [][]uint32
	for i := 0; i < nl; i++ {
		n := int(rest[0])
		links = append(links, rest[1:1+n])
		rest = rest[1+n:]
	}
	if len(rest) != 0 {
		panic("prefix.Decoder dump: trailing data")
	}
	return decoderStr(chunks, links, params)
}

// parse (*prefix.Encoder).VerifDump: chunkMask, NumSyms, len(chunks), chunks...
// printed as (chunks, [chunkMask; numSyms])
func prefixEncoderStr(d []uint32) string {
	nc := int(d[2])
	if len(d) != 3+nc {
		panic("prefix.Encoder dump: bad length")
	}
	return fmt.Sprintf("(%s,\n   %s)", nlist(u32s(d[3:])), nlist(u32s(d[:2])))
}

func brDecoderStr(d brotli.VerifDecoder) string {
	return decoderStr(d.Chunks, d.Links, []uint32{d.ChunkMask, d.LinkMask, d.ChunkBits, d.MinBits, d.NumSyms})
}

// prefix codes as (symbol, value, length)
func codesStr(cs []brotli.VerifPrefixCode) string {
	var sb strings.Builder
	sb.WriteString("[")
	for i, c := range cs {
		if i > 0 {
			sb.WriteString("; ")
			if i%8 == 0 {
				sb.WriteString("\n   ")
			}
		}
		fmt.Fprintf(&sb, "(%d, %d, %d)", c.Sym, c.Val, c.Len)
	}
	sb.WriteString("]")
	return sb.String()
}

const decTy = "(list N * list (list N) * list N)"
const encTy = "(list N * list N)"

func writeDerivedTables(w io.Writer) {
	fmt.Fprintln(w, "\n(* ---- tables derived at package initialisation (harness/cmd/gentables/luts.go) ---- *)")

	// brotli/common.go, internal/common.go
	fmt.Fprintf(w, "Definition br_reverse_lut : list N :=\n  %s.\n", nlist(bytesToInts(brotli.VerifReverseLUT())))
	fmt.Fprintf(w, "Definition internal_reverse_lut : list N :=\n  %s.\n", nlist(bytesToInts(internal.ReverseLUT[:])))
	fmt.Fprintf(w, "Definition internal_identity_lut : list N :=\n  %s.\n", nlist(bytesToInts(internal.IdentityLUT[:])))

	// brotli/prefix.go: initLengthLUTs
	ins, cpy := brotli.VerifIaCLUT()
	fmt.Fprintf(w, "(* iacLUT: ((insert base, insert bits), (copy base, copy bits)) by insert-and-copy symbol *)\n")
	fmt.Fprintf(w, "Definition br_iac_lut : list ((N * N) * (N * N)) :=\n  [")
	for i := range ins {
		if i > 0 {
			fmt.Fprint(w, "; ")
			if i%4 == 0 {
				fmt.Fprint(w, "\n   ")
			}
		}
		fmt.Fprintf(w, "((%d, %d), (%d, %d))", ins[i].Base, ins[i].Bits, cpy[i].Base, cpy[i].Bits)
	}
	fmt.Fprintln(w, "].")
	fmt.Fprintf(w, "(* distShortLUT: (ring index, delta) by distance symbol 0..15 *)\n")
	fmt.Fprintf(w, "Definition br_dist_short_lut : list (N * Z) :=\n  [")
	for i, r := range brotli.VerifDistShortLUT() {
		if i > 0 {
			fmt.Fprint(w, "; ")
		}
		fmt.Fprintf(w, "(%d, (%d)%%Z)", r[0], r[1])
	}
	fmt.Fprintln(w, "].")
	fmt.Fprintf(w, "(* distLongLUT[npostfix]: (base, bits) by distance symbol - 16 - NDIRECT *)\n")
	fmt.Fprintf(w, "Definition br_dist_long_lut : list (list (N * N)) :=\n  [")
	for np := 0; np < 4; np++ {
		if np > 0 {
			fmt.Fprint(w, ";\n   ")
		}
		fmt.Fprint(w, rangesStr(brotli.VerifDistLongLUT(np)))
	}
	fmt.Fprintln(w, "].")

	fmt.Fprintf(w, "(* Reader.Reset: the initial ring of last distances *)\n")
	fmt.Fprintf(w, "Definition br_init_dists : list N := %s.\n", nlist(brotli.VerifInitDists()))

	// brotli/context.go: initContextLUTs
	p1, p2 := brotli.VerifContextPLUTs()
	fmt.Fprintf(w, "(* contextP1LUT / contextP2LUT, index = mode<<8 | byte *)\n")
	fmt.Fprintf(w, "Definition br_context_p1_lut : list N :=\n  %s.\n", nlist(bytesToInts(p1)))
	fmt.Fprintf(w, "Definition br_context_p2_lut : list N :=\n  %s.\n", nlist(bytesToInts(p2)))

	// brotli/dict.go: initDictLUTs
	fmt.Fprintf(w, "Definition br_dict_sizes : list N :=\n  %s.\n", nlist(brotli.VerifDictSizes()))

	// brotli/prefix.go: simple code lengths, fixed codes and their decoders
	sl := brotli.VerifSimpleLens()
	sli := make([][]int, len(sl))
	for i, l := range sl {
		sli[i] = uints(l)
	}
	fmt.Fprintf(w, "(* simpleLens1, 2, 3, 4a, 4b *)\nDefinition br_simple_lens : list (list N) :=\n  %s.\n", nlists(sli))
	fmt.Fprintf(w, "(* prefixCountBits, prefixSymbolBits, prefixMaxChunkBits, maxPrefixBits *)\n")
	fmt.Fprintf(w, "Definition br_prefix_consts : list N := %s.\n", nlist(brotli.VerifPrefixConsts()))
	cc, cr, cw, cn := brotli.VerifFixedCodes()
	fmt.Fprintf(w, "(* fixed prefix codes as (symbol, value with the first bit read in bit 0, length) *)\n")
	fmt.Fprintf(w, "Definition br_code_clens : list (N * N * N) :=\n  %s.\n", codesStr(cc))
	fmt.Fprintf(w, "Definition br_code_maxrle : list (N * N * N) :=\n  %s.\n", codesStr(cr))
	fmt.Fprintf(w, "Definition br_code_winbits : list (N * N * N) :=\n  %s.\n", codesStr(cw))
	fmt.Fprintf(w, "Definition br_code_counts : list (N * N * N) :=\n  %s.\n", codesStr(cn))
	dc, dr, dw, dn := brotli.VerifFixedDecoders()
	fmt.Fprintf(w, "(* built decoders: (chunks, links, [chunkMask; linkMask; chunkBits; minBits; numSyms]) *)\n")
	fmt.Fprintf(w, "Definition br_dec_clens : %s :=\n  %s.\n", decTy, brDecoderStr(dc))
	fmt.Fprintf(w, "Definition br_dec_maxrle : %s :=\n  %s.\n", decTy, brDecoderStr(dr))
	fmt.Fprintf(w, "Definition br_dec_winbits : %s :=\n  %s.\n", decTy, brDecoderStr(dw))
	fmt.Fprintf(w, "Definition br_dec_counts : %s :=\n  %s.\n", decTy, brDecoderStr(dn))

	// flate/prefix.go: fixed Huffman coders
	fl, fd := flate.VerifFixedDecoders()
	fmt.Fprintf(w, "Definition flate_dec_lit : %s :=\n  %s.\n", decTy, prefixDecoderStr(fl))
	fmt.Fprintf(w, "Definition flate_dec_dist : %s :=\n  %s.\n", decTy, prefixDecoderStr(fd))
	el, ed := flate.VerifFixedEncoders()
	fmt.Fprintf(w, "(* built encoders: (chunks, [chunkMask; numSyms]) *)\n")
	fmt.Fprintf(w, "Definition flate_enc_lit : %s :=\n  %s.\n", encTy, prefixEncoderStr(el))
	fmt.Fprintf(w, "Definition flate_enc_dist : %s :=\n  %s.\n", encTy, prefixEncoderStr(ed))

	// xflate/internal/meta/meta.go
	me, md := meta.VerifHuff()
	fmt.Fprintf(w, "Definition meta_dec_huff : %s :=\n  %s.\n", decTy, prefixDecoderStr(md))
	fmt.Fprintf(w, "Definition meta_enc_huff : %s :=\n  %s.\n", encTy, prefixEncoderStr(me))
	fmt.Fprintf(w, "Definition meta_one_bits_lut : list N :=\n  %s.\n", nlist(bytesToInts(meta.VerifOneBitsLUT())))

	// bzip2/prefix.go, bzip2/common.go
	be, bd := bzip2.VerifSel()
	fmt.Fprintf(w, "Definition bzip2_dec_sel : %s :=\n  %s.\n", decTy, prefixDecoderStr(bd))
	fmt.Fprintf(w, "Definition bzip2_enc_sel : %s :=\n  %s.\n", encTy, prefixEncoderStr(be))
	// bzip2 stores no CRC table (it drives hash/crc32's IEEE table with
	// bit-reversed data); the effective table is determined by the checksum
	// of every one-byte block, computed by crc.update itself.
	crc1 := make([]int, 256)
	for b := 0; b < 256; b++ {
		crc1[b] = int(bzip2.VerifCRC([]byte{byte(b)}))
	}
	fmt.Fprintf(w, "(* crc.update from zero on the one-byte block [b], b = 0..255 *)\n")
	fmt.Fprintf(w, "Definition bzip2_crc1 : list N :=\n  %s.\n", nlist(crc1))
}
