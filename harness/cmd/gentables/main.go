//go:build verif

// gentables: the translator of tie (i). Prints, as a Coq module, every
// constant table and format constant the implementation in /repo uses (read
// through the verif-tagged export shims), so that Gen/TablesOK.v can prove
// them equal to the model's definitions inside the kernel on every run.
package main

import (
	"fmt"
	"os"

	"github.com/dsnet/compress/bzip2"
	"github.com/dsnet/compress/flate"
	"github.com/dsnet/compress/xflate"
	"github.com/dsnet/compress/xflate/internal/meta"
)

func pairs(rs [][2]uint32) string {
	s := "["
	for i, r := range rs {
		if i > 0 {
			s += "; "
		}
		s += fmt.Sprintf("(%d, %d)", r[0], r[1])
	}
	return s + "]"
}

func main() {
	w := os.Stdout
	fmt.Fprintln(w, "(* GENERATED on every run by /verif/harness/cmd/gentables from /repo's working tree")
	fmt.Fprintln(w, "   (go build -tags verif). Do not edit; not committed. *)")
	fmt.Fprintln(w, "From V Require Import Base.Prelude Brotli.Tables.")
	fmt.Fprintln(w, "Module Impl.")
	lens, dists := flate.VerifRanges()
	fmt.Fprintf(w, "Definition flate_lenRanges : list (N * N) := %s.\n", pairs(lens))
	fmt.Fprintf(w, "Definition flate_distRanges : list (N * N) := %s.\n", pairs(dists))
	cl := flate.VerifClenLens()
	ci := make([]int, len(cl))
	for i, x := range cl {
		ci[i] = int(x)
	}
	fmt.Fprintf(w, "Definition flate_clenLens : list N := %s.\n", nlist(ci))
	fmt.Fprintf(w, "Definition flate_consts : list N := %s.\n", nlist(flate.VerifConsts()))
	mc := meta.VerifConsts()
	mi := make([]int, len(mc))
	for i, x := range mc {
		mi[i] = int(x)
	}
	fmt.Fprintf(w, "Definition meta_consts : list N := %s.\n", nlist(mi))
	mg, eb, cs, is := xflate.VerifConsts()
	fmt.Fprintf(w, "Definition xflate_magic : list N := %s.\n", nlist(bytesToInts(mg)))
	fmt.Fprintf(w, "Definition xflate_endBlock : list N := %s.\n", nlist(bytesToInts(eb)))
	fmt.Fprintf(w, "Definition xflate_defaults : list N := %s.\n", nlist([]int{int(cs), int(is)}))
	bc := bzip2.VerifConsts()
	fmt.Fprintf(w, "Definition bzip2_consts : list N := [")
	for i, x := range bc {
		if i > 0 {
			fmt.Fprint(w, "; ")
		}
		fmt.Fprintf(w, "%d", x)
	}
	fmt.Fprintln(w, "].")
	writeBrotliTables(w)
	writeDerivedTables(w)
	fmt.Fprintln(w, "End Impl.")
}
