package main

import (
	"bytes"
	"fmt"
	"io/ioutil"

	"github.com/dsnet/compress/brotli"
	"github.com/dsnet/compress/xflate/verifharness/ref"
)

func main() {
	for _, md := range [][]byte{{0xdc}, {0x7a}, {0x00}, {0xff}, {0x80}} {
		z := ref.BrCompress([]ref.BrOp{{Data: md, Op: 3}, {Op: 2}}, 7, 19, 1, 0, -1, -1)
		out, st, used := ref.BrDecompress(z, 100)
		zr, _ := brotli.NewReader(bytes.NewReader(z), nil)
		o2, err := ioutil.ReadAll(zr)
		fmt.Printf("md=%x z=%x lib=%s used=%d out=%d | dsnet out=%d err=%v\n", md, z, st, used, len(out), len(o2), err)
	}
}
