//go:build verif

package main

/*
#cgo LDFLAGS: -lbrotlidec -lbrotlicommon
#include <brotli/decode.h>
#include <stdlib.h>
static int br_errcode(const unsigned char* in, size_t n, size_t cap) {
	BrotliDecoderState* st = BrotliDecoderCreateInstance(NULL, NULL, NULL);
	unsigned char* out = malloc(cap + 1);
	size_t avail_in = n, avail_out = cap, total = 0;
	const uint8_t* next_in = in; uint8_t* next_out = out;
	BrotliDecoderResult r = BrotliDecoderDecompressStream(st, &avail_in, &next_in, &avail_out, &next_out, &total);
	int code = (int)BrotliDecoderGetErrorCode(st);
	(void)r;
	BrotliDecoderDestroyInstance(st);
	free(out);
	return code;
}
static const char* br_errstr(int c) { return BrotliDecoderErrorString((BrotliDecoderErrorCode)c); }
*/
import "C"

import "unsafe"

// libErr returns libbrotli's error code name for the input.
func libErr(data []byte, capOut int) string {
	var p *C.uchar
	if len(data) > 0 {
		p = (*C.uchar)(unsafe.Pointer(&data[0]))
	} else {
		var z [1]byte
		p = (*C.uchar)(unsafe.Pointer(&z[0]))
	}
	c := C.br_errcode(p, C.size_t(len(data)), C.size_t(capOut))
	return C.GoString(C.br_errstr(c))
}
