//go:build verif

package main

import (
	"bufio"
	"bytes"
	"encoding/hex"
	"flag"
	"fmt"
	"io"
	"math/rand"
	"os"
	"os/exec"
	"path/filepath"
	"sort"
	"strings"
	"sync"
	"time"

	"github.com/dsnet/compress/brotli"
	cerrors "github.com/dsnet/compress/internal/errors"
	"github.com/dsnet/compress/xflate/verifharness/ref"
)

type tcase struct {
	id   int
	kind string
	data []byte
}

type obs struct {
	class string // nil | UEOF | Corrupted | other
	out   []byte
	used  int
	msg   string // implementation's error text, if any
}

type result struct {
	c          tcase
	model, lib obs
	goo        obs
	skipped    bool
	modelMs    float64
	disagreeML string // model vs libbrotli
	disagreeGL string // go vs libbrotli
	disagreeGM string // go vs model
}

func hexs(b []byte) string {
	if len(b) == 0 {
		return "-"
	}
	return hex.EncodeToString(b)
}

func goClass(err error) string {
	switch {
	case err == nil, err == io.EOF:
		return "nil"
	case err == io.ErrUnexpectedEOF:
		return "UEOF"
	}
	if ce, ok := err.(cerrors.Error); ok {
		switch ce.Code {
		case cerrors.Corrupted:
			return "Corrupted"
		case cerrors.Internal:
			return "Internal"
		case cerrors.Invalid:
			return "Invalid"
		case cerrors.Deprecated:
			return "Deprecated"
		case cerrors.Closed:
			return "Closed"
		}
		return "Unknown"
	}
	return "Other:" + strings.Replace(err.Error(), " ", "_", -1)
}

// goDecode runs /repo/brotli.Reader to the end of the stream.
func goDecode(data []byte, capOut int) (o obs) {
	done := make(chan obs, 1)
	go func() {
		var o obs
		defer func() {
			if r := recover(); r != nil {
				o.class = "Panic:" + strings.Replace(fmt.Sprint(r), " ", "_", -1)
			}
			done <- o
		}()
		r, err := brotli.NewReader(bytes.NewReader(data), nil)
		if err != nil {
			o.class = "New:" + goClass(err)
			return
		}
		buf := make([]byte, 1<<15)
		for {
			n, err := r.Read(buf)
			o.out = append(o.out, buf[:n]...)
			if err != nil {
				o.class = goClass(err)
				o.used = int(r.InputOffset)
				if err != io.EOF {
					o.msg = err.Error()
				}
				return
			}
			if len(o.out) > capOut {
				o.class = "cap"
				return
			}
		}
	}()
	select {
	case o = <-done:
		return o
	case <-time.After(60 * time.Second):
		return obs{class: "Hang"}
	}
}

func libDecode(data []byte, capOut int) obs {
	out, st, used := ref.BrDecompress(data, capOut)
	cl := map[string]string{"end": "nil", "more": "UEOF", "err": "Corrupted", "cap": "cap"}[st]
	return obs{class: cl, out: out, used: used}
}

type driver struct {
	cmd *exec.Cmd
	in  *bufio.Writer
	out *bufio.Reader
}

func startDriver(path, dict string) *driver {
	// the extracted code recurses over long lists: lift the stack limit
	cmd := exec.Command("/bin/sh", "-c", "ulimit -s unlimited 2>/dev/null || ulimit -s 1000000; exec \"$0\" \"$1\"", path, dict)
	stdin, _ := cmd.StdinPipe()
	stdout, _ := cmd.StdoutPipe()
	cmd.Stderr = os.Stderr
	if err := cmd.Start(); err != nil {
		panic(err)
	}
	return &driver{cmd, bufio.NewWriterSize(stdin, 1<<20), bufio.NewReaderSize(stdout, 1<<20)}
}

func (d *driver) decode(id int, data []byte) obs {
	fmt.Fprintf(d.in, "%d %s\n", id, hexs(data))
	d.in.Flush()
	line, err := d.out.ReadString('\n')
	if err != nil {
		return obs{class: "DriverDied"}
	}
	f := strings.Fields(line)
	if len(f) != 4 || f[0] != fmt.Sprint(id) {
		return obs{class: "BadReply:" + strings.TrimSpace(line)}
	}
	var out []byte
	if f[2] != "-" {
		out, _ = hex.DecodeString(f[2])
	}
	var used int
	fmt.Sscan(f[3], &used)
	return obs{class: f[1], out: out, used: used}
}

func prefixComparable(a, b []byte) bool {
	if len(a) > len(b) {
		a, b = b, a
	}
	return bytes.Equal(a, b[:len(a)])
}

// compare two observations; "" = agree
func compare(a, b obs, checkUsed bool) string {
	if a.class != b.class {
		return fmt.Sprintf("class %s vs %s", a.class, b.class)
	}
	if a.class == "nil" {
		if !bytes.Equal(a.out, b.out) {
			return fmt.Sprintf("output differs (len %d vs %d)", len(a.out), len(b.out))
		}
		if checkUsed && a.used != b.used {
			return fmt.Sprintf("used %d vs %d", a.used, b.used)
		}
		return ""
	}
	if !prefixComparable(a.out, b.out) {
		return fmt.Sprintf("outputs not prefix-comparable (len %d vs %d)", len(a.out), len(b.out))
	}
	return ""
}

func obsStr(o obs) string {
	h := hexs(o.out)
	if len(h) > 96 {
		h = h[:96] + fmt.Sprintf("...(%d bytes)", len(o.out))
	}
	m := ""
	if o.msg != "" {
		m = " msg=" + fmt.Sprintf("%q", o.msg)
	}
	return fmt.Sprintf("%s out=%s used=%d%s", o.class, h, o.used, m)
}

func runMain(args []string) {
	fs := flag.NewFlagSet("run", flag.ExitOnError)
	drv := fs.String("driver", "/tmp/brotli-agent/brdriver", "model driver binary")
	dict := fs.String("dict", "/tmp/brotli-agent/dict.bin", "dictionary file")
	seed := fs.Int64("seed", 1, "seed")
	scale := fs.Int("scale", 1, "scale of the generated corpus")
	workers := fs.Int("workers", 12, "parallel model processes")
	report := fs.String("report", "/tmp/brotli-agent/report.txt", "report file")
	sets := fs.String("sets", "valid,trunc,mut,short,craft,xforms,testdata", "case sets")
	capOut := fs.Int("cap", 1<<20, "skip cases whose output exceeds this")
	one := fs.String("hex", "", "run a single hex input and print the three observations")
	minHex := fs.String("min", "", "minimise a hex input on which brotli.Reader and libbrotli disagree")
	fs.Parse(args)

	if *minHex != "" {
		data, err := hex.DecodeString(*minHex)
		if err != nil {
			panic(err)
		}
		fmt.Println(hexs(minimise(data, *capOut)))
		return
	}
	if *one != "" {
		if strings.HasPrefix(*one, "@") { // @file containing the hex
			b, err := os.ReadFile((*one)[1:])
			if err != nil {
				panic(err)
			}
			*one = strings.TrimSpace(string(b))
		}
		data, err := hex.DecodeString(*one)
		if err != nil {
			panic(err)
		}
		d := startDriver(*drv, *dict)
		fmt.Println("lib:  ", obsStr(libDecode(data, *capOut)), libErr(data, *capOut))
		fmt.Println("go:   ", obsStr(goDecode(data, *capOut)))
		fmt.Println("model:", obsStr(d.decode(0, data)))
		return
	}

	rng := rand.New(rand.NewSource(*seed))
	var cases []tcase
	add := func(kind string, data []byte) {
		cases = append(cases, tcase{id: len(cases), kind: kind, data: append([]byte(nil), data...)})
	}
	want := map[string]bool{}
	for _, s := range strings.Split(*sets, ",") {
		want[s] = true
	}
	genCases(rng, *scale, want, add)
	fmt.Printf("generated %d cases\n", len(cases))

	results := make([]result, len(cases))
	ch := make(chan int, 64)
	var wg sync.WaitGroup
	var mu sync.Mutex
	doneCnt := 0
	for w := 0; w < *workers; w++ {
		wg.Add(1)
		go func() {
			defer wg.Done()
			d := startDriver(*drv, *dict)
			for i := range ch {
				c := cases[i]
				r := result{c: c}
				r.lib = libDecode(c.data, *capOut)
				if r.lib.class == "cap" {
					r.skipped = true
					results[i] = r
					continue
				}
				r.goo = goDecode(c.data, 4**capOut)
				t0 := time.Now()
				r.model = d.decode(c.id, c.data)
				r.modelMs = float64(time.Since(t0).Microseconds()) / 1000
				if r.model.class == "DriverDied" {
					d = startDriver(*drv, *dict)
				}
				r.disagreeML = compare(r.model, r.lib, true)
				r.disagreeGL = compare(r.goo, r.lib, true)
				r.disagreeGM = compare(r.goo, r.model, true)
				results[i] = r
				mu.Lock()
				doneCnt++
				if doneCnt%5000 == 0 {
					fmt.Printf("  ... %d done\n", doneCnt)
				}
				mu.Unlock()
			}
			d.in.Flush()
			d.cmd.Process.Kill()
		}()
	}
	// big cases first so that the tail is short
	order := make([]int, len(cases))
	for i := range order {
		order[i] = i
	}
	sort.SliceStable(order, func(a, b int) bool { return len(cases[order[a]].data) > len(cases[order[b]].data) })
	for _, i := range order {
		ch <- i
	}
	close(ch)
	wg.Wait()

	// ---- statistics ----
	type stat struct{ n, valid, ueof, corrupt, skipped, ml, gl, gm int }
	stats := map[string]*stat{}
	var kinds []string
	var totalMs, totalKB float64
	var rep bytes.Buffer
	tot := &stat{}
	for _, r := range results {
		k := r.c.kind
		if i := strings.IndexByte(k, ':'); i >= 0 {
			k = k[:i]
		}
		s := stats[k]
		if s == nil {
			s = &stat{}
			stats[k] = s
			kinds = append(kinds, k)
		}
		for _, t := range []*stat{s, tot} {
			t.n++
			if r.skipped {
				t.skipped++
				continue
			}
			switch r.lib.class {
			case "nil":
				t.valid++
			case "UEOF":
				t.ueof++
			case "Corrupted":
				t.corrupt++
			}
			if r.disagreeML != "" {
				t.ml++
			}
			if r.disagreeGL != "" {
				t.gl++
			}
			if r.disagreeGM != "" {
				t.gm++
			}
		}
		if r.skipped {
			continue
		}
		if len(r.model.out) >= 1024 {
			totalMs += r.modelMs
			totalKB += float64(len(r.model.out)) / 1024
		}
		if strings.HasPrefix(r.c.kind, "valid") && r.lib.class != "nil" {
			fmt.Fprintf(&rep, "NOTVALID %d kind=%s len=%d lib=%s\n", r.c.id, r.c.kind, len(r.c.data), obsStr(r.lib))
		}
		if r.disagreeML != "" || r.disagreeGL != "" || r.disagreeGM != "" {
			fmt.Fprintf(&rep, "CASE %d kind=%s len=%d\n  input=%s\n  lib:   %s\n  go:    %s\n  model: %s\n", r.c.id, r.c.kind, len(r.c.data), hexs(r.c.data), obsStr(r.lib), obsStr(r.goo), obsStr(r.model))
			if r.disagreeML != "" {
				fmt.Fprintf(&rep, "  MODEL-vs-LIB: %s [%s]\n", r.disagreeML, libErr(r.c.data, *capOut))
			}
			if r.disagreeGL != "" {
				fmt.Fprintf(&rep, "  GO-vs-LIB: %s [%s]\n", r.disagreeGL, libErr(r.c.data, *capOut))
			}
			if r.disagreeGM != "" {
				fmt.Fprintf(&rep, "  GO-vs-MODEL: %s\n", r.disagreeGM)
			}
		}
	}
	sort.Strings(kinds)
	var sum bytes.Buffer
	fmt.Fprintf(&sum, "%-12s %7s %7s %7s %7s %7s | %9s %9s %9s\n", "set", "cases", "valid", "ueof", "corrupt", "skipped", "model!=lib", "go!=lib", "go!=model")
	for _, k := range append(kinds, "TOTAL") {
		s := stats[k]
		if k == "TOTAL" {
			s = tot
		}
		fmt.Fprintf(&sum, "%-12s %7d %7d %7d %7d %7d | %9d %9d %9d\n", k, s.n, s.valid, s.ueof, s.corrupt, s.skipped, s.ml, s.gl, s.gm)
	}
	if totalKB > 0 {
		fmt.Fprintf(&sum, "model speed: %.1f ms per KB of output (over %.0f KB, cases with >= 1 KB output)\n", totalMs/totalKB, totalKB)
	}
	fmt.Print(sum.String())
	os.MkdirAll(filepath.Dir(*report), 0o755)
	os.WriteFile(*report, append(sum.Bytes(), rep.Bytes()...), 0o644)
	fmt.Println("report:", *report)
}

// signature of a Go-vs-libbrotli disagreement
func sig(data []byte, capOut int) string {
	l := libDecode(data, capOut)
	g := goDecode(data, 4*capOut)
	d := compare(g, l, true)
	if d == "" {
		return ""
	}
	if i := strings.Index(d, "(len"); i >= 0 {
		d = d[:i]
	}
	if strings.HasPrefix(d, "used") {
		d = "used"
	}
	return d + " [" + libErr(data, capOut) + "] " + g.msg
}

// minimise shrinks an input while the disagreement signature stays the same:
// drop tail bytes, drop inner bytes, clear bits.
func minimise(data []byte, capOut int) []byte {
	want := sig(data, capOut)
	if want == "" {
		return data
	}
	cur := append([]byte(nil), data...)
	for changed := true; changed; {
		changed = false
		for len(cur) > 0 && sig(cur[:len(cur)-1], capOut) == want {
			cur = cur[:len(cur)-1]
			changed = true
		}
		for i := len(cur) - 1; i >= 0; i-- {
			t := append(append([]byte(nil), cur[:i]...), cur[i+1:]...)
			if sig(t, capOut) == want {
				cur = t
				changed = true
			}
		}
		for i := len(cur) - 1; i >= 0; i-- {
			for b := 7; b >= 0; b-- {
				if cur[i]>>uint(b)&1 == 1 {
					t := append([]byte(nil), cur...)
					t[i] &^= 1 << uint(b)
					if sig(t, capOut) == want {
						cur = t
						changed = true
					}
				}
			}
		}
	}
	return cur
}
