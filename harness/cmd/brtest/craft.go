//go:build verif

package main

import "math/rand"

func genCrafted(rng *rand.Rand, scale int, add func(kind string, data []byte)) {}
