//go:build verif

package main

/*
#cgo LDFLAGS: -lbrotlicommon
#include <stdint.h>
#include <stddef.h>
// Public layout of BrotliDictionary (brotli/c/common/dictionary.h, 1.0.x).
typedef struct BrotliDictionary {
  uint8_t size_bits_by_length[32];
  uint32_t offsets_by_length[32];
  size_t data_size;
  const uint8_t* data;
} BrotliDictionary;
extern const BrotliDictionary* BrotliGetDictionary(void);
static const uint8_t* dict_data(void) { return BrotliGetDictionary()->data; }
static size_t dict_size(void) { return BrotliGetDictionary()->data_size; }
static int dict_bits(int i) { return BrotliGetDictionary()->size_bits_by_length[i]; }
static unsigned dict_off(int i) { return BrotliGetDictionary()->offsets_by_length[i]; }
*/
import "C"

import (
	"bytes"
	"fmt"
	"os"
	"unsafe"

	"github.com/dsnet/compress/brotli"
)

func libDict() []byte {
	n := int(C.dict_size())
	return C.GoBytes(unsafe.Pointer(C.dict_data()), C.int(n))
}

func dumpDict(path string) {
	d := brotli.VerifDictLUT()
	ld := libDict()
	ok := bytes.Equal(d, ld)
	fmt.Printf("go dict %d bytes, libbrotli dict %d bytes, equal=%v\n", len(d), len(ld), ok)
	bits := brotli.VerifDictBitSizes()
	offs := brotli.VerifDictOffsets()
	for i := 0; i <= 24; i++ {
		if int(C.dict_bits(C.int(i))) != bits[i] || (i >= 4 && int(C.dict_off(C.int(i))) != offs[i]) {
			fmt.Printf("MISMATCH len %d: bits go=%d lib=%d off go=%d lib=%d\n", i, bits[i], int(C.dict_bits(C.int(i))), offs[i], int(C.dict_off(C.int(i))))
			ok = false
		}
	}
	if !ok {
		os.Exit(1)
	}
	if err := os.WriteFile(path, d, 0o644); err != nil {
		panic(err)
	}
}
