//go:build verif

// brtest: scratch validation program for the Brotli Spec model
// (/verif/coq/Brotli/Spec.v). Subcommands:
//
//	tables            print Tables.v generated from /repo/brotli's tables
//	dict FILE         dump the static dictionary (and check it against libbrotli)
//	run  ...          generate inputs, compare model / libbrotli / brotli.Reader
//	extend REPORT     check that early Corrupted verdicts of brotli.Reader have no valid extension
package main

import (
	"bufio"
	"fmt"
	"os"
)

func main() {
	if len(os.Args) < 2 {
		fmt.Fprintln(os.Stderr, "usage: brtest tables | dict FILE | run [flags]")
		os.Exit(2)
	}
	switch os.Args[1] {
	case "tables":
		w := bufio.NewWriter(os.Stdout)
		writeTables(w)
		w.Flush()
	case "dict":
		dumpDict(os.Args[2])
	case "extend":
		extendMain(os.Args[2])
	case "run":
		runMain(os.Args[2:])
	default:
		fmt.Fprintln(os.Stderr, "unknown subcommand")
		os.Exit(2)
	}
}
