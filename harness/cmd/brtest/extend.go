//go:build verif

package main

import (
	"bufio"
	"encoding/hex"
	"fmt"
	"math/rand"
	"os"
	"strings"
)

// extendMain: for every case of a report where brotli.Reader says Corrupted
// and libbrotli says "needs more input", append random / zero tails and
// record what libbrotli says about the extended inputs.  If libbrotli never
// accepts any extension, brotli.Reader merely detected the corruption earlier.
func extendMain(report string) {
	f, err := os.Open(report)
	if err != nil {
		panic(err)
	}
	defer f.Close()
	sc := bufio.NewScanner(f)
	sc.Buffer(make([]byte, 1<<26), 1<<26)
	rng := rand.New(rand.NewSource(7))
	var input []byte
	total, accepted, stillMore := 0, 0, 0
	for sc.Scan() {
		line := sc.Text()
		if strings.HasPrefix(line, "  input=") {
			h := strings.TrimPrefix(line, "  input=")
			if h == "-" {
				input = nil
			} else {
				input, _ = hex.DecodeString(h)
			}
		}
		if strings.Contains(line, "GO-vs-LIB: class Corrupted vs UEOF") {
			total++
			acc, more := 0, 0
			for k := 0; k < 300; k++ {
				tail := make([]byte, 1+rng.Intn(3000))
				switch k % 4 {
				case 0: // zeros
				case 1:
					rng.Read(tail)
				case 2:
					for i := range tail {
						tail[i] = 0xff
					}
				case 3:
					rng.Read(tail)
					for i := range tail {
						tail[i] &= byte(rng.Intn(256))
					}
				}
				ext := append(append([]byte(nil), input...), tail...)
				l := libDecode(ext, 1<<24)
				switch l.class {
				case "nil":
					acc++
				case "UEOF":
					more++
				}
			}
			if acc > 0 {
				accepted++
				fmt.Printf("ACCEPTED extension exists: %s (%d of 300)\n", hexs(input), acc)
			}
			if more > 0 {
				stillMore++
			}
		}
	}
	fmt.Printf("cases=%d with-an-accepted-extension=%d with-some-extension-still-needing-input=%d\n", total, accepted, stillMore)
}
