//go:build verif

package main

import (
	"fmt"
	"math/rand"
	"os"
	"path/filepath"
	"strings"

	"github.com/dsnet/compress/brotli"
	"github.com/dsnet/compress/xflate/verifharness/ref"
)

var words = strings.Fields(`the and of that with from their would there which about people
information government international time down life left back code data show only site city open
just like free work text year over body love form book play live line help home side more word long
them view find page days full head term each area from true mark able upon high date land news even
next case both post used made hand here what name Link blog size base held make main user include
while other after first world where should being through between because another different number
public system program service company university development education American national
President Copyright available however following important something together description
environment particularly organization application communication`)

var htmlBits = []string{
	`<div class="`, `"></div>`, `<a href="http://www.`, `.com/">`, `</a>`, `<span style="display:none;">`,
	`<script type="text/javascript">`, `</script>`, `<li>`, `</li>`, `<td>`, `</td></tr>`, `<input type="hidden" name="`,
	`" value="`, `" />`, "\n\t", `<meta http-equiv="Content-Type" content="text/html; charset=utf-8" />`, `&nbsp;`,
	`<!DOCTYPE html PUBLIC "-//W3C//DTD XHTML 1.0 Transitional//EN">`, `document.getElementById('`, `').style.`,
}

func genText(rng *rand.Rand, n int) []byte {
	var sb strings.Builder
	for sb.Len() < n {
		w := words[rng.Intn(len(words))]
		switch rng.Intn(12) {
		case 0:
			w = strings.ToUpper(w[:1]) + w[1:]
		case 1:
			w = strings.ToUpper(w)
		}
		sb.WriteString(w)
		switch rng.Intn(14) {
		case 0:
			sb.WriteString(", ")
		case 1:
			sb.WriteString(". ")
		case 2:
			sb.WriteString(".\n")
		case 3:
			sb.WriteString("ing ")
		case 4:
			sb.WriteString("ed ")
		case 5:
			sb.WriteString("=\"")
		case 6:
			sb.WriteString("('")
		default:
			sb.WriteString(" ")
		}
	}
	return []byte(sb.String()[:n])
}

func genHTML(rng *rand.Rand, n int) []byte {
	var sb strings.Builder
	for sb.Len() < n {
		if rng.Intn(2) == 0 {
			sb.WriteString(htmlBits[rng.Intn(len(htmlBits))])
		} else {
			sb.WriteString(words[rng.Intn(len(words))])
			if rng.Intn(3) == 0 {
				sb.WriteByte(' ')
			}
		}
	}
	return []byte(sb.String()[:n])
}

func genRuns(rng *rand.Rand, n int) []byte {
	out := make([]byte, 0, n)
	for len(out) < n {
		switch rng.Intn(3) {
		case 0: // run of one byte
			b := byte(rng.Intn(256))
			for k := 1 + rng.Intn(300); k > 0; k-- {
				out = append(out, b)
			}
		case 1: // periodic pattern
			p := make([]byte, 1+rng.Intn(9))
			rng.Read(p)
			for k := 1 + rng.Intn(60); k > 0; k-- {
				out = append(out, p...)
			}
		default: // copy of something earlier
			if len(out) > 4 {
				s := rng.Intn(len(out))
				l := 1 + rng.Intn(200)
				for k := 0; k < l; k++ {
					out = append(out, out[s+k%(len(out)-s)])
				}
			} else {
				out = append(out, byte(rng.Intn(256)))
			}
		}
	}
	return out[:n]
}

func genRandom(rng *rand.Rand, n int) []byte {
	out := make([]byte, n)
	rng.Read(out)
	return out
}

// UTF-8 / signed-ish data: small alphabet of multi-byte sequences and small ints
func genUTF8(rng *rand.Rand, n int) []byte {
	cyr := []string{"д", "е", "я", "т", "о", "с", "и", "п", "р", "в", " ", "日本", "語", "é", "ü", "의", "a", "b", ". "}
	var sb strings.Builder
	for sb.Len() < n {
		sb.WriteString(cyr[rng.Intn(len(cyr))])
	}
	return []byte(sb.String()[:n])
}

func genPlain(rng *rand.Rand, n int) ([]byte, string) {
	switch rng.Intn(8) {
	case 0:
		return genText(rng, n), "text"
	case 1:
		return genHTML(rng, n), "html"
	case 2:
		return genRuns(rng, n), "runs"
	case 3:
		return genRandom(rng, n), "random"
	case 4:
		return genUTF8(rng, n), "utf8"
	case 5: // mixture
		var out []byte
		for len(out) < n {
			p, _ := genPlain(rng, 1+rng.Intn(n/2+1))
			out = append(out, p...)
		}
		return out[:n], "mix"
	case 6: // low-entropy bytes (signed context friendly)
		out := make([]byte, n)
		v := 0
		for i := range out {
			v += rng.Intn(7) - 3
			out[i] = byte(v)
		}
		return out, "walk"
	default:
		return genText(rng, n), "text"
	}
}

func partition(rng *rand.Rand, data []byte) [][]byte {
	if len(data) == 0 || rng.Intn(2) == 0 {
		return [][]byte{data}
	}
	var parts [][]byte
	for len(data) > 0 {
		k := 1 + rng.Intn(len(data))
		if rng.Intn(3) == 0 && len(data) > 10 {
			k = 1 + rng.Intn(10)
		}
		parts = append(parts, data[:k])
		data = data[k:]
		if len(parts) > 6 {
			parts = append(parts, data)
			break
		}
	}
	return parts
}

// libEncode compresses data with libbrotli under the given parameters, with
// random flush points and metadata blocks.
func libEncode(rng *rand.Rand, data []byte, q, lgwin, mode int) []byte {
	lgblock := 0
	if rng.Intn(4) == 0 {
		lgblock = 16 + rng.Intn(9)
	}
	np, nd := -1, -1
	if rng.Intn(3) == 0 {
		np = rng.Intn(4)
		nd = rng.Intn(16) << uint(np)
	}
	var ops []ref.BrOp
	for _, p := range partition(rng, data) {
		op := 0
		if rng.Intn(3) == 0 {
			op = 1
		}
		ops = append(ops, ref.BrOp{Data: p, Op: op})
		if rng.Intn(10) == 0 && os.Getenv("BRTEST_NOMETA") == "" {
			ops = append(ops, ref.BrOp{Data: genRandom(rng, rng.Intn(16)), Op: 3})
		}
	}
	ops = append(ops, ref.BrOp{Op: 2})
	out := ref.BrCompress(ops, q, lgwin, mode, lgblock, np, nd)
	if out == nil {
		out = ref.BrCompress([]ref.BrOp{{Data: data, Op: 2}}, q, lgwin, mode, 0, -1, -1)
	}
	return out
}

func pickSize(rng *rand.Rand) int {
	switch r := rng.Intn(100); {
	case r < 5:
		return rng.Intn(4)
	case r < 45:
		return rng.Intn(300)
	case r < 80:
		return rng.Intn(4000)
	case r < 96:
		return rng.Intn(20000)
	default:
		return rng.Intn(100000)
	}
}

func mutate(rng *rand.Rand, s []byte) []byte {
	m := append([]byte(nil), s...)
	for k := 1 + rng.Intn(3); k > 0; k-- {
		if len(m) == 0 {
			m = append(m, byte(rng.Intn(256)))
			continue
		}
		p := rng.Intn(len(m))
		if rng.Intn(3) == 0 && len(m) > 12 { // bias towards the headers
			p = rng.Intn(12)
		}
		switch rng.Intn(6) {
		case 0, 1: // bit flip
			m[p] ^= 1 << uint(rng.Intn(8))
		case 2: // byte edit
			m[p] = byte(rng.Intn(256))
		case 3: // insertion
			m = append(m[:p], append([]byte{byte(rng.Intn(256))}, m[p:]...)...)
		case 4: // deletion
			m = append(m[:p], m[p+1:]...)
		case 5: // truncate + garbage tail
			m = m[:p]
			for t := rng.Intn(4); t > 0; t-- {
				m = append(m, byte(rng.Intn(256)))
			}
		}
	}
	return m
}

func genCases(rng *rand.Rand, scale int, want map[string]bool, add func(kind string, data []byte)) {
	var valid [][]byte
	if want["valid"] || want["trunc"] || want["mut"] {
		// systematic sweep: quality x lgwin x mode on one plaintext of each kind
		for q := 0; q <= 11; q++ {
			for lgwin := 10; lgwin <= 24; lgwin++ {
				mode := rng.Intn(3)
				n := pickSize(rng)
				if n > 30000 && q >= 10 {
					n = 30000
				}
				p, k := genPlain(rng, n)
				s := libEncode(rng, p, q, lgwin, mode)
				valid = append(valid, s)
				if want["valid"] {
					add(fmt.Sprintf("valid:%s q%d w%d m%d n%d", k, q, lgwin, mode, n), s)
				}
			}
		}
		// random parameters
		for i := 0; i < 2600*scale; i++ {
			q, lgwin, mode := rng.Intn(12), 10+rng.Intn(15), rng.Intn(3)
			n := pickSize(rng)
			if n > 30000 && q >= 10 {
				n = 30000
			}
			p, k := genPlain(rng, n)
			s := libEncode(rng, p, q, lgwin, mode)
			valid = append(valid, s)
			if want["valid"] {
				add(fmt.Sprintf("valid:%s q%d w%d m%d n%d", k, q, lgwin, mode, n), s)
			}
		}
		// a few above 64 KB (beyond small windows, several meta-blocks)
		if want["valid"] {
			for i := 0; i < 6*scale; i++ {
				q, lgwin, mode := []int{1, 5, 9, 11, 3, 6}[i%6], []int{10, 16, 22, 12, 18, 24}[i%6], i%3
				n := 66000 + rng.Intn(60000)
				p, k := genPlain(rng, n)
				add(fmt.Sprintf("valid:big-%s q%d w%d m%d n%d", k, q, lgwin, mode, n), libEncode(rng, p, q, lgwin, mode))
			}
		}
	}
	if want["trunc"] {
		cnt := 0
		for _, s := range valid {
			if len(s) > 4 && len(s) <= 140 && cnt < 80*scale && rng.Intn(3) == 0 {
				cnt++
				for k := 0; k < len(s); k++ {
					add("trunc", s[:k])
				}
			}
		}
		// random truncations of longer streams
		for i := 0; i < 1500*scale; i++ {
			s := valid[rng.Intn(len(valid))]
			if len(s) > 0 && len(s) < 6000 {
				add("trunc", s[:rng.Intn(len(s))])
			}
		}
	}
	if want["mut"] {
		for i := 0; i < 12000*scale; i++ {
			s := valid[rng.Intn(len(valid))]
			if len(s) > 3000 {
				continue
			}
			add("mut", mutate(rng, s))
		}
		// trailing garbage after a complete stream
		for i := 0; i < 200*scale; i++ {
			s := valid[rng.Intn(len(valid))]
			if len(s) > 3000 {
				continue
			}
			add("mut:trail", append(append([]byte(nil), s...), genRandom(rng, 1+rng.Intn(4))...))
		}
	}
	if want["short"] {
		add("short", nil)
		for a := 0; a < 256; a++ {
			add("short", []byte{byte(a)})
		}
		for a := 0; a < 256; a++ {
			for b := 0; b < 256; b++ {
				add("short", []byte{byte(a), byte(b)})
			}
		}
		for i := 0; i < 20000*scale; i++ {
			add("short:rand", genRandom(rng, 3+rng.Intn(30)))
		}
	}
	if want["craft"] {
		genCrafted(rng, scale, add)
	}
	if want["xforms"] {
		special := xformsCheck()
		rng.Shuffle(len(special), func(a, b int) { special[a], special[b] = special[b], special[a] })
		for i := 0; i < len(special); i += 200 {
			add("xforms", craftDictRefs(rng, special[i:min(i+200, len(special))]))
		}
		// and a sample over all (word, transform) pairs
		for i := 0; i < 600*scale; i++ {
			var refs []dref
			for k := 0; k < 200; k++ {
				wl := 4 + rng.Intn(21)
				refs = append(refs, dref{wl, rng.Intn(1 << uint(brotli.VerifDictBitSizes()[wl])), rng.Intn(121)})
			}
			add("xforms", craftDictRefs(rng, refs))
		}
	}
	if want["testdata"] {
		files, _ := filepath.Glob("/repo/brotli/testdata/*.br")
		for _, f := range files {
			b, err := os.ReadFile(f)
			if err != nil {
				continue
			}
			add("testdata:"+filepath.Base(f), b)
		}
	}
}
