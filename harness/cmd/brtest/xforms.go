//go:build verif

package main

/*
#cgo LDFLAGS: -lbrotlicommon
#include <stdint.h>
// exported by libbrotlicommon (common/transform.h); the struct is opaque here
extern const void* BrotliGetTransforms(void);
extern int BrotliTransformDictionaryWord(uint8_t* dst, const uint8_t* word, int len, const void* transforms, int transform_idx);
static int lib_transform(uint8_t* dst, const uint8_t* word, int len, int idx) {
	return BrotliTransformDictionaryWord(dst, word, len, BrotliGetTransforms(), idx);
}
*/
import "C"

import (
	"bytes"
	"fmt"
	"math/rand"
	"unsafe"

	"github.com/dsnet/compress/brotli"
)

func libTransform(word []byte, tid int) []byte {
	var dst [64]byte
	n := C.lib_transform((*C.uint8_t)(unsafe.Pointer(&dst[0])), (*C.uint8_t)(unsafe.Pointer(&word[0])), C.int(len(word)), C.int(tid))
	return append([]byte(nil), dst[:int(n)]...)
}

type dref struct{ wl, idx, tid int }

// xformsCheck: every dictionary word x every transform, libbrotli's
// transform vs /repo/brotli's transformWord; returns the references whose
// word contains a byte >= 0xC0 under an uppercase transform (the cases with
// non-trivial rules) for the model to be checked on.
func xformsCheck() (special []dref) {
	dict := brotli.VerifDictLUT()
	ts := brotli.VerifTransforms()
	n, bad := 0, 0
	for wl := 4; wl <= 24; wl++ {
		nb := uint(brotli.VerifDictBitSizes()[wl])
		for idx := 0; idx < 1<<nb; idx++ {
			word := dict[brotli.VerifDictOffsets()[wl]+idx*wl:][:wl]
			hi := false
			for _, c := range word {
				if c >= 0xc0 {
					hi = true
				}
			}
			for tid := 0; tid < 121; tid++ {
				a := libTransform(word, tid)
				b := brotli.VerifTransformWord(word, tid)
				n++
				if !bytes.Equal(a, b) {
					bad++
					if bad < 20 {
						fmt.Printf("TRANSFORM MISMATCH wl=%d idx=%d tid=%d word=%x lib=%x go=%x\n", wl, idx, tid, word, a, b)
					}
				}
				if hi && (ts[tid].Op == 1 || ts[tid].Op == 2) {
					special = append(special, dref{wl, idx, tid})
				}
			}
		}
	}
	fmt.Printf("transforms: %d (word, transform) pairs, libbrotli vs brotli.transformWord mismatches: %d; %d pairs with bytes >= 0xC0 under uppercase transforms\n", n, bad, len(special))
	return special
}

// craftDictRefs: one stream (WBITS 24) whose single meta-block consists of the given references
func craftDictRefs(rng *rand.Rand, refs []dref) []byte {
	dict := brotli.VerifDictLUT()
	top := &itemList{}
	top.raw(15, 4) // WBITS 24
	body := &itemList{}
	body.count(1)
	body.count(1)
	body.count(1)
	npostfix, nd4 := rng.Intn(4), rng.Intn(16)
	ndirect := nd4 << uint(npostfix)
	body.raw(uint64(npostfix), 2)
	body.raw(uint64(nd4), 4)
	body.raw(uint64(rng.Intn(4)), 2)
	body.count(1)
	body.count(1)
	lt, it, dt := newPcode(256), newPcode(704), newPcode(16+ndirect+48<<uint(npostfix))
	body.def(lt)
	body.def(it)
	body.def(dt)
	pos := 0
	// a leading literal so that MLEN > 0 even if every word is empty
	icode, iextra, inb := findRange(gInsRanges, 1)
	for k, r := range refs {
		ilen := 0
		if k == 0 {
			ilen = 1
		}
		icode, iextra, inb = findRange(gInsRanges, ilen)
		ccode, cextra, cnb := findRange(gCpyRanges, r.wl)
		body.sym(it, iacSymbol(icode, ccode, false))
		body.raw(iextra, inb)
		body.raw(cextra, cnb)
		if ilen == 1 {
			body.sym(lt, 'x')
			pos++
		}
		nb := uint(brotli.VerifDictBitSizes()[r.wl])
		ds, de, dn, ok := distSymbol(pos+1+(r.tid<<nb|r.idx), npostfix, ndirect)
		if !ok {
			panic("distance not representable")
		}
		body.sym(dt, ds)
		body.raw(de, dn)
		word := dict[brotli.VerifDictOffsets()[r.wl]+r.idx*r.wl:][:r.wl]
		pos += len(libTransform(word, r.tid))
	}
	// if the last words are empty the stream would end before their commands:
	// finish with a literal-only command
	icode, iextra, inb = findRange(gInsRanges, 1)
	body.sym(it, iacSymbol(icode, 0, false))
	body.raw(iextra, inb)
	body.sym(lt, 'y')
	pos++
	g := &gen{rng: rng}
	g.mlenHeader(top, true, pos)
	top.items = append(top.items, body.items...)
	top.pad(0)
	return top.serialize(rng)
}
