// mkwit prints concrete streams used as witnesses in the Coq development.
package main

import (
	"bytes"
	"encoding/binary"
	"fmt"
	"hash/crc32"
	"io/ioutil"

	"github.com/dsnet/compress/xflate"
	"github.com/dsnet/compress/xflate/internal/meta"
)

func metaBlock(payload []byte, mode meta.FinalMode) []byte {
	var bb bytes.Buffer
	mw := meta.NewWriter(&bb)
	mw.FinalMode = mode
	mw.Write(payload)
	mw.Close()
	return bb.Bytes()
}

func uv(x uint64) []byte {
	var b [10]byte
	return append([]byte{}, b[:binary.PutUvarint(b[:], x)]...)
}

func coq(b []byte) string {
	s := "["
	for i, x := range b {
		if i > 0 {
			s += ";"
		}
		s += fmt.Sprint(x)
	}
	return s + "]"
}

func main() {
	payload := []byte{0, 0, 0xff, 0xff}
	n := len(payload) + 5
	chunk := append([]byte{1, byte(n), byte(n >> 8), byte(^n), byte(^n >> 8)}, payload...)
	var p []byte
	p = append(p, uv(0)...)
	p = append(p, uv(1)...)
	p = append(p, uv(uint64(len(chunk)))...)
	p = append(p, uv(uint64(n))...)
	p = append(p, uv(uint64(len(chunk)))...)
	p = append(p, uv(uint64(n))...)
	var c [4]byte
	binary.LittleEndian.PutUint32(c[:], crc32.ChecksumIEEE(p))
	idx := metaBlock(append(p, c[:]...), meta.FinalMeta)
	foot := metaBlock(append([]byte("XF\x00"), uv(uint64(len(idx)))...), meta.FinalStream)
	s := append(append(append([]byte{}, chunk...), idx...), foot...)
	xr, err := xflate.NewReader(bytes.NewReader(s), nil)
	if err != nil {
		panic(err)
	}
	out, err := ioutil.ReadAll(xr)
	fmt.Println("d7_stream", coq(s))
	fmt.Println("served", coq(out), err)
}
