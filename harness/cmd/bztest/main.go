// bztest: validation of the Coq bzip2 models (Bzip2/SpecR.v, Bzip2/SpecW.v)
// against libbzip2 (cgo) and /repo/bzip2.
//
// Build the model driver first (see /verif/ocaml/bzip2_driver.ml):
//
//	mkdir -p /tmp/bz && cd /tmp/bz
//	coqc -Q /verif/coq V /verif/coq/Bzip2/ExtractBz.v
//	ocamlfind ocamlopt -w -a bzmodel.mli bzmodel.ml /verif/ocaml/bzip2_driver.ml -o bzdriver
//
// then
//
//	cd /verif/harness && go run -tags verif ./cmd/bztest -driver /tmp/bz/bzdriver
//
// Flags: -seed, -scale (1.0 = about 22000 decoder and 1200 encoder inputs),
// -workers, -report, -noenc/-nodec/-nostages, -big=false (skip the 120 KB
// inputs), -encfile/-enclevel (one file through SpecW and bzip2.Writer).
//
// Decoder cases: every input goes to (1) /repo/bzip2.Reader, (2) libbzip2
// restarted per stream, (3) the extracted SpecR.  Encoder cases: SpecW's
// bytes are compared with bzip2.Writer's and fed to libbzip2.  With the
// `verif` tag the stages are compared one by one as well.
package main

import (
	"bufio"
	"bytes"
	"flag"
	"fmt"
	"io"
	"io/ioutil"
	"math/rand"
	"os"
	"os/exec"
	"sort"
	"strconv"
	"strings"
	"sync"
	"time"

	"github.com/dsnet/compress/bzip2"
	cerrors "github.com/dsnet/compress/internal/errors"
	"github.com/dsnet/compress/xflate/verifharness/ref"
)

// ---------------------------------------------------------------- model --

type model struct {
	cmd *exec.Cmd
	in  io.WriteCloser
	out *bufio.Reader
}

func startModel(path string) *model {
	cmd := exec.Command("/bin/sh", "-c", "ulimit -s unlimited 2>/dev/null || ulimit -s 4000000 2>/dev/null; exec "+path)
	in, _ := cmd.StdinPipe()
	out, _ := cmd.StdoutPipe()
	cmd.Stderr = os.Stderr
	if err := cmd.Start(); err != nil {
		panic(err)
	}
	return &model{cmd: cmd, in: in, out: bufio.NewReaderSize(out, 1<<22)}
}

func (m *model) ask(line string) string {
	if _, err := io.WriteString(m.in, line+"\n"); err != nil {
		return "model-dead"
	}
	resp, err := m.out.ReadString('\n')
	if err != nil {
		return "model-dead"
	}
	return strings.TrimRight(resp, "\n")
}

func (m *model) close() { m.in.Close(); m.cmd.Wait() }

func hx(b []byte) string {
	if len(b) == 0 {
		return "-"
	}
	const d = "0123456789abcdef"
	o := make([]byte, 2*len(b))
	for i, c := range b {
		o[2*i] = d[c>>4]
		o[2*i+1] = d[c&15]
	}
	return string(o)
}

func unhx(s string) []byte {
	if s == "-" {
		return nil
	}
	o := make([]byte, len(s)/2)
	for i := range o {
		v, _ := strconv.ParseUint(s[2*i:2*i+2], 16, 8)
		o[i] = byte(v)
	}
	return o
}

// --------------------------------------------------------- observations --

type obs struct {
	class string // nil UEOF Corrupted Deprecated ...
	out   []byte
	used  int
}

func goRead(data []byte) (o obs) {
	defer func() {
		if r := recover(); r != nil {
			o.class = fmt.Sprintf("Panic(%v)", r)
		}
	}()
	zr, _ := bzip2.NewReader(bytes.NewReader(data), nil)
	out, err := ioutil.ReadAll(zr)
	o.out = out
	o.used = int(zr.InputOffset)
	switch {
	case err == nil:
		o.class = "nil"
	case err == io.ErrUnexpectedEOF:
		o.class = "UEOF"
	case cerrors.IsCorrupted(err):
		o.class = "Corrupted"
	case cerrors.IsDeprecated(err):
		o.class = "Deprecated"
	default:
		o.class = "Other(" + err.Error() + ")"
	}
	return o
}

func goWrite(data []byte, level int, split []int) []byte {
	var bb bytes.Buffer
	zw, err := bzip2.NewWriter(&bb, &bzip2.WriterConfig{Level: level})
	if err != nil {
		panic(err)
	}
	rest := data
	for _, n := range split {
		if n > len(rest) {
			n = len(rest)
		}
		zw.Write(rest[:n])
		rest = rest[n:]
	}
	zw.Write(rest)
	if err := zw.Close(); err != nil {
		panic(err)
	}
	return bb.Bytes()
}

type libObs struct {
	ok      bool
	out     []byte
	used    int
	lasterr int
	capped  bool
}

func libRead(data []byte, capOut int) libObs {
	out, ok, used, ns, le := ref.BZDecompress(data, capOut)
	if ok && ns == 0 { // no stream at all (empty input): the reference loop never ran
		ok, le = false, -7
	}
	return libObs{ok: ok, out: out, used: used, lasterr: le, capped: le == -101}
}

func modelRead(m *model, id string, data []byte) obs {
	resp := m.ask(id + " dec " + hx(data))
	f := strings.Fields(resp)
	if len(f) != 4 || f[0] != id {
		return obs{class: "Model(" + resp[:min(len(resp), 60)] + ")"}
	}
	u, _ := strconv.Atoi(f[3])
	return obs{class: f[1], out: unhx(f[2]), used: u}
}

func min(a, b int) int {
	if a < b {
		return a
	}
	return b
}

func prefixComparable(a, b []byte) bool {
	n := min(len(a), len(b))
	return bytes.Equal(a[:n], b[:n])
}

// ---------------------------------------------------------------- cases --

type dcase struct {
	kind  string // origin of the input
	data  []byte
	degen bool // synthesised with a degenerate tree in use
	synth bool
	capO  int
}

type ecase struct {
	kind  string
	level int
	data  []byte
}

type stats struct {
	mu sync.Mutex

	total, accepted, synth, synthDegen, synthDegenAccepted int
	capped                                                 int
	modelLibAccept, modelLibOut, modelLibClass             int // disagreements
	goLib, goModelClass, goModelOut, goModelUsed           int
	modelLibUsed                                           int
	byKind                                                 map[string][2]int // kind -> (total, accepted)
	classPairs                                             map[string]int    // go/model class pairs
	libClassPairs                                          map[string]int    // model class / lib lasterr
	report                                                 []string
	encTotal, encEqual, encLibOK                           int
	slowest                                                time.Duration
	modelTime                                              time.Duration
	modelBytes                                             int
	targets                                                []string
	deprecatedLibOK                                        int
}

func (s *stats) note(format string, a ...interface{}) {
	if len(s.report) < 400 {
		s.report = append(s.report, fmt.Sprintf(format, a...))
	}
}

func short(b []byte) string {
	if len(b) > 2048 {
		return hx(b[:2048]) + fmt.Sprintf("...(%d bytes)", len(b))
	}
	return hx(b)
}

func runDecodeCase(m *model, id string, c dcase, st *stats) {
	g := goRead(c.data)
	l := libRead(c.data, c.capO)
	t0 := time.Now()
	mo := modelRead(m, id, c.data)
	dt := time.Since(t0)

	st.mu.Lock()
	defer st.mu.Unlock()
	if strings.HasPrefix(c.kind, "target-") {
		st.targets = append(st.targets, fmt.Sprintf("%-34s go=%s/%dB/off%d  lib.ok=%v/err%d/%dB  model=%s/%dB/used%d  (input %d bytes, model %v)",
			c.kind, g.class, len(g.out), g.used, l.ok, l.lasterr, len(l.out), mo.class, len(mo.out), mo.used, len(c.data), dt.Round(time.Millisecond)))
	}
	st.total++
	st.modelTime += dt
	st.modelBytes += len(mo.out)
	if dt > st.slowest {
		st.slowest = dt
	}
	if c.synth {
		st.synth++
	}
	if c.degen {
		st.synthDegen++
	}
	if l.capped {
		st.capped++
		return
	}
	bk := st.byKind[c.kind]
	bk[0]++
	modelOK := mo.class == "nil"
	if l.ok {
		st.accepted++
		bk[1]++
		if c.degen {
			st.synthDegenAccepted++
		}
	}
	st.byKind[c.kind] = bk

	// model vs libbzip2 (validates the port)
	if mo.class == "Deprecated" && g.class == "Deprecated" && l.ok {
		// the "randomised" bit on a block too short to be affected: libbzip2
		// still decodes these; model and Reader refuse them by design
		st.deprecatedLibOK++
		return
	}
	if modelOK != l.ok {
		st.modelLibAccept++
		st.note("MODEL/LIB acceptance: kind=%s model=%s lib.ok=%v lasterr=%d input=%s", c.kind, mo.class, l.ok, l.lasterr, short(c.data))
	} else if l.ok && !bytes.Equal(mo.out, l.out) {
		st.modelLibOut++
		st.note("MODEL/LIB output: kind=%s input=%s", c.kind, short(c.data))
	} else if !l.ok && !prefixComparable(mo.out, l.out) {
		st.modelLibOut++
		st.note("MODEL/LIB output not prefix-comparable: kind=%s model=%s input=%s", c.kind, mo.class, short(c.data))
	}
	if l.ok && mo.used != l.used {
		st.modelLibUsed++
	}
	libClass := "ok"
	switch l.lasterr {
	case 0:
	case -7:
		libClass = "UEOF"
	case -4:
		libClass = "DATA"
	case -5:
		libClass = "MAGIC"
	default:
		libClass = strconv.Itoa(l.lasterr)
	}
	st.libClassPairs["model="+mo.class+" lib="+libClass]++

	// /repo/bzip2.Reader vs libbzip2
	goOK := g.class == "nil"
	if goOK != l.ok {
		st.goLib++
		st.note("GO/LIB acceptance: kind=%s go=%s lib.ok=%v lasterr=%d model=%s input=%s", c.kind, g.class, l.ok, l.lasterr, mo.class, short(c.data))
	} else if l.ok && !bytes.Equal(g.out, l.out) {
		st.goLib++
		st.note("GO/LIB output: kind=%s input=%s", c.kind, short(c.data))
	} else if !l.ok && !prefixComparable(g.out, l.out) {
		st.goLib++
		st.note("GO/LIB output not prefix-comparable: kind=%s go=%s input=%s", c.kind, g.class, short(c.data))
	}

	// /repo/bzip2.Reader vs model
	st.classPairs["go="+g.class+" model="+mo.class]++
	if g.class != mo.class {
		st.goModelClass++
		if goOK != modelOK || strings.HasPrefix(g.class, "Panic") || strings.HasPrefix(g.class, "Other") {
			st.note("GO/MODEL class: kind=%s go=%s model=%s input=%s", c.kind, g.class, mo.class, short(c.data))
		} else if st.goModelClass <= 40 {
			st.note("GO/MODEL class (both reject): kind=%s go=%s model=%s lib=%s input=%s", c.kind, g.class, mo.class, libClass, short(c.data))
		}
	}
	if !bytes.Equal(g.out, mo.out) {
		st.goModelOut++
		if st.goModelOut <= 40 {
			st.note("GO/MODEL output: kind=%s go=%s(%d bytes) model=%s(%d bytes) input=%s", c.kind, g.class, len(g.out), mo.class, len(mo.out), short(c.data))
		}
	}
	if g.used != mo.used {
		st.goModelUsed++
		st.classPairs["used-differs go="+g.class+" model="+mo.class]++
		if g.class == mo.class && (g.class != "UEOF" || st.classPairs["used-differs go=UEOF model=UEOF"] <= 6) && st.goModelUsed <= 60 {
			st.note("GO/MODEL used: kind=%s class=%s go=%d model=%d len=%d input=%s", c.kind, g.class, g.used, mo.used, len(c.data), short(c.data))
		}
	}
}

func runEncodeCase(m *model, id string, c ecase, st *stats) {
	want := goWrite(c.data, c.level, nil)
	resp := m.ask(fmt.Sprintf("%s enc %d %s", id, c.level, hx(c.data)))
	f := strings.Fields(resp)
	var got []byte
	if len(f) == 2 && f[0] == id {
		got = unhx(f[1])
	}
	l := libRead(want, len(c.data)+1024)
	st.mu.Lock()
	defer st.mu.Unlock()
	st.encTotal++
	if bytes.Equal(got, want) {
		st.encEqual++
	} else {
		st.note("ENC differs: kind=%s level=%d len=%d resp=%s data=%s", c.kind, c.level, len(c.data), resp[:min(len(resp), 80)], short(c.data))
	}
	if l.ok && bytes.Equal(l.out, c.data) {
		st.encLibOK++
	} else {
		st.note("ENC: libbzip2 does not decode bzip2.Writer output: kind=%s level=%d data=%s", c.kind, c.level, short(c.data))
	}
}

// ------------------------------------------------------------ plaintexts --

var words = strings.Fields(`the of and to in is that for it as was with be by on not he this are or his from at which but have an had they you were their one all we can her has there been if more when will would who so no out up into than them only its time some could these two may then do first any my now such like our over man me even most made after also did many before must through back years where much your way well down should because each just those people how too little state good very make world still own see men work long get here between both life being under never day same another know while last might us great old year off come since against go came right used take three`)

func genText(rng *rand.Rand, n int) []byte {
	var bb bytes.Buffer
	for bb.Len() < n {
		w := words[rng.Intn(len(words))]
		if rng.Intn(9) == 0 {
			w = strings.Title(w)
		}
		bb.WriteString(w)
		switch rng.Intn(12) {
		case 0:
			bb.WriteString(". ")
		case 1:
			bb.WriteString(",\n")
		default:
			bb.WriteByte(' ')
		}
	}
	return bb.Bytes()[:n]
}

func genAlphabet(rng *rand.Rand, n, k int) []byte {
	al := rng.Perm(256)[:k]
	b := make([]byte, n)
	skew := rng.Intn(3)
	for i := range b {
		j := rng.Intn(k)
		if skew > 0 {
			j = min(j, rng.Intn(k))
		}
		if skew > 1 {
			j = min(j, rng.Intn(k))
		}
		b[i] = byte(al[j])
	}
	return b
}

func genRuns(rng *rand.Rand, n int) []byte {
	var b []byte
	for len(b) < n {
		c := byte(rng.Intn(256))
		if rng.Intn(2) == 0 {
			c = byte('a' + rng.Intn(3))
		}
		var l int
		switch rng.Intn(6) {
		case 0:
			l = 1 + rng.Intn(3)
		case 1:
			l = 4 + rng.Intn(3)
		case 2:
			l = 250 + rng.Intn(20)
		case 3:
			l = 1 + rng.Intn(300)
		case 4:
			l = 508 + rng.Intn(8)
		default:
			l = 1
		}
		for i := 0; i < l; i++ {
			b = append(b, c)
		}
	}
	return b[:n]
}

func genPlain(rng *rand.Rand, maxLen int) (string, []byte) {
	n := rng.Intn(maxLen + 1)
	if rng.Intn(3) == 0 {
		n = rng.Intn(min(maxLen, 400) + 1)
	}
	switch rng.Intn(8) {
	case 0:
		return "text", genText(rng, n)
	case 1:
		b := make([]byte, n)
		rng.Read(b)
		return "random", b
	case 2:
		return "alphabet", genAlphabet(rng, n, 1+rng.Intn(256))
	case 3:
		return "alphabet-small", genAlphabet(rng, n, 1+rng.Intn(4))
	case 4:
		return "runs", genRuns(rng, n)
	case 5: // one run of 1..300 equal bytes, maybe with neighbours
		l := 1 + rng.Intn(300)
		b := bytes.Repeat([]byte{byte(rng.Intn(256))}, l)
		if rng.Intn(2) == 0 {
			b = append(genText(rng, rng.Intn(20)), b...)
			b = append(b, genText(rng, rng.Intn(20))...)
		}
		return "run1-300", b
	case 6: // periodic
		p := genText(rng, 1+rng.Intn(40))
		n = min(n, 3000)
		var b []byte
		for len(b) < n {
			b = append(b, p...)
		}
		return "periodic", b
	default:
		t := genText(rng, n)
		for i := 0; i < len(t)/50; i++ {
			t[rng.Intn(len(t))] = byte(rng.Intn(256))
		}
		return "text-noise", t
	}
}

// ------------------------------------------------------------- mutations --

func mutate(rng *rand.Rand, s []byte) (string, []byte) {
	b := append([]byte(nil), s...)
	if len(b) == 0 {
		return "mut-garbage", []byte{byte(rng.Intn(256))}
	}
	switch rng.Intn(10) {
	case 0, 1, 2:
		i := rng.Intn(len(b))
		b[i] ^= 1 << uint(rng.Intn(8))
		return "mut-bitflip", b
	case 3:
		i := rng.Intn(len(b))
		b[i] = byte(rng.Intn(256))
		return "mut-byte", b
	case 4, 5:
		return "mut-trunc", b[:rng.Intn(len(b))]
	case 6:
		i := rng.Intn(len(b))
		return "mut-delete", append(b[:i], b[i+1:]...)
	case 7:
		i := rng.Intn(len(b) + 1)
		b = append(b[:i], append([]byte{byte(rng.Intn(256))}, b[i:]...)...)
		return "mut-insert", b
	case 8:
		g := make([]byte, 1+rng.Intn(6))
		rng.Read(g)
		if rng.Intn(3) == 0 {
			g = []byte("BZh")[:1+rng.Intn(3)]
		}
		return "mut-append", append(b, g...)
	default: // flip a bit near the start (headers, maps, selectors, tables)
		i := rng.Intn(min(len(b), 40))
		b[i] ^= 1 << uint(rng.Intn(8))
		return "mut-headflip", b
	}
}

// ------------------------------------------------------------------ main --

func main() {
	defDriver := os.Getenv("BZ_DRIVER")
	if defDriver == "" {
		defDriver = "/verif/bin/bzdriver"
	}
	driver := flag.String("driver", defDriver, "path of the extracted model driver (or $BZ_DRIVER)")
	seed := flag.Int64("seed", 1, "random seed")
	workers := flag.Int("workers", 12, "parallel model processes")
	scale := flag.Float64("scale", 1.0, "multiplier on the number of cases")
	reportPath := flag.String("report", "/tmp/bztest-report.txt", "where to write the full report")
	skipEnc := flag.Bool("noenc", false, "skip encoder cases")
	skipDec := flag.Bool("nodec", false, "skip decoder cases")
	skipStages := flag.Bool("nostages", false, "skip stage comparisons")
	big := flag.Bool("big", true, "include the few 120 KB cases")
	encFile := flag.String("encfile", "", "only compare SpecW with bzip2.Writer on this file (level from -enclevel)")
	encLevel := flag.Int("enclevel", 9, "level for -encfile")
	flag.Parse()
	if *encFile != "" {
		data, err := ioutil.ReadFile(*encFile)
		if err != nil {
			panic(err)
		}
		m := startModel(*driver)
		t0 := time.Now()
		resp := m.ask(fmt.Sprintf("x enc %d %s", *encLevel, hx(data)))
		m.close()
		want := goWrite(data, *encLevel, nil)
		fmt.Printf("%d bytes, level %d: model %v, equal to bzip2.Writer: %v (%d bytes)\n", len(data), *encLevel,
			time.Since(t0).Round(time.Millisecond), strings.TrimPrefix(resp, "x ") == hx(want), len(want))
		return
	}

	rng := rand.New(rand.NewSource(*seed))
	N := func(n int) int { return int(float64(n)**scale + 0.5) }

	st := &stats{byKind: map[string][2]int{}, classPairs: map[string]int{}, libClassPairs: map[string]int{}}

	// ---- decoder inputs
	var dcases []dcase
	add := func(kind string, data []byte, synth, degen bool, capO int) {
		if capO < 1<<22 {
			capO = 1 << 22
		}
		dcases = append(dcases, dcase{kind: kind, data: data, synth: synth, degen: degen, capO: capO})
	}
	var valid [][]byte // pool of valid streams for concatenation and mutation
	var validCap []int

	if !*skipDec {
		add("empty-input", nil, false, false, 0)
		for lvl := 1; lvl <= 9; lvl++ {
			add("lib-empty", ref.BZCompress(nil, lvl), false, false, 0)
			add("go-empty", goWrite(nil, lvl, nil), false, false, 0)
		}
		// compressor outputs
		for i := 0; i < N(900); i++ {
			maxLen := 3000
			if i%10 == 0 {
				maxLen = 30000
			}
			kind, p := genPlain(rng, maxLen)
			lvl := 1 + rng.Intn(9)
			var s []byte
			if i%2 == 0 {
				s = ref.BZCompress(p, lvl)
				kind = "lib-" + kind
			} else {
				s = goWrite(p, lvl, nil)
				kind = "gow-" + kind
			}
			add(kind, s, false, false, 8*len(p))
			valid = append(valid, s)
			validCap = append(validCap, 8*len(p))
		}
		if *big {
			for i := 0; i < 4; i++ {
				var p []byte
				switch i {
				case 0:
					p = genText(rng, 120000)
				case 1:
					p = make([]byte, 120000)
					rng.Read(p)
				case 2:
					p = genRuns(rng, 130000)
				default:
					p = genAlphabet(rng, 120000, 7)
				}
				add("lib-big", ref.BZCompress(p, 1), false, false, 8*len(p))
				add("gow-big", goWrite(p, 1, nil), false, false, 8*len(p))
			}
		}
		// synthesised streams
		for i := 0; i < N(4200); i++ {
			s, info := synthStream(rng, synthOptsRandom(rng))
			add("synth-"+info.kind, s, true, info.degen, 1<<23)
			if info.expectOK {
				valid = append(valid, s)
				validCap = append(validCap, 1<<23)
			}
		}
		// targeted limit cases
		for _, t := range targetedCases(rng) {
			add(t.kind, t.data, true, false, 1<<25)
		}
		// concatenations
		for i := 0; i < N(500); i++ {
			k := 2 + rng.Intn(3)
			var s []byte
			capO := 0
			for j := 0; j < k; j++ {
				x := rng.Intn(len(valid))
				if len(valid[x]) > 6000 {
					x = rng.Intn(len(valid))
				}
				s = append(s, valid[x]...)
				capO += validCap[x]
			}
			kind := "concat"
			switch rng.Intn(8) {
			case 0:
				s = append(s, 0)
				kind = "concat-trailing-zero"
			case 1:
				s = s[:len(s)-1-rng.Intn(8)]
				kind = "concat-trunc"
			}
			add(kind, s, false, false, capO)
		}
		// mutations and truncations of everything so far
		base := len(dcases)
		for i := 0; i < N(16500); i++ {
			c := dcases[rng.Intn(base)]
			if len(c.data) > 8000 && rng.Intn(4) != 0 {
				c = dcases[rng.Intn(base)]
			}
			if len(c.data) > 40000 {
				continue
			}
			kind, b := mutate(rng, c.data)
			// mutated synthesised streams stay in the "synth" statistics only
			// through their kind name
			capO := c.capO
			if capO < 1<<24 {
				capO = 1 << 24
			}
			add(kind+"/"+strings.SplitN(c.kind, "-", 2)[0], b, false, false, capO)
		}
		// every truncation of one small stream of each origin
		for _, s := range [][]byte{ref.BZCompress([]byte("hello, hello, hello world"), 9), goWrite(genRuns(rng, 700), 1, nil)} {
			for i := 0; i < len(s); i++ {
				add("trunc-all", s[:i], false, false, 0)
			}
		}
	}

	// ---- encoder inputs
	var ecases []ecase
	if !*skipEnc {
		for lvl := 1; lvl <= 9; lvl++ {
			ecases = append(ecases, ecase{"empty", lvl, nil})
		}
		for l := 1; l <= 300; l++ {
			ecases = append(ecases, ecase{"run-exact", 1 + rng.Intn(9), bytes.Repeat([]byte{byte(rng.Intn(256))}, l)})
		}
		for k := 1; k <= 256; k += 1 + k/16 {
			ecases = append(ecases, ecase{"alphabet-k", 1 + rng.Intn(9), genAlphabet(rng, 200+rng.Intn(3000), k)})
		}
		for i := 0; i < N(800); i++ {
			maxLen := 4000
			if i%8 == 0 {
				maxLen = 20000
			}
			kind, p := genPlain(rng, maxLen)
			ecases = append(ecases, ecase{kind, 1 + rng.Intn(9), p})
		}
		// symbol counts that force many trees
		for _, n := range []int{190, 199, 200, 201, 599, 600, 1199, 1200, 2399, 2400, 2401} {
			b := make([]byte, n)
			rng.Read(b)
			ecases = append(ecases, ecase{"tree-threshold", 1 + rng.Intn(9), b})
		}
		if *big {
			p := genText(rng, 120000)
			ecases = append(ecases, ecase{"big-text", 1, p})
			r := genRuns(rng, 230000)
			ecases = append(ecases, ecase{"big-runs", 1, r})
			q := make([]byte, 101000)
			rng.Read(q)
			ecases = append(ecases, ecase{"big-random", 1, q})
		}
	}

	fmt.Printf("decoder cases: %d, encoder cases: %d\n", len(dcases), len(ecases))

	// ---- run
	t0 := time.Now()
	var wg sync.WaitGroup
	type job struct {
		i   int
		dec bool
	}
	jobs := make(chan job, 1024)
	for w := 0; w < *workers; w++ {
		wg.Add(1)
		go func(w int) {
			defer wg.Done()
			m := startModel(*driver)
			defer m.close()
			for j := range jobs {
				id := fmt.Sprintf("w%dc%d", w, j.i)
				if j.dec {
					runDecodeCase(m, id, dcases[j.i], st)
				} else {
					runEncodeCase(m, id, ecases[j.i], st)
				}
			}
		}(w)
	}
	// big cases first so that they do not form the tail
	order := make([]int, len(ecases))
	for i := range order {
		order[i] = i
	}
	sort.SliceStable(order, func(a, b int) bool { return len(ecases[order[a]].data) > len(ecases[order[b]].data) })
	for _, i := range order {
		jobs <- job{i, false}
	}
	dorder := make([]int, len(dcases))
	for i := range dorder {
		dorder[i] = i
	}
	sort.SliceStable(dorder, func(a, b int) bool { return len(dcases[dorder[a]].data) > len(dcases[dorder[b]].data) })
	for _, i := range dorder {
		jobs <- job{i, true}
	}
	close(jobs)
	wg.Wait()

	// ---- stages
	var stageLines []string
	if !*skipStages {
		m := startModel(*driver)
		stageLines = runStages(m, rng, *scale, st)
		m.close()
	}

	// ---- report
	var rb bytes.Buffer
	fmt.Fprintf(&rb, "elapsed %v\n", time.Since(t0).Round(time.Second))
	fmt.Fprintf(&rb, "DECODER: %d inputs, %d accepted by libbzip2, %d synthesised (%d with a degenerate tree in use, %d of those accepted), %d skipped (output cap)\n",
		st.total, st.accepted, st.synth, st.synthDegen, st.synthDegenAccepted, st.capped)
	fmt.Fprintf(&rb, "  model vs libbzip2: acceptance disagreements %d, output disagreements %d, used-bytes differences on accepted %d\n", st.modelLibAccept, st.modelLibOut, st.modelLibUsed)
	fmt.Fprintf(&rb, "  deprecated feature (randomised block) accepted by libbzip2, Deprecated in model and Reader: %d (not counted as disagreements)\n", st.deprecatedLibOK)
	fmt.Fprintf(&rb, "  bzip2.Reader vs libbzip2: disagreements %d\n", st.goLib)
	fmt.Fprintf(&rb, "  bzip2.Reader vs model: class differences %d, output differences %d, InputOffset differences %d\n", st.goModelClass, st.goModelOut, st.goModelUsed)
	if st.total > 0 {
		fmt.Fprintf(&rb, "  model time: total %v, slowest case %v, output bytes %d\n", st.modelTime.Round(time.Millisecond), st.slowest.Round(time.Millisecond), st.modelBytes)
	}
	fmt.Fprintf(&rb, "ENCODER: %d inputs, %d byte-for-byte equal to bzip2.Writer, %d Writer outputs decoded by libbzip2\n", st.encTotal, st.encEqual, st.encLibOK)
	for _, l := range stageLines {
		fmt.Fprintln(&rb, l)
	}
	keys := func(m map[string]int) []string {
		var k []string
		for x := range m {
			k = append(k, x)
		}
		sort.Strings(k)
		return k
	}
	sort.Strings(st.targets)
	fmt.Fprintln(&rb, "targeted cases:")
	for _, l := range st.targets {
		fmt.Fprintln(&rb, "  "+l)
	}
	fmt.Fprintln(&rb, "class pairs (Go reader / model):")
	for _, k := range keys(st.classPairs) {
		fmt.Fprintf(&rb, "  %-60s %d\n", k, st.classPairs[k])
	}
	fmt.Fprintln(&rb, "class pairs (model / libbzip2 last error):")
	for _, k := range keys(st.libClassPairs) {
		fmt.Fprintf(&rb, "  %-60s %d\n", k, st.libClassPairs[k])
	}
	fmt.Fprintln(&rb, "inputs by kind (total, accepted):")
	var kk []string
	for k := range st.byKind {
		kk = append(kk, k)
	}
	sort.Strings(kk)
	for _, k := range kk {
		fmt.Fprintf(&rb, "  %-40s %6d %6d\n", k, st.byKind[k][0], st.byKind[k][1])
	}
	fmt.Fprintf(&rb, "notes (%d):\n", len(st.report))
	for _, l := range st.report {
		fmt.Fprintln(&rb, l)
	}
	ioutil.WriteFile(*reportPath, rb.Bytes(), 0644)
	s := rb.String()
	if len(s) > 30000 {
		s = s[:30000] + "\n... (see " + *reportPath + ")\n"
	}
	fmt.Print(s)
}
