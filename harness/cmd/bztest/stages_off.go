//go:build !verif
// +build !verif

package main

import "math/rand"

// Stage comparisons need /repo/bzip2/verif_export.go (build tag `verif`).
func runStages(m *model, rng *rand.Rand, scale float64, st *stats) []string {
	return []string{"STAGES: skipped (build without -tags verif)"}
}
