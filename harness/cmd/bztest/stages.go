//go:build verif
// +build verif

package main

// Stage-by-stage comparison of the Coq model with the unexported stages of
// /repo/bzip2 (through verif_export.go).

import (
	"bytes"
	"fmt"
	"math/rand"
	"strconv"
	"strings"

	"github.com/dsnet/compress/bzip2"
)

func csvU32(v []uint32) string {
	if len(v) == 0 {
		return "-"
	}
	s := make([]string, len(v))
	for i, x := range v {
		s[i] = strconv.Itoa(int(x))
	}
	return strings.Join(s, ",")
}

func csvU16(v []uint16) string {
	if len(v) == 0 {
		return "-"
	}
	s := make([]string, len(v))
	for i, x := range v {
		s[i] = strconv.Itoa(int(x))
	}
	return strings.Join(s, ",")
}

type stageStat struct {
	name       string
	total, bad int
}

func runStages(m *model, rng *rand.Rand, scale float64, st *stats) []string {
	N := func(n int) int { return int(float64(n)*scale + 0.5) }
	var res []*stageStat
	newStage := func(name string) *stageStat { s := &stageStat{name: name}; res = append(res, s); return s }
	check := func(s *stageStat, ok bool, format string, a ...interface{}) {
		s.total++
		if !ok {
			s.bad++
			st.note("STAGE "+s.name+": "+format, a...)
		}
	}
	ask := func(req string) string { return strings.TrimPrefix(m.ask("s "+req), "s ") }

	// ---- crc
	s := newStage("crc")
	for i := 0; i < N(200); i++ {
		_, p := genPlain(rng, 600)
		want := strconv.Itoa(int(bzip2.VerifCRC(p)))
		got := ask("crc " + hx(p))
		check(s, got == want && uint32(mustAtoi(want)) == crcBZ(p), "data=%s go=%s model=%s", hx(p), want, got)
	}

	// ---- RLE1 encoding with the block-full rules
	s = newStage("rle1-encode")
	for i := 0; i < N(4000); i++ {
		L := 1 + rng.Intn(40)
		if i%4 == 0 {
			L = 200 + rng.Intn(400)
		}
		var p []byte
		for len(p) < 2*L+rng.Intn(20) {
			c := byte('a' + rng.Intn(2))
			l := 1
			switch rng.Intn(5) {
			case 0:
				l = 1 + rng.Intn(8)
			case 1:
				l = 250 + rng.Intn(12)
			case 2:
				l = rng.Intn(2*L + 2)
			case 3:
				l = 3 + rng.Intn(3)
			}
			p = append(p, bytes.Repeat([]byte{c}, l)...)
		}
		blk, consumed, _ := bzip2.VerifRLE1Encode(L, p)
		want := fmt.Sprintf("%s %d %d", hx(blk), bzip2.VerifCRC(p[:consumed]), len(p)-consumed)
		got := ask(fmt.Sprintf("rle1 %d %s", L, hx(p)))
		check(s, got == want, "L=%d data=%s go=%s model=%s", L, hx(p), want, got)
	}

	// ---- BWT
	s = newStage("bwt-encode")
	for i := 0; i < N(1500); i++ {
		n := 1 + rng.Intn(300)
		var p []byte
		switch rng.Intn(4) {
		case 0:
			p = genAlphabet(rng, n, 1+rng.Intn(3))
		case 1: // periodic
			q := genAlphabet(rng, 1+rng.Intn(6), 1+rng.Intn(3))
			for len(p) < n {
				p = append(p, q...)
			}
		case 2:
			p = genText(rng, n)
		default:
			p = genAlphabet(rng, n, 1+rng.Intn(256))
		}
		out, ptr := bzip2.VerifBWTEncode(p)
		want := fmt.Sprintf("%s %d", hx(out), ptr)
		got := ask("bwt " + hx(p))
		check(s, got == want, "data=%s go=%s model=%s", hx(p), want, got)
	}

	// ---- MTF + RLE2
	s = newStage("mtf-encode")
	for i := 0; i < N(1500); i++ {
		n := 1 + rng.Intn(400)
		p := genAlphabet(rng, n, 1+rng.Intn(12))
		if i%3 == 0 {
			p = genRuns(rng, n)
		}
		var used [256]bool
		for _, c := range p {
			used[c] = true
		}
		if i%5 == 0 {
			used[rng.Intn(256)] = true
		}
		var dict []byte
		for c, u := range used {
			if u {
				dict = append(dict, byte(c))
			}
		}
		syms, err := bzip2.VerifMTFEncode(dict, p)
		want := csvU16(syms)
		got := ask("mtf " + hx(dict) + " " + hx(p))
		check(s, err == nil && got == want, "dict=%s data=%s go=%s model=%s", hx(dict), hx(p), want, got)
	}

	// ---- code lengths (two-queue Huffman + length limiting)
	s = newStage("generate-lengths")
	limited := 0
	for i := 0; i < N(1500); i++ {
		n := 3 + rng.Intn(256)
		cnts := make([]uint32, n)
		switch i % 6 {
		case 0: // Fibonacci: deep trees, forces the 20-bit limit when n > 21
			a, b := uint32(1), uint32(1)
			perm := rng.Perm(n)
			for k := 0; k < n && k < 40; k++ {
				cnts[perm[k]] = a
				a, b = b, a+b
			}
		case 1: // powers of two
			perm := rng.Perm(n)
			for k := 0; k < n && k < 30; k++ {
				cnts[perm[k]] = 1 << uint(k)
			}
		case 2: // geometric with noise
			v := 1.0
			f := 1.3 + rng.Float64()
			for k := range cnts {
				cnts[k] = uint32(v) + uint32(rng.Intn(2))
				v *= f
				if v > 1e9 {
					v = 1
				}
			}
		case 3: // many zeros and ties
			for k := range cnts {
				if rng.Intn(3) == 0 {
					cnts[k] = uint32(rng.Intn(4))
				}
			}
		case 4:
			for k := range cnts {
				cnts[k] = uint32(rng.Intn(50))
			}
		default:
			for k := range cnts {
				cnts[k] = uint32(rng.Intn(1 << uint(1+rng.Intn(20))))
			}
		}
		lens, err := bzip2.VerifGenerateLengths(cnts)
		want := csvU32(lens)
		got := ask("genlen " + csvU32(cnts))
		for _, l := range lens {
			if l == 20 {
				limited++
				break
			}
		}
		check(s, err == nil && got == want, "counts=%s go=%s model=%s", csvU32(cnts), want, got)
	}

	// ---- degenerate trees: every code produced by handleDegenerateCodes
	// must be read by the model's GET_MTF_VAL walk as the same symbol (or as
	// corrupted for the filler symbols >= 258) after exactly Len bits, and
	// one bit less must leave the model wanting more input.
	s = newStage("degenerate-codes")
	var vectors [][]uint32
	var rec func(v []uint32, n int)
	rec = func(v []uint32, n int) {
		if len(v) == n {
			vectors = append(vectors, append([]uint32(nil), v...))
			return
		}
		for l := uint32(1); l <= 5; l++ {
			rec(append(v, l), n)
		}
	}
	if scale >= 1 {
		rec(nil, 2)
		rec(nil, 3)
		rec(nil, 4)
	} else {
		rec(nil, 3)
	}
	for i := 0; i < N(700); i++ {
		a := 3 + rng.Intn(256)
		if i%3 == 0 {
			a = 3 + rng.Intn(12)
		}
		l, _ := genLens(rng, a)
		v := make([]uint32, a)
		for k := range v {
			v[k] = uint32(l[k])
		}
		vectors = append(vectors, v)
	}
	codesChecked := 0
	for _, v := range vectors {
		codes := bzip2.VerifHandleDegenerateCodes(v)
		step := 1
		if len(codes) > 60 {
			step = len(codes) / 40
		}
		for ci := rng.Intn(step); ci < len(codes); ci += step {
			c := codes[ci]
			bits := make([]byte, c.Len)
			for k := range bits {
				bits[k] = '0' + byte((c.Val>>uint(k))&1)
			}
			pad := ""
			for k := 0; k < 24; k++ {
				pad += string('0' + byte(rng.Intn(2)))
			}
			want := fmt.Sprintf("%d %d", c.Sym, c.Len)
			if c.Sym >= 258 {
				want = fmt.Sprintf("Corrupted %d", c.Len)
			}
			got := ask("hsym " + csvU32(v) + " " + string(bits) + pad)
			check(s, got == want, "lens=%s code=%s go=%s model=%s", csvU32(v), string(bits), want, got)
			if c.Len >= 1 {
				pre := string(bits[:c.Len-1])
				if pre == "" {
					pre = "-"
				}
				got2 := ask("hsym " + csvU32(v) + " " + pre)
				check(s, got2 == fmt.Sprintf("UEOF %d", c.Len-1), "lens=%s proper prefix of %s: model=%s", csvU32(v), string(bits), got2)
			}
			codesChecked++
		}
	}

	// ---- inverse BWT
	s = newStage("bwt-decode")
	for i := 0; i < N(800); i++ {
		n := 1 + rng.Intn(300)
		tt := genAlphabet(rng, n, 1+rng.Intn(8))
		ptr := rng.Intn(n)
		want := hx(bzip2.VerifBWTDecode(tt, ptr))
		got := ask(fmt.Sprintf("bwtdec %d %s", ptr, hx(tt)))
		check(s, got == want && want == hx(invBWT(tt, ptr)), "ptr=%d tt=%s go=%s model=%s", ptr, hx(tt), want, got)
	}

	// ---- MTF/RLE2 decoding incl. the size limits
	s = newStage("mtf-decode")
	for i := 0; i < N(1500); i++ {
		k := 1 + rng.Intn(8)
		dict := make([]byte, k)
		for j, c := range rng.Perm(256)[:k] {
			dict[j] = byte(c)
		}
		n := rng.Intn(60)
		syms := make([]uint16, n)
		for j := range syms {
			if rng.Intn(3) == 0 {
				syms[j] = uint16(rng.Intn(2))
			} else {
				syms[j] = uint16(rng.Intn(k + 1))
			}
		}
		if i%10 == 0 { // long runs: 2^20 and beyond
			syms = nil
			for j := 0; j < 15+rng.Intn(12); j++ {
				syms = append(syms, uint16(rng.Intn(2)))
			}
		}
		max := 1 + rng.Intn(200)
		if i%10 == 0 {
			max = 900000
		}
		vals, err := bzip2.VerifMTFDecode(dict, syms, max)
		want := "err"
		if err == nil {
			want = "ok " + hx(vals)
		}
		got := ask(fmt.Sprintf("mtfdec %d %s %s", max, hx(dict), csvU16(syms)))
		check(s, got == want, "max=%d dict=%s syms=%s go=%s model=%s", max, hx(dict), csvU16(syms), want[:min(len(want), 80)], got[:min(len(got), 80)])
	}

	// ---- RLE1 expansion
	s = newStage("rle1-decode")
	for i := 0; i < N(1500); i++ {
		b := genRLE1Block(rng, i%7 == 0)
		if i%5 == 0 {
			b = genAlphabet(rng, 1+rng.Intn(40), 1+rng.Intn(3))
		}
		out, err := bzip2.VerifRLE1Decode(b)
		cls := "nil"
		crc := bzip2.VerifCRC(out)
		if err != nil {
			cls = "Corrupted"
			crc = 0
		}
		want := fmt.Sprintf("%s %s %d", cls, hx(out), crc)
		got := ask("rle1dec " + hx(b))
		exp, ok := rle1Expand(b)
		check(s, got == want && bytes.Equal(exp, out) && ok == (err == nil), "block=%s go=%s model=%s", hx(b), want[:min(len(want), 80)], got[:min(len(got), 80)])
	}

	var lines []string
	for _, r := range res {
		lines = append(lines, fmt.Sprintf("STAGE %-18s %6d compared, %d differences", r.name, r.total, r.bad))
	}
	lines = append(lines, fmt.Sprintf("  (generate-lengths: %d inputs reached the 20-bit limit; degenerate-codes: %d length vectors, %d codes)", limited, len(vectors), codesChecked))
	return lines
}

func mustAtoi(s string) int { v, _ := strconv.Atoi(s); return v }
