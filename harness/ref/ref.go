// Package ref: independent reference codecs through cgo (zlib, libbz2,
// libbrotli). Used only as oracles and input generators, never in proofs.
package ref

/*
#cgo LDFLAGS: -lz -lbz2 -lbrotlidec -lbrotlienc -lbrotlicommon
#include <stdlib.h>
#include <string.h>
#include <zlib.h>
#include <bzlib.h>
#include <brotli/decode.h>
#include <brotli/encode.h>

// raw inflate of in[0..n); returns zlib code of the last inflate call;
// *used = total_in, *produced = total_out (bounded by cap)
static int z_inflate(const unsigned char* in, size_t n, unsigned char* out, size_t cap,
                     size_t* used, size_t* produced) {
	z_stream s; memset(&s, 0, sizeof(s));
	if (inflateInit2(&s, -15) != Z_OK) return -100;
	s.next_in = (Bytef*)in; s.avail_in = (uInt)n;
	s.next_out = out; s.avail_out = (uInt)cap;
	int ret;
	for (;;) {
		ret = inflate(&s, Z_NO_FLUSH);
		if (ret != Z_OK) break;
		if (s.avail_out == 0) { ret = -101; break; }
		if (s.avail_in == 0) { ret = inflate(&s, Z_NO_FLUSH); break; }
	}
	*used = s.total_in; *produced = s.total_out;
	inflateEnd(&s);
	return ret;
}

typedef struct { z_stream s; } zenc;
static zenc* z_enc_new(int level, int wbits, int memlevel, int strategy) {
	zenc* e = calloc(1, sizeof(zenc));
	if (deflateInit2(&e->s, level, Z_DEFLATED, -wbits, memlevel, strategy) != Z_OK) { free(e); return NULL; }
	return e;
}
static int z_enc_write(zenc* e, const unsigned char* in, size_t n, int flush,
                       unsigned char* out, size_t cap, size_t* produced) {
	e->s.next_in = (Bytef*)in; e->s.avail_in = (uInt)n;
	e->s.next_out = out; e->s.avail_out = (uInt)cap;
	int ret = deflate(&e->s, flush);
	*produced = cap - e->s.avail_out;
	if (e->s.avail_in != 0) return -102;
	return ret;
}
static void z_enc_free(zenc* e) { deflateEnd(&e->s); free(e); }

// bzip2: decompress one or more concatenated streams, restarting the
// decoder on each following stream (as the bzip2 tool does).
// returns 0 = all input consumed as complete streams, 1 = error / truncated
static int bz_decompress(const char* in, size_t n, char* out, size_t cap,
                         size_t* used, size_t* produced, int* nstreams, int* lasterr) {
	size_t ip = 0, op = 0; *nstreams = 0; *lasterr = 0;
	while (ip < n) {
		bz_stream s; memset(&s, 0, sizeof(s));
		if (BZ2_bzDecompressInit(&s, 0, 0) != BZ_OK) return 1;
		s.next_in = (char*)in + ip; s.avail_in = (unsigned)(n - ip);
		s.next_out = out + op; s.avail_out = (unsigned)(cap - op);
		int ret;
		for (;;) {
			ret = BZ2_bzDecompress(&s);
			if (ret != BZ_OK) break;
			if (s.avail_out == 0) { ret = -101; break; }
			if (s.avail_in == 0) { ret = BZ_UNEXPECTED_EOF; break; }
		}
		ip = n - s.avail_in; op = cap - s.avail_out;
		BZ2_bzDecompressEnd(&s);
		*used = ip; *produced = op;
		if (ret != BZ_STREAM_END) { *lasterr = ret; return 1; }
		(*nstreams)++;
	}
	*used = ip; *produced = op;
	return 0;
}
static int bz_compress(const char* in, size_t n, char* out, size_t cap, int level, int workfactor, size_t* produced) {
	unsigned int dl = (unsigned)cap;
	int ret = BZ2_bzBuffToBuffCompress(out, &dl, (char*)in, (unsigned)n, level, 0, workfactor);
	*produced = dl;
	return ret;
}

// brotli: 0 = complete stream (BROTLI_DECODER_RESULT_SUCCESS), 1 = needs more input, 2 = error, 3 = out cap
static int br_decompress(const unsigned char* in, size_t n, unsigned char* out, size_t cap,
                         size_t* used, size_t* produced) {
	BrotliDecoderState* st = BrotliDecoderCreateInstance(NULL, NULL, NULL);
	size_t avail_in = n, avail_out = cap, total = 0;
	const uint8_t* next_in = in; uint8_t* next_out = out;
	BrotliDecoderResult r = BrotliDecoderDecompressStream(st, &avail_in, &next_in, &avail_out, &next_out, &total);
	*used = n - avail_in; *produced = cap - avail_out;
	BrotliDecoderDestroyInstance(st);
	if (r == BROTLI_DECODER_RESULT_SUCCESS) return 0;
	if (r == BROTLI_DECODER_RESULT_NEEDS_MORE_INPUT) return 1;
	if (r == BROTLI_DECODER_RESULT_NEEDS_MORE_OUTPUT) return 3;
	return 2;
}

// Public layout of BrotliDictionary (brotli/c/common/dictionary.h, 1.0.x).
typedef struct VBrotliDictionary {
  uint8_t size_bits_by_length[32];
  uint32_t offsets_by_length[32];
  size_t data_size;
  const uint8_t* data;
} VBrotliDictionary;
extern const VBrotliDictionary* BrotliGetDictionary(void);
static const uint8_t* vdict_data(void) { return BrotliGetDictionary()->data; }
static size_t vdict_size(void) { return BrotliGetDictionary()->data_size; }

typedef struct { BrotliEncoderState* st; } brenc;
static brenc* br_enc_new(int quality, int lgwin, int mode, int lgblock, int npostfix, int ndirect) {
	brenc* e = calloc(1, sizeof(brenc));
	e->st = BrotliEncoderCreateInstance(NULL, NULL, NULL);
	BrotliEncoderSetParameter(e->st, BROTLI_PARAM_QUALITY, quality);
	BrotliEncoderSetParameter(e->st, BROTLI_PARAM_LGWIN, lgwin);
	BrotliEncoderSetParameter(e->st, BROTLI_PARAM_MODE, mode);
	if (lgblock > 0) BrotliEncoderSetParameter(e->st, BROTLI_PARAM_LGBLOCK, lgblock);
	if (npostfix >= 0) BrotliEncoderSetParameter(e->st, BROTLI_PARAM_NPOSTFIX, npostfix);
	if (ndirect >= 0) BrotliEncoderSetParameter(e->st, BROTLI_PARAM_NDIRECT, ndirect);
	return e;
}
// op: 0 process, 1 flush, 2 finish, 3 emit metadata
static int br_enc_write(brenc* e, int op, const unsigned char* in, size_t n,
                        unsigned char* out, size_t cap, size_t* produced) {
	size_t avail_in = n, avail_out = cap; const uint8_t* next_in = in; uint8_t* next_out = out;
	for (;;) {
		if (!BrotliEncoderCompressStream(e->st, (BrotliEncoderOperation)op, &avail_in, &next_in, &avail_out, &next_out, NULL)) return 1;
		if (avail_in == 0 && !BrotliEncoderHasMoreOutput(e->st)) break;
		if (avail_out == 0) return 2;
	}
	*produced = cap - avail_out;
	return 0;
}
static void br_enc_free(brenc* e) { BrotliEncoderDestroyInstance(e->st); free(e); }
*/
import "C"

import (
	"unsafe"
)

func ptr(b []byte) *C.uchar {
	if len(b) == 0 {
		var z [1]byte
		return (*C.uchar)(unsafe.Pointer(&z[0]))
	}
	return (*C.uchar)(unsafe.Pointer(&b[0]))
}
func cptr(b []byte) *C.char { return (*C.char)(unsafe.Pointer(ptr(b))) }

// ZInflate: raw DEFLATE through zlib. status: "end" (complete stream),
// "more" (input exhausted before the final block ended), "err".
func ZInflate(data []byte, capOut int) (out []byte, status string, used int) {
	out = make([]byte, capOut+1)
	var u, p C.size_t
	ret := C.z_inflate(ptr(data), C.size_t(len(data)), ptr(out), C.size_t(len(out)), &u, &p)
	out = out[:int(p)]
	switch {
	case ret == C.Z_STREAM_END:
		status = "end"
	case ret == C.Z_BUF_ERROR || ret == C.Z_OK:
		status = "more"
	case ret == -101:
		status = "cap"
	default:
		status = "err"
	}
	return out, status, int(u)
}

type ZOp struct {
	Data  []byte
	Flush int // 0 none, 1 partial, 2 sync, 3 full, 4 finish, 5 block
}

// ZDeflate compresses a sequence of writes with flush modes; the last op
// should carry Flush 4 (finish) for a complete stream.
func ZDeflate(ops []ZOp, level, wbits, memlevel, strategy int) []byte {
	e := C.z_enc_new(C.int(level), C.int(wbits), C.int(memlevel), C.int(strategy))
	if e == nil {
		return nil
	}
	defer C.z_enc_free(e)
	var out []byte
	totalIn := 0
	for _, op := range ops {
		// room for everything zlib may still hold back (it buffers whole blocks): bounded by
		// the input so far plus stored-block overhead
		totalIn += len(op.Data)
		buf := make([]byte, len(op.Data)*2+totalIn+totalIn/8+4096)
		var p C.size_t
		ret := C.z_enc_write(e, ptr(op.Data), C.size_t(len(op.Data)), C.int(op.Flush), ptr(buf), C.size_t(len(buf)), &p)
		if ret < 0 && ret != C.Z_BUF_ERROR {
			return nil
		}
		if op.Flush == 4 && ret != C.Z_STREAM_END {
			return nil // not finished: never hand out an incomplete stream as a valid one
		}
		out = append(out, buf[:int(p)]...)
	}
	return out
}

// BZDecompress: libbzip2 restarted per stream. ok = whole input consumed as
// complete streams.
func BZDecompress(data []byte, capOut int) (out []byte, ok bool, used int, nstreams int, lasterr int) {
	out = make([]byte, capOut+1)
	var u, p C.size_t
	var ns, le C.int
	ret := C.bz_decompress(cptr(data), C.size_t(len(data)), cptr(out), C.size_t(len(out)), &u, &p, &ns, &le)
	return out[:int(p)], ret == 0, int(u), int(ns), int(le)
}

func BZCompress(data []byte, level int) []byte {
	out := make([]byte, len(data)+len(data)/50+1024)
	var p C.size_t
	if C.bz_compress(cptr(data), C.size_t(len(data)), cptr(out), C.size_t(len(out)), C.int(level), 0, &p) != 0 {
		return nil
	}
	return out[:int(p)]
}

// BrDecompress: status "end" (complete), "more", "err", "cap".
func BrDecompress(data []byte, capOut int) (out []byte, status string, used int) {
	out = make([]byte, capOut+1)
	var u, p C.size_t
	ret := C.br_decompress(ptr(data), C.size_t(len(data)), ptr(out), C.size_t(len(out)), &u, &p)
	out = out[:int(p)]
	status = [...]string{"end", "more", "err", "cap"}[int(ret)]
	return out, status, int(u)
}

type BrOp struct {
	Data []byte
	Op   int // 0 process, 1 flush, 2 finish, 3 metadata
}

func BrCompress(ops []BrOp, quality, lgwin, mode, lgblock, npostfix, ndirect int) []byte {
	e := C.br_enc_new(C.int(quality), C.int(lgwin), C.int(mode), C.int(lgblock), C.int(npostfix), C.int(ndirect))
	defer C.br_enc_free(e)
	var out []byte
	for _, op := range ops {
		buf := make([]byte, len(op.Data)*2+4096)
		var p C.size_t
		if C.br_enc_write(e, C.int(op.Op), ptr(op.Data), C.size_t(len(op.Data)), ptr(buf), C.size_t(len(buf)), &p) != 0 {
			return nil
		}
		out = append(out, buf[:int(p)]...)
	}
	return out
}

// LibBrotliDict returns libbrotlicommon's static dictionary (122,784 bytes).
func LibBrotliDict() []byte {
	n := int(C.vdict_size())
	return C.GoBytes(unsafe.Pointer(C.vdict_data()), C.int(n))
}
