package ref

import (
	"bytes"
	"testing"
)

func TestRef(t *testing.T) {
	data := bytes.Repeat([]byte("hello world "), 100)
	z := ZDeflate([]ZOp{{data[:500], 2}, {data[500:], 4}}, 6, 15, 8, 0)
	out, st, used := ZInflate(z, len(data))
	if st != "end" || !bytes.Equal(out, data) || used != len(z) {
		t.Fatal("zlib", st, used, len(z))
	}
	b := BZCompress(data, 9)
	out, ok, used, ns, _ := BZDecompress(append(b, b...), 2*len(data))
	if !ok || ns != 2 || used != 2*len(b) || len(out) != 2*len(data) {
		t.Fatal("bz", ok, ns, used)
	}
	br := BrCompress([]BrOp{{data[:100], 1}, {data[100:], 2}}, 5, 18, 0, 0, -1, -1)
	out, st, used = BrDecompress(br, len(data))
	if st != "end" || !bytes.Equal(out, data) || used != len(br) {
		t.Fatal("br", st, used, len(br))
	}
	_, st, _ = BrDecompress(br[:len(br)-1], len(data))
	if st != "more" {
		t.Fatal("br trunc", st)
	}
}
