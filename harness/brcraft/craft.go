//go:build verif

package brcraft

// A structured random generator of Brotli streams.  It is an encoder of
// random decisions (not of a plaintext): it mirrors the decoder state
// (output so far, last distances, block types, contexts) so that it can
// emit mostly-valid streams that exercise format features libbrotli's own
// encoder rarely or never uses: simple codes of every shape, HSKIP, repeat
// code accumulation, large NBLTYPES with type codes 0/1, RLE + IMTF context
// maps, NPOSTFIX/NDIRECT, every short distance code, all 121 transforms,
// window-boundary distances, metadata / uncompressed / empty meta-blocks.
// With small probability it injects violations.

import (
	"fmt"
	"math/bits"
	"math/rand"
	"sort"

	"github.com/dsnet/compress/brotli"
)

// feature counters of the crafted corpus (printed by genCrafted)
var feat = map[string]int{}

// ---- bit writer (LSB first) ----
type bitWriter struct {
	buf []byte
	n   uint // bits in buf
}

func (w *bitWriter) write(v uint64, nb uint) {
	for i := uint(0); i < nb; i++ {
		if w.n%8 == 0 {
			w.buf = append(w.buf, 0)
		}
		if v>>i&1 == 1 {
			w.buf[len(w.buf)-1] |= 1 << (w.n % 8)
		}
		w.n++
	}
}
func (w *bitWriter) pad(v uint64) {
	if r := w.n % 8; r != 0 {
		w.write(v, 8-r)
	}
}

// ---- prefix codes ----
type pcode struct {
	asize  int
	used   map[int]bool
	lens   []int    // per symbol
	code   []uint32 // bit-reversed canonical code
	built  bool
	single int // the symbol of a one-symbol code
}

func newPcode(asize int) *pcode { return &pcode{asize: asize, used: map[int]bool{}} }
func (p *pcode) use(s int) {
	if s < 0 || s >= p.asize {
		panic(fmt.Sprintf("symbol %d outside alphabet %d", s, p.asize))
	}
	p.used[s] = true
}

// random lengths of a complete prefix code with k leaves, depth <= maxd
func randLens(rng *rand.Rand, k, maxd int) []int {
	leaves := []int{0}
	for len(leaves) < k {
		i := rng.Intn(len(leaves))
		if leaves[i] >= maxd {
			// find any splittable leaf
			found := -1
			for j, d := range leaves {
				if d < maxd {
					found = j
					break
				}
			}
			if found < 0 {
				panic("cannot split")
			}
			i = found
		}
		leaves[i]++
		leaves = append(leaves, leaves[i])
	}
	rng.Shuffle(len(leaves), func(a, b int) { leaves[a], leaves[b] = leaves[b], leaves[a] })
	return leaves
}

func canonical(lens []int) []uint32 {
	maxl := 0
	for _, l := range lens {
		if l > maxl {
			maxl = l
		}
	}
	cnt := make([]int, maxl+2)
	for _, l := range lens {
		if l > 0 {
			cnt[l]++
		}
	}
	next := make([]uint32, maxl+2)
	c := uint32(0)
	cnt[0] = 0
	for l := 1; l <= maxl; l++ {
		c = (c + uint32(cnt[l-1])) << 1
		next[l] = c
	}
	code := make([]uint32, len(lens))
	for s, l := range lens {
		if l > 0 {
			v := next[l]
			next[l]++
			code[s] = bits.Reverse32(v) >> (32 - uint(l))
		}
	}
	return code
}

func (p *pcode) build(rng *rand.Rand) {
	if p.built {
		return
	}
	p.built = true
	syms := map[int]bool{}
	for s := range p.used {
		syms[s] = true
	}
	// extras
	if len(syms) == 0 || rng.Intn(3) == 0 {
		extra := 1
		switch rng.Intn(4) {
		case 0:
			extra = 1 + rng.Intn(3)
		case 1:
			extra = 1 + rng.Intn(p.asize)
		}
		for i := 0; i < extra; i++ {
			syms[rng.Intn(p.asize)] = true
		}
	}
	if rng.Intn(40) == 0 { // whole alphabet
		for s := 0; s < p.asize; s++ {
			syms[s] = true
		}
	}
	var list []int
	for s := range syms {
		list = append(list, s)
	}
	sort.Ints(list)
	p.lens = make([]int, p.asize)
	p.single = list[0]
	if len(list) > 1 {
		ls := randLens(rng, len(list), 15)
		if rng.Intn(3) == 0 { // flatter codes: many equal lengths -> repeat codes
			sort.Ints(ls)
		}
		for i, s := range list {
			p.lens[s] = ls[i]
		}
	}
	p.code = canonical(p.lens)
}

func (p *pcode) nsyms() (list []int) {
	for s := 0; s < p.asize; s++ {
		if p.lens[s] > 0 {
			list = append(list, s)
		}
	}
	if len(list) == 0 { // single symbol of length zero
		return []int{p.single}
	}
	return list
}

func (p *pcode) writeSym(w *bitWriter, s int) {
	if !p.built {
		panic("code not built")
	}
	if p.lens[s] == 0 {
		if l := p.nsyms(); len(l) == 1 && l[0] == s {
			return // zero-length code
		}
		panic(fmt.Sprintf("symbol %d not in code", s))
	}
	w.write(uint64(p.code[s]), uint(p.lens[s]))
}

func bijDigits(y, base int) []int {
	var d []int
	for y > 0 {
		r := y % base
		if r == 0 {
			r = base
		}
		d = append(d, r)
		y = (y - r) / base
	}
	for i, j := 0, len(d)-1; i < j; i, j = i+1, j-1 {
		d[i], d[j] = d[j], d[i]
	}
	return d
}

type clTok struct {
	sym   int
	extra uint64
}

var clOrder = []int{1, 2, 3, 4, 0, 5, 17, 6, 16, 7, 8, 9, 10, 11, 12, 13, 14, 15}

// fixed code for the code length code lengths: value (LSB first), nbits
var clclCode = [6][2]uint64{{0, 2}, {7, 4}, {3, 3}, {2, 2}, {1, 2}, {15, 4}}

func (p *pcode) writeDef(w *bitWriter, rng *rand.Rand) {
	list := p.nsyms()
	abits := uint(bits.Len(uint(p.asize - 1)))
	single := len(list) == 1 && p.lens[list[0]] == 0
	simpleOK := false
	if len(list) <= 4 {
		simpleOK = true
	}
	if single || (simpleOK && rng.Intn(10) < 7) {
		// simple code: order symbols so that the positional lengths match
		w.write(1, 2)
		w.write(uint64(len(list)-1), 2)
		feat[fmt.Sprintf("simple-nsym%d", len(list))]++
		ord := append([]int(nil), list...)
		sort.Slice(ord, func(a, b int) bool {
			if p.lens[ord[a]] != p.lens[ord[b]] {
				return p.lens[ord[a]] < p.lens[ord[b]]
			}
			return ord[a] < ord[b]
		})
		// symbols of equal length may appear in any order
		if len(ord) == 2 && rng.Intn(2) == 0 {
			ord[0], ord[1] = ord[1], ord[0]
		}
		if len(ord) == 3 && rng.Intn(2) == 0 {
			ord[1], ord[2] = ord[2], ord[1]
		}
		if len(ord) == 4 {
			if p.lens[ord[0]] == 2 {
				rng.Shuffle(4, func(a, b int) { ord[a], ord[b] = ord[b], ord[a] })
			} else if rng.Intn(2) == 0 {
				ord[2], ord[3] = ord[3], ord[2]
			}
		}
		for _, s := range ord {
			w.write(uint64(s), abits)
		}
		if len(ord) == 4 {
			if p.lens[list[0]] == 2 && p.lens[list[1]] == 2 && p.lens[list[2]] == 2 {
				w.write(0, 1)
			} else {
				w.write(1, 1)
			}
		}
		return
	}
	// complex code
	last := list[len(list)-1]
	var toks []clTok
	prevNZ := 8
	lastKind := 0 // 16 or 17 if the previous token was a repeat
	for i := 0; i <= last; {
		l := p.lens[i]
		r := 1
		for i+r <= last && p.lens[i+r] == l {
			r++
		}
		if l == 0 {
			if r >= 3 && lastKind != 17 && rng.Intn(4) != 0 {
				t := r
				if rng.Intn(3) == 0 {
					t = 3 + rng.Intn(r-2)
				}
				ds17 := bijDigits(t-2, 8)
				feat[fmt.Sprintf("rep17-x%d", len(ds17))]++
				for _, d := range ds17 {
					toks = append(toks, clTok{17, uint64(d - 1)})
				}
				lastKind = 17
				i += t
			} else {
				toks = append(toks, clTok{0, 0})
				lastKind = 0
				i++
			}
			continue
		}
		if l == prevNZ && r >= 3 && lastKind != 16 && rng.Intn(4) != 0 {
			t := r
			if rng.Intn(3) == 0 {
				t = 3 + rng.Intn(r-2)
			}
			ds16 := bijDigits(t-2, 4)
			feat[fmt.Sprintf("rep16-x%d", len(ds16))]++
			if prevNZ == 8 && len(toks) == 0 {
				feat["rep16-initial8"]++
			}
			for _, d := range ds16 {
				toks = append(toks, clTok{16, uint64(d - 1)})
			}
			lastKind = 16
			i += t
			continue
		}
		toks = append(toks, clTok{l, 0})
		prevNZ = l
		lastKind = 0
		i++
	}
	usedCL := map[int]bool{}
	for _, t := range toks {
		usedCL[t.sym] = true
	}
	if rng.Intn(3) == 0 {
		for k := rng.Intn(4); k > 0; k-- {
			usedCL[rng.Intn(18)] = true
		}
	}
	var cll []int
	for s := range usedCL {
		cll = append(cll, s)
	}
	sort.Ints(cll)
	clLens := make([]int, 18)
	if len(cll) == 1 {
		clLens[cll[0]] = 1 + rng.Intn(5)
	} else {
		ls := randLens(rng, len(cll), 5)
		for i, s := range cll {
			clLens[s] = ls[i]
		}
	}
	hskip := 0
	if clLens[1] == 0 && clLens[2] == 0 && rng.Intn(4) != 0 {
		hskip = 2
		if clLens[3] == 0 && rng.Intn(4) != 0 {
			hskip = 3
		}
	}
	w.write(uint64(hskip), 2)
	feat[fmt.Sprintf("complex-hskip%d", hskip)]++
	if len(cll) == 1 {
		feat["complex-single-clsym"]++
	}
	space := 32
	for _, s := range clOrder[hskip:] {
		l := clLens[s]
		w.write(clclCode[l][0], uint(clclCode[l][1]))
		if l > 0 {
			space -= 32 >> uint(l)
			if space <= 0 {
				break
			}
		}
	}
	clCode := canonical(clLens)
	for _, t := range toks {
		if len(cll) > 1 {
			w.write(uint64(clCode[t.sym]), uint(clLens[t.sym]))
		}
		if t.sym == 16 {
			w.write(t.extra, 2)
		} else if t.sym == 17 {
			w.write(t.extra, 3)
		}
	}
}

// ---- stream items: resolved after all codes are built ----
type item struct {
	kind  int // 0 raw bits, 1 code definition, 2 symbol
	v     uint64
	nb    uint
	code  *pcode
	sym   int
	align bool // pad to byte boundary with v
}

type itemList struct{ items []item }

func (l *itemList) raw(v uint64, nb uint) { l.items = append(l.items, item{kind: 0, v: v, nb: nb}) }
func (l *itemList) def(c *pcode)          { l.items = append(l.items, item{kind: 1, code: c}) }
func (l *itemList) sym(c *pcode, s int) {
	c.use(s)
	l.items = append(l.items, item{kind: 2, code: c, sym: s})
}
func (l *itemList) pad(v uint64) { l.items = append(l.items, item{kind: 0, align: true, v: v}) }
func (l *itemList) bytes(b []byte) {
	for _, x := range b {
		l.raw(uint64(x), 8)
	}
}
func (l *itemList) count(v int) { // NBLTYPES / NTREES code, 1..256
	if v == 1 {
		l.raw(0, 1)
		return
	}
	n := uint(bits.Len(uint(v-1)) - 1)
	l.raw(1, 1)
	l.raw(uint64(n), 3)
	l.raw(uint64(v-1-(1<<n)), n)
}

func (l *itemList) serialize(rng *rand.Rand) []byte {
	for _, it := range l.items {
		if it.code != nil {
			it.code.build(rng)
		}
	}
	w := &bitWriter{}
	for _, it := range l.items {
		switch {
		case it.align:
			w.pad(it.v)
		case it.kind == 0:
			w.write(it.v, it.nb)
		case it.kind == 1:
			it.code.writeDef(w, rng)
		case it.kind == 2:
			it.code.writeSym(w, it.sym)
		}
	}
	return w.buf
}

// ---- tables ----
type rng_ struct{ base, bits int }

func mkRanges(base int, nbs []int) (r []rng_) {
	for _, nb := range nbs {
		r = append(r, rng_{base, nb})
		base += 1 << uint(nb)
	}
	return
}

var (
	gInsRanges = mkRanges(0, []int{0, 0, 0, 0, 0, 0, 1, 1, 2, 2, 3, 3, 4, 4, 5, 5, 6, 7, 8, 9, 10, 12, 14, 24})
	gCpyRanges = mkRanges(2, []int{0, 0, 0, 0, 0, 0, 0, 0, 1, 1, 2, 2, 3, 3, 4, 4, 5, 5, 6, 7, 8, 9, 10, 24})
	gBlkRanges = mkRanges(1, []int{2, 2, 2, 2, 3, 3, 3, 3, 4, 4, 4, 4, 5, 5, 5, 5, 6, 6, 7, 8, 9, 10, 11, 12, 13, 24})
)

func findRange(rs []rng_, v int) (code int, extra uint64, nb uint) {
	for i := len(rs) - 1; i >= 0; i-- {
		if v >= rs[i].base {
			return i, uint64(v - rs[i].base), uint(rs[i].bits)
		}
	}
	panic("value below range")
}

// insert-and-copy symbol for (insert code, copy code, implicit distance)
func iacSymbol(icode, ccode int, implicit bool) int {
	var cell int
	switch {
	case icode < 8 && ccode < 8:
		cell = 2
		if implicit {
			cell = 0
		}
	case icode < 8 && ccode < 16:
		cell = 3
		if implicit {
			cell = 1
		}
	case icode < 8:
		cell = 6
	case icode < 16 && ccode < 8:
		cell = 4
	case icode < 16 && ccode < 16:
		cell = 5
	case icode < 16:
		cell = 8
	case ccode < 8:
		cell = 7
	case ccode < 16:
		cell = 9
	default:
		cell = 10
	}
	return cell*64 + (icode%8)*8 + ccode%8
}

func shortDist(code int, ring [4]int) int {
	switch {
	case code < 4:
		return ring[code]
	case code < 10:
		d := (code-4)/2 + 1
		if code%2 == 0 {
			return ring[0] - d
		}
		return ring[0] + d
	default:
		d := (code-10)/2 + 1
		if code%2 == 0 {
			return ring[1] - d
		}
		return ring[1] + d
	}
}

// ---- the generator ----
type blkGen struct {
	n                 int
	typeCode, lenCode *pcode
	cur, prev         int
	cnt               int
	small             bool // prefer small block counts
}

type gen struct {
	rng    *rand.Rand
	l      *itemList
	out    []byte
	ring   [4]int
	window int
	bad    float64 // probability of injecting a violation at each opportunity
	dict   []byte
}

func (g *gen) oops() bool { return g.rng.Float64() < g.bad }

func (g *gen) blockCount(b *blkGen) {
	c := 1 + g.rng.Intn(12)
	if !b.small || g.rng.Intn(6) == 0 {
		c = 1 + g.rng.Intn(400)
	}
	if g.rng.Intn(60) == 0 {
		c = 1 + g.rng.Intn(1<<24)
	}
	code, extra, nb := findRange(gBlkRanges, c)
	g.l.sym(b.lenCode, code)
	g.l.raw(extra, nb)
	b.cnt = c
}

func (g *gen) newBlk() *blkGen {
	b := &blkGen{n: 1, prev: 1, cnt: 1 << 24, small: g.rng.Intn(3) != 0}
	switch r := g.rng.Intn(20); {
	case r < 11:
	case r < 17:
		b.n = 2 + g.rng.Intn(4)
	case r < 19:
		b.n = 2 + g.rng.Intn(40)
	default:
		b.n = 2 + g.rng.Intn(255)
	}
	g.l.count(b.n)
	if b.n >= 2 {
		b.typeCode = newPcode(b.n + 2)
		b.lenCode = newPcode(26)
		g.l.def(b.typeCode)
		g.l.def(b.lenCode)
		g.blockCount(b)
	}
	return b
}

// step accounts for one element; emits a block switch when the count is 0
func (g *gen) step(b *blkGen) (switched bool) {
	if b.n >= 2 && b.cnt == 0 {
		nt := g.rng.Intn(b.n)
		if g.rng.Intn(3) == 0 {
			nt = b.prev
		} else if g.rng.Intn(3) == 0 {
			nt = (b.cur + 1) % b.n
		}
		var opts []int
		if nt == b.prev {
			opts = append(opts, 0)
		}
		if nt == (b.cur+1)%b.n {
			opts = append(opts, 1)
		}
		opts = append(opts, nt+2)
		s := opts[g.rng.Intn(len(opts))]
		if len(opts) > 1 && g.rng.Intn(2) == 0 {
			s = opts[0]
		}
		g.l.sym(b.typeCode, s)
		if s < 2 {
			feat[fmt.Sprintf("switch-code%d", s)]++
		} else {
			feat["switch-explicit"]++
		}
		b.prev, b.cur = b.cur, nt
		g.blockCount(b)
		switched = true
	}
	b.cnt--
	return
}

func (g *gen) p12() (p1, p2 byte) {
	n := len(g.out)
	if n > 0 {
		p1 = g.out[n-1]
	}
	if n > 1 {
		p2 = g.out[n-2]
	}
	return
}

var lut0, lut1, lut2 = brotli.VerifContextLUTs()

func litContext(mode int, p1, p2 byte) int {
	switch mode {
	case 0:
		return int(p1 & 63)
	case 1:
		return int(p1 >> 2)
	case 2:
		return int(lut0[p1] | lut1[p2])
	default:
		return int(lut2[p1]<<3 | lut2[p2])
	}
}

// context map: writes NTREES and the map; returns the effective map
func (g *gen) contextMap(size int) (ntrees int, cm []int) {
	ntrees = 1
	switch r := g.rng.Intn(10); {
	case r < 4:
	case r < 8:
		ntrees = 2 + g.rng.Intn(6)
	case r < 9:
		ntrees = 2 + g.rng.Intn(60)
	default:
		ntrees = 2 + g.rng.Intn(255)
	}
	g.l.count(ntrees)
	cm = make([]int, size)
	if ntrees == 1 {
		return
	}
	// desired map: runs of equal values
	for i := 0; i < size; {
		v := g.rng.Intn(ntrees)
		if g.rng.Intn(2) == 0 {
			v = 0
		}
		r := 1 + g.rng.Intn(20)
		if g.rng.Intn(4) == 0 {
			r = 1 + g.rng.Intn(300)
		}
		for ; r > 0 && i < size; r-- {
			cm[i] = v
			i++
		}
	}
	vals := append([]int(nil), cm...)
	imtf := g.rng.Intn(2) == 0
	if imtf { // forward move-to-front
		var mtf [256]int
		for i := range mtf {
			mtf[i] = i
		}
		for i, v := range cm {
			j := 0
			for mtf[j] != v {
				j++
			}
			vals[i] = j
			copy(mtf[1:j+1], mtf[:j])
			mtf[0] = v
		}
	}
	rlemax := 0
	if g.rng.Intn(4) != 0 {
		rlemax = 1 + g.rng.Intn(16)
		if g.rng.Intn(2) == 0 {
			rlemax = 1 + g.rng.Intn(6)
		}
	}
	if rlemax == 0 {
		g.l.raw(0, 1)
	} else {
		g.l.raw(1, 1)
		g.l.raw(uint64(rlemax-1), 4)
	}
	code := newPcode(ntrees + rlemax)
	g.l.def(code)
	for i := 0; i < size; {
		if vals[i] != 0 {
			g.l.sym(code, vals[i]+rlemax)
			i++
			continue
		}
		r := 1
		for i+r < size && vals[i+r] == 0 {
			r++
		}
		if r >= 2 && rlemax > 0 && g.rng.Intn(5) != 0 {
			s := bits.Len(uint(r)) - 1 // r in [2^s, 2^(s+1))
			if s > rlemax {
				s = rlemax
			}
			t := r
			if t >= 1<<uint(s+1) {
				t = 1<<uint(s+1) - 1
			}
			if g.rng.Intn(4) == 0 && s > 1 {
				s = 1 + g.rng.Intn(s)
				t = 1<<uint(s) + g.rng.Intn(1<<uint(s))
				if t > r {
					t = 1 << uint(s)
				}
			}
			if g.oops() {
				t = size - i + 1 + g.rng.Intn(3) // run past the end of the map
				s = bits.Len(uint(t)) - 1
				if s > rlemax || s < 1 {
					s, t = 1, 2
				}
			}
			feat["cmap-rle-run"]++
			g.l.sym(code, s)
			g.l.raw(uint64(t-(1<<uint(s))), uint(s))
			i += t
		} else {
			g.l.sym(code, 0)
			i++
		}
	}
	if imtf {
		feat["cmap-imtf"]++
		g.l.raw(1, 1)
	} else {
		g.l.raw(0, 1)
	}
	return
}

func (g *gen) maxDist() int {
	if len(g.out) < g.window {
		return len(g.out)
	}
	return g.window
}

// distance -> (symbol, extra, nbits) for a long or direct code; ok=false if not representable
func distSymbol(d, npostfix, ndirect int) (sym int, extra uint64, nb uint, ok bool) {
	if d <= 0 {
		return 0, 0, 0, false
	}
	if d <= ndirect {
		return 15 + d, 0, 0, true
	}
	x := d - ndirect - 1
	lcode := x & (1<<uint(npostfix) - 1)
	u := x>>uint(npostfix) + 4
	n := bits.Len(uint(u)) - 2
	if n > 24 {
		return 0, 0, 0, false
	}
	h := u >> uint(n) & 1
	e := u & (1<<uint(n) - 1)
	hcode := 2*(n-1) + h
	return 16 + ndirect + (hcode<<uint(npostfix) | lcode), uint64(e), uint(n), true
}

type litStyle int

func (g *gen) pickByte(style litStyle) byte {
	switch style {
	case 0:
		return "etaoin shrdlu,.\nETAO<>=\"/"[g.rng.Intn(25)]
	case 1:
		return byte(g.rng.Intn(256))
	case 2:
		return []byte{0xd0, 0xb4, 0xd1, 0x8f, 0xe0, 0xa4, 0xaa, ' ', 'a', 0xc3, 0xa9, 0xe4, 0xb8, 0xad}[g.rng.Intn(14)]
	default:
		return byte(g.rng.Intn(8) - 4)
	}
}

// compressed meta-block body; returns the number of bytes produced
func (g *gen) compressed(target int, hdr *itemList) (mlen int) {
	rng := g.rng
	start := len(g.out)
	bl, bi, bd := g.newBlk(), g.newBlk(), g.newBlk()
	npostfix := rng.Intn(4)
	nd4 := 0
	if rng.Intn(2) == 0 {
		nd4 = rng.Intn(16)
	}
	ndirect := nd4 << uint(npostfix)
	g.l.raw(uint64(npostfix), 2)
	g.l.raw(uint64(nd4), 4)
	cmodes := make([]int, bl.n)
	for i := range cmodes {
		cmodes[i] = rng.Intn(4)
		g.l.raw(uint64(cmodes[i]), 2)
	}
	ntl, cml := g.contextMap(64 * bl.n)
	ntd, cmd := g.contextMap(4 * bd.n)
	ltrees := make([]*pcode, ntl)
	for i := range ltrees {
		ltrees[i] = newPcode(256)
		g.l.def(ltrees[i])
	}
	itrees := make([]*pcode, bi.n)
	for i := range itrees {
		itrees[i] = newPcode(704)
		g.l.def(itrees[i])
	}
	dsize := 16 + ndirect + 48<<uint(npostfix)
	dtrees := make([]*pcode, ntd)
	for i := range dtrees {
		dtrees[i] = newPcode(dsize)
		g.l.def(dtrees[i])
	}
	style := litStyle(rng.Intn(4))
	for len(g.out)-start < target {
		left := target - (len(g.out) - start)
		// lengths
		ilen := 0
		switch r := rng.Intn(10); {
		case r < 3:
		case r < 8:
			ilen = 1 + rng.Intn(8)
		case r < 9:
			ilen = 1 + rng.Intn(200)
		default:
			ilen = 1 + rng.Intn(3000)
		}
		if len(g.out) == 0 && ilen == 0 && rng.Intn(4) != 0 {
			ilen = 1 + rng.Intn(5)
		}
		endWithInsert := false
		if ilen >= left {
			ilen = left
			endWithInsert = true
			if g.oops() {
				ilen += 1 + rng.Intn(3) // more than MLEN
			}
		}
		clen := 2 + rng.Intn(10)
		switch rng.Intn(8) {
		case 0:
			clen = 2 + rng.Intn(100)
		case 1:
			clen = 2 + rng.Intn(3000)
		case 2:
			clen = 4 + rng.Intn(21)
		}
		if !endWithInsert && clen > left-ilen {
			clen = left - ilen
			if clen < 2 { // cannot finish with a copy: stretch the insert
				ilen = left
				endWithInsert = true
				clen = 2 + rng.Intn(30)
			} else if g.oops() {
				clen += 1 + rng.Intn(4)
			}
		}
		// decide the copy
		type copyPlan struct {
			dist     int
			dictWord []byte
			isDict   bool
		}
		var plan copyPlan
		posAfter := len(g.out) + ilen
		maxd := posAfter
		if maxd > g.window {
			maxd = g.window
		}
		if !endWithInsert {
			wantDict := rng.Intn(4) == 0 || maxd == 0
			if wantDict {
				if clen < 4 || clen > 24 {
					clen = 4 + rng.Intn(21)
				}
				nb := uint(brotli.VerifDictBitSizes()[clen])
				idx := rng.Intn(1 << nb)
				tid := rng.Intn(121)
				if rng.Intn(3) == 0 {
					// a dictionary reference that one of the sixteen short distance codes (or the
					// implicit "last distance") expresses: near the start of the stream the
					// initial ring values 16, 15, 11, 4 lie beyond the output so far
					var cands []int
					for c := 0; c < 16; c++ {
						if sd := shortDist(c, g.ring); sd > maxd && (sd-maxd-1)>>nb < 121 {
							cands = append(cands, sd-maxd-1)
						}
					}
					if len(cands) > 0 {
						addr := cands[rng.Intn(len(cands))]
						if rng.Intn(2) == 0 && g.ring[0] > maxd && (g.ring[0]-maxd-1)>>nb < 121 {
							addr = g.ring[0] - maxd - 1
						}
						idx, tid = addr&(1<<nb-1), addr>>nb
						feat["dict-ref-via-ring"]++
					}
				}
				if g.oops() {
					tid = 121 + rng.Intn(20)
				}
				word := g.dict[brotli.VerifDictOffsets()[clen]+idx*clen:][:clen]
				var tw []byte
				if tid < 121 {
					tw = brotli.VerifTransformWord(word, tid)
				}
				if len(tw) > left-ilen && !g.oops() {
					// does not fit: fall back to identity or shorter word
					tid = 0
					tw = append([]byte(nil), word...)
					if len(tw) > left-ilen {
						// give up on the copy: end with the insert instead
						ilen = left
						endWithInsert = true
					}
				}
				plan = copyPlan{dist: maxd + 1 + (tid<<nb | idx), dictWord: tw, isDict: true}
			} else {
				d := 1 + rng.Intn(maxd)
				switch rng.Intn(8) {
				case 0:
					d = maxd
				case 1:
					d = 1 + rng.Intn(min(maxd, 4))
				case 2, 3:
					// near a ring value
					c := g.ring[rng.Intn(2)] + rng.Intn(7) - 3
					if rng.Intn(2) == 0 {
						c = g.ring[rng.Intn(4)]
					}
					if c >= 1 && c <= maxd {
						d = c
					}
				}
				if g.oops() {
					d = maxd + 1 + rng.Intn(3) // just beyond: becomes a dictionary reference
				}
				plan = copyPlan{dist: d}
			}
		}
		if endWithInsert {
			posAfter = len(g.out) + ilen
		}
		// choose the distance representation
		implicit := false
		dsym, dextra, dnb := -1, uint64(0), uint(0)
		icode, iextra, inb := findRange(gInsRanges, ilen)
		ccode, cextra, cnb := findRange(gCpyRanges, clen)
		if !endWithInsert {
			var cands []int
			for c := 0; c < 16; c++ {
				if shortDist(c, g.ring) == plan.dist {
					cands = append(cands, c)
				}
			}
			if plan.dist == g.ring[0] && icode < 8 && ccode < 16 && rng.Intn(2) == 0 {
				implicit = true
			} else if len(cands) > 0 && rng.Intn(4) != 0 {
				dsym = cands[rng.Intn(len(cands))]
			} else {
				var ok bool
				dsym, dextra, dnb, ok = distSymbol(plan.dist, npostfix, ndirect)
				if !ok {
					return -1
				}
			}
			if g.oops() && !implicit { // a short code that yields a non-positive distance
				for c := 4; c < 16; c++ {
					if shortDist(c, g.ring) <= 0 {
						dsym, dextra, dnb = c, 0, 0
						plan.dist = -1
						break
					}
				}
			}
		} else if rng.Intn(2) == 0 && icode < 8 && ccode < 16 {
			implicit = true
		}
		// emit: command
		g.step(bi)
		g.l.sym(itrees[bi.cur], iacSymbol(icode, ccode, implicit))
		g.l.raw(iextra, inb)
		g.l.raw(cextra, cnb)
		for k := 0; k < ilen; k++ {
			g.step(bl)
			p1, p2 := g.p12()
			cid := litContext(cmodes[bl.cur], p1, p2)
			b := g.pickByte(style)
			g.l.sym(ltrees[cml[64*bl.cur+cid]], int(b))
			g.out = append(g.out, b)
		}
		if endWithInsert {
			break
		}
		if implicit {
			feat["dist-implicit"]++
		} else if dsym < 16 {
			feat[fmt.Sprintf("dist-short%02d", dsym)]++
		} else if dsym < 16+ndirect {
			feat["dist-direct"]++
		} else {
			feat["dist-long"]++
		}
		if plan.isDict {
			feat["dict-ref"]++
		}
		if !implicit {
			g.step(bd)
			cid := clen - 2
			if clen > 4 {
				cid = 3
			}
			g.l.sym(dtrees[cmd[4*bd.cur+cid]], dsym)
			g.l.raw(dextra, dnb)
		}
		if plan.dist <= 0 {
			break // invalid stream from here on
		}
		if plan.isDict || plan.dist > maxd {
			if !plan.isDict {
				// accidental dictionary reference (violation injected): mirror the decoder
				addr := plan.dist - maxd - 1
				if clen < 4 || clen > 24 {
					break
				}
				nb := uint(brotli.VerifDictBitSizes()[clen])
				idx, tid := addr&(1<<nb-1), addr>>nb
				if tid >= 121 {
					break
				}
				plan.dictWord = brotli.VerifTransformWord(g.dict[brotli.VerifDictOffsets()[clen]+idx*clen:][:clen], tid)
			}
			g.out = append(g.out, plan.dictWord...)
		} else {
			for k := 0; k < clen; k++ {
				g.out = append(g.out, g.out[len(g.out)-plan.dist])
			}
			if !implicit && dsym != 0 {
				g.ring = [4]int{plan.dist, g.ring[0], g.ring[1], g.ring[2]}
			}
		}
	}
	return len(g.out) - start
}

func min(a, b int) int {
	if a < b {
		return a
	}
	return b
}

// header of a data meta-block: ISLAST [ISLASTEMPTY] MNIBBLES MLEN-1
func (g *gen) mlenHeader(l *itemList, last bool, mlen int) {
	if last {
		l.raw(1, 1)
		l.raw(0, 1)
	} else {
		l.raw(0, 1)
	}
	nib := 4
	if mlen-1 >= 1<<16 {
		nib = 5
	}
	if mlen-1 >= 1<<20 {
		nib = 6
	}
	if g.oops() && nib < 6 {
		nib++ // non-minimal representation
	}
	l.raw(uint64(nib-4), 2)
	l.raw(uint64(mlen-1), uint(4*nib))
}

// craftStream builds one stream; bad = violation probability
func craftStream(rng *rand.Rand, bad float64, dict []byte) []byte {
	g := &gen{rng: rng, ring: [4]int{4, 11, 15, 16}, bad: bad, dict: dict}
	wbits := 10 + rng.Intn(15)
	if rng.Intn(2) == 0 {
		wbits = 10 + rng.Intn(3)
	}
	g.window = 1<<uint(wbits) - 16
	top := &itemList{}
	switch {
	case wbits == 16:
		top.raw(0, 1)
	case wbits == 17:
		top.raw(1, 7)
	case wbits > 17:
		top.raw(uint64(1|(wbits-17)<<1), 4)
	default:
		top.raw(uint64(1|(wbits-8)<<4), 7)
	}
	var parts [][]byte // each meta-block serialized separately is impossible (bit alignment): use one item list
	_ = parts
	nblocks := 1 + rng.Intn(4)
	for b := 0; b < nblocks; b++ {
		last := b == nblocks-1
		switch r := rng.Intn(12); {
		case r < 7: // compressed
			target := 1 + rng.Intn(40)
			switch rng.Intn(6) {
			case 0:
				target = 1 + rng.Intn(600)
			case 1:
				target = 1 + rng.Intn(5000)
			}
			// the body is generated into a fresh list so that MLEN is known first
			body := &itemList{}
			g.l = body
			mlen := g.compressed(target, nil)
			if mlen <= 0 {
				return nil
			}
			if g.oops() {
				mlen += rng.Intn(5) - 2
				if mlen < 1 {
					mlen = 1
				}
			}
			g.mlenHeader(top, last, mlen)
			if !last {
				top.raw(0, 1) // ISUNCOMPRESSED
			}
			top.items = append(top.items, body.items...)
			if last {
				if g.oops() {
					top.pad(uint64(1 + rng.Intn(127)))
				} else {
					top.pad(0)
				}
			}
		case r < 9: // uncompressed (never last)
			n := 1 + rng.Intn(60)
			if rng.Intn(4) == 0 {
				n = 1 + rng.Intn(3000)
			}
			g.mlenHeader(top, false, n)
			top.raw(1, 1)
			if g.oops() {
				top.pad(uint64(1 + rng.Intn(127)))
			} else {
				top.pad(0)
			}
			for k := 0; k < n; k++ {
				c := g.pickByte(litStyle(b % 4))
				g.out = append(g.out, c)
				top.raw(uint64(c), 8)
			}
			if last {
				top.raw(3, 2) // ISLAST, ISLASTEMPTY
				top.pad(0)
			}
		case r < 11: // metadata
			if last {
				top.raw(1, 1)
				top.raw(0, 1)
			} else {
				top.raw(0, 1)
			}
			top.raw(3, 2)
			if g.oops() {
				top.raw(1, 1)
			} else {
				top.raw(0, 1)
			}
			n := rng.Intn(20)
			if rng.Intn(5) == 0 {
				n = rng.Intn(70000)
			}
			if n == 0 {
				top.raw(0, 2)
			} else {
				sb := (bits.Len(uint(n-1)) + 7) / 8
				if sb == 0 {
					sb = 1
				}
				if g.oops() && sb < 3 {
					sb++
				}
				top.raw(uint64(sb), 2)
				top.raw(uint64(n-1), uint(8*sb))
			}
			if g.oops() {
				top.pad(uint64(1 + rng.Intn(127)))
			} else {
				top.pad(0)
			}
			for k := 0; k < n; k++ {
				top.raw(uint64(rng.Intn(256)), 8)
			}
		default: // empty last block in the middle / at the end
			top.raw(3, 2)
			if g.oops() {
				top.pad(uint64(1 + rng.Intn(127)))
			} else {
				top.pad(0)
			}
			return top.serialize(rng)
		}
	}
	return top.serialize(rng)
}

// one meta-block with only dictionary references using transform tid, word length wl
func craftDictStream(rng *rand.Rand, tid, wl int, dict []byte) []byte {
	g := &gen{rng: rng, ring: [4]int{4, 11, 15, 16}, dict: dict}
	g.window = 1<<16 - 16
	top := &itemList{}
	top.raw(0, 1) // WBITS 16
	body := &itemList{}
	body.count(1)
	body.count(1)
	body.count(1)
	npostfix, nd4 := rng.Intn(4), rng.Intn(16)
	ndirect := nd4 << uint(npostfix)
	body.raw(uint64(npostfix), 2)
	body.raw(uint64(nd4), 4)
	body.raw(uint64(rng.Intn(4)), 2)
	body.count(1)
	body.count(1)
	lt, it, dt := newPcode(256), newPcode(704), newPcode(16+ndirect+48<<uint(npostfix))
	body.def(lt)
	body.def(it)
	body.def(dt)
	nb := uint(brotli.VerifDictBitSizes()[wl])
	total := 0
	for k := 0; k < 3; k++ {
		idx := rng.Intn(1 << nb)
		if ForceDictIdx >= 0 && ForceDictIdx < 1<<nb {
			idx = ForceDictIdx
		}
		if k == 0 {
			if ForceDictIdx < 0 {
				idx = []int{0, 1<<nb - 1, rng.Intn(1 << nb)}[rng.Intn(3)]
			}
		}
		word := dict[brotli.VerifDictOffsets()[wl]+idx*wl:][:wl]
		tw := brotli.VerifTransformWord(word, tid)
		maxd := len(g.out)
		dist := maxd + 1 + (tid<<nb | idx)
		ilen := 0
		if k > 0 {
			ilen = rng.Intn(3)
		}
		dist += ilen
		icode, iextra, inb := findRange(gInsRanges, ilen)
		ccode, cextra, cnb := findRange(gCpyRanges, wl)
		body.sym(it, iacSymbol(icode, ccode, false))
		body.raw(iextra, inb)
		body.raw(cextra, cnb)
		for j := 0; j < ilen; j++ {
			b := byte('a' + rng.Intn(26))
			body.sym(lt, int(b))
			g.out = append(g.out, b)
		}
		ds, de, dn, ok := distSymbol(dist, npostfix, ndirect)
		if !ok {
			return nil
		}
		body.sym(dt, ds)
		body.raw(de, dn)
		g.out = append(g.out, tw...)
		total += ilen + len(tw)
	}
	if total == 0 {
		// zero output is not a valid MLEN: add a literal-only command
		icode, iextra, inb := findRange(gInsRanges, 1)
		body.sym(it, iacSymbol(icode, 0, false))
		body.raw(iextra, inb)
		body.sym(lt, 'x')
		total = 1
	}
	g.mlenHeader(top, true, total)
	top.items = append(top.items, body.items...)
	top.pad(0)
	return top.serialize(rng)
}

func safeCraft(rng *rand.Rand, bad float64, dict []byte) (s []byte) {
	defer func() {
		if r := recover(); r != nil {
			_ = r
			s = nil
		}
	}()
	return craftStream(rng, bad, dict)
}

// Stream returns one crafted stream; bad is the probability of injecting a
// violation at each decision point.
func Stream(rng *rand.Rand, bad float64, dict []byte) []byte { return safeCraft(rng, bad, dict) }

// DictStream returns a stream whose only command copies static-dictionary
// word wl/idx through transform tid.
// ForceDictIdx >= 0 makes DictStream reference that word of the chosen length class.
var ForceDictIdx = -1

func DictStream(rng *rand.Rand, tid, wl int, dict []byte) []byte {
	defer func() { recover() }()
	return craftDictStream(rng, tid, wl, dict)
}
