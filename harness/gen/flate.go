package gen

import (
	"bytes"
	stdflate "compress/flate"
	"math/rand"

	"github.com/dsnet/compress/xflate/verifharness/ref"
	"github.com/dsnet/compress/xflate/verifharness/vhlib"
)

// Stream is one generated input with what is known about it.
type Stream struct {
	Data  []byte
	Plain []byte // expected plaintext when Valid
	Valid bool   // constructed to be a valid complete stream
	Kind  string
}

var lenBase = []int{3, 4, 5, 6, 7, 8, 9, 10, 11, 13, 15, 17, 19, 23, 27, 31, 35, 43, 51, 59, 67, 83, 99, 115, 131, 163, 195, 227, 258}
var lenExtra = []uint{0, 0, 0, 0, 0, 0, 0, 0, 1, 1, 1, 1, 2, 2, 2, 2, 3, 3, 3, 3, 4, 4, 4, 4, 5, 5, 5, 5, 0}
var distBase = []int{1, 2, 3, 4, 5, 7, 9, 13, 17, 25, 33, 49, 65, 97, 129, 193, 257, 385, 513, 769, 1025, 1537, 2049, 3073, 4097, 6145, 8193, 12289, 16385, 24577}
var distExtra = []uint{0, 0, 0, 0, 1, 1, 2, 2, 3, 3, 4, 4, 5, 5, 6, 6, 7, 7, 8, 8, 9, 9, 10, 10, 11, 11, 12, 12, 13, 13}
var clenOrder = []int{16, 17, 18, 0, 8, 7, 9, 6, 10, 5, 11, 4, 12, 3, 13, 2, 14, 1, 15}

// StdDeflate compresses with compress/flate using random flushes.
func StdDeflate(rng *rand.Rand, data []byte, level int) []byte {
	var bb bytes.Buffer
	zw, err := stdflate.NewWriter(&bb, level)
	if err != nil {
		panic(err)
	}
	for _, p := range vhlib.Partition(rng, data) {
		zw.Write(p)
		if rng.Intn(4) == 0 {
			zw.Flush()
		}
	}
	zw.Close()
	return bb.Bytes()
}

// ZlibDeflate compresses with zlib using random parameters and flush modes.
func ZlibDeflate(rng *rand.Rand, data []byte) []byte {
	level := rng.Intn(10)
	wbits := 9 + rng.Intn(7)
	mem := 1 + rng.Intn(9)
	strat := rng.Intn(5)
	var ops []ref.ZOp
	parts := vhlib.Partition(rng, data)
	for _, p := range parts {
		f := 0
		if rng.Intn(3) == 0 {
			f = []int{1, 2, 3, 5}[rng.Intn(4)]
		}
		ops = append(ops, ref.ZOp{Data: p, Flush: f})
	}
	ops = append(ops, ref.ZOp{Flush: 4})
	return ref.ZDeflate(ops, level, wbits, mem, strat)
}

// PlainFamilies returns structured plaintexts incl. near-window periodicities.
func Plain(rng *rand.Rand, maxLen int) []byte {
	n := rng.Intn(maxLen + 1)
	switch rng.Intn(8) {
	case 0:
		return nil
	case 1:
		return vhlib.RandBytes(rng, rng.Intn(64))
	case 2: // period near a window-growth boundary
		per := []int{4095, 4096, 4097, 16383, 16384, 16385, 32767, 32768, 100, 1, 2, 258}[rng.Intn(12)]
		unit := vhlib.RandBytes(rng, per)
		var b []byte
		for len(b) < n {
			b = append(b, unit...)
		}
		return b[:n]
	default:
		return vhlib.RandBytes(rng, n)
	}
}

// SynthFlate builds a DEFLATE stream at the bit level. When breakRule > 0
// one rule of RFC 1951 is violated somewhere (the result is then probably
// invalid; Valid is left false and the references decide).
func SynthFlate(rng *rand.Rand, breakRule int) Stream {
	var w BitW
	var plain []byte
	nblocks := 1 + rng.Intn(4)
	brokeAt := -1
	if breakRule > 0 {
		brokeAt = rng.Intn(nblocks)
	}
	for bi := 0; bi < nblocks; bi++ {
		last := bi == nblocks-1
		br := 0
		if bi == brokeAt {
			br = breakRule
		}
		if last {
			w.Bits(1, 1)
		} else {
			w.Bits(0, 1)
		}
		typ := rng.Intn(3)
		if br == 1 { // reserved block type
			w.Bits(3, 2)
			w.Bits(uint64(rng.Intn(256)), 8)
			continue
		}
		if br >= 3 && br <= 12 {
			typ = 2
		}
		if br == 2 {
			typ = 0
		}
		switch typ {
		case 0:
			w.Bits(0, 2)
			// pad bits may be non-zero
			for w.NBits()%8 != 0 {
				w.Bit(uint(rng.Intn(2)))
			}
			n := rng.Intn(70)
			if rng.Intn(4) == 0 {
				n = 0
			}
			d := vhlib.RandBytes(rng, n)
			nn := uint64(^uint16(n))
			if br == 2 {
				nn ^= 1 << uint(rng.Intn(16))
			}
			w.Bits(uint64(n), 16)
			w.Bits(nn, 16)
			for _, c := range d {
				w.Bits(uint64(c), 8)
			}
			plain = append(plain, d...)
		case 1:
			w.Bits(1, 2)
			lits := make([]int, 288)
			for i := range lits {
				switch {
				case i < 144:
					lits[i] = 8
				case i < 256:
					lits[i] = 9
				case i < 280:
					lits[i] = 7
				default:
					lits[i] = 8
				}
			}
			dl := make([]int, 32)
			for i := range dl {
				dl[i] = 5
			}
			plain = synthBody(rng, &w, plain, lits, dl, br)
		case 2:
			w.Bits(2, 2)
			plain = synthDynamic(rng, &w, plain, br)
		}
	}
	w.Align()
	kind := "synth-legal"
	if breakRule > 0 {
		kind = "synth-illegal"
	}
	return Stream{Data: w.Buf, Plain: plain, Valid: breakRule == 0, Kind: kind}
}

func synthDynamic(rng *rand.Rand, w *BitW, plain []byte, br int) []byte {
	// choose literal/length alphabet
	nlit := 257 + rng.Intn(30) // 257..286
	ndist := 1 + rng.Intn(30)
	litLens := make([]int, nlit)
	distLens := make([]int, ndist)
	maxl := 7 + rng.Intn(9) // 7..15
	mode := rng.Intn(6)
	switch mode {
	case 0: // single literal code: only EOB, length 1
		litLens[256] = 1
	default:
		k := 2 + rng.Intn(nlit-1)
		if rng.Intn(3) == 0 {
			k = 2 + rng.Intn(6)
		}
		l := RandLens(rng, nlit, k, maxl)
		// make sure EOB is used: swap a used symbol into 256
		if l[256] == 0 {
			for i := range l {
				if l[i] > 0 {
					l[256], l[i] = l[i], 0
					break
				}
			}
		}
		copy(litLens, l)
	}
	switch rng.Intn(5) {
	case 0: // no distance codes at all (one zero length)
	case 1: // a single distance code of one bit
		distLens[rng.Intn(ndist)] = 1
	default:
		k := 2 + rng.Intn(ndist)
		if k > ndist {
			k = ndist
		}
		if ndist >= 2 {
			copy(distLens, RandLens(rng, ndist, k, maxl))
		} else {
			distLens[0] = 1
		}
	}
	if br == 0 && rng.Intn(2) == 0 {
		// make a non-zero run of equal code lengths straddle the boundary between the
		// literal/length lengths and the distance lengths (RFC 1951 3.2.7: they form
		// ONE sequence, a repeat code may cross it). Permuting lengths among symbols
		// keeps each code complete.
		last := nlit - 1
		if litLens[last] == 0 {
			for i := range litLens {
				if litLens[i] > 0 && i != 256 {
					litLens[last], litLens[i] = litLens[i], 0
					break
				}
			}
		}
		if l := litLens[last]; l > 0 {
			// more literal/length symbols of that length at the very end
			for t := last - 1; t > 256 && t > last-4; t-- {
				if litLens[t] == l {
					continue
				}
				for i := 0; i < 256; i++ {
					if litLens[i] == l {
						litLens[t], litLens[i] = litLens[i], litLens[t]
						break
					}
				}
			}
			// distance lengths equal to l first
			w := 0
			for i := range distLens {
				if distLens[i] == l {
					distLens[w], distLens[i] = distLens[i], distLens[w]
					w++
				}
			}
		}
	}
	switch br {
	case 3: // over-subscribed literal code
		for i := range litLens {
			if litLens[i] > 1 {
				litLens[i]--
				break
			}
		}
	case 4: // incomplete literal code
		for i := range litLens {
			if litLens[i] > 0 && litLens[i] < 15 && i != 256 {
				litLens[i]++
				break
			}
		}
	case 5: // incomplete distance code with two codes
		for i := range distLens {
			distLens[i] = 0
		}
		if ndist >= 2 {
			distLens[0], distLens[1] = 2, 2
		} else {
			distLens[0] = 2
		}
	}
	// code length code
	all := append(append([]int{}, litLens...), distLens...)
	// run-length encode into clen symbols
	type cl struct {
		sym, extra int
		nb         uint
	}
	var seq []cl
	for i := 0; i < len(all); {
		j := i
		for j < len(all) && all[j] == all[i] {
			j++
		}
		run := j - i
		v := all[i]
		useRep := rng.Intn(3) > 0
		if v == 0 && run >= 4 && useRep && rng.Intn(3) == 0 {
			// an explicitly coded zero followed by repeat code 16: "copy the previous
			// code length", which is the zero just coded (legal; zlib and Go never emit it)
			seq = append(seq, cl{0, 0, 0})
			run--
			for run >= 3 {
				r := run
				if r > 6 {
					r = 6
				}
				seq = append(seq, cl{16, r - 3, 2})
				run -= r
			}
			for ; run > 0; run-- {
				seq = append(seq, cl{0, 0, 0})
			}
		} else if v == 0 && run >= 3 && useRep {
			first := true
			for run >= 3 {
				if !first && rng.Intn(2) == 0 {
					// RFC 1951: 16 copies the previous code length, which is
					// zero after a 17/18 run
					r := run
					if r > 6 {
						r = 6
					}
					seq = append(seq, cl{16, r - 3, 2})
					run -= r
					continue
				}
				first = false
				if run >= 11 && rng.Intn(2) == 0 {
					r := run
					if r > 138 {
						r = 138
					}
					seq = append(seq, cl{18, r - 11, 7})
					run -= r
				} else {
					r := run
					if r > 10 {
						r = 10
					}
					seq = append(seq, cl{17, r - 3, 3})
					run -= r
				}
			}
			for ; run > 0; run-- {
				seq = append(seq, cl{0, 0, 0})
			}
		} else if v != 0 && run >= 4 && useRep {
			seq = append(seq, cl{v, 0, 0})
			run--
			for run >= 3 {
				r := run
				if r > 6 {
					r = 6
				}
				seq = append(seq, cl{16, r - 3, 2})
				run -= r
			}
			for ; run > 0; run-- {
				seq = append(seq, cl{v, 0, 0})
			}
		} else {
			for ; run > 0; run-- {
				seq = append(seq, cl{v, 0, 0})
			}
		}
		i = j
	}
	if br == 6 { // repeat code first
		seq = append([]cl{{16, 0, 2}}, seq...)
	}
	if br == 7 { // run past the end of the alphabet
		seq = append(seq, cl{18, 100, 7})
	}
	used := make([]bool, 19)
	for _, c := range seq {
		used[c.sym] = true
	}
	nused := 0
	for _, u := range used {
		if u {
			nused++
		}
	}
	clLens := make([]int, 19)
	if nused == 1 {
		for i, u := range used {
			if u {
				clLens[i] = 1
			}
		}
		if br == 0 && rng.Intn(2) == 0 {
			// also legal: add an unused second code to make the tree complete
			for i := range clLens {
				if clLens[i] == 0 {
					clLens[i] = 1
					break
				}
			}
		}
	} else {
		l := RandLens(rng, nused, nused, 7)
		k := 0
		for i, u := range used {
			if u {
				clLens[i] = l[k]
				k++
			}
		}
	}
	if br == 8 { // over-subscribed code length code
		for i := range clLens {
			if clLens[i] > 1 {
				clLens[i]--
				break
			}
		}
	}
	hclen := 4
	for i, s := range clenOrder {
		if clLens[s] > 0 && i+1 > hclen {
			hclen = i + 1
		}
	}
	if hclen < 19 && rng.Intn(3) == 0 {
		hclen += rng.Intn(19 - hclen + 1)
	}
	hlit, hdist := nlit-257, ndist-1
	if br == 9 { // HLIT > 286
		hlit = 30 + rng.Intn(2)
	}
	if br == 10 { // HDIST > 30
		hdist = 30 + rng.Intn(2)
	}
	w.Bits(uint64(hlit), 5)
	w.Bits(uint64(hdist), 5)
	w.Bits(uint64(hclen-4), 4)
	for i := 0; i < hclen; i++ {
		w.Bits(uint64(clLens[clenOrder[i]]), 3)
	}
	clCodes := Canonical(clLens)
	for _, c := range seq {
		w.Code(clCodes[c.sym], uint(clLens[c.sym]))
		if c.nb > 0 {
			w.Bits(uint64(c.extra), c.nb)
		}
	}
	return synthBody(rng, w, plain, litLens, distLens, br)
}

// synthBody emits literals / matches / EOB using the given code lengths.
func synthBody(rng *rand.Rand, w *BitW, plain []byte, litLens, distLens []int, br int) []byte {
	lc := Canonical(litLens)
	dc := Canonical(distLens)
	var litSyms, lenSyms, distSyms []int
	for s, l := range litLens {
		if l > 0 && s < 256 {
			litSyms = append(litSyms, s)
		}
		if l > 0 && s > 256 && s < 286 {
			lenSyms = append(lenSyms, s)
		}
	}
	for s, l := range distLens {
		if l > 0 && s < 30 {
			distSyms = append(distSyms, s)
		}
	}
	n := rng.Intn(60)
	for i := 0; i < n; i++ {
		if len(lenSyms) > 0 && len(distSyms) > 0 && rng.Intn(3) == 0 {
			ls := lenSyms[rng.Intn(len(lenSyms))]
			ds := distSyms[rng.Intn(len(distSyms))]
			le := rng.Intn(1 << lenExtra[ls-257])
			de := rng.Intn(1 << distExtra[ds])
			length := lenBase[ls-257] + le
			dist := distBase[ds] + de
			if br == 11 { // distance one past the history
				br = 0
				// find a dist symbol covering len(plain)+1 if possible
			} else if dist > len(plain) || dist > 32768 {
				// pick the largest legal distance instead, if any
				ok := false
				for _, s := range distSyms {
					if distBase[s] <= len(plain) {
						ds, ok = s, true
					}
				}
				if !ok {
					goto literal
				}
				de = rng.Intn(1 << distExtra[ds])
				dist = distBase[ds] + de
				if dist > len(plain) {
					de = len(plain) - distBase[ds]
					dist = len(plain)
				}
			}
			w.Code(lc[ls], uint(litLens[ls]))
			w.Bits(uint64(le), lenExtra[ls-257])
			w.Code(dc[ds], uint(distLens[ds]))
			w.Bits(uint64(de), distExtra[ds])
			for k := 0; k < length; k++ {
				if dist <= len(plain) {
					plain = append(plain, plain[len(plain)-dist])
				}
			}
			continue
		}
	literal:
		if len(litSyms) == 0 {
			break
		}
		s := litSyms[rng.Intn(len(litSyms))]
		w.Code(lc[s], uint(litLens[s]))
		plain = append(plain, byte(s))
	}
	if br == 12 { // use an invalid / unused symbol if one has a code
		for _, s := range []int{286, 287} {
			if s < len(litLens) && litLens[s] > 0 {
				w.Code(lc[s], uint(litLens[s]))
			}
		}
	}
	if litLens[256] > 0 {
		w.Code(lc[256], uint(litLens[256]))
	}
	return plain
}

// Mutate applies one random mutation.
func Mutate(rng *rand.Rand, d []byte) []byte {
	d = append([]byte{}, d...)
	switch rng.Intn(7) {
	case 0:
		if len(d) > 0 {
			d[rng.Intn(len(d))] ^= 1 << uint(rng.Intn(8))
		}
	case 1:
		if len(d) > 0 {
			d = d[:rng.Intn(len(d))]
		}
	case 2:
		if len(d) > 0 {
			i := rng.Intn(len(d))
			d = append(d[:i], d[i+1:]...)
		}
	case 3:
		i := rng.Intn(len(d) + 1)
		d = append(d[:i], append([]byte{byte(rng.Intn(256))}, d[i:]...)...)
	case 4:
		if len(d) > 0 {
			d[rng.Intn(len(d))] = byte(rng.Intn(256))
		}
	case 5:
		if len(d) > 8 {
			// early bits: headers live there
			d[rng.Intn(8)] ^= 1 << uint(rng.Intn(8))
		}
	case 6:
		d = append(d, vhlib.RandBytes(rng, 1+rng.Intn(4))...)
	}
	return d
}

// SynthBoundary: stored block(s) whose output ends exactly at (or one off) a
// size at which the decoder's window buffer is full (4096, 16384, 32768 and
// multiples), followed directly by a Huffman block that starts with a
// literal or with a match.
func SynthBoundary(rng *rand.Rand) Stream {
	var w BitW
	target := []int{4096, 16384, 32768, 65536, 98304}[rng.Intn(5)] + []int{0, 0, 0, -1, 1}[rng.Intn(5)]
	var plain []byte
	for len(plain) < target {
		n := target - len(plain)
		if n > 65535 {
			n = 65535
		}
		if rng.Intn(3) == 0 && n > 10 {
			n = 1 + rng.Intn(n)
		}
		d := vhlib.RandBytes(rng, n)
		w.Bits(0, 1)
		w.Bits(0, 2)
		w.Align()
		w.Bits(uint64(n), 16)
		w.Bits(uint64(^uint16(n)), 16)
		for _, c := range d {
			w.Bits(uint64(c), 8)
		}
		plain = append(plain, d...)
	}
	// final fixed-Huffman block
	w.Bits(1, 1)
	w.Bits(1, 2)
	lits := make([]int, 288)
	for i := range lits {
		switch {
		case i < 144:
			lits[i] = 8
		case i < 256:
			lits[i] = 9
		case i < 280:
			lits[i] = 7
		default:
			lits[i] = 8
		}
	}
	lc := Canonical(lits)
	emitLit := func(c int) {
		w.Code(lc[c], uint(lits[c]))
		plain = append(plain, byte(c))
	}
	emitMatch := func() {
		// length 3 (symbol 257), distance 1..4 (symbols 0..3, 5-bit codes)
		w.Code(lc[257], uint(lits[257]))
		d := 1 + rng.Intn(4)
		w.Code(uint64(d-1), 5)
		for k := 0; k < 3; k++ {
			plain = append(plain, plain[len(plain)-d])
		}
	}
	for k := 0; k < 1+rng.Intn(6); k++ {
		if rng.Intn(2) == 0 && len(plain) > 4 {
			emitMatch()
		} else {
			emitLit(rng.Intn(256))
		}
	}
	w.Code(lc[256], uint(lits[256]))
	w.Align()
	return Stream{Data: w.Buf, Plain: plain, Valid: true, Kind: "synth-boundary"}
}

// SynthShortEOB: one final dynamic block in which (nearly) all literals and
// some length symbols are used with long codes while end-of-block has the
// shortest code, so that the stream ends a few bits after the last symbol.
func SynthShortEOB(rng *rand.Rand) Stream {
	var w BitW
	w.Bits(1, 1)
	w.Bits(2, 2)
	nlit := 257 + rng.Intn(30)
	litLens := make([]int, nlit)
	used := 0
	for i := range litLens {
		if i == 256 || rng.Intn(12) != 0 {
			litLens[i] = 1
			used++
		}
	}
	// lengths: EOB short, the others a complete code below it
	l := RandLens(rng, used, used, 15)
	// make the first entry the shortest
	mi := 0
	for i := range l {
		if l[i] < l[mi] {
			mi = i
		}
	}
	l[0], l[mi] = l[mi], l[0]
	k := 1
	for i := range litLens {
		if litLens[i] == 0 {
			continue
		}
		if i == 256 {
			litLens[i] = l[0]
		} else {
			litLens[i] = l[k]
			k++
		}
	}
	distLens := []int{1, 1}
	all := append(append([]int{}, litLens...), distLens...)
	clLens := make([]int, 19)
	usedCl := map[int]bool{}
	for _, v := range all {
		usedCl[v] = true
	}
	var syms []int
	for v := range usedCl {
		syms = append(syms, v)
	}
	if len(syms) == 1 {
		clLens[syms[0]] = 1
	} else {
		// fixed-length code over the used symbols
		nb := 1
		for (1 << uint(nb)) < len(syms) {
			nb++
		}
		cl := RandLens(rng, len(syms), len(syms), 7)
		for i, v := range syms {
			clLens[v] = cl[i]
		}
		_ = nb
	}
	hclen := 19
	w.Bits(uint64(nlit-257), 5)
	w.Bits(uint64(len(distLens)-1), 5)
	w.Bits(uint64(hclen-4), 4)
	for i := 0; i < hclen; i++ {
		w.Bits(uint64(clLens[clenOrder[i]]), 3)
	}
	cc := Canonical(clLens)
	for _, v := range all {
		w.Code(cc[v], uint(clLens[v]))
	}
	lc := Canonical(litLens)
	var plain []byte
	for i := 0; i < 1+rng.Intn(20); i++ {
		c := rng.Intn(256)
		if litLens[c] == 0 {
			continue
		}
		w.Code(lc[c], uint(litLens[c]))
		plain = append(plain, byte(c))
	}
	w.Code(lc[256], uint(litLens[256]))
	w.Align()
	return Stream{Data: w.Buf, Plain: plain, Valid: true, Kind: "synth-short-eob"}
}

// FlateCorpus returns a mixed set of DEFLATE inputs.
func FlateCorpus(rng *rand.Rand, n int, maxPlain int) []Stream {
	var out []Stream
	for i := 0; i < n; i++ {
		switch rng.Intn(12) {
		case 10:
			out = append(out, SynthBoundary(rng))
		case 11:
			out = append(out, SynthShortEOB(rng))
		case 0, 1:
			p := Plain(rng, maxPlain)
			lv := []int{-2, 0, 1, 2, 3, 4, 5, 6, 7, 8, 9}[rng.Intn(11)]
			out = append(out, Stream{Data: StdDeflate(rng, p, lv), Plain: p, Valid: true, Kind: "std"})
		case 2, 3:
			p := Plain(rng, maxPlain)
			if z := ZlibDeflate(rng, p); z != nil {
				out = append(out, Stream{Data: z, Plain: p, Valid: true, Kind: "zlib"})
			}
		case 4, 5:
			out = append(out, SynthFlate(rng, 0))
		case 6:
			out = append(out, SynthFlate(rng, 1+rng.Intn(12)))
		default:
			var base Stream
			if rng.Intn(2) == 0 {
				p := Plain(rng, 300)
				base = Stream{Data: StdDeflate(rng, p, 1+rng.Intn(9)), Plain: p}
			} else {
				base = SynthFlate(rng, 0)
			}
			out = append(out, Stream{Data: Mutate(rng, base.Data), Kind: "mutated"})
		}
	}
	return out
}

// Text is word-like data over a random vocabulary with a skewed choice of
// words: it compresses into dynamic-code blocks whose code tables differ from
// one call to the next.
func Text(rng *rand.Rand, n int) []byte {
	alpha := []string{"abcdefghijklmnopqrstuvwxyz", "ABCDEFGHIJKLMNOPQRSTUVWXYZ0123456789", "etaoin shrdlu", "01", "#[]{}<>|&^~@$%QZXJ", "aeiou\n\t ,."}[rng.Intn(6)]
	words := make([]string, 8+rng.Intn(60))
	for i := range words {
		w := make([]byte, 1+rng.Intn(9))
		for j := range w {
			w[j] = alpha[rng.Intn(len(alpha))]
		}
		words[i] = string(w)
	}
	b := make([]byte, 0, n+16)
	for len(b) < n {
		i := rng.Intn(len(words))
		if rng.Intn(2) == 0 {
			i = rng.Intn(1 + i/4)
		}
		b = append(b, words[i]...)
		b = append(b, " ,.\n"[rng.Intn(4)])
	}
	return b[:n]
}
