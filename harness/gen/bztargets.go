package gen

import (
	"bytes"
	"math/rand"
)

type tcase struct {
	kind string
	data []byte
}

// targetedCases: block-size limits, run-length limits and the RLE1 block-end
// rules, built with the synthesiser on chosen block contents.
func targetedCases(rng *rand.Rand) []tcase {
	var out []tcase
	mk := func(kind string, level int, tt []byte, ptr int, B []byte) {
		o := synthOpts{level: level, nblocks: 1, nstreams: 1, plain: true, presetTT: tt, presetPtr: ptr, presetB: B}
		s, _ := synthStream(rng, o)
		out = append(out, tcase{"target-" + kind, s})
	}
	rep := func(c byte, n int) []byte { return bytes.Repeat([]byte{c}, n) }
	alt := func(n int) []byte {
		b := make([]byte, n)
		for i := range b {
			b[i] = "ab"[i%2]
		}
		return b
	}
	// RUNA/RUNB run filling the block exactly / one too many
	mk("run-100000-level1", 1, rep('a', 100000), 0, nil)
	mk("run-100001-level1", 1, rep('a', 100001), 0, nil)
	mk("run-100001-level2", 2, rep('a', 100001), 0, nil)
	// a block of exactly level*100000 bytes / one too many (no runs of 4)
	noruns := func(n int) []byte {
		b := make([]byte, n)
		for i := range b {
			b[i] = "abc"[rng.Intn(3)]
			for i > 0 && b[i] == b[i-1] {
				b[i] = "abc"[rng.Intn(3)]
			}
		}
		return b
	}
	mk("block-100000-level1", 1, nil, 0, noruns(100000))
	mk("block-100001-level1", 1, nil, 0, noruns(100001))
	mk("block-100001-level2", 2, nil, 0, noruns(100001))
	// a run of 2^20 + 5 (21 run symbols) at level 9: exceeds 900000
	mk("run-2^20-level9", 9, rep('a', 1<<20+5), 0, nil)
	// run after ordinary symbols reaching the limit exactly / exceeding it
	mk("syms+run-100000-level1", 1, append(alt(50000), rep('b', 50000)...), 3, nil)
	mk("syms+run-100001-level1", 1, append(alt(50000), rep('b', 50001)...), 3, nil)
	mk("run+sym-100000-level1", 1, append(rep('b', 99999), 'a'), 0, nil)
	mk("run+sym-100001-level1", 1, append(rep('b', 100000), 'a'), 0, nil)
	// origin pointer edges
	mk("ptr-last", 1, []byte("banana-bandana"), 13, nil)
	mk("ptr-equal-n", 1, []byte("banana-bandana"), 14, nil)
	// RLE1 block-end rules
	mk("rle1-missing-count", 1, nil, 0, []byte("xyzaaaa"))
	mk("rle1-missing-count-only", 1, nil, 0, []byte("aaaa"))
	mk("rle1-count0-end", 1, nil, 0, []byte("xyzaaaa\x00"))
	mk("rle1-count0-same", 1, nil, 0, []byte("xyzaaaa\x00aaaa\x00a"))
	mk("rle1-count255", 1, nil, 0, []byte("qaaaa\xffaaaa\xffb"))
	mk("rle1-three-at-end", 1, nil, 0, []byte("xyzaaa"))
	mk("rle1-count-is-byte", 1, nil, 0, []byte("aaaaa"))
	// two blocks: three equal bytes at the end of one, the same byte and a
	// would-be count at the start of the next (state must not carry over)
	{
		s := synthTwoBlocks(rng, []byte("xaaa"), []byte("a\x05bc"))
		out = append(out, tcase{"target-rle1-state-across-blocks", s})
	}
	return out
}

// BzCase is one generated bzip2 input.
type BzCase struct {
	Kind string
	Data []byte
}

// BzSynth returns a bit-level synthesised bzip2 stream (random options).
func BzSynth(rng *rand.Rand) BzCase {
	s, info := synthStream(rng, synthOptsRandom(rng))
	return BzCase{"synth-" + info.kind, s}
}

// BzTargeted returns the block-limit / run-limit / RLE1 edge cases.
func BzTargeted(rng *rand.Rand) []BzCase {
	var out []BzCase
	for _, t := range targetedCases(rng) {
		out = append(out, BzCase{t.kind, t.data})
	}
	return out
}

// BzKraftCombos: blocks whose trees are each under-subscribed while their
// Kraft sums add up to exactly one (1/2+1/2, 3/4+1/4, 1/2+1/4+1/4, ...).
// libbzip2 decodes them; a decoder must treat every tree on its own.
func BzKraftCombos(rng *rand.Rand) []BzCase {
	var out []BzCase
	for _, k := range [][]int{{1, 1}, {3, 2}, {2, 3}, {1, 2, 2}, {2, 2, 1}, {2, 1, 2}, {1, 1, 0}, {0, 1, 1}, {2, 2, 2, 2}, {1, 0}} {
		o := synthOpts{level: 1 + rng.Intn(9), nblocks: 1, nstreams: 1, plain: true, kraft: k}
		s, _ := synthStream(rng, o)
		out = append(out, BzCase{"synth-kraft-combo", s})
	}
	return out
}

// BzOverlongRun: a synthesised stream with one RUNA/RUNB run number of 19..48 digits
// (libbzip2 refuses run weights from 2^21 on; 32-bit counters wrap from digit 32 on).
func BzOverlongRun(rng *rand.Rand) BzCase {
	o := synthOptsRandom(rng)
	o.inject = 15
	s, _ := synthStream(rng, o)
	return BzCase{"synth-overlong-run", s}
}

// BzMultiBlock: a VALID synthesized stream (no injected fault) with nblocks small blocks.
func BzMultiBlock(rng *rand.Rand, nblocks int) BzCase {
	o := synthOpts{level: 1 + rng.Intn(9), nblocks: nblocks, nstreams: 1, plain: true}
	s, _ := synthStream(rng, o)
	return BzCase{"synth-multiblock", s}
}

// BzFullBlock: a synthesized stream of the given level whose single block is COMPLETELY full
// (level*100000 bytes before RLE1 expansion) and whose BWT output has no two equal neighbours, so
// that the MTF/RLE2 stage saves nothing: level*100000 symbols plus the end-of-block symbol, the
// largest number of 50-symbol groups (and selectors) a block of that level can need (18001 at
// level 9). short > 0 leaves the block that many bytes below the limit.
func BzFullBlock(rng *rand.Rand, level, short int) BzCase {
	n := level*100000 - short
	k := 3 + rng.Intn(5)
	tt := make([]byte, n)
	prev := -1
	for i := range tt {
		c := rng.Intn(k)
		if c == prev {
			c = (c + 1) % k
		}
		tt[i] = byte('a' + c)
		prev = c
	}
	o := synthOpts{level: level, nblocks: 1, nstreams: 1, plain: true, presetTT: tt, presetPtr: rng.Intn(n)}
	s, _ := synthStream(rng, o)
	return BzCase{"synth-full-block", s}
}

// BzRelatedBlocks: a synthesized stream of 2..4 blocks over one alphabet whose code-length tables
// are derived, tree by tree, from those of the block before (see synthOpts.related); tables may be
// complete, under- or over-subscribed. libbzip2 decides what is accepted.
func BzRelatedBlocks(rng *rand.Rand) BzCase {
	o := synthOpts{level: 1 + rng.Intn(9), nblocks: 2 + rng.Intn(3), nstreams: 1, related: &relState{k: 2 + rng.Intn(5)}}
	s, _ := synthStream(rng, o)
	return BzCase{"synth-related-blocks", s}
}
