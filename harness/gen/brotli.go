package gen

import (
	"math/rand"

	"github.com/dsnet/compress/xflate/verifharness/ref"
	"github.com/dsnet/compress/xflate/verifharness/vhlib"
)

// BrotliEnc compresses with libbrotlienc over random parameters and flushes.
func BrotliEnc(rng *rand.Rand, data []byte) []byte {
	q := rng.Intn(12)
	lgwin := 10 + rng.Intn(15)
	mode := rng.Intn(3)
	lgblock := 0
	if rng.Intn(3) == 0 {
		lgblock = 16 + rng.Intn(9)
	}
	np, nd := -1, -1
	if rng.Intn(3) == 0 {
		np = rng.Intn(4)
		nd = rng.Intn(16) << uint(np)
	}
	var ops []ref.BrOp
	for _, p := range vhlib.Partition(rng, data) {
		op := 0
		if rng.Intn(5) == 0 {
			op = 1
		}
		ops = append(ops, ref.BrOp{Data: p, Op: op})
		if rng.Intn(12) == 0 {
			// libbrotlienc mis-encodes 1-byte metadata (header says 0 bytes): use 0 or >= 2
			ml := []int{0, 2, 3, 7, 40}[rng.Intn(5)]
			ops = append(ops, ref.BrOp{Data: vhlib.RandBytes(rng, ml), Op: 3})
		}
	}
	ops = append(ops, ref.BrOp{Op: 2})
	out := ref.BrCompress(ops, q, lgwin, mode, lgblock, np, nd)
	if out != nil {
		if dec, st, _ := ref.BrDecompress(out, len(data)+16); st == "end" && len(dec) == len(data) {
			return out
		}
	}
	return ref.BrCompress([]ref.BrOp{{Data: data, Op: 2}}, 5, 22, 0, 0, -1, -1)
}
