package gen

// BzOverRequest: a bzip2 input on which prefix.Reader.ReadSymbol asks its source for more bits
// than the code word it finally decodes.  One block, one byte value in use (alphabet RUNA, RUNB,
// end-of-block), two trees with the under-subscribed lengths (2, long, long): the C tables give
// 00 -> RUNA, 01 0..0 0/1 -> RUNB / end-of-block, and every other continuation is dead
// (handleDegenerateCodes inserts an invalid symbol at 1, 011, 0101, ...).  The symbols are
// RUNA and then the dead prefix 011, placed so that its first two bits are the last two bits of
// a byte; pad more bytes follow.  With the two bits "01" in its bit buffer the table walk finds
// the code 01 0..0 of length `long` and asks for that many bits.
func BzOverRequest(long int, pad int) BzCase { return BzOverRequestDead(long, 3, pad) }

// BzOverRequestDead: the same with the dead prefix 01 0..0 1 of `dead` bits (3 <= dead < long).
// With dead >= 11 the over-request also reaches a BufferedReader that hands out its data in
// small pieces (the bits it has loaded do not reach the end of the dead prefix).
func BzOverRequestDead(long int, dead int, pad int) BzCase {
	w := &BitW{MSB: true}
	w.Bits(0x425a, 16)
	w.Bits('h', 8)
	w.Bits('1', 8)
	w.Bits(0x314159265359, 48)
	w.Bits(0, 32) // stored CRC (never reached)
	w.Bits(0, 1)
	w.Bits(0, 24)         // origin pointer
	w.Bits(1<<(15-6), 16) // rows in use: 0x60..0x6f
	w.Bits(1<<(15-1), 16) // 'a'
	w.Bits(2, 3)          // two trees
	w.Bits(1, 15)         // one selector
	w.Bit(0)
	for t := 0; t < 2; t++ {
		w.Bits(2, 5)
		w.Bit(0) // RUNA: 2
		for k := 2; k < long; k++ {
			w.Bits(2, 2)
		}
		w.Bit(0) // RUNB: long
		w.Bit(0) // end of block: long
	}
	// symbols start at bit 243 + 1 + 2*(long-12) ... keep the dead prefix at 6 mod 8
	for (w.NBits()+2)%8 != 6 {
		w.Bits(0, 2) // RUNA
		if w.NBits()%2 == 1 {
			panic("odd")
		}
	}
	w.Bits(0, 2) // RUNA
	w.Bits(1, 2) // 01
	for k := 3; k < dead; k++ {
		w.Bit(0)
	}
	w.Bit(1) // ...1: dead
	w.Align()
	for k := 0; k < pad; k++ {
		w.Bits(0, 8)
	}
	return BzCase{"over-request", w.Buf}
}
