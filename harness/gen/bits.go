// Package gen: structured input generators shared by the property harnesses.
package gen

import "math/rand"

// BitW writes bits LSB-first within bytes (DEFLATE / Brotli order) or
// MSB-first (bzip2).
type BitW struct {
	Buf  []byte
	nbit uint
	MSB  bool
}

func (w *BitW) Bit(b uint) {
	if w.nbit%8 == 0 {
		w.Buf = append(w.Buf, 0)
	}
	if b&1 != 0 {
		if w.MSB {
			w.Buf[len(w.Buf)-1] |= 0x80 >> (w.nbit % 8)
		} else {
			w.Buf[len(w.Buf)-1] |= 1 << (w.nbit % 8)
		}
	}
	w.nbit++
}

// Bits writes the n low bits of v, least significant first (LSB mode) or
// most significant first (MSB mode).
func (w *BitW) Bits(v uint64, n uint) {
	if w.MSB {
		for i := int(n) - 1; i >= 0; i-- {
			w.Bit(uint(v>>uint(i)) & 1)
		}
		return
	}
	for i := uint(0); i < n; i++ {
		w.Bit(uint(v>>i) & 1)
	}
}

// Code writes a Huffman code of length n whose value is given MSB-first.
func (w *BitW) Code(v uint64, n uint) {
	for i := int(n) - 1; i >= 0; i-- {
		w.Bit(uint(v>>uint(i)) & 1)
	}
}

func (w *BitW) Align() {
	for w.nbit%8 != 0 {
		w.Bit(0)
	}
}
func (w *BitW) NBits() uint { return w.nbit }

// Canonical assigns canonical Huffman codes to lengths (0 = unused).
func Canonical(lens []int) []uint64 {
	maxl := 0
	for _, l := range lens {
		if l > maxl {
			maxl = l
		}
	}
	cnt := make([]int, maxl+2)
	for _, l := range lens {
		if l > 0 {
			cnt[l]++
		}
	}
	next2 := make([]uint64, maxl+2)
	c := uint64(0)
	prev := 0
	for l := 1; l <= maxl; l++ {
		c = (c + uint64(prev)) << 1
		next2[l] = c
		prev = cnt[l]
	}
	out := make([]uint64, len(lens))
	for i, l := range lens {
		if l > 0 {
			out[i] = next2[l]
			next2[l]++
		}
	}
	return out
}

// RandLens returns a complete (Kraft sum = 1) length assignment for exactly
// k used symbols out of n (k >= 2), max length maxl, by random splitting.
func RandLens(rng *rand.Rand, n, k, maxl int) []int {
	if k > n {
		k = n
	}
	leaves := []int{1, 1}
	for len(leaves) < k {
		// split a random leaf that is not at max depth
		var cand []int
		for i, l := range leaves {
			if l < maxl {
				cand = append(cand, i)
			}
		}
		if len(cand) == 0 {
			break
		}
		i := cand[rng.Intn(len(cand))]
		leaves[i]++
		leaves = append(leaves, leaves[i])
	}
	lens := make([]int, n)
	perm := rng.Perm(n)
	for i, l := range leaves {
		lens[perm[i]] = l
	}
	return lens
}
