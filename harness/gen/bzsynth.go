package gen

// Bit-level synthesiser of bzip2 streams. Everything here is written from
// the format description (independently of /repo/bzip2 and of the Coq
// model): CRC, BWT, RLE1, MTF/RLE2 and libbzip2's decoding tables, so that
// streams with arbitrary selectors, 2..6 trees, over/under-subscribed length
// vectors, extra selectors, sparse symbol maps, RLE1 counts 0..255 etc. can
// be produced with correct checksums.

import (
	"math/rand"
	"sort"
)

func crcBZ(data []byte) uint32 {
	crc := uint32(0xffffffff)
	for _, b := range data {
		crc ^= uint32(b) << 24
		for i := 0; i < 8; i++ {
			if crc&0x80000000 != 0 {
				crc = crc<<1 ^ 0x04c11db7
			} else {
				crc <<= 1
			}
		}
	}
	return ^crc
}

func bwtNaive(b []byte) (out []byte, ptr int) {
	n := len(b)
	t := append(append([]byte(nil), b...), b...)
	idx := make([]int, n)
	for i := range idx {
		idx[i] = i
	}
	sort.SliceStable(idx, func(x, y int) bool {
		i, j := idx[x], idx[y]
		for k := 0; k < n; k++ {
			if t[i+k] != t[j+k] {
				return t[i+k] < t[j+k]
			}
		}
		return false
	})
	out = make([]byte, n)
	for r, i := range idx {
		out[r] = t[i+n-1]
		if i == 0 {
			ptr = r
		}
	}
	return out, ptr
}

func invBWT(tt []byte, ptr int) []byte {
	n := len(tt)
	var cf [257]int
	for _, b := range tt {
		cf[int(b)+1]++
	}
	for i := 1; i <= 256; i++ {
		cf[i] += cf[i-1]
	}
	next := make([]int, n)
	for i, b := range tt {
		next[cf[b]] = i
		cf[b]++
	}
	out := make([]byte, n)
	p := next[ptr]
	for j := 0; j < n; j++ {
		out[j] = tt[p]
		p = next[p]
	}
	return out
}

// rle1Expand: ok=false when the block ends right after four equal bytes.
func rle1Expand(b []byte) (out []byte, ok bool) {
	run := 0
	var last byte
	for _, c := range b {
		if run == 4 {
			for k := 0; k < int(c); k++ {
				out = append(out, last)
			}
			run = 0
			continue
		}
		if run > 0 && c == last {
			run++
		} else {
			run, last = 1, c
		}
		out = append(out, c)
	}
	return out, run != 4
}

func mtfRle2(tt []byte, dict []byte) []int {
	d := append([]byte(nil), dict...)
	var syms []int
	run := 0
	flush := func() {
		for v := run + 1; v > 1; v >>= 1 {
			syms = append(syms, v&1)
		}
		run = 0
	}
	for _, c := range tt {
		i := bytes_index(d, c)
		if i == 0 {
			run++
			continue
		}
		if run > 0 {
			flush()
		}
		copy(d[1:], d[:i])
		d[0] = c
		syms = append(syms, i+1)
	}
	if run > 0 {
		flush()
	}
	return syms
}

func bytes_index(d []byte, c byte) int {
	for i, x := range d {
		if x == c {
			return i
		}
	}
	panic("symbol not in dictionary")
}

// ---- libbzip2's decoding tables (huffman.c) and GET_MTF_VAL, used to find
// out which symbols a (possibly degenerate) length vector can encode.
type ctable struct {
	lens           []int
	minLen, maxLen int
	limit, base    [23]int
	perm           []int
	code           []uint32
	enc            []bool
	complete       bool
}

func mkCTable(lens []int) *ctable {
	t := &ctable{lens: lens, minLen: 32, maxLen: 0}
	for _, l := range lens {
		if l > t.maxLen {
			t.maxLen = l
		}
		if l < t.minLen {
			t.minLen = l
		}
	}
	for i := t.minLen; i <= t.maxLen; i++ {
		for j, l := range lens {
			if l == i {
				t.perm = append(t.perm, j)
			}
		}
	}
	for _, l := range lens {
		t.base[l+1]++
	}
	for i := 1; i < 23; i++ {
		t.base[i] += t.base[i-1]
	}
	vec := 0
	for i := t.minLen; i <= t.maxLen; i++ {
		vec += t.base[i+1] - t.base[i]
		t.limit[i] = vec - 1
		vec <<= 1
	}
	for i := t.minLen + 1; i <= t.maxLen; i++ {
		t.base[i] = ((t.limit[i-1] + 1) << 1) - t.base[i]
	}
	kraft := 0
	for _, l := range lens {
		kraft += 1 << uint(20-l)
	}
	t.complete = kraft == 1<<20
	t.code = make([]uint32, len(lens))
	t.enc = make([]bool, len(lens))
	for k, s := range t.perm {
		L := lens[s]
		z := k + t.base[L]
		if z < 0 || z >= 1<<uint(L) {
			continue
		}
		if sym, used, ok := t.decode(uint32(z), L); ok && sym == s && used == L {
			t.code[s] = uint32(z)
			t.enc[s] = true
		}
	}
	return t
}

// decode the n-bit string `code` (MSB first); ok=false when it does not
// resolve to a symbol within its n bits.
func (t *ctable) decode(code uint32, n int) (sym, used int, ok bool) {
	zn := t.minLen
	if zn > n {
		return 0, 0, false
	}
	zvec := int(code >> uint(n-zn))
	for {
		if zn > 20 {
			return 0, 0, false
		}
		if zvec <= t.limit[zn] {
			break
		}
		zn++
		if zn > n {
			return 0, 0, false
		}
		zvec = int(code >> uint(n-zn))
	}
	i := zvec - t.base[zn]
	if i < 0 || i >= len(t.perm) {
		return 0, 0, false
	}
	return t.perm[i], zn, true
}

// ---- length vectors
func genLens(rng *rand.Rand, a int) (lens []int, kind string) {
	complete := func(maxl int) []int {
		for 1<<uint(maxl) < a {
			maxl++
		}
		return RandLens(rng, a, a, maxl)
	}
	switch rng.Intn(10) {
	case 0, 1, 2:
		return complete(20), "complete"
	case 3:
		return complete(9 + rng.Intn(6)), "complete"
	case 4, 5: // under-subscribed: lengthen some codes
		l := complete(17)
		for k := 0; k < 1+rng.Intn(4); k++ {
			i := rng.Intn(a)
			l[i] += 1 + rng.Intn(3)
			if l[i] > 20 {
				l[i] = 20
			}
		}
		return l, "under"
	case 6, 7: // over-subscribed: shorten some codes
		l := complete(20)
		for k := 0; k < 1+rng.Intn(3); k++ {
			i := rng.Intn(a)
			l[i] -= 1 + rng.Intn(2)
			if l[i] < 1 {
				l[i] = 1
			}
		}
		return l, "over"
	case 8: // all equal
		l := make([]int, a)
		v := 1 + rng.Intn(10)
		for i := range l {
			l[i] = v
		}
		return l, "equal"
	default:
		l := make([]int, a)
		m := 2 + rng.Intn(19)
		for i := range l {
			l[i] = 1 + rng.Intn(m)
		}
		return l, "random"
	}
}

// ---- options
type synthOpts struct {
	level    int
	nblocks  int
	nstreams int
	inject   int // 0 = none, else one deliberate error of this number

	// preset block content (targeted cases): BWT output and origin pointer,
	// or the RLE1-form block itself
	presetTT  []byte
	presetPtr int
	presetB   []byte
	plain     bool  // complete tables only, no extras
	kraft     []int // per tree: 0 complete, 1 Kraft sum 1/2, 2 sum 1/4, 3 sum 3/4
	// related: consecutive blocks use the same alphabet, and the code-length table of tree i in a
	// block is derived from tree i of the block before it (identical, one entry changed, or one
	// entry taken out with the rest moved up and the last one doubled - what compacting a table
	// in place leaves behind)
	related *relState
}

type relState struct {
	k    int     // number of byte values in use
	lens [][]int // tables of the previous block
}

func synthOptsRandom(rng *rand.Rand) synthOpts {
	o := synthOpts{level: 1 + rng.Intn(9), nblocks: 1, nstreams: 1}
	switch rng.Intn(10) {
	case 0:
		o.nblocks = 0
	case 1, 2:
		o.nblocks = 2 + rng.Intn(2)
	}
	if rng.Intn(12) == 0 {
		o.nstreams = 2
	}
	if rng.Intn(8) == 0 {
		o.inject = 1 + rng.Intn(15)
	}
	return o
}

type synthInfo struct {
	kind     string
	degen    bool
	expectOK bool
}

// block content in RLE1 form
func genRLE1Block(rng *rand.Rand, missingCount bool) []byte {
	n := 1 + rng.Intn(60)
	switch rng.Intn(4) {
	case 0:
		n = 1 + rng.Intn(8)
	case 1:
		n = 100 + rng.Intn(700)
	}
	k := 1 + rng.Intn(8)
	if rng.Intn(4) == 0 {
		k = 1 + rng.Intn(256)
	}
	al := rng.Perm(256)[:k]
	var b []byte
	for len(b) < n {
		c := byte(al[rng.Intn(k)])
		switch rng.Intn(5) {
		case 0: // four equal bytes and a count
			var cnt byte
			switch rng.Intn(6) {
			case 0:
				cnt = 0
			case 1:
				cnt = 255
			case 2:
				cnt = 1
			case 3:
				cnt = c // count equal to the byte itself
			default:
				cnt = byte(rng.Intn(256))
			}
			b = append(b, c, c, c, c, cnt)
			if rng.Intn(3) == 0 {
				b = append(b, c) // same byte right after the count
			}
		case 1:
			for i := 0; i < 1+rng.Intn(3); i++ {
				b = append(b, c)
			}
		default:
			b = append(b, c)
		}
	}
	// make sure the tail is not accidentally four equal bytes without count
	if _, ok := rle1Expand(b); !ok {
		b = append(b, byte(rng.Intn(256)))
	}
	if missingCount {
		c := byte(rng.Intn(256))
		if len(b) > 0 && b[len(b)-1] == c {
			c++
		}
		b = append(b, c, c, c, c)
		if _, ok := rle1Expand(b); ok { // the new bytes were taken as a count
			b = append(b, c+1, c+1, c+1, c+1)
		}
	}
	return b
}

func writeLens(w *BitW, rng *rand.Rand, lens []int) {
	cur := lens[0]
	if rng.Intn(6) == 0 {
		cur = 1 + rng.Intn(20)
	}
	w.Bits(uint64(cur), 5)
	for _, l := range lens {
		if rng.Intn(40) == 0 && cur < 20 { // detour
			w.Bits(2, 2)
			cur++
		}
		for cur < l {
			w.Bits(2, 2) // 10: increment
			cur++
		}
		for cur > l {
			w.Bits(3, 2) // 11: decrement
			cur--
		}
		w.Bits(0, 1)
	}
}

// synthBlock appends one block; returns its stored CRC (as written).
func synthBlock(w *BitW, rng *rand.Rand, o synthOpts, inject int, info *synthInfo) uint32 {
	var tt []byte
	var ptr int
	var B []byte
	if o.presetTT != nil {
		tt, ptr = o.presetTT, o.presetPtr
		if ptr < len(tt) {
			B = invBWT(tt, ptr)
		}
	} else if o.presetB != nil {
		B = o.presetB
		tt, ptr = bwtNaive(B)
	} else if o.related != nil {
		n := 60 + rng.Intn(200)
		tt = make([]byte, n)
		for i := range tt {
			tt[i] = byte(rng.Intn(o.related.k) * 37)
			if i < o.related.k {
				tt[i] = byte(i * 37)
			}
		}
		ptr = rng.Intn(n)
		B = invBWT(tt, ptr)
		info.kind = "related"
	} else if rng.Intn(10) < 7 {
		B = genRLE1Block(rng, inject == 1)
		tt, ptr = bwtNaive(B)
		info.kind = "fwd"
	} else {
		n := 1 + rng.Intn(300)
		k := 1 + rng.Intn(6)
		tt = make([]byte, n)
		for i := range tt {
			tt[i] = byte(rng.Intn(k) * 37)
		}
		switch rng.Intn(4) {
		case 0:
			ptr = 0
		case 1:
			ptr = n - 1
		default:
			ptr = rng.Intn(n)
		}
		B = invBWT(tt, ptr)
		info.kind = "raw"
	}
	out, ok := rle1Expand(B)
	if !ok {
		info.expectOK = false
	}
	crc := crcBZ(out)
	if inject == 2 {
		crc ^= 1 << uint(rng.Intn(32))
		info.expectOK = false
	}
	if inject == 3 { // origin pointer just outside the block
		ptr = len(tt) + rng.Intn(2)
		info.expectOK = false
	}

	// symbol map
	var used [256]bool
	for _, c := range tt {
		used[c] = true
	}
	if !o.plain && o.related == nil && rng.Intn(3) == 0 { // sparse extras that never occur
		for k := 0; k < 1+rng.Intn(5); k++ {
			used[rng.Intn(256)] = true
		}
	}
	if !o.plain && o.related == nil && rng.Intn(30) == 0 {
		for i := range used {
			used[i] = true
		}
	}
	var dict []byte
	for i, u := range used {
		if u {
			dict = append(dict, byte(i))
		}
	}
	alpha := len(dict) + 2
	syms := mtfRle2(tt, dict)
	if inject == 15 {
		// an overlong run number: 0..3 low RUNA/RUNB digits, then 19..45 more digits
		// (libbzip2 refuses a run number once its weight reaches 2^21; a 32-bit counter
		// wraps from digit 32 on)
		var run []int
		for k := rng.Intn(4); k > 0; k-- {
			run = append(run, rng.Intn(2))
		}
		hi := 19 + rng.Intn(27)
		for k := 0; k < hi; k++ {
			if rng.Intn(4) == 0 {
				run = append(run, 1)
			} else {
				run = append(run, 0)
			}
		}
		at := 0
		if len(syms) > 0 {
			at = rng.Intn(len(syms) + 1)
		}
		syms = append(syms[:at:at], append(run, syms[at:]...)...)
		info.expectOK = false
	}
	syms = append(syms, alpha-1) // end of block

	// tables
	nGroups := 2 + rng.Intn(5)
	if o.kraft != nil {
		nGroups = len(o.kraft)
	}
	if o.related != nil && len(o.related.lens) > 0 && rng.Intn(4) != 0 {
		nGroups = len(o.related.lens)
	}
	var allLens [][]int
	tabs := make([]*ctable, nGroups)
	for g := range tabs {
		lens, _ := genLens(rng, alpha)
		if o.plain || g == 0 && rng.Intn(4) != 0 { // keep one table that can encode everything
			lens = RandLens(rng, alpha, alpha, 20)
		}
		if o.kraft != nil {
			// every symbol keeps a code; the tree is under-subscribed by a chosen amount
			switch o.kraft[g] {
			case 0:
				lens = RandLens(rng, alpha, alpha, 17)
			case 1, 2:
				lens = RandLens(rng, alpha, alpha, 17)
				for i := range lens {
					lens[i] += o.kraft[g]
				}
			case 3:
				rest := RandLens(rng, alpha-1, alpha-1, 16)
				lens = append([]int{1}, rest...)
				for i := 1; i < len(lens); i++ {
					lens[i] += 2
				}
			}
		}
		if o.related != nil && g < len(o.related.lens) && len(o.related.lens[g]) == alpha && (g > 0 || rng.Intn(2) == 0) {
			prev := o.related.lens[g]
			lens = append([]int{}, prev...)
			switch rng.Intn(4) {
			case 0: // identical
			case 1: // one entry changed
				lens[rng.Intn(alpha)] = 1 + rng.Intn(20)
			default: // one entry taken out, the rest moved up, the last one doubled
				i := rng.Intn(alpha)
				lens = append(append([]int{}, prev[:i]...), prev[i+1:]...)
				lens = append(lens, lens[len(lens)-1])
			}
		}
		allLens = append(allLens, lens)
		tabs[g] = mkCTable(lens)
	}
	if o.related != nil {
		o.related.lens = allLens
	}
	// selectors
	need := (len(syms) + 49) / 50
	sels := make([]int, need)
	for gi := range sels {
		lo, hi := gi*50, gi*50+50
		if hi > len(syms) {
			hi = len(syms)
		}
		var cand, candDegen []int
		for t, tab := range tabs {
			okAll := true
			for _, s := range syms[lo:hi] {
				if !tab.enc[s] {
					okAll = false
					break
				}
			}
			if okAll {
				cand = append(cand, t)
				if !tab.complete {
					candDegen = append(candDegen, t)
				}
			}
		}
		switch {
		case len(candDegen) > 0 && rng.Intn(3) != 0:
			sels[gi] = candDegen[rng.Intn(len(candDegen))]
		case len(cand) > 0:
			sels[gi] = cand[rng.Intn(len(cand))]
		default: // no table fits: replace table 0 by a complete one
			tabs[0] = mkCTable(RandLens(rng, alpha, alpha, 20))
			sels[gi] = 0
			// earlier groups that used table 0 must still be encodable: a
			// complete table encodes everything
		}
	}
	for _, t := range sels {
		if !tabs[t].complete {
			info.degen = true
		}
	}
	nSel := need
	sw := rng.Intn(20)
	if o.plain {
		sw = 19
	}
	switch sw {
	case 0, 1, 2, 3:
		nSel += 1 + rng.Intn(5)
	case 4:
		nSel += 1 + rng.Intn(200)
	case 5:
		if rng.Intn(6) == 0 {
			nSel = 18002 + rng.Intn(12)
		}
	case 6:
		if rng.Intn(12) == 0 {
			nSel = 32767
		}
	}
	if inject == 4 { // one selector too few
		nSel = need - 1
		info.expectOK = false
	}
	for len(sels) < nSel {
		sels = append(sels, rng.Intn(nGroups))
	}

	// ---- write
	w.Bits(0x314159265359, 48)
	w.Bits(uint64(crc), 32)
	if inject == 5 {
		w.Bits(1, 1) // randomised
		info.expectOK = false
	} else {
		w.Bits(0, 1)
	}
	w.Bits(uint64(ptr), 24)
	if inject == 6 { // no symbol in use
		w.Bits(0, 16)
		info.expectOK = false
	} else {
		for r := 0; r < 16; r++ {
			any := false
			for j := 0; j < 16; j++ {
				any = any || used[16*r+j]
			}
			if any {
				w.Bit(1)
			} else {
				w.Bit(0)
			}
		}
		for r := 0; r < 16; r++ {
			any := false
			for j := 0; j < 16; j++ {
				any = any || used[16*r+j]
			}
			if any {
				for j := 0; j < 16; j++ {
					if used[16*r+j] {
						w.Bit(1)
					} else {
						w.Bit(0)
					}
				}
			}
		}
	}
	ng := nGroups
	if inject == 7 {
		ng = []int{0, 1, 7}[rng.Intn(3)]
		info.expectOK = false
	}
	w.Bits(uint64(ng), 3)
	w.Bits(uint64(nSel), 15)
	// selectors, MTF + unary
	pos := []int{0, 1, 2, 3, 4, 5}
	for i := 0; i < nSel; i++ {
		v := sels[i]
		j := 0
		for pos[j] != v {
			j++
		}
		copy(pos[1:], pos[:j])
		pos[0] = v
		if inject == 8 && i == nSel/2 { // selector index = nGroups
			j = nGroups
			info.expectOK = false
		}
		for k := 0; k < j; k++ {
			w.Bit(1)
		}
		if j < 6 {
			w.Bit(0)
		}
	}
	for g, tab := range tabs {
		if inject == 9 && g == nGroups-1 { // start length out of range
			w.Bits(uint64([]int{0, 21, 31}[rng.Intn(3)]), 5)
			info.expectOK = false
			continue
		}
		writeLens(w, rng, tab.lens)
	}
	for i, s := range syms {
		tab := tabs[sels[i/50]]
		if inject == 10 && i == len(syms)-1 { // drop the end-of-block symbol
			info.expectOK = false
			break
		}
		if !tab.enc[s] {
			panic("unencodable symbol")
		}
		w.Code(uint64(tab.code[s]), uint(tab.lens[s]))
	}
	return crc
}

func synthStream(rng *rand.Rand, o synthOpts) ([]byte, synthInfo) {
	w := &BitW{MSB: true}
	info := synthInfo{kind: "ok", expectOK: true}
	for s := 0; s < o.nstreams; s++ {
		w.Bits(0x425a, 16)
		switch {
		case o.inject == 11:
			w.Bits('0', 8)
			info.expectOK = false
		default:
			w.Bits('h', 8)
		}
		if o.inject == 12 {
			w.Bits(uint64([]byte{'0', ':', 'a'}[rng.Intn(3)]), 8)
			info.expectOK = false
		} else {
			w.Bits(uint64('0'+o.level), 8)
		}
		combined := uint32(0)
		for b := 0; b < o.nblocks; b++ {
			inj := 0
			if (o.inject >= 1 && o.inject <= 10 || o.inject == 15) && b == o.nblocks-1 && s == o.nstreams-1 {
				inj = o.inject
			}
			var bi synthInfo
			bi.expectOK = true
			crc := synthBlock(w, rng, o, inj, &bi)
			info.degen = info.degen || bi.degen
			info.expectOK = info.expectOK && bi.expectOK
			combined = (combined<<1 | combined>>31) ^ crc
		}
		w.Bits(0x177245385090, 48)
		if o.inject == 13 {
			combined ^= 1 << uint(rng.Intn(32))
			info.expectOK = false
		}
		w.Bits(uint64(combined), 32)
		if o.inject == 14 && w.NBits()%8 != 0 { // non-zero padding (accepted by everyone)
			for w.NBits()%8 != 0 {
				w.Bit(1)
			}
		}
		w.Align()
	}
	if !info.expectOK {
		info.kind = "bad"
	} else if info.degen {
		info.kind = "degen"
	}
	return w.Buf, info
}

// synthTwoBlocks: one stream with two blocks of given RLE1-form contents.
func synthTwoBlocks(rng *rand.Rand, b1, b2 []byte) []byte {
	w := &BitW{MSB: true}
	w.Bits(0x425a, 16)
	w.Bits('h', 8)
	w.Bits('1', 8)
	combined := uint32(0)
	for _, b := range [][]byte{b1, b2} {
		var bi synthInfo
		crc := synthBlock(w, rng, synthOpts{level: 1, plain: true, presetB: b}, 0, &bi)
		combined = (combined<<1 | combined>>31) ^ crc
	}
	w.Bits(0x177245385090, 48)
	w.Bits(uint64(combined), 32)
	w.Align()
	return w.Buf
}
