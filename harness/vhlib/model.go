package vhlib

import (
	"bufio"
	"bytes"
	stdflate "compress/flate"
	"fmt"
	"io"
	"os"
	"os/exec"
	"strconv"
	"strings"
)

// Model is a running extracted-model process (bin/driver --serve). Requests
// from the model for external components ("EXT ...") are answered here by the
// real components (Go's compress/flate), so that the model is executed
// against exactly the library the implementation uses.
type Model struct {
	cmd *exec.Cmd
	in  io.WriteCloser
	out *bufio.Reader
	Ext map[string]func(args []string) string
}

func StartModel() *Model {
	path := os.Getenv("VERIF_DRIVER")
	if path == "" {
		path = "/verif/bin/driver"
	}
	// the extracted functions are not tail-recursive: run with an unlimited stack
	cmd := exec.Command("/bin/sh", "-c", "ulimit -s unlimited 2>/dev/null; exec \"$0\" --serve", path)
	in, _ := cmd.StdinPipe()
	out, _ := cmd.StdoutPipe()
	cmd.Stderr = os.Stderr
	if err := cmd.Start(); err != nil {
		panic(err)
	}
	m := &Model{cmd: cmd, in: in, out: bufio.NewReaderSize(out, 1<<20), Ext: map[string]func([]string) string{}}
	m.Ext["deflate"] = ExtDeflate
	return m
}

func (m *Model) Ask(line string) string {
	if _, err := io.WriteString(m.in, line+"\n"); err != nil {
		return "model-dead"
	}
	for {
		resp, err := m.out.ReadString('\n')
		if err != nil {
			return "model-dead"
		}
		resp = strings.TrimRight(resp, "\n")
		if strings.HasPrefix(resp, "EXT ") {
			f := strings.Fields(resp[4:])
			h, ok := m.Ext[f[0]]
			ans := "-"
			if ok {
				ans = h(f[1:])
			}
			io.WriteString(m.in, ans+"\n")
			continue
		}
		return resp
	}
}

func (m *Model) Close() {
	m.in.Close()
	m.cmd.Wait()
}

// ExtDeflate: args = [level, ops]; ops = comma list of w:<hex> | f.
// Answer: the bytes a fresh compress/flate.Writer has emitted after exactly
// these calls.
func ExtDeflate(args []string) string {
	lvl, _ := strconv.Atoi(args[0])
	var bb bytes.Buffer
	zw, err := stdflate.NewWriter(&bb, lvl)
	if err != nil {
		return "-"
	}
	var data []byte
	ops := strings.Split(args[1], ",")
	for _, o := range ops {
		if o == "f" {
			zw.Flush()
		} else if strings.HasPrefix(o, "w:") {
			d := UnHex(o[2:])
			data = append(data, d...)
			zw.Write(d)
		}
	}
	if len(ops) > 0 && ops[len(ops)-1] == "f" {
		// contract K1 of the round-trip theorems (coq/XFlate/RoundTripStmt.v): what the real
		// compressor has emitted after a Flush is a sequence of complete non-final DEFLATE
		// blocks for exactly the data written, ending in the sync marker. Recorded here,
		// evaluated by the extracted model in FlushK1.
		k := Hex(bb.Bytes()) + " " + Hex(data)
		if !k1Seen[k] && len(k1Seen) < 200000 {
			k1Seen[k] = true
			k1Pending = append(k1Pending, [2]string{Hex(bb.Bytes()), Hex(data)})
		}
	}
	return Hex(bb.Bytes())
}

var k1Seen = map[string]bool{}
var k1Pending [][2]string

// FlushK1 asks the model to evaluate contract K1 on every (chunk, data) pair the real
// compressor produced since the last call; at most max pairs per call (0 = all).
func (r *Run) FlushK1(m *Model, max int) {
	n := 0
	for _, p := range k1Pending {
		if max > 0 && n >= max {
			break
		}
		n++
		c, d := p[0], p[1]
		if c == "" {
			c = "-"
		}
		if d == "" {
			d = "-"
		}
		r.Eval("k1-contract", false)
		r.CaseLive(m, "xk1", []string{c, d}, "k1-ok")
	}
	k1Pending = k1Pending[:0]
}

// CaseLive asks the running model and records the triple (case, impl, model).
func (r *Run) CaseLive(m *Model, kind string, args []string, obs string) string {
	id := fmt.Sprintf("c%d", r.nextID)
	r.nextID++
	line := fmt.Sprintf("%s %s %s", id, kind, strings.Join(args, " "))
	resp := m.Ask(line)
	fmt.Fprintf(r.cases, "# live\n")
	if r.live == nil {
		f, err := os.Create(r.Dir + "/live.txt")
		if err != nil {
			panic(err)
		}
		r.live = bufio.NewWriterSize(f, 1<<20)
		r.liveF = f
	}
	fmt.Fprintf(r.live, "%s\t%s %s\t%s\n", line, id, obs, resp)
	return strings.TrimPrefix(resp, id+" ")
}
