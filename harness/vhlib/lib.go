// Package vhlib: shared plumbing for the verification harness: case files,
// canonical observations, error classes, oracle bookkeeping, statistics.
package vhlib

import (
	"bufio"
	"crypto/sha256"
	"encoding/hex"
	"encoding/json"
	"fmt"
	"io"
	"math/rand"
	"os"
	"path/filepath"
	"sort"
	"strings"

	cerrors "github.com/dsnet/compress/internal/errors"
)

// Hex encodes bytes the way the OCaml driver expects ("-" for empty).
func Hex(b []byte) string {
	if len(b) == 0 {
		return "-"
	}
	return hex.EncodeToString(b)
}

func UnHex(s string) []byte {
	if s == "-" {
		return nil
	}
	b, err := hex.DecodeString(s)
	if err != nil {
		panic(err)
	}
	return b
}

// SentinelErr is the error injected by faulty sources/sinks; compared by identity.
type SentinelErr struct {
	Tag int
	TO  bool // reports Timeout() == true, as a deadline error of a network connection does
}

func (e *SentinelErr) Timeout() bool { return e.TO }

func (e *SentinelErr) Error() string { return fmt.Sprintf("sentinel-%d", e.Tag) }

// ErrClass maps an error to the canonical class name shared with the model.
func ErrClass(err error) string {
	switch {
	case err == nil:
		return "nil"
	case err == io.EOF:
		return "EOF"
	case err == io.ErrUnexpectedEOF:
		return "UEOF"
	case err == io.ErrClosedPipe:
		return "ClosedPipe"
	}
	if se, ok := err.(*SentinelErr); ok {
		return fmt.Sprintf("Src%d", se.Tag)
	}
	if ce, ok := err.(cerrors.Error); ok {
		switch ce.Code {
		case cerrors.Internal:
			return "Internal"
		case cerrors.Invalid:
			return "Invalid"
		case cerrors.Deprecated:
			return "Deprecated"
		case cerrors.Corrupted:
			return "Corrupted"
		case cerrors.Closed:
			return "Closed"
		}
		return "Unknown"
	}
	return "Other:" + strings.Replace(err.Error(), " ", "_", -1)
}

// Violation is one failure of a property oracle on the implementation.
type Violation struct {
	Property string      `json:"property"`
	Kind     string      `json:"kind"`   // short signature of what failed
	Detail   string      `json:"detail"` // human-readable
	Replay   interface{} `json:"replay"` // input / history to reproduce
}

// Run collects everything one harness run produces.
type Run struct {
	Prop     string
	Dir      string
	Seed     int64
	Tier     string
	Rng      *rand.Rand
	cases    *bufio.Writer
	impl     *bufio.Writer
	casesF   *os.File
	implF    *os.File
	nextID   int
	live     *bufio.Writer
	liveF    *os.File
	Evals    int
	distinct map[[32]byte]bool
	Hist     map[string]int
	Samples  []interface{}
	Viol     []Violation
	Notes    map[string]interface{}
}

func NewRun(prop, dir, tier string, seed int64) *Run {
	os.MkdirAll(dir, 0o755)
	cf, err := os.Create(filepath.Join(dir, "cases.txt"))
	if err != nil {
		panic(err)
	}
	inf, err := os.Create(filepath.Join(dir, "impl.txt"))
	if err != nil {
		panic(err)
	}
	return &Run{Prop: prop, Dir: dir, Seed: seed, Tier: tier,
		Rng:    rand.New(rand.NewSource(seed)),
		cases:  bufio.NewWriterSize(cf, 1<<20), impl: bufio.NewWriterSize(inf, 1<<20),
		casesF: cf, implF: inf,
		distinct: map[[32]byte]bool{}, Hist: map[string]int{}, Notes: map[string]interface{}{}}
}

func (r *Run) Quick() bool { return r.Tier != "thorough" }

// Case records one correspondence case: the model is asked `kind args...`,
// the implementation observed `obs`.
func (r *Run) Case(kind string, args []string, obs string) {
	id := fmt.Sprintf("c%d", r.nextID)
	r.nextID++
	fmt.Fprintf(r.cases, "%s %s %s\n", id, kind, strings.Join(args, " "))
	fmt.Fprintf(r.impl, "%s %s\n", id, obs)
}

// Eval counts one evaluated input for the evidence; nontrivial inputs are
// deduplicated by content hash.
func (r *Run) Eval(bucket string, nontrivial bool, content ...[]byte) {
	r.Evals++
	r.Hist[bucket]++
	if nontrivial {
		h := sha256.New()
		h.Write([]byte(bucket))
		for _, c := range content {
			h.Write([]byte{0xff, byte(len(c)), byte(len(c) >> 8), byte(len(c) >> 16)})
			h.Write(c)
		}
		var k [32]byte
		copy(k[:], h.Sum(nil))
		r.distinct[k] = true
	}
}

func (r *Run) Sample(s interface{}) {
	if len(r.Samples) < 12 {
		r.Samples = append(r.Samples, s)
	}
}

func (r *Run) Violate(kind, detail string, replay interface{}) {
	if len(r.Viol) < 50 {
		r.Viol = append(r.Viol, Violation{Property: r.Prop, Kind: kind, Detail: detail, Replay: replay})
	}
}

func (r *Run) Finish() {
	r.cases.Flush()
	r.impl.Flush()
	r.casesF.Close()
	r.implF.Close()
	if r.live != nil {
		r.live.Flush()
		r.liveF.Close()
	}
	keys := make([]string, 0, len(r.Hist))
	for k := range r.Hist {
		keys = append(keys, k)
	}
	sort.Strings(keys)
	out := map[string]interface{}{
		"property":            r.Prop,
		"seed":                r.Seed,
		"tier":                r.Tier,
		"evaluations":         r.Evals,
		"distinct_nontrivial": len(r.distinct),
		"histogram":           r.Hist,
		"samples":             r.Samples,
		"violations":          r.Viol,
		"cases":               r.nextID,
		"notes":               r.Notes,
	}
	b, _ := json.MarshalIndent(out, "", " ")
	if err := os.WriteFile(filepath.Join(r.Dir, "oracle.json"), b, 0o644); err != nil {
		panic(err)
	}
}

// RandBytes returns n bytes drawn from one of several structured families.
func RandBytes(rng *rand.Rand, n int) []byte {
	b := make([]byte, n)
	switch rng.Intn(6) {
	case 0: // uniform
		rng.Read(b)
	case 1: // low bit weight
		for i := range b {
			b[i] = byte(1) << uint(rng.Intn(8)) & byte(rng.Intn(256))
		}
	case 2: // high bit weight
		for i := range b {
			b[i] = ^(byte(1) << uint(rng.Intn(8)) & byte(rng.Intn(256)))
		}
	case 3: // runs
		for i := 0; i < n; {
			c := byte(rng.Intn(4) * 85)
			l := 1 + rng.Intn(40)
			for j := 0; j < l && i < n; j++ {
				b[i] = c
				i++
			}
		}
	case 4: // text-like
		const alpha = "etaoin shrdlu,.\nETAOIN"
		for i := range b {
			b[i] = alpha[rng.Intn(len(alpha))]
		}
	case 5: // repeated phrases
		ph := make([]byte, 1+rng.Intn(12))
		rng.Read(ph)
		for i := range b {
			if rng.Intn(50) == 0 {
				b[i] = byte(rng.Intn(256))
			} else {
				b[i] = ph[i%len(ph)]
			}
		}
	}
	return b
}

// Partition splits b into random pieces (zero-length pieces included).
func Partition(rng *rand.Rand, b []byte) [][]byte {
	var out [][]byte
	for len(b) > 0 {
		var n int
		switch rng.Intn(5) {
		case 0:
			n = 0
		case 1:
			n = 1
		case 2:
			n = rng.Intn(len(b) + 1)
		default:
			n = rng.Intn(17)
		}
		if n > len(b) {
			n = len(b)
		}
		out = append(out, b[:n])
		b = b[n:]
	}
	if rng.Intn(3) == 0 {
		out = append(out, nil)
	}
	return out
}

// ---- source doubles -------------------------------------------------------

// ByteOnly exposes Read and ReadByte only (compress.ByteReader).
type ByteOnly struct {
	B   []byte
	Pos int
}

func (s *ByteOnly) Read(p []byte) (int, error) {
	if s.Pos >= len(s.B) {
		return 0, io.EOF
	}
	n := copy(p, s.B[s.Pos:])
	s.Pos += n
	return n, nil
}
func (s *ByteOnly) ReadByte() (byte, error) {
	if s.Pos >= len(s.B) {
		return 0, io.EOF
	}
	c := s.B[s.Pos]
	s.Pos++
	return c, nil
}

// ReadOnly exposes Read only, with a per-call cap on the returned length
// (0 = no cap) and optionally data together with io.EOF.
type ReadOnly struct {
	B       []byte
	Pos     int
	Cap     int
	WithEOF bool
}

func (s *ReadOnly) Read(p []byte) (int, error) {
	if s.Pos >= len(s.B) {
		return 0, io.EOF
	}
	if s.Cap > 0 && len(p) > s.Cap {
		p = p[:s.Cap]
	}
	n := copy(p, s.B[s.Pos:])
	s.Pos += n
	if s.WithEOF && s.Pos >= len(s.B) {
		return n, io.EOF
	}
	return n, nil
}
