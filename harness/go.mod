module github.com/dsnet/compress/xflate/verifharness

go 1.21

require github.com/dsnet/compress v0.0.0

replace github.com/dsnet/compress => /repo
