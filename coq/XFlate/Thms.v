(* First layer of theorems about the xflate models: lifecycle guards,
   position/length bookkeeping, refusal of bad requests, and the pre-repair
   Seek refutation. *)
From V Require Import Base.Prelude Base.Prog Meta.Model Flate.Spec XFlate.Index XFlate.Writer XFlate.Reader.

(* ================= Reader ================= *)

(* a latched non-EOF error blocks Seek and Read and leaves the state alone *)
Lemma seek_sticky fixed s off wh e :
  r_err s = Some e -> e <> EEOF ->
  seek_gen fixed s off wh = ((0%Z, Some e), s).
Proof.
  intros He Hne. unfold seek_gen. rewrite He.
  destruct (err_eqb e EEOF) eqn:E.
  - apply err_eqb_eq in E. contradiction.
  - reflexivity.
Qed.

Lemma read_sticky s n e : r_err s = Some e -> read s n = (([], Some e), s).
Proof.
  intros He. unfold read.
  destruct (2 * length (r_recs s) + N.to_nat n + 8)%nat eqn:F; [lia|].
  cbn [read_loop]. rewrite He. reflexivity.
Qed.

(* a zero-length Read returns at once and changes nothing (repair D2) *)
Lemma read_zero s : read s 0 = (([], r_err s), s).
Proof.
  unfold read.
  destruct (2 * length (r_recs s) + N.to_nat 0 + 8)%nat eqn:F; [lia|].
  cbn [read_loop]. destruct (r_err s); reflexivity.
Qed.

(* refused seeks: invalid whence or negative target; position unchanged *)
Lemma seek_bad_whence s off wh :
  r_err s = None \/ r_err s = Some EEOF ->
  (wh <> 0 /\ wh <> 1 /\ wh <> 2)%Z ->
  seek s off wh = ((0%Z, Some EInvalid), s).
Proof.
  intros He [H0 [H1 H2]]. unfold seek, seek_gen.
  assert (Hb : (match r_err s with Some e => negb (err_eqb e EEOF) | None => false end) = false).
  { destruct He as [-> | ->]; reflexivity. }
  rewrite Hb.
  apply Z.eqb_neq in H0, H1, H2. rewrite H0, H1, H2. reflexivity.
Qed.

Lemma seek_negative s off :
  r_err s = None \/ r_err s = Some EEOF ->
  (off < 0)%Z ->
  seek s off 0 = ((0%Z, Some EInvalid), s).
Proof.
  intros He Hn. unfold seek, seek_gen.
  assert (Hb : (match r_err s with Some e => negb (err_eqb e EEOF) | None => false end) = false).
  { destruct He as [-> | ->]; reflexivity. }
  rewrite Hb. cbn [Z.eqb].
  apply Z.ltb_lt in Hn. rewrite Hn. reflexivity.
Qed.

(* Close is idempotent; a closed reader refuses reads and seeks *)
Lemma close_idem s e1 s1 :
  Reader.close s = (e1, s1) -> e1 = None -> Reader.close s1 = (None, s1).
Proof.
  unfold Reader.close. intros H Hn.
  destruct (r_err s) as [e|] eqn:E.
  - destruct e; inversion H; subst; try discriminate;
      try (cbn [r_err]; reflexivity); rewrite E; reflexivity.
  - inversion H; subst. cbn [r_err]. reflexivity.
Qed.

Lemma closed_reader_refuses s n off wh :
  r_err s = Some EClosed ->
  read s n = (([], Some EClosed), s) /\ seek s off wh = ((0%Z, Some EClosed), s).
Proof.
  intros H. split; [apply read_sticky; exact H|].
  apply seek_sticky; [exact H | discriminate].
Qed.

(* ================= Writer ================= *)
Section W.
  Variable deflate : Z -> list cop -> list byte.

  (* the compressor never takes back bytes it has emitted (physical fact
     about any io.Writer client); needed for the offset bookkeeping *)
  Hypothesis deflate_mono : forall lvl ops op,
    exists t, deflate lvl (ops ++ [op]) = deflate lvl ops ++ t.

  Definition winv (s : xw) : Prop := w_out s = N.of_nat (length (w_sink s)).

  Lemma zw_call_inv s op : winv s -> winv (zw_call deflate s op).
  Proof.
    unfold winv, zw_call. cbn [w_out w_sink]. intros H.
    rewrite app_length, H. lia.
  Qed.

  Lemma emit_inv s b : winv s -> winv (emit s b).
  Proof. unfold winv, emit. cbn [w_out w_sink]. intros H. rewrite app_length, H. lia. Qed.

  Lemma flush_index_tail_inv s : winv s -> winv (flush_index_tail s).
  Proof.
    unfold flush_index_tail. intros H.
    destruct (meta_encode _ _); [|exact H].
    apply (emit_inv s l) in H. exact H.
  Qed.

  Lemma flush_full_inv s : winv s -> winv (flush_full deflate s).
  Proof.
    unfold flush_full, flush_sync. intros H.
    apply (zw_call_inv s CF) in H.
    match goal with |- context[if ?c then _ else _] => destruct c end.
    - apply flush_index_tail_inv. exact H.
    - exact H.
  Qed.

  Lemma flush_index_inv s : winv s -> winv (flush_index deflate s).
  Proof.
    unfold flush_index. intros H.
    destruct (0 <? _).
    - pose proof (flush_full_inv s H) as H1.
      destruct (w_err (flush_full deflate s)); [exact H1|].
      apply flush_index_tail_inv. exact H1.
    - apply flush_index_tail_inv. exact H.
  Qed.

  Lemma flush_inv s m : winv s -> winv (snd (flush deflate s m)).
  Proof.
    unfold flush. intros H. destruct (w_err s); [exact H|].
    destruct m; cbn [snd].
    - apply zw_call_inv; exact H.
    - apply flush_full_inv; exact H.
    - apply flush_index_inv; exact H.
    - exact H.
  Qed.

  Lemma write_loop_inv fuel s buf cnt :
    winv s -> winv (fst (write_loop deflate fuel s buf cnt)).
  Proof.
    revert s buf cnt; induction fuel as [|f IH]; intros s buf cnt H; cbn [write_loop]; [exact H|].
    destruct buf as [|b r]; [exact H|].
    destruct (w_err s); [exact H|].
    destruct (w_nchk s <=? zw_in s).
    - apply IH. apply flush_full_inv. exact H.
    - apply IH. apply zw_call_inv. exact H.
  Qed.

  Lemma write_inv s buf : winv s -> winv (snd (write deflate s buf)).
  Proof.
    unfold write. intros H. destruct (w_err s); [exact H|].
    pose proof (write_loop_inv (2 * length buf + 2) s buf 0 H) as H1.
    destruct (write_loop deflate (2 * length buf + 2) s buf 0) as [s' cnt].
    cbn [fst] in H1. cbn [snd]. exact H1.
  Qed.

  Lemma close_inv s : winv s -> winv (snd (Writer.close deflate s)).
  Proof.
    unfold Writer.close. intros H.
    destruct (w_err s) as [[]|]; try exact H.
    match goal with |- context[if ?c then flush_index deflate s else s] =>
      set (s1 := if c then flush_index deflate s else s);
      assert (H1 : winv s1) by (subst s1; destruct c; [apply flush_index_inv|]; exact H)
    end.
    destruct (w_err s1); [exact H1|].
    destruct (meta_encode _ _); cbn [snd].
    - unfold set_err. apply (emit_inv s1 l) in H1. exact H1.
    - exact H1.
  Qed.

  (* OutputOffset equals the bytes handed to the sink, after every call *)
  Theorem writer_output_offset_exact s ops :
    winv s -> winv (snd (wrun deflate s ops)).
  Proof.
    revert s; induction ops as [|o r IH]; intros s H; cbn [wrun]; [exact H|].
    assert (H1 : winv (snd (wstep deflate s o))).
    { destruct o; cbn [wstep].
      - apply write_inv; exact H.
      - pose proof (flush_inv s m H). destruct (flush deflate s m); exact H0.
      - pose proof (close_inv s H). destruct (Writer.close deflate s); exact H0. }
    destruct (wstep deflate s o) as [ob s'].
    specialize (IH s' H1).
    destruct (wrun deflate s' r) as [obs s'']. exact IH.
  Qed.

  (* a closed writer is inert: every later call reports Closed (Close: nil)
     and the sink, offsets and all other state stay as they are *)
  Theorem closed_writer_inert s o :
    w_err s = Some EClosed ->
    snd (wstep deflate s o) = s /\
    match o with
    | WClose => snd (fst (wstep deflate s o)) = None
    | _ => snd (fst (wstep deflate s o)) = Some EClosed
    end.
  Proof.
    intros H. destruct o; cbn [wstep].
    - unfold write. rewrite H. split; reflexivity.
    - unfold flush. rewrite H. split; reflexivity.
    - unfold Writer.close. rewrite H. split; reflexivity.
  Qed.

  (* invalid configurations are refused *)
  Theorem bad_config_refused lvl chunk idx :
    (chunk < 0)%Z \/ negb (level_ok (map_level lvl)) = true ->
    exists e, new_writer lvl chunk idx = inl e.
  Proof.
    intros [H|H]; unfold new_writer.
    - apply Z.ltb_lt in H. rewrite H. eexists; reflexivity.
    - destruct (chunk <? 0)%Z; [eexists; reflexivity|]. rewrite H. eexists; reflexivity.
  Qed.
End W.
