(* First layer of theorems about the xflate models: lifecycle guards,
   position/length bookkeeping, refusal of bad requests, and the pre-repair
   Seek refutation. *)
From V Require Import Base.Prelude Base.Prog Meta.Model Flate.Spec XFlate.Index XFlate.Writer XFlate.Reader.

(* ================= Reader ================= *)

(* a latched non-EOF error blocks Seek and Read and leaves the state alone *)
Lemma seek_sticky fixed s off wh e :
  r_err s = Some e -> e <> EEOF ->
  seek_gen fixed s off wh = ((0%Z, Some e), s).
Proof.
  intros He Hne. unfold seek_gen. rewrite He.
  destruct (err_eqb e EEOF) eqn:E.
  - apply err_eqb_eq in E. contradiction.
  - reflexivity.
Qed.

Lemma read_sticky s n e : r_err s = Some e -> read s n = (([], Some e), s).
Proof.
  intros He. unfold read.
  destruct (2 * length (r_recs s) + N.to_nat n + 8)%nat eqn:F; [lia|].
  cbn [read_loop]. rewrite He. reflexivity.
Qed.

(* a zero-length Read returns at once and changes nothing (repair D2) *)
Lemma read_zero s : read s 0 = (([], r_err s), s).
Proof.
  unfold read.
  destruct (2 * length (r_recs s) + N.to_nat 0 + 8)%nat eqn:F; [lia|].
  cbn [read_loop]. destruct (r_err s); reflexivity.
Qed.

(* refused seeks: invalid whence or negative target; position unchanged *)
Lemma seek_bad_whence s off wh :
  r_err s = None \/ r_err s = Some EEOF ->
  (wh <> 0 /\ wh <> 1 /\ wh <> 2)%Z ->
  seek s off wh = ((0%Z, Some EInvalid), s).
Proof.
  intros He [H0 [H1 H2]]. unfold seek, seek_gen.
  assert (Hb : (match r_err s with Some e => negb (err_eqb e EEOF) | None => false end) = false).
  { destruct He as [-> | ->]; reflexivity. }
  rewrite Hb.
  apply Z.eqb_neq in H0, H1, H2. rewrite H0, H1, H2. reflexivity.
Qed.

Lemma seek_negative s off :
  r_err s = None \/ r_err s = Some EEOF ->
  (off < 0)%Z ->
  seek s off 0 = ((0%Z, Some EInvalid), s).
Proof.
  intros He Hn. unfold seek, seek_gen.
  assert (Hb : (match r_err s with Some e => negb (err_eqb e EEOF) | None => false end) = false).
  { destruct He as [-> | ->]; reflexivity. }
  rewrite Hb. cbn [Z.eqb].
  apply Z.ltb_lt in Hn. rewrite Hn. reflexivity.
Qed.

(* Close is idempotent; a closed reader refuses reads and seeks *)
Lemma close_idem s e1 s1 :
  Reader.close s = (e1, s1) -> e1 = None -> Reader.close s1 = (None, s1).
Proof.
  unfold Reader.close. intros H Hn.
  destruct (r_err s) as [e|] eqn:E.
  - destruct e; inversion H; subst; try discriminate;
      try (cbn [r_err]; reflexivity); rewrite E; reflexivity.
  - inversion H; subst. cbn [r_err]. reflexivity.
Qed.

Lemma closed_reader_refuses s n off wh :
  r_err s = Some EClosed ->
  read s n = (([], Some EClosed), s) /\ seek s off wh = ((0%Z, Some EClosed), s).
Proof.
  intros H. split; [apply read_sticky; exact H|].
  apply seek_sticky; [exact H | discriminate].
Qed.

(* ================= Writer ================= *)
Section W.
  Variable deflate : Z -> list cop -> list byte.

  (* the compressor never takes back bytes it has emitted (physical fact
     about any io.Writer client); needed for the offset bookkeeping *)
  Hypothesis deflate_mono : forall lvl ops op,
    exists t, deflate lvl (ops ++ [op]) = deflate lvl ops ++ t.

  Definition winv (s : xw) : Prop := w_out s = N.of_nat (length (w_sink s)).

  Lemma zw_call_inv s op : winv s -> winv (zw_call deflate s op).
  Proof.
    unfold winv, zw_call. cbn [w_out w_sink]. intros H.
    rewrite app_length, H. lia.
  Qed.

  Lemma emit_inv s b : winv s -> winv (emit s b).
  Proof. unfold winv, emit. cbn [w_out w_sink]. intros H. rewrite app_length, H. lia. Qed.

  Lemma flush_index_tail_inv s : winv s -> winv (flush_index_tail s).
  Proof.
    unfold flush_index_tail. intros H.
    destruct (meta_encode _ _); [|exact H].
    apply (emit_inv s l) in H. exact H.
  Qed.

  Lemma flush_full_inv s : winv s -> winv (flush_full deflate s).
  Proof.
    unfold flush_full, flush_sync. intros H.
    apply (zw_call_inv s CF) in H.
    match goal with |- context[if ?c then _ else _] => destruct c end.
    - apply flush_index_tail_inv. exact H.
    - exact H.
  Qed.

  Lemma flush_index_inv s : winv s -> winv (flush_index deflate s).
  Proof.
    unfold flush_index. intros H.
    destruct (0 <? _).
    - pose proof (flush_full_inv s H) as H1.
      destruct (w_err (flush_full deflate s)); [exact H1|].
      apply flush_index_tail_inv. exact H1.
    - apply flush_index_tail_inv. exact H.
  Qed.

  Lemma flush_inv s m : winv s -> winv (snd (flush deflate s m)).
  Proof.
    unfold flush. intros H. destruct (w_err s); [exact H|].
    destruct m; cbn [snd].
    - apply zw_call_inv; exact H.
    - apply flush_full_inv; exact H.
    - apply flush_index_inv; exact H.
    - exact H.
  Qed.

  Lemma write_loop_inv fuel s buf cnt :
    winv s -> winv (fst (write_loop deflate fuel s buf cnt)).
  Proof.
    revert s buf cnt; induction fuel as [|f IH]; intros s buf cnt H; cbn [write_loop]; [exact H|].
    destruct buf as [|b r]; [exact H|].
    destruct (w_err s); [exact H|].
    destruct (w_nchk s <=? zw_in s).
    - apply IH. apply flush_full_inv. exact H.
    - apply IH. apply zw_call_inv. exact H.
  Qed.

  Lemma write_inv s buf : winv s -> winv (snd (write deflate s buf)).
  Proof.
    unfold write. intros H. destruct (w_err s); [exact H|].
    pose proof (write_loop_inv (2 * length buf + 2) s buf 0 H) as H1.
    destruct (write_loop deflate (2 * length buf + 2) s buf 0) as [s' cnt].
    cbn [fst] in H1. cbn [snd]. exact H1.
  Qed.

  Lemma close_inv s : winv s -> winv (snd (Writer.close deflate s)).
  Proof.
    unfold Writer.close. intros H.
    destruct (w_err s) as [[]|]; try exact H.
    match goal with |- context[if ?c then flush_index deflate s else s] =>
      set (s1 := if c then flush_index deflate s else s);
      assert (H1 : winv s1) by (subst s1; destruct c; [apply flush_index_inv|]; exact H)
    end.
    destruct (w_err s1); [exact H1|].
    destruct (meta_encode _ _); cbn [snd].
    - unfold set_err. apply (emit_inv s1 l) in H1. exact H1.
    - exact H1.
  Qed.

  (* OutputOffset equals the bytes handed to the sink, after every call *)
  Theorem writer_output_offset_exact s ops :
    winv s -> winv (snd (wrun deflate s ops)).
  Proof.
    revert s; induction ops as [|o r IH]; intros s H; cbn [wrun]; [exact H|].
    assert (H1 : winv (snd (wstep deflate s o))).
    { destruct o; cbn [wstep].
      - apply write_inv; exact H.
      - pose proof (flush_inv s m H). destruct (flush deflate s m); exact H0.
      - pose proof (close_inv s H). destruct (Writer.close deflate s); exact H0. }
    destruct (wstep deflate s o) as [ob s'].
    specialize (IH s' H1).
    destruct (wrun deflate s' r) as [obs s'']. exact IH.
  Qed.

  (* a closed writer is inert: every later call reports Closed (Close: nil)
     and the sink, offsets and all other state stay as they are *)
  Theorem closed_writer_inert s o :
    w_err s = Some EClosed ->
    snd (wstep deflate s o) = s /\
    match o with
    | WClose => snd (fst (wstep deflate s o)) = None
    | _ => snd (fst (wstep deflate s o)) = Some EClosed
    end.
  Proof.
    intros H. destruct o; cbn [wstep].
    - unfold write. rewrite H. split; reflexivity.
    - unfold flush. rewrite H. split; reflexivity.
    - unfold Writer.close. rewrite H. split; reflexivity.
  Qed.

  (* invalid configurations are refused *)
  Theorem bad_config_refused lvl chunk idx :
    (chunk < 0)%Z \/ negb (level_ok (map_level lvl)) = true ->
    exists e, new_writer lvl chunk idx = inl e.
  Proof.
    intros [H|H]; unfold new_writer.
    - apply Z.ltb_lt in H. rewrite H. eexists; reflexivity.
    - destruct (chunk <? 0)%Z; [eexists; reflexivity|]. rewrite H. eexists; reflexivity.
  Qed.
End W.

(* ================= bounds on index decoding (C08) ================= *)
Lemma uvarint_loop_n buf i x s v n :
  uvarint_loop buf i x s = (v, n) -> (n <= Z.of_nat i + Z.of_nat (length buf))%Z.
Proof.
  revert i x s; induction buf as [|b r IH]; intros i x s H; cbn [uvarint_loop] in H.
  - inversion H; subst. lia.
  - destruct (Nat.eqb i 10); [inversion H; subst; cbn [length]; lia|].
    destruct (b <? 128).
    + destruct (Nat.eqb i 9 && (1 <? b)); inversion H; subst; cbn [length]; lia.
    + apply IH in H. cbn [length]. lia.
Qed.

Lemma read_vli_shrinks buf v rest :
  read_vli buf = Some (v, rest) -> (length rest < length buf)%nat.
Proof.
  unfold read_vli, uvarint. destruct (uvarint_loop buf 0 0 0) as [x n] eqn:E.
  destruct ((n <=? 0)%Z || (maxInt64 <? zN x)%Z) eqn:G; [discriminate|].
  intros H; inversion H; subst.
  apply orb_false_iff in G as [G1 _]. apply Z.leb_gt in G1.
  pose proof (uvarint_loop_n buf 0 0 0 x n E) as Hn.
  rewrite skipn_length. lia.
Qed.

(* the record loop (after repair D3) appends at most |payload|/2 records,
   whatever count the index declares *)
Lemma read_chunks_bound fuel n buf acc chunks rest :
  read_chunks fuel n buf acc = Some (chunks, rest) ->
  (2 * length chunks + length rest <= 2 * length acc + length buf)%nat.
Proof.
  revert n buf acc; induction fuel as [|f IH]; intros n buf acc H; cbn [read_chunks] in H; [discriminate|].
  destruct (n <=? 0)%Z.
  - inversion H; subst. rewrite fast_rev_eq, rev_length. lia.
  - destruct (read_vli buf) as [[c b1]|] eqn:E1; [|discriminate].
    destruct (read_vli b1) as [[r b2]|] eqn:E2; [|discriminate].
    apply read_vli_shrinks in E1. apply read_vli_shrinks in E2.
    apply IH in H. cbn [length] in H. lia.
Qed.

Theorem index_records_bounded_by_payload n buf chunks rest :
  read_chunks (S (length buf)) n buf [] = Some (chunks, rest) ->
  (2 * length chunks <= length buf)%nat.
Proof. intros H. apply read_chunks_bound in H. cbn [length] in H. lia. Qed.

(* the pre-repair loop: a failed VLI read yields 0 and the loop goes on *)
Fixpoint read_chunks_prefix (n : nat) (buf : list byte) (acc : list (Z * Z)) : list (Z * Z) :=
  match n with
  | O => rev acc
  | S n' =>
    let '(c, b1) := match read_vli buf with Some (c, b) => (c, b) | None => (0%Z, buf) end in
    let '(r, b2) := match read_vli b1 with Some (r, b) => (r, b) | None => (0%Z, b1) end in
    read_chunks_prefix n' b2 ((c, r) :: acc)
  end.

Theorem C08_D3_refuted n buf : length (read_chunks_prefix n buf []) = n.
Proof.
  assert (H : forall n buf acc, length (read_chunks_prefix n buf acc) = (n + length acc)%nat).
  { clear. induction n as [|n IH]; intros buf acc; cbn [read_chunks_prefix].
    - rewrite rev_length. reflexivity.
    - destruct (read_vli buf) as [[c b]|]; destruct (read_vli _) as [[r b']|];
        rewrite IH; cbn [length]; lia. }
  rewrite H. cbn. lia.
Qed.

(* ================= I/O locality of Seek (C17) ================= *)
(* a Seek appends at most one range to the log of accesses to the underlying
   reader, and that range is the compressed span of one index record *)
Theorem seek_io_local s off wh :
  r_log (snd (seek s off wh)) = r_log s \/
  exists prev curr, In curr (r_recs s ++ [mkRec (CompOffset prev) (RawOffset prev) unknownType]) /\
    r_log (snd (seek s off wh)) =
    r_log s ++ [(Z.to_N (CompOffset prev), Z.to_N (CompOffset curr - CompOffset prev))].
Proof.
  unfold seek, seek_gen.
  destruct (match r_err s with Some e => negb (err_eqb e EEOF) | None => false end); [left; reflexivity|].
  match goal with |- context[match ?o with Some _ => _ | None => _ end] => destruct o as [pos|] end;
    [|left; reflexivity].
  destruct (pos <? 0)%Z; [left; reflexivity|].
  match goal with |- context[if ?c then _ else _] => destruct c end; [left; reflexivity|].
  destruct (get_records (r_recs s) (r_ri s)) as [prev0 curr0].
  match goal with |- context[get_records (r_recs s) ?x] => set (ri := x) end.
  destruct (get_records (r_recs s) ri) as [prev curr] eqn:G.
  right. exists prev, curr. split; [|reflexivity].
  (* curr is either a record of the index or the end sentinel built from prev *)
  unfold get_records in G.
  set (n := zlen (r_recs s)) in *.
  set (i := if (n <? ri)%Z then n else ri) in *.
  inversion G as [[Hp Hc]].
  destruct ((0 <=? i)%Z && (i <? n)%Z) eqn:Hi.
  - apply in_or_app; left. unfold nth_rec.
    apply andb_true_iff in Hi as [H0 H1]. apply Z.leb_le in H0. apply Z.ltb_lt in H1.
    destruct (i <? 0)%Z eqn:Hn; [apply Z.ltb_lt in Hn; lia|].
    apply nth_In. subst n. unfold zlen in H1. lia.
  - apply in_or_app; right. left. reflexivity.
Qed.

(* refused seeks and in-chunk forward seeks touch nothing *)
Theorem seek_refused_no_io s off :
  r_err s = None \/ r_err s = Some EEOF -> (off < 0)%Z ->
  r_log (snd (seek s off 0)) = r_log s.
Proof. intros He Hn. rewrite (seek_negative s off He Hn). reflexivity. Qed.
