(* C05 part C: the Reader opens every stream of the shape [xf_stream]; the record table it
   builds lists all chunks of all segments, each segment's index block, and the footer, with
   cumulative offsets; that table is honest for the data. *)
From V Require Import Base.Prelude Base.Prog Meta.Model Flate.Spec
  XFlate.Index XFlate.Search XFlate.Writer XFlate.Reader XFlate.Refine XFlate.RefineCheck
  XFlate.RoundTripStmt XFlate.RTIndex XFlate.RTStream XFlate.RTTable.
From Coq Require Import ZifyBool ZifyN ZifyNat.
Local Open Scope Z_scope.

(* ---- small payloads are one block (provable from the definitions) ------------------- *)
Lemma writer_blocks_small p : forall buf, (length buf + length p <= 22)%nat ->
  writer_blocks p buf = [buf ++ p].
Proof.
  induction p as [|b p IH]; intros buf Hl; cbn [writer_blocks].
  - rewrite app_nil_r. reflexivity.
  - cbn [length] in Hl. unfold fits_with.
    replace (N.of_nat (length buf) <? EnsureRawBytes)%N with true
      by (symmetry; apply N.ltb_lt; unfold EnsureRawBytes; lia).
    cbn [orb]. rewrite IH by (rewrite app_length; cbn [length]; lia).
    rewrite <- app_assoc. reflexivity.
Qed.

Lemma meta_encode_small p f : (length p <= 22)%nat -> meta_encode p f = encode_block p f.
Proof.
  intros H. unfold meta_encode. rewrite writer_blocks_small by (cbn [length]; lia). reflexivity.
Qed.

Lemma footer_payload_len back : (length (footer_payload back) <= 13)%nat.
Proof. unfold footer_payload. rewrite app_length. pose proof (put_uvarint_len back). cbn [length]. lia. Qed.

Lemma in_skipn {A} (x : A) k l : In x (skipn k l) -> In x l.
Proof. intros H. rewrite <- (firstn_skipn k l). apply in_or_app. right. exact H. Qed.

Section ReaderOpen.
Hypothesis Hrt : meta_stream_roundtrip_stmt.
Hypothesis Hsz : meta_block_bytes_size_stmt.
Hypothesis Hrs : reverse_search_finds_block_stmt.

Lemma meta_encode_nonempty p f enc : bytes_lt p -> f <> FinalNil ->
  meta_encode p f = Some enc -> enc <> [].
Proof.
  intros Hp Hf Henc E. subst enc.
  pose proof (Hrt p f [] [] Hp bytes_lt_nil Henc ltac:(reflexivity) (or_introl Hf)) as H.
  cbn [app] in H. apply (f_equal mr_final) in H. cbn [mr_final] in H.
  change (mr_final (meta_decode [])) with FinalNil in H. congruence.
Qed.

Lemma footer_size back foot :
  meta_encode (footer_payload back) FinalStream = Some foot -> (12 <= length foot <= 64)%nat.
Proof.
  intros H. rewrite meta_encode_small in H by (pose proof (footer_payload_len back); lia).
  eapply Hsz; [apply footer_payload_bytes | exact H].
Qed.

Lemma decode_footer_ok body foot back :
  bytes_lt body -> (back < 2 ^ 63)%N ->
  meta_encode (footer_payload back) FinalStream = Some foot ->
  exists log, decode_footer (body ++ foot) = inr (Z.of_N back, N.of_nat (length foot), log).
Proof.
  intros Hbody Hback Henc.
  pose proof (footer_size back foot Henc) as Hlen.
  pose proof (footer_payload_len back) as Hpl.
  assert (Heb : encode_block (footer_payload back) FinalStream = Some foot)
    by (rewrite <- meta_encode_small by lia; exact Henc).
  unfold decode_footer. cbv zeta.
  set (len := N.of_nat (length (body ++ foot))).
  set (n := N.min len MaxEncBytes).
  set (k := N.to_nat (len - n)).
  assert (Hk : (k <= length body)%nat /\ (length body - k + length foot = N.to_nat n)%nat).
  { unfold k, n, len, MaxEncBytes. rewrite app_length. lia. }
  assert (Htail : slice (body ++ foot) (len - n) n = skipn k body ++ foot).
  { unfold slice. fold k. rewrite skipn_app.
    replace (k - length body)%nat with 0%nat by lia. cbn [skipn].
    apply firstn_all2. rewrite app_length, skipn_length. lia. }
  rewrite Htail.
  rewrite (Hrs (skipn k body) (footer_payload back) FinalStream foot);
    [ | apply footer_payload_bytes | intros b Hb; apply Hbody; eapply in_skipn; exact Hb | exact Heb ].
  assert (Hblk : skipn (N.to_nat (N.of_nat (length (skipn k body)))) (skipn k body ++ foot) = foot).
  { rewrite Nat2N.id, skipn_app, skipn_all, Nat.sub_diag. reflexivity. }
  rewrite Hblk. clear Hblk.
  assert (Hf40 : (N.of_nat (length foot) < 2 ^ 40)%N) by (change (2 ^ 40)%N with 1099511627776%N; lia).
  assert (Hne : FinalStream <> FinalNil) by discriminate.
  assert (Hdec := Hrt (footer_payload back) FinalStream foot [] (footer_payload_bytes back) bytes_lt_nil Henc
                  Hf40 (or_introl Hne)).
  rewrite app_nil_r in Hdec. rewrite Hdec.
  rewrite writer_blocks_small by (cbn [length]; lia).
  cbn [mr_err mr_used mr_blocks mr_final mr_payload length].
  rewrite N.eqb_refl. change (N.of_nat 1 =? 1)%N with true. cbn [negb orb fmode_eqb].
  unfold footer_payload at 1 2 3 4.
  change (firstn 3 ([88; 70; 0]%N ++ put_uvarint back)) with [88; 70; 0]%N.
  change (list_eqb N.eqb [88; 70; 0]%N xf_magic) with true.
  change (skipn 3 ([88; 70; 0]%N ++ put_uvarint back)) with (put_uvarint back).
  change (length ([88; 70; 0]%N ++ put_uvarint back)) with (S (S (S (length (put_uvarint back))))).
  change (S (S (S (length (put_uvarint back)))) <? 3)%nat with false. cbn [negb orb].
  assert (Huv : uvarint (put_uvarint back) = (back, Z.of_nat (length (put_uvarint back)))).
  { pose proof (uvarint_put back []) as Hu. rewrite app_nil_r in Hu. apply Hu.
    change (2 ^ 64)%N with (2 * 2 ^ 63)%N. lia. }
  rewrite Huv.
  pose proof (put_uvarint_len back) as Hul.
  replace (Z.of_nat (length (put_uvarint back)) <=? 0) with false by (symmetry; apply Z.leb_gt; lia).
  rewrite Nat2Z.id.
  change (skipn (3 + length (put_uvarint back)) ([88; 70; 0]%N ++ put_uvarint back))
    with (skipn (length (put_uvarint back)) (put_uvarint back)).
  rewrite skipn_all. cbn [length Nat.eqb negb].
  rewrite wrap64_small by (unfold zN; change (2 ^ 63)%N with 9223372036854775808%N in Hback;
                           change (2 ^ 63) with 9223372036854775808; lia).
  eexists. reflexivity.
Qed.

(* ---- the backward walk over the index blocks -------------------------------------------- *)
Definition seg_idx_entry (sg : seg) : list record * N :=
  (recs_of (sg_chunks sg), N.of_nat (length (sg_idx sg))).

Lemma loop_step f data pos back comp idxs log :
  0 <= back -> 0 <= comp -> back + comp <= pos -> pos < 2 ^ 62 ->
  decode_indexes_loop (S f) data pos back comp idxs log =
  if back =? 0 then
    if negb (pos - (back + comp) =? 0) then inl ECorrupted else inr (idxs, log)
  else
    match decode_index data (Z.to_N (pos - (back + comp))) (Z.to_N back) with
    | inl e => inl e
    | inr (recs, back') =>
      decode_indexes_loop f data (pos - (back + comp)) back' (CompOffset (last_record recs))
                          ((recs, Z.to_N back) :: idxs) (log ++ [(Z.to_N (pos - (back + comp)), Z.to_N back)])
    end.
Proof.
  intros Hb Hc Hle Hpos. cbn [decode_indexes_loop].
  assert (H62 : 2 ^ 62 < 2 ^ 63) by reflexivity.
  rewrite (wrap64_small (back + comp)) by lia.
  rewrite (wrap64_small (pos - (back + comp))) by lia.
  replace (pos - (back + comp) <? 0) with false by (symmetry; apply Z.ltb_ge; lia).
  replace (pos <? pos - (back + comp)) with false by (symmetry; apply Z.ltb_ge; lia).
  reflexivity.
Qed.

Lemma back_le rsegs : Z.of_N (back_of rsegs) <= Z.of_nat (length (rsegs_bytes rsegs)).
Proof.
  destruct rsegs as [|sg older]; cbn [back_of rsegs_bytes length]; [lia|].
  unfold seg_bytes. rewrite !app_length. lia.
Qed.

Lemma rsegs_count rsegs : rsegs_wf rsegs -> (length rsegs <= length (rsegs_bytes rsegs))%nat.
Proof.
  induction rsegs as [|sg older IH]; cbn [rsegs_wf rsegs_bytes length]; [lia|].
  intros (Hc & Henc & Hb & Ho). specialize (IH Ho).
  assert (Hne : sg_idx sg <> []).
  { eapply meta_encode_nonempty; [ | | exact Henc]; [apply index_payload_bytes | intros E; discriminate E]. }
  unfold seg_bytes. rewrite !app_length. destruct (sg_idx sg); [contradiction | cbn [length]; lia].
Qed.

Lemma loop_ok rsegs : forall fuel data suffix compSize idxs log,
  rsegs_wf rsegs -> data = rsegs_bytes rsegs ++ suffix ->
  Z.of_nat (length data) < 2 ^ 40 -> Z.of_nat (length (rsegs_data rsegs)) < 2 ^ 62 ->
  (length rsegs < fuel)%nat -> 0 <= compSize -> compSize <= Z.of_nat (length suffix) ->
  exists log',
    decode_indexes_loop fuel data (Z.of_nat (length (rsegs_bytes rsegs)) + compSize)
      (Z.of_N (back_of rsegs)) compSize idxs log =
    inr (map seg_idx_entry (rev rsegs) ++ idxs, log').
Proof.
  assert (H40 : 2 ^ 40 < 2 ^ 62) by reflexivity.
  induction rsegs as [|sg older IH]; intros fuel data suffix compSize idxs log Hwf Hdata Hlen Hraw Hfuel Hc0 Hc1.
  - destruct fuel as [|f]; [cbn [length] in Hfuel; lia|].
    cbn [rsegs_bytes app length back_of] in *. subst data.
    rewrite loop_step by (cbn; lia).
    change (Z.of_N 0 =? 0) with true. cbn iota.
    replace (Z.of_nat 0 + compSize - (Z.of_N 0 + compSize) =? 0) with true by (symmetry; apply Z.eqb_eq; lia).
    cbn [negb rev map app]. eexists. reflexivity.
  - destruct fuel as [|f]; [cbn [length] in Hfuel; lia|].
    cbn [rsegs_wf] in Hwf. destruct Hwf as (Hcw & Henc & Hib & Ho).
    cbn [rsegs_bytes back_of] in *. unfold seg_bytes in *.
    set (Ro := rsegs_bytes older) in *. set (Cb := chunks_bytes (sg_chunks sg)) in *.
    set (Ib := sg_idx sg) in *.
    assert (Hne : Ib <> []).
    { eapply meta_encode_nonempty; [ | | exact Henc]; [apply index_payload_bytes | intros E; discriminate E]. }
    assert (HI1 : (1 <= length Ib)%nat) by (destruct Ib; [contradiction | cbn [length]; lia]).
    assert (Hdlen : length data = (length Ro + length Cb + length Ib + length suffix)%nat).
    { rewrite Hdata, !app_length. lia. }
    cbn [rsegs_data] in Hraw. rewrite app_length in Hraw.
    rewrite !app_length.
    rewrite loop_step by lia.
    replace (Z.of_N (N.of_nat (length Ib)) =? 0) with false by (symmetry; apply Z.eqb_neq; lia).
    replace (Z.of_nat (length Ro + (length Cb + length Ib)) + compSize - (Z.of_N (N.of_nat (length Ib)) + compSize))
      with (Z.of_nat (length (Ro ++ Cb))) by (rewrite app_length; lia).
    rewrite !Z2N_nat, N2Z.id.
    assert (Hsl : slice data (N.of_nat (length (Ro ++ Cb))) (N.of_nat (length Ib)) = Ib).
    { rewrite Hdata. rewrite <- !app_assoc. rewrite (app_assoc Ro Cb). apply slice_middle. }
    pose proof (back_le older) as Hbl. fold Ro in Hbl.
    rewrite (decode_index_ok Hrt data _ _ (back_of older) (map chunk_entry (sg_chunks sg)) Ib).
    + fold (recs_of (sg_chunks sg)).
      destruct (last_build0 (map chunk_entry (sg_chunks sg))) as [HlC _].
      fold (recs_of (sg_chunks sg)) in HlC. unfold lastC in HlC. rewrite HlC, tot_c_chunks. fold Cb.
      destruct (IH f data (Cb ++ Ib ++ suffix) (Z.of_nat (length Cb))
                   ((recs_of (sg_chunks sg), N.of_nat (length Ib)) :: idxs)
                   (log ++ [(N.of_nat (length (Ro ++ Cb)), N.of_nat (length Ib))])) as [log' Hlog'].
      * exact Ho.
      * rewrite Hdata, <- !app_assoc. reflexivity.
      * exact Hlen.
      * lia.
      * cbn [length] in Hfuel. lia.
      * lia.
      * rewrite app_length. lia.
      * exists log'.
        replace (Z.of_nat (length (Ro ++ Cb))) with (Z.of_nat (length Ro) + Z.of_nat (length Cb))
          by (rewrite app_length; lia).
        rewrite Hlog'.
        cbn [rev]. rewrite map_app, <- app_assoc. reflexivity.
    + apply chunk_entries_ok. exact Hcw.
    + rewrite tot_c_chunks. fold Cb. change (2 ^ 63) with (2 * 2 ^ 62). lia.
    + rewrite tot_r_chunks. change (2 ^ 63) with (2 * 2 ^ 62). lia.
    + change (2 ^ 63)%N with 9223372036854775808%N. change (2 ^ 40) with 1099511627776 in Hlen. lia.
    + exact Henc.
    + change (2 ^ 40)%N with 1099511627776%N. change (2 ^ 40) with 1099511627776 in Hlen. lia.
    + exact Hsl.
    + reflexivity.
Qed.


(* ---- the table: chunks and index block of every segment, in stream order ------------------ *)
Definition seg_items (sg : seg) : list item :=
  map (fun c : chunk => (fst c, snd c, deflateType)) (sg_chunks sg) ++ [(sg_idx sg, [], indexType)].

Definition body_items (rsegs : list seg) : list item := flat_map seg_items (rev rsegs).

Definition all_items (rsegs : list seg) (foot : list byte) : list item :=
  body_items rsegs ++ [(foot, [], footerType)].

Lemma seg_items_entries sg :
  map item_entry (seg_items sg) =
  map chunk_entry (sg_chunks sg) ++ [(Z.of_nat (length (sg_idx sg)), 0, indexType)].
Proof. unfold seg_items. rewrite map_app, map_map. reflexivity. Qed.

Lemma seg_items_bytes sg : items_bytes (seg_items sg) = seg_bytes sg.
Proof.
  unfold seg_items, items_bytes, seg_bytes. rewrite flat_map_app. cbn [flat_map it_bytes fst app].
  rewrite app_nil_r. f_equal. unfold chunks_bytes.
  induction (sg_chunks sg) as [|c cs IH]; cbn [map flat_map]; [reflexivity|]. rewrite IH. reflexivity.
Qed.

Lemma seg_items_raw sg : items_raw (seg_items sg) = chunks_data (sg_chunks sg).
Proof.
  unfold seg_items, items_raw. rewrite flat_map_app. cbn [flat_map it_raw fst snd app].
  rewrite app_nil_r. unfold chunks_data.
  induction (sg_chunks sg) as [|c cs IH]; cbn [map flat_map]; [reflexivity|]. rewrite IH. reflexivity.
Qed.

Lemma body_items_bytes rsegs : items_bytes (body_items rsegs) = rsegs_bytes rsegs.
Proof.
  unfold body_items, items_bytes.
  induction rsegs as [|sg older IH]; cbn [rev rsegs_bytes flat_map]; [reflexivity|].
  rewrite !flat_map_app. cbn [flat_map]. rewrite !app_nil_r, IH.
  f_equal. apply seg_items_bytes.
Qed.

Lemma body_items_raw rsegs : items_raw (body_items rsegs) = rsegs_data rsegs.
Proof.
  unfold body_items, items_raw.
  induction rsegs as [|sg older IH]; cbn [rev rsegs_data flat_map]; [reflexivity|].
  rewrite !flat_map_app. cbn [flat_map]. rewrite !app_nil_r, IH.
  f_equal. apply seg_items_raw.
Qed.

Lemma item_entries_nonneg l : Forall entry_nonneg (map item_entry l).
Proof.
  apply Forall_map. apply Forall_forall. intros it _. unfold entry_nonneg, item_entry, e_c, e_r.
  cbn [fst snd]. lia.
Qed.

Lemma merge_ok segs : forall recs,
  0 <= lastC recs -> 0 <= lastR recs ->
  lastC recs + tot_c (map item_entry (flat_map seg_items segs)) < 2 ^ 63 ->
  lastR recs + tot_r (map item_entry (flat_map seg_items segs)) < 2 ^ 63 ->
  merge_indexes recs (map seg_idx_entry segs) =
  Some (recs ++ build (lastC recs) (lastR recs) (map item_entry (flat_map seg_items segs))).
Proof.
  induction segs as [|sg segs IH]; intros recs HC HR HCb HRb; cbn [map merge_indexes flat_map].
  - rewrite app_nil_r. reflexivity.
  - cbn [flat_map] in HCb, HRb. rewrite map_app, tot_c_app in HCb. rewrite map_app, tot_r_app in HRb.
    pose proof (tot_c_nonneg _ (item_entries_nonneg (flat_map seg_items segs))) as Hn1.
    pose proof (tot_r_nonneg _ (item_entries_nonneg (flat_map seg_items segs))) as Hn2.
    pose proof (tot_c_nonneg _ (item_entries_nonneg (seg_items sg))) as Hn3.
    pose proof (tot_r_nonneg _ (item_entries_nonneg (seg_items sg))) as Hn4.
    rewrite map_app, build_app.
    rewrite seg_items_entries in *. rewrite tot_c_app in *. rewrite tot_r_app in *.
    cbn [tot_c tot_r fold_right e_c e_r fst snd] in *.
    set (es := map chunk_entry (sg_chunks sg)) in *.
    assert (Hes : Forall entry_nonneg es).
    { unfold es. apply Forall_map. apply Forall_forall. intros c _.
      unfold entry_nonneg, chunk_entry, e_c, e_r. cbn [fst snd]. lia. }
    pose proof (tot_c_nonneg _ Hes) as Hn5. pose proof (tot_r_nonneg _ Hes) as Hn6.
    unfold seg_idx_entry at 1. unfold append_index, recs_of. fold es.
    change rec0 with (mkRec 0 0 0).
    rewrite append_index_from_build by (try exact Hes; lia).
    destruct (last_app_build es recs) as [HlC HlR].
    set (r1 := recs ++ build (lastC recs) (lastR recs) es) in *.
    unfold zN. rewrite nat_N_Z.
    rewrite append_record_ok by lia.
    rewrite HlC, HlR.
    set (x := mkRec (lastC recs + tot_c es + Z.of_nat (length (sg_idx sg))) (lastR recs + tot_r es + 0) indexType).
    assert (HC' : lastC (r1 ++ [x]) = lastC recs + tot_c es + Z.of_nat (length (sg_idx sg)))
      by (unfold lastC; rewrite last_record_snoc; reflexivity).
    assert (HR' : lastR (r1 ++ [x]) = lastR recs + tot_r es + 0)
      by (unfold lastR; rewrite last_record_snoc; reflexivity).
    rewrite IH by lia.
    rewrite HC', HR'. unfold r1. rewrite build_app. cbn [build e_c e_r e_t fst snd].
    rewrite <- !app_assoc. cbn [app].
    unfold x. do 4 f_equal. f_equal; lia.
Qed.


(* ---- every item decodes as the table says -------------------------------------------------- *)
Hypothesis Hnf : meta_nonfinal_blocks_stmt.
Hypothesis Hfc : meta_footer_chunk_stmt.
Hypothesis Hse : scan_endblock_stmt.

Lemma chunk_item_ok c : chunk_wf c -> item_ok (fst c, snd c, deflateType).
Proof.
  intros (Hnb & Hsync & H5 & Hb). unfold item_ok. cbn [it_bytes it_raw it_typ fst snd].
  exists (N.of_nat (length (fst c)) + 5)%N. repeat split.
  - apply Hse; assumption.
  - change (deflateType =? footerType) with false. cbn iota. lia.
  - intros _. exact Hsync.
Qed.

Lemma idx_item_ok payload enc : bytes_lt payload -> bytes_lt enc ->
  meta_encode payload FinalMeta = Some enc -> item_ok (enc, [], indexType).
Proof.
  intros Hp He Henc. unfold item_ok. cbn [it_bytes it_raw it_typ fst snd].
  exists (N.of_nat (length enc) + 5)%N. repeat split.
  - apply Hse; [exact He|]. eapply Hnf; [exact Hp | | exact Henc]. intros E; discriminate E.
  - change (indexType =? footerType) with false. cbn iota. lia.
  - intros E. discriminate E.
Qed.

Lemma foot_item_ok payload foot : bytes_lt payload ->
  meta_encode payload FinalStream = Some foot -> item_ok (foot, [], footerType).
Proof.
  intros Hp Henc. unfold item_ok. cbn [it_bytes it_raw it_typ fst snd].
  exists (N.of_nat (length foot)). repeat split.
  - apply (Hfc payload foot endBlock); [exact Hp | | exact Henc].
    intros b Hb. unfold endBlock in Hb. cbn [In] in Hb.
    destruct Hb as [<-|[<-|[<-|[<-|[<-|[]]]]]]; reflexivity.
  - change (footerType =? footerType) with true. cbn iota. lia.
  - intros E. discriminate E.
Qed.

Lemma seg_items_ok sg back :
  Forall chunk_wf (sg_chunks sg) -> bytes_lt (sg_idx sg) ->
  meta_encode (index_payload back (recs_of (sg_chunks sg))) FinalMeta = Some (sg_idx sg) ->
  Forall item_ok (seg_items sg).
Proof.
  intros Hc Hb Henc. unfold seg_items. apply Forall_app. split.
  - apply Forall_map. eapply Forall_impl; [|exact Hc]. intros c Hcw. apply chunk_item_ok. exact Hcw.
  - constructor; [|constructor]. eapply idx_item_ok; [apply index_payload_bytes | exact Hb | exact Henc].
Qed.

Lemma body_items_cons sg older : body_items (sg :: older) = body_items older ++ seg_items sg.
Proof. unfold body_items. cbn [rev]. rewrite flat_map_app. cbn [flat_map]. rewrite app_nil_r. reflexivity. Qed.

Lemma body_items_ok rsegs : rsegs_wf rsegs -> Forall item_ok (body_items rsegs).
Proof.
  induction rsegs as [|sg older IH]; cbn [rsegs_wf]; [intros _; constructor|].
  intros (Hc & Henc & Hb & Ho). rewrite body_items_cons. apply Forall_app. split.
  - apply IH. exact Ho.
  - eapply seg_items_ok; eassumption.
Qed.

(* ---- C05, Reader half: a stream of the described shape opens and is honest ---------------- *)
Theorem reader_honest rsegs foot sink data :
  xf_stream rsegs foot sink data ->
  Z.of_nat (length sink) < 2 ^ 40 -> Z.of_nat (length data) < 2 ^ 62 ->
  honest_stream sink data = true.
Proof.
  intros (Hwf & Hfoot & Hfb & Hsink & Hdata) Hlen Hdlen.
  assert (H40 : 2 ^ 40 < 2 ^ 62) by reflexivity.
  assert (H62 : 2 ^ 62 < 2 ^ 63) by reflexivity.
  pose proof (back_le rsegs) as Hbl.
  assert (Hslen : length sink = (length (rsegs_bytes rsegs) + length foot)%nat)
    by (rewrite Hsink, app_length; reflexivity).
  unfold honest_stream, open_reader.
  destruct (decode_footer_ok (rsegs_bytes rsegs) foot (back_of rsegs)) as [log Hdf].
  { apply rsegs_bytes_lt. exact Hwf. }
  { change (2 ^ 63)%N with 9223372036854775808%N. change (2 ^ 63) with 9223372036854775808 in H62. lia. }
  { exact Hfoot. }
  rewrite <- Hsink in Hdf. rewrite Hdf.
  replace (zN (N.of_nat (length sink) - N.of_nat (length foot)))
    with (Z.of_nat (length (rsegs_bytes rsegs)) + 0) by (unfold zN; lia).
  destruct (loop_ok rsegs (S (length sink)) sink foot 0 [] log) as [log' Hloop].
  { exact Hwf. } { exact Hsink. } { exact Hlen. } { rewrite <- Hdata. exact Hdlen. }
  { pose proof (rsegs_count rsegs Hwf). lia. } { lia. } { lia. }
  rewrite Hloop, app_nil_r.
  assert (HtC : tot_c (map item_entry (body_items rsegs)) = Z.of_nat (length (rsegs_bytes rsegs)))
    by (rewrite tot_c_items, body_items_bytes; reflexivity).
  assert (HtR : tot_r (map item_entry (body_items rsegs)) = Z.of_nat (length data))
    by (rewrite tot_r_items, body_items_raw, Hdata; reflexivity).
  fold (body_items rsegs) in HtC, HtR.
  rewrite (merge_ok (rev rsegs) []).
  2,3: (cbn; lia).
  2:{ change (lastC []) with 0. fold (body_items rsegs). lia. }
  2:{ change (lastR []) with 0. fold (body_items rsegs). lia. }
  fold (body_items rsegs). change (lastC []) with 0. change (lastR []) with 0. cbn [app].
  set (T0 := build 0 0 (map item_entry (body_items rsegs))).
  destruct (last_build0 (map item_entry (body_items rsegs))) as [HlC HlR]. fold T0 in HlC, HlR.
  rewrite append_record_ok by (unfold zN; lia).
  set (s0 := mkXR sink _ 0 0 0 (0, 0, 0) _ None log').
  pose proof (seek_keeps_recs s0 0 0) as Hkeep.
  destruct (seek s0 0 0) as [o s1]. cbn [snd] in Hkeep. rewrite Hkeep. cbn [s0 r_recs].
  assert (HT : T0 ++ [mkRec (lastC T0 + zN (N.of_nat (length foot))) (lastR T0 + 0) footerType] =
               build 0 0 (map item_entry (all_items rsegs foot))).
  { unfold all_items. rewrite map_app, build_app. fold T0. cbn [map build item_entry it_bytes it_raw it_typ fst snd length e_c e_r e_t].
    rewrite HlC, HlR. unfold zN. rewrite nat_N_Z. reflexivity. }
  rewrite HT.
  assert (Hib : items_bytes (all_items rsegs foot) = sink).
  { unfold all_items, items_bytes. rewrite flat_map_app. fold (items_bytes (body_items rsegs)).
    rewrite body_items_bytes. cbn [flat_map it_bytes fst]. rewrite app_nil_r. symmetry. exact Hsink. }
  assert (Hir : items_raw (all_items rsegs foot) = data).
  { unfold all_items, items_raw. rewrite flat_map_app. fold (items_raw (body_items rsegs)).
    rewrite body_items_raw. cbn [flat_map it_raw fst snd]. rewrite !app_nil_r. symmetry. exact Hdata. }
  rewrite <- Hib at 1. rewrite <- Hir.
  apply honestb_items.
  - unfold all_items. intros E. apply app_eq_nil in E. destruct E as [_ E]. discriminate E.
  - unfold all_items. apply Forall_app. split; [apply body_items_ok; exact Hwf|].
    constructor; [|constructor]. eapply foot_item_ok; [apply footer_payload_bytes | exact Hfoot].
Qed.

End ReaderOpen.
