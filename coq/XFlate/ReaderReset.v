(* xflate.Reader: Reset, NewReader and the zero value, on top of XFlate/Reader.v.

   repo/xflate/reader.go:

     func NewReader(rs, conf) { xr := new(Reader); err := xr.Reset(rs); return xr, err }
     func (xr *Reader) Reset(rs) error {
        *xr = Reader{rd: rs, mr: xr.mr, zr: xr.zr, idx: xr.idx,
                     br: xr.br, bw: xr.bw, idxs: xr.idxs, chunks: xr.chunks}
        if xr.zr == nil { xr.zr, _ = newFlateReader(nil) }
        xr.idx.Reset()
        backSize, footSize, xr.err = xr.decodeFooter();   if err: return
        xr.err = xr.decodeIndexes(backSize);               if err: return
        if !xr.idx.AppendRecord(footSize, 0, footerType) { xr.err = errCorrupted; return }
        _, xr.err = xr.Seek(0, io.SeekStart); return xr.err }

   Reset is the primitive, NewReader is Reset of the zero value, as in the Go code.

     field of Reader     in [xr]       struct literal        later
     rd                  r_data        the new source
     mr                  (meta.Reader: Reset before every use, decodeFooter / decodeIndex;
                          Meta/ReaderImpl*.v)
     cr                  (part of r_zr: z_sync_ok)   cleared       Seek: cr.Reset
     zr                  r_zr          KEPT, offsets included      Seek: zr.Reset
     ri, offset, discard r_ri ...      cleared
     idx.Records         r_recs        kept                  idx.Reset: [] (capacity kept)
     chk                 r_chk         cleared
     err                 r_err         cleared
     lr                  (transient)   cleared
     br, bw, idxs, chunks (scratch storage: each is truncated before it is used)   kept

   The decompressor object survives with the offsets of the abandoned chunk: the final
   Seek(0, SeekStart) of Reset reads xr.zr.OutputOffset before it resets zr, and when the open
   phase fails zr is not reset at all. [r_open] therefore starts from the OLD [r_zr].

   Unlike [open_reader], a failed open is a state here (NewReader returns the Reader together
   with the error; Seek, Read and Close on it return the error), and the log of accesses to the
   source is kept on failure as well: the bytes of the footer region and of every index block
   are read BEFORE they are parsed. *)
From V Require Import Base.Prelude Base.Prog Meta.Model Flate.Spec XFlate.Index XFlate.Reader.

(* newFlateReader(nil): offsets 0, nothing to deliver *)
Definition zr0 : zrd := mkZr [] 0 None 0 false false.

(* what decodeFooter reads, whether it then succeeds or not *)
Definition footer_log (data : list byte) : iolog :=
  let len := N.of_nat (length data) in
  let n := N.min len MaxEncBytes in [(len - n, n)].

(* decodeIndexes, the backward walk: as [decode_indexes_loop], but the span of an index block is
   logged when it is read, i.e. before it is parsed, and the log survives a failure *)
Fixpoint decode_indexes_loop_l (fuel : nat) (data : list byte) (pos backSize compSize : Z)
         (idxs : list (list record * N)) (log : iolog)
  : option err * list (list record * N) * iolog :=
  match fuel with
  | O => (Some ECorrupted, idxs, log)
  | S f =>
    let newPos := wrap64 (pos - wrap64 (backSize + compSize)) in
    if (newPos <? 0)%Z || (pos <? newPos)%Z then (Some ECorrupted, idxs, log) else
    if (backSize =? 0)%Z then
      if negb (newPos =? 0)%Z then (Some ECorrupted, idxs, log) else (None, idxs, log)
    else
      let isize := Z.to_N backSize in
      let log' := log ++ [(Z.to_N newPos, isize)] in
      match decode_index data (Z.to_N newPos) isize with
      | inl e => (Some e, idxs, log')
      | inr (recs, back) =>
        decode_indexes_loop_l f data newPos back (CompOffset (last_record recs))
                              ((recs, isize) :: idxs) log'
      end
  end.

(* the compaction loop of decodeIndexes: (accepted, xr.idx.Records when the loop ends).
   AppendIndex is atomic; a refused AppendRecord leaves the appended index in place *)
Fixpoint merge_indexes_p (recs : list record) (idxs : list (list record * N)) : bool * list record :=
  match idxs with
  | [] => (true, recs)
  | (rs, isize) :: rest =>
    match append_index recs rs with
    | None => (false, recs)
    | Some r1 =>
      match append_record r1 (zN isize) 0 indexType with
      | None => (false, r1)
      | Some r2 => merge_indexes_p r2 rest
      end
    end
  end.

(* the Reader value after the struct literal, "zr == nil" and idx.Reset() *)
Definition reader_literal (zr : zrd) (src : list byte) : xr :=
  mkXR src [] 0 0 0 (0, 0, 0)%Z zr None [].

(* Reset returns with xr.err set *)
Definition open_fail (s : xr) (recs : list record) (e : err) (log : iolog) : xr :=
  mkXR (r_data s) recs (r_ri s) (r_offset s) (r_discard s) (r_chk s) (r_zr s) (Some e) log.

(* the open phase of Reset, from the literal *)
Definition r_open (s0 : xr) : xr :=
  let data := r_data s0 in
  match decode_footer data with
  | inl e => open_fail s0 [] e (footer_log data)
  | inr (backSize, footSize, log) =>
    let len := N.of_nat (length data) in
    let '(oe, idxs, log') :=
      decode_indexes_loop_l (S (length data)) data (zN (len - footSize)) backSize 0 [] log in
    match oe with
    | Some e => open_fail s0 [] e log'
    | None =>
      let '(ok, recs) := merge_indexes_p [] idxs in
      if negb ok then open_fail s0 recs ECorrupted log' else
      match append_record recs (zN footSize) 0 footerType with
      | None => open_fail s0 recs ECorrupted log'
      | Some recs' =>
        snd (seek (mkXR data recs' (r_ri s0) (r_offset s0) (r_discard s0) (r_chk s0) (r_zr s0)
                        None log') 0 0)
      end
    end
  end.

(* Reader.Reset on a Reader whose zr is not nil *)
Definition r_reset (s : xr) (src : list byte) : xr := r_open (reader_literal (r_zr s) src).

(* ---- states and operations with Reset ------------------------------------ *)
(* the zero value (new(Reader); zr == nil) can only be closed or Reset *)
Inductive xrS := RZero (closed : bool) | RLive (s : xr).

Inductive xrop := RsOp (o : rop) | RsReset (src : list byte).

Inductive xrobs1 := RsO (o : robs) | RsOReset (e : option err).
(* one observation: what the call returned and the log of accesses to the current source *)
Definition xrobs : Type := xrobs1 * iolog.

Definition rs_log (st : xrS) : iolog := match st with RZero _ => [] | RLive s => r_log s end.
Definition rs_err (st : xrS) : option err :=
  match st with RZero c => if c then Some EClosed else None | RLive s => r_err s end.

Definition rs_reset (st : xrS) (src : list byte) : xrS :=
  match st with
  | RZero _ => RLive (r_open (reader_literal zr0 src))
  | RLive s => RLive (r_reset s src)
  end.

(* NewReader *)
Definition new_reader (src : list byte) : xrS := rs_reset (RZero false) src.

(* the zero Reader: Seek computes the target (offset 0, empty index) and then reads
   xr.zr.OutputOffset; Read of a non-empty buffer calls xr.zr.Read; Close only sets err *)
Definition zero_rstep (closed : bool) (o : rop) : robs * bool :=
  match o with
  | RSeek off wh =>
    if closed then (OSeek 0 (Some EClosed), closed) else
    if negb ((wh =? 0) || (wh =? 1) || (wh =? 2))%Z then (OSeek 0 (Some EInvalid), closed) else
    if (off <? 0)%Z then (OSeek 0 (Some EInvalid), closed) else
    (OSeek 0 (Some EPanic), closed)
  | RRead n =>
    if closed then (ORead [] (Some EClosed), closed) else
    if n =? 0 then (ORead [] None, closed) else (ORead [] (Some EPanic), closed)
  | RClose => (OClose None, true)
  end.

Definition rs_step (st : xrS) (o : xrop) : xrobs * xrS :=
  match o with
  | RsReset src => let st' := rs_reset st src in ((RsOReset (rs_err st'), rs_log st'), st')
  | RsOp r =>
    match st with
    | RZero c => let '(ob, c') := zero_rstep c r in ((RsO ob, []), RZero c')
    | RLive s => let '(ob, s') := rstep s r in ((RsO ob, r_log s'), RLive s')
    end
  end.

Fixpoint rs_run (st : xrS) (ops : list xrop) : list xrobs * xrS :=
  match ops with
  | [] => ([], st)
  | o :: r =>
    let '(ob, st') := rs_step st o in
    let '(obs, st'') := rs_run st' r in
    (ob :: obs, st'')
  end.

Definition r_run := rs_run.
