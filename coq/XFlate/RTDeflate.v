(* C06: every stream the Writer produces is a plain DEFLATE stream for the data written.
   No size bounds: the invariant below does not look at the record table (whose int64
   arithmetic is the only place where sizes matter), only at the sink as a sequence of
   complete non-final DEFLATE blocks followed by what the compressor has emitted for the
   current chunk. *)
From V Require Import Base.Prelude Base.Prog Meta.Model Flate.Spec
  XFlate.Index XFlate.Writer XFlate.Reader XFlate.Refine XFlate.RefineCheck XFlate.RoundTripStmt
  XFlate.RTIndex XFlate.RTStream XFlate.RTWriter.
From Coq Require Import ZifyBool ZifyN ZifyNat.
Local Open Scope Z_scope.

Section WriterDeflate.
Variable deflate : Z -> list cop -> list byte.
Hypothesis HK : K1 deflate.
Hypothesis Htot : meta_encode_total_stmt.
Hypothesis Hnf : meta_nonfinal_blocks_stmt.
Hypothesis Hfc : meta_footer_chunk_stmt.
Hypothesis Hsa : scan_app_stmt.
Hypothesis Hss : scan_then_stream_stmt.

Definition kinv (pre dpre : list byte) (s : xw) (data : list byte) : Prop :=
  w_err s = None /\ level_ok (w_lvl s) = true /\ (1 <= w_nchk s)%N /\
  bytes_lt pre /\ nonfinal_blocks pre = Some dpre /\
  w_sink s = pre ++ deflate (w_lvl s) (w_ops s) /\
  data = dpre ++ cops_data (w_ops s).

Definition kopen (s : xw) (data : list byte) : Prop := exists pre dpre, kinv pre dpre s data.

Lemma zw_call_k pre dpre s data o :
  kinv pre dpre s data -> kinv pre dpre (zw_call deflate s o) (data ++ cop_data o).
Proof.
  intros (He & Hl & Hn & Hb & Hnb & Hs & Hd).
  destruct (k_mono deflate HK (w_lvl s) (w_ops s) o) as [more Hmore].
  unfold kinv, zw_call. cbn [w_err w_lvl w_nchk w_sink w_ops].
  rewrite Hmore, skipn_app, skipn_all, Nat.sub_diag. cbn [skipn app].
  repeat split; try assumption.
  - rewrite Hs, <- !app_assoc. reflexivity.
  - rewrite cops_data_snoc, Hd, <- !app_assoc. reflexivity.
Qed.

Lemma flush_index_tail_k pre dpre s data :
  kinv pre dpre s data -> deflate (w_lvl s) (w_ops s) = [] -> cops_data (w_ops s) = [] ->
  exists pre', kinv pre' dpre (flush_index_tail s) data /\
               w_ops (flush_index_tail s) = w_ops s /\ w_lvl (flush_index_tail s) = w_lvl s.
Proof.
  intros (He & Hl & Hn & Hb & Hnb & Hs & Hd) Hz Hz'.
  destruct (Htot (index_payload (w_back s) (w_recs s)) FinalMeta (index_payload_bytes _ _))
    as [enc [Henc Hbytes]].
  exists (pre ++ enc). unfold flush_index_tail. rewrite Henc.
  unfold kinv. cbn [w_err w_lvl w_nchk w_sink w_ops emit].
  split; [|split; reflexivity].
  repeat split; try assumption.
  - apply bytes_lt_app; assumption.
  - rewrite <- (app_nil_r dpre). apply Hsa; try assumption.
    eapply Hnf; [apply index_payload_bytes | | exact Henc]. intros E; discriminate E.
  - rewrite Hs, Hz, !app_nil_r. reflexivity.
Qed.

Lemma flush_full_k pre dpre s data :
  kinv pre dpre s data -> bytes_lt data ->
  exists pre' dpre', kinv pre' dpre' (flush_full deflate s) data /\ w_ops (flush_full deflate s) = [].
Proof.
  intros Hinv Hdb.
  pose proof (zw_call_k pre dpre s data CF Hinv) as H1.
  cbn [cop_data] in H1. rewrite app_nil_r in H1.
  unfold flush_full, flush_sync. cbv zeta.
  set (s1 := zw_call deflate s CF) in *.
  destruct H1 as (He & Hl & Hn & Hb & Hnb & Hs & Hd).
  assert (Hops1 : w_ops s1 = w_ops s ++ [CF]) by reflexivity.
  set (c := deflate (w_lvl s1) (w_ops s1)) in *.
  set (raw := cops_data (w_ops s)).
  assert (Hraw : cops_data (w_ops s1) = raw).
  { rewrite Hops1, cops_data_snoc. cbn [cop_data]. apply app_nil_r. }
  assert (Hrb : bytes_lt (cops_data (w_ops s))).
  { intros b Hin. apply Hdb. rewrite Hd, Hraw. apply in_or_app. right. exact Hin. }
  destruct (k_chunk deflate HK (w_lvl s1) (w_ops s) Hl Hrb) as [Ha [Hb' Hc']].
  rewrite <- Hops1 in Ha. fold c in Ha.
  assert (Hcb : bytes_lt c) by (intros b Hin; eapply (k_bytes deflate HK); exact Hin).
  set (recs' := match append_record (w_recs s1) (Z.of_N (zw_out deflate s1)) (Z.of_N (zw_in s1)) deflateType with
                | Some r => r | None => w_recs s1 end).
  set (s2 := mkXW (w_sink s1) (w_in s1) (w_out s1) (w_lvl s1) [] recs' (w_back s1) (w_nidx s1) (w_nchk s1) (w_err s1)).
  assert (Hstep : kinv (pre ++ c) (dpre ++ raw) s2 data).
  { unfold kinv. cbn [s2 w_err w_lvl w_nchk w_sink w_ops].
    rewrite (k_nil deflate HK). cbn [cops_data flat_map].
    repeat split; try assumption.
    - apply bytes_lt_app; assumption.
    - apply Hsa; assumption.
    - rewrite Hs, app_nil_r. reflexivity.
    - rewrite Hd, Hraw, app_nil_r. reflexivity. }
  destruct (zlen recs' =? w_nidx s2).
  - destruct (flush_index_tail_k _ _ _ _ Hstep) as [pre' (Hinv' & Hops' & _)].
    + cbn [s2 w_ops]. apply (k_nil deflate HK).
    + reflexivity.
    + exists pre', (dpre ++ raw). split; [exact Hinv' | rewrite Hops'; reflexivity].
  - exists (pre ++ c), (dpre ++ raw). split; [exact Hstep | reflexivity].
Qed.

Lemma flush_index_k pre dpre s data :
  kinv pre dpre s data -> bytes_lt data ->
  exists pre' dpre', kinv pre' dpre' (flush_index deflate s) data /\
    deflate (w_lvl (flush_index deflate s)) (w_ops (flush_index deflate s)) = [] /\
    cops_data (w_ops (flush_index deflate s)) = [].
Proof.
  intros Hinv Hdb. unfold flush_index.
  destruct (N.ltb_spec 0 (zw_in s + zw_out deflate s)) as [Hpos|Hzero].
  - cbv zeta.
    destruct (flush_full_k _ _ _ _ Hinv Hdb) as (pre' & dpre' & Hinv' & Hops').
    assert (He' : w_err (flush_full deflate s) = None) by (exact (proj1 Hinv')).
    rewrite He'.
    destruct (flush_index_tail_k _ _ _ _ Hinv') as [pre'' (Hinv'' & Hops'' & Hlvl'')].
    + rewrite Hops'. apply (k_nil deflate HK).
    + rewrite Hops'. reflexivity.
    + exists pre'', dpre'. split; [exact Hinv''|]. rewrite Hops'', Hops'.
      split; [apply (k_nil deflate HK) | reflexivity].
  - unfold zw_in, zw_out in Hzero. rewrite cops_in_data in Hzero.
    assert (Hz1 : deflate (w_lvl s) (w_ops s) = [])
      by (destruct (deflate (w_lvl s) (w_ops s)); [reflexivity | cbn [length] in Hzero; lia]).
    assert (Hz2 : cops_data (w_ops s) = [])
      by (destruct (cops_data (w_ops s)); [reflexivity | cbn [length] in Hzero; lia]).
    destruct (flush_index_tail_k _ _ _ _ Hinv Hz1 Hz2) as [pre'' (Hinv'' & Hops'' & Hlvl'')].
    exists pre'', dpre. split; [exact Hinv''|]. rewrite Hops'', Hlvl''. split; assumption.
Qed.

Lemma write_loop_k fuel : forall s buf cnt data s' cnt',
  kopen s data ->
  write_loop deflate fuel s buf cnt = (s', cnt') ->
  (2 * length buf + (if (w_nchk s <=? zw_in s)%N then 1 else 0) <= fuel)%nat ->
  bytes_lt (data ++ buf) ->
  kopen s' (data ++ buf).
Proof.
  induction fuel as [|f IH]; intros s buf cnt data s' cnt' Hopen Hrun Hfuel Hdb.
  - cbn [write_loop] in Hrun. inversion Hrun; subst s' cnt'.
    destruct buf; [rewrite app_nil_r; exact Hopen | cbn [length] in Hfuel; lia].
  - cbn [write_loop] in Hrun.
    destruct buf as [|b buf'] eqn:Ebuf.
    { inversion Hrun; subst s' cnt'. rewrite app_nil_r. exact Hopen. }
    rewrite <- Ebuf in *. assert (Hlen : (1 <= length buf)%nat) by (rewrite Ebuf; cbn [length]; lia).
    clear Ebuf b buf'.
    destruct Hopen as (pre & dpre & Hinv).
    assert (He : w_err s = None) by exact (proj1 Hinv). rewrite He in Hrun.
    destruct (N.leb_spec (w_nchk s) (zw_in s)) as [Hfull|Hroom].
    + destruct (flush_full_k _ _ _ _ Hinv (bytes_lt_app_l _ _ Hdb)) as (pre' & dpre' & Hinv' & Hops').
      eapply IH; [exists pre', dpre'; exact Hinv' | exact Hrun | | exact Hdb].
      unfold zw_in. rewrite Hops'. cbn [cops_in fold_right].
      assert (Hn : (1 <= w_nchk (flush_full deflate s))%N) by exact (proj1 (proj2 (proj2 Hinv'))).
      replace (w_nchk (flush_full deflate s) <=? 0)%N with false by (symmetry; apply N.leb_gt; lia).
      lia.
    + cbv zeta in Hrun.
      set (remain := N.min (w_nchk s - zw_in s) (N.of_nat (length buf))) in *.
      assert (Hrem : (1 <= N.to_nat remain <= length buf)%nat) by (unfold remain; lia).
      set (part := firstn (N.to_nat remain) buf) in *.
      set (rest := skipn (N.to_nat remain) buf) in *.
      assert (Hsplit : buf = part ++ rest) by (symmetry; apply firstn_skipn).
      assert (Hrest : (length rest <= length buf - 1)%nat) by (unfold rest; rewrite skipn_length; lia).
      pose proof (zw_call_k _ _ _ _ (CW part) Hinv) as Hinv'. cbn [cop_data] in Hinv'.
      rewrite Hsplit, app_assoc. rewrite Hsplit, app_assoc in Hdb.
      eapply IH; [exists pre, dpre; exact Hinv' | exact Hrun | | exact Hdb].
      destruct (_ <=? _)%N; lia.
Qed.

Lemma write_k s d data ob s' :
  kopen s data -> write deflate s d = (ob, s') -> bytes_lt (data ++ d) -> kopen s' (data ++ d).
Proof.
  intros Hopen Hw Hdb. unfold write in Hw.
  assert (He : w_err s = None) by (destruct Hopen as (? & ? & H); exact (proj1 H)).
  rewrite He in Hw.
  destruct (write_loop deflate (2 * length d + 2) s d 0%N) as [s1 cnt] eqn:Eloop.
  inversion Hw; subst ob s'. clear Hw.
  assert (Hopen1 : kopen s1 (data ++ d)).
  { eapply write_loop_k; [exact Hopen | exact Eloop | destruct (_ <=? _)%N; lia | exact Hdb]. }
  destruct Hopen1 as (pre & dpre & Hinv).
  exists pre, dpre. exact Hinv.
Qed.

Lemma flush_k s m data e s' :
  kopen s data -> flush deflate s m = (e, s') -> bytes_lt data -> kopen s' data.
Proof.
  intros (pre & dpre & Hinv) Hf Hdb. unfold flush in Hf.
  assert (He : w_err s = None) by exact (proj1 Hinv). rewrite He in Hf.
  destruct m; inversion Hf; subst e s'; clear Hf.
  - pose proof (zw_call_k _ _ _ _ CF Hinv) as H. cbn [cop_data] in H. rewrite app_nil_r in H.
    exists pre, dpre. exact H.
  - destruct (flush_full_k _ _ _ _ Hinv Hdb) as (r' & c' & H & _). exists r', c'. exact H.
  - destruct (flush_index_k _ _ _ _ Hinv Hdb) as (r' & c' & H & _). exists r', c'. exact H.
  - exists pre, dpre. exact Hinv.
Qed.

Definition kclosed (s : xw) (data : list byte) : Prop :=
  w_err s = Some EClosed /\
  exists pre foot payload,
    bytes_lt pre /\ nonfinal_blocks pre = Some data /\ bytes_lt payload /\ bytes_lt foot /\
    meta_encode payload FinalStream = Some foot /\ w_sink s = pre ++ foot.

Lemma close_k s data e s' :
  kopen s data -> Writer.close deflate s = (e, s') -> bytes_lt data -> kclosed s' data.
Proof.
  intros (pre & dpre & Hinv) Hc Hdb. unfold Writer.close in Hc.
  assert (He : w_err s = None) by exact (proj1 Hinv). rewrite He in Hc. cbv zeta in Hc.
  set (s1 := if (0 <? zw_out deflate s + zw_in s)%N || negb (Nat.eqb (length (w_recs s)) 0)
             then flush_index deflate s else s) in *.
  assert (H1 : exists pre1 dpre1, kinv pre1 dpre1 s1 data /\ deflate (w_lvl s1) (w_ops s1) = [] /\
                               cops_data (w_ops s1) = []).
  { unfold s1 in *. destruct (_ || _) eqn:Ecase.
    - apply flush_index_k with (pre := pre) (dpre := dpre); [exact Hinv | exact Hdb].
    - apply orb_false_iff in Ecase. destruct Ecase as [Ez Er].
      apply N.ltb_ge in Ez.
      unfold zw_in, zw_out in Ez. rewrite cops_in_data in Ez.
      assert (Hz1 : deflate (w_lvl s) (w_ops s) = [])
        by (destruct (deflate (w_lvl s) (w_ops s)); [reflexivity | cbn [length] in Ez; lia]).
      assert (Hz2 : cops_data (w_ops s) = [])
        by (destruct (cops_data (w_ops s)); [reflexivity | cbn [length] in Ez; lia]).
      exists pre, dpre. split; [exact Hinv | split; assumption]. }
  destruct H1 as (pre1 & dpre1 & Hinv1 & Hz1 & Hz2).
  destruct Hinv1 as (He1 & Hl1 & Hn1 & Hb1 & Hnb1 & Hs1 & Hd1).
  rewrite He1 in Hc.
  destruct (Htot (footer_payload (w_back s1)) FinalStream (footer_payload_bytes _)) as [foot [Hfoot Hfb]].
  rewrite Hfoot in Hc. inversion Hc; subst e s'. clear Hc.
  split; [reflexivity|].
  exists pre1, foot, (footer_payload (w_back s1)). cbn [set_err emit w_sink].
  rewrite Hz2, app_nil_r in Hd1. subst dpre1.
  repeat split; try assumption.
  - apply footer_payload_bytes.
  - rewrite Hs1, Hz1, app_nil_r. reflexivity.
Qed.

Definition kstate (s : xw) (data : list byte) : Prop := kopen s data \/ kclosed s data.

Lemma wstep_k s o data ob s' :
  kstate s data -> wstep deflate s o = (ob, s') -> ob_ok ob -> bytes_lt (data ++ wop_data o) ->
  kstate s' (data ++ wop_data o) /\ (o = WClose -> kclosed s' data).
Proof.
  intros [Hopen|Hclosed] Hstep Hob Hdb.
  - destruct o as [d|m|]; cbn [wstep wop_data] in *.
    + split; [left; eapply write_k; eassumption | discriminate].
    + rewrite app_nil_r in *. destruct (flush deflate s m) as [e s1] eqn:Ef.
      inversion Hstep; subst ob s'.
      split; [left; eapply flush_k; eassumption | discriminate].
    + rewrite app_nil_r in *. destruct (Writer.close deflate s) as [e s1] eqn:Ec.
      inversion Hstep; subst ob s'.
      pose proof (close_k _ _ _ _ Hopen Ec Hdb) as H.
      split; [right; exact H | intros _; exact H].
  - destruct Hclosed as [He Hx].
    destruct o as [d|m|]; cbn [wstep wop_data] in *.
    + unfold write in Hstep. rewrite He in Hstep. inversion Hstep; subst ob s'.
      destruct Hob as [Hob|Hob]; cbn in Hob; discriminate.
    + unfold flush in Hstep. rewrite He in Hstep. inversion Hstep; subst ob s'.
      destruct Hob as [Hob|Hob]; cbn in Hob; discriminate.
    + unfold Writer.close in Hstep. rewrite He in Hstep. inversion Hstep; subst ob s'.
      rewrite app_nil_r. split; [right; split; assumption | intros _; split; assumption].
Qed.

Lemma wrun_k ops : forall s data obs s',
  kstate s data -> wrun deflate s ops = (obs, s') -> Forall ob_ok obs ->
  bytes_lt (data ++ wops_data ops) ->
  kstate s' (data ++ wops_data ops).
Proof.
  induction ops as [|o ops IH]; intros s data obs s' Hst Hrun Hobs Hdb.
  - cbn [wrun] in Hrun. inversion Hrun; subst. cbn [wops_data flat_map]. rewrite app_nil_r. exact Hst.
  - cbn [wrun] in Hrun.
    destruct (wstep deflate s o) as [ob s1] eqn:Estep.
    destruct (wrun deflate s1 ops) as [obs1 s2] eqn:Erun.
    inversion Hrun; subst obs s'. clear Hrun.
    inversion Hobs as [|ob' obs' Hob Hobs1]; subst ob' obs'.
    rewrite wops_data_cons, app_assoc. rewrite wops_data_cons, app_assoc in Hdb.
    destruct (wstep_k _ _ _ _ _ Hst Estep Hob (bytes_lt_app_l _ _ Hdb)) as [Hst1 _].
    eapply IH; eassumption.
Qed.

Lemma new_writer_k lvl chunk idx s0 : new_writer lvl chunk idx = inr s0 -> kopen s0 [].
Proof.
  unfold new_writer. intros H.
  destruct (chunk <? 0) eqn:Ec; [discriminate|].
  destruct (level_ok (map_level lvl)) eqn:El; cbn [negb] in H; [|discriminate].
  inversion H; subst s0. clear H.
  exists [], []. unfold kinv. cbn [w_err w_lvl w_nchk w_sink w_ops].
  rewrite (k_nil deflate HK).
  repeat split; try reflexivity; try exact El; try apply bytes_lt_nil.
  apply Z.ltb_ge in Ec. destruct (chunk =? 0) eqn:E0; [unfold DefaultChunkSize; lia|]. apply Z.eqb_neq in E0. lia.
Qed.

Theorem writer_is_deflate lvl chunk idx s0 ops obs s :
  new_writer lvl chunk idx = inr s0 ->
  wrun deflate s0 (ops ++ [WClose]) = (obs, s) ->
  Forall ob_ok obs ->
  bytes_lt (wops_data ops) ->
  inflate (w_sink s) = mkIR None (wops_data ops) (N.of_nat (length (w_sink s))).
Proof.
  intros Hnew Hrun Hobs Hdb.
  rewrite wrun_app in Hrun.
  destruct (wrun deflate s0 ops) as [o1 s1] eqn:E1.
  destruct (wrun deflate s1 [WClose]) as [o2 s2] eqn:E2.
  inversion Hrun; subst obs s. clear Hrun.
  apply Forall_app in Hobs. destruct Hobs as [Hobs1 Hobs2].
  assert (Hst1 : kstate s1 ([] ++ wops_data ops)).
  { eapply wrun_k; [left; eapply new_writer_k; exact Hnew | exact E1 | exact Hobs1 | exact Hdb]. }
  cbn [app] in Hst1.
  cbn [wrun] in E2. destruct (wstep deflate s1 WClose) as [ob s3] eqn:E3.
  inversion E2; subst o2 s2. clear E2.
  inversion Hobs2 as [|ob' obs' Hob _]; subst ob' obs'.
  destruct (wstep_k _ _ _ _ _ Hst1 E3 Hob) as [_ Hcl].
  { cbn [wop_data]. rewrite app_nil_r. exact Hdb. }
  destruct (Hcl eq_refl) as [_ (pre & foot & payload & Hpb & Hnb & Hplb & Hfb & Henc & Hsink)].
  rewrite Hsink.
  pose proof (Hfc payload foot [] Hplb bytes_lt_nil Henc) as Hfoot. rewrite app_nil_r in Hfoot.
  pose proof (Hss pre foot [] (wops_data ops) [] Hpb Hfb bytes_lt_nil Hnb Hfoot) as H.
  rewrite !app_nil_r in H. rewrite H, app_length. reflexivity.
Qed.

End WriterDeflate.
