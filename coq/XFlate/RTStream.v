(* C05/C06: the shape of an XFLATE stream, as a structure shared by the Writer invariant
   (XFlate/RTWriter.v) and the Reader proofs (XFlate/RTReader.v, XFlate/RTDeflate.v).

   A stream is a list of finished SEGMENTS followed by the footer block. A segment is a
   list of chunks followed by its index block; the index payload lists the chunks of the
   segment and the size [back] of the previous segment's index block (0 for the first).
   Segment lists are kept newest first ([rsegs]): the Writer conses, the Reader's backward
   walk recurses on the list. *)
From V Require Import Base.Prelude Base.Prog Meta.Model Flate.Spec
  XFlate.Index XFlate.Writer XFlate.Reader XFlate.Refine XFlate.RefineCheck XFlate.RoundTripStmt
  XFlate.RTIndex.
Local Open Scope Z_scope.

(* a chunk: the bytes the compressor produced, and the data they stand for *)
Definition chunk := (list byte * list byte)%type.

Record seg := mkSeg { sg_chunks : list chunk; sg_idx : list byte }.

Definition chunks_bytes (cs : list chunk) : list byte := flat_map fst cs.
Definition chunks_data (cs : list chunk) : list byte := flat_map snd cs.

Definition chunk_entry (c : chunk) : entry :=
  (Z.of_nat (length (fst c)), Z.of_nat (length (snd c)), deflateType).

Definition recs_of (cs : list chunk) : list record := build 0 0 (map chunk_entry cs).

Definition chunk_wf (c : chunk) : Prop :=
  nonfinal_blocks (fst c) = Some (snd c) /\ is_sync (fst c) = true /\
  (5 <= length (fst c))%nat /\ bytes_lt (fst c).

Definition back_of (rsegs : list seg) : N :=
  match rsegs with [] => 0%N | sg :: _ => N.of_nat (length (sg_idx sg)) end.

Fixpoint rsegs_wf (rsegs : list seg) : Prop :=
  match rsegs with
  | [] => True
  | sg :: older =>
    Forall chunk_wf (sg_chunks sg) /\
    meta_encode (index_payload (back_of older) (recs_of (sg_chunks sg))) FinalMeta = Some (sg_idx sg) /\
    bytes_lt (sg_idx sg) /\
    rsegs_wf older
  end.

Definition seg_bytes (sg : seg) : list byte := chunks_bytes (sg_chunks sg) ++ sg_idx sg.

Fixpoint rsegs_bytes (rsegs : list seg) : list byte :=
  match rsegs with [] => [] | sg :: older => rsegs_bytes older ++ seg_bytes sg end.

Fixpoint rsegs_data (rsegs : list seg) : list byte :=
  match rsegs with [] => [] | sg :: older => rsegs_data older ++ chunks_data (sg_chunks sg) end.

Definition xf_stream (rsegs : list seg) (foot sink data : list byte) : Prop :=
  rsegs_wf rsegs /\
  meta_encode (footer_payload (back_of rsegs)) FinalStream = Some foot /\ bytes_lt foot /\
  sink = rsegs_bytes rsegs ++ foot /\ data = rsegs_data rsegs.

(* ---- sizes ---------------------------------------------------------------------- *)
Lemma chunks_bytes_app a b : chunks_bytes (a ++ b) = chunks_bytes a ++ chunks_bytes b.
Proof. apply flat_map_app. Qed.
Lemma chunks_data_app a b : chunks_data (a ++ b) = chunks_data a ++ chunks_data b.
Proof. apply flat_map_app. Qed.

Lemma tot_c_chunks cs : tot_c (map chunk_entry cs) = Z.of_nat (length (chunks_bytes cs)).
Proof.
  induction cs as [|c cs IH]; cbn [map tot_c fold_right chunks_bytes flat_map]; [reflexivity|].
  fold (tot_c (map chunk_entry cs)) (chunks_bytes cs). rewrite IH, app_length. cbn. lia.
Qed.
Lemma tot_r_chunks cs : tot_r (map chunk_entry cs) = Z.of_nat (length (chunks_data cs)).
Proof.
  induction cs as [|c cs IH]; cbn [map tot_r fold_right chunks_data flat_map]; [reflexivity|].
  fold (tot_r (map chunk_entry cs)) (chunks_data cs). rewrite IH, app_length. cbn. lia.
Qed.

Lemma chunk_entries_ok cs : Forall chunk_wf cs -> Forall chunk_entry_ok (map chunk_entry cs).
Proof.
  intros H. apply Forall_map. eapply Forall_impl; [|exact H].
  intros c [_ [_ [H5 _]]]. unfold chunk_entry_ok, chunk_entry, e_c, e_r, e_t. cbn [fst snd].
  repeat split; lia.
Qed.

Lemma chunks_bytes_lt cs : Forall chunk_wf cs -> bytes_lt (chunks_bytes cs).
Proof.
  induction 1 as [|c cs [_ [_ [_ Hb]]] _ IH]; cbn [chunks_bytes flat_map]; [apply bytes_lt_nil|].
  apply bytes_lt_app; assumption.
Qed.

Lemma rsegs_bytes_lt rsegs : rsegs_wf rsegs -> bytes_lt (rsegs_bytes rsegs).
Proof.
  induction rsegs as [|sg older IH]; cbn [rsegs_wf rsegs_bytes]; [intros _; apply bytes_lt_nil|].
  intros [Hc [_ [Hi Ho]]]. apply bytes_lt_app; [apply IH; exact Ho|].
  apply bytes_lt_app; [apply chunks_bytes_lt; exact Hc | exact Hi].
Qed.

Lemma recs_of_snoc cs c :
  recs_of (cs ++ [c]) = recs_of cs ++
    [mkRec (lastC (recs_of cs) + Z.of_nat (length (fst c)))
           (lastR (recs_of cs) + Z.of_nat (length (snd c))) deflateType].
Proof.
  unfold recs_of. rewrite map_app, build_app. cbn [map build].
  destruct (last_build0 (map chunk_entry cs)) as [-> ->]. reflexivity.
Qed.
