(* xflate/index.go: the record table, and the integer encodings the index
   and footer use (uvarint, little-endian CRC-32). int64 arithmetic that can
   overflow in the Go code is written with explicit wrap-around. *)
From V Require Import Base.Prelude.
Open Scope Z_scope.

Definition wrap64 (z : Z) : Z := (z + 2 ^ 63) mod 2 ^ 64 - 2 ^ 63.
Definition maxInt64 : Z := 2 ^ 63 - 1.

(* record types *)
Definition unknownType : Z := 0.
Definition deflateType : Z := 1.
Definition indexType : Z := 2.
Definition footerType : Z := 3.

Record record := mkRec { CompOffset : Z; RawOffset : Z; RType : Z }.
Definition rec0 : record := mkRec 0 0 0.

Definition last_record (recs : list record) : record := last recs rec0.

(* AppendRecord: None = refused (negative size or overflow) *)
Definition append_record (recs : list record) (compSize rawSize typ : Z) : option (list record) :=
  if (rawSize <? 0) || (compSize <? 0) then None else
  let l := last_record recs in
  let c := wrap64 (CompOffset l + compSize) in
  let r := wrap64 (RawOffset l + rawSize) in
  if (c <? CompOffset l) || (r <? RawOffset l) then None
  else Some (recs ++ [mkRec c r typ]).

(* AppendIndex: atomic append of another index's records (as sizes) *)
Fixpoint append_index_from (recs : list record) (other : list record) (pre : record)
  : option (list record) :=
  match other with
  | [] => Some recs
  | r :: rest =>
    match append_record recs (CompOffset r - CompOffset pre) (RawOffset r - RawOffset pre) (RType r) with
    | None => None
    | Some recs' => append_index_from recs' rest r
    end
  end.
Definition append_index (recs other : list record) : option (list record) :=
  append_index_from recs other rec0.

Definition nth_rec (recs : list record) (i : Z) : record :=
  if i <? 0 then rec0 else nth (Z.to_nat i) recs rec0.
Definition zlen {A} (l : list A) : Z := Z.of_nat (length l).

(* Search: binary search exactly as written (fuel = bits of the length) *)
Fixpoint search_loop (fuel : nat) (recs : list record) (offset imin imax : Z) : Z :=
  match fuel with
  | O => -1
  | S f =>
    if imax <? imin then -1 else
    let imid := (imin + imax) / 2 in
    let gteCurr := RawOffset (nth_rec recs imid) <=? offset in
    let ltNext := (zlen recs <=? imid + 1) || (offset <? RawOffset (nth_rec recs (imid + 1))) in
    if gteCurr && ltNext then imid
    else if gteCurr then search_loop f recs offset (imid + 1) imax
    else search_loop f recs offset imin (imid - 1)
  end.
Definition search (recs : list record) (offset : Z) : Z :=
  search_loop (S (length recs)) recs offset 0 (zlen recs - 1) + 1.

(* GetRecords *)
Definition get_records (recs : list record) (i : Z) : record * record :=
  let n := zlen recs in
  let i := if n <? i then n else i in
  let prev := if (0 <=? i - 1) && (i - 1 <? n) then nth_rec recs (i - 1) else rec0 in
  let curr := if (0 <=? i) && (i <? n) then nth_rec recs i
              else mkRec (CompOffset prev) (RawOffset prev) unknownType in
  (prev, curr).

(* ---- uvarint --------------------------------------------------------- *)
Close Scope Z_scope.
Open Scope N_scope.

Fixpoint put_uvarint_fuel (fuel : nat) (x : N) : list byte :=
  match fuel with
  | O => []
  | S f => if x <? 128 then [x] else (128 + x mod 128) :: put_uvarint_fuel f (x / 128)
  end.
Definition put_uvarint (x : N) : list byte := put_uvarint_fuel 10 x.

(* binary.Uvarint: (value, n) with n > 0 bytes read; n = 0 buffer too small;
   n < 0 overflow *)
Fixpoint uvarint_loop (buf : list byte) (i : nat) (x s : N) : N * Z :=
  match buf with
  | [] => (0, 0%Z)
  | b :: r =>
    if Nat.eqb i 10 then (0, (- (Z.of_nat i + 1))%Z) else
    if b <? 128 then
      if Nat.eqb i 9 && (1 <? b) then (0, (- (Z.of_nat i + 1))%Z)
      else (N.lor x (N.shiftl b s), (Z.of_nat i + 1)%Z)
    else uvarint_loop r (S i) (N.lor x (N.shiftl (b mod 128) s)) (s + 7)
  end.
Definition uvarint (buf : list byte) : N * Z := uvarint_loop buf 0 0 0.

(* ---- CRC-32 (IEEE, reflected), bitwise --------------------------------- *)
Definition crc_poly : N := 0xEDB88320.
Fixpoint crc_bits (n : nat) (c : N) : N :=
  match n with
  | O => c
  | S n' => crc_bits n' (if N.odd c then N.lxor (N.shiftr c 1) crc_poly else N.shiftr c 1)
  end.
Definition crc_byte (c : N) (b : byte) : N := crc_bits 8 (N.lxor c b).
Definition crc32 (l : list byte) : N :=
  N.lxor (fold_left crc_byte l 0xFFFFFFFF) 0xFFFFFFFF.

Definition le32 (x : N) : list byte :=
  [x mod 256; (x / 256) mod 256; (x / 65536) mod 256; (x / 16777216) mod 256].
Definition le32_dec (l : list byte) : N :=
  match l with
  | [a; b; c; d] => a + 256 * b + 65536 * c + 16777216 * d
  | _ => 0
  end.
