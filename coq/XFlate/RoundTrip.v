(* C05 / C06: the XFLATE round trip, from the statements of XFlate/RoundTripStmt.v.

   xflate_roundtrip_from_parts : the parts -> xflate_roundtrip_stmt
   xflate_is_deflate_from_parts : the parts -> xflate_is_deflate_stmt

   The proofs are in XFlate/RTIndex.v (index payload round trip), XFlate/RTWriter.v (Writer
   invariant: the sink is a list of segments), XFlate/RTTable.v + XFlate/RTReader.v (the
   Reader opens such a stream with an honest table), XFlate/RTDeflate.v (the sink is a
   sequence of non-final DEFLATE blocks followed by the footer). *)
From V Require Import Base.Prelude Base.Prog Meta.Model Flate.Spec
  XFlate.Index XFlate.Writer XFlate.Reader XFlate.Refine XFlate.RefineCheck XFlate.RoundTripStmt
  XFlate.RTIndex XFlate.RTStream XFlate.RTWriter XFlate.RTTable XFlate.RTReader XFlate.RTDeflate
  XFlate.Witness.
Local Open Scope Z_scope.

(* C05 from the parts it needs *)
Theorem xflate_roundtrip_from_needed_parts :
  meta_encode_total_stmt -> meta_stream_roundtrip_stmt ->
  meta_block_bytes_size_stmt -> reverse_search_finds_block_stmt ->
  meta_nonfinal_blocks_stmt -> meta_footer_chunk_stmt ->
  scan_endblock_stmt ->
  xflate_roundtrip_stmt.
Proof.
  intros Htot Hrt Hsz Hrs Hnf Hfc Hse.
  intros deflate HK lvl chunk idx s0 ops obs s Hnew Hrun Hobs _ Hbytes Hlen Hdlen.
  assert (H40 : 2 ^ 40 < 2 ^ 62) by reflexivity.
  destruct (writer_stream deflate HK Htot lvl chunk idx s0 ops obs s Hnew Hrun Hobs) as (rsegs & foot & Hx).
  - lia.
  - exact Hdlen.
  - exact Hbytes.
  - eapply (reader_honest Hrt Hsz Hrs Hnf Hfc Hse); eassumption.
Qed.

Theorem xflate_roundtrip_from_parts :
  meta_encode_total_stmt -> meta_stream_roundtrip_stmt -> meta_small_single_block_stmt ->
  meta_block_bytes_size_stmt -> reverse_search_finds_block_stmt ->
  meta_nonfinal_blocks_stmt -> meta_footer_chunk_stmt ->
  scan_app_stmt -> scan_then_stream_stmt -> scan_endblock_stmt ->
  xflate_roundtrip_stmt.
Proof.
  intros Htot Hrt _ Hsz Hrs Hnf Hfc _ _ Hse.
  apply xflate_roundtrip_from_needed_parts; assumption.
Qed.

(* C06 from the parts it needs *)
Theorem xflate_is_deflate_from_parts :
  meta_encode_total_stmt -> meta_nonfinal_blocks_stmt -> meta_footer_chunk_stmt ->
  scan_app_stmt -> scan_then_stream_stmt ->
  xflate_is_deflate_stmt.
Proof.
  intros Htot Hnf Hfc Hsa Hss.
  intros deflate HK lvl chunk idx s0 ops obs s Hnew Hrun Hobs _ Hbytes.
  eapply (writer_is_deflate deflate HK Htot Hnf Hfc Hsa Hss); eassumption.
Qed.

(* ---- non-vacuity -------------------------------------------------------------------------- *)
(* The witness stream (written by the real xflate.Writer: level 6, chunk size 16, 40 bytes)
   has the shape [xf_stream]: one segment with three chunks and its index, then the footer.
   So the hypothesis of [reader_honest] is met by a real stream (and its conclusion is
   [w_stream_honest] of XFlate/RefineCheck.v). *)
Definition w_chunk (off n : N) (roff rn : N) : chunk := (slice w_stream off n, slice w_plain roff rn).
Definition w_seg : seg :=
  mkSeg [w_chunk 0 22 0 16; w_chunk 22 22 16 16; w_chunk 44 14 32 8] (slice w_stream 58 30).
Definition w_foot : list byte := slice w_stream 88 18.

Lemma bytes_lt_dec l : forallb (fun b => b <? 256)%N l = true -> bytes_lt l.
Proof.
  intros H b Hb. rewrite forallb_forall in H. apply N.ltb_lt. apply H. exact Hb.
Qed.

Example w_stream_shape : xf_stream [w_seg] w_foot w_stream w_plain.
Proof.
  assert (Hc : forall c, (nonfinal_blocks (fst c) = Some (snd c)) -> is_sync (fst c) = true ->
                         (5 <=? length (fst c))%nat = true ->
                         forallb (fun b => b <? 256)%N (fst c) = true -> chunk_wf c).
  { intros c H1 H2 H3 H4. unfold chunk_wf. split; [exact H1|]. split; [exact H2|].
    split; [apply Nat.leb_le; exact H3 | apply bytes_lt_dec; exact H4]. }
  unfold xf_stream. split; [|split; [|split; [|split]]].
  - cbn [rsegs_wf w_seg sg_chunks sg_idx]. split; [|split; [|split; [|exact I]]].
    + apply Forall_cons; [apply Hc; vm_compute; reflexivity|].
      apply Forall_cons; [apply Hc; vm_compute; reflexivity|].
      apply Forall_cons; [apply Hc; vm_compute; reflexivity|].
      apply Forall_nil.
    + vm_compute. reflexivity.
    + apply bytes_lt_dec. vm_compute. reflexivity.
  - vm_compute. reflexivity.
  - apply bytes_lt_dec. vm_compute. reflexivity.
  - vm_compute. reflexivity.
  - vm_compute. reflexivity.
Qed.

(* The Writer model itself produces that stream: with a compressor that answers as the real
   library did on these three chunks (a lookup table; nothing is claimed about it beyond
   this run), NewWriter(level 6, chunk 16) / Write(40 bytes) / Close yields exactly
   [w_stream], every call succeeding. The hypotheses of the two targets other than K1 are
   therefore jointly satisfiable. K1 itself is a contract on Go's compress/flate; exhibiting
   a Coq function that satisfies it needs a verified compressor and is not attempted here
   (the harness evaluates [nonfinal_blocks], [is_sync] and the length bound on every chunk
   the real library produces). *)
Definition cops_eqb (a b : list cop) : bool :=
  list_eqb (fun x y => match x, y with
                       | CW d, CW e => list_eqb N.eqb d e
                       | CF, CF => true
                       | _, _ => false end) a b.

Definition table_deflate (lvl : Z) (ops : list cop) : list byte :=
  if cops_eqb ops [CW (slice w_plain 0 16); CF] then slice w_stream 0 22
  else if cops_eqb ops [CW (slice w_plain 16 16); CF] then slice w_stream 22 22
  else if cops_eqb ops [CW (slice w_plain 32 8); CF] then slice w_stream 44 14
  else [].

Example writer_witness :
  match new_writer 6 16 0 with
  | inr s0 =>
    let '(obs, s) := wrun table_deflate s0 ([WWrite w_plain] ++ [WClose]) in
    obs = [(40%N, None); (0%N, None)] /\ w_sink s = w_stream /\
    wops_data [WWrite w_plain] = w_plain
  | inl _ => False
  end.
Proof. vm_compute. repeat split; reflexivity. Qed.

Print Assumptions xflate_roundtrip_from_parts.
Print Assumptions xflate_roundtrip_from_needed_parts.
Print Assumptions xflate_is_deflate_from_parts.
Print Assumptions w_stream_shape.
