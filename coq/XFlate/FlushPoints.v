(* C12: flushed data survives truncation; a truncated XFLATE stream is never misread.

   Part A (plain DEFLATE, RFC 1951 model [inflate]):
     inflate_cut                 every proper cut of a stream that [inflate] consumes to its
                                 last byte ends in exactly EUEOF with a prefix of the output
     inflate_ueof_ext            what a starved decoder has delivered stays a prefix of what
                                 it delivers on any extension of its input
     nonfinal_blocks_inflate     a sequence of complete non-final blocks, given to [inflate],
                                 delivers ALL its data and then reports EUEOF
   Part B (xflate.Writer over a compressor with contract K1):
     flush_ok_blocks             right after a successful Flush (Sync / Full / Index) the sink
                                 is a sequence of complete non-final blocks for all data written
     cut_never_misread           every proper cut of a finished stream: EUEOF + a prefix
     flush_point_recoverable     the sink at a flush point decodes to exactly the data written
                                 before it; it stays a prefix of the sink for ever; every longer
                                 cut of every continuation (and every extension by arbitrary
                                 bytes) still delivers all of that data
     cut_between_flush_and_close both together for a finished stream. *)
From V Require Import Base.Prelude Base.Prog Base.ProgThms Base.FuelThms Base.DepthThms
  Meta.Model Flate.Spec Flate.Thms Flate.Fuel Flate.Depth
  XFlate.Index XFlate.Writer XFlate.Reader XFlate.Refine XFlate.RefineCheck XFlate.RoundTripStmt
  Meta.Stream Meta.DeflateStream Flate.Compose
  XFlate.RTIndex XFlate.RTStream XFlate.RTWriter XFlate.RTDeflate XFlate.Mono
  XFlate.Witness XFlate.RoundTrip XFlate.RoundTripAll.
From Coq Require Import ZifyBool ZifyN ZifyNat.

(* ==== Part A: the DEFLATE decoder model on cuts and on unfinished streams ============== *)

(* [inflate] at any sufficient depth *)
Lemma inflate_at_depth input d :
  (depth_for (length input) <= d)%nat ->
  inflate input =
  mkIR (res_err (inflate_d d input)) (res_out (inflate_d d input))
       ((res_pos (inflate_d d input) + 7) / 8).
Proof.
  intros Hd. unfold inflate.
  rewrite <- (inflate_any_depth input d Hd). reflexivity.
Qed.

(* a stream that is consumed to its last byte without running dry: every proper cut is
   reported as exactly EUEOF and what was delivered is a prefix of the full output *)
Theorem inflate_cut input e out k :
  inflate input = mkIR e out (N.of_nat (length input)) -> e <> Some EUEOF ->
  (k < length input)%nat ->
  ir_err (inflate (firstn k input)) = Some EUEOF /\
  prefix_of (ir_out (inflate (firstn k input))) out.
Proof.
  intros Hin Hne Hk.
  set (D := depth_for (length input)).
  set (cut := firstn k input).
  assert (Hlen : length cut = k) by (apply firstn_length_le; lia).
  assert (Hd : (depth_for (length cut) <= D)%nat) by (apply depth_for_mono; lia).
  rewrite (inflate_at_depth cut D Hd). cbn [ir_err ir_out].
  rewrite (inflate_at_depth input D (le_n _)) in Hin.
  injection Hin as He Ho Hu.
  rewrite <- Ho.
  apply (inflate_truncated D input cut (skipn k input)).
  - symmetry. apply firstn_skipn.
  - rewrite He. exact Hne.
  - rewrite Hlen. lia.
Qed.

(* a decoder that ran out of input has delivered a prefix of what it delivers on any
   extension of that input *)
Theorem inflate_ueof_ext c t :
  ir_err (inflate c) = Some EUEOF ->
  prefix_of (ir_out (inflate c)) (ir_out (inflate (c ++ t))).
Proof.
  intros He.
  set (D := depth_for (length (c ++ t))).
  assert (Hd : (depth_for (length c) <= D)%nat) by (apply depth_for_mono; rewrite app_length; lia).
  rewrite (inflate_at_depth c D Hd) in *. rewrite (inflate_at_depth (c ++ t) D (le_n _)).
  cbn [ir_err ir_out] in *.
  unfold inflate_d, decode in *. rewrite bits_of_app.
  change (ast_init (bits_of bits_lsb c ++ bits_of bits_lsb t))
    with (ProgThms.ext (ast_init (bits_of bits_lsb c)) (bits_of bits_lsb t)).
  destruct (run_extend_ueof (inflate_prog D) (ast_init (bits_of bits_lsb c)) (bits_of bits_lsb t)
              (inflate_eof_free D) He) as [o Ho].
  unfold res_out. rewrite !fast_rev_eq, Ho, rev_app_distr. apply prefix_of_app.
Qed.

(* a sequence of complete non-final blocks is an UNFINISHED stream: the decoder delivers
   all its data, has consumed every byte, and asks for more *)
Theorem nonfinal_blocks_inflate c d :
  nonfinal_blocks c = Some d -> inflate c = mkIR (Some EUEOF) d (N.of_nat (length c)).
Proof.
  intros H. destruct (nonfinal_blocks_elim c d H) as [s [Ss [Is [Ps [Ws Os]]]]].
  set (D := depth_for (length c)) in *.
  assert (E : run (inflate_prog D) (ast_init (bytes_to_bits c)) = Fail EUEOF s).
  { unfold inflate_prog. apply loops_loop.
    - apply (nf_steps_loops D _ s); [exact Ss|]. apply loops_fail.
      unfold stream_body, one_block. rewrite !run_bind.
      change (rbits 1) with (bits_lsbf 1). cbn [bits_lsbf run]. rewrite Is. reflexivity.
    - apply inflate_prog_not_efuel. apply depth_for_enough_init. apply le_n. }
  unfold inflate. fold D. rewrite E. unfold res_err, res_out, res_pos, res_state.
  f_equal.
  - rewrite fast_rev_eq. exact Os.
  - rewrite Ps. lia.
Qed.

Corollary nonfinal_blocks_inflate_ext c d t :
  nonfinal_blocks c = Some d -> prefix_of d (ir_out (inflate (c ++ t))).
Proof.
  intros H. pose proof (nonfinal_blocks_inflate c d H) as Hc.
  pose proof (inflate_ueof_ext c t) as He. rewrite Hc in He. cbn [ir_err ir_out] in He.
  apply He. reflexivity.
Qed.

(* non-vacuity (Flate/Compose.v: [nfx] = a non-final fixed block "aa"+copy 8, then an empty
   non-final stored block; [nst] = a non-final stored block with one byte) *)
Example nonfinal_blocks_inflate_ex :
  nonfinal_blocks (nfx ++ nst) = Some [97;97;97;97;97;97;97;97;97;97;65] /\
  inflate (nfx ++ nst) = mkIR (Some EUEOF) [97;97;97;97;97;97;97;97;97;97;65] 16.
Proof. vm_compute. split; reflexivity. Qed.

Example inflate_cut_ex :
  inflate [75;76;132;1;0] = mkIR None [97;97;97;97;97;97;97;97;97;97] (N.of_nat (length [75;76;132;1;0])) /\
  inflate (firstn 3 [75;76;132;1;0]) = mkIR (Some EUEOF) [97;97] 3.
Proof. vm_compute. split; reflexivity. Qed.

(* ==== Part B: the Writer ============================================================= *)

Lemma wrun_obs_length deflate ops : forall s, length (fst (wrun deflate s ops)) = length ops.
Proof.
  induction ops as [|o ops IH]; intros s; cbn [wrun]; [reflexivity|].
  destruct (wstep deflate s o) as [ob s1]. specialize (IH s1).
  destruct (wrun deflate s1 ops) as [obs s2]. cbn [fst length] in *. rewrite IH. reflexivity.
Qed.

Section FlushPoints.
Variable deflate : Z -> list cop -> list byte.
Hypothesis HK : K1 deflate.

Let Htot := meta_encode_total.
Let Hnf := meta_nonfinal_blocks.
Let Hsa := scan_app.

(* the sink of an open Writer consists of bytes *)
Lemma kinv_sink_bytes pre dpre s data : kinv deflate pre dpre s data -> bytes_lt (w_sink s).
Proof.
  intros (_ & _ & _ & Hb & _ & Hs & _). rewrite Hs. apply bytes_lt_app; [exact Hb|].
  intros b Hin. eapply (k_bytes deflate HK). exact Hin.
Qed.

(* THE FLUSH-POINT INVARIANT: when Flush (any of the three modes) has reported success, the
   sink is a sequence of complete non-final DEFLATE blocks whose content is all data written
   so far - nothing is held back in the compressor, nothing is half-written *)
Lemma flush_ok_blocks s m data s' :
  kopen deflate s data -> bytes_lt data -> flush deflate s m = (None, s') ->
  kopen deflate s' data /\ bytes_lt (w_sink s') /\ nonfinal_blocks (w_sink s') = Some data.
Proof.
  intros Hopen Hdb Hf.
  assert (Hopen' : kopen deflate s' data) by (exact (flush_k deflate HK Htot Hnf Hsa _ _ _ _ _ Hopen Hf Hdb)).
  split; [exact Hopen'|].
  split; [destruct Hopen' as (p' & d' & Hi'); exact (kinv_sink_bytes _ _ _ _ Hi')|].
  destruct Hopen as (pre & dpre & Hinv). unfold flush in Hf.
  assert (He : w_err s = None) by exact (proj1 Hinv). rewrite He in Hf.
  destruct m; inversion Hf as [[Herr Hs']]; clear Hf.
  - (* FlushSync: the compressor's output for the open chunk ends in a sync marker *)
    pose proof (zw_call_k deflate HK _ _ _ _ CF Hinv) as H1.
    cbn [cop_data] in H1. rewrite app_nil_r in H1. unfold flush_sync in *.
    destruct Hinv as (_ & Hl & _ & Hb & Hnb & _ & Hd).
    destruct H1 as (_ & _ & _ & _ & _ & Hs1 & _).
    rewrite Hs1. cbn [zw_call w_lvl w_ops].
    assert (Hrb : bytes_lt (cops_data (w_ops s))).
    { intros b Hin. apply Hdb. rewrite Hd. apply in_or_app. right. exact Hin. }
    destruct (k_chunk deflate HK (w_lvl s) (w_ops s) Hl Hrb) as [Ha _].
    rewrite Hd. apply Hsa; [exact Hb | | exact Hnb | exact Ha].
    intros b Hin. eapply (k_bytes deflate HK). exact Hin.
  - (* FlushFull: the chunk is recorded, the compressor reset *)
    destruct (flush_full_k deflate HK Htot Hnf Hsa _ _ _ _ Hinv Hdb) as (pre' & dpre' & Hinv' & Hops').
    destruct Hinv' as (_ & _ & _ & _ & Hnb' & Hs1 & Hd').
    rewrite Hs1, Hops', (k_nil deflate HK), app_nil_r.
    rewrite Hops' in Hd'. cbn [cops_data flat_map] in Hd'. rewrite app_nil_r in Hd'.
    rewrite Hd'. exact Hnb'.
  - (* FlushIndex: additionally the index block (an empty non-final block sequence) *)
    destruct (flush_index_k deflate HK Htot Hnf Hsa _ _ _ _ Hinv Hdb) as (pre' & dpre' & Hinv' & Hz1 & Hz2).
    destruct Hinv' as (_ & _ & _ & _ & Hnb' & Hs1 & Hd').
    rewrite Hs1, Hz1, app_nil_r. rewrite Hz2, app_nil_r in Hd'. rewrite Hd'. exact Hnb'.
Qed.

(* a Flush that reports success was called on an open Writer (a closed one answers
   ErrClosed) with a valid mode (an invalid one answers ErrInvalid) *)
Lemma flush_ok_open s m data s' :
  kstate deflate s data -> flush deflate s m = (None, s') -> kopen deflate s data /\ m <> FlushInvalid.
Proof.
  intros [Ho|[Hc _]] Hf.
  - split; [exact Ho|]. intros ->. unfold flush in Hf.
    destruct (w_err s); inversion Hf.
  - unfold flush in Hf. rewrite Hc in Hf. inversion Hf.
Qed.

(* the sink right after the successful Flush that ends [ops1 ++ [WFlush m]] *)
Theorem flush_point_blocks lvl chunk idx s0 ops1 m obs1 s1 :
  new_writer lvl chunk idx = inr s0 ->
  wrun deflate s0 (ops1 ++ [WFlush m]) = (obs1, s1) ->
  Forall ob_ok obs1 -> snd (last obs1 (0, None)) = None ->
  bytes_lt (wops_data ops1) ->
  m <> FlushInvalid /\ kopen deflate s1 (wops_data ops1) /\
  bytes_lt (w_sink s1) /\ nonfinal_blocks (w_sink s1) = Some (wops_data ops1).
Proof.
  intros Hnew Hrun Hobs Hlast Hdb.
  rewrite wrun_app in Hrun.
  destruct (wrun deflate s0 ops1) as [o1 sa] eqn:E1.
  destruct (wrun deflate sa [WFlush m]) as [o2 sb] eqn:E2.
  inversion Hrun; subst obs1 s1. clear Hrun.
  apply Forall_app in Hobs. destruct Hobs as [Hobs1 _].
  assert (Hst : kstate deflate sa ([] ++ wops_data ops1)).
  { eapply (wrun_k deflate HK Htot Hnf Hsa);
      [left; eapply (new_writer_k deflate HK); exact Hnew | exact E1 | exact Hobs1 | exact Hdb]. }
  cbn [app] in Hst.
  cbn [wrun wstep] in E2. destruct (flush deflate sa m) as [e s'] eqn:Ef.
  inversion E2; subst o2 sb. clear E2.
  rewrite last_last in Hlast. cbn [snd] in Hlast. subst e.
  destruct (flush_ok_open _ _ _ _ Hst Ef) as [Hopen Hm].
  split; [exact Hm|]. exact (flush_ok_blocks _ _ _ _ Hopen Hdb Ef).
Qed.

End FlushPoints.

(* ---- 1. a truncated stream is never misread ------------------------------------------- *)
(* hypotheses exactly those of [xflate_is_deflate_stmt]: any compressor with K1, any accepted
   configuration, any history of Write / Flush ending in Close in which every call succeeds
   (invalid Flush modes are refused without effect). A DEFLATE decoder given ANY proper cut
   of the bytes the Writer produced never reports success, never reports corruption, and
   never delivers a byte that was not written at that place. *)
Theorem cut_never_misread :
  forall deflate, K1 deflate ->
  forall lvl chunk idx s0 ops obs s,
    new_writer lvl chunk idx = inr s0 ->
    wrun deflate s0 (ops ++ [WClose]) = (obs, s) ->
    Forall (fun ob => snd ob = None \/ snd ob = Some EInvalid) obs ->
    snd (last obs (0, None)) = None ->
    (forall b, In b (wops_data ops) -> b < 256) ->
    forall k, (k < length (w_sink s))%nat ->
      ir_err (inflate (firstn k (w_sink s))) = Some EUEOF /\
      prefix_of (ir_out (inflate (firstn k (w_sink s)))) (wops_data ops).
Proof.
  intros deflate HK lvl chunk idx s0 ops obs s Hnew Hrun Hobs Hlast Hb k Hk.
  pose proof (xflate_is_deflate deflate HK lvl chunk idx s0 ops obs s Hnew Hrun Hobs Hlast Hb) as H.
  apply (inflate_cut (w_sink s) None (wops_data ops) k H); [discriminate | exact Hk].
Qed.

(* ---- 2. flushed data survives truncation ----------------------------------------------- *)
(* [ops1 ++ [WFlush m]] with every call succeeding (so m is one of the three valid modes);
   s1 = the Writer right after that Flush, p = the number of bytes it has handed out.
   (a) those p bytes, given to a DEFLATE decoder, deliver EXACTLY the data written before
       the Flush, are consumed completely, and the decoder asks for more (EUEOF);
   (b) the same p bytes followed by anything whatsoever deliver at least that data;
   (c) whatever is called afterwards ([ops2]: successful or failing calls, with or without
       Close), the first p bytes of the sink never change, and every cut of the later sink
       at or behind p delivers at least the data written before the Flush. *)
Theorem flush_point_recoverable :
  forall deflate, K1 deflate ->
  forall lvl chunk idx s0 ops1 m obs1 s1,
    new_writer lvl chunk idx = inr s0 ->
    wrun deflate s0 (ops1 ++ [WFlush m]) = (obs1, s1) ->
    Forall (fun ob => snd ob = None \/ snd ob = Some EInvalid) obs1 ->
    snd (last obs1 (0, None)) = None ->
    (forall b, In b (wops_data ops1) -> b < 256) ->
    let p := length (w_sink s1) in
    inflate (w_sink s1) = mkIR (Some EUEOF) (wops_data ops1) (N.of_nat p) /\
    (forall t, prefix_of (wops_data ops1) (ir_out (inflate (w_sink s1 ++ t)))) /\
    (forall ops2,
       let s2 := snd (wrun deflate s0 (ops1 ++ [WFlush m] ++ ops2)) in
       firstn p (w_sink s2) = w_sink s1 /\
       inflate (firstn p (w_sink s2)) = mkIR (Some EUEOF) (wops_data ops1) (N.of_nat p) /\
       forall k, (p <= k)%nat ->
         prefix_of (wops_data ops1) (ir_out (inflate (firstn k (w_sink s2))))).
Proof.
  intros deflate HK lvl chunk idx s0 ops1 m obs1 s1 Hnew Hrun Hobs Hlast Hb p.
  destruct (flush_point_blocks deflate HK lvl chunk idx s0 ops1 m obs1 s1 Hnew Hrun Hobs Hlast Hb)
    as (_ & _ & _ & Hnb).
  pose proof (nonfinal_blocks_inflate _ _ Hnb) as Ha.
  pose proof (fun t => nonfinal_blocks_inflate_ext _ _ t Hnb) as Hext.
  split; [exact Ha|]. split; [exact Hext|].
  intros ops2 s2.
  destruct (sink_at_any_moment_is_a_cut deflate (ops1 ++ [WFlush m]) ops2 s0) as [extra Hcut].
  rewrite <- app_assoc, Hrun in Hcut. cbn [snd] in Hcut. fold s2 in Hcut.
  assert (Hp : firstn p (w_sink s2) = w_sink s1).
  { rewrite Hcut, firstn_app. unfold p. rewrite firstn_all, Nat.sub_diag. cbn [firstn].
    apply app_nil_r. }
  split; [exact Hp|]. split; [rewrite Hp; exact Ha|].
  intros k Hk. rewrite Hcut, firstn_app.
  rewrite (firstn_all2 (n := k) (w_sink s1)) by (fold p; lia).
  apply Hext.
Qed.

(* ---- both, for a finished stream ---------------------------------------------------------- *)
(* a successful history with a Flush somewhere in the middle, finished by Close: every cut
   of the final stream at or behind the flush point decodes (EUEOF) to something between
   "everything written before the Flush" and "everything written" *)
Theorem cut_between_flush_and_close :
  forall deflate, K1 deflate ->
  forall lvl chunk idx s0 ops1 m ops2 obs s,
    new_writer lvl chunk idx = inr s0 ->
    wrun deflate s0 (ops1 ++ [WFlush m] ++ ops2 ++ [WClose]) = (obs, s) ->
    Forall (fun ob => snd ob = None \/ snd ob = Some EInvalid) obs ->
    snd (nth (length ops1) obs (0, Some EInvalid)) = None ->    (* the Flush succeeded *)
    snd (last obs (0, None)) = None ->
    (forall b, In b (wops_data (ops1 ++ ops2)) -> b < 256) ->
    let p := length (w_sink (snd (wrun deflate s0 (ops1 ++ [WFlush m])))) in
    (p <= length (w_sink s))%nat /\
    forall k, (p <= k < length (w_sink s))%nat ->
      let r := inflate (firstn k (w_sink s)) in
      ir_err r = Some EUEOF /\
      prefix_of (wops_data ops1) (ir_out r) /\
      prefix_of (ir_out r) (wops_data (ops1 ++ ops2)).
Proof.
  intros deflate HK lvl chunk idx s0 ops1 m ops2 obs s Hnew Hrun Hobs Hfl Hlast Hb p.
  assert (Hdata : wops_data ((ops1 ++ [WFlush m] ++ ops2)) = wops_data (ops1 ++ ops2)).
  { rewrite !wops_data_app. cbn [wops_data flat_map app]. reflexivity. }
  (* the run up to the Flush *)
  destruct (wrun deflate s0 (ops1 ++ [WFlush m])) as [obs1 s1] eqn:E1. cbn [snd] in p.
  assert (Hsplit : exists obs2, obs = obs1 ++ obs2 /\ length obs1 = S (length ops1)).
  { pose proof (wrun_app deflate (ops1 ++ [WFlush m]) s0 (ops2 ++ [WClose])) as Ha.
    rewrite <- app_assoc, Hrun, E1 in Ha.
    destruct (wrun deflate s1 (ops2 ++ [WClose])) as [obs2 s2].
    inversion Ha; subst obs s. exists obs2. split; [reflexivity|].
    pose proof (wrun_obs_length deflate (ops1 ++ [WFlush m]) s0) as Hl. rewrite E1 in Hl.
    cbn [fst] in Hl. rewrite Hl, app_length. cbn [length]. lia. }
  destruct Hsplit as (obs2 & -> & Hl1).
  assert (Hobs1 : Forall ob_ok obs1) by (apply Forall_app in Hobs; exact (proj1 Hobs)).
  assert (Hlast1 : snd (last obs1 (0, None)) = None).
  { rewrite app_nth1 in Hfl by lia.
    destruct obs1 as [|x l] using rev_ind; [cbn [length] in Hl1; lia|].
    rewrite last_last. rewrite app_length in Hl1. cbn [length] in Hl1.
    rewrite app_nth2 in Hfl by lia. replace (length ops1 - length l)%nat with O in Hfl by lia.
    exact Hfl. }
  assert (Hb1 : forall b, In b (wops_data ops1) -> b < 256).
  { intros b Hin. apply Hb. rewrite wops_data_app. apply in_or_app. left. exact Hin. }
  destruct (flush_point_recoverable deflate HK lvl chunk idx s0 ops1 m obs1 s1 Hnew E1 Hobs1 Hlast1 Hb1)
    as (_ & _ & Hc).
  specialize (Hc (ops2 ++ [WClose])). rewrite Hrun in Hc. cbn [snd] in Hc.
  destruct Hc as (Hp & _ & Hk).
  split.
  { assert (Hpl : length (firstn (length (w_sink s1)) (w_sink s)) = length (w_sink s1))
      by (rewrite Hp; reflexivity).
    rewrite firstn_length in Hpl. unfold p. lia. }
  intros k [Hk1 Hk2] r.
  assert (Hrun' : wrun deflate s0 ((ops1 ++ [WFlush m] ++ ops2) ++ [WClose]) = (obs1 ++ obs2, s))
    by (rewrite <- !app_assoc; exact Hrun).
  rewrite <- Hdata in Hb.
  destruct (cut_never_misread deflate HK lvl chunk idx s0 _ _ s Hnew Hrun' Hobs Hlast Hb k Hk2) as [He Hpre].
  rewrite Hdata in Hpre.
  split; [exact He|]. split; [apply Hk; exact Hk1 | exact Hpre].
Qed.

(* ---- non-vacuity -------------------------------------------------------------------------- *)
(* The compressor of XFlate/RoundTrip.v (answers as the real library did on the three chunks
   of the witness run): Write(40 bytes) / Flush(Full) / Close with level 6, chunk size 16
   yields the witness stream [w_stream] with every call succeeding, the flush point is at
   byte 58 (three chunks; the index and the footer follow), and the conclusions of the three
   theorems are what the model computes: all 106 cuts (k = 0..105) give EUEOF + a prefix, the cut
   at the flush point gives all 40 bytes. (As in XFlate/RoundTrip.v: K1 is a contract on
   Go's compress/flate and is not exhibited by a Coq function here.) *)
Example flush_point_witness :
  match new_writer 6 16 0 with
  | inr s0 =>
    let '(obs1, s1) := wrun table_deflate s0 ([WWrite w_plain] ++ [WFlush FlushFull]) in
    let '(obs, s) := wrun table_deflate s0 ([WWrite w_plain] ++ [WFlush FlushFull] ++ [] ++ [WClose]) in
    obs1 = [(40%N, None); (0%N, None)] /\ obs = [(40%N, None); (0%N, None); (0%N, None)] /\
    w_sink s = w_stream /\ length (w_sink s1) = 58%nat /\ w_sink s1 = firstn 58 w_stream /\
    nonfinal_blocks (w_sink s1) = Some w_plain /\
    inflate (w_sink s1) = mkIR (Some EUEOF) w_plain 58 /\
    forallb (fun k =>
      let r := inflate (firstn k (w_sink s)) in
      match ir_err r with
      | Some EUEOF => list_eqb N.eqb (ir_out r) (firstn (length (ir_out r)) w_plain) &&
                      (Nat.ltb k 58 || list_eqb N.eqb (ir_out r) w_plain)
      | _ => false
      end) (seq 0 (length (w_sink s))) = true
  | inl _ => False
  end.
Proof. vm_compute. repeat split; reflexivity. Qed.

(* a Flush(Sync) in the middle of a chunk: the flush point is inside the chunk (after the
   compressor's sync marker), and the cut there delivers the 16 bytes written *)
Example flush_sync_witness :
  match new_writer 6 16 0 with
  | inr s0 =>
    let '(obs1, s1) := wrun table_deflate s0 ([WWrite (slice w_plain 0 16)] ++ [WFlush FlushSync]) in
    obs1 = [(16%N, None); (0%N, None)] /\ w_sink s1 = firstn 22 w_stream /\
    inflate (w_sink s1) = mkIR (Some EUEOF) (slice w_plain 0 16) 22
  | inl _ => False
  end.
Proof. vm_compute. repeat split; reflexivity. Qed.

Print Assumptions inflate_cut.
Print Assumptions inflate_ueof_ext.
Print Assumptions nonfinal_blocks_inflate.
Print Assumptions flush_point_blocks.
Print Assumptions cut_never_misread.
Print Assumptions flush_point_recoverable.
Print Assumptions cut_between_flush_and_close.
