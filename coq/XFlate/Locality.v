(* C17 over all histories: on an honest stream (XFlate/Refine.v) every access of the
   Reader model to the underlying ReadSeeker is the compressed extent of one index
   record; a Seek touches at most the record holding the target; a Read of n bytes at
   logical position lp opens, in order, only records that start after the current one
   and strictly before lp + n - or exactly at lp + n when the record before it ends there
   and its decompressor returns io.EOF together with its last bytes (Reader.z_joined: the
   Reader then moves on to the next record in the same call). Nothing depends on the size
   of the stream or on the distance of the target from the start. *)
From V Require Import Base.Prelude Base.Prog Meta.Model Flate.Spec
  XFlate.Index XFlate.Search XFlate.Reader XFlate.Refine.
Local Open Scope Z_scope.

Section Locality.
Variables (data : list byte) (T : list record) (content : list byte).
Hypothesis Hh : honest data T content.

Notation L := (Refine.L T).
Notation endp := (Refine.endp T).
Notation pv := (Refine.pv T).
Notation cu := (Refine.cu T).
Notation Cur := (Refine.Cur data T content).
Notation joined := (Refine.joined data T).

(* the compressed extent of record j *)
Definition extent (j : Z) : N * N :=
  (Z.to_N (CompOffset (pv j)), Z.to_N (CompOffset (cu j) - CompOffset (pv j))).

Lemma slow_state_log s pos ri :
  r_recs s = T -> 0 <= ri <= L ->
  r_log (slow_state s pos ri) = r_log s ++ [extent ri].
Proof.
  intros HT Hr. unfold slow_state. rewrite HT, (get_records_eq T ri Hr). reflexivity.
Qed.

(* ---- Seek ------------------------------------------------------------------- *)
Theorem seek_log s pos0 k off wh :
  Cur s pos0 k ->
  r_log (snd (seek s off wh)) = r_log s \/
  exists ri pos, 0 <= ri <= L /\
    RawOffset (pv ri) <= Z.min pos endp <= RawOffset (cu ri) /\
    fst (seek s off wh) = (pos, None) /\
    r_log (snd (seek s off wh)) = r_log s ++ [extent ri].
Proof.
  intros C. rewrite seek_unfold.
  destruct (blocked s); [left; reflexivity|].
  destruct (spos s off wh) as [pos|]; [|left; reflexivity].
  destruct (pos <? 0) eqn:Ep; [left; reflexivity|]. apply Z.ltb_ge in Ep.
  destruct (fast_ok s pos); [left; reflexivity|].
  right. cbn [fst snd].
  assert (Hr : 0 <= r_ri s <= L).
  { rewrite (c_ri _ _ _ _ _ _ C). pose proof (c_k _ _ _ _ _ _ C). pose proof (L_pos data T content Hh). lia. }
  destruct (hint_ri_spec data T content Hh s pos (c_recs _ _ _ _ _ _ C) Hr Ep) as [H1 [H2 _]].
  cbv zeta in *.
  exists (hint_ri s pos), pos. split; [exact H1|]. split; [exact H2|]. split; [reflexivity|].
  apply slow_state_log; [exact (c_recs _ _ _ _ _ _ C) | exact H1].
Qed.

(* ---- Read -------------------------------------------------------------------- *)
Lemma chunk_end_log s pos k :
  Cur s pos k -> r_err s = None -> r_discard s = 0 -> z_rest (r_zr s) = [] ->
  r_log (chunk_end s) = r_log s ++ [extent (Z.min (k + 1) L)].
Proof.
  intros C He Hd Hz.
  destruct (chunk_end_unfold data T content Hh s pos k C He Hd Hz) as [_ [_ Hce]]. cbv zeta in Hce.
  rewrite Hce.
  pose proof (c_k _ _ _ _ _ _ C) as Hk. pose proof (L_pos data T content Hh) as HL.
  assert (Hk' : 0 <= Z.min (k + 1) L <= L) by lia.
  destruct (chk_typ _ =? unknownType); unfold eof_state; cbn [r_log];
    apply slow_state_log; [exact (c_recs _ _ _ _ _ _ C) | exact Hk' | exact (c_recs _ _ _ _ _ _ C) | exact Hk'].
Qed.

(* [extent L] is the empty extent at the end of the last record (the end-of-data sentinel) *)
Definition opened (k lp : Z) (n : N) (e : N * N) : Prop :=
  exists j, (k < j <= L \/ j = L) /\ e = extent j /\
    (RawOffset (pv j) < lp + zN n \/ (RawOffset (pv j) = lp + zN n /\ joined (j - 1) = true)).

Lemma opened_weaken k k' lp lp' n n' e :
  k <= k' -> lp' + zN n' <= lp + zN n -> opened k' lp' n' e -> opened k lp n e.
Proof.
  intros Hk Hl [j [H1 [H2 H3]]]. exists j. split; [lia|]. split; [exact H2|].
  destruct H3 as [H3|[H3 H4]]; [left; lia|].
  destruct (Z.eq_dec (lp' + zN n') (lp + zN n)) as [E|E]; [right; split; [lia | exact H4] | left; lia].
Qed.

Lemma read_loop_log : forall fuel s n acc pos k,
  Cur s pos k -> r_err s = None ->
  exists extra,
    r_log (snd (read_loop fuel s n acc)) = r_log s ++ extra /\
    Forall (opened k (Z.min pos endp) n) extra.
Proof.
  induction fuel as [|f IH]; intros s n acc pos k C He.
  { exists []. cbn [read_loop snd]. rewrite app_nil_r. split; [reflexivity | constructor]. }
  pose proof (c_k _ _ _ _ _ _ C) as Hk. pose proof (c_pos _ _ _ _ _ _ C) as Hp.
  destruct (n =? 0)%N eqn:En.
  { apply N.eqb_eq in En. subst n. rewrite (read_loop_zero f s acc He).
    exists []. cbn [snd]. rewrite app_nil_r. split; [reflexivity | constructor]. }
  apply N.eqb_neq in En.
  destruct (0 <? r_discard s) eqn:Ed.
  - apply Z.ltb_lt in Ed. pose proof (c_disc _ _ _ _ _ _ C) as Hd.
    rewrite (read_loop_discard_step f s n acc He En Ed) by (try exact (c_zend _ _ _ _ _ _ C); lia).
    destruct (IH (discard_state s) n acc pos k (discard_cur data T content Hh s pos k C He Ed) eq_refl)
      as [extra [H1 H2]].
    exists extra. split; [exact H1 | exact H2].
  - apply Z.ltb_ge in Ed. pose proof (c_disc _ _ _ _ _ _ C) as Hd.
    assert (Hd0 : r_discard s = 0) by lia.
    destruct (z_rest (r_zr s)) as [|b rest] eqn:Hz.
    + cbn [read_loop]. rewrite He.
      replace (n =? 0)%N with false by (symmetry; apply N.eqb_neq; exact En).
      replace (0 <? r_discard s) with false by (symmetry; apply Z.ltb_ge; exact Ed).
      rewrite (zr_read_nil _ _ Hz), (c_zend _ _ _ _ _ _ C).
      destruct (chunk_end_spec data T content Hh s pos k C He Hd0 Hz) as [C' [E1 [E2 Hlp]]]. cbv zeta in *.
      pose proof (chunk_end_log s pos k C He Hd0 Hz) as Hlog.
      set (k' := Z.min (k + 1) L) in *.
      assert (Hfirst : opened k (Z.min pos endp) n (extent k')).
      { exists k'. split; [unfold k'; pose proof (L_pos data T content Hh); lia|]. split; [reflexivity|].
        left.
        (* RawOffset (pv k') = RawOffset (cu k) = lp *)
        rewrite Hlp. unfold zN.
        destruct (Z.eq_dec k L) as [->|Hn].
        - replace k' with L by (unfold k'; lia). rewrite (ro_cu_L data T content Hh).
          rewrite (ro_pv T), <- (endp_last data T content Hh). lia.
        - replace k' with (k + 1) by (unfold k'; lia).
          rewrite (pv_succ T k) by lia. lia. }
      destruct (Z.eq_dec k' L) as [Ek|Ek].
      * specialize (E2 Ek).
        exists [extent k']. split.
        -- destruct f as [|f']; cbn [read_loop]; [|rewrite E2]; cbn [snd]; exact Hlog.
        -- constructor; [exact Hfirst | constructor].
      * assert (Hk' : k' < L) by (unfold k' in *; lia).
        specialize (E1 Hk').
        destruct (IH (chunk_end s) n acc pos k' C' E1) as [extra [H1 H2]].
        exists (extent k' :: extra). split.
        -- rewrite H1, Hlog, <- app_assoc. reflexivity.
        -- constructor; [exact Hfirst|].
           eapply Forall_impl; [|exact H2]. intros e. apply opened_weaken; unfold k'; lia.
    + assert (Hne : z_rest (r_zr s) <> []) by (rewrite Hz; discriminate).
      rewrite (read_loop_data_step f s n acc He En Ed Hne). cbv zeta.
      destruct (data_cur data T content Hh s pos k n C He Hd0 Hne) as [C' [Hpe [Hchunk Hpm]]]. cbv zeta in *.
      rewrite <- Hz in *.
      set (chunk := firstn (N.to_nat n) (z_rest (r_zr s))) in *.
      set (m := length chunk) in *.
      assert (Hmn : (m <= N.to_nat n)%nat).
      { unfold m, chunk. rewrite firstn_length. lia. }
      assert (Hm1 : (1 <= m)%nat).
      { unfold m, chunk. rewrite firstn_length, Hz. cbn [length]. lia. }
      destruct (zr_status_now (r_zr (data_state s n))) eqn:Ej.
      * (* the chunk ends in this call: the next record is opened *)
        rewrite (c_zend _ _ _ _ _ _ C).
        pose proof (zr_status_now_nil _ Ej) as Hz'.
        destruct (chunk_end_spec data T content Hh (data_state s n) (pos + Z.of_nat m) k C' eq_refl eq_refl Hz')
          as [C'' [E1 [E2 Hlp]]]. cbv zeta in *.
        pose proof (chunk_end_log (data_state s n) (pos + Z.of_nat m) k C' eq_refl eq_refl Hz') as Hlog.
        change (r_log (data_state s n)) with (r_log s) in Hlog.
        pose proof (c_zlen _ _ _ _ _ _ C) as Hlen.
        assert (Hl : (1 <= length (z_rest (r_zr s)))%nat) by (rewrite Hz; cbn [length]; lia).
        assert (Hkl : k <> L).
        { intros ->. rewrite (cu_L_rsize T) in Hlen. unfold zN in *. lia. }
        replace (Z.min (k + 1) L) with (k + 1) in * by lia.
        assert (Hj : joined k = true).
        { rewrite <- (c_joined _ _ _ _ _ _ C).
          unfold zr_status_now in Ej. apply andb_true_iff in Ej. exact (proj1 Ej). }
        assert (Hfirst : opened k (Z.min pos endp) n (extent (k + 1))).
        { exists (k + 1). split; [lia|]. split; [reflexivity|].
          rewrite (pv_succ T k) by lia. rewrite <- Hlp. rewrite !Z.min_l by lia.
          replace (k + 1 - 1) with k by lia.
          destruct (Z.eq_dec (Z.of_nat m) (zN n)) as [E|E]; [right; split; [lia | exact Hj] | left; unfold zN in *; lia]. }
        destruct (n - N.of_nat m =? 0)%N eqn:En'.
        -- exists [extent (k + 1)]. cbn [snd]. split; [exact Hlog | constructor; [exact Hfirst | constructor]].
        -- destruct (r_err (chunk_end (data_state s n))) as [e|] eqn:Ee.
           ++ exists [extent (k + 1)]. split; [|constructor; [exact Hfirst | constructor]].
              destruct f as [|f']; cbn [read_loop]; [|rewrite Ee]; cbn [snd]; exact Hlog.
           ++ destruct (IH (chunk_end (data_state s n)) (n - N.of_nat m)%N (acc ++ chunk) (pos + Z.of_nat m) (k + 1) C'' Ee)
                as [extra [H1 H2]].
              exists (extent (k + 1) :: extra). split.
              ** rewrite H1, Hlog, <- app_assoc. reflexivity.
              ** constructor; [exact Hfirst|].
                 eapply Forall_impl; [|exact H2]. intros e. apply opened_weaken; [lia|].
                 rewrite !Z.min_l by lia. unfold zN. lia.
      * destruct (IH (data_state s n) (n - N.of_nat m)%N (acc ++ chunk) (pos + Z.of_nat m) k C' eq_refl)
          as [extra [H1 H2]].
        exists extra. split; [exact H1|].
        eapply Forall_impl; [|exact H2]. intros e. apply opened_weaken; [lia|].
        rewrite !Z.min_l by lia. unfold zN. lia.
Qed.

Theorem read_log s n pos k :
  Cur s pos k ->
  exists extra,
    r_log (snd (read s n)) = r_log s ++ extra /\
    Forall (opened k (Z.min pos endp) n) extra.
Proof.
  intros C. destruct (r_err s) as [e|] eqn:Ee.
  - exists []. rewrite (read_sticky' s n e Ee). cbn [snd]. rewrite app_nil_r.
    split; [reflexivity | constructor].
  - unfold read. apply read_loop_log; assumption.
Qed.

(* ---- every history ----------------------------------------------------------------- *)
Definition is_extent (e : N * N) : Prop := exists j, 0 <= j <= L /\ e = extent j.

Lemma step_log s st o :
  Rel data T content s st ->
  exists extra, r_log (snd (rstep s o)) = r_log s ++ extra /\ Forall is_extent extra.
Proof.
  intros [[E1 E2]|[k [C E]]].
  - (* closed: nothing is read *)
    exists []. rewrite app_nil_r. split; [|constructor].
    destruct o as [off wh | n |]; cbn [rstep].
    + rewrite seek_unfold. unfold blocked. rewrite E2. reflexivity.
    + rewrite (read_sticky' s n EClosed E2). reflexivity.
    + unfold close. rewrite E2. reflexivity.
  - pose proof (c_k _ _ _ _ _ _ C) as Hk.
    destruct o as [off wh | n |]; cbn [rstep].
    + destruct (seek s off wh) as [[p e] s'] eqn:Es.
      destruct (seek_log s _ k off wh C) as [H|[ri [pos [H1 [_ [_ H4]]]]]]; rewrite Es in *; cbn [snd] in *.
      * exists []. rewrite app_nil_r. split; [exact H | constructor].
      * exists [extent ri]. split; [exact H4|]. constructor; [|constructor]. exists ri. split; [exact H1 | reflexivity].
    + destruct (read s n) as [[b e] s'] eqn:Er.
      destruct (read_log s n _ k C) as [extra [H1 H2]]. rewrite Er in H1. cbn [snd] in *.
      exists extra. split; [exact H1|].
      eapply Forall_impl; [|exact H2]. intros x [j [Hj [Hx _]]]. exists j. split; [lia | exact Hx].
    + exists []. rewrite app_nil_r. split; [|constructor].
      unfold close. destruct (r_err s) as [[]|]; reflexivity.
Qed.

(* the cursor invariant alone is kept by every call *)
Definition Inv (s : xr) : Prop := r_err s = Some EClosed \/ exists pos k, Cur s pos k.

Lemma rel_inv s st : Rel data T content s st -> Inv s.
Proof. intros [[_ E]|[k [C _]]]; [left; exact E | right; exists (sp_pos st), k; exact C]. Qed.

Lemma step_inv s o : Inv s -> Inv (snd (rstep s o)).
Proof.
  intros [E|[pos [k C]]].
  - (* closed: the state does not change *)
    destruct o as [off wh | n |]; cbn [rstep].
    + rewrite seek_unfold. unfold blocked. rewrite E. left; exact E.
    + rewrite (read_sticky' s n EClosed E). left; exact E.
    + unfold close. rewrite E. left; exact E.
  - assert (R : Rel data T content s (mkSp pos (r_err s))) by (right; exists k; split; [exact C | reflexivity]).
    destruct o as [off wh | n |]; cbn [rstep].
    + destruct (seek_refines data T content Hh s _ off wh R) as [[p e] [s' [st' [H1 [_ H3]]]]].
      rewrite H1. cbn [snd]. exact (rel_inv _ _ H3).
    + destruct (r_err s) as [e|] eqn:Ee.
      * rewrite (read_sticky' s n e Ee). right; exists pos, k; exact C.
      * destruct (n =? 0)%N eqn:En.
        -- apply N.eqb_eq in En. subst n. rewrite read_zero'. right; exists pos, k; exact C.
        -- pose proof (c_k _ _ _ _ _ _ C) as Hk.
           assert (Hf : (2 * Z.to_nat (L - k) + N.to_nat n + (if (0 <? r_discard s)%Z then 1 else 0) + 2
                         <= 2 * length (r_recs s) + N.to_nat n + 8)%nat).
           { rewrite (c_recs _ _ _ _ _ _ C). unfold Refine.L, zlen in *. destruct (0 <? r_discard s); lia. }
           destruct (read_loop_spec data T content Hh _ s n [] pos k C Ee Hf) as [s' [Hrun Hpost]].
           unfold read. rewrite Hrun.
           destruct (N.to_nat n <=? length (avail T content pos))%nat;
             destruct Hpost as [[k' C'] _]; cbn [snd]; right; eexists _, k'; exact C'.
    + destruct (close_refines data T content s _ R) as [e [s' [st' [H1 [_ H3]]]]].
      rewrite H1. cbn [snd]. exact (rel_inv _ _ H3).
Qed.

Lemma step_log_inv s o :
  Inv s ->
  exists extra, r_log (snd (rstep s o)) = r_log s ++ extra /\ Forall is_extent extra.
Proof.
  intros [E|[pos [k C]]].
  - apply (step_log s (mkSp 0 (Some EClosed)) o). left. split; [reflexivity | exact E].
  - apply (step_log s (mkSp pos (r_err s)) o). right. exists k. split; [exact C | reflexivity].
Qed.

Lemma run_log_inv ops : forall s,
  Inv s ->
  exists extra, r_log (snd (rrun s ops)) = r_log s ++ extra /\ Forall is_extent extra.
Proof.
  induction ops as [|o ops IH]; intros s I.
  - exists []. cbn [rrun snd]. rewrite app_nil_r. split; [reflexivity | constructor].
  - cbn [rrun].
    pose proof (step_inv s o I) as I'.
    destruct (step_log_inv s o I) as [e1 [L1 F1]].
    destruct (rstep s o) as [ob s'] eqn:Es. cbn [snd] in *.
    destruct (IH s' I') as [e2 [L2 F2]].
    destruct (rrun s' ops) as [obs s''] eqn:Er. cbn [snd] in *.
    exists (e1 ++ e2). split; [rewrite L2, L1, app_assoc; reflexivity | apply Forall_app; split; assumption].
Qed.

Theorem run_log ops : forall s st,
  Rel data T content s st ->
  exists extra, r_log (snd (rrun s ops)) = r_log s ++ extra /\ Forall is_extent extra.
Proof. intros s st R. exact (run_log_inv ops s (rel_inv s st R)). Qed.
End Locality.
