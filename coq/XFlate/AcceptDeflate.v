(* C15, positive part: what xflate.Reader accepts and the classifier [c15_class] puts in
   class 1 (no data chunk contains a DEFLATE block with BFINAL), a plain RFC 1951 decoder
   reads identically, to the last byte.

   Part 0: a run that leaves the appended bits untouched is a run on the shorter input
           ([run_cut], the converse of Base/ProgThms.run_extend).
   Part 1: data chunks: a chunk the Reader's decompressor reads without error over
           [chunk ++ endBlock] and in which [chunk_has_final] finds no final block is a
           sequence of complete non-final blocks ([chunk_nonfinal]); no block can straddle
           the chunk end ([endblock_tail]).
   Part 2: layout: the record table [open_reader] builds tiles the stream from 0 to its
           length; index records sit where [decode_index] accepted them, the footer is the
           tail the meta decoder accepted ([open_reader_layout]).
   Part 3: a sequential read to io.EOF visited every record in order, every chunk ended
           without error, and the bytes read are the concatenation of the chunk outputs
           ([read_all_chunks]).
   Part 4: assembly with Flate/Compose.v and Meta/Accept.v. *)
From V Require Import Base.Prelude Base.Prog Base.ProgThms Base.OkThms Base.FuelThms Base.DepthThms
  Meta.Model Flate.Spec Flate.Thms Flate.Safe Flate.Fuel Flate.Depth
  XFlate.Index XFlate.Search XFlate.Reader XFlate.Refine XFlate.C15 XFlate.Witness
  XFlate.RoundTripStmt Flate.Compose.
From Coq Require Import ZifyBool ZifyN ZifyNat.

Local Open Scope N_scope.

(* ====================================================================================== *)
(* Part 0: cutting unread input off                                                        *)
(* ====================================================================================== *)

(* if the run on the short input runs dry, then on the extended input it either runs dry
   too or eats into the extension *)
Lemma run_ueof_ext {A} (p : prog A) s t :
  eof_free p -> res_err (run p s) = Some EUEOF ->
  res_err (run p (ext s t)) = Some EUEOF \/
  (ilen (res_state (run p (ext s t))) < length t)%nat.
Proof.
  intros Hp; revert s; induction Hp as
    [a|e|k Hk IH|k Hk IH|k Hk IH|b k Hk IH|d l k Hk IH|k Hk IH|d k Hk IH|k Hk IH];
    intros s Hu; cbn [run ext a_in a_pos a_out a_len] in *.
  - discriminate.
  - left. exact Hu.
  - destruct (a_in s) as [|b r] eqn:E; cbn [app].
    + destruct t as [|b t']; [left; reflexivity|]. right.
      match goal with |- context[run (k b) ?s1] => pose proof (run_ilen_le (k b) s1) as G end.
      unfold ilen in G at 2. cbn [a_in length] in G |- *. lia.
    + specialize (IH b (mkAst r (a_pos s + 1) (a_out s) (a_len s)) Hu).
      unfold ext in IH; cbn [a_in a_pos a_out a_len] in IH. exact IH.
  - set (n := N.to_nat (pad_count (a_pos s))) in *.
    destruct (Nat.leb n (length (a_in s))) eqn:E.
    + apply Nat.leb_le in E.
      assert (E' : Nat.leb n (length (a_in s ++ t)) = true).
      { apply Nat.leb_le. rewrite app_length. lia. }
      rewrite E'. rewrite firstn_app, skipn_app.
      replace (n - length (a_in s))%nat with O by lia.
      cbn [firstn skipn]. rewrite app_nil_r.
      match goal with |- context[run (k ?v) ?s'] =>
        match type of Hu with context[run (k v) ?s0] =>
          specialize (IH v s0 Hu) end end.
      unfold ext in IH; cbn [a_in a_pos a_out a_len] in IH. exact IH.
    + apply Nat.leb_gt in E.
      destruct (Nat.leb n (length (a_in s ++ t))) eqn:E'; [|left; reflexivity].
      apply Nat.leb_le in E'. rewrite app_length in E'. right.
      match goal with |- context[run (k ?v) ?s1] => pose proof (run_ilen_le (k v) s1) as G end.
      unfold ilen in G at 2. cbn [a_in] in G. rewrite skipn_length, app_length in G. lia.
  - apply (IH _ s Hu).
  - specialize (IH (mkAst (a_in s) (a_pos s) (b :: a_out s) (a_len s + 1)) Hu). exact IH.
  - destruct (_ && _).
    + match type of Hu with context[run k ?s0] => specialize (IH s0 Hu) end. exact IH.
    + discriminate.
  - apply (IH _ s Hu).
  - apply (IH _ s Hu).
  - apply (IH s Hu).
Qed.

(* a successful run over [s] extended by [t] that left (at least) [t] unread is a run over
   [s] alone *)
Theorem run_cut {A} (p : prog A) s t a s1 :
  eof_free p -> run p (ext s t) = Done a s1 -> (length t <= ilen s1)%nat ->
  exists s1', s1 = ext s1' t /\ run p s = Done a s1'.
Proof.
  intros Hp Hr Hl.
  destruct (res_err (run p s)) as [e|] eqn:Ee.
  - destruct (err_eqb e EUEOF) eqn:Eu.
    + apply err_eqb_eq in Eu. subst e.
      destruct (run_ueof_ext p s t Hp Ee) as [H|H]; rewrite Hr in H; cbn [res_err res_state] in H.
      * discriminate.
      * lia.
    + assert (Hne : res_err (run p s) <> Some EUEOF).
      { rewrite Ee. intros C. inversion C; subst.
        rewrite (proj2 (err_eqb_eq EUEOF EUEOF) eq_refl) in Eu. discriminate. }
      rewrite (run_extend p s t Hp Hne) in Hr.
      destruct (run p s); cbn [ext_result res_err] in *; discriminate.
  - assert (Hne : res_err (run p s) <> Some EUEOF) by (rewrite Ee; discriminate).
    rewrite (run_extend p s t Hp Hne) in Hr.
    destruct (run p s) as [a' s'|e' s']; cbn [ext_result res_err] in *; [|discriminate].
    inversion Hr; subst. exists s'. split; reflexivity.
Qed.

Lemma nf_steps_ilen d s s' : nf_steps d s s' -> (ilen s' <= ilen s)%nat.
Proof.
  intros H. induction H as [s|s sa sb E H IH]; [lia|].
  pose proof (one_block_consumes d s false sa E). lia.
Qed.

(* non-final blocks that stay clear of the appended bits are blocks of the short input *)
Lemma nf_steps_cut d s2 s2e : nf_steps d s2 s2e ->
  forall s t, s2 = ext s t -> (length t <= ilen s2e)%nat ->
  exists s', s2e = ext s' t /\ nf_steps d s s'.
Proof.
  intros H. induction H as [s2|s2 sa sb E H IH]; intros s t Hs Hl.
  - exists s. split; [exact Hs | apply nfs_refl].
  - subst s2. pose proof (nf_steps_ilen d sa sb H) as Hi.
    destruct (run_cut (one_block d) s t false sa (ef_one_block d) E) as [sa' [Ha Ra]]; [lia|].
    destruct (IH sa' t Ha Hl) as [s' [Hb Sb]].
    exists s'. split; [exact Hb|]. eapply nfs_step; [exact Ra | exact Sb].
Qed.

(* ====================================================================================== *)
(* Part 1: data chunks                                                                     *)
(* ====================================================================================== *)

Definition endbits : list bool := bytes_to_bits endBlock.

(* a block with BFINAL = 1 that decodes starts with a one bit and a BTYPE other than 3 *)
Definition final_hdr_ok (l : list bool) : bool :=
  match l with
  | true :: b1 :: b2 :: _ => negb (b1 && b2)
  | _ => false
  end.

Lemma run_rbits1 i p o l :
  run (rbits 1) (mkAst i p o l) =
  match i with
  | [] => Fail EUEOF (mkAst [] p o l)
  | b :: r => Done (N.b2n b + 2 * 0) (mkAst r (p + 1) o l)
  end.
Proof. destruct i; reflexivity. Qed.

Lemma run_rbits2 i p o l :
  run (rbits 2) (mkAst i p o l) =
  match i with
  | [] => Fail EUEOF (mkAst [] p o l)
  | [b] => Fail EUEOF (mkAst [] (p + 1) o l)
  | b1 :: b2 :: r => Done (N.b2n b1 + 2 * (N.b2n b2 + 2 * 0)) (mkAst r (p + 1 + 1) o l)
  end.
Proof. destruct i as [|b1 [|b2 r]]; reflexivity. Qed.

Lemma final_block_hdr d s sg : run (one_block d) s = Done true sg -> final_hdr_ok (a_in s) = true.
Proof.
  unfold one_block. intros H.
  destruct s as [i pos out len]. cbn [a_in].
  rewrite run_bind, run_rbits1 in H.
  destruct i as [|b0 i]; [discriminate|].
  rewrite run_bind, run_rbits2 in H.
  destruct i as [|b1 [|b2 i]]; try discriminate.
  destruct b1, b2; cbn [final_hdr_ok andb negb]; try reflexivity.
  - exfalso. rewrite run_bind in H. cbn [N.b2n] in H.
    change (1 + 2 * (1 + 2 * 0)) with 3 in H.
    change (3 =? 0) with false in H. change (3 =? 1) with false in H.
    change (3 =? 2) with false in H. cbn [run] in H. discriminate.
  - destruct b0; [reflexivity|]. exfalso. rewrite run_bind in H.
    match type of H with match ?r with _ => _ end = _ => destruct r as [u su|e su] end;
      [|discriminate].
    cbn [run] in H. inversion H.
  - destruct b0; [reflexivity|]. exfalso. rewrite run_bind in H.
    match type of H with match ?r with _ => _ end = _ => destruct r as [u su|e su] end;
      [|discriminate].
    cbn [run] in H. inversion H.
  - destruct b0; [reflexivity|]. exfalso. rewrite run_bind in H.
    match type of H with match ?r with _ => _ end = _ => destruct r as [u su|e su] end;
      [|discriminate].
    cbn [run] in H. inversion H.
Qed.

Lemma endbits_no_final_inside :
  forallb (fun q => negb (final_hdr_ok (skipn q endbits))) (seq 1 40) = true.
Proof. vm_compute. reflexivity. Qed.

Lemma skipn_app_exact {A} (c r : list A) : skipn (length c) (c ++ r) = r.
Proof. induction c as [|x c IH]; [reflexivity | exact IH]. Qed.

Lemma app_split_skipn {A} (a b c r : list A) :
  a ++ b = c ++ r -> (length a <= length c)%nat -> r = skipn (length c - length a) b.
Proof.
  intros H Hl. apply (f_equal (skipn (length c))) in H.
  rewrite skipn_app_exact, skipn_app, (skipn_all2 a) in H by exact Hl. symmetry. exact H.
Qed.

(* from a position inside the end block (or at its start), non-final blocks followed by a
   final block that decodes: only at its start, and with no block before it *)
Lemma endblock_tail d s sf : nf_steps d s sf ->
  forall q sg, (q <= 40)%nat -> a_in s = skipn q endbits ->
  run (one_block d) sf = Done true sg -> q = 0%nat /\ sf = s.
Proof.
  intros H. induction H as [s|s sa sb E H IH]; intros q sg Hq Hin Hf.
  - split; [|reflexivity].
    destruct q as [|q]; [reflexivity|]. exfalso.
    pose proof (final_block_hdr d s sg Hf) as Hh. rewrite Hin in Hh.
    pose proof endbits_no_final_inside as T. rewrite forallb_forall in T.
    specialize (T (S q)). rewrite Hh in T. cbn [negb] in T.
    assert (Hq1 : In (S q) (seq 1 40)) by (apply in_seq; lia). specialize (T Hq1). discriminate.
  - exfalso.
    destruct (run_mono (one_block d) s) as [o [c [_ [M1 _]]]]. rewrite E in M1. cbn [res_state] in M1.
    pose proof (one_block_consumes d s false sa E) as Hc. unfold ilen in Hc.
    rewrite M1, app_length in Hc.
    assert (Hsa : a_in sa = skipn (q + length c) endbits).
    { rewrite <- skipn_skipn', <- Hin, M1. symmetry. apply skipn_app_exact. }
    assert (Hq' : (q + length c <= 40)%nat).
    { apply (f_equal (@length bool)) in Hin. rewrite M1, app_length, skipn_length in Hin.
      change (length endbits) with 40%nat in Hin. lia. }
    destruct (IH (q + length c)%nat sg Hq' Hsa Hf) as [H0 _]. lia.
Qed.

(* the walk of [chunk_has_final] and the walk of the stream decoder are the same walk *)
Lemma chunk_walk_meet d endpos s sc :
  loops (chunk_blocks_body d endpos) tt s (Done false sc) ->
  forall sf sg, nf_steps d s sf -> run (one_block d) sf = Done true sg ->
  nf_steps d s sc /\ nf_steps d sc sf /\ endpos <= a_pos sc.
Proof.
  intros H. remember (Done false sc) as r eqn:Er. remember tt as u eqn:Eu.
  induction H as [st s e s' E|st s x s' E|st s st1 s1 r E H IH]; intros sf sg Hs Hf; subst st.
  - discriminate.
  - inversion Er; subst x s'. clear Er.
    unfold chunk_blocks_body in E. cbn [run] in E.
    destruct (endpos <=? a_pos s) eqn:Ep.
    + cbn [run] in E. inversion E; subst sc.
      split; [apply nfs_refl|]. split; [exact Hs|]. apply N.leb_le. exact Ep.
    + exfalso. rewrite run_bind in E.
      destruct (run (one_block d) s) as [[|] s2|e s2]; cbn [run] in E; discriminate.
  - destruct st1. unfold chunk_blocks_body in E. cbn [run] in E.
    destruct (endpos <=? a_pos s) eqn:Ep; [cbn [run] in E; discriminate|].
    rewrite run_bind in E.
    destruct (run (one_block d) s) as [[|] s2|e s2] eqn:Eb; cbn [run] in E; try discriminate.
    inversion E; subst s2. clear E.
    inversion Hs as [s0|s0 sa sb Ea Hrest]; subst.
    + rewrite Hf in Eb. discriminate.
    + rewrite Ea in Eb. inversion Eb; subst sa.
      destruct (IH eq_refl eq_refl sf sg Hrest Hf) as [I1 [I2 I3]].
      split; [eapply nfs_step; [exact Ea | exact I1]|]. split; [exact I2 | exact I3].
Qed.

(* the stream loop, read backwards: non-final blocks, a final block, the alignment *)
Lemma stream_loops_inv d s sE :
  loops (stream_body d) tt s (Done tt sE) ->
  exists sf sg, nf_steps d s sf /\ run (one_block d) sf = Done true sg /\
                a_out sE = a_out sg /\ a_len sE = a_len sg.
Proof.
  intros H. remember (Done tt sE) as r eqn:Er. remember tt as u eqn:Eu.
  induction H as [st s e s' E|st s x s' E|st s st1 s1 r E H IH]; subst st.
  - discriminate.
  - inversion Er; subst x s'. clear Er.
    unfold stream_body in E. rewrite run_bind in E.
    destruct (run (one_block d) s) as [[|] s2|e s2] eqn:Eb; cbn [run] in E; try discriminate.
    exists s, s2. split; [apply nfs_refl|]. split; [exact Eb|].
    destruct (Nat.leb _ _); [|discriminate]. cbn [run] in E. inversion E; subst sE.
    cbn [a_out a_len]. split; reflexivity.
  - destruct st1. unfold stream_body in E. rewrite run_bind in E.
    destruct (run (one_block d) s) as [[|] s2|e s2] eqn:Eb; cbn [run] in E; try discriminate.
    + destruct (Nat.leb _ _); cbn [run] in E; discriminate.
    + inversion E; subst s2.
      destruct (IH eq_refl Er) as [sf [sg [I1 [I2 I3]]]].
      exists sf, sg. split; [eapply nfs_step; [exact Eb | exact I1]|]. split; assumption.
Qed.

(* the end block on top of anything: no output *)
Lemma one_block_endbits d : run (one_block d) (ast_init endbits) = Done true (mkAst [] 40 [] 0).
Proof. vm_compute. reflexivity. Qed.

Lemma final_on_endbits d sf sg :
  wf_ast sf -> a_pos sf mod 8 = 0 -> a_in sf = endbits ->
  run (one_block d) sf = Done true sg -> a_out sg = a_out sf.
Proof.
  intros Hwf Hp Hin Hf.
  assert (Hs : sf = shift (a_pos sf) (a_out sf) (ast_init endbits)).
  { destruct sf as [i p o l]. unfold wf_ast in Hwf. cbn [a_in a_pos a_out a_len] in *. subst i l.
    unfold shift, ast_init. cbn [a_in a_pos a_out a_len app]. f_equal. }
  rewrite Hs in Hf.
  rewrite (one_block_hind d (a_pos sf) (a_out sf) (ast_init endbits) Hp (eq_refl : wf_ast (ast_init _))) in Hf.
  - rewrite one_block_endbits in Hf. cbn [shift_result] in Hf. inversion Hf; subst sg.
    cbn [shift a_out app]. reflexivity.
  - rewrite one_block_endbits. exact I.
Qed.

(* ---- the chunk theorem ------------------------------------------------------------- *)
Theorem chunk_nonfinal chunk :
  ir_err (inflate (chunk ++ endBlock)) = None ->
  chunk_has_final chunk = false ->
  nonfinal_blocks chunk = Some (ir_out (inflate (chunk ++ endBlock))).
Proof.
  intros He Hc.
  unfold inflate in *. unfold chunk_has_final in Hc.
  assert (Hlen : length (chunk ++ endBlock) = (length chunk + 5)%nat)
    by (rewrite app_length; reflexivity).
  rewrite Hlen in *.
  set (d := depth_for (length chunk + 5)) in *.
  set (s0 := ast_init (bytes_to_bits (chunk ++ endBlock))) in *.
  (* the decoder's run *)
  destruct (run (inflate_prog d) s0) as [[] sE|e sE] eqn:Ei; cbn [res_err] in He; [|discriminate].
  assert (Li : loops (stream_body d) tt s0 (Done tt sE)).
  { unfold inflate_prog in Ei. rewrite <- Ei. apply loop_loops. rewrite Ei. intros C; exact C. }
  destruct (stream_loops_inv d s0 sE Li) as [sf [sg [Sf [Ff [Oe _]]]]].
  (* the classifier's walk *)
  destruct (run (loop d (chunk_blocks_body d (8 * N.of_nat (length chunk))) tt) s0)
    as [b sc|e sc] eqn:Ew; [|discriminate]. subst b.
  assert (Lw : loops (chunk_blocks_body d (8 * N.of_nat (length chunk))) tt s0 (Done false sc)).
  { rewrite <- Ew. apply loop_loops. rewrite Ew. intros C; exact C. }
  destruct (chunk_walk_meet d _ s0 sc Lw sf sg Sf Ff) as [Sc [Scf Hpos]].
  (* where the walk stopped *)
  destruct (nf_steps_mono d s0 sc Sc) as [c [M1 M2]].
  unfold s0 in M1, M2. cbn [ast_init a_in a_pos] in M1, M2.
  rewrite bytes_to_bits_app in M1. fold endbits in M1.
  assert (Hcl : (8 * length chunk <= length c)%nat) by lia.
  assert (Hcu : (length c <= 8 * length chunk + 40)%nat).
  { apply (f_equal (@length bool)) in M1. rewrite !app_length, bytes_to_bits_length in M1.
    change (length endbits) with 40%nat in M1. lia. }
  set (q := (length c - 8 * length chunk)%nat).
  assert (Hsc : a_in sc = skipn q endbits).
  { unfold q. rewrite <- (bytes_to_bits_length chunk). apply (app_split_skipn _ _ _ _ M1).
    rewrite bytes_to_bits_length. exact Hcl. }
  destruct (endblock_tail d sc sf Scf q sg ltac:(unfold q; lia) Hsc Ff) as [Hq0 Hsf].
  subst sf. rewrite Hq0 in Hsc. cbn [skipn] in Hsc.
  assert (Hpc : a_pos sc = N.of_nat (8 * length chunk)) by (unfold q in Hq0; lia).
  assert (Hwf : wf_ast sc) by (apply (nf_steps_wf d s0 sc Sc); reflexivity).
  assert (Ho : a_out sg = a_out sc).
  { apply (final_on_endbits d sc sg Hwf); [rewrite Hpc; lia | exact Hsc | exact Ff]. }
  (* cut the end block off *)
  destruct (nf_steps_cut d s0 sc Sc (ast_init (bytes_to_bits chunk)) endbits) as [sc' [Hext Sc']].
  { unfold s0. rewrite bytes_to_bits_app. reflexivity. }
  { unfold ilen. rewrite Hsc. lia. }
  assert (Hin' : a_in sc' = []).
  { rewrite Hext in Hsc. cbn [ext a_in] in Hsc.
    apply (f_equal (@length bool)) in Hsc. rewrite app_length in Hsc.
    destruct (a_in sc'); [reflexivity | cbn [length] in Hsc; lia]. }
  assert (Hd : (depth_for (length chunk) <= d)%nat) by (apply depth_for_mono; lia).
  rewrite (nonfinal_blocks_intro chunk d sc' Hd Sc' Hin').
  f_equal. unfold res_out. cbn [res_state]. rewrite fast_rev_eq, Oe, Ho, Hext. reflexivity.
Qed.

(* non-vacuity: two stored blocks and the sync marker *)
Example chunk_nonfinal_ex :
  let chunk := [0;3;0;252;255;65;66;67; 0;0;0;255;255] in
  ir_err (inflate (chunk ++ endBlock)) = None /\ chunk_has_final chunk = false /\
  nonfinal_blocks chunk = Some [65;66;67].
Proof.
  cbv zeta.
  assert (H1 : ir_err (inflate ([0;3;0;252;255;65;66;67; 0;0;0;255;255] ++ endBlock)) = None)
    by (vm_compute; reflexivity).
  assert (H2 : chunk_has_final [0;3;0;252;255;65;66;67; 0;0;0;255;255] = false)
    by (vm_compute; reflexivity).
  split; [exact H1|]. split; [exact H2|].
  rewrite (chunk_nonfinal _ H1 H2). vm_compute. reflexivity.
Qed.

(* ====================================================================================== *)
(* Part 2: layout of an accepted stream                                                    *)
(* ====================================================================================== *)
Local Open Scope Z_scope.

(* ---- int64 wrap-around ------------------------------------------------------------- *)
Lemma wrap64_id z : - 2 ^ 63 <= z < 2 ^ 63 -> wrap64 z = z.
Proof.
  unfold wrap64. change (2 ^ 63) with 9223372036854775808.
  change (2 ^ 64) with 18446744073709551616. lia.
Qed.

Lemma wrap64_range z : - 2 ^ 63 <= wrap64 z < 2 ^ 63.
Proof.
  unfold wrap64. change (2 ^ 63) with 9223372036854775808.
  change (2 ^ 64) with 18446744073709551616. lia.
Qed.

Lemma wrap64_cong z : exists k, wrap64 z = z + k * 2 ^ 64.
Proof.
  unfold wrap64. change (2 ^ 63) with 9223372036854775808.
  change (2 ^ 64) with 18446744073709551616.
  exists (- ((z + 9223372036854775808) / 18446744073709551616)). lia.
Qed.

(* ---- chains of records -------------------------------------------------------------- *)
Fixpoint chainP (P : record -> record -> Prop) (prev : record) (T : list record) : Prop :=
  match T with
  | [] => True
  | r :: t => P prev r /\ chainP P r t
  end.

Lemma last_cons_default (a : record) A prev : last (a :: A) prev = last A a.
Proof.
  revert a prev. induction A as [|b A IH]; intros a prev; [reflexivity|].
  change (last (a :: b :: A) prev) with (last (b :: A) prev).
  rewrite (IH b prev), (IH b a). reflexivity.
Qed.

Lemma chainP_app P A : forall prev B,
  chainP P prev (A ++ B) <-> chainP P prev A /\ chainP P (last A prev) B.
Proof.
  induction A as [|a A IH]; intros prev B.
  - cbn [app chainP last]. tauto.
  - cbn [app chainP]. rewrite IH, last_cons_default. tauto.
Qed.

Lemma chainP_impl (P Q : record -> record -> Prop) T : forall prev,
  (forall p r, P p r -> Q p r) -> chainP P prev T -> chainP Q prev T.
Proof.
  induction T as [|r T IH]; intros prev HPQ H; cbn [chainP] in *; [exact I|].
  destruct H as [H1 H2]. split; [apply HPQ; exact H1 | apply IH; assumption].
Qed.

Lemma chainP_nth_nat P T : forall prev (k : nat),
  chainP P prev T -> (k < length T)%nat ->
  P (match k with O => prev | S k' => nth k' T rec0 end) (nth k T rec0).
Proof.
  induction T as [|r T IH]; intros prev k H Hk; cbn [length] in Hk; [lia|].
  cbn [chainP] in H. destruct H as [H1 H2].
  destruct k as [|k]; [exact H1|].
  specialize (IH r k H2 ltac:(lia)). cbn [nth].
  destruct k as [|k']; exact IH.
Qed.

Lemma chainP_nth P T k : chainP P rec0 T -> 0 <= k < zlen T -> P (pv T k) (cu T k).
Proof.
  intros H Hk. unfold pv, cu, Refine.L.
  replace (k <? zlen T) with true by (symmetry; apply Z.ltb_lt; lia).
  pose proof (chainP_nth_nat P T rec0 (Z.to_nat k) H ltac:(unfold zlen in Hk; lia)) as G.
  unfold nth_rec.
  replace (k <? 0) with false by (symmetry; apply Z.ltb_ge; lia).
  destruct (Z.eq_dec k 0) as [->|Hn].
  - change (0 - 1 <? 0) with true. exact G.
  - replace (k - 1 <? 0) with false by (symmetry; apply Z.ltb_ge; lia).
    replace (Z.to_nat k) with (S (Z.to_nat (k - 1))) in G at 1 by lia. exact G.
Qed.

(* ---- sizes and offsets within int64 ---------------------------------------------------- *)
Definition in63 (z : Z) : Prop := 0 <= z < 2 ^ 63.

Definition step_ok (p r : record) : Prop :=
  CompOffset p <= CompOffset r /\ in63 (CompOffset r) /\
  RawOffset p <= RawOffset r /\ in63 (RawOffset r).

Definition rec_in63 (r : record) : Prop := in63 (CompOffset r) /\ in63 (RawOffset r).

Lemma rec0_in63 : rec_in63 rec0.
Proof. unfold rec_in63, in63. cbn. lia. Qed.

Lemma chain_last_in63 (P : record -> record -> Prop) T : forall prev,
  (forall p r, P p r -> step_ok p r) -> chainP P prev T -> rec_in63 prev -> rec_in63 (last T prev).
Proof.
  induction T as [|r T IH]; intros prev HP H Hp; [exact Hp|].
  cbn [chainP] in H. destruct H as [H1 H2]. rewrite last_cons_default.
  apply IH; [exact HP | exact H2|]. destruct (HP _ _ H1) as [_ [A [_ B]]]. split; assumption.
Qed.

Lemma append_record_inv recs cs rs typ recs' :
  append_record recs cs rs typ = Some recs' ->
  rec_in63 (last_record recs) -> cs < 2 ^ 63 -> rs < 2 ^ 63 ->
  0 <= cs /\ 0 <= rs /\
  recs' = recs ++ [mkRec (CompOffset (last_record recs) + cs) (RawOffset (last_record recs) + rs) typ] /\
  CompOffset (last_record recs) + cs < 2 ^ 63 /\ RawOffset (last_record recs) + rs < 2 ^ 63.
Proof.
  unfold append_record, rec_in63, in63. intros H [Hc Hr] Hcs Hrs.
  destruct ((rs <? 0) || (cs <? 0)) eqn:E; [discriminate|].
  apply orb_false_iff in E. destruct E as [E1 E2]. apply Z.ltb_ge in E1, E2.
  cbv zeta in H.
  destruct (wrap64_cong (CompOffset (last_record recs) + cs)) as [k1 K1].
  destruct (wrap64_cong (RawOffset (last_record recs) + rs)) as [k2 K2].
  pose proof (wrap64_range (CompOffset (last_record recs) + cs)) as R1.
  pose proof (wrap64_range (RawOffset (last_record recs) + rs)) as R2.
  destruct (_ || _) eqn:E; [discriminate|].
  apply orb_false_iff in E. destruct E as [E3 E4]. apply Z.ltb_ge in E3, E4.
  change (2 ^ 63) with 9223372036854775808 in *.
  change (2 ^ 64) with 18446744073709551616 in *.
  assert (k1 = 0) by lia. assert (k2 = 0) by lia. subst k1 k2.
  inversion H; subst recs'. rewrite K1, K2, !Z.mul_0_l, !Z.add_0_r.
  repeat split; try lia.
Qed.

Lemma last_record_snoc recs r : last_record (recs ++ [r]) = r.
Proof. unfold last_record. apply last_last. Qed.

(* ---- what the index decoder delivers ------------------------------------------------- *)
Lemma read_vli_range buf v rest : read_vli buf = Some (v, rest) -> 0 <= v <= maxInt64.
Proof.
  unfold read_vli. destruct (uvarint buf) as [x n].
  destruct ((n <=? 0) || (maxInt64 <? zN x)) eqn:E; [discriminate|].
  intros H. inversion H; subst. apply orb_false_iff in E. destruct E as [_ E].
  apply Z.ltb_ge in E. unfold zN in *. lia.
Qed.

Definition chunk_sizes_ok (cr : Z * Z) : Prop :=
  0 <= fst cr <= maxInt64 /\ 0 <= snd cr <= maxInt64.

Lemma read_chunks_sizes fuel : forall n buf acc chunks rest,
  read_chunks fuel n buf acc = Some (chunks, rest) ->
  Forall chunk_sizes_ok acc -> Forall chunk_sizes_ok chunks.
Proof.
  induction fuel as [|f IH]; intros n buf acc chunks rest H Ha; cbn [read_chunks] in H; [discriminate|].
  destruct (n <=? 0).
  - inversion H; subst. rewrite fast_rev_eq. apply Forall_rev. exact Ha.
  - destruct (read_vli buf) as [[c b1]|] eqn:E1; [|discriminate].
    destruct (read_vli b1) as [[r b2]|] eqn:E2; [|discriminate].
    apply (IH _ _ _ _ _ H). constructor; [|exact Ha].
    split; cbn [fst snd]; [eapply read_vli_range; exact E1 | eapply read_vli_range; exact E2].
Qed.

Definition dstep (p r : record) : Prop := step_ok p r /\ RType r = deflateType.

Lemma maxInt64_lt : maxInt64 < 2 ^ 63.
Proof. unfold maxInt64. lia. Qed.

Lemma append_chunks_chain chunks : forall recs recs',
  append_chunks recs chunks = Some recs' ->
  Forall chunk_sizes_ok chunks ->
  chainP dstep rec0 recs -> chainP dstep rec0 recs'.
Proof.
  induction chunks as [|[c r] chunks IH]; intros recs recs' H Hs Hc; cbn [append_chunks] in H.
  - inversion H; subst. exact Hc.
  - destruct (c <=? 4); [discriminate|].
    destruct (append_record recs c r deflateType) as [recs1|] eqn:E; [|discriminate].
    inversion Hs as [|x l [Hx1 Hx2] Hs']; subst. cbn [fst snd] in Hx1, Hx2.
    pose proof maxInt64_lt as HM.
    assert (Hl : rec_in63 (last_record recs)).
    { apply (chain_last_in63 dstep); [intros p q [A _]; exact A | exact Hc | exact rec0_in63]. }
    destruct (append_record_inv _ _ _ _ _ E Hl ltac:(lia) ltac:(lia)) as [A1 [A2 [A3 [A4 A5]]]].
    apply (IH recs1 recs' H Hs'). rewrite A3. apply chainP_app. split; [exact Hc|].
    cbn [chainP]. split; [|exact I]. fold (last_record recs).
    destruct Hl as [[L1 L2] [L3 L4]].
    split; [|reflexivity]. unfold step_ok, in63. cbn [CompOffset RawOffset]. lia.
Qed.

Definition idx_acc (data : list byte) (off n : Z) : Prop :=
  let r := meta_decode (slice data (Z.to_N off) (Z.to_N n)) in
  mr_err r = None /\ mr_final r = FinalMeta /\ mr_used r = Z.to_N n.

Lemma decode_index_inv data pos isize recs back :
  decode_index data pos isize = inr (recs, back) ->
  chainP dstep rec0 recs /\ 0 <= back <= maxInt64 /\
  (let r := meta_decode (slice data pos isize) in
   mr_err r = None /\ mr_final r = FinalMeta /\ mr_used r = isize).
Proof.
  unfold decode_index. cbv zeta.
  set (r := meta_decode (slice data pos isize)).
  destruct (mr_err r) as [e|] eqn:Ee; [discriminate|].
  set (pl := mr_payload r).
  destruct (read_vli pl) as [[back' b1]|] eqn:E1; [|discriminate].
  destruct (read_vli b1) as [[numRecs b2]|] eqn:E2; [|discriminate].
  destruct (read_vli b2) as [[totC b3]|] eqn:E3; [|discriminate].
  destruct (read_vli b3) as [[totR b4]|] eqn:E4; [|discriminate].
  destruct (read_chunks (S (length b4)) numRecs b4 []) as [[chunks rest]|] eqn:E5; [|discriminate].
  lazymatch goal with |- (if ?c then _ else _) = _ -> _ => destruct c; [discriminate|] end.
  lazymatch goal with |- (if ?c then _ else _) = _ -> _ => destruct c eqn:E6; [discriminate|] end.
  lazymatch goal with |- (if ?c then _ else _) = _ -> _ => destruct c eqn:E7; [discriminate|] end.
  destruct (append_chunks [] chunks) as [recs1|] eqn:E8; [|discriminate].
  lazymatch goal with |- (if ?c then _ else _) = _ -> _ => destruct c; [discriminate|] end.
  intros H. injection H as H1 H2. subst recs1 back'.
  split; [|split; [eapply read_vli_range; exact E1|]].
  - apply (append_chunks_chain chunks [] recs E8); [|exact I].
    apply (read_chunks_sizes _ _ _ _ _ _ E5). constructor.
  - split; [reflexivity|]. split.
    + apply negb_false_iff in E6. destruct (mr_final r); try discriminate. reflexivity.
    + apply negb_false_iff, N.eqb_eq in E7. exact E7.
Qed.

Lemma decode_index_zero data pos : exists e, decode_index data pos 0 = inl e.
Proof.
  unfold decode_index, slice. change (N.to_nat 0) with O. cbn [firstn].
  exists ECorrupted. vm_compute. reflexivity.
Qed.

(* ---- the backward walk over the indexes ------------------------------------------------- *)
Definition Cof (rs : list record) : Z := CompOffset (last_record rs).

Fixpoint lay (data : list byte) (p : Z) (idxs : list (list record * N)) (pend : Z) : Prop :=
  match idxs with
  | [] => p = pend
  | (rs, isz) :: rest =>
    chainP dstep rec0 rs /\ 0 < zN isz < 2 ^ 63 /\ idx_acc data (p + Cof rs) (zN isz) /\
    lay data (p + Cof rs + zN isz) rest pend
  end.

Lemma Cof_in63 rs : chainP dstep rec0 rs -> in63 (Cof rs).
Proof.
  intros H. unfold Cof, last_record.
  apply (chain_last_in63 dstep rs rec0); [intros p q [A _]; exact A | exact H | exact rec0_in63].
Qed.

Lemma indexes_loop_lay data pend : forall fuel pos backSize compSize idxs log idxs' log',
  decode_indexes_loop fuel data pos backSize compSize idxs log = inr (idxs', log') ->
  in63 pos -> in63 compSize -> - 2 ^ 63 <= backSize < 2 ^ 63 ->
  lay data (pos - compSize) idxs pend ->
  lay data 0 idxs' pend.
Proof.
  induction fuel as [|f IH]; intros pos backSize compSize idxs log idxs' log' H Hp Hc Hb Hl;
    cbn [decode_indexes_loop] in H; [discriminate|].
  cbv zeta in H.
  set (newPos := wrap64 (pos - wrap64 (backSize + compSize))) in *.
  destruct ((newPos <? 0) || (pos <? newPos)) eqn:E; [discriminate|].
  apply orb_false_iff in E. destruct E as [E1 E2]. apply Z.ltb_ge in E1, E2.
  destruct (wrap64_cong (backSize + compSize)) as [k1 K1].
  destruct (wrap64_cong (pos - wrap64 (backSize + compSize))) as [k2 K2]. fold newPos in K2.
  pose proof (wrap64_range (backSize + compSize)) as R1.
  unfold in63 in *.
  destruct (backSize =? 0) eqn:Eb.
  - apply Z.eqb_eq in Eb. subst backSize.
    destruct (negb (newPos =? 0)) eqn:E0; [discriminate|].
    apply negb_false_iff, Z.eqb_eq in E0. inversion H; subst idxs' log'.
    replace 0 with (pos - compSize); [exact Hl|].
    change (2 ^ 63) with 9223372036854775808 in *.
    change (2 ^ 64) with 18446744073709551616 in *. lia.
  - apply Z.eqb_neq in Eb.
    destruct (decode_index data (Z.to_N newPos) (Z.to_N backSize)) as [e|[recs back]] eqn:Ed; [discriminate|].
    assert (Hbp : 0 < backSize).
    { destruct (Z.lt_ge_cases 0 backSize) as [G|G]; [exact G|]. exfalso.
      replace (Z.to_N backSize) with 0%N in Ed by lia.
      destruct (decode_index_zero data (Z.to_N newPos)) as [e He]. rewrite He in Ed. discriminate. }
    destruct (decode_index_inv _ _ _ _ _ Ed) as [D1 [D2 D3]]. cbv zeta in D3.
    pose proof (Cof_in63 recs D1) as HC. unfold in63 in HC.
    assert (Hnp : newPos = pos - backSize - compSize).
    { change (2 ^ 63) with 9223372036854775808 in *.
      change (2 ^ 64) with 18446744073709551616 in *. lia. }
    apply (IH _ _ _ _ _ _ _ H).
    + lia.
    + exact HC.
    + unfold maxInt64 in D2. lia.
    + cbn [lay]. fold (Cof recs).
      replace (newPos - Cof recs + Cof recs) with newPos by lia.
      split; [exact D1|]. split; [unfold zN; lia|]. split.
      * unfold idx_acc. cbv zeta. unfold zN. rewrite N2Z.id. exact D3.
      * replace (newPos + zN (Z.to_N backSize)) with (pos - compSize) by (unfold zN; lia).
        exact Hl.
Qed.

(* ---- the merged record table ------------------------------------------------------------ *)
Definition foot_acc (data : list byte) (off n : Z) : Prop :=
  let blk := slice data (Z.to_N off) (Z.to_N n) in
  mr_err (meta_decode blk) = None /\ mr_final (meta_decode blk) = FinalStream /\
  mr_used (meta_decode blk) = N.of_nat (length blk) /\
  off + n = Z.of_nat (length data) /\ Z.of_nat (length blk) = n.

(* what the Reader knows about two consecutive records of its table *)
Definition Pw (data : list byte) (p r : record) : Prop :=
  step_ok p r /\
  (RType r = deflateType \/
   (RType r = indexType /\ RawOffset r = RawOffset p /\
    idx_acc data (CompOffset p) (CompOffset r - CompOffset p)) \/
   (RType r = footerType /\ RawOffset r = RawOffset p /\
    foot_acc data (CompOffset p) (CompOffset r - CompOffset p))).

Lemma Pw_step data p r : Pw data p r -> step_ok p r.
Proof. intros [H _]. exact H. Qed.

(* ... and the records before the footer *)
Definition Pw0 (data : list byte) (p r : record) : Prop := Pw data p r /\ RType r <> footerType.

Lemma Pw0_step data p r : Pw0 data p r -> step_ok p r.
Proof. intros [[H _] _]. exact H. Qed.

Lemma tbl_last_in63 data R : chainP (Pw0 data) rec0 R -> rec_in63 (last_record R).
Proof.
  intros H. unfold last_record.
  apply (chain_last_in63 (Pw0 data) R rec0); [apply Pw0_step | exact H | exact rec0_in63].
Qed.

Lemma append_index_from_chain data : forall other R pre R',
  append_index_from R other pre = Some R' ->
  chainP dstep pre other -> rec_in63 pre ->
  chainP (Pw0 data) rec0 R ->
  chainP (Pw0 data) rec0 R' /\
  CompOffset (last_record R') = CompOffset (last_record R) + (CompOffset (last other pre) - CompOffset pre).
Proof.
  induction other as [|r other IH]; intros R pre R' H Hc Hp HR; cbn [append_index_from] in H.
  - inversion H; subst. split; [exact HR|]. cbn [last]. lia.
  - destruct (append_record R (CompOffset r - CompOffset pre) (RawOffset r - RawOffset pre) (RType r))
      as [R1|] eqn:E; [|discriminate].
    cbn [chainP] in Hc. destruct Hc as [[Hs Ht] Hc].
    destruct Hs as [S1 [S2 [S3 S4]]]. destruct Hp as [P1 P2]. unfold in63 in *.
    pose proof (tbl_last_in63 data R HR) as HL.
    destruct (append_record_inv _ _ _ _ _ E HL ltac:(lia) ltac:(lia)) as [A1 [A2 [A3 [A4 A5]]]].
    destruct HL as [L1 L2]. unfold in63 in *.
    assert (HR1 : chainP (Pw0 data) rec0 R1).
    { rewrite A3. apply chainP_app. split; [exact HR|]. cbn [chainP]. split; [|exact I].
      fold (last_record R). split; [|cbn [RType]; rewrite Ht; discriminate].
      split; [|left; exact Ht].
      unfold step_ok, in63. cbn [CompOffset RawOffset]. lia. }
    destruct (IH R1 r R' H Hc ltac:(split; unfold in63; lia) HR1) as [I1 I2].
    split; [exact I1|]. rewrite I2, A3, last_record_snoc, last_cons_default.
    cbn [CompOffset]. lia.
Qed.

Lemma merge_lay data pend : forall idxs R T',
  merge_indexes R idxs = Some T' ->
  chainP (Pw0 data) rec0 R ->
  lay data (CompOffset (last_record R)) idxs pend ->
  chainP (Pw0 data) rec0 T' /\ CompOffset (last_record T') = pend.
Proof.
  induction idxs as [|[rs isz] idxs IH]; intros R T' H HR Hl; cbn [merge_indexes] in H.
  - inversion H; subst. cbn [lay] in Hl. split; assumption.
  - cbn [lay] in Hl. destruct Hl as [L1 [L2 [L3 L4]]].
    destruct (append_index R rs) as [r1|] eqn:E1; [|discriminate].
    destruct (append_record r1 (zN isz) 0 indexType) as [r2|] eqn:E2; [|discriminate].
    unfold append_index in E1.
    destruct (append_index_from_chain data rs R rec0 r1 E1 L1 rec0_in63 HR) as [C1 C2].
    change (CompOffset rec0) with 0 in C2. fold (last_record rs) in C2. fold (Cof rs) in C2.
    pose proof (tbl_last_in63 data r1 C1) as HL.
    destruct (append_record_inv _ _ _ _ _ E2 HL ltac:(lia) ltac:(lia)) as [A1 [A2 [A3 [A4 A5]]]].
    destruct HL as [HL1 HL2]. unfold in63 in *.
    assert (HR2 : chainP (Pw0 data) rec0 r2).
    { rewrite A3. apply chainP_app. split; [exact C1|]. cbn [chainP]. split; [|exact I].
      fold (last_record r1). split; [|cbn [RType]; discriminate]. split.
      - unfold step_ok, in63. cbn [CompOffset RawOffset]. lia.
      - right. left. cbn [RType CompOffset RawOffset]. split; [reflexivity|]. split; [lia|].
        replace (CompOffset (last_record r1) + zN isz - CompOffset (last_record r1)) with (zN isz) by lia.
        rewrite C2. replace (CompOffset (last_record R) + (Cof rs - 0))
          with (CompOffset (last_record R) + Cof rs) by lia. exact L3. }
    apply (IH r2 T' H HR2).
    rewrite A3, last_record_snoc. cbn [CompOffset]. rewrite C2.
    replace (CompOffset (last_record R) + (Cof rs - 0) + zN isz)
      with (CompOffset (last_record R) + Cof rs + zN isz) by lia. exact L4.
Qed.

(* ---- the footer -------------------------------------------------------------------------- *)
Lemma meta_used_le input : (mr_used (meta_decode input) <= N.of_nat (length input))%N.
Proof.
  unfold meta_decode.
  destruct (run_mono (decode_stream 40) (ast_init (bytes_to_bits input))) as [o [c [_ [M1 M2]]]].
  cbn [ast_init a_in a_pos] in M1, M2.
  assert (Hc : (length c <= 8 * length input)%nat).
  { apply (f_equal (@length bool)) in M1. rewrite app_length, bytes_to_bits_length in M1. lia. }
  destruct (run (decode_stream 40) (ast_init (bytes_to_bits input))) as [[f nb] s|e s];
    cbn [res_state mr_used] in *; rewrite M2; lia.
Qed.

Lemma suffix_slice (data : list byte) k :
  let b := skipn k data in
  b = slice data (N.of_nat (length data) - N.of_nat (length b)) (N.of_nat (length b)).
Proof.
  cbv zeta. unfold slice. rewrite Nat2N.id.
  destruct (Nat.le_gt_cases k (length data)) as [H|H].
  - rewrite skipn_length.
    replace (N.to_nat (N.of_nat (length data) - N.of_nat (length data - k))) with k by lia.
    symmetry. apply firstn_all2. rewrite skipn_length. lia.
  - rewrite (skipn_all2 data) by lia. reflexivity.
Qed.

Lemma decode_footer_inv data backSize footSize log :
  decode_footer data = inr (backSize, footSize, log) ->
  - 2 ^ 63 <= backSize < 2 ^ 63 /\ (footSize <= N.of_nat (length data))%N /\
  let blk := slice data (N.of_nat (length data) - footSize) footSize in
  mr_err (meta_decode blk) = None /\ mr_final (meta_decode blk) = FinalStream /\
  mr_used (meta_decode blk) = N.of_nat (length blk) /\ N.of_nat (length blk) = footSize.
Proof.
  unfold decode_footer. cbv zeta.
  set (len := N.of_nat (length data)).
  set (n := N.min len MaxEncBytes).
  destruct (reverse_search (slice data (len - n) n)) as [idx|]; [|discriminate].
  set (blk0 := skipn (N.to_nat idx) (slice data (len - n) n)).
  destruct (mr_err (meta_decode blk0)) as [e|] eqn:Ee; [discriminate|].
  lazymatch goal with |- (if ?c then _ else _) = _ -> _ => destruct c eqn:E1; [discriminate|] end.
  lazymatch goal with |- (if ?c then _ else _) = _ -> _ => destruct c eqn:E2; [discriminate|] end.
  lazymatch goal with |- (if ?c then _ else _) = _ -> _ => destruct c; [discriminate|] end.
  destruct (uvarint (skipn 3 (mr_payload (meta_decode blk0)))) as [v cnt].
  lazymatch goal with |- (if ?c then _ else _) = _ -> _ => destruct c; [discriminate|] end.
  lazymatch goal with |- (if ?c then _ else _) = _ -> _ => destruct c; [discriminate|] end.
  intros H.
  assert (H1 : wrap64 (zN v) = backSize) by congruence.
  assert (H2 : mr_used (meta_decode blk0) = footSize) by congruence.
  clear H. subst backSize footSize.
  apply orb_false_iff in E1. destruct E1 as [E1 _].
  apply negb_false_iff, N.eqb_eq in E1.
  apply negb_false_iff in E2.
  (* the block is a suffix of the data *)
  assert (Hsuf : exists k, blk0 = skipn k data).
  { unfold blk0, slice.
    assert (Hn : (N.to_nat n <= length data)%nat) by (unfold n, len; lia).
    rewrite firstn_all2 by (rewrite skipn_length; unfold len; lia).
    rewrite skipn_skipn'. eexists. reflexivity. }
  destruct Hsuf as [k Hk].
  pose proof (suffix_slice data k) as Hs. cbv zeta in Hs. rewrite <- Hk in Hs. fold len in Hs.
  split; [apply wrap64_range|].
  rewrite <- E1.
  split.
  { rewrite Hk, skipn_length. unfold len. lia. }
  cbv zeta. rewrite <- Hs.
  split; [exact Ee|]. split; [destruct (mr_final (meta_decode blk0)); try discriminate; reflexivity|].
  split; [symmetry; exact E1 | reflexivity].
Qed.

(* ---- the table of an opened stream ----------------------------------------------------- *)
Definition zr0 : zrd := mkZr [] 0 None 0 false false.

Lemma chain_nonfooter data T : forall prev,
  chainP (Pw0 data) prev T -> Forall (fun r => RType r <> footerType) T.
Proof.
  induction T as [|r T IH]; intros prev H; [constructor|].
  cbn [chainP] in H. destruct H as [[_ H1] H2]. constructor; [exact H1 | exact (IH r H2)].
Qed.

Theorem open_reader_layout data s1 :
  open_reader data = inr s1 -> Z.of_nat (length data) < 2 ^ 63 ->
  exists recs ft log,
    let T := recs ++ [ft] in
    s1 = snd (seek (mkXR data T 0 0 0 (0, 0, 0) zr0 None log) 0 0) /\
    chainP (Pw data) rec0 T /\
    Forall (fun r => RType r <> footerType) recs /\ RType ft = footerType /\
    CompOffset ft = Z.of_nat (length data).
Proof.
  unfold open_reader. intros Ho Hlen.
  destruct (decode_footer data) as [e|[[backSize footSize] log]] eqn:Ef; [discriminate|].
  destruct (decode_indexes_loop _ _ _ _ _ _ _) as [e|[idxs log']] eqn:El; [discriminate|].
  destruct (merge_indexes [] idxs) as [recs|] eqn:Em; [|discriminate].
  destruct (append_record recs (zN footSize) 0 footerType) as [recs'|] eqn:Ea; [|discriminate].
  destruct (decode_footer_inv _ _ _ _ Ef) as [F1 [F2 F3]]. cbv zeta in F3.
  destruct F3 as [F3 [F4 [F5 F6]]].
  set (pend := zN (N.of_nat (length data) - footSize)) in *.
  assert (Hpend : pend = Z.of_nat (length data) - zN footSize) by (unfold pend, zN; lia).
  assert (Hlay : lay data 0 idxs pend).
  { apply (indexes_loop_lay data pend _ _ _ _ _ _ _ _ El).
    - unfold in63, zN in *. lia.
    - unfold in63. lia.
    - exact F1.
    - cbn [lay]. lia. }
  destruct (merge_lay data pend idxs [] recs Em I Hlay) as [C1 C2].
  pose proof (tbl_last_in63 data recs C1) as HL.
  destruct (append_record_inv _ _ _ _ _ Ea HL ltac:(unfold zN; lia) ltac:(lia)) as [A1 [A2 [A3 [A4 A5]]]].
  destruct HL as [HL1 HL2]. unfold in63 in *.
  exists recs, (mkRec (CompOffset (last_record recs) + zN footSize)
                      (RawOffset (last_record recs) + 0) footerType), log'.
  cbv zeta. rewrite <- A3.
  destruct (seek _ 0 0) as [res s1'] eqn:Es. inversion Ho; subst s1'. clear Ho.
  split; [reflexivity|].
  split; [|split; [|split]].
  - rewrite A3. apply chainP_app.
    split; [apply (chainP_impl (Pw0 data)); [intros p r [G _]; exact G | exact C1]|].
    cbn [chainP]. split; [|exact I].
    fold (last_record recs). split.
    + unfold step_ok, in63. cbn [CompOffset RawOffset]. lia.
    + right. right. cbn [RType CompOffset RawOffset]. split; [reflexivity|]. split; [lia|].
      unfold foot_acc. cbv zeta. rewrite C2.
      replace (pend + zN footSize - pend) with (zN footSize) by lia.
      replace (Z.to_N pend) with (N.of_nat (length data) - footSize)%N by (unfold pend, zN; lia).
      replace (Z.to_N (zN footSize)) with footSize by (unfold zN; lia).
      split; [exact F3|]. split; [exact F4|]. split; [exact F5|]. unfold zN in *. lia.
  - apply (chain_nonfooter data recs rec0 C1).
  - reflexivity.
  - cbn [CompOffset]. rewrite C2. lia.
Qed.

(* non-vacuity: the witness stream of XFlate/Witness.v is opened, its table has three data
   records and an index record before the footer record, which ends at the stream's length *)
Example open_reader_layout_ex :
  exists s1 recs ft,
    open_reader Witness.w_stream = inr s1 /\ Z.of_nat (length Witness.w_stream) < 2 ^ 63 /\
    r_recs s1 = recs ++ [ft] /\ length recs = 4%nat /\
    RType ft = footerType /\ CompOffset ft = Z.of_nat (length Witness.w_stream).
Proof.
  eexists. exists [mkRec 22 16 1; mkRec 44 32 1; mkRec 58 40 1; mkRec 88 40 2], (mkRec 106 40 3).
  split; [vm_compute; reflexivity|]. split; [vm_compute; reflexivity|].
  split; [vm_compute; reflexivity|]. split; [reflexivity|]. split; reflexivity.
Qed.

(* ====================================================================================== *)
(* Part 3: a sequential read to io.EOF                                                     *)
(* ====================================================================================== *)

(* monotone offsets along a chain *)
Lemma last_In (l : list record) d : l <> [] -> In (last l d) l.
Proof.
  induction l as [|a l IH]; intros H; [contradiction|].
  destruct l as [|b l']; [left; reflexivity|].
  right. change (last (a :: b :: l') d) with (last (b :: l') d). apply IH. discriminate.
Qed.

Lemma chain_mono (P : record -> record -> Prop) T : forall prev r,
  (forall p q, P p q -> step_ok p q) -> chainP P prev T -> In r T ->
  RawOffset prev <= RawOffset r <= RawOffset (last T prev) /\
  CompOffset prev <= CompOffset r <= CompOffset (last T prev).
Proof.
  induction T as [|a T IH]; intros prev r HP H Hin; [contradiction|].
  cbn [chainP] in H. destruct H as [H1 H2]. rewrite last_cons_default.
  destruct (HP _ _ H1) as [S1 [_ [S3 _]]].
  destruct Hin as [<-|Hin].
  - destruct T as [|b T']; [cbn [last]; lia|].
    destruct (IH a (last (b :: T') a) HP H2) as [I1 I2]; [apply last_In; discriminate|].
    lia.
  - destruct (IH a r HP H2 Hin) as [I1 I2]. lia.
Qed.

Section SeqRead.
Variables (data : list byte) (T : list record).
Hypothesis HT : chainP (Pw data) rec0 T.
Hypothesis HTne : T <> [].

Let LL : Z := Refine.L T.

Lemma LL_pos : 1 <= LL.
Proof. unfold LL, Refine.L, zlen. destruct T; [contradiction | cbn [length]; lia]. Qed.

Lemma pw_at k : 0 <= k < LL -> Pw data (pv T k) (cu T k).
Proof. intros Hk. apply chainP_nth; [exact HT | exact Hk]. Qed.

Lemma cu_in k : 0 <= k < LL -> In (cu T k) T.
Proof.
  intros Hk. unfold cu. fold LL.
  replace (k <? LL) with true by (symmetry; apply Z.ltb_lt; lia).
  unfold nth_rec. replace (k <? 0) with false by (symmetry; apply Z.ltb_ge; lia).
  apply nth_In. unfold LL, Refine.L, zlen in Hk. lia.
Qed.

Lemma cu_le_last k : 0 <= k < LL -> RawOffset (cu T k) <= RawOffset (last_record T).
Proof.
  intros Hk. destruct (chain_mono (Pw data) T rec0 (cu T k) (Pw_step data) HT (cu_in k Hk)) as [[_ H] _].
  exact H.
Qed.

Lemma pv_in63 k : 0 <= k <= LL -> rec_in63 (pv T k).
Proof.
  intros Hk. destruct (Z.eq_dec k 0) as [->|Hn]; [exact rec0_in63|].
  replace k with (k - 1 + 1) by lia. rewrite pv_succ by (fold LL; lia).
  destruct (pw_at (k - 1) ltac:(lia)) as [[_ [A [_ B]]] _]. split; assumption.
Qed.

Lemma typ_known k : 0 <= k < LL -> RType (cu T k) <> unknownType.
Proof.
  intros Hk. destruct (pw_at k Hk) as [_ [H|[[H _]|[H _]]]]; rewrite H; discriminate.
Qed.

(* the decompressor over chunk k as the Reader opens it *)
Definition zrk (k : Z) : zrd :=
  open_chunk data (Z.to_N (CompOffset (pv T k))) (Z.to_N (CompOffset (cu T k) - CompOffset (pv T k))).

Definition outk (k : Z) : list byte := z_rest (zrk k).

(* the Reader inside chunk k with m bytes of it delivered *)
Record St (s : xr) (k : Z) (m : nat) : Prop := mkSt {
  st_data : r_data s = data;
  st_recs : r_recs s = T;
  st_ri : r_ri s = Z.min (k + 1) LL;
  st_off : r_offset s = RawOffset (pv T k) + Z.of_nat m;
  st_disc : r_discard s = 0;
  st_chk : r_chk s = (CompOffset (cu T k) - CompOffset (pv T k),
                      RawOffset (cu T k) - RawOffset (pv T k), RType (cu T k));
  st_zr : r_zr s = mkZr (skipn m (outk k)) (N.of_nat m) (z_end (zrk k)) (z_used (zrk k))
                        (z_sync_ok (zrk k)) (z_joined (zrk k));
  st_m : (m <= length (outk k))%nat;
  st_err : r_err s = None
}.

Definition is_eeof (r : (list byte * option err) * xr) : Prop := snd (fst r) = Some EEOF.

Lemma read_loop_stuck fuel s n acc e :
  r_err s = Some e -> e <> EEOF -> ~ is_eeof (read_loop fuel s n acc).
Proof.
  intros He Hne. destruct fuel as [|f]; cbn [read_loop]; unfold is_eeof; cbn [fst snd].
  - discriminate.
  - rewrite He. cbn [fst snd]. intros C. inversion C. contradiction.
Qed.

Lemma zrk_end_not_eeof k : z_end (zrk k) <> Some EEOF.
Proof.
  unfold zrk, open_chunk. cbn [z_end].
  match goal with |- context[inflate ?x] => set (inp := x) end.
  unfold inflate. cbn [ir_err].
  pose proof (only_elim flate_errs _ (ast_init (bytes_to_bits inp))
                (inflate_only_expected_errors (depth_for (length inp))) eq_refl) as H.
  destruct (run (inflate_prog (depth_for (length inp))) (ast_init (bytes_to_bits inp))) as [u s|e s];
    cbn [res_err]; [discriminate|].
  destruct H as [H|[H|H]]; rewrite H; discriminate.
Qed.

(* deliver what is left of the chunk; if the decompressor returns its status together with
   the last bytes (z_joined) the end of the chunk is evaluated in the same iteration *)
Lemma drain_chunk : forall fuel s k m n acc,
  St s k m -> is_eeof (read_loop fuel s n acc) ->
  (exists fuel' s', (fuel' <= fuel)%nat /\ St s' k (length (outk k)) /\
    read_loop fuel' s' (n - N.of_nat (length (outk k) - m)) (acc ++ skipn m (outk k))
    = read_loop fuel s n acc) \/
  (exists fuel' s', (fuel' < fuel)%nat /\ St s' k (length (outk k)) /\ z_end (zrk k) = None /\
    read_loop fuel' (chunk_end s') (n - N.of_nat (length (outk k) - m)) (acc ++ skipn m (outk k))
    = read_loop fuel s n acc).
Proof.
  intros fuel s k m n acc C Hr.
  destruct (Nat.eq_dec m (length (outk k))) as [->|Hm].
  - left. exists fuel, s. split; [lia|]. split; [exact C|].
    rewrite Nat.sub_diag, N.sub_0_r, skipn_all, app_nil_r. reflexivity.
  - pose proof (st_m _ _ _ C) as Hle.
    destruct fuel as [|f]; [unfold is_eeof in Hr; cbn in Hr; discriminate|].
    destruct (n =? 0)%N eqn:En.
    { cbn [read_loop] in Hr. rewrite (st_err _ _ _ C), En in Hr. unfold is_eeof in Hr; cbn in Hr; discriminate. }
    apply N.eqb_neq in En.
    assert (Hne : z_rest (r_zr s) <> []).
    { rewrite (st_zr _ _ _ C). cbn [z_rest]. intros E.
      apply (f_equal (@length byte)) in E. rewrite skipn_length in E. cbn [length] in E. lia. }
    assert (Hd : (r_discard s <= 0)%Z) by (rewrite (st_disc _ _ _ C); lia).
    rewrite (read_loop_data_step f s n acc (st_err _ _ _ C) En Hd Hne) in Hr |- *. cbv zeta in Hr |- *.
    set (chunk := firstn (N.to_nat n) (z_rest (r_zr s))) in *.
    set (s' := data_state s n) in *.
    assert (Hrest : z_rest (r_zr s) = skipn m (outk k)) by (rewrite (st_zr _ _ _ C); reflexivity).
    (* the next iteration must still want bytes *)
    assert (Hn' : (n - N.of_nat (length chunk) <> 0)%N).
    { intros E0. rewrite E0 in Hr. cbn [N.eqb] in Hr.
      destruct (zr_status_now (r_zr s')); [unfold is_eeof in Hr; cbn in Hr; discriminate|].
      destruct f as [|f']; [unfold is_eeof in Hr; cbn in Hr; discriminate|].
      cbn [read_loop] in Hr. unfold s' in Hr at 1. cbn [data_state r_err] in Hr.
      cbn [N.eqb] in Hr. unfold is_eeof in Hr. cbn in Hr. discriminate. }
    assert (Hall : chunk = skipn m (outk k)).
    { unfold chunk. rewrite Hrest. apply firstn_all2.
      unfold chunk in Hn'. rewrite Hrest, firstn_length in Hn'. lia. }
    assert (Hcl : length chunk = (length (outk k) - m)%nat) by (rewrite Hall, skipn_length; reflexivity).
    assert (Cs' : St s' k (length (outk k))).
    { unfold s', data_state. fold chunk.
      constructor; cbn [r_data r_recs r_ri r_offset r_discard r_chk r_zr r_err].
      * exact (st_data _ _ _ C).
      * exact (st_recs _ _ _ C).
      * exact (st_ri _ _ _ C).
      * rewrite (st_off _ _ _ C), Hcl. unfold zN. lia.
      * reflexivity.
      * exact (st_chk _ _ _ C).
      * rewrite (st_zr _ _ _ C). cbn [z_rest z_outoff z_end z_used z_sync_ok z_joined].
        fold chunk. rewrite <- Hrest. fold chunk. rewrite Hrest.
        rewrite skipn_all, Hcl.
        rewrite (skipn_all2 (skipn m (outk k))) by (rewrite skipn_length; lia).
        f_equal. lia.
      * apply le_n.
      * reflexivity. }
    destruct (zr_status_now (r_zr s')) eqn:Ej.
    + replace (n - N.of_nat (length chunk) =? 0)%N with false in Hr |- * by (symmetry; apply N.eqb_neq; exact Hn').
      assert (Hze : z_end (r_zr s) = z_end (zrk k)) by (rewrite (st_zr _ _ _ C); reflexivity).
      rewrite Hze in Hr |- *.
      destruct (z_end (zrk k)) as [e|] eqn:Eend.
      { exfalso. revert Hr. apply read_loop_stuck with (e := e); [reflexivity|].
        intros ->. apply (zrk_end_not_eeof k). exact Eend. }
      right. exists f, s'. split; [lia|]. split; [exact Cs'|]. split; [reflexivity|].
      rewrite Hcl, Hall. reflexivity.
    + left. exists f, s'. split; [lia|]. split; [exact Cs'|].
      rewrite Hcl, Hall. reflexivity.
Qed.

Lemma spos_abs s pos : spos s pos 0 = Some pos.
Proof. reflexivity. Qed.

(* the end of a chunk that has been delivered entirely: verification, then the next record *)
Lemma chunk_end_next : forall fuel s k n acc,
  0 <= k < LL -> St s k (length (outk k)) -> z_end (zrk k) = None ->
  is_eeof (read_loop fuel (chunk_end s) n acc) ->
  Z.of_nat (length (outk k)) = RawOffset (cu T k) - RawOffset (pv T k) /\
  (k + 1 < LL -> St (chunk_end s) (k + 1) 0) /\ (k + 1 = LL -> r_err (chunk_end s) = Some EEOF).
Proof.
  intros fuel s k n acc Hk C Eend Hr.
  (* chunk_end *)
  unfold chunk_end, chk_typ, chk_csize, chk_rsize in Hr |- *.
  rewrite (st_chk _ _ _ C) in Hr |- *. cbn [fst snd] in Hr |- *.
  destruct ((RType (cu T k) =? deflateType) && negb (z_sync_ok (r_zr s))) eqn:Esync.
  { exfalso. revert Hr. apply read_loop_stuck with (e := ECorrupted); [reflexivity | discriminate]. }
  lazymatch type of Hr with context[if negb ?c then _ else _] => destruct c eqn:Esz end; cbn [negb] in Hr |- *.
  2:{ exfalso. revert Hr. apply read_loop_stuck with (e := ECorrupted); [reflexivity | discriminate]. }
  apply andb_true_iff in Esz. destruct Esz as [_ Ersz]. apply Z.eqb_eq in Ersz.
  assert (Hoo : z_outoff (r_zr s) = N.of_nat (length (outk k))) by (rewrite (st_zr _ _ _ C); reflexivity).
  rewrite Hoo in Ersz. unfold zN in Ersz.
  split; [lia|].
  (* the seek to the current offset *)
  set (pos := r_offset s) in *.
  assert (Hpos : pos = RawOffset (cu T k)).
  { unfold pos. rewrite (st_off _ _ _ C). lia. }
  destruct (pw_at k Hk) as [[S1 [S2 [S3 S4]]] _].
  destruct (pv_in63 k ltac:(lia)) as [P1 P2]. unfold in63 in *.
  assert (Hseek : seek s pos 0 = ((pos, None), slow_state s pos (k + 1))).
  { rewrite seek_unfold. unfold blocked. rewrite (st_err _ _ _ C), spos_abs.
    replace (pos <? 0) with false by (symmetry; apply Z.ltb_ge; lia).
    assert (Hf : fast_ok s pos = false) by (unfold fast_ok; fold pos; rewrite Z.ltb_irrefl; reflexivity).
    rewrite Hf.
    assert (Hri : hint_ri s pos = k + 1).
    { unfold hint_ri. rewrite (st_recs _ _ _ C), (st_ri _ _ _ C).
      replace (Z.min (k + 1) LL) with (k + 1) by lia.
      rewrite (get_records_eq T (k + 1)) by (fold LL; lia).
      rewrite (pv_succ T k) by (fold LL; lia).
      assert (Hnext : RawOffset (cu T k) <= RawOffset (cu T (k + 1))).
      { destruct (Z.eq_dec (k + 1) LL) as [E|E].
        - unfold cu at 2. fold LL. rewrite E, Z.ltb_irrefl. cbn [RawOffset].
          rewrite <- E, (pv_succ T k) by (fold LL; lia). lia.
        - destruct (pw_at (k + 1) ltac:(lia)) as [[_ [_ [G _]]] _].
          rewrite (pv_succ T k) in G by (fold LL; lia). exact G. }
      replace (RawOffset (cu T k) <=? pos) with true by (symmetry; apply Z.leb_le; lia).
      replace (pos <=? RawOffset (cu T (k + 1))) with true by (symmetry; apply Z.leb_le; lia).
      reflexivity. }
    rewrite Hri. reflexivity. }
  rewrite Hseek in Hr |- *. cbv beta iota in Hr |- *.
  set (s1 := slow_state s pos (k + 1)) in *.
  assert (Hs1 : s1 = mkXR data T (Z.min (k + 1 + 1) LL) pos 0
                          (CompOffset (cu T (k + 1)) - CompOffset (cu T k),
                           RawOffset (cu T (k + 1)) - RawOffset (cu T k), RType (cu T (k + 1)))
                          (zrk (k + 1)) None
                          (r_log s ++ [(Z.to_N (CompOffset (cu T k)),
                                        Z.to_N (CompOffset (cu T (k + 1)) - CompOffset (cu T k)))])).
  { unfold s1, slow_state. rewrite (st_recs _ _ _ C), (st_data _ _ _ C).
    rewrite (get_records_eq T (k + 1)) by (fold LL; lia).
    rewrite (pv_succ T k) by (fold LL; lia).
    unfold zrk. rewrite (pv_succ T k) by (fold LL; lia).
    assert (Hend : end_raw s = RawOffset (last_record T)) by (unfold end_raw; rewrite (st_recs _ _ _ C); reflexivity).
    rewrite Hend. pose proof (cu_le_last k Hk) as Hl.
    replace (RawOffset (last_record T) <? pos) with false by (symmetry; apply Z.ltb_ge; lia).
    replace (pos - RawOffset (cu T k)) with 0 by lia.
    reflexivity. }
  assert (Htyp : snd (r_chk s1) = RType (cu T (k + 1))) by (rewrite Hs1; reflexivity).
  rewrite Htyp in Hr |- *.
  destruct (Z.eq_dec (k + 1) LL) as [E|E].
  - (* the last record: io.EOF *)
    assert (Hu : RType (cu T (k + 1)) = unknownType) by (rewrite E; apply typ_L).
    rewrite Hu in Hr |- *. cbn [Z.eqb unknownType] in Hr |- *.
    split; [intros; lia|].
    intros _. reflexivity.
  - assert (Hk1 : 0 <= k + 1 < LL) by lia.
    pose proof (typ_known (k + 1) Hk1) as Htk.
    replace (RType (cu T (k + 1)) =? unknownType) with false in Hr |- *
      by (symmetry; apply Z.eqb_neq; exact Htk).
    split; [|intros; lia].
    intros _. rewrite Hs1.
    constructor; cbn [r_data r_recs r_ri r_offset r_discard r_chk r_zr r_err].
    + reflexivity.
    + reflexivity.
    + reflexivity.
    + rewrite (pv_succ T k) by (fold LL; lia). lia.
    + reflexivity.
    + rewrite (pv_succ T k) by (fold LL; lia). reflexivity.
    + cbn [skipn]. unfold outk, zrk, open_chunk. reflexivity.
    + lia.
    + reflexivity.
Qed.


(* the chunk is exhausted: verification, then the next record *)
Lemma finish_chunk : forall fuel s k n acc,
  0 <= k < LL -> St s k (length (outk k)) -> is_eeof (read_loop fuel s n acc) ->
  z_end (zrk k) = None /\
  Z.of_nat (length (outk k)) = RawOffset (cu T k) - RawOffset (pv T k) /\
  exists fuel' s', (fuel' < fuel)%nat /\ read_loop fuel' s' n acc = read_loop fuel s n acc /\
    (k + 1 < LL -> St s' (k + 1) 0) /\ (k + 1 = LL -> r_err s' = Some EEOF).
Proof.
  intros fuel s k n acc Hk C Hr.
  destruct fuel as [|f]; [unfold is_eeof in Hr; cbn in Hr; discriminate|].
  cbn [read_loop] in Hr |- *. rewrite (st_err _ _ _ C) in Hr |- *.
  destruct (n =? 0)%N eqn:En; [unfold is_eeof in Hr; cbn in Hr; discriminate|].
  rewrite (st_disc _ _ _ C) in Hr |- *. cbn [Z.ltb Z.compare] in Hr |- *.
  assert (Hnil : z_rest (r_zr s) = []).
  { rewrite (st_zr _ _ _ C). cbn [z_rest]. apply skipn_all. }
  rewrite (zr_read_nil _ _ Hnil) in Hr |- *.
  assert (Hze : z_end (r_zr s) = z_end (zrk k)) by (rewrite (st_zr _ _ _ C); reflexivity).
  rewrite Hze in Hr |- *.
  destruct (z_end (zrk k)) as [e|] eqn:Eend.
  { exfalso. unfold is_eeof in Hr. cbn [fst snd] in Hr. inversion Hr; subst e.
    apply (zrk_end_not_eeof k). exact Eend. }
  split; [reflexivity|].
  destruct (chunk_end_next f s k n acc Hk C Eend Hr) as [Z2 [N1 N2]].
  split; [exact Z2|].
  exists f, (chunk_end s). split; [lia|]. split; [reflexivity|]. split; assumption.
Qed.

(* the concatenated outputs of [j] consecutive chunks starting with chunk [k] *)
Fixpoint outs_from (j : nat) (k : Z) : list byte :=
  match j with
  | O => []
  | S j' => outk k ++ outs_from j' (k + 1)
  end.

Lemma read_from : forall j fuel s k n acc,
  Z.of_nat j = LL - k -> 0 <= k < LL -> St s k 0 -> is_eeof (read_loop fuel s n acc) ->
  (forall i, k <= i < LL -> z_end (zrk i) = None) /\
  fst (fst (read_loop fuel s n acc)) = acc ++ outs_from j k.
Proof.
  induction j as [|j IH]; intros fuel s k n acc Hj Hk0 C Hr.
  - exfalso. lia.
  - assert (Hk : 0 <= k < LL) by lia.
    assert (Hpass : z_end (zrk k) = None /\
              exists f2 s2,
                read_loop f2 s2 (n - N.of_nat (length (outk k))) (acc ++ outk k) = read_loop fuel s n acc /\
                (k + 1 < LL -> St s2 (k + 1) 0) /\ (k + 1 = LL -> r_err s2 = Some EEOF)).
    { destruct (drain_chunk fuel s k 0 n acc C Hr) as [[f1 [s1 [_ [C1 E1]]]]|[f1 [s1 [_ [C1 [Z1 E1]]]]]];
        rewrite Nat.sub_0_r in E1; cbn [skipn] in E1.
      - rewrite <- E1 in Hr.
        destruct (finish_chunk f1 s1 k _ _ Hk C1 Hr) as [Z1 [Z2 [f2 [s2 [_ [E2 [N1 N2]]]]]]].
        split; [exact Z1|]. exists f2, s2. split; [rewrite E2; exact E1|]. split; assumption.
      - rewrite <- E1 in Hr.
        destruct (chunk_end_next f1 s1 k _ _ Hk C1 Z1 Hr) as [Z2 [N1 N2]].
        split; [exact Z1|]. exists f1, (chunk_end s1). split; [exact E1|]. split; assumption. }
    destruct Hpass as [Z1 [f2 [s2 [E2 [N1 N2]]]]].
    rewrite <- E2 in Hr |- *.
    destruct (Z.eq_dec (k + 1) LL) as [E|E].
    + specialize (N2 E).
      assert (Hj0 : j = O) by lia. subst j. cbn [outs_from]. rewrite app_nil_r.
      split.
      * intros i Hi. assert (i = k) by lia. subst i. exact Z1.
      * destruct f2 as [|f]; [unfold is_eeof in Hr; cbn in Hr; discriminate|].
        cbn [read_loop]. rewrite N2. reflexivity.
    + specialize (N1 ltac:(lia)).
      destruct (IH f2 s2 (k + 1) _ _ ltac:(lia) ltac:(lia) N1 Hr) as [I1 I2].
      split.
      * intros i Hi. destruct (Z.eq_dec i k) as [->|Hn]; [exact Z1 | apply I1; lia].
      * rewrite I2. cbn [outs_from]. rewrite app_assoc. reflexivity.
Qed.

(* the state [open_reader] starts from is the state at the start of record 0 *)
Lemma open_state log :
  St (snd (seek (mkXR data T 0 0 0 (0, 0, 0) zr0 None log) 0 0)) 0 0.
Proof.
  set (sI := mkXR data T 0 0 0 (0, 0, 0) zr0 None log).
  pose proof LL_pos as HL.
  rewrite seek_unfold. unfold blocked. cbn [sI r_err]. rewrite spos_abs. cbn [Z.ltb Z.compare].
  assert (Hf : fast_ok sI 0 = false) by reflexivity.
  rewrite Hf. cbn [snd].
  destruct (pw_at 0 ltac:(lia)) as [[S1 [S2 [S3 S4]]] _]. unfold in63 in *.
  change (pv T 0) with rec0 in *. cbn [CompOffset RawOffset rec0] in S1, S3.
  assert (Hri : hint_ri sI 0 = 0).
  { unfold hint_ri. cbn [sI r_recs r_ri]. rewrite (get_records_eq T 0) by (fold LL; lia).
    change (pv T 0) with rec0. cbn [RawOffset rec0 Z.leb Z.compare andb].
    replace (0 <=? RawOffset (cu T 0)) with true by (symmetry; apply Z.leb_le; lia). reflexivity. }
  rewrite Hri. unfold slow_state. cbn [sI r_recs r_data r_log].
  rewrite (get_records_eq T 0) by (fold LL; lia). change (pv T 0) with rec0.
  assert (Hend : end_raw sI = RawOffset (last_record T)) by reflexivity.
  rewrite Hend. pose proof (cu_le_last 0 ltac:(lia)) as Hl.
  replace (RawOffset (last_record T) <? 0) with false by (symmetry; apply Z.ltb_ge; lia).
  constructor; cbn [r_data r_recs r_ri r_offset r_discard r_chk r_zr r_err RawOffset rec0];
    try reflexivity.
  - lia.
Qed.
End SeqRead.

(* ====================================================================================== *)
(* Part 4: assembly                                                                        *)
(* ====================================================================================== *)
From V Require Import Meta.Accept.

Lemma slice_app (data : list byte) (a n1 n2 : N) :
  slice data a n1 ++ slice data (a + n1) n2 = slice data a (n1 + n2).
Proof.
  unfold slice. rewrite !N2Nat.inj_add, firstn_plus, skipn_skipn'. reflexivity.
Qed.

Lemma In_slice (data : list byte) a n x : In x (slice data a n) -> In x data.
Proof.
  unfold slice. intros H.
  rewrite <- (firstn_skipn (N.to_nat a) data). apply in_or_app. right.
  rewrite <- (firstn_skipn (N.to_nat n) (skipn (N.to_nat a) data)). apply in_or_app. left. exact H.
Qed.

Lemma slice_all (data : list byte) : slice data 0 (N.of_nat (length data)) = data.
Proof. unfold slice. rewrite Nat2N.id. cbn [N.to_nat skipn]. apply firstn_all. Qed.

Lemma slice_length_le (data : list byte) a n : (length (slice data a n) <= N.to_nat n)%nat.
Proof. unfold slice. rewrite firstn_length. lia. Qed.

Lemma scan_chain data T : forall prev,
  chunks_final_scan data T prev = false ->
  chainP (fun p r => RType r = deflateType ->
            chunk_has_final (slice data (Z.to_N (CompOffset p))
                                   (Z.to_N (CompOffset r - CompOffset p))) = false) prev T.
Proof.
  induction T as [|r T IH]; intros prev H; cbn [chunks_final_scan chainP] in *; [exact I|].
  apply orb_false_iff in H. destruct H as [H1 H2]. split; [|apply IH; exact H2].
  intros Ht. rewrite Ht in H1. cbn [Z.eqb deflateType Pos.eqb andb] in H1. exact H1.
Qed.

Lemma outs_from_app data T a : forall b k,
  outs_from data T (a + b) k = outs_from data T a k ++ outs_from data T b (k + Z.of_nat a).
Proof.
  induction a as [|a IH]; intros b k.
  - cbn [Nat.add outs_from app]. rewrite Z.add_0_r. reflexivity.
  - cbn [Nat.add outs_from]. rewrite IH, <- app_assoc.
    replace (k + 1 + Z.of_nat a) with (k + Z.of_nat (S a)) by lia. reflexivity.
Qed.

Section Assemble.
Variables (data : list byte) (recs : list record) (ft : record).
Let T : list record := recs ++ [ft].
Hypothesis Hbytes : forall b, In b data -> (b < 256)%N.
Hypothesis HT : chainP (Pw data) rec0 T.
Hypothesis Hnf : Forall (fun r => RType r <> footerType) recs.
Hypothesis Hft : RType ft = footerType.
Hypothesis Hlen : CompOffset ft = Z.of_nat (length data).
Hypothesis Hends : forall i, 0 <= i < Refine.L T -> z_end (zrk data T i) = None.
Hypothesis Hscan : chunks_final_scan data T rec0 = false.

Let n0 : Z := zlen recs.

Lemma LT_eq : Refine.L T = n0 + 1.
Proof. unfold Refine.L, zlen, T, n0, zlen. rewrite app_length. cbn [length]. lia. Qed.

Lemma Tne : T <> [].
Proof. unfold T. destruct recs; discriminate. Qed.

Lemma n0_nonneg : 0 <= n0.
Proof. unfold n0, zlen. lia. Qed.

Lemma cu_recs k : 0 <= k < n0 -> In (cu T k) recs.
Proof.
  intros Hk. unfold cu. rewrite LT_eq.
  replace (k <? n0 + 1) with true by (symmetry; apply Z.ltb_lt; lia).
  unfold nth_rec. replace (k <? 0) with false by (symmetry; apply Z.ltb_ge; lia).
  unfold T. rewrite app_nth1 by (unfold n0, zlen in Hk; lia).
  apply nth_In. unfold n0, zlen in Hk. lia.
Qed.

Lemma cu_ft : cu T n0 = ft.
Proof.
  pose proof n0_nonneg as H0. unfold cu. rewrite LT_eq.
  replace (n0 <? n0 + 1) with true by (symmetry; apply Z.ltb_lt; lia).
  unfold nth_rec. replace (n0 <? 0) with false by (symmetry; apply Z.ltb_ge; lia).
  unfold T, n0, zlen. rewrite Nat2Z.id, app_nth2, Nat.sub_diag by lia. reflexivity.
Qed.

Definition Ck (k : Z) : Z := CompOffset (pv T k).
Definition chunk_k (k : Z) : list byte :=
  slice data (Z.to_N (Ck k)) (Z.to_N (CompOffset (cu T k) - Ck k)).

Lemma pwk k : 0 <= k <= n0 -> Pw data (pv T k) (cu T k).
Proof. intros Hk. apply (pw_at data T HT). rewrite LT_eq. lia. Qed.

Lemma Ck_succ k : 0 <= k <= n0 -> Ck (k + 1) = CompOffset (cu T k).
Proof. intros Hk. unfold Ck. rewrite pv_succ by (rewrite LT_eq; lia). reflexivity. Qed.

Lemma Ck_step k : 0 <= k <= n0 -> 0 <= Ck k <= Ck (k + 1).
Proof.
  intros Hk. rewrite (Ck_succ k Hk). destruct (pwk k Hk) as [[S1 _] _].
  destruct (pv_in63 data T HT k ltac:(rewrite LT_eq; lia)) as [[P1 _] _].
  unfold Ck. lia.
Qed.

Lemma Ck_mono j : forall k, 0 <= k -> k + Z.of_nat j <= n0 + 1 -> Ck k <= Ck (k + Z.of_nat j).
Proof.
  induction j as [|j IH]; intros k Hk Hj.
  - rewrite Z.add_0_r. lia.
  - pose proof (Ck_step k ltac:(lia)) as Hs.
    specialize (IH (k + 1) ltac:(lia) ltac:(lia)).
    replace (k + Z.of_nat (S j)) with (k + 1 + Z.of_nat j) by lia. lia.
Qed.

Lemma chunk_bytes k x : In x (chunk_k k) -> (x < 256)%N.
Proof. intros H. apply Hbytes. exact (In_slice _ _ _ _ H). Qed.

Lemma outk_eq k : outk data T k = ir_out (inflate (chunk_k k ++ endBlock)).
Proof. reflexivity. Qed.

Lemma scan_at k : 0 <= k <= n0 -> RType (cu T k) = deflateType -> chunk_has_final (chunk_k k) = false.
Proof.
  intros Hk. apply (chainP_nth _ T k (scan_chain data T rec0 Hscan)).
  fold (Refine.L T). rewrite LT_eq. lia.
Qed.

(* every record before the footer is a sequence of non-final blocks *)
Lemma rec_nonfinal k : 0 <= k < n0 -> nonfinal_blocks (chunk_k k) = Some (outk data T k).
Proof.
  intros Hk.
  destruct (pwk k ltac:(lia)) as [_ [Hd|[[Hi [_ Ha]]|[Hf _]]]].
  - (* data chunk *)
    rewrite outk_eq. apply chunk_nonfinal; [|apply scan_at; [lia | exact Hd]].
    pose proof (Hends k ltac:(rewrite LT_eq; lia)) as He.
    unfold zrk, open_chunk in He. cbn [z_end] in He. fold (Ck k) in He. fold (chunk_k k) in He.
    destruct (ir_err (inflate (chunk_k k ++ endBlock))); [discriminate | reflexivity].
  - (* index *)
    unfold idx_acc in Ha. cbv zeta in Ha. fold (Ck k) in Ha. fold (chunk_k k) in Ha.
    destruct Ha as [A1 [A2 A3]].
    assert (Hu : mr_used (meta_decode (chunk_k k)) = N.of_nat (length (chunk_k k))).
    { pose proof (meta_used_le (chunk_k k)) as G1.
      pose proof (slice_length_le data (Z.to_N (Ck k)) (Z.to_N (CompOffset (cu T k) - Ck k))) as G2.
      fold (chunk_k k) in G2. lia. }
    assert (Hn : nonfinal_blocks (chunk_k k) = Some []).
    { apply meta_accept_nonfinal_blocks; [exact A1 | rewrite A2; discriminate | exact Hu]. }
    rewrite Hn, outk_eq.
    rewrite (scan_endblock (chunk_k k) [] (chunk_bytes k) Hn). reflexivity.
  - exfalso. pose proof (cu_recs k Hk) as Hin. rewrite Forall_forall in Hnf.
    exact (Hnf _ Hin Hf).
Qed.

(* the footer is a complete, empty DEFLATE stream that ends the data *)
Lemma rec_footer rest :
  inflate (chunk_k n0 ++ rest) = mkIR None [] (N.of_nat (length (chunk_k n0))) /\
  Ck n0 + Z.of_nat (length (chunk_k n0)) = Z.of_nat (length data).
Proof.
  pose proof n0_nonneg as H0.
  destruct (pwk n0 ltac:(lia)) as [_ [Hd|[[Hi _]|[_ [_ Ha]]]]].
  - rewrite cu_ft, Hft in Hd. discriminate.
  - rewrite cu_ft, Hft in Hi. discriminate.
  - unfold foot_acc in Ha. cbv zeta in Ha. fold (Ck n0) in Ha. fold (chunk_k n0) in Ha.
    destruct Ha as [A1 [A2 [A3 [A4 A5]]]].
    split; [apply meta_accept_final_stream; assumption|]. lia.
Qed.

Lemma nonfinal_nil : nonfinal_blocks [] = Some [].
Proof. reflexivity. Qed.

Lemma nf_range : forall j k, 0 <= k -> k + Z.of_nat j <= n0 ->
  nonfinal_blocks (slice data (Z.to_N (Ck k)) (Z.to_N (Ck (k + Z.of_nat j) - Ck k)))
  = Some (outs_from data T j k).
Proof.
  induction j as [|j IH]; intros k Hk Hj.
  - rewrite Z.add_0_r, Z.sub_diag. unfold slice. cbn [Z.to_N N.to_nat firstn outs_from].
    exact nonfinal_nil.
  - pose proof (Ck_step k ltac:(lia)) as S1.
    pose proof (Ck_mono j (k + 1) ltac:(lia) ltac:(lia)) as S2.
    replace (k + Z.of_nat (S j)) with (k + 1 + Z.of_nat j) by lia.
    replace (Z.to_N (Ck (k + 1 + Z.of_nat j) - Ck k))
      with (Z.to_N (Ck (k + 1) - Ck k) + Z.to_N (Ck (k + 1 + Z.of_nat j) - Ck (k + 1)))%N by lia.
    rewrite <- slice_app.
    replace (Z.to_N (Ck k) + Z.to_N (Ck (k + 1) - Ck k))%N with (Z.to_N (Ck (k + 1))) by lia.
    cbn [outs_from].
    apply scan_app.
    + rewrite (Ck_succ k ltac:(lia)). apply (chunk_bytes k).
    + intros x Hx. apply Hbytes. exact (In_slice _ _ _ _ Hx).
    + rewrite (Ck_succ k ltac:(lia)). apply (rec_nonfinal k). lia.
    + apply IH; lia.
Qed.

Theorem assemble :
  inflate data = mkIR None (outs_from data T (length T) 0) (N.of_nat (length data)).
Proof.
  pose proof n0_nonneg as H0.
  assert (HC0 : Ck 0 = 0) by reflexivity.
  pose proof (nf_range (length recs) 0 ltac:(lia) ltac:(unfold n0, zlen; lia)) as Hn.
  rewrite HC0, Z.sub_0_r, Z.add_0_l in Hn. fold (zlen recs) in Hn. fold n0 in Hn.
  change (Z.to_N 0) with 0%N in Hn.
  destruct (rec_footer []) as [Hf Hl]. rewrite app_nil_r in Hf.
  pose proof (Ck_step n0 ltac:(lia)) as S1.
  assert (Hck : chunk_k n0 = slice data (Z.to_N (Ck n0)) (Z.to_N (Z.of_nat (length data) - Ck n0))).
  { unfold chunk_k. rewrite cu_ft, Hlen. reflexivity. }
  assert (Hdata : data = slice data 0 (Z.to_N (Ck n0)) ++ chunk_k n0 ++ []).
  { rewrite app_nil_r, Hck.
    pose proof (slice_app data 0 (Z.to_N (Ck n0)) (Z.to_N (Z.of_nat (length data) - Ck n0))) as G.
    rewrite N.add_0_l in G. rewrite G.
    replace (Z.to_N (Ck n0) + Z.to_N (Z.of_nat (length data) - Ck n0))%N
      with (N.of_nat (length data)) by lia.
    symmetry. apply slice_all. }
  rewrite Hdata at 1.
  rewrite (scan_then_stream _ (chunk_k n0) [] (outs_from data T (length recs) 0) []).
  - f_equal.
    + assert (HlT : length T = (length recs + 1)%nat) by (unfold T; rewrite app_length; reflexivity).
      rewrite HlT, app_nil_r.
      rewrite outs_from_app. cbn [outs_from]. rewrite Z.add_0_l. fold (zlen recs). fold n0.
      rewrite outk_eq, (proj1 (rec_footer endBlock)). cbn [ir_out]. rewrite !app_nil_r. reflexivity.
    + rewrite <- app_length, <- (app_nil_r (chunk_k n0)), <- Hdata. reflexivity.
  - intros x Hx. apply Hbytes. exact (In_slice _ _ _ _ Hx).
  - apply (chunk_bytes n0).
  - intros x [].
  - exact Hn.
  - exact Hf.
Qed.
End Assemble.

(* ====================================================================================== *)
(* The theorem                                                                             *)
(* ====================================================================================== *)

(* the statement as first posed, without a bound on the length of the stream *)
Definition xflate_accept_implies_deflate_partial_statement : Prop :=
  forall s d,
    (forall b, In b s -> (b < 256)%N) ->
    c15_class s = 1%N -> accepted_content s = Some d ->
    inflate s = mkIR None d (N.of_nat (length s)).

(* ... proved for every stream whose length fits Go's int64 (the type of every offset the
   Reader computes with; [io.Seeker] cannot even describe a longer stream) *)
Theorem xflate_accept_implies_deflate_partial : forall s d,
  (forall b, In b s -> (b < 256)%N) ->
  Z.of_nat (length s) < 2 ^ 63 ->
  c15_class s = 1%N -> accepted_content s = Some d ->
  inflate s = mkIR None d (N.of_nat (length s)).
Proof.
  intros s d Hbytes Hlen Hc Ha.
  unfold c15_class in Hc.
  destruct (open_reader s) as [e|s0] eqn:Eo; [discriminate|].
  rewrite Ha in Hc.
  destruct (chunks_final_scan s (r_recs s0) rec0) eqn:Escan; [discriminate|]. clear Hc.
  destruct (open_reader_layout s s0 Eo Hlen) as [recs [ft [log [Hs0 [HT [Hnf [Hft HlenC]]]]]]].
  set (T := recs ++ [ft]) in *.
  assert (HTne : T <> []) by (unfold T; destruct recs; discriminate).
  assert (Hrecs : r_recs s0 = T) by (rewrite Hs0, seek_keeps_recs; reflexivity).
  rewrite Hrecs in Escan.
  pose proof (open_state s T HT HTne log) as Hst. rewrite <- Hs0 in Hst.
  (* the sequential read *)
  unfold accepted_content in Ha. rewrite Eo in Ha. cbv zeta in Ha.
  destruct (read s0 (Z.to_N (RawOffset (last_record (r_recs s0))) + 1)) as [[bytes e] sfin] eqn:Er.
  destruct e as [e|]; [|discriminate].
  destruct e; try discriminate. injection Ha as Hd. subst bytes.
  unfold read in Er.
  match type of Er with read_loop ?f s0 ?n [] = _ =>
    assert (Hee : is_eeof (read_loop f s0 n [])) by (rewrite Er; reflexivity);
    destruct (read_from s T HT (length T) f s0 0 n []) as [Hends Hout]
  end.
  { unfold Refine.L, zlen. lia. }
  { unfold Refine.L, zlen. destruct T; [contradiction | cbn [length]; lia]. }
  { exact Hst. }
  { exact Hee. }
  rewrite Er in Hout. cbn [fst app] in Hout. subst d.
  apply (assemble s recs ft Hbytes HT Hnf Hft HlenC).
  - intros i Hi. apply Hends. split; [exact (proj1 Hi) | exact (proj2 Hi)].
  - exact Escan.
Qed.

(* non-vacuity: the witness stream of XFlate/Witness.v (three data chunks, one index, the
   footer) satisfies every hypothesis; the D7 stream of Props/C15.v is in class 2 and the
   conclusion fails for it *)
Example xflate_accept_implies_deflate_partial_ex :
  (forall b, In b Witness.w_stream -> (b < 256)%N) /\
  Z.of_nat (length Witness.w_stream) < 2 ^ 63 /\
  c15_class Witness.w_stream = 1%N /\
  accepted_content Witness.w_stream = Some Witness.w_plain /\
  inflate Witness.w_stream = mkIR None Witness.w_plain (N.of_nat (length Witness.w_stream)).
Proof.
  assert (H1 : forall b, In b Witness.w_stream -> (b < 256)%N).
  { intros b Hb. unfold Witness.w_stream in Hb. cbn [In] in Hb.
    repeat (destruct Hb as [Hb|Hb]; [subst b; reflexivity|]). contradiction. }
  assert (H2 : Z.of_nat (length Witness.w_stream) < 2 ^ 63) by (vm_compute; reflexivity).
  assert (H3 : c15_class Witness.w_stream = 1%N) by (vm_compute; reflexivity).
  assert (H4 : accepted_content Witness.w_stream = Some Witness.w_plain) by (vm_compute; reflexivity).
  split; [exact H1|]. split; [exact H2|]. split; [exact H3|]. split; [exact H4|].
  exact (xflate_accept_implies_deflate_partial _ _ H1 H2 H3 H4).
Qed.

Print Assumptions run_cut.
Print Assumptions chunk_nonfinal.
Print Assumptions open_reader_layout.
Print Assumptions read_from.
Print Assumptions assemble.
Print Assumptions xflate_accept_implies_deflate_partial.
