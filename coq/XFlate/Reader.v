(* xflate.Reader: open (footer, chained indexes), Seek, Read, over a byte
   string; the chunk decompressor (Go's compress/flate) is modelled as the
   RFC 1951 decoder of Flate/Spec.v (contract K2). The model is of the code
   after the repairs D1 (Seek fast path accumulates the pending discard), D2
   (empty buffer returns at once) and D3 (record loop stops at the first VLI
   error); the pre-repair step functions are kept for the refutation
   examples. Every access to the underlying ReadSeeker is logged. *)
From V Require Import Base.Prelude Base.Prog Meta.Model Flate.Spec XFlate.Index.

Definition endBlock : list byte := [1; 0; 0; 255; 255].
Definition xf_magic : list byte := [88; 70; 0].
Definition MaxEncBytes : N := 64.

Definition zN (n : N) : Z := Z.of_N n.

(* a slice [off, off+n) of the file, clipped *)
Definition slice (data : list byte) (off n : N) : list byte :=
  firstn (N.to_nat n) (skipn (N.to_nat off) data).

(* I/O log entries: byte ranges read from the underlying reader *)
Definition iolog := list (N * N).

(* ---- opening ---------------------------------------------------------- *)
Definition errw (e : err) : err :=
  match e with
  | EInvalid | EInternal | ECorrupted | EDeprecated | EClosed => e
  | _ => e
  end.

(* decodeFooter: returns (backSize as int64, footSize, log) *)
Definition decode_footer (data : list byte) : err + (Z * N * iolog) :=
  let len := N.of_nat (length data) in
  let n := N.min len MaxEncBytes in
  let tail := slice data (len - n) n in
  let log := [(len - n, n)] in
  match reverse_search tail with
  | None => inl ECorrupted
  | Some idx =>
    let blk := skipn (N.to_nat idx) tail in
    let r := meta_decode blk in
    match mr_err r with
    | Some e => inl e
    | None =>
      if negb (N.of_nat (length blk) =? mr_used r) || negb (mr_blocks r =? 1) then inl ECorrupted else
      if negb (fmode_eqb (mr_final r) FinalStream) then inl ECorrupted else
      let raw := mr_payload r in
      if (length raw <? 3)%nat || negb (list_eqb N.eqb (firstn 3 raw) xf_magic) then inl ECorrupted else
      let '(v, cnt) := uvarint (skipn 3 raw) in
      if (cnt <=? 0)%Z then inl ECorrupted else
      if negb (Nat.eqb (length (skipn (3 + Z.to_nat cnt) raw)) 0) then inl ECorrupted else
      inr (wrap64 (zN v), mr_used r, log)
    end
  end.

(* readVLI sequence over the decoded index payload *)
Definition read_vli (buf : list byte) : option (Z * list byte) :=
  let '(x, n) := uvarint buf in
  if (n <=? 0)%Z || (maxInt64 <? zN x)%Z then None
  else Some (zN x, skipn (Z.to_nat n) buf).

Fixpoint read_chunks (fuel : nat) (n : Z) (buf : list byte) (acc : list (Z * Z))
  : option (list (Z * Z) * list byte) :=
  match fuel with
  | O => None
  | S f =>
    if (n <=? 0)%Z then Some (fast_rev acc, buf) else
    match read_vli buf with
    | None => None
    | Some (c, b1) =>
      match read_vli b1 with
      | None => None
      | Some (r, b2) => read_chunks f (n - 1) b2 ((c, r) :: acc)
      end
    end
  end.

Fixpoint append_chunks (recs : list record) (chunks : list (Z * Z)) : option (list record) :=
  match chunks with
  | [] => Some recs
  | (c, r) :: rest =>
    if (c <=? 4)%Z then None else
    match append_record recs c r deflateType with
    | None => None
    | Some recs' => append_chunks recs' rest
    end
  end.

(* decodeIndex at file offset [pos] with declared size [isize]:
   returns (records, backSize) *)
Definition decode_index (data : list byte) (pos isize : N) : err + (list record * Z) :=
  let blk := slice data pos isize in
  let r := meta_decode blk in
  match mr_err r with
  | Some e => inl e
  | None =>
    let pl := mr_payload r in
    let crc := if (4 <? length pl)%nat then crc32 (firstn (length pl - 4) pl) else 0 in
    match read_vli pl with None => inl ECorrupted | Some (back, b1) =>
    match read_vli b1 with None => inl ECorrupted | Some (numRecs, b2) =>
    match read_vli b2 with None => inl ECorrupted | Some (totC, b3) =>
    match read_vli b3 with None => inl ECorrupted | Some (totR, b4) =>
    match read_chunks (S (length b4)) numRecs b4 [] with
    | None => inl ECorrupted
    | Some (chunks, rest) =>
      if negb (Nat.eqb (length rest) 4) || negb (le32_dec rest =? crc) then inl ECorrupted else
      if negb (fmode_eqb (mr_final r) FinalMeta) then inl ECorrupted else
      if negb (mr_used r =? isize) then inl ECorrupted else
      match append_chunks [] chunks with
      | None => inl ECorrupted
      | Some recs =>
        let l := last_record recs in
        if negb ((CompOffset l =? totC)%Z && (RawOffset l =? totR)%Z) then inl ECorrupted
        else inr (recs, back)
      end
    end end end end end
  end.

(* decodeIndexes: walk backwards from the footer; returns the index list
   (last decoded first) *)
Fixpoint decode_indexes_loop (fuel : nat) (data : list byte) (pos backSize compSize : Z)
         (idxs : list (list record * N)) (log : iolog)
  : err + (list (list record * N) * iolog) :=
  match fuel with
  | O => inl ECorrupted
  | S f =>
    let newPos := wrap64 (pos - wrap64 (backSize + compSize)) in
    if (newPos <? 0)%Z || (pos <? newPos)%Z then inl ECorrupted else
    if (backSize =? 0)%Z then
      if negb (newPos =? 0)%Z then inl ECorrupted else inr (idxs, log)
    else
      let isize := Z.to_N backSize in
      match decode_index data (Z.to_N newPos) isize with
      | inl e => inl e
      | inr (recs, back) =>
        decode_indexes_loop f data newPos back (CompOffset (last_record recs))
                            ((recs, isize) :: idxs) (log ++ [(Z.to_N newPos, isize)])
      end
  end.

(* merge: indexes in stream order, each followed by its own index record *)
Fixpoint merge_indexes (recs : list record) (idxs : list (list record * N)) : option (list record) :=
  match idxs with
  | [] => Some recs
  | (rs, isize) :: rest =>
    match append_index recs rs with
    | None => None
    | Some r1 =>
      match append_record r1 (zN isize) 0 indexType with
      | None => None
      | Some r2 => merge_indexes r2 rest
      end
    end
  end.

(* ---- reader state ------------------------------------------------------ *)
(* the decompressor over the current chunk, decoded eagerly: the bytes it
   will deliver, how it ends, how many input bytes it consumes in total *)
Record zrd := mkZr {
  z_rest : list byte;       (* bytes not yet delivered *)
  z_outoff : N;             (* OutputOffset *)
  z_end : option err;       (* None = clean io.EOF *)
  z_used : N;               (* InputOffset once the end is reached *)
  z_sync_ok : bool;         (* last four chunk bytes are 00 00 ff ff *)
  z_joined : bool           (* the final status (io.EOF or the error) is returned by the very
                               zr.Read call that hands over the last byte of z_rest *)
}.

Record xr := mkXR {
  r_data : list byte;
  r_recs : list record;
  r_ri : Z;
  r_offset : Z;
  r_discard : Z;
  r_chk : Z * Z * Z;        (* csize, rsize, typ *)
  r_zr : zrd;
  r_err : option err;
  r_log : iolog
}.

Definition chk_csize (s : xr) : Z := fst (fst (r_chk s)).
Definition chk_rsize (s : xr) : Z := snd (fst (r_chk s)).
Definition chk_typ (s : xr) : Z := snd (r_chk s).

Definition is_sync (l : list byte) : bool :=
  list_eqb N.eqb (skipn (length l - 4) l) [0; 0; 255; 255] && (4 <=? length l)%nat.

(* When compress/flate hands decoded bytes over to Read (inflate.go, every
   assignment to f.toRead): when its 32 KiB window is full; at an empty stored
   block (the sync marker); at the end of the final block; when it fails.
   Read returns the status f.err with the call that drains f.toRead, so the
   final status (io.EOF or the error) comes together with the bytes decoded
   since the last hand-over that had no status - if there are any - and in a
   call of its own otherwise.  An empty stored block that is the final block
   sets io.EOF in the same step, so its hand-over has the status.
   [yrun] follows [run] and records the Yield requests (Flate/Spec.v issues
   one per empty stored block): (output length at the last Yield but one,
   output length at the last Yield, bits consumed at the last Yield). *)
Fixpoint yrun {A} (p : prog A) (s : ast) (y : N * N * N) : result A * (N * N * N) :=
  match p with
  | Ret a => (Done a s, y)
  | Throw e => (Fail e s, y)
  | Bit k =>
    match a_in s with
    | [] => (Fail EUEOF s, y)
    | b :: r => yrun (k b) (mkAst r (a_pos s + 1) (a_out s) (a_len s)) y
    end
  | AlignP k =>
    let n := N.to_nat (pad_count (a_pos s)) in
    if Nat.leb n (length (a_in s))
    then yrun (k (bits_val (firstn n (a_in s))))
              (mkAst (skipn n (a_in s)) (a_pos s + N.of_nat n) (a_out s) (a_len s)) y
    else (Fail EUEOF s, y)
  | IsEof k => yrun (k (match a_in s with [] => true | _ => false end)) s y
  | Pos k => yrun (k (a_pos s)) s y
  | Put b k => yrun k (mkAst (a_in s) (a_pos s) (b :: a_out s) (a_len s + 1)) y
  | Copy d l k =>
    if (0 <? d) && (d <=? a_len s)
    then yrun k (mkAst (a_in s) (a_pos s)
                       (copy_chunks (S (N.to_nat l)) (N.to_nat l) (N.to_nat d) (a_out s)) (a_len s + l)) y
    else (Fail EPanic s, y)
  | Hist k => yrun (k (a_len s)) s y
  | HistB d k => yrun (k (if (0 <? d) && (d <=? a_len s)
                          then nth (N.to_nat d - 1) (a_out s) 0 else 0)) s y
  | Yield k => yrun k s (snd (fst y), a_len s, a_pos s)
  end.

(* [yrun] is [run] with a record of the Yields *)
Lemma yrun_run {A} (p : prog A) : forall s y, fst (yrun p s y) = run p s.
Proof.
  induction p as [a|e|k IH|k IH|k IH|k IH|b k IH|d l k IH|k IH|d k IH|k IH]; intros s y; cbn [yrun run].
  - reflexivity.
  - reflexivity.
  - destruct (a_in s); [reflexivity | apply IH].
  - destruct (Nat.leb _ _); [apply IH | reflexivity].
  - apply IH.
  - apply IH.
  - apply IH.
  - destruct (_ && _); [apply IH | reflexivity].
  - apply IH.
  - apply IH.
  - apply IH.
Qed.

(* the final status comes together with the last decoded bytes: some output
   lies after the last hand-over without status (window full: every
   maxHistSize bytes; empty stored block that is not the final block) *)
Definition zr_joined (input : list byte) : bool :=
  let '(r, (yprev, ylast, ypos)) :=
    yrun (inflate_prog (depth_for (length input))) (ast_init (bytes_to_bits input)) (0, 0, 0) in
  let total := a_len (res_state r) in
  let y := match r with
           | Done _ s => if ypos =? a_pos s then yprev else ylast   (* the final block was an empty stored block *)
           | Fail _ _ => ylast
           end in
  N.max y (total / maxHistSize * maxHistSize) <? total.

Definition open_chunk (data : list byte) (off csize : N) : zrd :=
  let raw := slice data off csize in
  let r := inflate (raw ++ endBlock) in
  mkZr (ir_out r) 0
       (match ir_err r with None => None | Some e => Some e end)
       (ir_used r) (is_sync raw) (zr_joined (raw ++ endBlock)).

(* Seek (after repair D1) *)
Definition seek_core (fixed : bool) (s : xr) (offset whence : Z) : (Z * option err) * xr :=
  match r_err s with
  | Some e => if err_eqb e EEOF then
      (* fallthrough below *) ((0%Z, None), s) else ((0%Z, Some e), s)
  | None => ((0%Z, None), s)
  end.

Definition end_raw (s : xr) : Z := RawOffset (last_record (r_recs s)).

Definition seek_gen (fixed : bool) (s : xr) (offset whence : Z) : (Z * option err) * xr :=
  let blocked := match r_err s with
                 | Some e => negb (err_eqb e EEOF)
                 | None => false end in
  if blocked then ((0%Z, r_err s), s) else
  let endp := end_raw s in
  let opos := if (whence =? 0)%Z then Some offset
              else if (whence =? 1)%Z then Some (wrap64 (r_offset s + offset))
              else if (whence =? 2)%Z then Some (wrap64 (endp + offset))
              else None in
  match opos with
  | None => ((0%Z, Some EInvalid), s)
  | Some pos =>
    if (pos <? 0)%Z then ((0%Z, Some EInvalid), s) else
    let remain := (chk_rsize s - zN (z_outoff (r_zr s)))%Z in
    let discard := if fixed then (pos - r_offset s + r_discard s)%Z else (pos - r_offset s)%Z in
    if (r_offset s <? pos)%Z && (0 <? remain)%Z && (discard <? remain)%Z then
      ((pos, None),
       mkXR (r_data s) (r_recs s) (r_ri s) pos discard (r_chk s) (r_zr s) (r_err s) (r_log s))
    else
      let '(prev0, curr0) := get_records (r_recs s) (r_ri s) in
      let ri := if (RawOffset prev0 <=? pos)%Z && (pos <=? RawOffset curr0)%Z
                then r_ri s else search (r_recs s) pos in
      let '(prev, curr) := get_records (r_recs s) ri in
      let ri' := Z.min (ri + 1) (zlen (r_recs s)) in
      let csize := (CompOffset curr - CompOffset prev)%Z in
      let rsize := (RawOffset curr - RawOffset prev)%Z in
      let disc := if (endp <? pos)%Z then (endp - RawOffset prev)%Z else (pos - RawOffset prev)%Z in
      let zr := open_chunk (r_data s) (Z.to_N (CompOffset prev)) (Z.to_N csize) in
      ((pos, None),
       mkXR (r_data s) (r_recs s) ri' pos disc (csize, rsize, RType curr) zr None
            (r_log s ++ [(Z.to_N (CompOffset prev), Z.to_N csize)]))
  end.

Definition seek := seek_gen true.
Definition seek_prefix := seek_gen false.     (* pre-repair, for C07_D1_refuted *)

Definition open_reader (data : list byte) : err + xr :=
  match decode_footer data with
  | inl e => inl e
  | inr (backSize, footSize, log) =>
    let len := N.of_nat (length data) in
    match decode_indexes_loop (S (length data)) data (zN (len - footSize)) backSize 0 [] log with
    | inl e => inl e
    | inr (idxs, log') =>
      match merge_indexes [] idxs with
      | None => inl ECorrupted
      | Some recs =>
        match append_record recs (zN footSize) 0 footerType with
        | None => inl ECorrupted
        | Some recs' =>
          let s0 := mkXR data recs' 0 0 0 (0, 0, 0)%Z (mkZr [] 0 None 0 false false) None log' in
          let '(_, s1) := seek s0 0 0 in
          inr s1
        end
      end
    end
  end.

(* zr.Read of at most n bytes *)
Definition zr_read (z : zrd) (n : N) : (list byte * option (option err)) * zrd :=
  match z_rest z with
  | [] => (([], Some (z_end z)), z)
  | _ =>
    let chunk := firstn (N.to_nat n) (z_rest z) in
    ((chunk, None),
     mkZr (skipn (N.to_nat n) (z_rest z)) (z_outoff z + N.of_nat (length chunk))
          (z_end z) (z_used z) (z_sync_ok z) (z_joined z))
  end.

(* end-of-chunk verification, then move to the next chunk *)
Definition chunk_end (s : xr) : xr :=
  let typ := chk_typ s in
  if (typ =? deflateType)%Z && negb (z_sync_ok (r_zr s)) then
    mkXR (r_data s) (r_recs s) (r_ri s) (r_offset s) (r_discard s) (r_chk s) (r_zr s)
         (Some ECorrupted) (r_log s)
  else
    let csize := if (typ =? footerType)%Z then chk_csize s else (chk_csize s + 5)%Z in
    if negb ((csize =? zN (z_used (r_zr s)))%Z && (chk_rsize s =? zN (z_outoff (r_zr s)))%Z) then
      mkXR (r_data s) (r_recs s) (r_ri s) (r_offset s) (r_discard s) (csize, chk_rsize s, typ)
           (r_zr s) (Some ECorrupted) (r_log s)
    else
      let '(_, s1) := seek s (r_offset s) 0 in
      if (chk_typ s1 =? unknownType)%Z then
        mkXR (r_data s1) (r_recs s1) (r_ri s1) (r_offset s1) (r_discard s1) (r_chk s1) (r_zr s1)
             (Some EEOF) (r_log s1)
      else s1.

(* the decompressor has handed over all its bytes and returns its status with them *)
Definition zr_status_now (z : zrd) : bool :=
  z_joined z && match z_rest z with [] => true | _ => false end.

Definition latch_err (s : xr) (e : err) : xr :=
  mkXR (r_data s) (r_recs s) (r_ri s) (r_offset s) (r_discard s) (r_chk s) (r_zr s) (Some e) (r_log s).

(* Read asking for n bytes in total ("ReadFull" granularity): delivered
   bytes and the error that stopped it, if fewer than n were delivered.
   One call of the Go Read ends with the first zr.Read that returns bytes or
   an error; if that zr.Read returns bytes TOGETHER with its final status
   (zr_status_now), Read acts on the status in the same call: an error is
   latched at once, io.EOF runs the end-of-chunk checks at once. *)
Fixpoint read_loop (fuel : nat) (s : xr) (n : N) (acc : list byte) : (list byte * option err) * xr :=
  match fuel with
  | O => ((acc, Some EFuel), s)
  | S f =>
    match r_err s with
    | Some e => ((acc, Some e), s)
    | None =>
      if n =? 0 then ((acc, None), s) else
      (* discard step *)
      if (0 <? r_discard s)%Z then
        let d := Z.to_N (r_discard s) in
        let avail := N.of_nat (length (z_rest (r_zr s))) in
        let z := r_zr s in
        (* io.Copy stops at an error that comes with the last discarded bytes
           (an io.EOF that comes with them ends the copy normally) *)
        let err_with_last := (d =? avail) && z_joined z &&
                             match z_end z with Some _ => true | None => false end in
        if (d <=? avail) && negb err_with_last then
          let z' := mkZr (skipn (N.to_nat d) (z_rest z)) (z_outoff z + d) (z_end z) (z_used z) (z_sync_ok z)
                         (z_joined z) in
          read_loop f (mkXR (r_data s) (r_recs s) (r_ri s) (r_offset s) 0 (r_chk s) z' None (r_log s)) n acc
        else
          (* the chunk ends before the discard is done: its own error, or
             "n != discard" -> Corrupted *)
          let e := match z_end (r_zr s) with Some e => e | None => ECorrupted end in
          ((acc, Some e),
           mkXR (r_data s) (r_recs s) (r_ri s) (r_offset s) (r_discard s) (r_chk s) (r_zr s) (Some e) (r_log s))
      else
        let '((chunk, fin), z') := zr_read (r_zr s) n in
        match fin with
        | None =>
          let s' := mkXR (r_data s) (r_recs s) (r_ri s) (r_offset s + zN (N.of_nat (length chunk)))%Z
                         0 (r_chk s) z' None (r_log s) in
          let n' := n - N.of_nat (length chunk) in
          if zr_status_now z' then
            let s'' := match z_end z' with Some e => latch_err s' e | None => chunk_end s' end in
            if n' =? 0 then ((acc ++ chunk, None), s'') else read_loop f s'' n' (acc ++ chunk)
          else read_loop f s' n' (acc ++ chunk)
        | Some (Some e) =>
          ((acc, Some e),
           mkXR (r_data s) (r_recs s) (r_ri s) (r_offset s) 0 (r_chk s) z' (Some e) (r_log s))
        | Some None => read_loop f (chunk_end s) n acc
        end
    end
  end.

Definition read (s : xr) (n : N) : (list byte * option err) * xr :=
  read_loop (2 * length (r_recs s) + N.to_nat n + 8) s n [].

Definition close (s : xr) : option err * xr :=
  match r_err s with
  | Some EClosed => (None, s)
  | Some EEOF | None =>
    (None, mkXR (r_data s) (r_recs s) (r_ri s) (r_offset s) (r_discard s) (r_chk s) (r_zr s)
                (Some EClosed) (r_log s))
  | Some e => (Some e, s)
  end.

Inductive rop := RSeek (off whence : Z) | RRead (n : N) | RClose.

Inductive robs :=
| OSeek (pos : Z) (e : option err)
| ORead (bytes : list byte) (e : option err)
| OClose (e : option err).

Definition rstep (s : xr) (o : rop) : robs * xr :=
  match o with
  | RSeek off wh => let '((p, e), s') := seek s off wh in (OSeek p e, s')
  | RRead n => let '((b, e), s') := read s n in (ORead b e, s')
  | RClose => let '(e, s') := close s in (OClose e, s')
  end.

Fixpoint rrun (s : xr) (ops : list rop) : list robs * xr :=
  match ops with
  | [] => ([], s)
  | o :: r =>
    let '(ob, s') := rstep s o in
    let '(obs, s'') := rrun s' r in
    (ob :: obs, s'')
  end.
