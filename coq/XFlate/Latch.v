(* The Reader acts on the final status of the chunk decompressor in the Read call that
   returns the last decoded bytes, when compress/flate returns both together
   (Reader.z_joined, Reader.zr_status_now): witnesses by computation, checked against the
   Go code by the harness (check WXRLATCH, the same two streams).

   latch_stream   one chunk: a fixed-Huffman block with the literal 'a', then the invalid
                  literal/length symbol 286; index record (csize 7, rsize 1).
                  Go: Read(1) = (1, Corrupted); Seek = Corrupted; Close = Corrupted.
   joined_stream  chunk 0 is one stored block holding "abc" 00 00 ff ff (so the chunk ends
                  with the bytes of a sync marker without containing one: all checks of
                  the Reader pass), chunk 1 a chunk as the Writer makes them. The end block
                  that chunkReader appends hands the seven bytes over together with io.EOF;
                  the Read that takes them moves on to record 1 in the same call. *)
From V Require Import Base.Prelude Base.Prog Meta.Model Flate.Spec XFlate.Index XFlate.Reader.
Local Open Scope N_scope.

Definition latch_stream : list byte :=
  [74; 28; 3; 0; 0; 0; 0; 20; 128; 134; 5; 128; 68; 178; 201; 174; 172; 236; 202; 202; 166; 40; 90; 66; 3; 233; 252; 246; 222; 123; 79; 252; 21; 192; 134; 5; 0; 32; 33; 171; 68; 33; 155; 168; 255; 47; 107; 239; 93; 248].

Definition joined_stream : list byte :=
  [0; 7; 0; 248; 255; 97; 98; 99; 0; 0; 255; 255; 114; 96; 96; 114; 16; 0; 0; 0; 0; 255; 255; 12; 128; 134; 5; 128; 132; 178; 71; 102; 37; 171; 204; 50; 42; 171; 100; 36; 171; 20; 146; 40; 138; 146; 198; 233; 237; 189; 119; 252; 29; 192; 134; 5; 0; 32; 33; 171; 68; 33; 155; 84; 255; 127; 214; 222; 59; 248].

(* the error is latched by the call that still returns data *)
Example latch_in_the_call_that_returns_data :
  match open_reader latch_stream with
  | inr s1 =>
    z_joined (r_zr s1) = true /\
    fst (rrun s1 [RRead 1; RSeek 0 0; RClose])
      = [ORead [97] None; OSeek 0 (Some ECorrupted); OClose (Some ECorrupted)] /\
    fst (rrun s1 [RRead 2; RRead 1]) = [ORead [97] (Some ECorrupted); ORead [] (Some ECorrupted)]
  | inl _ => False
  end.
Proof. vm_compute. repeat split; reflexivity. Qed.

(* io.EOF together with the last bytes: the Read that takes exactly the bytes of chunk 0
   verifies it and opens record 1 (extent 12+11) in the same call; the stream is read to
   its end without error *)
Example eof_with_the_last_bytes_moves_on :
  match open_reader joined_stream with
  | inr s1 =>
    z_joined (r_zr s1) = true /\
    fst (rrun s1 [RRead 7]) = [ORead [97; 98; 99; 0; 0; 255; 255] None] /\
    r_log (snd (rrun s1 [RRead 7])) = r_log s1 ++ [(12, 11)] /\
    r_chk (snd (rrun s1 [RRead 7])) = (11, 5, deflateType)%Z /\
    r_log (snd (rrun s1 [RRead 6])) = r_log s1 /\
    snd (fst (read s1 13)) = Some EEOF /\ length (fst (fst (read s1 13))) = 12%nat
  | inl _ => False
  end.
Proof. vm_compute. repeat split; reflexivity. Qed.

(* a chunk as the Writer makes it: the sync marker hands the bytes over before the status *)
Example writer_chunk_not_joined :
  match open_reader joined_stream with
  | inr s1 => z_joined (r_zr (snd (rrun s1 [RRead 7]))) = false
  | inl _ => False
  end.
Proof. vm_compute. reflexivity. Qed.
