(* C17 for the OPEN phase of xflate.Reader: what NewReader / Reset reads from the underlying
   ReadSeeker.

   open_log            (ANY input the Reader opens) the log is: one read of the last
                       min 64 |file| bytes, one read per index block - last index first, each at
                       the place and with the size the decoded indexes imply - and the single
                       chunk open of Seek(0): the extent of the first record
   open_log_hostile    those accesses lie inside the file, the index reads are pairwise disjoint,
                       strictly descending, below the footer; byte totals
   open_log_written    (streams of the shape the Writer produces) the same equation with the
                       positions and sizes of the segments' index blocks and the first item
   open_bytes_written  total <= 64 + index blocks + first item *)
From V Require Import Base.Prelude Base.Prog Meta.Model Meta.DecTotal Flate.Spec
  XFlate.Index XFlate.Search XFlate.Writer XFlate.Reader XFlate.Thms XFlate.Refine XFlate.RefineCheck
  XFlate.RoundTripStmt XFlate.RTIndex XFlate.RTStream XFlate.RTTable XFlate.RTReader XFlate.Total
  XFlate.Witness XFlate.RoundTrip Meta.Stream Meta.Search Meta.Deflate Meta.DeflateStream Flate.Compose.
From Coq Require Import ZifyBool ZifyN ZifyNat.
Local Open Scope Z_scope.

Definition log_bytes (l : iolog) : N := fold_right (fun e a => (snd e + a)%N) 0%N l.

Lemma log_bytes_app a b : log_bytes (a ++ b) = (log_bytes a + log_bytes b)%N.
Proof. induction a as [|e a IH]; cbn [app log_bytes fold_right]; [reflexivity|]. fold (log_bytes (a ++ b)) (log_bytes a). lia. Qed.

Lemma log_bytes_rev a : log_bytes (rev a) = log_bytes a.
Proof.
  induction a as [|e a IH]; [reflexivity|]. cbn [rev]. rewrite log_bytes_app, IH.
  cbn [log_bytes fold_right]. fold (log_bytes a). lia.
Qed.

(* the chunk open of the initial Seek(0, SeekStart) *)
Definition first_extent (T : list record) : N * N := (0%N, Z.to_N (CompOffset (nth_rec T 0))).

(* ---- the equation, for every input the Reader opens ------------------------------------------- *)
Theorem open_log data s1 :
  Z.of_N (flen data) < 2 ^ 63 ->
  open_reader data = inr s1 ->
  exists back foot log0 idxs log1,
    decode_footer data = inr (back, foot, log0) /\
    decode_indexes_loop (S (length data)) data (zN (flen data - foot)) back 0 [] log0 = inr (idxs, log1) /\
    r_log s1 = [((flen data - fn data)%N, fn data)] ++ rev (extents 0 idxs) ++ [first_extent (r_recs s1)].
Proof.
  intros Hl Ho.
  destruct (open_reader_unfold _ _ Ho) as (back & foot & log & idxs & log' & recs & recs' & E1 & E2 & E3 & E4 & Es).
  exists back, foot, log, idxs, log'. split; [exact E1|]. split; [exact E2|].
  destruct (decode_footer_ok_facts _ _ _ _ E1) as (Hlog & _ & _).
  destruct (open_walk_shape _ _ _ _ _ _ Hl E1 E2) as (Hlog' & _ & _ & _).
  pose proof (merge_indexes_tab _ _ _ E3 tab_ok_nil) as Ht.
  destruct (append_record_tab _ _ _ _ _ E4 Ht) as [Ht' (x & Hx & _)].
  assert (HL : 1 <= zlen recs') by (rewrite Hx; unfold zlen; rewrite app_length; cbn [length]; lia).
  set (s0 := mkXR data recs' 0 0 0 (0, 0, 0) (mkZr [] 0 None 0 false false) None log') in *.
  assert (Hr : r_recs s1 = recs') by (rewrite Es, seek_keeps_recs; reflexivity).
  rewrite Hr. rewrite Es, seek_unfold. unfold blocked, spos. cbn [s0 r_err Z.eqb Z.ltb Z.compare].
  assert (Hf : fast_ok s0 0 = false) by reflexivity. rewrite Hf. cbn [snd].
  (* the hint: record 0 holds position 0 *)
  assert (Hh : hint_ri s0 0 = 0).
  { unfold hint_ri. cbn [s0 r_recs r_ri]. rewrite (get_records_eq recs' 0) by (unfold Refine.L; lia).
    change (RawOffset (pv recs' 0)) with 0. cbn [Z.leb Z.compare andb].
    pose proof (h_pv_cu recs' Ht' HL 0 ltac:(unfold Refine.L; lia)) as H.
    change (RawOffset (pv recs' 0)) with 0 in H.
    replace (0 <=? RawOffset (cu recs' 0)) with true by (symmetry; apply Z.leb_le; exact H). reflexivity. }
  rewrite Hh. unfold slow_state. cbn [s0 r_recs r_log].
  rewrite (get_records_eq recs' 0) by (unfold Refine.L; lia). cbn [r_log].
  rewrite Hlog', Hlog, <- app_assoc. do 2 f_equal.
  unfold first_extent, Refine.cu, Refine.pv, Refine.L.
  replace (0 <? zlen recs') with true by (symmetry; apply Z.ltb_lt; lia).
  change (nth_rec recs' (0 - 1)) with rec0. cbn [CompOffset rec0]. rewrite Z.sub_0_r. reflexivity.
Qed.

(* ---- index accesses: inside the file, disjoint, ascending in stream order -------------------------- *)
Fixpoint asc_from (lo : Z) (l : iolog) : Prop :=
  match l with
  | [] => True
  | (o, n) :: r => lo <= zN o /\ 4 <= zN n /\ asc_from (zN o + zN n) r
  end.

Definition below (hi : Z) (e : N * N) : Prop := zN (fst e) + zN (snd e) <= hi.

Lemma extents_asc l : forall base, 0 <= base -> Forall idx_ok l ->
  asc_from base (extents base l) /\ Forall (below (base + span l)) (extents base l) /\
  zN (log_bytes (extents base l)) <= span l.
Proof.
  induction l as [|[r i] l IH]; intros base Hb Hok; cbn [extents asc_from span log_bytes fold_right].
  - split; [exact I|]. split; [constructor | cbn; lia].
  - inversion Hok as [|? ? [H1 H2] Hok']; subst. cbn [fst snd] in *.
    destruct (tab_ok_last r H2) as [_ [H3 _]]. fold (CL r) in H3.
    destruct (IH (base + CL r + zN i) ltac:(unfold zN in *; lia) Hok') as (A & B & C).
    fold (log_bytes (extents (base + CL r + zN i) l)).
    split; [|split].
    + split; [unfold zN; lia|]. split; [unfold zN in *; lia|].
      replace (zN (Z.to_N (base + CL r)) + zN i) with (base + CL r + zN i) by (unfold zN; lia). exact A.
    + constructor.
      * unfold below. cbn [fst snd]. pose proof (span_nonneg l Hok'). unfold zN in *. lia.
      * eapply Forall_impl; [|exact B]. intros e He. unfold below in *. lia.
    + unfold zN in *. lia.
Qed.

(* ---- the merged table ends at the end of the file ---------------------------------------------- *)
Lemma append_record_exact recs c r t recs' :
  append_record recs c r t = Some recs' -> tab_ok recs -> 0 <= c < 2 ^ 63 ->
  CL recs' = CL recs + c.
Proof.
  intros Ha Ht Hc. destruct (tab_ok_last recs Ht) as [_ [H0 H1]]. fold (CL recs) in H0, H1.
  unfold append_record in Ha.
  destruct ((r <? 0) || (c <? 0)); [discriminate|].
  destruct ((wrap64 (CompOffset (last_record recs) + c) <? CompOffset (last_record recs)) || _) eqn:E; [discriminate|].
  apply orb_false_iff in E as [E _]. apply Z.ltb_ge in E. fold (CL recs) in E.
  inversion Ha; subst recs'. unfold CL at 1. rewrite last_record_snoc. cbn [CompOffset]. fold (CL recs).
  assert (E64 : 2 ^ 64 = 2 * 2 ^ 63) by reflexivity.
  destruct (Z_lt_le_dec (CL recs + c) (2 ^ 63)) as [Hs|Hs]; [apply wrap64_id; lia|].
  exfalso. rewrite wrap64_hi in E by lia. lia.
Qed.

Lemma append_index_from_exact other : forall recs pre recs',
  append_index_from recs other pre = Some recs' -> tab_ok recs -> mono_from pre other ->
  0 <= CompOffset pre ->
  CL recs' = CL recs + (CompOffset (last other pre) - CompOffset pre).
Proof.
  induction other as [|r rest IH]; intros recs pre recs' H Ht Hm Hp; cbn [append_index_from] in H.
  - inversion H; subst. cbn [last]. lia.
  - destruct Hm as (_ & M2 & M3 & M4).
    destruct (append_record recs _ _ _) as [r1|] eqn:E; [|discriminate].
    pose proof (append_record_exact _ _ _ _ _ E Ht ltac:(lia)) as H1.
    pose proof (proj1 (append_record_tab _ _ _ _ _ E Ht)) as Ht1.
    rewrite (IH r1 r recs' H Ht1 M4 ltac:(lia)), H1.
    destruct rest as [|r' rest']; [cbn [last]; lia|].
    change (last (r :: r' :: rest') pre) with (last (r' :: rest') pre).
    rewrite (last_indep (r' :: rest') pre r) by discriminate. lia.
Qed.

Lemma merge_exact idxs : forall recs recs',
  merge_indexes recs idxs = Some recs' -> tab_ok recs -> Forall idx_ok idxs ->
  CL recs' = CL recs + span idxs.
Proof.
  induction idxs as [|[rs isize] rest IH]; intros recs recs' H Ht Hok; cbn [merge_indexes span] in *.
  - inversion H; subst. lia.
  - inversion Hok as [|? ? [H1 H2] Hok']; subst. cbn [fst snd] in *.
    destruct (append_index recs rs) as [r1|] eqn:E1; [|discriminate].
    destruct (append_record r1 (zN isize) 0 indexType) as [r2|] eqn:E2; [|discriminate].
    pose proof (append_index_from_tab _ _ _ _ E1 Ht) as Ht1.
    pose proof (proj1 (append_record_tab _ _ _ _ _ E2 Ht1)) as Ht2.
    rewrite (IH r2 recs' H Ht2 Hok').
    rewrite (append_record_exact _ _ _ _ _ E2 Ht1) by lia.
    unfold append_index in E1.
    rewrite (append_index_from_exact _ _ _ _ E1 Ht H2) by (cbn; lia).
    fold (last_record rs). fold (CL rs). cbn [rec0 CompOffset]. lia.
Qed.

Lemma tab_first_le_last T : tab_ok T -> 0 <= CompOffset (nth_rec T 0) <= CL T.
Proof.
  destruct T as [|r T']; intros H; [cbn; lia|].
  destruct H as (_ & H2 & _ & H4). cbn [rec0 CompOffset] in H2.
  change (nth_rec (r :: T') 0) with r. split; [exact H2|].
  pose proof (mono_from_last T' r H4) as [_ H5].
  unfold CL, last_record. destruct T' as [|r' T'']; [cbn [last]; lia|].
  change (last (r :: r' :: T'') rec0) with (last (r' :: T'') rec0).
  rewrite (last_indep (r' :: T'') rec0 r) by discriminate. exact H5.
Qed.

(* ---- the open phase on ANY input ------------------------------------------------------------------- *)
(* [ixs] are the index reads in stream order (the log has them reversed: last index first) *)
Theorem open_log_hostile data s1 :
  Z.of_N (flen data) < 2 ^ 63 ->
  open_reader data = inr s1 ->
  exists foot ixs c,
    r_log s1 = [((flen data - fn data)%N, fn data)] ++ rev ixs ++ [(0%N, c)] /\
    (fn data <= 64 /\ fn data <= flen data /\ 4 <= foot <= fn data)%N /\
    asc_from 0 ixs /\ Forall (below (zN (flen data - foot))) ixs /\
    (c <= flen data)%N /\
    (log_bytes ixs <= flen data - foot)%N /\
    (log_bytes (r_log s1) <= 64 + (flen data - foot) + c)%N.
Proof.
  intros Hl Ho.
  destruct (open_log data s1 Hl Ho) as (back & foot & log0 & idxs & log1 & E1 & E2 & Hlog).
  destruct (open_reader_unfold _ _ Ho) as (back' & foot' & log' & idxs' & log1' & recs & recs' & E1' & E2' & E3 & E4 & Es).
  rewrite E1 in E1'. apply inr3_inj in E1'. destruct E1' as (<- & <- & <-).
  rewrite E2 in E2'. apply inr2_inj in E2'. destruct E2' as (<- & <-).
  destruct (decode_footer_ok_facts _ _ _ _ E1) as (_ & Hfoot & _).
  destruct (open_walk_shape _ _ _ _ _ _ Hl E1 E2) as (_ & Hspan & Hok & _).
  destruct (extents_asc idxs 0 ltac:(lia) Hok) as (A & B & C).
  assert (Hr : r_recs s1 = recs') by (rewrite Es, seek_keeps_recs; reflexivity).
  pose proof (merge_indexes_tab _ _ _ E3 tab_ok_nil) as Ht.
  pose proof (proj1 (append_record_tab _ _ _ _ _ E4 Ht)) as Ht'.
  assert (Hfn : (fn data <= 64 /\ fn data <= flen data)%N) by (unfold fn, MaxEncBytes; lia).
  assert (Hc : CL recs' = zN (flen data)).
  { rewrite (append_record_exact _ _ _ _ _ E4 Ht) by (unfold zN; lia).
    rewrite (merge_exact _ _ _ E3 tab_ok_nil Hok). change (CL []) with 0. unfold zN in *. lia. }
  pose proof (tab_first_le_last recs' Ht') as Hfirst. rewrite Hc in Hfirst.
  exists foot, (extents 0 idxs), (Z.to_N (CompOffset (nth_rec recs' 0))).
  split; [rewrite Hlog, Hr; reflexivity|].
  split; [lia|]. split; [exact A|]. split; [rewrite Z.add_0_l, Hspan in B; exact B|].
  split; [unfold zN in *; lia|]. split; [unfold zN in *; lia|].
  rewrite Hlog, Hr. rewrite !log_bytes_app, log_bytes_rev. unfold first_extent.
  cbn [log_bytes fold_right snd]. unfold zN in *. lia.
Qed.

(* ================= streams of the shape the Writer produces ========================================= *)
(* where the index block of each segment lies, newest segment first (the order of the walk) *)
Fixpoint idx_reads (rsegs : list seg) : iolog :=
  match rsegs with
  | [] => []
  | sg :: older =>
    (N.of_nat (length (rsegs_bytes older) + length (chunks_bytes (sg_chunks sg))), N.of_nat (length (sg_idx sg)))
      :: idx_reads older
  end.

Definition first_item_size (rsegs : list seg) (foot : list byte) : N :=
  match all_items rsegs foot with
  | [] => 0%N
  | it :: _ => N.of_nat (length (it_bytes it))
  end.

Lemma CL_recs_of cs : CL (recs_of cs) = Z.of_nat (length (chunks_bytes cs)).
Proof.
  unfold recs_of. destruct (last_build0 (map chunk_entry cs)) as [H _]. unfold lastC in H.
  unfold CL. rewrite H. apply tot_c_chunks.
Qed.

Lemma seg_entries_extents rsegs :
  span (map seg_idx_entry (rev rsegs)) = Z.of_nat (length (rsegs_bytes rsegs)) /\
  extents 0 (map seg_idx_entry (rev rsegs)) = rev (idx_reads rsegs).
Proof.
  induction rsegs as [|sg older [IH1 IH2]]; cbn [rev map span extents rsegs_bytes idx_reads length].
  - split; reflexivity.
  - rewrite map_app, span_app, extents_app, IH1, IH2. cbn [map span extents seg_idx_entry].
    unfold seg_idx_entry. cbn [span extents]. rewrite CL_recs_of.
    unfold seg_bytes. rewrite !app_length. unfold zN. split; [lia|].
    f_equal. f_equal. f_equal. lia.
Qed.

Lemma written_opens rsegs foot sink data :
  xf_stream rsegs foot sink data ->
  Z.of_nat (length sink) < 2 ^ 40 -> Z.of_nat (length data) < 2 ^ 62 ->
  exists log0 log1,
    decode_footer sink = inr (Z.of_N (back_of rsegs), N.of_nat (length foot), log0) /\
    decode_indexes_loop (S (length sink)) sink (zN (flen sink - N.of_nat (length foot)))
      (Z.of_N (back_of rsegs)) 0 [] log0 = inr (map seg_idx_entry (rev rsegs), log1).
Proof.
  intros (Hwf & Hfoot & Hfb & Hsink & Hdata) Hlen Hdlen.
  assert (H40 : 2 ^ 40 < 2 ^ 62) by reflexivity.
  assert (H62 : 2 ^ 62 < 2 ^ 63) by reflexivity.
  pose proof (back_le rsegs) as Hbl.
  assert (Hslen : length sink = (length (rsegs_bytes rsegs) + length foot)%nat)
    by (rewrite Hsink, app_length; reflexivity).
  destruct (decode_footer_ok meta_stream_roundtrip meta_block_bytes_size reverse_search_finds_block
              (rsegs_bytes rsegs) foot (back_of rsegs)) as [log Hdf].
  { apply rsegs_bytes_lt. exact Hwf. }
  { change (2 ^ 63)%N with 9223372036854775808%N. change (2 ^ 63) with 9223372036854775808 in H62. lia. }
  { exact Hfoot. }
  rewrite <- Hsink in Hdf. exists log.
  replace (zN (flen sink - N.of_nat (length foot)))
    with (Z.of_nat (length (rsegs_bytes rsegs)) + 0) by (unfold zN, flen; lia).
  destruct (loop_ok meta_stream_roundtrip rsegs (S (length sink)) sink foot 0 [] log) as [log' Hloop].
  { exact Hwf. } { exact Hsink. } { exact Hlen. } { rewrite <- Hdata. exact Hdlen. }
  { pose proof (rsegs_count meta_stream_roundtrip rsegs Hwf). lia. } { lia. } { lia. }
  exists log'. rewrite app_nil_r in Hloop. split; [exact Hdf | exact Hloop].
Qed.

Lemma written_table rsegs foot sink data s1 :
  xf_stream rsegs foot sink data ->
  Z.of_nat (length sink) < 2 ^ 40 -> Z.of_nat (length data) < 2 ^ 62 ->
  open_reader sink = inr s1 ->
  r_recs s1 = build 0 0 (map item_entry (all_items rsegs foot)).
Proof.
  intros Hx Hlen Hdlen Ho.
  destruct (written_opens _ _ _ _ Hx Hlen Hdlen) as (log0 & log1 & F1 & F2).
  destruct Hx as (Hwf & Hfoot & Hfb & Hsink & Hdata).
  assert (H40 : 2 ^ 40 < 2 ^ 62) by reflexivity.
  assert (H62 : 2 ^ 62 < 2 ^ 63) by reflexivity.
  assert (Hslen : length sink = (length (rsegs_bytes rsegs) + length foot)%nat)
    by (rewrite Hsink, app_length; reflexivity).
  destruct (open_reader_unfold _ _ Ho) as (back' & foot' & log' & idxs' & log1' & recs & recs' & E1 & E2 & E3 & E4 & Es).
  rewrite F1 in E1. apply inr3_inj in E1. destruct E1 as (<- & <- & <-).
  rewrite F2 in E2. apply inr2_inj in E2. destruct E2 as (<- & <-).
  assert (Hr : r_recs s1 = recs') by (rewrite Es, seek_keeps_recs; reflexivity).
  rewrite Hr. clear Hr Es.
  assert (HtC : tot_c (map item_entry (body_items rsegs)) = Z.of_nat (length (rsegs_bytes rsegs)))
    by (rewrite tot_c_items, body_items_bytes; reflexivity).
  assert (HtR : tot_r (map item_entry (body_items rsegs)) = Z.of_nat (length data))
    by (rewrite tot_r_items, body_items_raw, Hdata; reflexivity).
  rewrite (merge_ok (rev rsegs) []) in E3.
  2,3: (cbn; lia).
  2:{ change (lastC []) with 0. fold (body_items rsegs). lia. }
  2:{ change (lastR []) with 0. fold (body_items rsegs). lia. }
  fold (body_items rsegs) in E3. change (lastC []) with 0 in E3. change (lastR []) with 0 in E3. cbn [app] in E3.
  inversion E3; subst recs. clear E3.
  set (T0 := build 0 0 (map item_entry (body_items rsegs))) in *.
  destruct (last_build0 (map item_entry (body_items rsegs))) as [HlC HlR]. fold T0 in HlC, HlR.
  rewrite append_record_ok in E4 by (unfold zN; lia).
  inversion E4; subst recs'. clear E4.
  unfold all_items. rewrite map_app, build_app. fold T0.
  cbn [map build item_entry it_bytes it_raw it_typ fst snd length e_c e_r e_t].
  rewrite HlC, HlR. unfold zN. rewrite nat_N_Z. reflexivity.
Qed.

(* B. For every stream of the shape the Writer produces, opening it reads: the last min 64 |file|
   bytes; the index block of every segment, exactly, newest first; the first item of the stream (the
   first chunk of the oldest segment - or its index block if it has no chunk, or the footer if there
   is no segment). Nothing else: no data chunk other than the first is touched. *)
Theorem open_log_written rsegs foot sink data :
  xf_stream rsegs foot sink data ->
  Z.of_nat (length sink) < 2 ^ 40 -> Z.of_nat (length data) < 2 ^ 62 ->
  exists s1, open_reader sink = inr s1 /\
    r_log s1 = [((flen sink - fn sink)%N, fn sink)] ++ idx_reads rsegs ++ [(0%N, first_item_size rsegs foot)].
Proof.
  intros Hx Hlen Hdlen.
  pose proof (reader_honest meta_stream_roundtrip meta_block_bytes_size reverse_search_finds_block
                meta_nonfinal_blocks meta_footer_chunk scan_endblock rsegs foot sink data Hx Hlen Hdlen) as Hh.
  unfold honest_stream in Hh. destruct (open_reader sink) as [e|s1] eqn:Ho; [discriminate|].
  exists s1. split; [reflexivity|].
  assert (Hl63 : Z.of_N (flen sink) < 2 ^ 63).
  { assert (2 ^ 40 < 2 ^ 63) by reflexivity. unfold flen. lia. }
  destruct (open_log sink s1 Hl63 Ho) as (back & foot0 & log0 & idxs & log1 & E1 & E2 & Hlog).
  destruct (written_opens _ _ _ _ Hx Hlen Hdlen) as (l0 & l1 & F1 & F2).
  rewrite F1 in E1. apply inr3_inj in E1. destruct E1 as (<- & <- & <-).
  rewrite F2 in E2. apply inr2_inj in E2. destruct E2 as (<- & <-).
  rewrite Hlog. rewrite (proj2 (seg_entries_extents rsegs)), rev_involutive.
  rewrite (written_table _ _ _ _ _ Hx Hlen Hdlen Ho).
  do 3 f_equal. unfold first_extent, first_item_size.
  destruct (all_items rsegs foot) as [|it rest] eqn:Ea.
  { unfold all_items in Ea. apply app_eq_nil in Ea. destruct Ea as [_ Ea]. discriminate. }
  cbn [map build]. change (nth_rec (?x :: ?l) 0) with x. cbn [CompOffset item_entry e_c fst]. f_equal. lia.
Qed.

(* total bytes requested while opening: at most 64 + the index blocks + the first item *)
Definition idx_total (rsegs : list seg) : N :=
  fold_right (fun sg a => (N.of_nat (length (sg_idx sg)) + a)%N) 0%N rsegs.

Lemma log_bytes_idx_reads rsegs : log_bytes (idx_reads rsegs) = idx_total rsegs.
Proof.
  induction rsegs as [|sg older IH]; cbn [idx_reads log_bytes fold_right idx_total snd]; [reflexivity|].
  fold (log_bytes (idx_reads older)) (idx_total older). rewrite IH. reflexivity.
Qed.

Lemma idx_reads_length rsegs : length (idx_reads rsegs) = length rsegs.
Proof. induction rsegs as [|sg o IHo]; cbn [idx_reads length]; [reflexivity | rewrite IHo; reflexivity]. Qed.

Theorem open_bytes_written rsegs foot sink data :
  xf_stream rsegs foot sink data ->
  Z.of_nat (length sink) < 2 ^ 40 -> Z.of_nat (length data) < 2 ^ 62 ->
  exists s1, open_reader sink = inr s1 /\
    (log_bytes (r_log s1) <= 64 + idx_total rsegs + first_item_size rsegs foot)%N /\
    length (r_log s1) = (2 + length rsegs)%nat.
Proof.
  intros Hx Hlen Hdlen. destruct (open_log_written _ _ _ _ Hx Hlen Hdlen) as (s1 & Ho & Hlog).
  exists s1. split; [exact Ho|]. rewrite Hlog. split.
  - rewrite !log_bytes_app, log_bytes_idx_reads. cbn [log_bytes fold_right snd].
    unfold fn, MaxEncBytes. lia.
  - rewrite !app_length. cbn [length].
    rewrite idx_reads_length. lia.
Qed.

(* ---- non-vacuity: the witness stream (written by the real xflate.Writer) ------------------------------ *)
Example open_log_witness :
  match open_reader w_stream with
  | inr s1 => r_log s1 = [(42, 64); (58, 30); (0, 22)]%N
  | inl _ => False
  end.
Proof. vm_compute. reflexivity. Qed.

Example open_log_written_witness :
  idx_reads [w_seg] = [(58, 30)]%N /\ first_item_size [w_seg] w_foot = 22%N /\
  ((flen w_stream - fn w_stream)%N, fn w_stream) = (42, 64)%N.
Proof. vm_compute. repeat split; reflexivity. Qed.

(* the hypotheses of [open_log_written] are met by that stream ([w_stream_shape]) *)
Example open_log_written_applies :
  exists s1, open_reader w_stream = inr s1 /\ r_log s1 = [(42, 64); (58, 30); (0, 22)]%N.
Proof.
  destruct (open_log_written [w_seg] w_foot w_stream w_plain w_stream_shape
              ltac:(vm_compute; reflexivity) ltac:(vm_compute; reflexivity)) as (s1 & Ho & Hlog).
  exists s1. split; [exact Ho|]. rewrite Hlog. vm_compute. reflexivity.
Qed.

(* the hostile stream of XFlate/Total.v (a chunk that is not what the index says): the open phase
   reads the same three ranges; the damaged chunk is not touched while opening *)
Example open_log_hostile_witness :
  match open_reader hostile_stream with
  | inr s1 => r_log s1 = [(42, 64); (58, 30); (0, 22)]%N
  | inl _ => False
  end.
Proof. vm_compute. reflexivity. Qed.

Print Assumptions open_log.
Print Assumptions open_log_hostile.
Print Assumptions open_log_written.
Print Assumptions open_bytes_written.
