(* C05 part D: a record table built from a list of ITEMS (byte string, data, type) laid out
   back to back is honest, provided each item decodes - through the Reader's chunk decoder,
   inflate (bytes ++ endBlock) - to its data with the expected consumption. *)
From V Require Import Base.Prelude Base.Prog Meta.Model Flate.Spec
  XFlate.Index XFlate.Search XFlate.Writer XFlate.Reader XFlate.Refine XFlate.RefineCheck
  XFlate.RoundTripStmt XFlate.RTIndex.
From Coq Require Import ZifyBool ZifyN ZifyNat.
Local Open Scope Z_scope.

Definition item := (list byte * list byte * Z)%type.
Definition it_bytes (it : item) : list byte := fst (fst it).
Definition it_raw (it : item) : list byte := snd (fst it).
Definition it_typ (it : item) : Z := snd it.

Definition item_entry (it : item) : entry :=
  (Z.of_nat (length (it_bytes it)), Z.of_nat (length (it_raw it)), it_typ it).

Definition items_bytes (l : list item) : list byte := flat_map it_bytes l.
Definition items_raw (l : list item) : list byte := flat_map it_raw l.

Definition item_ok (it : item) : Prop :=
  exists used,
    inflate (it_bytes it ++ endBlock) = mkIR None (it_raw it) used /\
    Z.of_N used = (if it_typ it =? footerType then Z.of_nat (length (it_bytes it))
                   else Z.of_nat (length (it_bytes it)) + 5) /\
    ((it_typ it =? deflateType) = true -> is_sync (it_bytes it) = true) /\
    (it_typ it =? unknownType) = false.

Lemma tot_c_items l : tot_c (map item_entry l) = Z.of_nat (length (items_bytes l)).
Proof.
  induction l as [|c cs IH]; cbn [map tot_c fold_right items_bytes flat_map]; [reflexivity|].
  fold (tot_c (map item_entry cs)) (items_bytes cs). rewrite IH, app_length. cbn. lia.
Qed.
Lemma tot_r_items l : tot_r (map item_entry l) = Z.of_nat (length (items_raw l)).
Proof.
  induction l as [|c cs IH]; cbn [map tot_r fold_right items_raw flat_map]; [reflexivity|].
  fold (tot_r (map item_entry cs)) (items_raw cs). rewrite IH, app_length. cbn. lia.
Qed.

Lemma nth_rec_nat T n : nth_rec T (Z.of_nat n) = nth n T rec0.
Proof.
  unfold nth_rec. replace (Z.of_nat n <? 0) with false by (symmetry; apply Z.ltb_ge; lia).
  rewrite Nat2Z.id. reflexivity.
Qed.

(* the records around item number [length pre] *)
Lemma table_around pre it post :
  let T := build 0 0 (map item_entry (pre ++ it :: post)) in
  let n := Z.of_nat (length pre) in
  nth_rec T n = mkRec (Z.of_nat (length (items_bytes pre)) + Z.of_nat (length (it_bytes it)))
                      (Z.of_nat (length (items_raw pre)) + Z.of_nat (length (it_raw it))) (it_typ it) /\
  CompOffset (nth_rec T (n - 1)) = Z.of_nat (length (items_bytes pre)) /\
  RawOffset (nth_rec T (n - 1)) = Z.of_nat (length (items_raw pre)).
Proof.
  cbv zeta. rewrite map_app, build_app. cbn [map build].
  rewrite tot_c_items, tot_r_items. cbn [Z.add].
  set (Tpre := build 0 0 (map item_entry pre)).
  assert (HlenT : length Tpre = length pre) by (unfold Tpre; rewrite build_length, map_length; reflexivity).
  split.
  - rewrite nth_rec_nat, app_nth2 by lia. rewrite HlenT, Nat.sub_diag. reflexivity.
  - destruct (Nat.eq_dec (length pre) 0) as [E0|E0].
    + destruct pre; [|discriminate]. cbn. split; reflexivity.
    + assert (Hne : Tpre <> []) by (intros E; rewrite E in HlenT; cbn [length] in HlenT; lia).
      replace (Z.of_nat (length pre) - 1) with (Z.of_nat (length pre - 1)) by lia.
      rewrite nth_rec_nat, app_nth1 by lia.
      pose proof (last_nth_rec Tpre Hne) as Hl. unfold zlen in Hl. rewrite HlenT in Hl.
      replace (Z.of_nat (length pre) - 1) with (Z.of_nat (length pre - 1)) in Hl by lia.
      rewrite nth_rec_nat in Hl. rewrite <- Hl.
      destruct (last_build0 (map item_entry pre)) as [HC HR]. fold Tpre in HC, HR.
      unfold lastC in HC. unfold lastR in HR. rewrite HC, HR, tot_c_items, tot_r_items. split; reflexivity.
Qed.

Lemma Z2N_nat n : Z.to_N (Z.of_nat n) = N.of_nat n.
Proof. lia. Qed.

Lemma slice_middle (a b c : list byte) :
  slice (a ++ b ++ c) (N.of_nat (length a)) (N.of_nat (length b)) = b.
Proof.
  unfold slice. rewrite !Nat2N.id, skipn_app, skipn_all, Nat.sub_diag. cbn [skipn app].
  rewrite firstn_app, firstn_all, Nat.sub_diag. cbn [firstn]. apply app_nil_r.
Qed.

Theorem honestb_items (items : list item) :
  items <> [] -> Forall item_ok items ->
  honestb (items_bytes items) (build 0 0 (map item_entry items)) (items_raw items) = true.
Proof.
  intros Hne Hok. unfold honestb.
  set (T := build 0 0 (map item_entry items)).
  assert (HlenT : length T = length items) by (unfold T; rewrite build_length, map_length; reflexivity).
  apply andb_true_iff. split; [apply andb_true_iff; split|].
  - apply Z.leb_le. unfold zlen. rewrite HlenT. destruct items; [contradiction | cbn [length]; lia].
  - apply Z.eqb_eq. destruct (last_build0 (map item_entry items)) as [_ HR]. fold T in HR.
    unfold lastR in HR. rewrite HR, tot_r_items. reflexivity.
  - apply forallb_forall. intros n Hn. apply in_seq in Hn. rewrite HlenT in Hn.
    destruct (nth_split items (nil, nil, 0) (proj2 Hn)) as (pre & post & Hsplit & Hlen).
    set (it := nth n items (nil, nil, 0)) in *.
    destruct (table_around pre it post) as (Hcur & HpC & HpR).
    rewrite <- Hsplit in Hcur, HpC, HpR. fold T in Hcur, HpC, HpR. rewrite Hlen in Hcur, HpC, HpR.
    rewrite Forall_forall in Hok.
    assert (Hit : item_ok it) by (apply Hok; rewrite Hsplit; apply in_or_app; right; left; reflexivity).
    destruct Hit as (used & Hinf & Hused & Hsync & Hunk).
    unfold chunk_okb. rewrite Hcur. cbn [CompOffset RawOffset RType]. rewrite HpC, HpR.
    replace (Z.of_nat (length (items_bytes pre)) + Z.of_nat (length (it_bytes it)) -
             Z.of_nat (length (items_bytes pre))) with (Z.of_nat (length (it_bytes it))) by lia.
    assert (Hslice : slice (items_bytes items) (Z.to_N (Z.of_nat (length (items_bytes pre))))
                           (Z.to_N (Z.of_nat (length (it_bytes it)))) = it_bytes it).
    { rewrite Hsplit. unfold items_bytes. rewrite flat_map_app. cbn [flat_map].
      rewrite !Z2N_nat. apply slice_middle. }
    unfold open_chunk. rewrite Hslice, Hinf. cbn [ir_out ir_err ir_used z_rest z_end z_used z_sync_ok].
    assert (Hcs : cs (items_raw items) (Z.of_nat (length (items_raw pre)))
                     (Z.of_nat (length (items_raw pre)) + Z.of_nat (length (it_raw it))) = it_raw it).
    { unfold cs. rewrite Hsplit. unfold items_raw. rewrite flat_map_app. cbn [flat_map].
      rewrite Nat2Z.id, skipn_app, skipn_all, Nat.sub_diag. cbn [skipn app].
      replace (Z.to_nat _) with (length (it_raw it)) by lia.
      rewrite firstn_app, firstn_all, Nat.sub_diag. cbn [firstn]. apply app_nil_r. }
    rewrite Hcs.
    repeat (apply andb_true_iff; split).
    + apply Z.leb_le. lia.
    + apply list_eqb_N_eq. reflexivity.
    + reflexivity.
    + rewrite Hunk. reflexivity.
    + destruct (it_typ it =? deflateType) eqn:Et; cbn [negb orb]; [apply Hsync; reflexivity | reflexivity].
    + apply Z.eqb_eq. unfold zN. exact Hused.
Qed.
