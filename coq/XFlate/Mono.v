(* xflate.Writer only ever appends to what it has handed to the underlying writer:
   for every compressor behaviour, every state and every call sequence, the earlier sink
   content is a prefix of the later one. (C12: the output at any earlier moment, e.g. when
   a Flush returned, IS a cut of the final output; C13: bytes received before a failure
   are a prefix.) *)
From V Require Import Base.Prelude Meta.Model XFlate.Index XFlate.Writer.

Section Mono.
  Variable deflate : Z -> list cop -> list byte.

  Definition ext (s s' : xw) : Prop := exists extra, w_sink s' = w_sink s ++ extra.

  Lemma ext_refl s : ext s s.
  Proof. exists []. rewrite app_nil_r. reflexivity. Qed.

  Lemma ext_trans a b c : ext a b -> ext b c -> ext a c.
  Proof. intros [x Hx] [y Hy]. exists (x ++ y). rewrite Hy, Hx, app_assoc. reflexivity. Qed.

  Lemma ext_same_sink s s' : w_sink s' = w_sink s -> ext s s'.
  Proof. intros H. exists []. rewrite app_nil_r. exact H. Qed.

  Lemma ext_zw_call s op : ext s (zw_call deflate s op).
  Proof. unfold zw_call. eexists. reflexivity. Qed.

  Lemma ext_emit s b : ext s (emit s b).
  Proof. unfold emit. eexists. reflexivity. Qed.

  Lemma ext_flush_index_tail s : ext s (flush_index_tail s).
  Proof.
    unfold flush_index_tail. destruct (meta_encode _ _) as [enc|].
    - eapply ext_trans; [apply (ext_emit s enc)|]. apply ext_same_sink. reflexivity.
    - apply ext_same_sink. reflexivity.
  Qed.

  Lemma ext_flush_full s : ext s (flush_full deflate s).
  Proof.
    unfold flush_full, flush_sync.
    set (s1 := zw_call deflate s CF).
    match goal with |- context[if ?c then flush_index_tail ?s2 else _] =>
      assert (H2 : ext s s2) by (eapply ext_trans; [apply (ext_zw_call s CF)|]; apply ext_same_sink; reflexivity);
      destruct c; [eapply ext_trans; [exact H2 | apply ext_flush_index_tail] | exact H2]
    end.
  Qed.

  Lemma ext_flush_index s : ext s (flush_index deflate s).
  Proof.
    unfold flush_index. destruct (0 <? _).
    - destruct (w_err (flush_full deflate s)).
      + apply ext_flush_full.
      + eapply ext_trans; [apply ext_flush_full | apply ext_flush_index_tail].
    - apply ext_flush_index_tail.
  Qed.

  Lemma ext_flush s m : ext s (snd (flush deflate s m)).
  Proof.
    unfold flush. destruct (w_err s); [apply ext_refl|].
    destruct m; cbn [snd]; [apply ext_zw_call | apply ext_flush_full | apply ext_flush_index | apply ext_refl].
  Qed.

  Lemma ext_write_loop fuel : forall s buf cnt, ext s (fst (write_loop deflate fuel s buf cnt)).
  Proof.
    induction fuel as [|f IH]; intros s buf cnt; cbn [write_loop]; [apply ext_refl|].
    destruct buf as [|b buf]; [apply ext_refl|].
    destruct (w_err s); [apply ext_refl|].
    destruct (w_nchk s <=? zw_in s).
    - eapply ext_trans; [apply ext_flush_full | apply IH].
    - eapply ext_trans; [apply ext_zw_call | apply IH].
  Qed.

  Lemma ext_write s buf : ext s (snd (write deflate s buf)).
  Proof.
    unfold write. destruct (w_err s); [apply ext_refl|].
    pose proof (ext_write_loop (2 * length buf + 2) s buf 0) as H.
    destruct (write_loop deflate (2 * length buf + 2) s buf 0) as [s' cnt]. cbn [fst snd] in *.
    eapply ext_trans; [exact H | apply ext_same_sink; reflexivity].
  Qed.

  Lemma ext_close s : ext s (snd (close deflate s)).
  Proof.
    unfold close. destruct (w_err s) as [[]|]; try apply ext_refl.
    match goal with |- context[if ?c then flush_index deflate s else s] =>
      set (s1 := if c then flush_index deflate s else s);
      assert (H1 : ext s s1) by (unfold s1; destruct c; [apply ext_flush_index | apply ext_refl])
    end.
    destruct (w_err s1); [exact H1|].
    destruct (meta_encode _ _) as [enc|]; cbn [snd].
    - eapply ext_trans; [exact H1|]. eapply ext_trans; [apply (ext_emit s1 enc)|]. apply ext_same_sink. reflexivity.
    - eapply ext_trans; [exact H1|]. apply ext_same_sink. reflexivity.
  Qed.

  Lemma ext_wstep s o : ext s (snd (wstep deflate s o)).
  Proof.
    destruct o as [d | m |]; cbn [wstep].
    - apply ext_write.
    - pose proof (ext_flush s m). destruct (flush deflate s m). exact H.
    - pose proof (ext_close s). destruct (close deflate s). exact H.
  Qed.

  Theorem sink_only_grows ops : forall s, ext s (snd (wrun deflate s ops)).
  Proof.
    induction ops as [|o ops IH]; intros s; cbn [wrun]; [apply ext_refl|].
    pose proof (ext_wstep s o) as H1. destruct (wstep deflate s o) as [ob s'].
    pose proof (IH s') as H2. destruct (wrun deflate s' ops) as [obs s'']. cbn [snd] in *.
    eapply ext_trans; eassumption.
  Qed.

  (* the sink after a prefix of the calls is a prefix of the sink after all of them *)
  Corollary sink_at_any_moment_is_a_cut ops1 ops2 s :
    exists extra,
      w_sink (snd (wrun deflate s (ops1 ++ ops2))) = w_sink (snd (wrun deflate s ops1)) ++ extra.
  Proof.
    revert s. induction ops1 as [|o ops1 IH]; intros s; cbn [app wrun].
    - cbn [snd]. apply sink_only_grows.
    - destruct (wstep deflate s o) as [ob s'].
      destruct (IH s') as [extra H].
      destruct (wrun deflate s' (ops1 ++ ops2)) as [obs2 sa].
      destruct (wrun deflate s' ops1) as [obs1 sb]. cbn [snd] in *.
      exists extra. exact H.
  Qed.
End Mono.
