(* The contract K1 (XFlate/RoundTripStmt.v) on the external DEFLATE compressor is
   satisfiable: the most basic compressor - every Write becomes non-final STORED blocks
   (RFC 1951 section 3.2.4), every Flush an empty non-final stored block, which is the
   sync marker 00 00 ff ff preceded by its header byte - satisfies it. Hence the theorems
   of XFlate/RoundTripAll.v, which hold for EVERY compressor satisfying K1, are not
   vacuous; their instances for this compressor have no contract hypothesis left, and
   the whole pipeline Writer -> bytes -> Reader runs inside Coq ([pipeline_ex]).

   (Go's compress/flate at level NoCompression produces the same thing up to where it
   splits the blocks.) *)
From V Require Import Base.Prelude Base.Prog Base.ProgThms Meta.Model Flate.Spec Flate.Depth
  Flate.Compose Prefix.Thms
  XFlate.Index XFlate.Writer XFlate.Reader XFlate.Refine XFlate.RefineCheck XFlate.RoundTripStmt
  XFlate.RoundTripAll.

Local Open Scope N_scope.

(* ==== the compressor ================================================================ *)
(* the largest LEN of a stored block *)
Definition max_stored : N := 65535.

(* what a byte-oriented sink keeps of a value: K1's [k_bytes] is demanded for ALL call
   sequences, also those whose "bytes" are not below 256 *)
Definition m256 (b : byte) : byte := b mod 256.

Definition le16 (n : N) : list byte := [n mod 256; (n / 256) mod 256].

(* one non-final stored block: BFINAL = 0, BTYPE = 00 and five padding bits (the byte
   0x00 at a byte boundary), LEN, NLEN = LEN xor 0xffff, the bytes.
   For the empty string this is 00 00 00 ff ff. *)
Definition stored_block (data : list byte) : list byte :=
  let n := N.of_nat (length data) in
  0 :: le16 n ++ le16 (N.lxor n 65535) ++ map m256 data.

(* a Write: blocks of at most 65535 bytes; nothing for an empty Write. [fuel]: one unit
   per block, every block takes at least one byte *)
Fixpoint stored_blocks (fuel : nat) (data : list byte) : list byte :=
  match fuel with
  | O => []
  | S f =>
    match data with
    | [] => []
    | _ => stored_block (firstn (N.to_nat max_stored) data) ++
           stored_blocks f (skipn (N.to_nat max_stored) data)
    end
  end.

Definition stored_write (data : list byte) : list byte := stored_blocks (length data) data.

(* all bytes emitted after the calls [ops] on a fresh compressor; the level is ignored *)
Definition stored_deflate (lvl : Z) (ops : list cop) : list byte :=
  flat_map (fun o => match o with CW d => stored_write d | CF => stored_block [] end) ops.

Example stored_flush_is_sync_marker : stored_block [] = [0; 0; 0; 255; 255].
Proof. reflexivity. Qed.

Example stored_deflate_ex :
  stored_deflate 6 [CW [1;2;3]; CF; CW []; CW [44]; CF] =
  [0; 3; 0; 252; 255; 1; 2; 3;   0; 0; 0; 255; 255;   0; 1; 0; 254; 255; 44;   0; 0; 0; 255; 255].
Proof. vm_compute. reflexivity. Qed.

(* ==== reading bit fields and bytes ==================================================== *)
Lemma bits_lsb_val_bits b : bits_lsb b = val_bits 8 b.
Proof. unfold bits_lsb. rewrite !N.testbit_odd. reflexivity. Qed.

Lemma bits_val_app l1 l2 :
  bits_val (l1 ++ l2) = bits_val l1 + 2 ^ N.of_nat (length l1) * bits_val l2.
Proof.
  induction l1 as [|b r IH]; cbn [app bits_val length].
  - change (2 ^ N.of_nat 0) with 1. lia.
  - rewrite IH, Nat2N.inj_succ, N.pow_succ_r'. lia.
Qed.

Lemma bits_val_bits_lsb b : bits_val (bits_lsb b) = b mod 256.
Proof. rewrite bits_lsb_val_bits, bits_val_val_bits. reflexivity. Qed.

(* reading [length l] bits LSB-first from a source that starts with [l] *)
Lemma run_bits_list l rest pos out len :
  run (bits_lsbf (length l)) (mkAst (l ++ rest) pos out len) =
  Done (bits_val l) (mkAst rest (pos + N.of_nat (length l)) out len).
Proof.
  pose proof (run_bits_lsbf (length l) (bits_val l) rest pos out len) as H.
  rewrite val_bits_bits_val in H. rewrite H, N.mod_small by apply bits_val_bound.
  reflexivity.
Qed.

Lemma run_byte b rest pos out len :
  run (bits_lsbf 8) (mkAst (bits_lsb b ++ rest) pos out len) =
  Done (b mod 256) (mkAst rest (pos + 8) out len).
Proof.
  change 8%nat with (length (bits_lsb b)). rewrite run_bits_list, bits_val_bits_lsb.
  reflexivity.
Qed.

Lemma run_le16 a b rest pos out len :
  run (rbits 16) (mkAst (bits_lsb a ++ bits_lsb b ++ rest) pos out len) =
  Done (a mod 256 + 256 * (b mod 256)) (mkAst rest (pos + 16) out len).
Proof.
  rewrite app_assoc.
  change (rbits 16) with (bits_lsbf (length (bits_lsb a ++ bits_lsb b))).
  rewrite run_bits_list, bits_val_app, !bits_val_bits_lsb. reflexivity.
Qed.

(* the data of a stored block: one byte at a time *)
Lemma run_raw_bytes data rest pos out len :
  run (raw_bytes (length data)) (mkAst (bytes_to_bits data ++ rest) pos out len) =
  Done tt (mkAst rest (pos + 8 * N.of_nat (length data)) (rev (map m256 data) ++ out)
                 (len + N.of_nat (length data))).
Proof.
  revert pos out len. induction data as [|b r IH]; intros pos out len.
  - cbn [length raw_bytes run bytes_to_bits flat_map app map rev]. f_equal. f_equal; lia.
  - cbn [length raw_bytes bytes_to_bits flat_map map rev]. fold (bytes_to_bits r).
    rewrite run_bind, <- app_assoc, run_byte. cbn [run a_in a_pos a_out a_len].
    rewrite IH. f_equal. unfold m256. rewrite <- app_assoc. cbn [app]. f_equal; lia.
Qed.

(* ==== one stored block, as read by the RFC 1951 model ================================ *)
Lemma lxor_ffff_bound n : n < 65536 -> N.lxor n 65535 < 65536.
Proof.
  intros H. destruct (N.eq_dec (N.lxor n 65535) 0) as [E|E]; [rewrite E; lia|].
  change 65536 with (2 ^ 16). apply N.log2_lt_pow2; [lia|].
  pose proof (N.log2_lxor n 65535) as L. change (N.log2 65535) with 15 in L.
  destruct (N.eq_dec n 0) as [E0|E0].
  - subst n. change (N.log2 0) with 0 in L. lia.
  - assert (Hl : N.log2 n < 16) by (apply N.log2_lt_pow2; [lia | exact H]). lia.
Qed.

Lemma lxor_ffff_check n : N.lxor n (N.lxor n 65535) = 65535.
Proof. rewrite <- N.lxor_assoc, N.lxor_nilpotent, N.lxor_0_l. reflexivity. Qed.

Lemma le16_value n : n < 65536 -> n mod 256 mod 256 + 256 * ((n / 256) mod 256 mod 256) = n.
Proof. intros H. lia. Qed.

(* the block at a byte-aligned position of the source, anything behind it, any output so
   far, any loop depth: BFINAL = 0, exactly the block is consumed, exactly its data is
   appended *)
Theorem run_stored_block d data rest pos out len :
  pos mod 8 = 0 -> N.of_nat (length data) < 65536 ->
  run (one_block d) (mkAst (bytes_to_bits (stored_block data) ++ rest) pos out len) =
  Done false (mkAst rest (pos + 8 * N.of_nat (5 + length data)) (rev (map m256 data) ++ out)
                    (len + N.of_nat (length data))).
Proof.
  intros Hp Hn. unfold stored_block. set (n := N.of_nat (length data)) in *.
  pose proof (lxor_ffff_bound n Hn) as Hx.
  unfold le16. cbn [app bytes_to_bits flat_map]. fold (bytes_to_bits (map m256 data)).
  rewrite <- !app_assoc.
  (* the header byte: BFINAL, BTYPE, padding *)
  change (bits_lsb 0) with ([false] ++ [false; false] ++ [false; false; false; false; false]).
  rewrite <- !app_assoc.
  unfold one_block. rewrite run_bind.
  change (rbits 1) with (bits_lsbf (length [false])). rewrite run_bits_list.
  rewrite run_bind.
  change (rbits 2) with (bits_lsbf (length [false; false])). rewrite run_bits_list.
  change (bits_val [false]) with 0. change (bits_val [false; false]) with 0.
  change (0 =? 0) with true. change (0 =? 1) with false. cbv iota.
  rewrite run_bind.
  cbn [run a_in a_pos a_out a_len length].
  replace (pad_count (pos + N.of_nat 1 + N.of_nat 2)) with 5 by (unfold pad_count; lia).
  change (N.to_nat 5) with 5%nat. cbn [app length Nat.leb firstn skipn].
  (* LEN, NLEN *)
  rewrite run_bind, run_le16. rewrite run_bind, run_le16.
  rewrite (le16_value n Hn), (le16_value _ Hx), lxor_ffff_check.
  rewrite run_bind. change (65535 =? 65535) with true. cbn [assert_p run].
  destruct (n =? 0) eqn:E0.
  - (* the empty block *)
    apply N.eqb_eq in E0.
    assert (Ed : data = []) by (destruct data; [reflexivity | subst n; cbn [length] in E0; lia]).
    subst data. cbn [length run map bytes_to_bits flat_map app rev Nat.add].
    f_equal. f_equal; lia.
  - unfold n at 1. rewrite Nat2N.id.
    replace (length data) with (length (map m256 data)) at 1 by apply map_length.
    rewrite run_raw_bytes. rewrite map_map, map_length.
    assert (Em : map (fun x => m256 (m256 x)) data = map m256 data).
    { apply map_ext. intros x. unfold m256. apply N.mod_mod. lia. }
    rewrite Em. f_equal. f_equal; lia.
Qed.

(* ==== everything emitted is a byte ==================================================== *)
Lemma stored_block_bytes data b : In b (stored_block data) -> b < 256.
Proof.
  unfold stored_block, le16. cbn [app In]. intros H.
  destruct H as [H|[H|[H|[H|[H|H]]]]]; try (subst b; lia).
  apply in_map_iff in H. destruct H as [x [Hx _]]. subst b. unfold m256. lia.
Qed.

Lemma stored_blocks_bytes f data b : In b (stored_blocks f data) -> b < 256.
Proof.
  revert data. induction f as [|f IH]; intros data H; cbn [stored_blocks] in H; [contradiction|].
  destruct data as [|x r]; [contradiction|].
  apply in_app_or in H. destruct H as [H|H]; [exact (stored_block_bytes _ _ H) | exact (IH _ H)].
Qed.

Lemma stored_deflate_bytes lvl ops b : In b (stored_deflate lvl ops) -> b < 256.
Proof.
  unfold stored_deflate. intros H. apply in_flat_map in H. destruct H as [o [_ H]].
  destruct o as [d|]; [exact (stored_blocks_bytes _ _ _ H) | exact (stored_block_bytes _ _ H)].
Qed.

(* ==== the output is a sequence of non-final blocks for the data written ================ *)
Lemma nonfinal_blocks_nil : nonfinal_blocks [] = Some [].
Proof. reflexivity. Qed.

Lemma nonfinal_stored_block data :
  N.of_nat (length data) < 65536 -> nonfinal_blocks (stored_block data) = Some (map m256 data).
Proof.
  intros Hn. set (c := stored_block data).
  pose proof (run_stored_block (depth_for (length c)) data [] 0 [] 0 eq_refl Hn) as E.
  rewrite app_nil_r in E. fold c in E.
  match type of E with _ = Done false ?s1 =>
    rewrite (nonfinal_blocks_intro c (depth_for (length c)) s1 (le_n _)) end.
  - cbn [a_out]. rewrite app_nil_r, rev_involutive. reflexivity.
  - eapply nfs_step; [exact E | apply nfs_refl].
  - reflexivity.
Qed.

Lemma max_stored_pos : (1 <= N.to_nat max_stored)%nat.
Proof. unfold max_stored. lia. Qed.

Lemma nonfinal_stored_blocks f data :
  (length data <= f)%nat -> nonfinal_blocks (stored_blocks f data) = Some (map m256 data).
Proof.
  revert data. induction f as [|f IH]; intros data Hf.
  - destruct data; [reflexivity | cbn [length] in Hf; lia].
  - cbn [stored_blocks]. destruct data as [|x r] eqn:Ed; [reflexivity|]. rewrite <- Ed in *.
    pose proof max_stored_pos as HM.
    rewrite <- (firstn_skipn (N.to_nat max_stored) data) at 3. rewrite map_app.
    apply scan_app.
    + intros b. apply stored_block_bytes.
    + intros b. apply stored_blocks_bytes.
    + apply nonfinal_stored_block.
      pose proof (firstn_le_length (N.to_nat max_stored) data) as L. unfold max_stored in *. lia.
    + apply IH. rewrite skipn_length.
      assert (Hd : (1 <= length data)%nat) by (rewrite Ed; cbn [length]; lia). lia.
Qed.

Lemma map_m256_id l : (forall b, In b l -> b < 256) -> map m256 l = l.
Proof.
  intros H. rewrite <- (map_id l) at 2. apply map_ext_in. intros b Hb. unfold m256.
  apply N.mod_small. exact (H b Hb).
Qed.

Theorem stored_deflate_nonfinal_blocks lvl ops :
  nonfinal_blocks (stored_deflate lvl ops) = Some (map m256 (cops_data ops)).
Proof.
  induction ops as [|o r IH]; [reflexivity|].
  change (stored_deflate lvl (o :: r))
    with ((match o with CW d => stored_write d | CF => stored_block [] end) ++ stored_deflate lvl r).
  change (cops_data (o :: r)) with ((match o with CW d => d | CF => [] end) ++ cops_data r).
  rewrite map_app. apply scan_app.
  - intros b. destruct o; [apply stored_blocks_bytes | apply stored_block_bytes].
  - intros b. apply stored_deflate_bytes.
  - destruct o as [d|]; [apply nonfinal_stored_blocks; apply le_n | reflexivity].
  - exact IH.
Qed.

Lemma stored_deflate_app lvl a b :
  stored_deflate lvl (a ++ b) = stored_deflate lvl a ++ stored_deflate lvl b.
Proof. unfold stored_deflate. apply flat_map_app. Qed.

Lemma is_sync_app l : is_sync (l ++ [0; 0; 0; 255; 255]) = true.
Proof.
  unfold is_sync. rewrite app_length. cbn [length].
  replace (length l + 5 - 4)%nat with (length l + 1)%nat by lia.
  rewrite skipn_app, skipn_all2 by lia.
  replace (length l + 1 - length l)%nat with 1%nat by lia. cbn [skipn app list_eqb N.eqb Pos.eqb andb].
  apply Nat.leb_le. lia.
Qed.

(* ==== K1 is satisfiable ================================================================ *)
Theorem stored_deflate_K1 : K1 stored_deflate.
Proof.
  constructor.
  - intros lvl. reflexivity.
  - intros lvl ops op. exists (stored_deflate lvl [op]). apply stored_deflate_app.
  - intros lvl ops b. apply stored_deflate_bytes.
  - intros lvl ops _ Hb. cbv zeta. rewrite stored_deflate_app.
    change (stored_deflate lvl [CF]) with [0; 0; 0; 255; 255].
    split; [|split].
    + rewrite <- (app_nil_r (cops_data ops)), <- (map_m256_id (cops_data ops) Hb) at 1.
      apply scan_app.
      * intros b. apply stored_deflate_bytes.
      * intros b Hi. cbn [In] in Hi. repeat (destruct Hi as [Hi|Hi]; [subst b; lia|]). contradiction.
      * apply stored_deflate_nonfinal_blocks.
      * reflexivity.
    + apply is_sync_app.
    + rewrite app_length. cbn [length]. lia.
Qed.

(* non-vacuity of the premises used above, and the block splitting at work: a Write of
   65540 bytes becomes a block of 65535 and a block of 5 bytes *)
Example stored_split_ex :
  let d := repeat 7 (N.to_nat 65540) in
  let c := stored_deflate 0 [CW d; CF] in
  N.of_nat (length c) = 65540 + 5 + 5 + 5 /\
  firstn 5 c = [0; 255; 255; 0; 0] /\
  firstn 5 (skipn (N.to_nat 65540) c) = [0; 5; 0; 250; 255] /\
  level_ok 0 = true /\ (forall b, In b (cops_data [CW d; CF]) -> b < 256).
Proof.
  cbv zeta. split; [vm_compute; reflexivity|]. split; [vm_compute; reflexivity|].
  split; [vm_compute; reflexivity|]. split; [reflexivity|].
  intros b Hb. cbn [cops_data flat_map] in Hb. rewrite !app_nil_r in Hb.
  apply repeat_spec in Hb. subst b. lia.
Qed.

(* ==== the main theorems, with no contract hypothesis left ============================== *)
(* C05 for the stored compressor *)
Corollary xflate_roundtrip_stored :
  forall lvl chunk idx s0 ops obs s,
    new_writer lvl chunk idx = inr s0 ->
    wrun stored_deflate s0 (ops ++ [WClose]) = (obs, s) ->
    Forall (fun ob => snd ob = None \/ snd ob = Some EInvalid) obs ->
    snd (last obs (0, None)) = None ->
    (forall b, In b (wops_data ops) -> b < 256) ->
    (Z.of_nat (length (w_sink s)) < 2 ^ 40)%Z ->
    (Z.of_nat (length (wops_data ops)) < 2 ^ 62)%Z ->
    honest_stream (w_sink s) (wops_data ops) = true.
Proof. exact (xflate_roundtrip stored_deflate stored_deflate_K1). Qed.

(* C06 for the stored compressor *)
Corollary xflate_is_deflate_stored :
  forall lvl chunk idx s0 ops obs s,
    new_writer lvl chunk idx = inr s0 ->
    wrun stored_deflate s0 (ops ++ [WClose]) = (obs, s) ->
    Forall (fun ob => snd ob = None \/ snd ob = Some EInvalid) obs ->
    snd (last obs (0, None)) = None ->
    (forall b, In b (wops_data ops) -> b < 256) ->
    inflate (w_sink s) = mkIR None (wops_data ops) (N.of_nat (length (w_sink s))).
Proof. exact (xflate_is_deflate stored_deflate stored_deflate_K1). Qed.

(* C05 + C07 for the stored compressor *)
Corollary xflate_written_stream_is_a_readseeker_stored :
  forall lvl chunk idx s0 ops obs s,
    new_writer lvl chunk idx = inr s0 ->
    wrun stored_deflate s0 (ops ++ [WClose]) = (obs, s) ->
    Forall (fun ob => snd ob = None \/ snd ob = Some EInvalid) obs ->
    snd (last obs (0, None)) = None ->
    (forall b, In b (wops_data ops) -> b < 256) ->
    (Z.of_nat (length (w_sink s)) < 2 ^ 40)%Z ->
    (Z.of_nat (length (wops_data ops)) < 2 ^ 62)%Z ->
    exists s1, open_reader (w_sink s) = inr s1 /\
      forall rops, fst (rrun s1 rops) = fst (sp_run (wops_data ops) (mkSp 0 None) rops).
Proof. exact (xflate_written_stream_is_a_readseeker stored_deflate stored_deflate_K1). Qed.

(* the theorems are not vacuous: the contract has a model *)
Corollary K1_satisfiable : exists deflate, K1 deflate.
Proof. exists stored_deflate. exact stored_deflate_K1. Qed.

(* ==== the whole pipeline, executed inside Coq ========================================== *)
(* Writer (level, ChunkSize, IndexSize) over the stored compressor, the history [wops]
   then Close; the Reader opened on the bytes the Writer produced, the history [rops] *)
Definition pipeline (lvl chunk idx : Z) (wops : list wop) (rops : list rop)
  : option (list (N * option err) * nat * list robs) :=
  match new_writer lvl chunk idx with
  | inl _ => None
  | inr s0 =>
    let '(obs, s) := wrun stored_deflate s0 (wops ++ [WClose]) in
    match open_reader (w_sink s) with
    | inl _ => None
    | inr s1 => Some (obs, length (w_sink s), fst (rrun s1 rops))
    end
  end.

(* ChunkSize 4, IndexSize 2: the second Write crosses two chunk boundaries (and the second
   chunk fills the index, which is written out), then a FlushFull, a Write, a FlushIndex, a
   Write, an invalid flush mode (refused), Close *)
Definition pipe_ops : list wop :=
  [WWrite [1; 2; 3]; WWrite [4; 5; 6; 7; 8; 9]; WFlush FlushFull; WWrite [10; 11];
   WFlush FlushIndex; WWrite [12]; WFlush FlushInvalid].

Example pipeline_ex :
  pipeline 6 4 2 pipe_ops [RRead 5; RSeek 2 0; RRead 100; RSeek (-4) 2; RRead 2; RClose] =
  Some ([(3, None); (6, None); (0, None); (2, None); (0, None); (1, None); (0, Some EInvalid);
         (0, None)],
        190%nat,
        [ORead [1; 2; 3; 4; 5] None; OSeek 2 None;
         ORead [3; 4; 5; 6; 7; 8; 9; 10; 11; 12] (Some EEOF);
         OSeek 8 None; ORead [9; 10] None; OClose None]).
Proof. vm_compute. reflexivity. Qed.

(* the same history satisfies every hypothesis of the three corollaries, so these are not
   vacuous either; their conclusions for it, obtained from the theorems (not by running
   the Reader) *)
Example stored_corollaries_ex :
  exists s0 obs s,
    new_writer 6 4 2 = inr s0 /\
    wrun stored_deflate s0 (pipe_ops ++ [WClose]) = (obs, s) /\
    honest_stream (w_sink s) [1; 2; 3; 4; 5; 6; 7; 8; 9; 10; 11; 12] = true /\
    inflate (w_sink s) = mkIR None [1; 2; 3; 4; 5; 6; 7; 8; 9; 10; 11; 12] 190 /\
    exists s1, open_reader (w_sink s) = inr s1 /\
      forall rops, fst (rrun s1 rops) =
                   fst (sp_run [1; 2; 3; 4; 5; 6; 7; 8; 9; 10; 11; 12] (mkSp 0 None) rops).
Proof.
  destruct (new_writer 6 4 2) as [e|s0] eqn:E0; [vm_compute in E0; discriminate|].
  destruct (wrun stored_deflate s0 (pipe_ops ++ [WClose])) as [obs s] eqn:E1.
  exists s0, obs, s. split; [reflexivity|]. split; [exact E1|].
  assert (Hobs : Forall (fun ob => snd ob = None \/ snd ob = Some EInvalid) obs /\
                 snd (last obs (0, None)) = None /\ length (w_sink s) = 190%nat).
  { vm_compute in E0. injection E0 as E0. subst s0.
    vm_compute in E1. injection E1 as E1 E2. subst obs s. cbn [w_sink].
    split; [|split; reflexivity].
    repeat (constructor; [cbn [snd]; first [left; reflexivity | right; reflexivity]|]).
    constructor. }
  destruct Hobs as [H1 [H2 H3]].
  assert (Hb : forall b, In b (wops_data pipe_ops) -> b < 256).
  { intros b Hb. cbn [wops_data pipe_ops flat_map app In] in Hb.
    repeat (destruct Hb as [Hb|Hb]; [subst b; lia|]). contradiction. }
  assert (L1 : (Z.of_nat (length (w_sink s)) < 2 ^ 40)%Z) by (rewrite H3; reflexivity).
  assert (L2 : (Z.of_nat (length (wops_data pipe_ops)) < 2 ^ 62)%Z) by reflexivity.
  change [1; 2; 3; 4; 5; 6; 7; 8; 9; 10; 11; 12] with (wops_data pipe_ops).
  split; [exact (xflate_roundtrip_stored 6 4 2 s0 pipe_ops obs s E0 E1 H1 H2 Hb L1 L2)|].
  split.
  - rewrite (xflate_is_deflate_stored 6 4 2 s0 pipe_ops obs s E0 E1 H1 H2 Hb), H3. reflexivity.
  - exact (xflate_written_stream_is_a_readseeker_stored 6 4 2 s0 pipe_ops obs s E0 E1 H1 H2 Hb L1 L2).
Qed.

Print Assumptions stored_deflate_K1.
Print Assumptions xflate_roundtrip_stored.
Print Assumptions xflate_is_deflate_stored.
Print Assumptions xflate_written_stream_is_a_readseeker_stored.
